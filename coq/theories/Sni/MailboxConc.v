(** Interleaving semantics for the state that keeps concurrent connections
    apart, and the isolation theorems for every reachable state.

    Threads:
    - a side dial (endpointClient.Dial with Siding): k.ID := ids.next();
      box := office.newBox(k); the dial RPC; box.receive(ctx); and, deferred on
      every path after newBox, box.cleanUp();
    - a side websocket arriving at the proxy (serveBackSide): one
      office.deliver with whatever id and key the request carried - honest or
      forged;
    - an RPC handler on the endpoint touching the session table: one
      connections.add / get / remove / shutdown.

    A step is one critical section of one thread.  That a critical section is
    atomic is what the translator's lock skeleton shows (Gen/RouteConsts.v:
    every access to connMailOffice.m, sessionID.id, connections.m/closed lies
    in a method of its type after `mu.Lock(); defer mu.Unlock()`;
    obligations in RouteGen.v).  Which thread moves next, how many threads
    there are and what they carry is arbitrary. *)
From Coq Require Import List Arith NArith Bool Lia.
From Verif Require Import Sni.Mailbox Sni.MailboxProofs.
Import ListNotations.
Local Open Scope N_scope.

Inductive tkind :=
| KDial (key : N)
| KDeliver (id key tag : N)
| KTable (p : cop).

Record thread := mkTh {
  th_kind : tkind;
  th_pc : nat;
  th_id : option N;       (* dial: the id obtained from next() *)
  th_h : option nat;      (* dial: the handle of its box *)
  th_got : option N;      (* dial: the connection receive returned *)
  th_obs : option cobs    (* table handler: what the operation returned *)
}.

Definition th_new (k : tkind) : thread := mkTh k 0 None None None None.

Record sys := mkSys {
  sy_office : office;
  sy_table : ctable;
  sy_threads : list thread;
  sy_trace : list op;      (* ghost: the office operations executed, in order *)
  sy_ctrace : list cop     (* ghost: the table operations executed, in order *)
}.

Definition sys_init (ks : list tkind) : sys :=
  mkSys office_init ctable_init (map th_new ks) [] [].

Fixpoint upd {A} (i : nat) (f : A -> A) (l : list A) : list A :=
  match l, i with
  | [], _ => []
  | x :: r, O => f x :: r
  | x :: r, S i' => x :: upd i' f r
  end.

Definition set_thread (s : sys) (i : nat) (t : thread) (o : office) (p : list op) : sys :=
  mkSys o (sy_table s) (upd i (fun _ => t) (sy_threads s)) (sy_trace s ++ p) (sy_ctrace s).

(** One critical section of thread [i].  [choice]: the scheduler's and the
    environment's choices at that point (dial: 0 = the RPC succeeded / select
    prefers the connection, 1 = select prefers the closed channel, 2 = the RPC
    failed / the context was cancelled).  [None]: thread [i] cannot move (it
    is finished, or blocked in receive). *)
Definition sys_step (s : sys) (i : nat) (choice : nat) : option sys :=
  match nth_error (sy_threads s) i with
  | None => None
  | Some t =>
      let o := sy_office s in
      match th_kind t, th_pc t with
      | KDial key, 0%nat =>
          match step o ONext with
          | (o', VId id) => Some (set_thread s i (mkTh (th_kind t) 1 (Some id) None None None) o' [ONext])
          | _ => None
          end
      | KDial key, 1%nat =>
          match th_id t with
          | Some id =>
              match step o (ONewBox id key) with
              | (o', VHandle h) =>
                  Some (set_thread s i (mkTh (th_kind t) 2 (th_id t) (Some h) None None) o' [ONewBox id key])
              | _ => None
              end
          | None => None
          end
      | KDial key, 2%nat =>
          (* the dial RPC: no shared state; it succeeds or fails *)
          Some (set_thread s i (mkTh (th_kind t) (if Nat.eqb choice 2 then 4 else 3)
                                     (th_id t) (th_h t) None None) o [])
      | KDial key, 3%nat =>
          match th_h t with
          | Some h =>
              match step o (OReceive h (Nat.eqb choice 1)) with
              | (o', VConn tag) =>
                  Some (set_thread s i (mkTh (th_kind t) 4 (th_id t) (th_h t) (Some tag) None) o'
                          [OReceive h (Nat.eqb choice 1)])
              | (o', VClosed) =>
                  Some (set_thread s i (mkTh (th_kind t) 4 (th_id t) (th_h t) None None) o'
                          [OReceive h (Nat.eqb choice 1)])
              | (o', VBlocked) =>
                  if Nat.eqb choice 2      (* ctx.Done() *)
                  then Some (set_thread s i (mkTh (th_kind t) 4 (th_id t) (th_h t) None None) o'
                               [OReceive h (Nat.eqb choice 1)])
                  else None
              | _ => None
              end
          | None => None
          end
      | KDial key, 4%nat =>
          match th_h t with
          | Some h =>
              let '(o', _) := step o (OCleanUp h) in
              Some (set_thread s i (mkTh (th_kind t) 5 (th_id t) (th_h t) (th_got t) None) o' [OCleanUp h])
          | None => None
          end
      | KDeliver id key tag, 0%nat =>
          let '(o', _) := step o (ODeliver id key tag) in
          Some (set_thread s i (mkTh (th_kind t) 1 None None None None) o' [ODeliver id key tag])
      | KTable p, 0%nat =>
          let '(tb', v) := cstep (sy_table s) p in
          Some (mkSys o tb' (upd i (fun _ => mkTh (th_kind t) 1 None None None (Some v)) (sy_threads s))
                  (sy_trace s) (sy_ctrace s ++ [p]))
      | _, _ => None
      end
  end.

(** Reachable states: any threads, any schedule, any choices. *)
Inductive reach (ks : list tkind) : sys -> Prop :=
| reach_init : reach ks (sys_init ks)
| reach_step s i c s' : reach ks s -> sys_step s i c = Some s' -> reach ks s'.

(** * Lists with one element replaced *)

Lemma upd_nth_same {A} i (f : A -> A) l : nth_error (upd i f l) i = option_map f (nth_error l i).
Proof. revert i; induction l as [|x r IH]; intros [|i]; cbn; auto. Qed.

Lemma upd_nth_other {A} i j (f : A -> A) l : i <> j -> nth_error (upd i f l) j = nth_error l j.
Proof. revert i j; induction l as [|x r IH]; intros [|i] [|j] H; cbn; auto; congruence. Qed.

(** * run, one operation at the end *)

Lemma run_snoc : forall ps o p,
  run o (ps ++ [p]) =
  let '(o1, vs) := run o ps in let '(o2, v) := step o1 p in (o2, vs ++ [v]).
Proof.
  induction ps as [|q ps IH]; intros o p; cbn [run app].
  - destruct (step o p) as [o2 v]. reflexivity.
  - destruct (step o q) as [o1 v1]. rewrite IH.
    destruct (run o1 ps) as [o2 vs]. destruct (step o2 p) as [o3 v]. reflexivity.
Qed.

Lemma crun_snoc : forall ps t p,
  crun t (ps ++ [p]) =
  let '(t1, vs) := crun t ps in let '(t2, v) := cstep t1 p in (t2, vs ++ [v]).
Proof.
  induction ps as [|q ps IH]; intros t p; cbn [crun app].
  - destruct (cstep t p) as [t2 v]. reflexivity.
  - destruct (cstep t q) as [t1 v1]. rewrite IH.
    destruct (crun t1 ps) as [t2 vs]. destruct (cstep t2 p) as [t3 v]. reflexivity.
Qed.

Lemma newbox_ids_app a b : newbox_ids (a ++ b) = newbox_ids a ++ newbox_ids b.
Proof.
  induction a as [|p a IH]; [reflexivity|]. cbn [app]. rewrite (newbox_ids_cons p (a ++ b)), IH.
  rewrite (newbox_ids_cons p a). now rewrite app_assoc.
Qed.

(** * The invariant *)

Definition dial_of (t : thread) : option N :=
  match th_kind t with KDial key => Some key | _ => None end.

Record sinv (s : sys) : Prop := mkInv {
  i_run : exists vs, run office_init (sy_trace s) = (sy_office s, vs);
  i_crun : exists vs, crun ctable_init (sy_ctrace s) = (sy_table s, vs);
  i_below : forall i t a, nth_error (sy_threads s) i = Some t -> th_id t = Some a ->
              a < o_next (sy_office s);
  i_distinct : forall i j ti tj a,
      nth_error (sy_threads s) i = Some ti -> nth_error (sy_threads s) j = Some tj ->
      th_id ti = Some a -> th_id tj = Some a -> i = j;
  i_box : forall i t h, nth_error (sy_threads s) i = Some t -> th_h t = Some h ->
      exists key a b, th_kind t = KDial key /\ th_id t = Some a /\
        nth_error (o_boxes (sy_office s)) h = Some b /\ bx_id b = a /\ bx_key b = key;
  i_boxed : forall a, In a (newbox_ids (sy_trace s)) ->
      exists i t, nth_error (sy_threads s) i = Some t /\ th_id t = Some a /\ th_h t <> None;
  i_got : forall i t x, nth_error (sy_threads s) i = Some t -> th_got t = Some x ->
      exists h, th_h t = Some h /\ In (h, x) (o_recv (sy_office s));
  i_deliv : forall id key tag, In (ODeliver id key tag) (sy_trace s) ->
      exists i t, nth_error (sy_threads s) i = Some t /\ th_kind t = KDeliver id key tag /\ th_pc t = 1%nat;
  i_added : forall c, In (CAdd c) (sy_ctrace s) ->
      exists i t, nth_error (sy_threads s) i = Some t /\ th_kind t = KTable (CAdd c) /\ th_pc t = 1%nat;
  i_found : forall i t id c, nth_error (sy_threads s) i = Some t ->
      th_kind t = KTable (CGet id) -> th_obs t = Some (WFound c) ->
      c_sess c = id /\ In (CAdd c) (sy_ctrace s);
  i_idle : forall i t, nth_error (sy_threads s) i = Some t -> th_id t = None -> th_h t = None;
  i_pc : forall i t, nth_error (sy_threads s) i = Some t ->
      (th_pc t = 0%nat -> th_id t = None) /\ (th_pc t = 1%nat -> th_h t = None)
}.

Lemma nth_error_map_new ks i t :
  nth_error (map th_new ks) i = Some t -> exists k, t = th_new k.
Proof.
  rewrite nth_error_map. destruct (nth_error ks i); [|discriminate]. intros [= <-]. eauto.
Qed.

Lemma sinv_init ks : sinv (sys_init ks).
Proof.
  constructor; cbn [sys_init sy_office sy_table sy_threads sy_trace sy_ctrace].
  - eexists. reflexivity.
  - eexists. reflexivity.
  - intros i t a Ht. apply nth_error_map_new in Ht as [k ->]. discriminate.
  - intros i j ti tj a Hi. apply nth_error_map_new in Hi as [k ->]. discriminate.
  - intros i t h Ht. apply nth_error_map_new in Ht as [k ->]. discriminate.
  - intros a [].
  - intros i t x Ht. apply nth_error_map_new in Ht as [k ->]. discriminate.
  - intros id key tag [].
  - intros c [].
  - intros i t id c Ht. apply nth_error_map_new in Ht as [k ->]. discriminate.
  - intros i t Ht. apply nth_error_map_new in Ht as [k ->]. reflexivity.
  - intros i t Ht. apply nth_error_map_new in Ht as [k ->]. split; reflexivity.
Qed.

(** Boxes keep their id and key, and the counter never decreases, whatever
    the operation. *)
Lemma step_next_mono o p o' v : step o p = (o', v) -> o_next o <= o_next o'.
Proof.
  intros H. destruct (run_ids [p] o o' [v]) as (Hle & _).
  { cbn [run]. rewrite H. reflexivity. }
  exact Hle.
Qed.

Lemma step_keeps_box o p o' v h b :
  step o p = (o', v) -> nth_error (o_boxes o) h = Some b ->
  exists b', nth_error (o_boxes o') h = Some b' /\ bx_id b' = bx_id b /\ bx_key b' = bx_key b.
Proof.
  intros H Hb. destruct (step_stable o p o' v H) as (Sbox & _).
  destruct (Sbox h b Hb) as (b' & Hb' & Hi & Hk). eauto.
Qed.

Lemma step_keeps_recv o p o' v e :
  step o p = (o', v) -> In e (o_recv o) -> In e (o_recv o').
Proof. intros H. destruct (step_stable o p o' v H) as (_ & _ & S). apply S. Qed.

(** * One office step of one thread preserves the invariant *)

Lemma sinv_set_thread s i t t' o' p v :
  sinv s -> nth_error (sy_threads s) i = Some t ->
  step (sy_office s) p = (o', v) ->
  th_kind t' = th_kind t ->
  (forall q, th_kind t <> KTable q) ->
  (forall id key tag, th_kind t = KDeliver id key tag -> th_pc t = 0%nat) ->
  (forall a, th_id t' = Some a -> a < o_next o') ->
  (forall a, th_id t' = Some a ->
     th_id t = Some a \/
     (forall j tj, nth_error (sy_threads s) j = Some tj -> th_id tj <> Some a)) ->
  (forall h, th_h t' = Some h ->
     exists key a b, th_kind t' = KDial key /\ th_id t' = Some a /\
       nth_error (o_boxes o') h = Some b /\ bx_id b = a /\ bx_key b = key) ->
  (forall a, th_id t = Some a -> th_h t <> None -> th_id t' = Some a /\ th_h t' <> None) ->
  (forall a, In a (newbox_ids [p]) -> th_id t' = Some a /\ th_h t' <> None) ->
  (forall x, th_got t' = Some x -> exists h, th_h t' = Some h /\ In (h, x) (o_recv o')) ->
  (forall id key tag, p = ODeliver id key tag ->
     th_kind t' = KDeliver id key tag /\ th_pc t' = 1%nat) ->
  (th_id t' = None -> th_h t' = None) ->
  ((th_pc t' = 0%nat -> th_id t' = None) /\ (th_pc t' = 1%nat -> th_h t' = None)) ->
  sinv (set_thread s i t' o' [p]).
Proof.
  intros Hinv Ht Hstep Hkind Hnot Hdpc Hbelow Hfresh Hbox Hkeep Hnew Hgot Hdel Hidle Hpc.
  destruct Hinv as [Irun Icrun Ibelow Idist Ibox Iboxed Igot Ideliv Iadded Ifound Iidle Ipc].
  pose proof (step_next_mono _ _ _ _ Hstep) as Hmono.
  assert (Hlt : (i < length (sy_threads s))%nat) by (apply nth_error_Some; congruence).
  (* a thread of the new state is the moved one or an old one *)
  assert (Hth : forall j tj, nth_error (upd i (fun _ => t') (sy_threads s)) j = Some tj ->
            (j = i /\ tj = t') \/ (j <> i /\ nth_error (sy_threads s) j = Some tj)).
  { intros j tj H. destruct (Nat.eq_dec i j) as [<-|Hne].
    - rewrite upd_nth_same, Ht in H. injection H as <-. auto.
    - rewrite upd_nth_other in H by assumption. right. split; [congruence|assumption]. }
  assert (Hself : nth_error (upd i (fun _ => t') (sy_threads s)) i = Some t').
  { now rewrite upd_nth_same, Ht. }
  assert (Hoth : forall j tj, j <> i -> nth_error (sy_threads s) j = Some tj ->
            nth_error (upd i (fun _ => t') (sy_threads s)) j = Some tj).
  { intros j tj Hne H. rewrite upd_nth_other by congruence. exact H. }
  constructor; cbn [set_thread sy_office sy_table sy_threads sy_trace sy_ctrace].
  - destruct Irun as [vs Hr]. exists (vs ++ [v]). rewrite run_snoc, Hr, Hstep. reflexivity.
  - exact Icrun.
  - intros j tj a Hj Ha. destruct (Hth j tj Hj) as [[-> ->]|[Hne Hj0]]; [auto|].
    specialize (Ibelow j tj a Hj0 Ha). lia.
  - intros j k tj tk a Hj Hk Haj Hak.
    destruct (Hth j tj Hj) as [[-> ->]|[Hnj Hj0]]; destruct (Hth k tk Hk) as [[-> ->]|[Hnk Hk0]].
    + reflexivity.
    + destruct (Hfresh a Haj) as [Hold|Hf]; [|exfalso; eapply Hf; eauto].
      exfalso. apply Hnk. symmetry. eapply (Idist i k t tk a); eauto.
    + destruct (Hfresh a Hak) as [Hold|Hf]; [|exfalso; eapply Hf; eauto].
      exfalso. apply Hnj. symmetry. eapply (Idist i j t tj a); eauto.
    + eapply Idist; eauto.
  - intros j tj h Hj Hh. destruct (Hth j tj Hj) as [[-> ->]|[Hne Hj0]]; [auto|].
    destruct (Ibox j tj h Hj0 Hh) as (key & a & b & Hk & Ha & Hb & Hi & Hky).
    destruct (step_keeps_box _ _ _ _ h b Hstep Hb) as (b' & Hb' & Hi' & Hk').
    exists key, a, b'. repeat split; try assumption; congruence.
  - intros a Hin. rewrite newbox_ids_app in Hin. apply in_app_or in Hin as [Hin|Hin].
    + destruct (Iboxed a Hin) as (j & tj & Hj & Ha & Hh).
      destruct (Nat.eq_dec j i) as [->|Hne].
      * assert (tj = t) by congruence. subst tj.
        destruct (Hkeep a Ha Hh) as [Ha' Hh']. exists i, t'. auto.
      * exists j, tj. auto.
    + destruct (Hnew a Hin) as [Ha' Hh']. exists i, t'. auto.
  - intros j tj x Hj Hx. destruct (Hth j tj Hj) as [[-> ->]|[Hne Hj0]]; [auto|].
    destruct (Igot j tj x Hj0 Hx) as (h & Hh & Hin). exists h. split; [assumption|].
    eapply step_keeps_recv; eassumption.
  - intros id key tag Hin. apply in_app_or in Hin as [Hin|[Heq|[]]].
    + destruct (Ideliv id key tag Hin) as (j & tj & Hj & Hk & Hpcj).
      destruct (Nat.eq_dec j i) as [->|Hne].
      * assert (tj = t) by congruence. subst tj.
        specialize (Hdpc _ _ _ Hk). congruence.
      * exists j, tj. auto.
    + destruct (Hdel id key tag Heq) as [Hk Hp1]. exists i, t'. auto.
  - intros c Hin. destruct (Iadded c Hin) as (j & tj & Hj & Hk & Hpcj).
    destruct (Nat.eq_dec j i) as [->|Hne].
    + assert (tj = t) by congruence. subst tj. exfalso. eapply Hnot. eassumption.
    + exists j, tj. auto.
  - intros j tj id c Hj Hk Ho. destruct (Hth j tj Hj) as [[-> ->]|[Hne Hj0]].
    + exfalso. rewrite Hkind in Hk. eapply Hnot. eassumption.
    + eapply Ifound; eassumption.
  - intros j tj Hj Hn. destruct (Hth j tj Hj) as [[-> ->]|[Hne Hj0]]; [auto|].
    eapply Iidle; eassumption.
  - intros j tj Hj. destruct (Hth j tj Hj) as [[-> ->]|[Hne Hj0]]; [exact Hpc|].
    eapply Ipc; eassumption.
Qed.


(** A thread that keeps its id and its box. *)
Lemma sinv_move s i t t' o' p v :
  sinv s -> nth_error (sy_threads s) i = Some t ->
  step (sy_office s) p = (o', v) ->
  th_kind t' = th_kind t -> th_id t' = th_id t -> th_h t' = th_h t ->
  (forall q, th_kind t <> KTable q) ->
  (forall id key tag, th_kind t = KDeliver id key tag -> th_pc t = 0%nat) ->
  newbox_ids [p] = [] ->
  (forall x, th_got t' = Some x -> exists h, th_h t' = Some h /\ In (h, x) (o_recv o')) ->
  (forall id key tag, p = ODeliver id key tag ->
     th_kind t' = KDeliver id key tag /\ th_pc t' = 1%nat) ->
  (2 <= th_pc t')%nat \/ (th_pc t' = 1%nat /\ th_h t = None) ->
  sinv (set_thread s i t' o' [p]).
Proof.
  intros Hinv Ht Hstep Hk Hid Hh Hnot Hdpc Hnb Hgot Hdel Hpc.
  pose proof (step_next_mono _ _ _ _ Hstep) as Hmono.
  eapply sinv_set_thread; try eassumption.
  - intros a Ha. rewrite Hid in Ha. pose proof (i_below s Hinv i t a Ht Ha). lia.
  - intros a Ha. left. congruence.
  - intros h H. rewrite Hh in H.
    destruct (i_box s Hinv i t h Ht H) as (key & a & b & Hkk & Ha & Hb & Hi & Hky).
    destruct (step_keeps_box _ _ _ _ h b Hstep Hb) as (b' & Hb' & Hi' & Hk').
    exists key, a, b'. repeat split; try congruence.
  - intros a Ha Hne. rewrite Hid, Hh. auto.
  - intros a Hin. rewrite Hnb in Hin. contradiction.
  - intros Hn. rewrite Hid in Hn. rewrite Hh. eapply (i_idle s Hinv); eassumption.
  - destruct Hpc as [Hge|[H1 Hn]]; split; intros; try lia. congruence.
Qed.

Lemma step_receive_conn o h pc o' tag :
  step o (OReceive h pc) = (o', VConn tag) -> In (h, tag) (o_recv o').
Proof.
  cbn [step]. destruct (nth_error (o_boxes o) h) as [b|]; [|discriminate].
  destruct (bx_ch b) as [x|].
  - destruct (bx_closed b && pc); [discriminate|]. intros [= <- <-]. now left.
  - destruct (bx_closed b); discriminate.
Qed.

(** A step that touches no shared state (the dial RPC) or only the table. *)
Lemma sinv_local s i t t' tb' ct :
  sinv s -> nth_error (sy_threads s) i = Some t ->
  th_id t' = th_id t -> th_h t' = th_h t ->
  (th_kind t' = th_kind t) ->
  (th_got t' = None) ->
  (forall id key tag, th_kind t = KDeliver id key tag -> th_pc t = 0%nat) ->
  (forall c, th_kind t = KTable (CAdd c) -> th_pc t = 0%nat) ->
  ((th_pc t' = 0%nat -> th_id t' = None) /\ (th_pc t' = 1%nat -> th_h t' = None)) ->
  (exists vs, crun ctable_init ct = (tb', vs)) ->
  (forall c, In (CAdd c) ct ->
     In (CAdd c) (sy_ctrace s) \/ (th_kind t' = KTable (CAdd c) /\ th_pc t' = 1%nat)) ->
  (forall c, In (CAdd c) (sy_ctrace s) -> In (CAdd c) ct) ->
  (forall id c, th_kind t' = KTable (CGet id) -> th_obs t' = Some (WFound c) ->
     c_sess c = id /\ In (CAdd c) ct) ->
  sinv (mkSys (sy_office s) tb' (upd i (fun _ => t') (sy_threads s)) (sy_trace s) ct).
Proof.
  intros Hinv Ht Hid Hh Hk Hg Hdpc Hapc Hpc Hcrun Hadd Hmono Hfound.
  destruct Hinv as [Irun Icrun Ibelow Idist Ibox Iboxed Igot Ideliv Iadded Ifound Iidle Ipc].
  assert (Hth : forall j tj, nth_error (upd i (fun _ => t') (sy_threads s)) j = Some tj ->
            (j = i /\ tj = t') \/ (j <> i /\ nth_error (sy_threads s) j = Some tj)).
  { intros j tj H. destruct (Nat.eq_dec i j) as [<-|Hne].
    - rewrite upd_nth_same, Ht in H. injection H as <-. auto.
    - rewrite upd_nth_other in H by assumption. right. split; [congruence|assumption]. }
  constructor; cbn [sy_office sy_table sy_threads sy_trace sy_ctrace]; try assumption.
  - intros j tj a Hj Ha. destruct (Hth j tj Hj) as [[-> ->]|[Hne Hj0]]; [|eauto].
    rewrite Hid in Ha. eauto.
  - intros j k tj tk a Hj Hk' Haj Hak.
    destruct (Hth j tj Hj) as [[-> ->]|[Hnj Hj0]]; destruct (Hth k tk Hk') as [[-> ->]|[Hnk Hk0]].
    + reflexivity.
    + rewrite Hid in Haj. exfalso. apply Hnk. symmetry. eapply (Idist i k t tk a); eauto.
    + rewrite Hid in Hak. exfalso. apply Hnj. symmetry. eapply (Idist i j t tj a); eauto.
    + eapply Idist; eauto.
  - intros j tj h Hj Hh'. destruct (Hth j tj Hj) as [[-> ->]|[Hne Hj0]]; [|eauto].
    rewrite Hh in Hh'. destruct (Ibox i t h Ht Hh') as (k0 & a & b & Hk0 & Ha & Hb & Hi & Hky).
    exists k0, a, b. repeat split; try assumption; congruence.
  - intros a Hin. destruct (Iboxed a Hin) as (j & tj & Hj & Ha & Hhn).
    destruct (Nat.eq_dec j i) as [->|Hne].
    + assert (tj = t) by congruence. subst tj. exists i, t'. rewrite upd_nth_same, Ht.
      repeat split; congruence.
    + exists j, tj. rewrite upd_nth_other by congruence. auto.
  - intros j tj x Hj Hx. destruct (Hth j tj Hj) as [[-> ->]|[Hne Hj0]]; [congruence|eauto].
  - intros id0 key0 tag0 Hin. destruct (Ideliv _ _ _ Hin) as (j & tj & Hj & Hkk & Hp).
    destruct (Nat.eq_dec j i) as [->|Hne].
    + assert (tj = t) by congruence. subst tj. specialize (Hdpc _ _ _ Hkk). congruence.
    + exists j, tj. rewrite upd_nth_other by congruence. auto.
  - intros c0 Hin. destruct (Hadd c0 Hin) as [Hold|[Hk1 Hp1]].
    + destruct (Iadded _ Hold) as (j & tj & Hj & Hkk & Hp).
      destruct (Nat.eq_dec j i) as [->|Hne].
      * assert (tj = t) by congruence. subst tj. specialize (Hapc _ Hkk). congruence.
      * exists j, tj. rewrite upd_nth_other by congruence. auto.
    + exists i, t'. rewrite upd_nth_same, Ht. auto.
  - intros j tj id0 c0 Hj Hkk Ho. destruct (Hth j tj Hj) as [[-> ->]|[Hne Hj0]]; [auto|].
    destruct (Ifound j tj id0 c0 Hj0 Hkk Ho) as [H1 H2]. auto.
  - intros j tj Hj Hn. destruct (Hth j tj Hj) as [[-> ->]|[Hne Hj0]]; [|eauto].
    rewrite Hid in Hn. rewrite Hh. eauto.
  - intros j tj Hj. destruct (Hth j tj Hj) as [[-> ->]|[Hne Hj0]]; [assumption|eauto].
Qed.

(** * Every step preserves the invariant *)
Lemma sys_step_inv s i c s' : sinv s -> sys_step s i c = Some s' -> sinv s'.
Proof.
  intros Hinv. unfold sys_step.
  destruct (nth_error (sy_threads s) i) as [t|] eqn:Ht; [|discriminate].
  destruct (th_kind t) as [key|id key tag|q] eqn:Hk.
  - (* a dial *)
    destruct (th_pc t) as [|[|[|[|[|n]]]]] eqn:Hpc; try discriminate.
    + (* next() *)
      cbn [step]. intros [= <-].
      eapply sinv_set_thread; try eassumption; cbn [th_kind th_id th_h th_got th_pc];
        try reflexivity; try discriminate; try congruence.
      * intros a [= <-]. cbn [o_next]. lia.
      * intros a [= <-]. right. intros j tj Hj Ha.
        pose proof (i_below s Hinv j tj _ Hj Ha). lia.
      * intros a Ha Hh. destruct (i_pc s Hinv i t Ht) as [H0 _]. rewrite (H0 Hpc) in Ha. discriminate.
      * intros a [].
      * split; intros; [discriminate|reflexivity].
    + (* newBox *)
      destruct (th_id t) as [id|] eqn:Hid; [|discriminate].
      destruct (step (sy_office s) (ONewBox id key)) as [o' v] eqn:Hs.
      assert (Hv : exists h, v = VHandle h /\
                 nth_error (o_boxes o') h = Some (mkBox id key None false)).
      { cbn [step] in Hs. injection Hs as <- <-. eexists. split; [reflexivity|]. cbn [o_boxes].
        rewrite nth_error_app2 by lia. now rewrite Nat.sub_diag. }
      destruct Hv as (h & -> & Hb). intros [= <-].
      pose proof (step_next_mono _ _ _ _ Hs) as Hmono.
      eapply sinv_set_thread; try eassumption; cbn [th_kind th_id th_h th_got th_pc];
        try reflexivity; try discriminate; try congruence.
      * intros a [= <-]. pose proof (i_below s Hinv i t _ Ht Hid). lia.
      * intros a Ha. left. congruence.
      * intros h0 [= <-]. exists key, id, (mkBox id key None false). auto.
      * intros a Ha Hh. destruct (i_pc s Hinv i t Ht) as [_ H1]. rewrite (H1 Hpc) in Hh. contradiction.
      * intros a [<-|[]]. split; [reflexivity|discriminate].
      * split; intros; discriminate.
    + (* the dial RPC *)
      intros [= <-]. unfold set_thread. rewrite app_nil_r.
      destruct (i_crun s Hinv) as [cvs Hcr].
      eapply (sinv_local s i t); try eassumption; cbn [th_kind th_id th_h th_got th_pc th_obs];
        try reflexivity; try congruence; try discriminate; eauto.
      split; intros H; destruct (Nat.eqb c 2); discriminate.
    + (* receive *)
      destruct (th_h t) as [h|] eqn:Hh; [|discriminate].
      destruct (step (sy_office s) (OReceive h (Nat.eqb c 1))) as [o' v] eqn:Hs.
      destruct v; try discriminate.
      * intros [= <-]. eapply (sinv_move s i t); try eassumption; cbn [th_kind th_id th_h th_got th_pc];
          try reflexivity; try congruence; try discriminate.
        -- intros x [= <-]. exists h. split; [reflexivity|]. eapply step_receive_conn; eassumption.
        -- left. lia.
      * intros [= <-]. eapply (sinv_move s i t); try eassumption; cbn [th_kind th_id th_h th_got th_pc];
          try reflexivity; try congruence; try discriminate. left. lia.
      * destruct (Nat.eqb c 2); [|discriminate].
        intros [= <-]. eapply (sinv_move s i t); try eassumption; cbn [th_kind th_id th_h th_got th_pc];
          try reflexivity; try congruence; try discriminate. left. lia.
    + (* cleanUp *)
      destruct (th_h t) as [h|] eqn:Hh; [|discriminate].
      destruct (step (sy_office s) (OCleanUp h)) as [o' v] eqn:Hs. intros [= <-].
      eapply (sinv_move s i t); try eassumption; cbn [th_kind th_id th_h th_got th_pc];
        try reflexivity; try congruence; try discriminate.
      * intros x Hx. destruct (i_got s Hinv i t x Ht Hx) as (h0 & Hh0 & Hin).
        exists h0. split; [congruence|]. eapply step_keeps_recv; eassumption.
      * left. lia.
  - (* a delivery *)
    destruct (th_pc t) eqn:Hpc; [|discriminate].
    destruct (step (sy_office s) (ODeliver id key tag)) as [o' v] eqn:Hs. intros [= <-].
    assert (Hidn : th_id t = None) by (apply (i_pc s Hinv i t Ht); assumption).
    assert (Hhn : th_h t = None) by (eapply (i_idle s Hinv); eassumption).
    eapply (sinv_move s i t); try eassumption; cbn [th_kind th_id th_h th_got th_pc];
      try reflexivity; try congruence; try discriminate.
    + intros id0 key0 tag0 [= <- <- <-]. auto.
    + right. auto.
  - (* a table operation *)
    destruct (th_pc t) eqn:Hpc; [|discriminate].
    destruct (cstep (sy_table s) q) as [tb' v] eqn:Hs. intros [= <-].
    assert (Hidn : th_id t = None) by (apply (i_pc s Hinv i t Ht); assumption).
    assert (Hhn : th_h t = None) by (eapply (i_idle s Hinv); eassumption).
    destruct (i_crun s Hinv) as [cvs Hcr].
    assert (Hcinv : cinv (sy_ctrace s) (sy_table s)).
    { apply (crun_inv (sy_ctrace s) [] ctable_init (sy_table s) cvs); [|assumption].
      intros x y. discriminate. }
    eapply (sinv_local s i t); try eassumption; cbn [th_kind th_id th_h th_got th_pc th_obs];
      try reflexivity; try congruence; try discriminate.
    + split; intros; [discriminate|reflexivity].
    + exists (cvs ++ [v]). rewrite crun_snoc, Hcr, Hs. reflexivity.
    + intros c0 Hin. apply in_app_or in Hin as [Hin|[Heq|[]]]; [auto|]. right. subst q. auto.
    + intros c0 Hin. apply in_or_app. now left.
    + intros id0 c0 [= ->] [= ->].
      cbn [cstep] in Hs. destruct (t_closed (sy_table s)); [discriminate|].
      destruct (t_get id0 (t_map (sy_table s))) as [c1|] eqn:Eg; [|discriminate].
      injection Hs as _ <-. destruct (Hcinv id0 c1 Eg) as [H1 H2].
      split; [assumption|]. apply in_or_app. now left.
Qed.

Theorem reach_inv ks s : reach ks s -> sinv s.
Proof.
  induction 1 as [|s i c s' _ IH Hs]; [apply sinv_init|]. eapply sys_step_inv; eassumption.
Qed.

(** * The theorems, for every reachable state of every thread population *)

(** Two dials never hold the same session id. *)
Theorem conc_ids_unique ks s i j ti tj a :
  reach ks s ->
  nth_error (sy_threads s) i = Some ti -> nth_error (sy_threads s) j = Some tj ->
  th_id ti = Some a -> th_id tj = Some a -> i = j.
Proof. intros R. exact (i_distinct s (reach_inv ks s R) i j ti tj a). Qed.

(** A dial that got a connection got one that some arriving side websocket
    delivered with exactly this dial's id and key. *)
Theorem conc_mailbox_isolation ks s i t key a x :
  reach ks s ->
  nth_error (sy_threads s) i = Some t ->
  th_kind t = KDial key -> th_id t = Some a -> th_got t = Some x ->
  exists j tj, nth_error (sy_threads s) j = Some tj /\
               th_kind tj = KDeliver a key x /\ th_pc tj = 1%nat.
Proof.
  intros R Ht Hk Ha Hx. pose proof (reach_inv ks s R) as I.
  destruct (i_got s I i t x Ht Hx) as (h & Hh & Hin).
  destruct (i_box s I i t h Ht Hh) as (key' & a' & b & Hk' & Ha' & Hb & Hbi & Hbk).
  destruct (i_run s I) as [vs Hrun].
  destruct (mailbox_isolation _ _ _ h x Hrun Hin) as (b' & Hb' & Hdel).
  assert (b' = b) by congruence. subst b'.
  assert (Ek : bx_key b = key) by congruence. assert (Ea : bx_id b = a) by congruence.
  rewrite Ea, Ek in Hdel. exact (i_deliv s I _ _ _ Hdel).
Qed.

(** Deliveries are honest when every side websocket that arrived carries the
    id and key of the dial whose request caused it, and is named after that
    dial (tag = the dial's index). *)
Definition honest (s : sys) : Prop :=
  forall j tj id key tag, nth_error (sy_threads s) j = Some tj ->
    th_kind tj = KDeliver id key tag -> th_pc tj = 1%nat ->
    exists td, nth_error (sy_threads s) (N.to_nat tag) = Some td /\ th_id td = Some id.

(** With honest deliveries every dial gets its own connection - no hypothesis
    on ids or keys: the ids are distinct because they come from the locked
    counter. *)
Theorem conc_no_misdelivery ks s i t key a x :
  reach ks s -> honest s ->
  nth_error (sy_threads s) i = Some t ->
  th_kind t = KDial key -> th_id t = Some a -> th_got t = Some x ->
  N.to_nat x = i.
Proof.
  intros R Hh Ht Hk Ha Hx.
  destruct (conc_mailbox_isolation ks s i t key a x R Ht Hk Ha Hx) as (j & tj & Hj & Hkj & Hpj).
  destruct (Hh j tj a key x Hj Hkj Hpj) as (td & Htd & Hid).
  eapply (conc_ids_unique ks s); eassumption.
Qed.

(** A session lookup that found a connection found one registered under
    that session id by some handler. *)
Theorem conc_session_isolation ks s i t id c :
  reach ks s ->
  nth_error (sy_threads s) i = Some t ->
  th_kind t = KTable (CGet id) -> th_obs t = Some (WFound c) ->
  c_sess c = id /\
  exists j tj, nth_error (sy_threads s) j = Some tj /\ th_kind tj = KTable (CAdd c) /\ th_pc tj = 1%nat.
Proof.
  intros R Ht Hk Ho. pose proof (reach_inv ks s R) as I.
  destruct (i_found s I i t id c Ht Hk Ho) as [H1 H2]. split; [assumption|].
  exact (i_added s I c H2).
Qed.

(** * What the key is for: re-registration

    Session ids restart at 0 for every endpointClient, and serveBackSide finds
    the endpoint by name.  After a name has been registered again, a side
    websocket that answers a dial of the previous registration can arrive
    carrying an id that a dial of the new registration is using.  Inside one
    registration the id alone separates the dials (above); across
    registrations only the key does. *)

Lemma deliver_wrong_key_refused o id key tag h b :
  map_get id (o_map o) = Some h -> nth_error (o_boxes o) h = Some b -> bx_key b <> key ->
  step o (ODeliver id key tag) = (o, VMismatch).
Proof.
  intros Hg Hb Hk. cbn [step]. rewrite Hg, Hb. unfold box_match.
  destruct (N.eqb_spec (bx_key b) key); [contradiction|]. now rewrite andb_false_r.
Qed.

(** [s2] is the new registration.  One of its dials holds id [a] with key
    [k2] and its box is filed; the stale websocket of the old registration
    carries the same id [a] and the old key [k1].  It is refused, the office is
    unchanged, and the dial will not receive it. *)
Theorem stale_generation_refused ks s2 i t k1 k2 a h tag :
  reach ks s2 ->
  nth_error (sy_threads s2) i = Some t ->
  th_kind t = KDial k2 -> th_id t = Some a -> th_h t = Some h ->
  map_get a (o_map (sy_office s2)) = Some h ->
  k1 <> k2 ->
  step (sy_office s2) (ODeliver a k1 tag) = (sy_office s2, VMismatch).
Proof.
  intros R Ht Hk Ha Hh Hg Hne. pose proof (reach_inv ks s2 R) as I.
  destruct (i_box s2 I i t h Ht Hh) as (key' & a' & b & Hk' & Ha' & Hb & Hbi & Hbk).
  eapply deliver_wrong_key_refused; eauto. congruence.
Qed.

(** A schedule: which thread moves, with which choice. *)
Fixpoint sys_run (s : sys) (sched : list (nat * nat)) : option sys :=
  match sched with
  | [] => Some s
  | (i, c) :: r => match sys_step s i c with Some s' => sys_run s' r | None => None end
  end.

Lemma sys_run_reach ks : forall sched s s', reach ks s -> sys_run s sched = Some s' -> reach ks s'.
Proof.
  induction sched as [|[i c] r IH]; intros s s' R; cbn [sys_run].
  - now intros [= <-].
  - destruct (sys_step s i c) as [s1|] eqn:E; [|discriminate].
    apply IH. eapply reach_step; eassumption.
Qed.
