(** Proofs about the RPC transport model (Sni/Rpc.v). *)
From Coq Require Import List NArith ZArith Bool String Lia Permutation.
From Coq Require Import ZifyN ZifyNat ZifyBool.
From Verif Require Import Lib.Bytes Sni.Wire Sni.WireProofs Sni.Rpc.
Import ListNotations.
Local Open Scope N_scope.

(** * Tables *)

Definition pcallers (p : list (N * pcall)) : list N :=
  map (fun ic => pc_caller (snd ic)) p.

Definition owners (s : st) : list N := map fst (log s) ++ pcallers (pending s).

Lemma lookup_in i p c : lookup i p = Some c -> In (i, c) p.
Proof.
  unfold lookup. induction p as [|[j c'] r IH]; cbn [assoc_N]; [discriminate|].
  destruct (i =? j) eqn:E.
  - intros [= ->]. apply N.eqb_eq in E. subst. now left.
  - intros H. right. now apply IH.
Qed.

Lemma lookup_remove_same i p : lookup i (remove i p) = None.
Proof.
  unfold lookup. induction p as [|[j c] r IH]; cbn [remove assoc_N]; [reflexivity|].
  destruct (i =? j) eqn:E; [exact IH|]. cbn [assoc_N]. now rewrite E.
Qed.

Lemma lookup_remove_other i j p : i <> j -> lookup j (remove i p) = lookup j p.
Proof.
  unfold lookup. intros Hij.
  induction p as [|[k c] r IH]; cbn [remove assoc_N]; [reflexivity|].
  destruct (i =? k) eqn:E.
  - apply N.eqb_eq in E. subst k.
    destruct (j =? i) eqn:E2; [apply N.eqb_eq in E2; congruence|]. exact IH.
  - cbn [assoc_N]. destruct (j =? k); [reflexivity|exact IH].
Qed.

Lemma remove_keys_incl i p : incl (map fst (remove i p)) (map fst p).
Proof.
  induction p as [|[j c] r IH]; cbn [remove map fst]; [apply incl_refl|].
  destruct (i =? j).
  - now apply incl_tl.
  - cbn [map fst]. apply incl_cons; [now left|]. now apply incl_tl.
Qed.

Lemma remove_not_key i p : ~ In i (map fst p) -> remove i p = p.
Proof.
  induction p as [|[j c] r IH]; cbn [remove map fst]; [reflexivity|].
  intros H. destruct (i =? j) eqn:E.
  - apply N.eqb_eq in E. subst. exfalso. apply H. now left.
  - f_equal. apply IH. intros Hin. apply H. now right.
Qed.

Lemma remove_keys_nodup i p : NoDup (map fst p) -> NoDup (map fst (remove i p)).
Proof.
  induction p as [|[j c] r IH]; cbn [remove map fst]; [constructor|].
  intros H. inversion H as [|? ? Hn Hr]; subst.
  destruct (i =? j); [now apply IH|].
  cbn [map fst]. constructor; [|now apply IH].
  intros Hin. apply Hn. now apply (remove_keys_incl i r).
Qed.

Lemma remove_key_gone i p : ~ In i (map fst (remove i p)).
Proof.
  induction p as [|[j c] r IH]; cbn [remove map fst]; [tauto|].
  destruct (i =? j) eqn:E; [exact IH|].
  cbn [map fst]. intros [H|H]; [|now apply IH].
  subst. rewrite N.eqb_refl in E. discriminate.
Qed.

(** With unique keys (a Go map), removing a present key removes exactly that
    entry. *)
Lemma remove_perm i p c :
  NoDup (map fst p) -> lookup i p = Some c -> Permutation p ((i, c) :: remove i p).
Proof.
  unfold lookup. induction p as [|[j c'] r IH]; cbn [assoc_N remove map fst]; [discriminate|].
  intros Hnd. inversion Hnd as [|? ? Hn Hr]; subst.
  destruct (i =? j) eqn:E.
  - intros [= ->]. apply N.eqb_eq in E. subst j.
    rewrite remove_not_key by assumption. apply Permutation_refl.
  - intros H. specialize (IH Hr H).
    eapply Permutation_trans; [apply perm_skip, IH|]. apply perm_swap.
Qed.

Lemma pcallers_perm p q : Permutation p q -> Permutation (pcallers p) (pcallers q).
Proof. apply Permutation_map. Qed.

(** * Primitive state updates *)

Lemma completed_false k s : completed k s = false <-> ~ In k (map fst (log s)).
Proof.
  unfold completed. split.
  - intros H Hin. assert (existsb (N.eqb k) (map fst (log s)) = true); [|congruence].
    apply existsb_exists. exists k. split; [assumption|apply N.eqb_refl].
  - intros H. destruct (existsb _ _) eqn:E; [|reflexivity].
    apply existsb_exists in E. destruct E as [x [Hx Hk]]. apply N.eqb_eq in Hk.
    subst. contradiction.
Qed.

Definition add_log (l : list (N * result)) (s : st) : st :=
  mkSt (next_id s) (pending s) (sig s) (shut s) (running s) (panicked s)
       (log s ++ l).

Lemma complete_fresh k r s :
  ~ In k (map fst (log s)) -> complete k r s = add_log [(k, r)] s.
Proof. intros H. unfold complete. apply completed_false in H. now rewrite H. Qed.

Lemma add_log_nil s : add_log [] s = s.
Proof. destruct s. unfold add_log. cbn. now rewrite app_nil_r. Qed.

Lemma add_log_add_log a b s : add_log b (add_log a s) = add_log (a ++ b) s.
Proof. unfold add_log. cbn. now rewrite app_assoc. Qed.

Definition fail_entries (p : list (N * pcall)) : list (N * result) :=
  map (fun ic => (pc_caller (snd ic), RErr CExit)) p.

Lemma fail_entries_keys p : map fst (fail_entries p) = pcallers p.
Proof. unfold fail_entries, pcallers. rewrite map_map. reflexivity. Qed.

Lemma fail_pending_fresh p : forall s,
  NoDup (map fst (log s) ++ pcallers p) ->
  fail_pending p s = add_log (fail_entries p) s.
Proof.
  unfold fail_pending. induction p as [|[i c] r IH]; intros s H.
  - cbn. now rewrite add_log_nil.
  - cbn [fold_left snd]. rewrite complete_fresh.
    + rewrite IH.
      * rewrite add_log_add_log. reflexivity.
      * cbn [add_log log]. rewrite map_app. cbn [map fst].
        rewrite <- app_assoc. exact H.
    + cbn [pcallers map snd] in H. apply NoDup_remove_2 in H.
      intros Hin. apply H. apply in_or_app. now left.
Qed.

(** Completions are never withdrawn. *)
Definition extends (s s' : st) : Prop := exists l, log s' = log s ++ l.

Lemma extends_refl s : extends s s.
Proof. exists []. now rewrite app_nil_r. Qed.

Lemma extends_trans a b c : extends a b -> extends b c -> extends a c.
Proof. intros [l H1] [l' H2]. exists (l ++ l'). rewrite H2, H1.
  now rewrite app_assoc. Qed.

Lemma complete_extends k r s : extends s (complete k r s).
Proof.
  unfold complete. destruct (completed k s); cbn.
  - exists []. cbn. now rewrite app_nil_r.
  - now exists [(k, r)].
Qed.

Lemma fail_pending_extends p : forall s, extends s (fail_pending p s).
Proof.
  unfold fail_pending. induction p as [|ic r IH]; intros s; cbn [fold_left].
  - apply extends_refl.
  - eapply extends_trans; [apply complete_extends|apply IH].
Qed.

Lemma exit_serve_extends s : extends s (exit_serve s).
Proof.
  unfold exit_serve. destruct (fail_pending_extends (pending s) s) as [l H].
  exists l. exact H.
Qed.

Lemma set_pending_extends p s : extends s (set_pending p s).
Proof. exists []. cbn. now rewrite app_nil_r. Qed.

Section Proofs.
Variable alloc_max : N.
Hypothesis alloc_max_ok : alloc_max <= go_max_alloc.
Variable idmod : N.
Hypothesis idmod_pos : 0 < idmod.

Notation step := (step alloc_max idmod).
Notation run_from := (run_from alloc_max idmod).
Notation run := (run alloc_max idmod).
Notation on_call := (on_call idmod).
Notation on_reply := (on_reply alloc_max).
Notation reply_result := (reply_result alloc_max).

Lemma run_from_app s a b : run_from s (a ++ b) = run_from (run_from s a) b.
Proof. unfold Rpc.run_from. apply fold_left_app. Qed.

Lemma run_snoc tr e : run (tr ++ [e]) = step (run tr) e.
Proof. unfold Rpc.run. now rewrite run_from_app. Qed.

Lemma extends_same_log s s' : log s' = log s -> extends s s'.
Proof. intros H. exists []. now rewrite app_nil_r. Qed.

Lemma on_call_extends s c ok : extends s (on_call s c ok).
Proof.
  unfold Rpc.on_call. destruct (shut s).
  - eapply extends_trans; [|apply complete_extends]. now apply extends_same_log.
  - destruct ok; cbn [negb].
    + eapply extends_trans; [|apply set_pending_extends].
      destruct (lookup _ _).
      * eapply extends_trans; [|apply complete_extends]. now apply extends_same_log.
      * now apply extends_same_log.
    + eapply extends_trans; [|apply exit_serve_extends].
      eapply extends_trans; [|apply complete_extends]. now apply extends_same_log.
Qed.

Lemma on_reply_extends s f : extends s (on_reply s f).
Proof.
  unfold Rpc.on_reply. destruct (parse_reply_header f) as [h d].
  destruct h as [n|ec|id typ].
  - apply extends_refl.
  - apply exit_serve_extends.
  - destruct (typ =? msg_shutdown_hint); [apply extends_refl|].
    destruct (lookup id (pending s)) as [c|]; [|apply extends_refl].
    destruct (negb (typ =? pc_typ c)); [apply set_pending_extends|].
    assert (E : extends s (complete (pc_caller c) (reply_result c d)
                             (set_pending (remove id (pending s)) s))).
    { eapply extends_trans; [apply set_pending_extends|apply complete_extends]. }
    destruct (_ && _); [|exact E].
    eapply extends_trans; [exact E|apply exit_serve_extends].
Qed.

Lemma step_extends s e : extends s (step s e).
Proof.
  destruct e as [|k|c ok|f| |]; cbn [Rpc.step].
  - exists []. cbn. now rewrite app_nil_r.
  - destruct (sig s); [apply complete_extends|apply extends_refl].
  - destruct (running s); [apply on_call_extends|apply extends_refl].
  - destruct (running s); [apply on_reply_extends|apply extends_refl].
  - apply extends_refl.
  - destruct (running s); [apply exit_serve_extends|apply extends_refl].
Qed.

Lemma run_from_extends tr : forall s, extends s (run_from s tr).
Proof.
  induction tr as [|e tr IH]; intros s; cbn.
  - apply extends_refl.
  - eapply extends_trans; [apply step_extends|apply IH].
Qed.

Lemma extends_in s s' x : extends s s' -> In x (log s) -> In x (log s').
Proof. intros [l ->] H. apply in_or_app. now left. Qed.

(** ** [running] only ever goes from true to false *)

Lemma complete_running k r s : running (complete k r s) = running s.
Proof. unfold complete. now destruct (completed k s). Qed.

Lemma step_stopped s e : running s = false -> running (step s e) = false.
Proof.
  intros H. destruct e as [|k|c ok|f| |]; cbn [Rpc.step].
  - exact H.
  - destruct (sig s); [now rewrite complete_running|assumption].
  - now rewrite H.
  - now rewrite H.
  - exact H.
  - now rewrite H.
Qed.

Lemma run_from_stopped tr : forall s, running s = false -> running (run_from s tr) = false.
Proof.
  induction tr as [|e tr IH]; intros s H; cbn; [assumption|].
  apply IH. now apply step_stopped.
Qed.

Lemma running_prefix s a b : running (run_from s (a ++ b)) = true -> running (run_from s a) = true.
Proof.
  rewrite run_from_app. intros H.
  destruct (running (run_from s a)) eqn:E; [reflexivity|].
  now rewrite run_from_stopped in H.
Qed.

(** * At most once, and no double completion *)

Record inv (s : st) (seen : list N) : Prop := {
  inv_nopanic : panicked s = false;
  inv_nodup : NoDup (owners s);
  inv_seen : incl (owners s) seen;
  inv_keys : NoDup (map fst (pending s))
}.

Lemma inv_init : inv init_st [].
Proof. split; cbn; try constructor. intros x []. Qed.

Lemma NoDup_app_l {A} (a b : list A) : NoDup (a ++ b) -> NoDup a.
Proof.
  induction a as [|x a IH]; cbn; [constructor|].
  intros H. inversion H; subst. constructor; [|now apply IH].
  intros Hin. apply H2. apply in_or_app. now left.
Qed.

Lemma NoDup_app_r {A} (a b : list A) : NoDup (a ++ b) -> NoDup b.
Proof.
  induction a as [|x a IH]; cbn; [tauto|]. intros H. inversion H; subst. now apply IH.
Qed.

Lemma NoDup_app_shrink {A} (a b b' : list A) :
  NoDup (a ++ b) -> (forall x, In x b' -> In x b) -> NoDup b' -> NoDup (a ++ b').
Proof.
  intros H Hsub Hb'. induction a as [|x a IH]; cbn [app] in *; [assumption|].
  inversion H as [|? ? Hx Hr]; subst. constructor; [|now apply IH].
  intros Hin. apply Hx. apply in_app_or in Hin. apply in_or_app.
  destruct Hin as [Hin|Hin]; [now left|right; now apply Hsub].
Qed.

Lemma inv_complete_new s seen k r :
  inv s seen -> ~ In k seen -> inv (complete k r s) (k :: seen).
Proof.
  intros [Hp Hn Hs Hk] Hk'.
  assert (Hfresh : ~ In k (owners s)) by (intros Hin; apply Hk', Hs, Hin).
  rewrite complete_fresh
    by (intros Hin; apply Hfresh; unfold owners; apply in_or_app; now left).
  split; cbn [add_log panicked pending log]; try assumption.
  - unfold owners, add_log, set_pending. cbn [log pending]. rewrite map_app. cbn [map fst].
    rewrite <- app_assoc. cbn [app].
    apply NoDup_Add with (a := k) (l := owners s); [|constructor; assumption].
    apply Add_app.
  - unfold owners, add_log, set_pending. cbn [log pending]. rewrite map_app. cbn [map fst].
    rewrite <- app_assoc. cbn [app]. intros x Hx.
    apply in_app_or in Hx. destruct Hx as [Hx|[Hx|Hx]].
    + right. apply Hs. unfold owners. apply in_or_app. now left.
    + now left.
    + right. apply Hs. unfold owners. apply in_or_app. now right.
Qed.

Lemma inv_weaken s seen seen' : inv s seen -> incl seen seen' -> inv s seen'.
Proof.
  intros [Hp Hn Hs Hk] H. split; try assumption.
  eapply incl_tran; eassumption.
Qed.

(** Moving the owner of a fetched entry from the table to the log. *)
Lemma inv_complete_fetched s seen i c r :
  inv s seen -> lookup i (pending s) = Some c ->
  inv (complete (pc_caller c) r (set_pending (remove i (pending s)) s)) seen.
Proof.
  intros [Hp Hn Hs Hk] Hl.
  pose proof (remove_perm i (pending s) c Hk Hl) as P.
  apply pcallers_perm in P. cbn [pcallers map snd] in P.
  fold (pcallers (remove i (pending s))) in P.
  assert (Q : Permutation (owners s)
               (pc_caller c :: map fst (log s) ++ pcallers (remove i (pending s)))).
  { unfold owners. eapply Permutation_trans; [apply Permutation_app_head, P|].
    apply Permutation_sym, Permutation_middle. }
  pose proof (Permutation_NoDup Q Hn) as Hn'.
  inversion Hn' as [|? ? Hnot Hrest]; subst.
  rewrite complete_fresh.
  2:{ cbn [set_pending log]. intros Hin. apply Hnot. apply in_or_app. now left. }
  split; cbn [add_log set_pending panicked pending log]; try assumption.
  - unfold owners, add_log, set_pending. cbn [log pending]. rewrite map_app. cbn [map fst].
    rewrite <- app_assoc. cbn [app].
    eapply Permutation_NoDup; [|exact Hn'].
    apply Permutation_middle.
  - unfold owners, add_log, set_pending. cbn [log pending]. rewrite map_app. cbn [map fst].
    rewrite <- app_assoc. cbn [app]. intros x Hx. apply Hs.
    eapply Permutation_in; [apply Permutation_sym, Q|].
    eapply Permutation_in; [apply Permutation_sym, Permutation_middle|exact Hx].
  - now apply remove_keys_nodup.
Qed.

(** Dropping a fetched entry without completing it (mistyped reply). *)
Lemma inv_drop_fetched s seen i :
  inv s seen -> inv (set_pending (remove i (pending s)) s) seen.
Proof.
  intros [Hp Hn Hs Hk].
  assert (Hsub : forall x, In x (pcallers (remove i (pending s))) -> In x (pcallers (pending s))).
  { generalize (pending s). intros p. induction p as [|[j c] r IH]; cbn [remove pcallers map snd]; [tauto|].
    destruct (i =? j).
    - intros x Hx. right. now apply IH.
    - cbn [pcallers map snd]. intros x [Hx|Hx]; [now left|right; now apply IH]. }
  assert (Hnd : NoDup (pcallers (pending s)) -> NoDup (pcallers (remove i (pending s)))).
  { generalize (pending s). intros p. induction p as [|[j c] r IH]; cbn [remove pcallers map snd]; [constructor|].
    intros H. inversion H as [|? ? Hx Hr]; subst.
    destruct (i =? j); [now apply IH|].
    cbn [pcallers map snd]. constructor; [|now apply IH].
    intros Hin. apply Hx.
    clear -Hin. induction r as [|[k c'] r IH]; cbn [remove pcallers map snd] in *; [tauto|].
    destruct (i =? k); [right; now apply IH|].
    cbn [pcallers map snd] in Hin. destruct Hin as [Hin|Hin]; [now left|right; now apply IH]. }
  split; cbn [set_pending panicked pending log]; try assumption.
  - unfold owners, add_log, set_pending in *. cbn [log pending].
    apply NoDup_app_shrink with (b := pcallers (pending s)); try assumption.
    apply Hnd. now apply NoDup_app_r in Hn.
  - unfold owners, add_log, set_pending in *. cbn [log pending]. intros x Hx. apply Hs.
    apply in_app_or in Hx. apply in_or_app.
    destruct Hx as [Hx|Hx]; [now left|right; now apply Hsub].
  - now apply remove_keys_nodup.
Qed.

Lemma inv_exit s seen : inv s seen -> inv (exit_serve s) seen.
Proof.
  intros [Hp Hn Hs Hk]. unfold exit_serve.
  rewrite fail_pending_fresh by exact Hn.
  split; cbn [add_log panicked pending log]; try assumption.
  - unfold owners, add_log, set_pending. cbn [log pending pcallers map]. rewrite app_nil_r.
    rewrite map_app, fail_entries_keys. exact Hn.
  - unfold owners, add_log, set_pending. cbn [log pending pcallers map]. rewrite app_nil_r.
    rewrite map_app, fail_entries_keys. exact Hs.
  - constructor.
Qed.

Lemma inv_fields s seen n sg sh :
  inv s seen ->
  inv (mkSt n (pending s) sg sh (running s) (panicked s) (log s)) seen.
Proof. intros [Hp Hn Hs Hk]. split; assumption. Qed.

Lemma inv_insert s seen i c :
  inv s seen -> ~ In (pc_caller c) seen -> ~ In i (map fst (pending s)) ->
  inv (set_pending ((i, c) :: pending s) s) (pc_caller c :: seen).
Proof.
  intros [Hp Hn Hs Hk] Hc Hi.
  assert (Hfresh : ~ In (pc_caller c) (owners s)) by (intros Hin; apply Hc, Hs, Hin).
  split; cbn [set_pending panicked pending log]; try assumption.
  - unfold owners, add_log, set_pending. cbn [log pending pcallers map snd].
    apply NoDup_Add with (a := pc_caller c) (l := owners s); [|constructor; assumption].
    apply Add_app.
  - unfold owners, add_log, set_pending. cbn [log pending pcallers map snd]. intros x Hx.
    apply in_app_or in Hx. destruct Hx as [Hx|[Hx|Hx]].
    + right. apply Hs. unfold owners. apply in_or_app. now left.
    + now left.
    + right. apply Hs. unfold owners. apply in_or_app. now right.
  - cbn [map fst]. constructor; assumption.
Qed.

Lemma inv_on_call s seen c ok :
  inv s seen -> ~ In (pc_caller c) seen ->
  inv (on_call s c ok) (pc_caller c :: seen).
Proof.
  intros H Hc. unfold Rpc.on_call.
  set (s1 := mkSt ((next_id s + 1) mod idmod) (pending s) (sig s) (shut s)
               (running s) (panicked s) (log s)).
  assert (H1 : inv s1 seen) by (apply inv_fields; exact H).
  destruct (shut s).
  - now apply inv_complete_new.
  - set (s2 := mkSt _ _ _ _ _ _ _).
    assert (H2 : inv s2 seen) by (apply (inv_fields s1); exact H1).
    destruct ok; cbn [negb].
    + destruct (lookup (next_id s) (pending s2)) as [old|] eqn:El.
      * pose proof (inv_complete_fetched s2 seen _ old (RErr CTooLong) H2 El) as H3.
        apply inv_insert; [exact H3|exact Hc|].
        unfold complete. destruct (completed _ _); cbn [pending set_pending];
          apply remove_key_gone.
      * apply inv_insert; [exact H2|exact Hc|].
        intros Hin. apply in_map_iff in Hin. destruct Hin as [[j c'] [Hj Hin]].
        cbn in Hj. subst j.
        assert (lookup (next_id s) (pending s2) <> None); [|contradiction].
        clear -Hin. unfold lookup. induction (pending s2) as [|[k c''] r IH]; [destruct Hin|].
        cbn [assoc_N]. destruct (next_id s =? k) eqn:E; [discriminate|].
        destruct Hin as [Hin|Hin]; [|now apply IH].
        inversion Hin; subst. rewrite N.eqb_refl in E. discriminate.
    + apply inv_exit. now apply inv_complete_new.
Qed.

Lemma inv_on_reply s seen f : inv s seen -> inv (on_reply s f) seen.
Proof.
  intros H. unfold Rpc.on_reply. destruct (parse_reply_header f) as [h d].
  destruct h as [n|ec|id typ]; [assumption|now apply inv_exit|].
  destruct (typ =? msg_shutdown_hint); [assumption|].
  destruct (lookup id (pending s)) as [c|] eqn:El; [|assumption].
  destruct (negb (typ =? pc_typ c)); [now apply inv_drop_fetched|].
  pose proof (inv_complete_fetched s seen id c (reply_result c d) H El) as H2.
  destruct (_ && _); [now apply inv_exit|assumption].
Qed.

Lemma inv_step s seen e :
  inv s seen -> (forall k, In k (event_callers e) -> ~ In k seen) ->
  inv (step s e) (event_callers e ++ seen).
Proof.
  intros H Hf. destruct e as [|k|c ok|f| |]; cbn [Rpc.step event_callers app].
  - now apply (inv_fields s).
  - assert (Hk : ~ In k seen) by (apply Hf; now left).
    destruct (sig s).
    + now apply inv_complete_new.
    + eapply inv_weaken; [exact H|]. now apply incl_tl.
  - assert (Hk : ~ In (pc_caller c) seen) by (apply Hf; now left).
    destruct (running s).
    + now apply inv_on_call.
    + eapply inv_weaken; [exact H|]. now apply incl_tl.
  - destruct (running s); [now apply inv_on_reply|assumption].
  - assumption.
  - destruct (running s); [now apply inv_exit|assumption].
Qed.

Lemma inv_run_from tr : forall s seen,
  inv s seen -> NoDup (callers_of tr ++ seen) ->
  inv (run_from s tr) (rev (callers_of tr) ++ seen).
Proof.
  induction tr as [|e tr IH]; intros s seen H Hn; cbn [Rpc.run_from fold_left callers_of flat_map].
  - exact H.
  - cbn [callers_of flat_map] in Hn. rewrite <- app_assoc in Hn.
    assert (Hf : forall k, In k (event_callers e) -> ~ In k seen).
    { intros k Hk Hs. clear -Hn Hk Hs.
      induction (event_callers e) as [|x l IHl]; [destruct Hk|].
      cbn in Hn. inversion Hn; subst. destruct Hk as [->|Hk].
      - apply H1. apply in_or_app. right. apply in_or_app. now right.
      - now apply IHl. }
    pose proof (inv_step s seen e H Hf) as H1.
    assert (Hn1 : NoDup (callers_of tr ++ event_callers e ++ seen)).
    { eapply Permutation_NoDup; [|exact Hn].
      rewrite app_assoc. rewrite app_assoc.
      apply Permutation_app_tail. apply Permutation_app_comm. }
    specialize (IH _ _ H1 Hn1).
    eapply inv_weaken; [exact IH|].
    fold (callers_of tr). rewrite rev_app_distr. rewrite <- app_assoc.
    apply incl_app; [apply incl_appl, incl_refl|].
    apply incl_appr. apply incl_app.
    + apply incl_appl. intros x Hx. now apply in_rev in Hx.
    + apply incl_appr, incl_refl.
Qed.

Theorem run_inv tr : wf_trace tr -> inv (run tr) (rev (callers_of tr)).
Proof.
  intros H. pose proof (inv_run_from tr init_st [] inv_init) as G.
  rewrite !app_nil_r in G. now apply G.
Qed.

(** Every call completes at most once. *)
Theorem complete_at_most_once tr :
  wf_trace tr -> NoDup (map fst (log (run tr))).
Proof.
  intros H. destruct (run_inv tr H) as [_ Hn _ _].
  unfold owners in Hn. now apply NoDup_app_l in Hn.
Qed.

(** No done() runs twice (which would be a "close of closed channel" panic). *)
Theorem never_double_close tr : wf_trace tr -> panicked (run tr) = false.
Proof. intros H. now destruct (run_inv tr H). Qed.

(** A call that is still in the table has not been completed. *)
Theorem pending_not_completed tr i c :
  wf_trace tr -> lookup i (pending (run tr)) = Some c ->
  status (run tr) (pc_caller c) = None.
Proof.
  intros H Hl. destruct (run_inv tr H) as [_ Hn _ _].
  apply lookup_in in Hl. unfold owners in Hn.
  assert (Hnot : ~ In (pc_caller c) (map fst (log (run tr)))).
  { intros Hin. revert Hn. generalize (map fst (log (run tr))) Hin.
    intros l Hl' Hn. induction l as [|x l IH]; [destruct Hl'|].
    cbn in Hn. inversion Hn; subst. destruct Hl' as [->|Hl'].
    - apply H2. apply in_or_app. right.
      unfold pcallers. apply in_map_iff. now exists (i, c).
    - now apply IH. }
  unfold status. clear -Hnot. induction (log (run tr)) as [|[k r] l IH]; [reflexivity|].
  cbn [status_in]. cbn [map fst] in Hnot.
  destruct (pc_caller c =? k) eqn:E.
  - apply N.eqb_eq in E. subst. exfalso. apply Hnot. now left.
  - apply IH. intros Hin. apply Hnot. now right.
Qed.


(** * Where completions come from *)

Lemma complete_pending k r s : pending (complete k r s) = pending s.
Proof. unfold complete. now destruct (completed k s). Qed.

Lemma complete_next_id k r s : next_id (complete k r s) = next_id s.
Proof. unfold complete. now destruct (completed k s). Qed.

Lemma complete_shut k r s : shut (complete k r s) = shut s.
Proof. unfold complete. now destruct (completed k s). Qed.

Lemma complete_sig k r s : sig (complete k r s) = sig s.
Proof. unfold complete. now destruct (completed k s). Qed.

Lemma complete_log_in x k r s :
  In x (log (complete k r s)) -> In x (log s) \/ x = (k, r).
Proof.
  unfold complete. destruct (completed k s); cbn [log]; [now left|].
  intros H. apply in_app_or in H. destruct H as [H|[H|[]]]; [now left|now right].
Qed.

Lemma fail_pending_log_in x p : forall s,
  In x (log (fail_pending p s)) -> In x (log s) \/ snd x = RErr CExit.
Proof.
  unfold fail_pending. induction p as [|ic r IH]; intros s; cbn [fold_left]; [now left|].
  intros H. apply IH in H. destruct H as [H|H]; [|now right].
  apply complete_log_in in H. destruct H as [H|H]; [now left|right; now subst].
Qed.

Lemma exit_serve_log_in x s :
  In x (log (exit_serve s)) -> In x (log s) \/ snd x = RErr CExit.
Proof. unfold exit_serve. cbn [log]. apply fail_pending_log_in. Qed.

Lemma remove_in x i p : In x (remove i p) -> In x p.
Proof.
  induction p as [|[j c] r IH]; cbn [remove]; [tauto|].
  destruct (i =? j); [intros H; right; now apply IH|].
  intros [H|H]; [now left|right; now apply IH].
Qed.

(** A completion produced by one step is either one of the four local
    errors, or the decoded body of a reply frame addressed (by id and type)
    to a call that was in the table. *)
Definition from_reply (s : st) (e : event) (k : N) (r : result) : Prop :=
  exists f id d c,
    e = EReply f /\ running s = true /\
    parse_reply_header f = (HReply id (pc_typ c), d) /\
    lookup id (pending s) = Some c /\ pc_caller c = k /\ r = reply_result c d.

Definition local_error (r : result) : Prop :=
  r = RErr CShutdown \/ r = RErr CSend \/ r = RErr CExit \/ r = RErr CTooLong.

Lemma step_log_in s e k r :
  In (k, r) (log (step s e)) ->
  In (k, r) (log s) \/ local_error r \/ from_reply s e k r.
Proof.
  unfold local_error.
  destruct e as [|k'|c ok|f| |]; cbn [Rpc.step].
  - cbn [log]. now left.
  - destruct (sig s); [|now left]. intros H. apply complete_log_in in H.
    destruct H as [H|[= -> ->]]; [now left|]. right; left. now left.
  - destruct (running s); [|now left]. unfold Rpc.on_call.
    destruct (shut s).
    + intros H. apply complete_log_in in H. cbn [log] in H.
      destruct H as [H|[= -> ->]]; [now left|]. right; left. now left.
    + destruct ok; cbn [negb].
      * cbn [set_pending log].
        destruct (lookup _ _); cbn [log set_pending pending]; [|now left].
        intros H. apply complete_log_in in H. cbn [log set_pending] in H.
        destruct H as [H|[= -> ->]]; [now left|]. right; left. tauto.
      * intros H. apply exit_serve_log_in in H. cbn [snd] in H.
        destruct H as [H|H]; [|right; left; tauto].
        apply complete_log_in in H. cbn [log] in H.
        destruct H as [H|[= -> ->]]; [now left|]. right; left. tauto.
  - destruct (running s) eqn:Er; [|now left]. unfold Rpc.on_reply.
    destruct (parse_reply_header f) as [h d] eqn:Eh.
    destruct h as [n|ec|id typ]; [now left| |].
    { intros H. apply exit_serve_log_in in H. cbn [snd] in H.
      destruct H as [H|H]; [now left|right; left; tauto]. }
    destruct (typ =? msg_shutdown_hint); [now left|].
    destruct (lookup id (pending s)) as [c|] eqn:El; [|now left].
    destruct (typ =? pc_typ c) eqn:Et; cbn [negb]; [|now left].
    apply N.eqb_eq in Et. subst typ.
    assert (G : In (k, r) (log (complete (pc_caller c) (reply_result c d)
                  (set_pending (remove id (pending s)) s))) ->
                In (k, r) (log s) \/ from_reply s (EReply f) k r).
    { intros H. apply complete_log_in in H. cbn [log set_pending] in H.
      destruct H as [H|[= -> ->]]; [now left|]. right.
      exists f, id, d, c. repeat split; assumption. }
    destruct (_ && _).
    + intros H. apply exit_serve_log_in in H. cbn [snd] in H.
      destruct H as [H|H]; [|right; left; tauto].
      apply G in H. tauto.
    + intros H. apply G in H. tauto.
  - now left.
  - destruct (running s); [|now left].
    intros H. apply exit_serve_log_in in H. cbn [snd] in H.
    destruct H as [H|H]; [now left|right; left; tauto].
Qed.

(** An entry of the table was put there by a successful send. *)
Lemma step_pending_in s e i c :
  In (i, c) (pending (step s e)) ->
  In (i, c) (pending s) \/
  (e = ECall c true /\ running s = true /\ shut s = false /\ i = next_id s).
Proof.
  destruct e as [|k'|c' ok|f| |]; cbn [Rpc.step].
  - cbn [pending]. now left.
  - destruct (sig s); [rewrite complete_pending|]; now left.
  - destruct (running s); [|now left]. unfold Rpc.on_call.
    destruct (shut s).
    + rewrite complete_pending. cbn [pending]. now left.
    + destruct ok; cbn [negb].
      * cbn [set_pending pending]. intros [H|H].
        { inversion H; subst. right. repeat split. }
        left. destruct (lookup _ _); cbn [pending set_pending] in H; [|assumption].
        rewrite complete_pending in H. cbn [set_pending pending] in H.
        now apply remove_in in H.
      * unfold exit_serve. cbn [pending]. intros [].
  - destruct (running s); [|now left]. unfold Rpc.on_reply.
    destruct (parse_reply_header f) as [h d].
    destruct h as [n|ec|id typ]; [now left|unfold exit_serve; cbn [pending]; intros []|].
    destruct (typ =? msg_shutdown_hint); [now left|].
    destruct (lookup id (pending s)) as [c0|]; [|now left].
    destruct (negb _).
    + cbn [set_pending pending]. intros H. left. now apply remove_in in H.
    + destruct (_ && _).
      * unfold exit_serve. cbn [pending]. intros [].
      * rewrite complete_pending. cbn [set_pending pending]. intros H. left.
        now apply remove_in in H.
  - now left.
  - destruct (running s); [|now left]. unfold exit_serve. cbn [pending]. intros [].
Qed.

(** [own_reply tr k vs]: in the history [tr], call [k] was sent (the write
    succeeded) under id [i] -- the number of calls serve had taken before it
    -- and a later frame carries that id, the call's own type, a zero error
    byte and a body that decodes, with the caller's response layout, to
    exactly [vs]. *)
Definition own_reply (tr : list event) (k : N) (vs : list value) : Prop :=
  exists pre c mid f post d,
    tr = pre ++ ECall c true :: mid ++ EReply f :: post /\
    pc_caller c = k /\
    running (run pre) = true /\ shut (run pre) = false /\
    parse_reply_header f = (HReply (next_id (run pre)) (pc_typ c), d) /\
    reply_result c d = ROk vs.

Lemma own_reply_snoc tr e k vs : own_reply tr k vs -> own_reply (tr ++ [e]) k vs.
Proof.
  intros (pre & c & mid & f & post & d & -> & H).
  exists pre, c, mid, f, (post ++ [e]), d. split; [|exact H].
  rewrite <- app_assoc. cbn [app]. rewrite <- app_assoc. reflexivity.
Qed.

Definition sent_as (tr : list event) (i : N) (c : pcall) : Prop :=
  exists pre post,
    tr = pre ++ ECall c true :: post /\
    running (run pre) = true /\ shut (run pre) = false /\ next_id (run pre) = i.

Lemma provenance tr :
  (forall i c, In (i, c) (pending (run tr)) -> sent_as tr i c) /\
  (forall k vs, In (k, ROk vs) (log (run tr)) -> own_reply tr k vs).
Proof.
  induction tr as [|e tr [IHa IHb]] using rev_ind.
  - split; intros ? ? [].
  - rewrite run_snoc. split.
    + intros i c H. apply step_pending_in in H. destruct H as [H|(-> & Hr & Hs & ->)].
      * destruct (IHa i c H) as (pre & post & -> & G).
        exists pre, (post ++ [e]). split; [|exact G].
        now rewrite <- app_assoc.
      * exists tr, []. repeat split; assumption.
    + intros k vs H. apply step_log_in in H.
      destruct H as [H|[H|H]].
      * now apply own_reply_snoc, IHb.
      * unfold local_error in H. destruct H as [H|[H|[H|H]]]; discriminate.
      * destruct H as (f & id & d & c & -> & Hr & Hp & Hl & Hk & Hres).
        apply lookup_in in Hl.
        destruct (IHa id c Hl) as (pre & post & -> & Hr' & Hs' & Hid).
        exists pre, c, post, f, [], d.
        split; [now rewrite <- app_assoc|].
        split; [assumption|]. split; [assumption|]. split; [assumption|].
        split; [now rewrite Hid|now symmetry].
Qed.

(** A successful result is the reply the peer sent for that very call. *)
Theorem success_is_own_reply tr k vs :
  In (k, ROk vs) (log (run tr)) -> own_reply tr k vs.
Proof. apply provenance. Qed.

(** ** Ids are the number of calls taken so far, modulo 2^64 *)

Lemma fail_pending_next_id p : forall s, next_id (fail_pending p s) = next_id s.
Proof.
  unfold fail_pending. induction p as [|ic r IHp]; intros s0; cbn [fold_left]; [reflexivity|].
  rewrite IHp. apply complete_next_id.
Qed.

Lemma exit_serve_next_id s : next_id (exit_serve s) = next_id s.
Proof. unfold exit_serve. cbn [next_id]. apply fail_pending_next_id. Qed.

Lemma step_next_id s e :
  next_id (step s e) =
  if running s && is_call e then (next_id s + 1) mod idmod else next_id s.
Proof.
  destruct e as [|k|c ok|f| |]; cbn [Rpc.step is_call]; rewrite ?andb_false_r; try reflexivity.
  - destruct (sig s); [apply complete_next_id|reflexivity].
  - destruct (running s); [|reflexivity]. cbn [andb]. unfold Rpc.on_call.
    destruct (shut s); [now rewrite complete_next_id|].
    destruct ok; cbn [negb].
    + cbn [set_pending next_id]. destruct (lookup _ _); [now rewrite complete_next_id|reflexivity].
    + now rewrite exit_serve_next_id, complete_next_id.
  - destruct (running s); [|reflexivity]. unfold Rpc.on_reply.
    destruct (parse_reply_header f) as [h d].
    destruct h as [n|ec|id typ]; [reflexivity|apply exit_serve_next_id|].
    destruct (typ =? msg_shutdown_hint); [reflexivity|].
    destruct (lookup id (pending s)) as [c0|]; [|reflexivity].
    destruct (negb _); [reflexivity|].
    destruct (_ && _).
    + now rewrite exit_serve_next_id, complete_next_id.
    + now rewrite complete_next_id.
  - destruct (running s); [apply exit_serve_next_id|reflexivity].
Qed.

Lemma next_id_lt tr : next_id (run tr) < idmod.
Proof.
  induction tr as [|e tr IH] using rev_ind; [exact idmod_pos|].
  rewrite run_snoc, step_next_id.
  destruct (_ && _); [apply N.mod_lt; lia|exact IH].
Qed.

Lemma count_calls_snoc tr e :
  count_calls (tr ++ [e]) = count_calls tr + (if is_call e then 1 else 0).
Proof.
  unfold count_calls. rewrite filter_app, app_length. cbn [filter].
  destruct (is_call e); cbn [List.length]; lia.
Qed.

(** While serve runs, the next id is the number of calls taken so far. *)
Lemma next_id_counts tr :
  running (run tr) = true -> next_id (run tr) = count_calls tr mod idmod.
Proof.
  induction tr as [|e tr IH] using rev_ind; intros Hr.
  - cbn. reflexivity.
  - assert (Hr0 : running (run tr) = true).
    { unfold Rpc.run in *. now apply running_prefix in Hr. }
    rewrite run_snoc, step_next_id, Hr0, count_calls_snoc, (IH Hr0). cbn [andb].
    destruct (is_call e).
    + rewrite N.add_mod_idemp_l by lia. reflexivity.
    + now rewrite N.add_0_r.
Qed.


(** * Frames act only on the call they are addressed to *)

(** The caller whose call a frame is addressed to (by id), if there is one. *)
Definition addressee (s : st) (f : bytes) : option N :=
  match frame_id f with
  | Some id => option_map pc_caller (lookup id (pending s))
  | None => None
  end.

(** The two kinds of frame that end the whole transport: a non-zero error
    byte, and the (well-formed) reply to a msgShutdown call. *)
Definition frame_fatal (s : st) (f : bytes) : bool :=
  match parse_reply_header f with
  | (HShort _, _) => false
  | (HRemoteError _, _) => true
  | (HReply id typ, d) =>
      negb (typ =? msg_shutdown_hint) &&
      match lookup id (pending s) with
      | Some c => (typ =? pc_typ c) && is_ok (reply_result c d) && (typ =? msg_shutdown)
      | None => false
      end
  end.

Lemma status_in_app k l l' :
  status_in k (l ++ l') =
  match status_in k l with Some r => Some r | None => status_in k l' end.
Proof.
  induction l as [|[k' r] l IH]; cbn [app status_in]; [reflexivity|].
  destruct (k =? k'); [reflexivity|exact IH].
Qed.

Lemma status_complete_other k k' r s :
  k <> k' -> status (complete k' r s) k = status s k.
Proof.
  intros H. unfold status, complete. destruct (completed k' s); cbn [log]; [reflexivity|].
  rewrite status_in_app. cbn [status_in].
  destruct (k =? k') eqn:E; [apply N.eqb_eq in E; contradiction|].
  now destruct (status_in k (log s)).
Qed.

Theorem nonfatal_frame_local s f :
  running s = true -> frame_fatal s f = false ->
  let s' := step s (EReply f) in
  running s' = true /\ next_id s' = next_id s /\ shut s' = shut s /\ sig s' = sig s /\
  (forall j, frame_id f <> Some j -> lookup j (pending s') = lookup j (pending s)) /\
  (forall k, addressee s f <> Some k -> status s' k = status s k) /\
  (forall k, addressee s f = Some k -> completed k s = false -> panicked s' = panicked s).
Proof.
  intros Hr Hf. cbn [Rpc.step]. rewrite Hr.
  unfold addressee, frame_id, frame_fatal, Rpc.on_reply in *.
  destruct (parse_reply_header f) as [h d].
  destruct h as [n|ec|id typ]; cbn [fst] in *.
  - repeat split; try assumption; reflexivity.
  - discriminate.
  - destruct (typ =? msg_shutdown_hint) eqn:Eh; cbn [negb andb] in Hf.
    { repeat split; try assumption; reflexivity. }
    destruct (lookup id (pending s)) as [c|] eqn:El; cbn [option_map] in *.
    2:{ repeat split; try assumption; reflexivity. }
    destruct (typ =? pc_typ c) eqn:Et; cbn [negb andb] in *.
    + rewrite Hf.
      repeat split.
      * now rewrite complete_running.
      * now rewrite complete_next_id.
      * now rewrite complete_shut.
      * now rewrite complete_sig.
      * intros j Hj. rewrite complete_pending. cbn [set_pending pending].
        apply lookup_remove_other. intros ->. now apply Hj.
      * intros k Hk. rewrite status_complete_other; [reflexivity|].
        intros ->. now apply Hk.
      * intros k [= <-] Hc. unfold complete.
        change (completed (pc_caller c) (set_pending (remove id (pending s)) s))
          with (completed (pc_caller c) s).
        now rewrite Hc.
    + repeat split; try assumption; try reflexivity.
      intros j Hj. cbn [set_pending pending].
      apply lookup_remove_other. intros ->. now apply Hj.
Qed.

(** The malformed reply frames the property lists. *)
Inductive bad_frame (s : st) (f : bytes) : Prop :=
| BadShort n d :
    parse_reply_header f = (HShort n, d) -> bad_frame s f
| BadUnknownId id typ d :            (* never issued, or already answered *)
    parse_reply_header f = (HReply id typ, d) ->
    lookup id (pending s) = None -> bad_frame s f
| BadType id typ d c :
    parse_reply_header f = (HReply id typ, d) ->
    lookup id (pending s) = Some c -> typ <> pc_typ c -> bad_frame s f
| BadBody id typ d c e :
    parse_reply_header f = (HReply id typ, d) ->
    lookup id (pending s) = Some c -> reply_result c d = RErr e -> bad_frame s f.

Lemma client_decode_split cap sch f :
  client_decode alloc_max cap sch f =
  let '(h, d) := parse_reply_header f in
  match h with
  | HReply _ _ => (h, Some (dec_schema alloc_max cap sch d))
  | _ => (h, None)
  end.
Proof. reflexivity. Qed.

Theorem bad_frame_nonfatal s f : bad_frame s f -> frame_fatal s f = false.
Proof.
  intros H. unfold frame_fatal.
  destruct H as [n d Hp|id typ d Hp Hl|id typ d c Hp Hl Ht|id typ d c e Hp Hl He].
  - now rewrite Hp.
  - rewrite Hp, Hl. apply andb_false_r.
  - rewrite Hp, Hl. apply N.eqb_neq in Ht. rewrite Ht. apply andb_false_r.
  - rewrite Hp, Hl, He. cbn [is_ok]. rewrite andb_false_r. apply andb_false_r.
Qed.

(** A reply cut short anywhere is either a short packet or a frame with the
    call's own id and type whose body fails to decode with EOF. *)
Lemma reply_cut_header cap id t sch vs p :
  id < two64 -> t < 256 -> Forall2 wf_value sch vs ->
  strict_prefix p (reply_frame id t 0 (enc_schema sch vs)) ->
  match parse_reply_header p with
  | (HShort _, _) => True
  | (HReply id' t', d) =>
      id' = id /\ t' = t /\
      err (snd (dec_schema alloc_max cap sch d)) = Some EEof
  | _ => False
  end.
Proof.
  intros Hid Ht Hwf Hp. unfold reply_frame in Hp.
  unfold parse_reply_header, init.
  apply strict_prefix_app in Hp. destruct Hp as [Hp|[p1 [-> Hp]]].
  { apply (strict_prefix_len alloc_max alloc_max_ok) in Hp. rewrite lenN_le64 in Hp.
    unfold d_u64. cbn [err]. rewrite (d_read_short alloc_max alloc_max_ok) by assumption.
    rewrite (d_u8_sticky _ EEof) by reflexivity.
    rewrite (d_u8_sticky _ EEof) by reflexivity. exact I. }
  rewrite d_u64_exact by assumption.
  change [t; 0] with ([t] ++ [0]) in Hp. rewrite <- app_assoc in Hp.
  apply strict_prefix_app in Hp. destruct Hp as [Hp|[p2 [-> Hp]]].
  { apply (strict_prefix_len alloc_max alloc_max_ok) in Hp. change (lenN [t]) with 1 in Hp.
    unfold d_u8 at 1. rewrite (d_read_short alloc_max alloc_max_ok) by assumption.
    rewrite (d_u8_sticky _ EEof) by reflexivity. exact I. }
  unfold d_u8 at 1. change 1 with (lenN [t]) at 1. rewrite d_read_exact.
  apply strict_prefix_app in Hp. destruct Hp as [Hp|[p3 [-> Hp]]].
  { apply (strict_prefix_len alloc_max alloc_max_ok) in Hp. change (lenN [0]) with 1 in Hp.
    unfold d_u8. rewrite (d_read_short alloc_max alloc_max_ok) by assumption. exact I. }
  unfold d_u8. change 1 with (lenN [0]). rewrite d_read_exact.
  cbn [de_bytes err]. change (0 + 256 * 0 =? 0) with true. cbn iota.
  replace (t + 256 * 0) with t by lia.
  split; [reflexivity|]. split; [reflexivity|].
  exact (dec_schema_cut alloc_max alloc_max_ok cap sch vs p3 (0 + 8 + lenN [t] + lenN [0]) 0 Hwf Hp).
Qed.

(** A truncated reply to a pending call is one of the bad frames: it is
    either ignored or fails that very call with a decode error. *)
Theorem truncated_reply_is_bad s id c sch vs f :
  lookup id (pending s) = Some c -> pc_sch c = Some sch ->
  id < two64 -> pc_typ c < 256 -> pc_typ c <> msg_shutdown_hint ->
  Forall2 wf_value sch vs ->
  strict_prefix f (reply_frame id (pc_typ c) 0 (enc_schema sch vs)) ->
  bad_frame s f /\
  (step s (EReply f) = s \/
   running s = true /\
   step s (EReply f) =
     complete (pc_caller c) (RErr (CDecode EEof))
       (set_pending (remove id (pending s)) s)).
Proof.
  intros Hl Hs Hid Ht Hnh Hwf Hpre.
  pose proof (reply_cut_header (pc_cap c) id (pc_typ c) sch vs f Hid Ht Hwf Hpre) as G.
  cbn [Rpc.step]. unfold Rpc.on_reply.
  destruct (parse_reply_header f) as [h d] eqn:Ep. destruct h as [n|ec|id' typ'].
  - split; [now apply (BadShort s f n d)|]. left. now destruct (running s).
  - destruct G.
  - destruct G as (-> & -> & Herr).
    assert (Hres : reply_result c d = RErr (CDecode EEof)).
    { unfold Rpc.reply_result. rewrite Hs.
      destruct (dec_schema alloc_max (pc_cap c) sch d) as [vs' d']. cbn [snd] in Herr.
      now rewrite Herr. }
    split; [now apply (BadBody s f id (pc_typ c) d c (CDecode EEof))|].
    destruct (running s); [|now left]. right. split; [reflexivity|].
    apply N.eqb_neq in Hnh. rewrite Hnh.
    rewrite Hl, N.eqb_refl. cbn [negb]. rewrite Hres. cbn [is_ok andb]. reflexivity.
Qed.

(** Decoding a reply body never panics (C13), so no call is ever completed
    with a decoder panic. *)
Lemma reply_result_no_panic f id typ d c :
  parse_reply_header f = (HReply id typ, d) ->
  reply_result c d <> RErr (CDecode EPanic).
Proof.
  intros Hp. unfold Rpc.reply_result. destruct (pc_sch c) as [sch|]; [|discriminate].
  pose proof (client_decode_ok alloc_max alloc_max_ok (pc_cap c) sch f) as G.
  rewrite client_decode_split, Hp in G.
  destruct (dec_schema alloc_max (pc_cap c) sch d) as [vs d'].
  destruct G as [G _]. destruct (err d') as [e|]; [|discriminate].
  intros [= ->]. now apply G.
Qed.

Theorem no_decode_panic tr k : ~ In (k, RErr (CDecode EPanic)) (log (run tr)).
Proof.
  induction tr as [|e tr IH] using rev_ind; [intros []|].
  rewrite run_snoc. intros H. apply step_log_in in H.
  destruct H as [H|[H|H]]; [now apply IH| |].
  - unfold local_error in H. destruct H as [H|[H|[H|H]]]; discriminate.
  - destruct H as (f & id & d & c & -> & _ & Hp & _ & _ & Hres).
    symmetry in Hres. now apply (reply_result_no_panic f id (pc_typ c) d c Hp).
Qed.

(** Once a frame addressed to an id has been handled, that id is unknown:
    a duplicate of the reply finds nothing. *)
Theorem answered_id_forgotten s f id typ d :
  running s = true -> parse_reply_header f = (HReply id typ, d) ->
  typ <> msg_shutdown_hint ->
  lookup id (pending (step s (EReply f))) = None.
Proof.
  intros Hr Hp Hh. cbn [Rpc.step]. rewrite Hr. unfold Rpc.on_reply. rewrite Hp.
  apply N.eqb_neq in Hh. rewrite Hh.
  destruct (lookup id (pending s)) as [c|] eqn:El; [|exact El].
  destruct (negb _); [cbn [set_pending pending]; apply lookup_remove_same|].
  destruct (_ && _); [reflexivity|].
  rewrite complete_pending. cbn [set_pending pending]. apply lookup_remove_same.
Qed.

(** * A call whose reply arrives completes with it *)

Lemma mod_add_ne i b : i < idmod -> 0 < b -> b < idmod -> (i + b) mod idmod <> i.
Proof.
  intros Hi Hb Hbm. destruct (i + b <? idmod) eqn:E.
  - rewrite N.mod_small by lia. lia.
  - replace (i + b) with ((i + b - idmod) + 1 * idmod) by lia.
    rewrite N.mod_add by lia. rewrite N.mod_small by lia. lia.
Qed.

Lemma lookup_insert_other i j c p : i <> j -> lookup i ((j, c) :: p) = lookup i p.
Proof. intros H. unfold lookup. cbn [assoc_N]. apply N.eqb_neq in H. now rewrite H. Qed.

(** The entry of call [c] under id [i] survives every event that neither
    ends serve nor is addressed to [i], as long as the id does not come
    round again. *)
Lemma entry_stable i c : forall mid s a,
  lookup i (pending s) = Some c -> i < idmod ->
  next_id s = (i + 1 + a) mod idmod ->
  a + count_calls mid + 1 <= idmod ->
  Forall (fun e => targets i e = false) mid ->
  running (run_from s mid) = true ->
  lookup i (pending (run_from s mid)) = Some c.
Proof.
  induction mid as [|e mid IH]; intros s a Hl Hi Hn Hc' Hf Hr; [exact Hl|].
  cbn [Rpc.run_from fold_left] in *. fold (run_from (step s e) mid) in *.
  inversion Hf as [|? ? Hte Hf']; subst.
  assert (Hrs : running (step s e) = true).
  { destruct (running (step s e)) eqn:E; [reflexivity|].
    now rewrite run_from_stopped in Hr. }
  assert (Hr0 : running s = true).
  { destruct (running s) eqn:E; [reflexivity|]. now rewrite step_stopped in Hrs. }
  assert (Hcnt : count_calls (e :: mid) = (if is_call e then 1 else 0) + count_calls mid).
  { unfold count_calls. cbn [filter]. destruct (is_call e); cbn [List.length]; lia. }
  rewrite Hcnt in Hc'.
  apply (IH (step s e) (a + if is_call e then 1 else 0)); try assumption; try lia.
  - (* the entry survives this step *)
    destruct e as [|k|c' ok|f| |]; cbn [Rpc.step] in *.
    + exact Hl.
    + destruct (sig s); [now rewrite complete_pending|exact Hl].
    + rewrite Hr0 in *. unfold Rpc.on_call in *.
      destruct (shut s); [now rewrite complete_pending|].
      destruct ok; cbn [negb] in *.
      * assert (Hne : i <> next_id s).
        { rewrite Hn. replace (i + 1 + a) with (i + (1 + a)) by lia.
          intros E. symmetry in E. revert E. apply mod_add_ne; cbn [is_call] in *; lia. }
        cbn [set_pending pending].
        rewrite lookup_insert_other by exact Hne.
        destruct (lookup (next_id s) _); cbn [pending set_pending]; [|exact Hl].
        rewrite complete_pending. cbn [set_pending pending].
        rewrite lookup_remove_other by (intros E; now apply Hne). exact Hl.
      * unfold exit_serve in Hrs. cbn [running] in Hrs. discriminate.
    + rewrite Hr0 in *. unfold targets, event_frame_id, frame_id in Hte.
      unfold Rpc.on_reply in *.
      destruct (parse_reply_header f) as [h d]. cbn [fst] in Hte.
      destruct h as [n|ec|id typ]; [exact Hl|unfold exit_serve in Hrs; discriminate|].
      apply N.eqb_neq in Hte.
      destruct (typ =? msg_shutdown_hint); [exact Hl|].
      destruct (lookup id (pending s)) as [c0|]; [|exact Hl].
      destruct (negb _).
      { cbn [set_pending pending]. rewrite lookup_remove_other by (intros E; now apply Hte). exact Hl. }
      destruct (_ && _); [unfold exit_serve in Hrs; discriminate|].
      rewrite complete_pending. cbn [set_pending pending].
      rewrite lookup_remove_other by (intros E; now apply Hte). exact Hl.
    + exact Hl.
    + rewrite Hr0 in Hrs. unfold exit_serve in Hrs. discriminate.
  - (* id bookkeeping *)
    rewrite step_next_id, Hr0, Hn. cbn [andb].
    destruct (is_call e).
    + rewrite N.add_mod_idemp_l by lia. f_equal. lia.
    + f_equal. lia.
Qed.

Definition reply_wf (c : pcall) (vs : list value) : Prop :=
  match pc_sch c with
  | Some sch => Forall2 wf_value sch vs
  | None => vs = []
  end.

Definition reply_body (c : pcall) (vs : list value) : bytes :=
  match pc_sch c with
  | Some sch => enc_schema sch vs
  | None => []
  end.

Lemma callers_of_app a b : callers_of (a ++ b) = callers_of a ++ callers_of b.
Proof. unfold callers_of. apply flat_map_app. Qed.

Lemma wf_trace_prefix a b : wf_trace (a ++ b) -> wf_trace a.
Proof. unfold wf_trace. rewrite callers_of_app. apply NoDup_app_l. Qed.

Lemma status_of_in l k r :
  NoDup (map fst l) -> In (k, r) l -> status_in k l = Some r.
Proof.
  induction l as [|[k' r'] l IH]; intros Hn Hin; [destruct Hin|].
  cbn [map fst] in Hn. inversion Hn as [|? ? Hx Hr]; subst.
  cbn [status_in]. destruct Hin as [[= -> ->]|Hin].
  - now rewrite N.eqb_refl.
  - destruct (k =? k') eqn:E; [|now apply IH].
    apply N.eqb_eq in E. subst. exfalso. apply Hx.
    apply in_map_iff. now exists (k', r).
Qed.

(** With a peer that answers the request -- any time later, in any order
    relative to other replies, with whatever other frames in between -- the
    call completes with exactly the fields the peer encoded. *)
Theorem answered_call_completes pre c mid vs extra post :
  let i := next_id (run pre) in
  let tr := pre ++ ECall c true :: mid ++
            EReply (reply_frame i (pc_typ c) 0 (reply_body c vs) ++ extra) :: post in
  wf_trace tr ->
  shut (run pre) = false ->
  running (run (pre ++ ECall c true :: mid)) = true ->
  Forall (fun e => targets i e = false) mid ->
  count_calls mid + 1 <= idmod ->
  idmod <= two64 -> pc_typ c < 256 -> pc_typ c <> msg_shutdown_hint ->
  reply_wf c vs ->
  status (run tr) (pc_caller c) = Some (ROk vs).
Proof.
  intros i tr Hwf Hsh Hrun Hmid Hcnt Hm Ht Hnh Hvs.
  set (f := reply_frame i (pc_typ c) 0 (reply_body c vs) ++ extra) in *.
  assert (Hi : i < idmod) by apply next_id_lt.
  assert (Hr0 : running (run pre) = true).
  { unfold Rpc.run in *. now apply running_prefix in Hrun. }
  (* after the send *)
  set (s1 := step (run pre) (ECall c true)).
  assert (Hl1 : lookup i (pending s1) = Some c).
  { unfold s1. cbn [Rpc.step]. rewrite Hr0. unfold Rpc.on_call. rewrite Hsh. cbn [negb].
    cbn [set_pending pending]. unfold lookup. cbn [assoc_N]. fold i. now rewrite N.eqb_refl. }
  assert (Hn1 : next_id s1 = (i + 1 + 0) mod idmod).
  { unfold s1. rewrite step_next_id, Hr0. cbn [andb is_call]. fold i. f_equal. lia. }
  (* through [mid] *)
  set (s2 := run (pre ++ ECall c true :: mid)) in *.
  assert (Es2 : s2 = run_from s1 mid).
  { unfold s2, s1, Rpc.run. rewrite run_from_app. reflexivity. }
  assert (Hl2 : lookup i (pending s2) = Some c).
  { rewrite Es2. apply (entry_stable i c mid s1 0); try assumption; try lia.
    now rewrite <- Es2. }
  (* the reply *)
  assert (Hparse : exists d, parse_reply_header f = (HReply i (pc_typ c), d) /\
                             reply_result c d = ROk vs).
  { unfold f, reply_body, reply_wf, Rpc.reply_result in *.
    destruct (pc_sch c) as [sch|].
    - destruct (client_roundtrip alloc_max alloc_max_ok (pc_cap c) i (pc_typ c) sch vs extra)
        as [d' [R [Herr _]]]; try assumption; try lia.
      rewrite client_decode_split in R.
      destruct (parse_reply_header _) as [h d0]. destruct h as [?|?|id0 typ0]; try discriminate.
      injection R as E1 E2 E3. exists d0. rewrite E1, E2. split; [reflexivity|].
      rewrite E3. now rewrite Herr.
    - subst vs.
      destruct (client_roundtrip alloc_max alloc_max_ok 0 i (pc_typ c) [] [] extra)
        as [d' [R _]]; try lia; [constructor|].
      rewrite client_decode_split in R. cbn [enc_schema] in R.
      destruct (parse_reply_header _) as [h d0]. destruct h as [?|?|id0 typ0]; try discriminate.
      injection R as E1 E2 E3. exists d0. rewrite E1, E2. split; reflexivity. }
  destruct Hparse as [d [Hp Hres]].
  assert (Hwf2 : wf_trace (pre ++ ECall c true :: mid)).
  { unfold tr in Hwf.
    replace (pre ++ ECall c true :: mid ++ EReply f :: post)
      with ((pre ++ ECall c true :: mid) ++ EReply f :: post) in Hwf
      by (rewrite <- app_assoc; reflexivity).
    now apply wf_trace_prefix in Hwf. }
  pose proof (pending_not_completed _ i c Hwf2 Hl2) as Hnc. fold s2 in Hnc.
  assert (Hin3 : In (pc_caller c, ROk vs) (log (step s2 (EReply f)))).
  { cbn [Rpc.step]. rewrite Hrun. unfold Rpc.on_reply. rewrite Hp.
    apply N.eqb_neq in Hnh. rewrite Hnh, Hl2, N.eqb_refl. cbn [negb]. rewrite Hres.
    assert (G : In (pc_caller c, ROk vs)
                  (log (complete (pc_caller c) (ROk vs)
                          (set_pending (remove i (pending s2)) s2)))).
    { rewrite complete_fresh.
      - cbn [add_log log set_pending]. apply in_or_app. right. now left.
      - cbn [set_pending log]. intros Hin.
        unfold status in Hnc. clear -Hin Hnc.
        induction (log s2) as [|[k r] l IH]; [destruct Hin|].
        cbn [status_in] in Hnc. cbn [map fst] in Hin.
        destruct (pc_caller c =? k) eqn:E; [discriminate|].
        destruct Hin as [Hin|Hin]; [subst; rewrite N.eqb_refl in E; discriminate|].
        now apply IH. }
    destruct (_ && _); [|exact G].
    eapply extends_in; [apply exit_serve_extends|exact G]. }
  assert (Etr : run tr = run_from (step s2 (EReply f)) post).
  { unfold tr, s2, Rpc.run.
    replace (pre ++ ECall c true :: mid ++ EReply f :: post)
      with ((pre ++ ECall c true :: mid) ++ EReply f :: post)
      by (rewrite <- app_assoc; reflexivity).
    rewrite run_from_app. reflexivity. }
  unfold status. apply status_of_in.
  - now apply complete_at_most_once.
  - rewrite Etr. eapply extends_in; [apply run_from_extends|exact Hin3].
Qed.

End Proofs.

(** [wf_traceb] decides [wf_trace]. *)
Lemma nodupb_spec l : nodupb l = true -> NoDup l.
Proof.
  induction l as [|x r IH]; cbn [nodupb]; [constructor|].
  intros H. apply andb_prop in H. destruct H as [H1 H2]. constructor; [|now apply IH].
  intros Hin. apply negb_true_iff in H1.
  assert (existsb (N.eqb x) r = true); [|congruence].
  apply existsb_exists. exists x. split; [assumption|apply N.eqb_refl].
Qed.

Lemma wf_traceb_spec tr : wf_traceb tr = true -> wf_trace tr.
Proof. apply nodupb_spec. Qed.

(** * Whatever order the replies arrive in *)

Lemma Forall2_nth_error_wf {A B} (R : A -> B -> Prop) (l : list A) (l' : list B) j a b :
  Forall2 R l l' -> nth_error l j = Some a -> nth_error l' j = Some b -> R a b.
Proof.
  intros H. revert j. induction H as [|x y l l' Hxy H IH]; intros j Ha Hb; [destruct j; discriminate|].
  destruct j as [|j]; cbn [nth_error] in *.
  - injection Ha as <-. injection Hb as <-. exact Hxy.
  - eapply IH; eassumption.
Qed.

Section ReplyOrder.
Variable alloc_max : N.
Hypothesis alloc_max_ok : alloc_max <= go_max_alloc.
Variable idmod : N.
Hypothesis idmod_pos : 0 < idmod.
Hypothesis idmod_le : idmod <= two64.

Notation step := (Rpc.step alloc_max idmod).
Notation run_from := (Rpc.run_from alloc_max idmod).
Notation run := (Rpc.run alloc_max idmod).

(** Serve is running, no shutdown has been requested and no shutdown call is
    pending: then neither a successfully sent ordinary call nor a frame with
    a zero error byte can end the transport. *)
Definition calm (s : st) : Prop :=
  running s = true /\ shut s = false /\
  forall i c, In (i, c) (pending s) -> pc_typ c <> msg_shutdown.

Lemma calm_call s c :
  calm s -> pc_typ c <> msg_shutdown -> calm (step s (ECall c true)).
Proof.
  intros (Hr & Hs & Hp) Ht. cbn [Rpc.step]. rewrite Hr. unfold Rpc.on_call. rewrite Hs. cbn [negb].
  apply N.eqb_neq in Ht.
  repeat split.
  - cbn [set_pending running]. destruct (lookup _ _); [rewrite complete_running|];
      cbn [running set_pending]; exact Hr.
  - cbn [set_pending shut]. destruct (lookup _ _); [rewrite complete_shut|]; cbn [shut set_pending]; exact Ht.
  - cbn [set_pending pending]. intros i c0 [H|H].
    + injection H as _ <-. now apply N.eqb_neq.
    + destruct (lookup _ _); cbn [pending set_pending] in H.
      * rewrite complete_pending in H. cbn [set_pending pending] in H.
        apply remove_in in H. now apply (Hp i c0).
      * now apply (Hp i c0).
Qed.

Definition error_byte_zero (f : bytes) : Prop :=
  match fst (parse_reply_header f) with HRemoteError _ => False | _ => True end.

Lemma calm_reply s f : calm s -> error_byte_zero f -> calm (step s (EReply f)).
Proof.
  intros (Hr & Hs & Hp) He. cbn [Rpc.step]. rewrite Hr. unfold Rpc.on_reply, error_byte_zero in *.
  destruct (parse_reply_header f) as [h d]. cbn [fst] in He.
  destruct h as [n|ec|id typ]; [repeat split; assumption|destruct He|].
  destruct (typ =? msg_shutdown_hint); [repeat split; assumption|].
  destruct (lookup id (pending s)) as [c|] eqn:El; [|repeat split; assumption].
  assert (Hsub : forall i c0, In (i, c0) (remove id (pending s)) -> pc_typ c0 <> msg_shutdown).
  { intros i c0 H. apply remove_in in H. now apply (Hp i c0). }
  destruct (typ =? pc_typ c) eqn:Et; cbn [negb].
  - apply N.eqb_eq in Et. subst typ.
    assert (Hne : (pc_typ c =? msg_shutdown) = false).
    { apply N.eqb_neq. apply (Hp id c). now apply lookup_in. }
    rewrite Hne, andb_false_r.
    repeat split.
    + now rewrite complete_running.
    + now rewrite complete_shut.
    + rewrite complete_pending. exact Hsub.
  - repeat split; assumption.
Qed.

Lemma calm_calls cs : forall s,
  calm s -> Forall (fun c => pc_typ c <> msg_shutdown) cs ->
  calm (run_from s (map (fun c => ECall c true) cs)).
Proof.
  induction cs as [|c r IH]; intros s Hc Hf; cbn [map Rpc.run_from fold_left]; [exact Hc|].
  inversion Hf; subst. apply IH; [|assumption]. now apply calm_call.
Qed.

Lemma calm_replies fs : forall s,
  calm s -> Forall error_byte_zero fs -> calm (run_from s (map EReply fs)).
Proof.
  induction fs as [|f r IH]; intros s Hc Hf; cbn [map Rpc.run_from fold_left]; [exact Hc|].
  inversion Hf; subst. apply IH; [|assumption]. now apply calm_reply.
Qed.

Lemma calm_init : calm init_st.
Proof. repeat split. intros i c []. Qed.

(** The well-formed reply of the peer to the [i]-th call. *)
Definition good_reply (i : N) (c : pcall) (vs : list value) : bytes :=
  reply_frame i (pc_typ c) 0 (reply_body c vs).

Lemma good_reply_header i c vs :
  i < two64 -> pc_typ c < 256 -> reply_wf c vs ->
  exists d, parse_reply_header (good_reply i c vs) = (HReply i (pc_typ c), d).
Proof.
  intros Hi Ht Hwf. unfold good_reply, reply_body, reply_wf in *.
  destruct (pc_sch c) as [sch|].
  - destruct (client_roundtrip alloc_max alloc_max_ok 0 i (pc_typ c) sch vs []) as [d' [R _]];
      try assumption.
    rewrite app_nil_r in R. rewrite client_decode_split in R.
    destruct (parse_reply_header _) as [h d0]. destruct h as [?|?|id0 typ0]; try discriminate.
    injection R as E1 E2 _. exists d0. now rewrite E1, E2.
  - destruct (client_roundtrip alloc_max alloc_max_ok 0 i (pc_typ c) [] [] []) as [d' [R _]];
      try assumption; [constructor|].
    rewrite app_nil_r in R. rewrite client_decode_split in R. cbn [enc_schema] in R.
    destruct (parse_reply_header _) as [h d0]. destruct h as [?|?|id0 typ0]; try discriminate.
    injection R as E1 E2 _. exists d0. now rewrite E1, E2.
Qed.

(** The replies to calls number [i], [i+1], ... *)
Fixpoint good_replies (i : N) (cs : list pcall) (vss : list (list value)) : list bytes :=
  match cs, vss with
  | c :: cs', vs :: vss' => good_reply i c vs :: good_replies (i + 1) cs' vss'
  | _, _ => []
  end.

Definition ordinary (c : pcall) : Prop :=
  pc_typ c < 256 /\ pc_typ c <> msg_shutdown /\ pc_typ c <> msg_shutdown_hint.

Lemma good_replies_ids cs : forall i vss f,
  i + N.of_nat (List.length cs) <= two64 ->
  Forall ordinary cs -> Forall2 reply_wf cs vss ->
  In f (good_replies i cs vss) ->
  error_byte_zero f /\ exists j, frame_id f = Some j /\ i <= j < i + N.of_nat (List.length cs).
Proof.
  induction cs as [|c r IH]; intros i vss f Hb Ho Hw Hin.
  - destruct vss; destruct Hin.
  - inversion Hw as [|? vs ? vss' Hv Hvs]; subst. inversion Ho as [|? ? (Ht & _) Hor]; subst.
    cbn [good_replies List.length] in *. destruct Hin as [<-|Hin].
    + destruct (good_reply_header i c vs) as [d Hd]; try assumption; try lia.
      unfold error_byte_zero, frame_id. rewrite Hd. cbn [fst]. split; [exact I|].
      exists i. split; [reflexivity|lia].
    + destruct (IH (i + 1) vss' f) as (G1 & j & G2 & G3); try assumption; try lia.
      split; [assumption|]. exists j. split; [assumption|lia].
Qed.

Lemma good_replies_nth cs : forall i vss j c vs,
  nth_error cs j = Some c -> nth_error vss j = Some vs ->
  In (good_reply (i + N.of_nat j) c vs) (good_replies i cs vss).
Proof.
  induction cs as [|c0 r IH]; intros i vss j c vs Hc Hv; [destruct j; discriminate|].
  destruct vss as [|vs0 vss']; [destruct j; discriminate|].
  destruct j as [|j]; cbn [nth_error good_replies] in *.
  - injection Hc as <-. injection Hv as <-. left. f_equal. lia.
  - right. replace (i + N.of_nat (S j)) with (i + 1 + N.of_nat j) by lia. now apply IH.
Qed.

(** All other replies in the list are addressed to other ids. *)
Lemma good_replies_other cs : forall i vss j c vs f,
  i + N.of_nat (List.length cs) <= two64 ->
  Forall ordinary cs -> Forall2 reply_wf cs vss ->
  nth_error cs j = Some c -> nth_error vss j = Some vs ->
  In f (good_replies i cs vss) -> frame_id f = Some (i + N.of_nat j) ->
  f = good_reply (i + N.of_nat j) c vs.
Proof.
  induction cs as [|c0 r IH]; intros i vss j c vs f Hb Ho Hw Hc Hv Hin Hid; [destruct j; discriminate|].
  inversion Hw as [|? vs0 ? vss' Hv0 Hvs]; subst. inversion Ho as [|? ? (Ht0 & _) Hor]; subst.
  cbn [good_replies List.length] in *.
  destruct j as [|j]; cbn [nth_error] in *.
  - injection Hc as <-. injection Hv as <-. destruct Hin as [<-|Hin]; [f_equal; lia|].
    destruct (good_replies_ids r (i + 1) vss' f) as (_ & k & G2 & G3); try assumption; try lia.
    rewrite G2 in Hid. injection Hid as ->. lia.
  - destruct Hin as [<-|Hin].
    + destruct (good_reply_header i c0 vs0) as [d Hd]; try assumption; try lia.
      unfold frame_id in Hid. rewrite Hd in Hid. cbn [fst] in Hid. injection Hid as E. lia.
    + replace (i + N.of_nat (S j)) with (i + 1 + N.of_nat j) in * by lia.
      eapply IH; try eassumption. lia.
Qed.

Lemma good_replies_nodup cs : forall i vss,
  i + N.of_nat (List.length cs) <= two64 ->
  Forall ordinary cs -> Forall2 reply_wf cs vss ->
  NoDup (good_replies i cs vss).
Proof.
  induction cs as [|c r IH]; intros i vss Hb Ho Hw.
  - destruct vss; constructor.
  - inversion Hw as [|? vs ? vss' Hv Hvs]; subst. inversion Ho as [|? ? (Ht & _) Hor]; subst.
    cbn [good_replies List.length] in *. constructor; [|apply IH; try assumption; lia].
    intros Hin.
    destruct (good_replies_ids r (i + 1) vss' _ ltac:(lia) Hor Hvs Hin) as (_ & k & G2 & G3).
    destruct (good_reply_header i c vs) as [d Hd]; try assumption; try lia.
    unfold frame_id in G2. rewrite Hd in G2. cbn [fst] in G2. injection G2 as E. lia.
Qed.

Lemma callers_of_calls cs : callers_of (map (fun c => ECall c true) cs) = map pc_caller cs.
Proof. induction cs as [|c r IH]; cbn; [reflexivity|]. now rewrite <- IH. Qed.

Lemma callers_of_replies fs : callers_of (map EReply fs) = [].
Proof. induction fs as [|f r IH]; cbn; [reflexivity|exact IH]. Qed.

Lemma count_calls_calls cs : count_calls (map (fun c => ECall c true) cs) = N.of_nat (List.length cs).
Proof.
  unfold count_calls. f_equal. induction cs as [|c r IH]; cbn; [reflexivity|]. now rewrite IH.
Qed.

Lemma count_calls_app a b : count_calls (a ++ b) = count_calls a + count_calls b.
Proof. unfold count_calls. rewrite filter_app, app_length. lia. Qed.

Lemma count_calls_replies fs : count_calls (map EReply fs) = 0.
Proof. unfold count_calls. induction fs as [|f r IH]; cbn; [reflexivity|exact IH]. Qed.

(** Any number of outstanding calls, replies in ANY order: every call gets
    exactly the fields the peer encoded for it. *)
Theorem any_reply_order cs vss frames :
  NoDup (map pc_caller cs) ->
  N.of_nat (List.length cs) <= idmod ->
  Forall ordinary cs -> Forall2 reply_wf cs vss ->
  Permutation frames (good_replies 0 cs vss) ->
  forall j c vs, nth_error cs j = Some c -> nth_error vss j = Some vs ->
  status (run (map (fun c => ECall c true) cs ++ map EReply frames)) (pc_caller c) = Some (ROk vs).
Proof.
  intros Hnd Hlen Ho Hw Hperm j c vs Hc Hv.
  assert (Hb : 0 + N.of_nat (List.length cs) <= two64) by lia.
  assert (Hns : Forall (fun c => pc_typ c <> msg_shutdown) cs).
  { eapply Forall_impl; [|exact Ho]. intros a (_ & H & _). exact H. }
  set (f := good_reply (N.of_nat j) c vs).
  assert (Hf : In f frames).
  { eapply Permutation_in; [apply Permutation_sym, Hperm|].
    apply (good_replies_nth cs 0 vss j c vs Hc Hv). }
  apply in_split in Hf. destruct Hf as (before & after & ->).
  destruct (nth_error_split cs j Hc) as (l1 & l2 & Ecs & Hl1).
  assert (Hjlt : N.of_nat j < N.of_nat (List.length cs)).
  { rewrite Ecs, app_length. cbn [List.length]. lia. }
  (* frames other than f are addressed to other ids *)
  assert (Hnodup : NoDup (before ++ f :: after)).
  { eapply Permutation_NoDup; [apply Permutation_sym, Hperm|].
    now apply good_replies_nodup. }
  assert (Hall : forall fb, In fb (before ++ f :: after) ->
            error_byte_zero fb /\ (frame_id fb = Some (N.of_nat j) -> fb = f)).
  { intros fb Hin. assert (Hg : In fb (good_replies 0 cs vss)) by (eapply Permutation_in; eassumption).
    destruct (good_replies_ids cs 0 vss fb Hb Ho Hw Hg) as (G1 & _). split; [assumption|].
    intros Hid. apply (good_replies_other cs 0 vss j c vs fb Hb Ho Hw Hc Hv Hg Hid). }
  pose proof (proj1 (Forall_forall ordinary cs) Ho c (nth_error_In _ _ Hc)) as (Ht & _ & Hnh).
  (* the shape answered_call_completes wants *)
  set (pre := map (fun c => ECall c true) l1).
  set (mid := map (fun c => ECall c true) l2 ++ map EReply before).
  set (post := map EReply after).
  assert (Etr : map (fun c => ECall c true) cs ++ map EReply (before ++ f :: after) =
                pre ++ ECall c true :: mid ++ EReply (f ++ []) :: post).
  { unfold pre, mid, post. rewrite Ecs, map_app, map_app. cbn [map].
    rewrite app_nil_r. rewrite <- ?app_assoc. cbn [app]. rewrite <- ?app_assoc. reflexivity. }
  assert (Hcalm_pre : calm (run pre)).
  { unfold Rpc.run, pre. apply calm_calls; [apply calm_init|].
    rewrite Ecs in Hns. now apply Forall_app in Hns. }
  assert (Hid : next_id (run pre) = N.of_nat j).
  { rewrite (next_id_counts alloc_max alloc_max_ok idmod idmod_pos) by apply Hcalm_pre.
    unfold pre. rewrite count_calls_calls, Hl1. apply N.mod_small. lia. }
  rewrite Etr. unfold f, good_reply. rewrite <- Hid.
  apply (answered_call_completes alloc_max alloc_max_ok idmod idmod_pos).
  - (* wf_trace *)
    rewrite Hid. fold (good_reply (N.of_nat j) c vs). fold f. rewrite <- Etr.
    unfold wf_trace. rewrite callers_of_app, callers_of_calls, callers_of_replies, app_nil_r.
    exact Hnd.
  - apply Hcalm_pre.
  - (* still running when the reply arrives *)
    replace (pre ++ ECall c true :: mid)
      with (map (fun c => ECall c true) cs ++ map EReply before).
    2:{ unfold pre, mid. rewrite Ecs, map_app. cbn [map]. rewrite <- ?app_assoc. cbn [app].
        rewrite <- ?app_assoc. reflexivity. }
    unfold Rpc.run. rewrite run_from_app.
    apply calm_replies.
    + apply calm_calls; [apply calm_init|exact Hns].
    + apply Forall_forall. intros fb Hin. apply Hall. apply in_or_app. now left.
  - (* nothing in between is addressed to this id *)
    rewrite Hid. unfold mid. apply Forall_app. split.
    + apply Forall_forall. intros e He. apply in_map_iff in He. destruct He as (c0 & <- & _).
      reflexivity.
    + apply Forall_forall. intros e He. apply in_map_iff in He. destruct He as (fb & <- & Hin).
      unfold targets, event_frame_id.
      destruct (frame_id fb) as [k|] eqn:Ek; [|reflexivity].
      apply N.eqb_neq. intros E. subst k.
      assert (fb = f) by (apply Hall; [apply in_or_app; now left|assumption]).
      subst fb. apply NoDup_remove_2 in Hnodup. apply Hnodup. apply in_or_app. now left.
  - unfold mid. rewrite count_calls_app, count_calls_calls, count_calls_replies.
    rewrite Ecs, app_length in Hlen. cbn [List.length] in Hlen. lia.
  - exact idmod_le.
  - exact Ht.
  - exact Hnh.
  - apply (Forall2_nth_error_wf reply_wf cs vss j c vs Hw Hc Hv).
Qed.

End ReplyOrder.
