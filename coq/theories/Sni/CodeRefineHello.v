(** The record-header arithmetic of [TLSHelloConn.HelloInfo]
    (tls_hello_conn.go) as it is written NOW: the statements from
    [hdr, err := c.br.Peek(headerLen)] to [recLen := int(hdr[3])<<8 | int(hdr[4])],
    translated by gen/gotrans.go on every run in checked mode (Gen/CodeSni.v,
    [gen_sniproxy_HelloInfo_recLen]): [None] = an index panic, [Some None] =
    returned before computing the length (Peek error, not a handshake record),
    [Some (Some n)] = the length.  It is the model's reading of the header
    ([rec_len_of], the very expression [sniff] of Sni/Hello.v uses) for every
    header of bytes.  Candidates: CodeCandsHello.v. *)
From Coq Require Import List NArith ZArith Bool Lia.
From Coq Require Import ZifyN ZifyNat ZifyBool.
From Verif Require Import Lib.Bytes Lib.Codec Lib.Path Lib.GoLib Sni.Hello Gen.CodeSni Sni.CodeCandsHello.
Import ListNotations.
Local Open Scope N_scope.

(** [int(a)<<8 | int(b)] on two bytes is [a*256 + b]: no wrap occurs, and
    the disjunction of disjoint bit ranges is checked by computation over all
    65536 pairs. *)
Definition lor_ok (a b : N) : bool :=
  (Z.lor (Z.of_N a * 256) (Z.of_N b) =? Z.of_N (a * 256 + b))%Z.

Lemma lor_bytes_all :
  forallb (fun a => forallb (lor_ok a) (map N.of_nat (seq 0 256))) (map N.of_nat (seq 0 256)) = true.
Proof. vm_compute. reflexivity. Qed.

Lemma lor_bytes a b : a < 256 -> b < 256 ->
  Z.lor (wrap_i64 (go_shl (wrap_i64 (Z.of_N a)) 8)) (wrap_i64 (Z.of_N b)) = Z.of_N (a * 256 + b).
Proof.
  intros Ha Hb.
  rewrite (wrap_i64_small (Z.of_N a)), (wrap_i64_small (Z.of_N b))
    by (unfold is_i64, two63z; lia).
  unfold go_shl. cbn [Z.ltb Z.compare]. rewrite Z.shiftl_mul_pow2 by lia.
  change (2 ^ 8)%Z with 256%Z.
  rewrite wrap_i64_small by (unfold is_i64, two63z; lia).
  pose proof (forall_below _ 256 lor_bytes_all a Ha) as H1. cbv beta in H1.
  pose proof (forall_below _ 256 H1 b Hb) as H2. unfold lor_ok in H2.
  now apply Z.eqb_eq in H2.
Qed.

Lemma go_index_nth (s : list N) (i : nat) :
  (i < length s)%nat -> go_index s (Z.of_nat i) = Z.of_N (nth i s 0).
Proof.
  intros H. unfold go_index, go_len.
  destruct (Z.leb_spec 0 (Z.of_nat i)); [|lia].
  destruct (Z.ltb_spec (Z.of_nat i) (Z.of_nat (length s))); [|lia].
  cbn [andb]. now rewrite Nat2Z.id.
Qed.

Lemma go_index_ok_nat {A} (s : list A) (i : nat) : go_index_ok s (Z.of_nat i) = (i <? length s)%nat.
Proof. unfold go_index_ok, go_len. destruct (Nat.ltb_spec i (length s)); lia. Qed.

Lemma gen_HelloInfo_recLen_is_model : forall hdr,
  is_bytes hdr -> (5 <= length hdr)%nat ->
  rec_len_res (gen_sniproxy_HelloInfo_recLen (hdr, None)) = rec_len_of hdr.
Proof.
  intros hdr Hb Hlen. unfold gen_sniproxy_HelloInfo_recLen, rec_len_of, rec_handshake.
  cbn [go_isnil]. cbv zeta.
  change 0%Z with (Z.of_nat 0); change 3%Z with (Z.of_nat 3); change 4%Z with (Z.of_nat 4).
  rewrite !go_index_ok_nat.
  destruct hdr as [|t [|v1 [|v2 [|l1 [|l2 rest]]]]]; cbn [length] in Hlen; try lia.
  cbn [length Nat.ltb Nat.leb].
  rewrite ?go_index_nth by (cbn [length]; lia); cbn [nth].
  assert (H3 : l1 < 256 /\ l2 < 256 /\ t < 256).
  { unfold is_bytes in Hb. repeat match goal with H : Forall _ (_ :: _) |- _ => inversion H; subst; clear H end.
    unfold is_byte in *. lia. }
  change (Z.of_nat 8) with 8%Z in *.
  first [rewrite lor_bytes by lia | rewrite Z.lor_comm, lor_bytes by lia].
  go_cases; cbn [rec_len_res]; rewrite ?N2Z.id; go_leaf.
Qed.

(** A failed Peek returns before any header byte is read. *)
Lemma code_HelloInfo_peek_error : forall hdr e,
  gen_sniproxy_HelloInfo_recLen (hdr, Some e) = Some None.
Proof. intros. unfold gen_sniproxy_HelloInfo_recLen. reflexivity. Qed.

(** With the five bytes a successful Peek(5) returns there is no index
    panic, and the second Peek asks for at most 5 + 65535 bytes. *)
Lemma code_HelloInfo_no_panic : forall t v1 v2 l1 l2,
  is_bytes [t; v1; v2; l1; l2] ->
  exists r, gen_sniproxy_HelloInfo_recLen ([t; v1; v2; l1; l2], None) = Some r /\
            match r with Some n => (0 <= n <= 65535)%Z | None => t <> 22 end.
Proof.
  intros t v1 v2 l1 l2 Hb.
  assert (H3 : l1 < 256 /\ l2 < 256).
  { unfold is_bytes in Hb. repeat match goal with H : Forall _ (_ :: _) |- _ => inversion H; subst; clear H end.
    unfold is_byte in *. lia. }
  unfold gen_sniproxy_HelloInfo_recLen. cbn [go_isnil]. cbv zeta.
  change 0%Z with (Z.of_nat 0); change 3%Z with (Z.of_nat 3); change 4%Z with (Z.of_nat 4).
  rewrite !go_index_ok_nat, !go_index_nth by (cbn [length]; lia). cbn [nth length Nat.ltb Nat.leb].
  change (Z.of_nat 8) with 8%Z. first [rewrite lor_bytes by lia | rewrite Z.lor_comm, lor_bytes by lia].
  go_cases; go_arith; try (exfalso; lia); eexists; (split; [reflexivity|]); cbn beta iota; lia.
Qed.
