(** sniproxy's pure decision functions as they are written NOW
    (Gen/CodeSni.v, translated by gen/gotrans.go on every run) compute the
    hand-written models on every input.  [net.ParseIP(name) != nil] is a
    Section variable of the generated file: any predicate.  Candidates for
    the counterexample search: CodeCands.v. *)
From Coq Require Import List NArith ZArith Bool String.
From Verif Require Import Lib.Bytes Lib.Path Lib.GoLib Sni.Wire Sni.Route Sni.RouteProofs Gen.CodeSni Sni.CodeCands.
Import ListNotations.
Local Open Scope N_scope.

(** The model's [has_suffix] is [strings.HasSuffix] of Lib/GoLib.v. *)
Lemma prefixb_has_prefix p s : prefixb p s = has_prefix s p.
Proof.
  revert s; induction p as [|x p IH]; intros [|y s]; cbn [prefixb has_prefix]; try reflexivity.
  now rewrite IH.
Qed.

Lemma has_suffix_go s suf : has_suffix s suf = strings_HasSuffix s suf.
Proof. unfold has_suffix, strings_HasSuffix. apply prefixb_has_prefix. Qed.

Lemma existsb_suffix_bytes name sufs :
  existsb (fun suf => has_suffix name (bytes_of_string suf)) sufs
  = existsb (strings_HasSuffix name) (map bytes_of_string sufs).
Proof.
  induction sufs as [|s r IH]; [reflexivity|]. cbn [existsb map]. now rewrite IH, has_suffix_go.
Qed.

Definition deployed_suffix_bytes : list bytes :=
  Eval vm_compute in map bytes_of_string deployed_suffixes.

Lemma deployed_suffix_bytes_eq : map bytes_of_string deployed_suffixes = deployed_suffix_bytes.
Proof. vm_compute. reflexivity. Qed.

(** [isRejectedDomain] (proxy.go) is the specification [is_rejected] over the
    deployed suffix list, for every name and every [net.ParseIP]. *)
Lemma gen_isRejectedDomain_is_model : forall (is_ip : bytes -> bool) (name : bytes),
  gen_sniproxy_isRejectedDomain is_ip name = is_rejected is_ip deployed_suffixes name.
Proof.
  intros is_ip name. unfold is_rejected.
  rewrite existsb_suffix_bytes, deployed_suffix_bytes_eq.
  cbv beta iota zeta delta [gen_sniproxy_isRejectedDomain deployed_suffix_bytes existsb orb go_str_eqb].
  destruct name as [|c r]; [reflexivity|]. cbn [str_eqb].
  go_cases; reflexivity.
Qed.

(** Read over the code: the names that must not get anywhere are refused. *)
Lemma code_rejected_names : forall (is_ip : bytes -> bool) name,
  (name = [] \/ is_ip name = true \/
   exists suf p, In suf deployed_suffixes /\ name = p ++ bytes_of_string suf) ->
  gen_sniproxy_isRejectedDomain is_ip name = true.
Proof.
  intros is_ip name H. rewrite gen_isRejectedDomain_is_model.
  exact (proj1 (rejected_names is_ip deployed_suffixes {| has_lookup := false; lookup := fun _ => mkLk None false;
           has_dial_home := false; registry := fun _ => None |} name H)).
Qed.

Lemma cex_sni_none : cex_isRejectedDomain = [].
Proof. vm_compute. reflexivity. Qed.
