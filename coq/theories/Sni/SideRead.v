(** sideConn.Read (application -> client and client -> application in the
    side-connection modes) as a state machine over websocket messages that
    arrive as FRAGMENTS: messages of zero length, fragments of zero length,
    several fragments per message, and a connection that is lost in the
    middle of a message (the fragments that arrived are delivered, then the
    message reader fails with an error that is not io.EOF).

    Sni/Stream.v models a message as one block of bytes; this file refines the
    reader side.  Definitions only; proofs are in SideReadProofs.v. *)
From Coq Require Import List NArith Bool.
From Verif Require Import Lib.Bytes Sni.Wire.
Import ListNotations.
Local Open Scope N_scope.

Inductive fmsg :=
| GBin (frags : list bytes) (complete : bool)   (* binary message; not complete: the connection
                                                   is lost after the last fragment listed *)
| GText                                         (* the peer's CloseWrite *)
| GClose (code : N)                             (* close frame: NextReader fails, sticky *)
| GErr.                                         (* the connection is lost between messages, sticky *)

Inductive rres :=
| RNil | REofS | RErrS
| RBlockS.               (* nothing has arrived yet: the call would block *)

(** [r_cur]: c.curReader - the fragments it still holds and whether the
    message is complete; [r_in]: messages that arrived and are not opened. *)
Record rstate := mkR { r_cur : option (list bytes * bool); r_in : list fmsg }.

Definition is_nil {A} (l : list A) : bool := match l with [] => true | _ => false end.

(** One call curReader.Read(buf), len(buf) = m > 0, on a message reader that
    still holds the fragments [frs].  gorilla's messageReader returns bytes of
    one frame per call and advances over exhausted (and empty) frames; the
    schedule entry [(k, tog)] fixes what io.Reader leaves open: how many bytes
    (at least one), and whether the end of the message is reported together
    with its last bytes.  Result: the bytes, whether the END of the message
    was reported by this call, the fragments left. *)
Fixpoint frag_read (m k : N) (tog : bool) (frs : list bytes) : bytes * bool * list bytes :=
  match frs with
  | [] => ([], true, [])
  | f :: rest =>
      match f with
      | [] => frag_read m k tog rest
      | _ =>
          let n := N.to_nat (N.min (N.max 1 k) (N.min m (lenN f))) in
          match skipn n f with
          | [] => if tog && is_nil (concat rest) then (firstn n f, true, [])
                  else (firstn n f, false, rest)
          | f' => (firstn n f, false, f' :: rest)
          end
      end
  end.

(** The for-loop of sideConn.Read with c.curReader holding [frs] of a message
    that is [c]omplete or cut, and [q] the unopened messages:

      n, err := c.curReader.Read(buf)
      if err != io.EOF { return n, err }      // nil, or the error of a cut message
      c.curReader = nil
      if n > 0 { return n, nil }
      if err := c.nextReader(); err != nil { return 0, err }

    Structural in [q]: every turn of the loop opens one message. *)
Fixpoint sr_loop (q : list fmsg) (m : N) (ks : list (N * bool)) (frs : list bytes) (c : bool)
  : bytes * rres * rstate * list (N * bool) :=
  let '(k, tog) := match ks with [] => (m, false) | x :: _ => x end in
  let '(got, fin, rest) := frag_read m k tog frs in
  if negb fin then (got, RNil, mkR (Some (rest, c)) q, tl ks)
  else if negb c then (got, RErrS, mkR (Some ([], false)) q, tl ks)
  else
    match got with
    | _ :: _ => (got, RNil, mkR None q, tl ks)
    | [] =>
        match q with
        | [] => ([], RBlockS, mkR None [], tl ks)
        | GBin frs' c' :: q' => sr_loop q' m (tl ks) frs' c'
        | GText :: q' => ([], REofS, mkR None q', tl ks)
        | GClose _ :: _ | GErr :: _ => ([], RErrS, mkR None q, tl ks)
        end
    end.

(** sideConn.Read(buf), len(buf) = m > 0 *)
Definition side_read_f (m : N) (ks : list (N * bool)) (s : rstate)
  : bytes * rres * rstate * list (N * bool) :=
  match r_cur s with
  | Some (frs, c) => sr_loop (r_in s) m ks frs c
  | None =>
      match r_in s with
      | [] => ([], RBlockS, s, ks)
      | GBin frs c :: q => sr_loop q m ks frs c
      | GText :: q => ([], REofS, mkR None q, ks)
      | GClose _ :: _ | GErr :: _ => ([], RErrS, s, ks)
      end
  end.

(** A sequence of Reads; stops at the first result that is not nil (the
    bytes returned together with an error are kept). *)
Fixpoint side_reads_f (ms : list N) (ks : list (N * bool)) (s : rstate)
  : list bytes * rres * rstate :=
  match ms with
  | [] => ([], RNil, s)
  | m :: ms' =>
      let '(got, e, s', ks') := side_read_f m ks s in
      match e with
      | RNil => let '(l, e', s'') := side_reads_f ms' ks' s' in (got :: l, e', s'')
      | _ => ([got], e, s')
      end
  end.

(** The bytes that have ARRIVED and belong to the stream: the fragments of
    the binary messages up to the first end marker, close, loss or cut. *)
Fixpoint owed_q (q : list fmsg) : bytes :=
  match q with
  | GBin frs true :: r => concat frs ++ owed_q r
  | GBin frs false :: _ => concat frs
  | _ => []
  end.

Definition owed_cur (frs : list bytes) (c : bool) (q : list fmsg) : bytes :=
  concat frs ++ (if c then owed_q q else []).

Definition owed_f (s : rstate) : bytes :=
  match r_cur s with
  | Some (frs, c) => owed_cur frs c (r_in s)
  | None => owed_q (r_in s)
  end.

(** What one Read with a buffer of m > 0 bytes may do, given the bytes [o]
    that have arrived and are owed:
    - nil: at least one byte, at most m, the next bytes owed;
    - io.EOF (the end marker): only when nothing that arrived before it is owed;
    - an error (cut message, close frame, lost connection): everything that
      had arrived before it has been delivered - with it or before it - and
      nothing is owed afterwards;
    - would block: everything that arrived has been delivered. *)
Definition read_post_f (m : N) (o got : bytes) (e : rres) (s' : rstate) : Prop :=
  lenN got <= m /\
  match e with
  | RNil => got <> [] /\ got ++ owed_f s' = o
  | REofS => got = [] /\ o = []
  | RErrS => got = o /\ owed_f s' = []
  | RBlockS => got = [] /\ o = []
  end.
