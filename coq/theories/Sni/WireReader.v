(** Round 3: the decoder model of Sni/Wire.v re-expressed over a [reader]
    (Sni/WireChunks.v: the remaining input delivered in arbitrary pieces,
    short reads, zero-length reads, the last bytes with or before io.EOF),
    and the proof that it computes exactly what the flat model computes on
    the concatenation: decoded values, error, byte count, tail count and the
    allocation bound do not depend on how the reader chunks the same bytes
    nor on whether the last chunk comes together with io.EOF. *)
From Coq Require Import List NArith ZArith Bool Arith String Lia.
From Verif Require Import Lib.Bytes Sni.Wire Sni.WireChunks Sni.WireChunksProofs.
Import ListNotations.
Local Open Scope N_scope.

Record rstate := mkRS {
  rs_r : reader N;          (* the io.Reader the decoder was given *)
  rs_cnt : N; rs_err : option derr; rs_alloc : N }.

(** the flat decoder state this stands for *)
Definition abs (s : rstate) : dstate :=
  mkD (flat N (rs_r s)) (rs_cnt s) (rs_err s) (rs_alloc s).

Definition rinit (r : reader N) : rstate := mkRS r 0 None 0.

Definition rset_err (e : derr) (s : rstate) : rstate :=
  mkRS (rs_r s) (rs_cnt s) (Some e) (rs_alloc s).

Definition rd_make (n : N) (s : rstate) : rstate :=
  if go_max_alloc <? n then rset_err EPanic s
  else mkRS (rs_r s) (rs_cnt s) (rs_err s) (rs_alloc s + n).

(** decoder.read(buf), len(buf) = n: io.ReadFull over the reader; short iff
    fewer than n bytes arrived. *)
Definition rd_read (n : N) (s : rstate) : bytes * rstate :=
  match rs_err s with
  | Some _ => ([], s)
  | None =>
      (* ask for n bytes; a length prefix may announce up to 2^64-1 of them, and the
         loop ends at EOF anyway: "one more than there is" stands for every larger n
         (keeps the unary count small under vm_compute) *)
      let want := N.min n (lenN (flat N (rs_r s)) + 1) in
      let '(b, r') := read_full N (S (measure N (rs_r s))) (N.to_nat want) (rs_r s) in
      if lenN b <? n then (b, mkRS r' (rs_cnt s + lenN b) (Some EEof) (rs_alloc s))
      else (b, mkRS r' (rs_cnt s + n) None (rs_alloc s))
  end.

Definition rd_u8 (s : rstate) : N * rstate :=
  let '(got, s') := rd_read 1 s in (de_bytes got, s').

Definition rd_u64 (s : rstate) : N * rstate :=
  match rs_err s with
  | Some _ => (0, s)
  | None => let '(got, s') := rd_read 8 s in (de_bytes got, s')
  end.

Section WithAllocMax.
Variable alloc_max : N.

Definition rd_bytes (cap : N) (s : rstate) : bytes * rstate :=
  let '(n, s1) := rd_u64 s in
  if n =? 0 then ([], s1)
  else match rs_err s1 with
  | Some _ => ([], s1)
  | None =>
      if two63 <=? n then ([], rset_err ETooLong s1)
      else if n <=? cap then rd_read n s1
      else if n <=? alloc_max then
        let s2 := rd_make n s1 in
        match rs_err s2 with
        | Some _ => ([], s2)
        | None => rd_read n s2
        end
      else
        let '(got, s2) := rd_read n s1 in
        (got, mkRS (rs_r s2) (rs_cnt s2) (rs_err s2) (rs_alloc s2 + 4 * lenN got + 1024))
  end.

Definition rd_rerr (s : rstate) : value * rstate :=
  let '(c, s1) := rd_u64 s in
  let code := int_of_u64 c in
  if (code =? 0)%Z then (VErr None, s1)
  else let '(m, s2) := rd_bytes 0 s1 in (VErr (Some (code, m)), s2).

Definition rdec_value (cap : N) (k : kind) (s : rstate) : value * rstate :=
  match k with
  | KU64 => let '(n, s') := rd_u64 s in (VU64 n, s')
  | KInt => let '(n, s') := rd_u64 s in (VInt (int_of_u64 n), s')
  | KStr => let '(b, s') := rd_bytes 0 s in (VBytes b, s')
  | KBytes => let '(b, s') := rd_bytes cap s in (VBytes b, s')
  | KErr => rd_rerr s
  end.

Fixpoint rdec_schema (cap : N) (sch : schema) (s : rstate) : list value * rstate :=
  match sch with
  | [] => ([], s)
  | k :: sch' =>
      let '(v, s1) := rdec_value cap k s in
      let '(vs, s2) := rdec_schema cap sch' s1 in
      (v :: vs, s2)
  end.

(** decoder.end(): the counting loop over the reader *)
Definition rd_end (s : rstate) : rstate :=
  match rs_err s with
  | Some _ => s
  | None =>
      let t := N.of_nat (end_count N (S (measure N (rs_r s))) 1 1024 (rs_r s)) in
      mkRS (mkR N [] (eof_with_data N (rs_r s))) (rs_cnt s)
           (if t =? 0 then None else Some (ETail t)) (rs_alloc s)
  end.

(** endpointServer.startCall over a reader *)
Definition rstart_call (tbl : request_table) (r : reader N) : call_result * rstate :=
  let s0 := rinit r in
  let '(id, s1) := rd_u64 s0 in
  let '(t, s2) := rd_u8 s1 in
  match rs_err s2 with
  | Some e => (CErr e, s2)
  | None =>
      match tbl t with
      | None => (CUnknown id t, rd_end s2)
      | Some None =>
          let s3 := rd_end s2 in
          match rs_err s3 with
          | Some e => (CErr e, s3)
          | None => (CReq id t EmptyString [], s3)
          end
      | Some (Some (name, sch)) =>
          let '(vs, s3) := rdec_schema 0 sch s2 in
          let s4 := rd_end s3 in
          match rs_err s4 with
          | Some e => (CErr e, s4)
          | None => (CReq id t name vs, s4)
          end
      end
  end.

(** transport.handleMessage's header parse and body decode over a reader *)
Definition rparse_reply_header (r : reader N) : reply_header * rstate :=
  let s0 := rinit r in
  let '(id, s1) := rd_u64 s0 in
  let '(t, s2) := rd_u8 s1 in
  let '(ec, s3) := rd_u8 s2 in
  match rs_err s3 with
  | Some _ => (HShort (rs_cnt s3), s3)
  | None => if ec =? 0 then (HReply id t, s3) else (HRemoteError ec, s3)
  end.

Definition rclient_decode (cap : N) (sch : schema) (r : reader N)
  : reply_header * option (list value * rstate) :=
  let '(h, s) := rparse_reply_header r in
  match h with
  | HReply _ _ => (h, Some (rdec_schema cap sch s))
  | _ => (h, None)
  end.

(** * Simulation: the reader-based decoder is the flat decoder on [abs] *)

Lemma sim_read n s :
  d_read n (abs s) = (fst (rd_read n s), abs (snd (rd_read n s))).
Proof.
  unfold rd_read, abs. destruct s as [r c e a]. cbn [rs_r rs_cnt rs_err rs_alloc].
  destruct e as [e|]; [reflexivity|].
  set (want := N.min n (lenN (flat N r) + 1)).
  destruct (read_full N (S (measure N r)) (N.to_nat want) r) as [b r'] eqn:E.
  destruct (read_full_flat N _ _ _ _ _ (Nat.lt_succ_diag_r _) E) as [Hb Hr].
  unfold d_read. cbn [err inp cnt alloc].
  assert (Hlen : N.to_nat (lenN (flat N r)) = List.length (flat N r)) by apply lenN_nat.
  destruct (N.leb_spec n (lenN (flat N r))) as [L|L].
  - assert (want = n) as W by (unfold want; lia). rewrite W in Hb, Hr.
    assert (Hl : lenN b = n).
    { rewrite Hb. unfold lenN. rewrite firstn_length. lia. }
    assert (lenN b <? n = false) as -> by (apply N.ltb_ge; lia).
    cbn [fst snd rs_r rs_cnt rs_err rs_alloc]. rewrite Hb, Hr. reflexivity.
  - assert (W : want = lenN (flat N r) + 1) by (unfold want; lia). rewrite W in Hb, Hr.
    assert (Hk : (List.length (flat N r) <= N.to_nat (lenN (flat N r) + 1))%nat) by lia.
    rewrite firstn_all2 in Hb by exact Hk. rewrite skipn_all2 in Hr by exact Hk.
    assert (lenN b <? n = true) as -> by (apply N.ltb_lt; rewrite Hb; lia).
    cbn [fst snd rs_r rs_cnt rs_err rs_alloc]. rewrite Hb, Hr. reflexivity.
Qed.

Ltac sim_step L :=
  let H := fresh in pose proof L as H;
  match type of H with
  | ?f (abs ?s) = (fst ?x, abs (snd ?x)) =>
      let a := fresh "a" in let s' := fresh "s" in
      destruct x as [a s'] eqn:?; cbn [fst snd] in H; rewrite H; clear H
  end.

Lemma sim_u8 s : d_u8 (abs s) = (fst (rd_u8 s), abs (snd (rd_u8 s))).
Proof. unfold d_u8, rd_u8. sim_step (sim_read 1 s). reflexivity. Qed.

Lemma abs_err s : err (abs s) = rs_err s.
Proof. reflexivity. Qed.

Lemma sim_u64 s : d_u64 (abs s) = (fst (rd_u64 s), abs (snd (rd_u64 s))).
Proof.
  unfold d_u64, rd_u64. rewrite abs_err. destruct (rs_err s); [reflexivity|].
  sim_step (sim_read 8 s). reflexivity.
Qed.

Lemma abs_set_err e s : set_err e (abs s) = abs (rset_err e s).
Proof. reflexivity. Qed.

Lemma abs_make n s : d_make n (abs s) = abs (rd_make n s).
Proof. unfold d_make, rd_make. destruct (go_max_alloc <? n); reflexivity. Qed.

Lemma sim_bytes cap s :
  d_bytes alloc_max cap (abs s) = (fst (rd_bytes cap s), abs (snd (rd_bytes cap s))).
Proof.
  unfold d_bytes, rd_bytes. sim_step (sim_u64 s).
  destruct (a =? 0); [reflexivity|]. rewrite abs_err.
  destruct (rs_err s0) eqn:Es; [reflexivity|].
  destruct (two63 <=? a); [reflexivity|].
  destruct (a <=? cap); [apply sim_read|].
  destruct (a <=? alloc_max).
  - rewrite abs_make, abs_err. destruct (rs_err (rd_make a s0)); [reflexivity | apply sim_read].
  - sim_step (sim_read a s0). reflexivity.
Qed.

Lemma sim_rerr s :
  d_rerr alloc_max (abs s) = (fst (rd_rerr s), abs (snd (rd_rerr s))).
Proof.
  unfold d_rerr, rd_rerr. sim_step (sim_u64 s).
  destruct (int_of_u64 a =? 0)%Z; [reflexivity|].
  sim_step (sim_bytes 0 s0). reflexivity.
Qed.

Lemma sim_value cap k s :
  dec_value alloc_max cap k (abs s) = (fst (rdec_value cap k s), abs (snd (rdec_value cap k s))).
Proof.
  destruct k; cbn [dec_value rdec_value].
  - sim_step (sim_u64 s). reflexivity.
  - sim_step (sim_u64 s). reflexivity.
  - sim_step (sim_bytes 0 s). reflexivity.
  - sim_step (sim_bytes cap s). reflexivity.
  - apply sim_rerr.
Qed.

Lemma sim_schema cap sch : forall s,
  dec_schema alloc_max cap sch (abs s) = (fst (rdec_schema cap sch s), abs (snd (rdec_schema cap sch s))).
Proof.
  induction sch as [|k sch IH]; intros s; cbn [dec_schema rdec_schema]; [reflexivity|].
  sim_step (sim_value cap k s). sim_step (IH s0). reflexivity.
Qed.

Lemma sim_end s : d_end (abs s) = abs (rd_end s).
Proof.
  unfold rd_end. destruct s as [r c e a]. cbn [rs_r rs_cnt rs_err rs_alloc].
  destruct e as [e|]; [reflexivity|].
  unfold abs at 1. cbn [rs_r rs_cnt rs_err rs_alloc].
  rewrite (d_end_any_reader r (S (measure N r)) c a (Nat.lt_succ_diag_r _)). reflexivity.
Qed.

(** The server entry over ANY reader answers what the flat model answers on
    the bytes the reader holds - same result, same final state. *)
Theorem start_call_any_reader tbl r :
  start_call alloc_max tbl (flat N r) =
  (fst (rstart_call tbl r), abs (snd (rstart_call tbl r))).
Proof.
  unfold start_call, rstart_call.
  change (init (flat N r)) with (abs (rinit r)).
  sim_step (sim_u64 (rinit r)). sim_step (sim_u8 s). rewrite abs_err.
  destruct (rs_err s0); [reflexivity|].
  destruct (tbl a0) as [[[name sch]|]|].
  - sim_step (sim_schema 0 sch s0). rewrite sim_end, abs_err.
    destruct (rs_err (rd_end s1)); reflexivity.
  - rewrite sim_end, abs_err. destruct (rs_err (rd_end s0)); reflexivity.
  - rewrite sim_end. reflexivity.
Qed.

Theorem client_decode_any_reader cap sch r :
  client_decode alloc_max cap sch (flat N r) =
  match rclient_decode cap sch r with
  | (h, Some (vs, s)) => (h, Some (vs, abs s))
  | (h, None) => (h, None)
  end.
Proof.
  unfold client_decode, rclient_decode, parse_reply_header, rparse_reply_header.
  change (init (flat N r)) with (abs (rinit r)).
  sim_step (sim_u64 (rinit r)). sim_step (sim_u8 s). sim_step (sim_u8 s0). rewrite abs_err.
  destruct (rs_err s1); [reflexivity|].
  destruct (a1 =? 0); [|reflexivity].
  sim_step (sim_schema cap sch s1). reflexivity.
Qed.

(** Two readers that hold the same bytes: same call, same values, same
    error, same byte count, same tail, same allocation bound - however each
    of them chunks the bytes and whether or not its last chunk comes together
    with io.EOF. *)
Corollary start_call_delivery_independent tbl r1 r2 :
  flat N r1 = flat N r2 ->
  fst (rstart_call tbl r1) = fst (rstart_call tbl r2) /\
  abs (snd (rstart_call tbl r1)) = abs (snd (rstart_call tbl r2)).
Proof.
  intros H. pose proof (start_call_any_reader tbl r1) as H1.
  pose proof (start_call_any_reader tbl r2) as H2. rewrite H in H1. rewrite H1 in H2.
  split; [exact (f_equal fst H2) | exact (f_equal snd H2)].
Qed.

Corollary schema_delivery_independent cap sch s1 s2 :
  abs s1 = abs s2 ->
  fst (rdec_schema cap sch s1) = fst (rdec_schema cap sch s2) /\
  abs (snd (rdec_schema cap sch s1)) = abs (snd (rdec_schema cap sch s2)) /\
  abs (rd_end (snd (rdec_schema cap sch s1))) = abs (rd_end (snd (rdec_schema cap sch s2))).
Proof.
  intros H. pose proof (sim_schema cap sch s1) as H1. pose proof (sim_schema cap sch s2) as H2.
  rewrite H in H1. rewrite H1 in H2.
  pose proof (f_equal fst H2) as A. pose proof (f_equal snd H2) as B. cbn [fst snd] in A, B.
  split; [exact A|]. split; [exact B|]. rewrite <- !sim_end, B. reflexivity.
Qed.
End WithAllocMax.
