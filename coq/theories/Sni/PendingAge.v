(** A pending call grows old (sniproxy/transport.go, the serve loop).

    In the multiplexed tunnel the application->client direction of a session
    is a read call that stays pending while the application is silent; any
    number of newer calls - of this and of other sessions - pass over the same
    control connection meanwhile.  The model: the serve loop's pending table
    over a history of sends (ids from the loop's counter) and replies, with
    the rule by which the send arm evicts entries.  Definitions only; proofs
    are in PendingAgeProofs.v. *)
From Coq Require Import List NArith Bool String.
Import ListNotations.

(** which entry the send arm of the serve loop fails with errTooLong and drops *)
Inductive evict :=
| EvictSameId                  (* pending[c.id]: an entry under the id just handed out *)
| EvictWindow (w : nat)        (* pending[c.id - w]: the entry w ids older *)
| EvictOther (s : string).

Inductive pev :=
| PSend                        (* a call is taken off the queue: it gets the next id *)
| PReply (id : nat).           (* the reply (or shutdown reply) with this id is fetched *)

(** pending ids, the counter, and the ids that were failed with errTooLong *)
Record pstate := mkP { p_pending : list nat; p_next : nat; p_evicted : list nat }.

Definition p_init : pstate := mkP [] 0 [].

Definition remove_id (id : nat) (l : list nat) : list nat := filter (fun x => negb (Nat.eqb x id)) l.
Definition mem_id (id : nat) (l : list nat) : bool := existsb (Nat.eqb id) l.

Definition pstep (pol : evict) (s : pstate) (e : pev) : pstate :=
  match e with
  | PSend =>
      let id := p_next s in
      let victim := match pol with
                    | EvictSameId => Some id
                    | EvictWindow w => if Nat.leb w id then Some (id - w) else None
                    | EvictOther _ => None
                    end in
      let '(pend, ev) :=
        match victim with
        | Some v => if mem_id v (p_pending s) then (remove_id v (p_pending s), v :: p_evicted s)
                    else (p_pending s, p_evicted s)
        | None => (p_pending s, p_evicted s)
        end in
      mkP (id :: pend) (S id) ev
  | PReply id => mkP (remove_id id (p_pending s)) (p_next s) (p_evicted s)
  end.

Definition prun (pol : evict) (evs : list pev) : pstate := fold_left (pstep pol) evs p_init.

(** the translator's reading of the send arm *)
Definition evict_of (keys : list string) : evict :=
  match keys with
  | ["c.id"%string] => EvictSameId
  | _ => EvictOther (String.concat " | " keys)
  end.
