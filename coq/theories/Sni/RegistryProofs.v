(** Proofs about the endpoint registry model (Sni/Registry.v): invariants
    over every interleaving of any number of connections. *)
From Coq Require Import List NArith ZArith Bool Lia.
From Verif Require Import Sni.Registry.
Import ListNotations.
Local Open Scope N_scope.

(** * Maps *)

Lemma get_del_same {A} k (l : list (N * A)) : get k (del k l) = None.
Proof.
  induction l as [|[k' a] r IH]; cbn [del get]; [reflexivity|].
  destruct (k =? k') eqn:E; [exact IH|]. cbn [get]. now rewrite E.
Qed.

Lemma get_del_other {A} k k' (l : list (N * A)) : k <> k' -> get k' (del k l) = get k' l.
Proof.
  intros H. induction l as [|[j a] r IH]; cbn [del get]; [reflexivity|].
  destruct (k =? j) eqn:E.
  - apply N.eqb_eq in E. subst j.
    destruct (k' =? k) eqn:E2; [apply N.eqb_eq in E2; congruence|exact IH].
  - cbn [get]. destruct (k' =? j); [reflexivity|exact IH].
Qed.

Lemma get_set_same {A} k (a : A) l : get k (set k a l) = Some a.
Proof. unfold set. cbn [get]. now rewrite N.eqb_refl. Qed.

Lemma get_set_other {A} k k' (a : A) l : k <> k' -> get k' (set k a l) = get k' l.
Proof.
  intros H. unfold set. cbn [get].
  destruct (k' =? k) eqn:E; [apply N.eqb_eq in E; congruence|].
  now apply get_del_other.
Qed.

Lemma get_set {A} k k' (a : A) l :
  get k' (set k a l) = if k' =? k then Some a else get k' l.
Proof.
  destruct (k' =? k) eqn:E.
  - apply N.eqb_eq in E. subst. apply get_set_same.
  - apply N.eqb_neq in E. apply get_set_other. congruence.
Qed.

Lemma pc_eqb_eq a b : pc_eqb a b = true -> a = b.
Proof. destruct a, b; cbn; congruence. Qed.

Lemma proj_snoc t l e :
  proj t (l ++ [e]) = proj t l ++ (if entry_thread e =? t then [e] else []).
Proof. unfold proj. rewrite filter_app. cbn [filter]. reflexivity. Qed.

(** * The invariant *)

Definition expected_log (t : N) (th : thread) : list entry :=
  if th_crashed th then [] else
  match th_pc th with
  | P1 => []
  | P2 | P3 => [Connect (th_name th) (th_sess th) t]
  | P4 | P5 | P6 =>
      [Connect (th_name th) (th_sess th) t; Disconnect (th_name th) (th_sess th) t]
  end.

Record inv (s : state) : Prop := {
  (* a registered connection is live and is the newest under its name *)
  i_reg : forall n t, get n (reg s) = Some t ->
          exists th, get t (threads s) = Some th /\ th_name th = n /\
                     live (th_pc th) = true /\ get n (ups s) = Some t;
  (* the newest connection under a name is registered as long as it is live *)
  i_new : forall t th, get t (threads s) = Some th -> live (th_pc th) = true ->
          get (th_name th) (ups s) = Some t -> get (th_name th) (reg s) = Some t;
  (* notifications of each connection *)
  i_log : forall t, proj t (log s) =
          match get t (threads s) with
          | None => []
          | Some th => expected_log t th
          end
}.

Lemma inv_init : inv init.
Proof. split; cbn; intros; try discriminate; reflexivity. Qed.

(** A step that only moves thread [t] from [th] to [th'] with the same name
    and liveness, leaving registry and upgrade history alone. *)
Lemma inv_move s t th th' l' :
  inv s -> get t (threads s) = Some th ->
  th_name th' = th_name th -> live (th_pc th') = live (th_pc th) ->
  proj t l' = expected_log t th' ->
  (forall t', t' <> t -> proj t' l' = proj t' (log s)) ->
  inv (mkState (set t th' (threads s)) (reg s) (ups s) l').
Proof.
  intros [Hr Hn Hl] Ht Hname Hlive Hpt Hpo. split; cbn [threads reg ups log].
  - intros n t0 Hg. destruct (Hr n t0 Hg) as (th0 & G1 & G2 & G3 & G4).
    destruct (N.eq_dec t0 t) as [->|Hne].
    + rewrite Ht in G1. injection G1 as <-. exists th'. rewrite get_set_same.
      repeat split; try congruence.
    + exists th0. rewrite get_set_other by congruence. repeat split; assumption.
  - intros t0 th0 Hg Hlv Hu. destruct (N.eq_dec t0 t) as [->|Hne].
    + rewrite get_set_same in Hg. injection Hg as <-.
      rewrite Hname in *. rewrite Hlive in Hlv. now apply (Hn t th).
    + rewrite get_set_other in Hg by congruence. now apply (Hn t0 th0).
  - intros t0. destruct (N.eq_dec t0 t) as [->|Hne].
    + now rewrite get_set_same.
    + rewrite get_set_other by congruence. rewrite Hpo by assumption. apply Hl.
Qed.

Lemma inv_step s a s' : inv s -> step s a = Some s' -> inv s'.
Proof.
  intros Hi Hs. pose proof Hi as [Hr Hn Hl].
  destruct a as [t n|t sv|t|t|t|t|n|t n|t]; cbn [step] in Hs.
  - (* AUpgrade *)
    destruct (get t (threads s)) eqn:Ht; [discriminate|]. injection Hs as <-.
    split; cbn [threads reg ups log].
    + intros n0 t0 Hg. rewrite get_set in Hg. destruct (n0 =? n) eqn:E.
      * apply N.eqb_eq in E. subst n0. injection Hg as <-.
        exists (mkThread n P1 0%Z false). rewrite get_set_same. cbn [get th_name th_pc live].
        rewrite N.eqb_refl. repeat split.
      * destruct (Hr n0 t0 Hg) as (th0 & G1 & G2 & G3 & G4).
        assert (t0 <> t) by (intros ->; congruence).
        exists th0. rewrite get_set_other by congruence. cbn [get]. rewrite E.
        repeat split; assumption.
    + intros t0 th0 Hg Hlv Hu. rewrite get_set in Hg. destruct (t0 =? t) eqn:E.
      * apply N.eqb_eq in E. subst t0. injection Hg as <-. cbn [th_name]. apply get_set_same.
      * apply N.eqb_neq in E. cbn [get] in Hu. rewrite get_set.
        destruct (th_name th0 =? n) eqn:En; [injection Hu as ->; congruence|].
        now apply (Hn t0 th0).
    + intros t0. rewrite get_set. destruct (t0 =? t) eqn:E.
      * apply N.eqb_eq in E. subst t0. rewrite Hl, Ht. reflexivity.
      * apply Hl.
  - (* AConnect *)
    destruct (get t (threads s)) as [th|] eqn:Ht; [|discriminate].
    destruct (pc_eqb (th_pc th) P1) eqn:Ep; [|discriminate]. apply pc_eqb_eq in Ep.
    destruct (th_crashed th) eqn:Ec; [discriminate|]. cbn [negb andb] in Hs.
    injection Hs as <-.
    apply (inv_move s t th); try assumption; cbn [th_name th_pc]; try reflexivity.
    + now rewrite Ep.
    + rewrite proj_snoc. cbn [entry_thread]. rewrite N.eqb_refl, Hl, Ht.
      unfold expected_log; cbn [th_crashed th_pc]; rewrite ?Ec, ?Ep; try (destruct (th_crashed th)); reflexivity.
    + intros t' Hne. rewrite proj_snoc. cbn [entry_thread].
      destruct (t =? t') eqn:E; [apply N.eqb_eq in E; congruence|]. apply app_nil_r.
  - (* AServeEnd *)
    destruct (get t (threads s)) as [th|] eqn:Ht; [|discriminate].
    destruct (pc_eqb (th_pc th) P2) eqn:Ep; [|discriminate]. apply pc_eqb_eq in Ep.
    destruct (th_crashed th) eqn:Ec; [discriminate|]. cbn [negb andb] in Hs.
    injection Hs as <-. unfold set_pc.
    apply (inv_move s t th); try assumption; cbn [th_name th_pc]; try reflexivity.
    + now rewrite Ep.
    + rewrite Hl, Ht. unfold expected_log; cbn [th_crashed th_pc]; rewrite ?Ec, ?Ep; try (destruct (th_crashed th)); reflexivity.
  - (* ADisconnect *)
    destruct (get t (threads s)) as [th|] eqn:Ht; [|discriminate].
    destruct (pc_eqb (th_pc th) P3) eqn:Ep; [|discriminate]. apply pc_eqb_eq in Ep.
    destruct (th_crashed th) eqn:Ec; [discriminate|]. cbn [negb andb] in Hs.
    injection Hs as <-.
    apply (inv_move s t th); try assumption; cbn [th_name th_pc]; try reflexivity.
    + now rewrite Ep.
    + rewrite proj_snoc. cbn [entry_thread]. rewrite N.eqb_refl, Hl, Ht.
      unfold expected_log; cbn [th_crashed th_pc]; rewrite ?Ec, ?Ep; try (destruct (th_crashed th)); reflexivity.
    + intros t' Hne. rewrite proj_snoc. cbn [entry_thread].
      destruct (t =? t') eqn:E; [apply N.eqb_eq in E; congruence|]. apply app_nil_r.
  - (* AUnmap *)
    destruct (get t (threads s)) as [th|] eqn:Ht; [|discriminate].
    destruct (pc_eqb (th_pc th) P4) eqn:Ep; [|discriminate]. apply pc_eqb_eq in Ep.
    injection Hs as <-.
    set (r := match get (th_name th) (reg s) with
              | Some t' => if t' =? t then del (th_name th) (reg s) else reg s
              | None => reg s end).
    (* no entry of the new registry refers to t; other entries are kept *)
    assert (Hsub : forall n0 t0, get n0 r = Some t0 -> get n0 (reg s) = Some t0 /\ t0 <> t).
    { intros n0 t0 Hg. unfold r in Hg.
      destruct (get (th_name th) (reg s)) as [t'|] eqn:Eg.
      - destruct (t' =? t) eqn:Et.
        + apply N.eqb_eq in Et. subst t'.
          destruct (N.eq_dec (th_name th) n0) as [<-|Hne]; [now rewrite get_del_same in Hg|].
          rewrite get_del_other in Hg by assumption. split; [assumption|].
          intros ->. destruct (Hr n0 t Hg) as (th0 & G1 & G2 & _). congruence.
        + apply N.eqb_neq in Et. split; [assumption|]. intros ->.
          destruct (Hr n0 t Hg) as (th0 & G1 & G2 & _).
          rewrite Ht in G1. injection G1 as <-. congruence.
      - split; [assumption|]. intros ->.
        destruct (Hr n0 t Hg) as (th0 & G1 & G2 & _).
        rewrite Ht in G1. injection G1 as <-. congruence. }
    assert (Hkeep : forall n0 t0, get n0 (reg s) = Some t0 -> t0 <> t -> get n0 r = Some t0).
    { intros n0 t0 Hg Hne. unfold r.
      destruct (get (th_name th) (reg s)) as [t'|] eqn:Eg; [|assumption].
      destruct (t' =? t) eqn:Et; [|assumption]. apply N.eqb_eq in Et. subst t'.
      destruct (N.eq_dec (th_name th) n0) as [<-|Hn0]; [congruence|].
      now rewrite get_del_other. }
    split; cbn [threads reg ups log].
    + intros n0 t0 Hg. destruct (Hsub n0 t0 Hg) as [Hg0 Hne].
      destruct (Hr n0 t0 Hg0) as (th0 & G1 & G2 & G3 & G4).
      exists th0. rewrite get_set_other by congruence. repeat split; assumption.
    + intros t0 th0 Hg Hlv Hu. rewrite get_set in Hg. destruct (t0 =? t) eqn:E.
      * injection Hg as <-. cbn [th_pc live] in Hlv. discriminate.
      * apply N.eqb_neq in E. apply Hkeep; [|assumption]. now apply (Hn t0 th0).
    + intros t0. rewrite get_set. destruct (t0 =? t) eqn:E.
      * apply N.eqb_eq in E. subst t0. rewrite Hl, Ht. unfold expected_log.
        cbn [th_pc th_name th_sess th_crashed]. rewrite Ep. now destruct (th_crashed th).
      * apply Hl.
  - (* AClose *)
    destruct (get t (threads s)) as [th|] eqn:Ht; [|discriminate].
    destruct (pc_eqb (th_pc th) P5) eqn:Ep; [|discriminate]. apply pc_eqb_eq in Ep.
    injection Hs as <-. unfold set_pc.
    apply (inv_move s t th); try assumption; cbn [th_name th_pc]; try reflexivity.
    + now rewrite Ep.
    + rewrite Hl, Ht. unfold expected_log; cbn [th_crashed th_pc]; rewrite ?Ec, ?Ep; try (destruct (th_crashed th)); reflexivity.
  - injection Hs as <-. exact Hi.
  - injection Hs as <-. exact Hi.
  - (* ACrash *)
    destruct (get t (threads s)) as [th|] eqn:Ht; [|discriminate].
    destruct (pc_eqb (th_pc th) P1) eqn:Ep; [|discriminate]. apply pc_eqb_eq in Ep.
    injection Hs as <-.
    apply (inv_move s t th); try assumption; cbn [th_name th_pc]; try reflexivity.
    + now rewrite Ep.
    + rewrite Hl, Ht. unfold expected_log. cbn [th_crashed]. rewrite Ep.
      destruct (th_crashed th); reflexivity.
Qed.

Lemma inv_exec acts : forall s s', inv s -> exec s acts = Some s' -> inv s'.
Proof.
  induction acts as [|a r IH]; intros s s' Hi He; cbn [exec] in He.
  - injection He as <-. exact Hi.
  - destruct (step s a) as [s1|] eqn:Es; [|discriminate].
    eapply IH; [|exact He]. eapply inv_step; eassumption.
Qed.

Theorem reachable_inv s : reachable s -> inv s.
Proof. intros [acts H]. eapply inv_exec; [apply inv_init|exact H]. Qed.

(** * The property *)

(** A name resolves to a connection only if that connection is the most
    recently connected one under the name and has not ended. *)
Theorem registered_is_newest_live s n t :
  reachable s -> lookup_name s n = Some t ->
  newest s n = Some t /\
  exists th, get t (threads s) = Some th /\ th_name th = n /\ live (th_pc th) = true.
Proof.
  intros H Hg. destruct (reachable_inv s H) as [Hr _ _].
  destruct (Hr n t Hg) as (th & G1 & G2 & G3 & G4).
  split; [exact G4|]. exists th. repeat split; assumption.
Qed.

(** Newest wins: as long as the most recently connected one has not ended,
    the name resolves to it (whatever older connections do meanwhile). *)
Theorem newest_live_is_registered s n t th :
  reachable s -> newest s n = Some t ->
  get t (threads s) = Some th -> th_name th = n -> live (th_pc th) = true ->
  lookup_name s n = Some t.
Proof.
  intros H Hu Ht Hname Hlv. destruct (reachable_inv s H) as [_ Hn _].
  subst n. now apply (Hn t th).
Qed.

(** The end of an older connection never unregisters a newer one: [unmap]
    by any other connection leaves the entry alone (in every state). *)
Theorem old_end_keeps_new s s' n t t' :
  lookup_name s n = Some t -> t' <> t -> step s (AUnmap t') = Some s' ->
  lookup_name s' n = Some t.
Proof.
  unfold lookup_name. intros Hg Hne Hs. cbn [step] in Hs.
  destruct (get t' (threads s)) as [th|]; [|discriminate].
  destruct (pc_eqb (th_pc th) P4); [|discriminate]. injection Hs as <-. cbn [reg].
  destruct (get (th_name th) (reg s)) as [t0|] eqn:Eg; [|assumption].
  destruct (t0 =? t') eqn:Et; [|assumption]. apply N.eqb_eq in Et. subst t0.
  destruct (N.eq_dec (th_name th) n) as [<-|Hn]; [congruence|].
  now rewrite get_del_other.
Qed.

(** An ended connection does not stay registered. *)
Theorem ended_not_registered s t th n :
  reachable s -> get t (threads s) = Some th -> live (th_pc th) = false ->
  lookup_name s n <> Some t.
Proof.
  intros H Ht Hlv Hg. destruct (reachable_inv s H) as [Hr _ _].
  destruct (Hr n t Hg) as (th0 & G1 & _ & G3 & _). congruence.
Qed.

(** Callbacks pair up: a connection that has returned produced exactly one
    connect and one matching disconnect notification, in that order, with
    the same session value; before that, a prefix of the pair. *)
Theorem callbacks_pair s t th :
  reachable s -> get t (threads s) = Some th ->
  proj t (log s) = expected_log t th.
Proof.
  intros H Ht. destruct (reachable_inv s H) as [_ _ Hl]. now rewrite Hl, Ht.
Qed.

Theorem callbacks_pair_finished s t th :
  reachable s -> get t (threads s) = Some th -> th_pc th = P6 -> th_crashed th = false ->
  proj t (log s) =
    [Connect (th_name th) (th_sess th) t; Disconnect (th_name th) (th_sess th) t].
Proof.
  intros H Ht Hp Hc. rewrite (callbacks_pair s t th H Ht). unfold expected_log. now rewrite Hc, Hp.
Qed.

(** No notification without a connection. *)
Theorem no_stray_notification s t :
  reachable s -> get t (threads s) = None -> proj t (log s) = [].
Proof.
  intros H Ht. destruct (reachable_inv s H) as [_ _ Hl]. now rewrite Hl, Ht.
Qed.

(** Every connection can always take its next step: the registry operations
    never wait for one another beyond the mutex. *)
Definition next_action (t : N) (th : thread) : option action :=
  match th_pc th with
  | P1 => Some (AConnect t (th_sess th))
  | P2 => Some (AServeEnd t)
  | P3 => Some (ADisconnect t)
  | P4 => Some (AUnmap t)
  | P5 => Some (AClose t)
  | P6 => None
  end.

Theorem next_action_enabled s t th a :
  get t (threads s) = Some th -> th_crashed th = false -> next_action t th = Some a ->
  exists s', step s a = Some s'.
Proof.
  intros Ht Hc Ha. unfold next_action in Ha.
  destruct (th_pc th) eqn:Ep; inversion Ha; subst; cbn [step]; rewrite Ht, Ep, ?Hc; cbn [pc_eqb negb andb];
    eexists; reflexivity.
Qed.

(** A connection whose OnConnect callback panicked produces no notification
    at all, runs its deferred unmap and Close like any other, and is not
    left registered (by [ended_not_registered]). *)
Theorem crashed_is_silent s t th :
  reachable s -> get t (threads s) = Some th -> th_crashed th = true ->
  proj t (log s) = [].
Proof.
  intros H Ht Hc. rewrite (callbacks_pair s t th H Ht). unfold expected_log. now rewrite Hc.
Qed.

Theorem crashed_still_unmaps s t th :
  get t (threads s) = Some th -> th_pc th = P1 ->
  exists s1 s2 s3, step s (ACrash t) = Some s1 /\ step s1 (AUnmap t) = Some s2 /\
                   step s2 (AClose t) = Some s3 /\ lookup_name s3 (th_name th) <> Some t.
Proof.
  intros Ht Hp. cbn [step]. rewrite Ht, Hp. cbn [pc_eqb]. eexists. eexists. eexists.
  split; [reflexivity|]. cbn [step threads]. rewrite get_set_same. cbn [th_pc pc_eqb th_name].
  split; [reflexivity|]. cbn [step threads]. rewrite get_set_same. cbn [th_pc pc_eqb].
  split; [reflexivity|]. unfold lookup_name, set_pc. cbn [reg th_name].
  destruct (get (th_name th) (reg s)) as [t'|] eqn:Eg; [|congruence].
  destruct (t' =? t) eqn:Et.
  - rewrite get_del_same. discriminate.
  - rewrite Eg. apply N.eqb_neq in Et. congruence.
Qed.

(** A failed websocket upgrade changes nothing. *)
Theorem failed_upgrade_is_noop s t n : step s (AUpgradeFail t n) = Some s.
Proof. reflexivity. Qed.
