(** Ownership of the buffer behind a read reply (sniproxy/endpoint_server.go:
    handleRead, serveCall).

    Every read RPC of the multiplexed tunnel is served by its own goroutine:
    it obtains a buffer, reads from the session's pipe into it, returns a
    readResponse that points INTO that buffer, and only afterwards - in
    serveCall, under writeMu - the response is encoded onto the websocket.
    Between the Read and the encoding other handler goroutines of the same
    endpoint run.  The model makes the buffer explicit: a heap of buffers, a
    free pool, and handler threads whose steps interleave arbitrarily.
    Definitions only; proofs are in ReadBufProofs.v. *)
From Coq Require Import List NArith Bool String.
From Verif Require Import Lib.Bytes Sni.Wire.
Import ListNotations.

(** * What the translator emits about handleRead / serveCall *)

Inductive alloc_kind :=
| AFresh                       (* buf := make([]byte, size): nobody else has it *)
| APooled                      (* the buffer comes out of a pool (a .Get() call) *)
| AUnknownAlloc (s : string).

Record read_buf_skel := mkRB {
  rb_alloc : alloc_kind;
  rb_released_in_handler : bool;   (* a Put/release call inside handleRead, deferred or not *)
  rb_reply_aliases : bool;         (* the response holds buf[:n] itself, not a copy *)
  rb_encode_after_handler : bool   (* serveCall stores handleRead's result and calls writeResp afterwards *)
}.

(** * The interleaving model *)

Inductive bpolicy :=
| BFresh                (* a fresh buffer per call, never released by the handler *)
| BPutAfterEncode       (* pooled, given back after the response has been encoded *)
| BPutBeforeEncode.     (* pooled, given back when the handler returns - before the encoding *)

Record tstate := mkT { t_pc : nat; t_buf : nat; t_reply : option bytes }.

Record sys := mkSys {
  heap : nat -> bytes;        (* contents of buffer b *)
  next : nat;                 (* buffers 0 .. next-1 have been allocated *)
  pool : list nat;            (* free buffers *)
  th : nat -> tstate          (* handler thread i (any number of them) *)
}.

Definition upd {A} (f : nat -> A) (k : nat) (v : A) : nat -> A :=
  fun x => if Nat.eqb x k then v else f x.

Definition init : sys := mkSys (fun _ => []) 0 [] (fun _ => mkT 0 0 None).

Section Sem.
Variable pol : bpolicy.
(** what conn.Read delivers to the call served by thread i: arbitrary *)
Variable data : nat -> bytes.

(** pc 0: obtain the buffer.  [miss]: the pool hands out a new buffer although
    it has free ones (sync.Pool may drop items at any time). *)
Definition acquire (s : sys) (i : nat) (miss : bool) : sys :=
  match pol, pool s, miss with
  | BFresh, _, _ | _, [], _ | _, _, true =>
      mkSys (heap s) (S (next s)) (pool s) (upd (th s) i (mkT 1 (next s) None))
  | _, b :: rest, false =>
      mkSys (heap s) (next s) rest (upd (th s) i (mkT 1 b None))
  end.

(** One atomic step of thread i:
    pc 1: n, err := conn.Read(buf)        - the bytes of this call are in the buffer
    then, by policy, encode (the response bytes are read out of the buffer)
    and put (the buffer goes back to the pool) in either order. *)
Definition step (s : sys) (i : nat) (miss : bool) : sys :=
  let t := th s i in
  match t_pc t with
  | 0 => acquire s i miss
  | 1 => mkSys (upd (heap s) (t_buf t) (data i)) (next s) (pool s) (upd (th s) i (mkT 2 (t_buf t) None))
  | 2 =>
      match pol with
      | BPutBeforeEncode =>
          mkSys (heap s) (next s) (t_buf t :: pool s) (upd (th s) i (mkT 3 (t_buf t) None))
      | _ =>
          mkSys (heap s) (next s) (pool s) (upd (th s) i (mkT 3 (t_buf t) (Some (heap s (t_buf t)))))
      end
  | 3 =>
      match pol with
      | BFresh => s
      | BPutAfterEncode =>
          mkSys (heap s) (next s) (t_buf t :: pool s) (upd (th s) i (mkT 4 (t_buf t) (t_reply t)))
      | BPutBeforeEncode =>
          mkSys (heap s) (next s) (pool s) (upd (th s) i (mkT 4 (t_buf t) (Some (heap s (t_buf t)))))
      end
  | _ => s
  end.

(** A schedule: which thread moves, and the pool's choice when it acquires. *)
Fixpoint run (s : sys) (sch : list (nat * bool)) : sys :=
  match sch with
  | [] => s
  | (i, miss) :: r => run (step s i miss) r
  end.

(** Thread state in which the thread still needs its buffer. *)
Definition holding (pc : nat) : bool :=
  match pol, pc with
  | _, 1 | _, 2 => true
  | BPutAfterEncode, 3 => true
  | _, _ => false
  end.

End Sem.

(** * From the emitted skeleton to a policy *)

Definition policy_of (k : read_buf_skel) : option bpolicy :=
  if negb (rb_encode_after_handler k) then None
  else
    match rb_alloc k, rb_released_in_handler k with
    | AFresh, false => Some BFresh
    | APooled, false => Some BFresh           (* never given back: as good as fresh *)
    | APooled, true => if rb_reply_aliases k then Some BPutBeforeEncode else None
    | _, _ => None
    end.

(** The skeleton under which the reply owns its buffer until it is encoded. *)
Definition rb_ownedb (k : read_buf_skel) : bool :=
  match policy_of k with
  | Some BFresh | Some BPutAfterEncode => true
  | _ => false
  end.

Definition deployed_read_buf : read_buf_skel := mkRB AFresh false true true.
