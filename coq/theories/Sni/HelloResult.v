(** Who owns the *TLSHelloInfo that HelloInfo returns.

    HelloInfo hands out a pointer; the caller (proxy.hostConn, and through it
    the dialer) reads ServerName / ProtoCount / FirstProto from it LATER, while
    other connections are being sniffed.  The model makes the cell behind the
    pointer explicit.  Definitions only; proofs are in HelloResultProofs.v. *)
From Coq Require Import List NArith Bool String.
From Verif Require Import Lib.Bytes Sni.Wire.
Import ListNotations.

(** where the returned pointer comes from (emitted by the translator) *)
Inductive result_origin :=
| OFresh                         (* info := new(TLSHelloInfo) / &TLSHelloInfo{}: a cell per call *)
| OPooled                        (* a field of an object taken from a pool and put back on return *)
| OPackageLevel                  (* the address of a package-level variable *)
| OUnknownOrigin (s : string).

(** what a hello says, as far as HelloInfo reports it: name, protocol count, first protocol *)
Definition hinfo := (bytes * N * bytes)%type.

Record rheap := mkRH {
  rh_cell : nat -> hinfo;      (* contents of cell p *)
  rh_next : nat;               (* cells 0 .. rh_next-1 exist *)
  rh_free : list nat           (* pooled cells that were put back *)
}.

Definition rh_upd (f : nat -> hinfo) (k : nat) (v : hinfo) : nat -> hinfo :=
  fun x => if Nat.eqb x k then v else f x.

Definition rh_init : rheap := mkRH (fun _ => ([], 0%N, [])) 1 [].   (* cell 0: the package-level one *)

(** One HelloInfo call on a hello that says [x]: the heap afterwards and the
    pointer returned.  [None]: the translator did not recognise the origin. *)
Definition hello_call (o : result_origin) (h : rheap) (x : hinfo) : option (rheap * nat) :=
  match o with
  | OFresh => Some (mkRH (rh_upd (rh_cell h) (rh_next h) x) (S (rh_next h)) (rh_free h), rh_next h)
  | OPooled =>
      match rh_free h with
      | p :: rest => Some (mkRH (rh_upd (rh_cell h) p x) (rh_next h) (p :: rest), p)   (* Get p, fill, deferred Put p *)
      | [] => Some (mkRH (rh_upd (rh_cell h) (rh_next h) x) (S (rh_next h)) [rh_next h], rh_next h)
      end
  | OPackageLevel => Some (mkRH (rh_upd (rh_cell h) 0 x) (rh_next h) (rh_free h), 0)
  | OUnknownOrigin _ => None
  end.

(** A sequence of HelloInfo calls (any connections, any order): the final heap
    and the pointer each call returned. *)
Fixpoint hello_calls (o : result_origin) (h : rheap) (xs : list hinfo) : option (rheap * list nat) :=
  match xs with
  | [] => Some (h, [])
  | x :: r =>
      match hello_call o h x with
      | None => None
      | Some (h1, p) =>
          match hello_calls o h1 r with
          | Some (h2, ps) => Some (h2, p :: ps)
          | None => None
          end
      end
  end.

(** what the held results say after the last call *)
Definition held_after (o : result_origin) (xs : list hinfo) : option (list hinfo) :=
  match hello_calls o rh_init xs with
  | Some (h, ps) => Some (map (rh_cell h) ps)
  | None => None
  end.

Definition origin_freshb (o : result_origin) : bool := match o with OFresh => true | _ => false end.
