(** Proofs about Sni/HelloResult.v. *)
From Coq Require Import List NArith Bool Arith Lia.
From Verif Require Import Lib.Bytes Sni.Wire Sni.HelloResult.
Import ListNotations.

Lemma rh_upd_same f k v : rh_upd f k v k = v.
Proof. unfold rh_upd. now rewrite Nat.eqb_refl. Qed.

Lemma rh_upd_other f k v x : x <> k -> rh_upd f k v x = f x.
Proof. intros H. unfold rh_upd. destruct (Nat.eqb_spec x k); [contradiction|reflexivity]. Qed.

(** With a fresh cell per call, later calls leave every existing cell alone
    and each returned pointer holds what its own hello said. *)
Lemma fresh_calls : forall xs h h2 ps,
  hello_calls OFresh h xs = Some (h2, ps) ->
  rh_next h <= rh_next h2 /\
  (forall q, q < rh_next h -> rh_cell h2 q = rh_cell h q) /\
  map (rh_cell h2) ps = xs /\
  (forall p, In p ps -> rh_next h <= p).
Proof.
  induction xs as [|x r IH]; intros h h2 ps.
  - cbn. intros [= <- <-]. cbn. repeat split; auto. intros p [].
  - cbn [hello_calls hello_call].
    destruct (hello_calls OFresh _ r) as [[h3 ps3]|] eqn:E; [|discriminate].
    intros [= <- <-]. destruct (IH _ _ _ E) as (Hn & Hc & Hm & Hp). cbn [rh_next rh_cell] in *.
    split; [lia|]. split.
    + intros q Hq. rewrite Hc by lia. apply rh_upd_other. lia.
    + split.
      * cbn [map]. rewrite Hm. f_equal. rewrite Hc by lia. apply rh_upd_same.
      * intros p [<-|Hin]; [lia|]. apply Hp in Hin. lia.
Qed.

(** Any sequence of HelloInfo calls - any number of connections, sniffed in
    any order - and every result held until after the last one: each still
    says what its own hello said. *)
Theorem held_results_stable xs : held_after OFresh xs = Some xs.
Proof.
  unfold held_after. destruct (hello_calls OFresh rh_init xs) as [[h ps]|] eqn:E.
  - destruct (fresh_calls xs rh_init h ps E) as (_ & _ & Hm & _). now rewrite Hm.
  - exfalso. revert E. generalize rh_init. induction xs as [|x r IH]; intros h0; cbn [hello_calls hello_call].
    + discriminate.
    + destruct (hello_calls OFresh _ r) as [[h3 ps3]|] eqn:E3; [discriminate|]. intros _. eapply IH. exact E3.
Qed.

(** A pooled sink, and a package-level one: the first result says what the
    second hello said. *)
Lemma pooled_result_overwritten a b :
  held_after OPooled [a; b] = Some [b; b] /\ held_after OPackageLevel [a; b] = Some [b; b].
Proof. split; reflexivity. Qed.
