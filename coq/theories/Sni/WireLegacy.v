(** The decoder.bytes of the pinned tree (before fix 39948aa) and
    handleRead's buffer sizing (before fix ce9880b), kept as a recorded
    counter-model: the bounded-allocation / no-panic statements of C13 are
    FALSE of them, with concrete witnesses. *)
From Coq Require Import List NArith ZArith Bool Lia.
From Verif Require Import Lib.Bytes Sni.Wire.
Import ListNotations.
Local Open Scope N_scope.

(** pinned tree:  n := int(d.u64()); if n <= 0 {return nil}; if err {return nil};
    if len(buf) >= n {buf = buf[:n]} else {buf = make([]byte, n)}; d.read(buf) *)
Definition d_bytes_legacy (cap : N) (d : dstate) : bytes * dstate :=
  let '(n64, d1) := d_u64 d in
  let n := int_of_u64 n64 in
  if (n <=? 0)%Z then ([], d1)
  else match err d1 with
  | Some _ => ([], d1)
  | None =>
      if n64 <=? cap then d_read n64 d1
      else
        let d2 := d_make n64 d1 in
        match err d2 with
        | Some _ => ([], d2)
        | None => d_read n64 d2
        end
  end.

(** A 9-byte body announcing 2^62 bytes: make() panics. *)
Example legacy_bytes_panics_refuted :
  exists input, lenN input = 9 /\
    err (snd (d_bytes_legacy 0 (init input))) = Some EPanic.
Proof. exists (le64 4611686018427387904 ++ [120]). split; vm_compute; reflexivity. Qed.

(** A 9-byte body announcing 2^40 bytes: a terabyte is allocated before a
    single payload byte is read. *)
Example legacy_bytes_unbounded_refuted :
  exists input, lenN input = 9 /\
    1099511627776 <= alloc (snd (d_bytes_legacy 0 (init input))).
Proof.
  exists (le64 1099511627776 ++ [120]). split; [reflexivity|].
  vm_compute. discriminate.
Qed.

(** A length prefix >= 2^63 reads as a non-positive int: silently an empty
    field, no error. *)
Example legacy_bytes_negative_silent :
  d_bytes_legacy 0 (init (le64 (two64 - 1) ++ [120]))
  = ([], mkD [120] 8 None 0).
Proof. vm_compute. reflexivity. Qed.

(** pinned tree: buf := make([]byte, req.maxRead) *)
Definition handle_read_legacy (maxRead : Z) (avail : N) : read_result :=
  if (maxRead <? 0)%Z then RPanic
  else
    let size := Z.to_N maxRead in
    if go_max_alloc <? size then RPanic else RRead size (N.min size avail).

Example legacy_handle_read_refuted :
  handle_read_legacy (-1) 100 = RPanic /\
  handle_read_legacy 4611686018427387904 100 = RPanic.
Proof. split; reflexivity. Qed.
