(** Candidate inputs for the counterexample search of the wire-decoder code
    refinement (Sni/CodeRefineWire.v, C13), and what both sides are compared
    on.  Requires only the generated file and the model.

    The generated decoder methods (Gen/CodeSni.v) run over an abstract
    [io.Reader] (Lib/GoLib.v [go_reader]: chunks, the last one possibly
    delivered together with [io.EOF]) with the receiver's fields [n], [err],
    [tail] as state; the model (Sni/Wire.v) runs over the bytes the reader
    still holds.  Compared: the value returned, the bytes left in the reader,
    the count, the sticky error. *)
From Coq Require Import String.
From Coq Require Import List NArith ZArith Bool.
From Verif Require Import Lib.Bytes Lib.Path Lib.GoLib Sni.Wire Gen.CodeSni.
Import ListNotations.
Local Open Scope Z_scope.

(** The decoder's error as the model's, given the tail count. *)
Definition derr_go (tail : Z) (e : go_error) : option derr :=
  match e with
  | None => None
  | Some (GoErr k m) =>
      if String.eqb k "var" && String.eqb m "io.ErrUnexpectedEOF" then Some EEof
      else if String.eqb k "tailError" then Some (ETail (Z.to_N tail))
      else if String.eqb k "var" && String.eqb m "errLengthOverflow" then Some ETooLong
      else Some EPanic   (* not an error of the decoder model *)
  end.

Definition derr_tag (e : option derr) : N :=
  match e with None => 0 | Some EEof => 1 | Some (ETail n) => 10 + n | Some ETooLong => 2 | Some EPanic => 3 end%N.

(** (bytes left, count, error) *)
Definition dobs := (list N * N * N)%type.
Definition obs_d (d : dstate) : dobs := (inp d, cnt d, derr_tag (err d)).
Definition obs_g (rd : go_reader) (n : Z) (tail : Z) (e : go_error) : dobs :=
  (rd_bytes rd, Z.to_N n, derr_tag (derr_go tail e)).
Definition dobs_eqb (a b : dobs) : bool :=
  str_eqb (fst (fst a)) (fst (fst b)) && (snd (fst a) =? snd (fst b))%N && (snd a =? snd b)%N.

Definition dst (rd : go_reader) (n : Z) (e : go_error) : dstate := mkD (rd_bytes rd) (Z.to_N n) (derr_go 0 e) 0.

(** One observation per method: [None] = panic / out of fuel. *)
Definition run_read (rd : go_reader) (n : Z) (e : go_error) (buf : list N) : option (list N * dobs) :=
  match gen_sniproxy_decoder_read rd n e buf with
  | GoOk (n', e', buf', rd') => Some (buf', obs_g rd' n' 0 e')
  | _ => None
  end.
Definition model_read (rd : go_reader) (n : Z) (e : go_error) (buf : list N) : option (list N * dobs) :=
  let '(got, d') := d_read (lenN buf) (dst rd n e) in Some (go_fill_buf buf got, obs_d d').

Definition run_u64 (rd : go_reader) (n : Z) (e : go_error) : option (Z * dobs) :=
  match gen_sniproxy_decoder_u64 rd n e with
  | GoOk (v, n', e', rd') => Some (v, obs_g rd' n' 0 e')
  | _ => None
  end.
Definition model_u64 (rd : go_reader) (n : Z) (e : go_error) : option (Z * dobs) :=
  let '(v, d') := d_u64 (dst rd n e) in Some (Z.of_N v, obs_d d').

Definition run_u8 (rd : go_reader) (n : Z) (e : go_error) : option (Z * dobs) :=
  match gen_sniproxy_decoder_u8 rd n e with
  | GoOk (v, n', e', rd') => Some (v, obs_g rd' n' 0 e')
  | _ => None
  end.
Definition model_u8 (rd : go_reader) (n : Z) (e : go_error) : option (Z * dobs) :=
  let '(v, d') := d_u8 (dst rd n e) in Some (Z.of_N v, obs_d d').

Definition run_bytes (rd : go_reader) (n : Z) (e : go_error) (buf : list N) : option (list N * dobs) :=
  match gen_sniproxy_decoder_bytes rd n e buf with
  | GoOk (b, n', e', rd') => Some ((if go_isnil e' then b else []), obs_g rd' n' 0 e')
  | _ => None
  end.
(** The field returned after an error is not compared: the code hands back
    the whole (partly filled) buffer, the model what was read; every caller
    checks the error first. *)
Definition model_bytes (amax : N) (rd : go_reader) (n : Z) (e : go_error) (buf : list N) : option (list N * dobs) :=
  let '(b, d') := d_bytes amax (lenN buf) (dst rd n e) in
  match err d' with
  | Some EPanic => None
  | Some _ => Some ([], obs_d d')
  | None => Some (b, obs_d d')
  end.

(** [end()]: afterwards the reader is drained; observed: (error, tail). *)
Definition run_end (rd : go_reader) (e : go_error) : option (N * N) :=
  match gen_sniproxy_decoder_end rd e 0 with
  | GoOk (e', tail, rd') => Some (derr_tag (derr_go tail e'), lenN (rd_bytes rd'))
  | _ => None
  end.
Definition model_end (rd : go_reader) (e : go_error) : option (N * N) :=
  let d' := d_end (dst rd 0 e) in Some (derr_tag (err d'), lenN (inp d')).

Definition opt_pair_eqb {A} (ea : A -> A -> bool) (a b : option (A * dobs)) : bool :=
  match a, b with
  | Some (x, o), Some (y, o') => ea x y && dobs_eqb o o'
  | None, None => true
  | _, _ => false
  end.

(** ** Readers: every way to cut a byte string into at most three chunks at
    the given places, plus empty chunks in front, in the middle and at the
    end; each with and without [io.EOF] on the last chunk. *)
Definition cuts (b : list N) : list (list (list N)) :=
  let n := List.length b in
  [[b]; map (fun x => [x]) b; [firstn (n / 2) b; skipn (n / 2) b]; [firstn 1 b; skipn 1 b];
   [firstn (n - 1) b; skipn (n - 1) b]; [[]; b]; [b; []]; [firstn 3 b; []; skipn 3 b];
   [firstn 8 b; skipn 8 b]; [firstn 9 b; skipn 9 b]; [firstn 7 b; skipn 7 b]].
Definition readers (b : list N) : list go_reader :=
  flat_map (fun cs => [mkReader cs false; mkReader cs true]) (cuts b).

Definition cand_wire_bytes : list (list N) :=
  [[]; [7]; [1; 2; 3]; le64 0; le64 3 ++ [65; 66; 67]; le64 3 ++ [65; 66]; le64 1000 ++ [1; 2];
   le64 5 ++ [1; 2; 3; 4; 5; 6; 7]; le64 18446744073709551615 ++ [1]; le64 9223372036854775808;
   le64 9223372036854775807 ++ [9; 9]; le64 70000 ++ repeat 5%N 10; [1; 2; 3; 4; 5; 6; 7]; le64 2 ++ [0; 0] ++ le64 0]%N.

Definition cand_readers : list go_reader := flat_map readers cand_wire_bytes.
Definition cand_errs : list go_error := [None; io_ErrUnexpectedEOF].
Definition cand_bufs : list (list N) := [[]; [9%N]; repeat 9%N 4; repeat 9%N 8; repeat 9%N 16].

Definition cex_decoder_read :=
  cex_search (opt_pair_eqb str_eqb)
    (fun x => run_read (fst x) 5 (fst (snd x)) (snd (snd x)))
    (fun x => model_read (fst x) 5 (fst (snd x)) (snd (snd x)))
    (pairs cand_readers (pairs cand_errs cand_bufs)).

Definition cex_decoder_u64 :=
  cex_search (opt_pair_eqb Z.eqb) (fun x => run_u64 (fst x) 5 (snd x)) (fun x => model_u64 (fst x) 5 (snd x))
    (pairs cand_readers cand_errs).

Definition cex_decoder_u8 :=
  cex_search (opt_pair_eqb Z.eqb) (fun x => run_u8 (fst x) 5 (snd x)) (fun x => model_u8 (fst x) 5 (snd x))
    (pairs cand_readers cand_errs).

Definition cex_decoder_bytes :=
  cex_search (opt_pair_eqb str_eqb)
    (fun x => run_bytes (fst x) 5 (fst (snd x)) (snd (snd x)))
    (fun x => model_bytes 65536 (fst x) 5 (fst (snd x)) (snd (snd x)))
    (pairs cand_readers (pairs cand_errs cand_bufs)).

Definition cex_decoder_end :=
  cex_search (opt_eqb (pair_eqb N.eqb N.eqb)) (fun x => run_end (fst x) (snd x)) (fun x => model_end (fst x) (snd x))
    (pairs cand_readers cand_errs).

(** ** The encoder over a writer that takes everything: what is written. *)
Definition run_enc_bytes (bs : list N) : option (list N * Z) :=
  match gen_sniproxy_encoder_bytes (mkWriter [7%N] []) 5 None bs with
  | GoOk (n, None, w) => Some (wr_out w, n)
  | _ => None
  end.
Definition cex_encoder_bytes :=
  cex_search (opt_eqb (pair_eqb str_eqb Z.eqb)) run_enc_bytes
    (fun bs => Some ((7%N :: enc_bytes bs), 5 + 8 + go_len bs))
    [[]; [1%N]; [1; 2; 3]%N; repeat 9%N 300].
Definition run_enc_u64 (v : N) : option (list N * Z) :=
  match gen_sniproxy_encoder_u64 (mkWriter [] []) 0 None (Z.of_N v) with
  | GoOk (n, None, w) => Some (wr_out w, n)
  | _ => None
  end.
Definition cex_encoder_u64 :=
  cex_search (opt_eqb (pair_eqb str_eqb Z.eqb)) run_enc_u64 (fun v => Some (le64 v, 8))
    [0; 1; 255; 256; 65535; 4294967296; 9223372036854775808; 18446744073709551615]%N.
