(** Correspondence evaluator for C03: run the transport model on the event
    order the harness observed on the wire and compare what every caller was
    told. *)
From Coq Require Import List NArith ZArith Bool String.
From Verif Require Import Lib.Bytes Sni.Wire Sni.WireGenDefs Sni.WireCorr Sni.Rpc Gen.WireSchema.
Import ListNotations.
Local Open Scope N_scope.

Inductive cevent :=
| CvSignal
| CvRefused (k : N)
| CvCall (k typ : N) (resp : string) (cap : N) (sendok : bool)
| CvReply (f : bytes)
| CvText
| CvReadErr
| CvCancel (k : N).      (* the caller's own context was cancelled *)

(** What a caller observed: the call's return value projected. *)
Inductive cobs :=
| ObsOk (fields : list value)
| ObsErr (code : N)
| ObsNone.               (* still blocked when the observation bound passed *)

Definition code_shutdown : N := 1.
Definition code_send : N := 2.
Definition code_eof : N := 3.
Definition code_toolong : N := 4.
Definition code_lenoverflow : N := 5.
Definition code_ctx : N := 6.
Definition code_other : N := 9.

Definition cerr_code (e : cerr) : N :=
  match e with
  | CShutdown => code_shutdown
  | CSend => code_send
  | CExit => code_eof
  | CTooLong => code_toolong
  | CDecode EEof => code_eof            (* both are io.ErrUnexpectedEOF *)
  | CDecode ETooLong => code_lenoverflow
  | CDecode _ => code_other
  end.

Record ccase := mkCase {
  cc_events : list cevent;
  cc_callers : list (N * cobs);
  cc_exited : bool
}.

Definition resp_schema (name : string) : option (option schema) :=
  if String.eqb name "" then Some None
  else match assoc_str name gen_schemas with
       | Some sch => Some (Some sch)
       | None => None
       end.

Definition model_step := step gen_alloc_max two64.

(** Run the events; also collect the callers whose context was cancelled
    before the transport had completed them.  [None]: an event names a
    response struct the current source does not have. *)
Fixpoint replay (evs : list cevent) (s : st) (cancelled : list N)
  : option (st * list N) :=
  match evs with
  | [] => Some (s, cancelled)
  | e :: r =>
      match e with
      | CvSignal => replay r (model_step s ESignal) cancelled
      | CvRefused k => replay r (model_step s (ERefused k)) cancelled
      | CvCall k typ resp cap ok =>
          match resp_schema resp with
          | Some sch => replay r (model_step s (ECall (mkCall k typ sch cap) ok)) cancelled
          | None => None
          end
      | CvReply f => replay r (model_step s (EReply f)) cancelled
      | CvText => replay r (model_step s EText) cancelled
      | CvReadErr => replay r (model_step s EReadErr) cancelled
      | CvCancel k =>
          match status s k with
          | None => replay r s (k :: cancelled)
          | Some _ => replay r s cancelled
          end
      end
  end.

Definition obs_agrees (s : st) (cancelled : list N) (kc : N * cobs) : bool :=
  let '(k, o) := kc in
  if existsb (N.eqb k) cancelled then
    match o with ObsErr c => c =? code_ctx | _ => false end
  else
    match status s k, o with
    | Some (ROk vs), ObsOk fs => list_eqb value_eqb vs fs
    | Some (RErr e), ObsErr c => c =? cerr_code e
    | None, ObsNone => true
    (* a call the transport never completes returns io.ErrUnexpectedEOF by
       itself once serve has exited (select on serveDone) *)
    | None, ObsErr c => (c =? code_eof) && negb (running s)
    | _, _ => false
    end.

Definition check_case (c : ccase) : bool :=
  match replay (cc_events c) init_st [] with
  | None => false
  | Some (s, cancelled) =>
      negb (panicked s) &&
      Bool.eqb (cc_exited c) (negb (running s)) &&
      forallb (obs_agrees s cancelled) (cc_callers c)
  end.

Fixpoint mismatches_from (i : nat) (cs : list ccase) : list nat :=
  match cs with
  | [] => []
  | c :: r => if check_case c then mismatches_from (S i) r
              else i :: mismatches_from (S i) r
  end.

Definition mismatches (cs : list ccase) : list nat := mismatches_from 0 cs.

(** Branch tag of a case, for the coverage histogram: which of the model's
    completions occurred. *)
Definition tag_of_result (r : result) : N :=
  match r with
  | ROk _ => 0
  | RErr e => 10 + cerr_code e
  end.

Definition case_tags (c : ccase) : list N :=
  match replay (cc_events c) init_st [] with
  | None => [99]
  | Some (s, _) => map (fun kr => tag_of_result (snd kr)) (log s)
  end.

(** One pass: (indices of mismatching cases, completion tags of all cases). *)
Definition eval_case (c : ccase) : bool * list N :=
  match replay (cc_events c) init_st [] with
  | None => (false, [99])
  | Some (s, cancelled) =>
      (negb (panicked s) &&
       Bool.eqb (cc_exited c) (negb (running s)) &&
       forallb (obs_agrees s cancelled) (cc_callers c),
       map (fun kr => tag_of_result (snd kr)) (log s))
  end.

Fixpoint eval_from (i : nat) (cs : list ccase) : list nat * list N :=
  match cs with
  | [] => ([], [])
  | c :: r =>
      let '(ok, tags) := eval_case c in
      let '(m, t) := eval_from (S i) r in
      (if ok then m else i :: m, tags ++ t)
  end.

Definition eval_all (cs : list ccase) : list nat * list N := eval_from 0 cs.
