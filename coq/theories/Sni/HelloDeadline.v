(** The read deadline of the sniffed connection is part of its state.

    HelloInfo works on the client's net.Conn; whatever deadline it leaves set
    there stays in force for the proxied stream: a Read after the deadline
    fails with a timeout although the bytes are (or will be) there.  The model:
    the connection's read deadline after HelloInfo, and a Read at a later
    instant. *)
From Coq Require Import List NArith Bool String.
From Verif Require Import Lib.Bytes Sni.Wire.
Import ListNotations.
Local Open Scope N_scope.

(** what HelloInfo does to the read deadline *)
Inductive dl_policy :=
| DlNever                      (* no Set*Deadline call in tls_hello_conn.go *)
| DlSetAndLeave (d : N).       (* sets now + d when the hello needs another read, never clears it *)

Definition dl_of (calls : list string) : dl_policy :=
  match calls with [] => DlNever | _ => DlSetAndLeave 0 end.

(** the deadline in force after a sniff that started at [t0]; [split]: the
    hello arrived in more than one read *)
Definition deadline_after (p : dl_policy) (t0 : N) (split : bool) : option N :=
  match p with
  | DlNever => None
  | DlSetAndLeave d => if split then Some (t0 + d) else None
  end.

Inductive rd := RdBytes (b : bytes) | RdTimeout.

(** a Read of the proxied stream at instant [t], [avail] being what the
    connection has for it *)
Definition read_at (dl : option N) (t : N) (avail : bytes) : rd :=
  match dl with
  | Some d => if d <=? t then RdTimeout else RdBytes avail
  | None => RdBytes avail
  end.

(** Sniffing leaves no deadline: every later Read, at any instant, gets the
    bytes. *)
Lemma no_deadline_reads_always calls t0 split t avail :
  calls = [] -> read_at (deadline_after (dl_of calls) t0 split) t avail = RdBytes avail.
Proof. intros ->. reflexivity. Qed.

(** A deadline that is set and left: a hello in two segments at time 0, a Read
    d later times out. *)
Lemma deadline_left_armed_times_out d avail :
  read_at (deadline_after (DlSetAndLeave d) 0 true) d avail = RdTimeout /\
  read_at (deadline_after (DlSetAndLeave d) 0 false) d avail = RdBytes avail.
Proof. cbn. rewrite N.leb_refl. split; reflexivity. Qed.
