(** Proofs about the wire codec model of Wire.v. *)
From Coq Require Import List NArith ZArith Bool String Lia.
From Coq Require Import ZifyN ZifyNat ZifyBool.
From Verif Require Import Lib.Bytes Sni.Wire.
Import ListNotations.
Local Open Scope N_scope.

Lemma two63_lt_two64 : two63 < two64.
Proof. reflexivity. Qed.

Lemma lenN_app a b : lenN (a ++ b) = lenN a + lenN b.
Proof. unfold lenN. rewrite app_length. lia. Qed.

Lemma lenN_nil : lenN [] = 0.
Proof. reflexivity. Qed.

Lemma lenN_firstn n l : n <= lenN l -> lenN (firstn (N.to_nat n) l) = n.
Proof. unfold lenN. intros H. rewrite firstn_length. lia. Qed.

Lemma lenN_skipn n l : n <= lenN l -> lenN (skipn (N.to_nat n) l) = lenN l - n.
Proof. unfold lenN. intros H. rewrite skipn_length. lia. Qed.

Lemma firstn_lenN_app a b : firstn (N.to_nat (lenN a)) (a ++ b) = a.
Proof.
  unfold lenN. rewrite Nat2N.id, firstn_app, Nat.sub_diag, firstn_O, app_nil_r.
  apply firstn_all.
Qed.

Lemma skipn_lenN_app a b : skipn (N.to_nat (lenN a)) (a ++ b) = b.
Proof.
  unfold lenN. rewrite Nat2N.id, skipn_app, Nat.sub_diag, skipn_all. reflexivity.
Qed.

Lemma lenN_le64 v : lenN (le64 v) = 8.
Proof. unfold lenN. now rewrite le64_length. Qed.

(** * Exact reads *)

Lemma d_read_exact a rest c al :
  d_read (lenN a) (mkD (a ++ rest) c None al)
  = (a, mkD rest (c + lenN a) None al).
Proof.
  unfold d_read. cbn [err inp cnt alloc].
  destruct (N.leb_spec (lenN a) (lenN (a ++ rest))) as [_|H].
  - now rewrite firstn_lenN_app, skipn_lenN_app.
  - rewrite lenN_app in H. lia.
Qed.

Lemma d_u64_exact v rest c al :
  v < two64 ->
  d_u64 (mkD (le64 v ++ rest) c None al) = (v, mkD rest (c + 8) None al).
Proof.
  intros Hv. unfold d_u64. cbn [err].
  rewrite <- (lenN_le64 v) at 1. rewrite d_read_exact, lenN_le64.
  f_equal. unfold le64. apply de_le_bytes_small. now rewrite <- two64_pow.
Qed.

Section Proofs.
Variable alloc_max : N.
Hypothesis alloc_max_ok : alloc_max <= go_max_alloc.

Notation d_bytes := (d_bytes alloc_max).
Notation d_rerr := (d_rerr alloc_max).
Notation dec_value := (dec_value alloc_max).
Notation dec_schema := (dec_schema alloc_max).

Lemma d_bytes_exact cap b rest c al :
  lenN b < two63 ->
  exists al',
    d_bytes cap (mkD (enc_bytes b ++ rest) c None al)
    = (b, mkD rest (c + lenN (enc_bytes b)) None al').
Proof.
  intros Hb. unfold d_bytes, enc_bytes. rewrite <- app_assoc.
  rewrite d_u64_exact by (pose proof two63_lt_two64; lia).
  rewrite lenN_app, lenN_le64.
  destruct (N.eqb_spec (lenN b) 0) as [Hz|Hnz].
  - exists al. destruct b; [|unfold lenN in Hz; simpl in Hz; lia].
    cbn [app]. rewrite lenN_nil. replace (c + (8 + 0)) with (c + 8) by lia. reflexivity.
  - cbn [err].
    destruct (N.leb_spec two63 (lenN b)) as [H|_]; [lia|].
    destruct (N.leb_spec (lenN b) cap) as [_|_].
    + exists al. rewrite d_read_exact. f_equal. f_equal. lia.
    + destruct (N.leb_spec (lenN b) alloc_max) as [Hs|_].
      * unfold d_make. cbn [inp cnt err alloc].
        destruct (N.ltb_spec go_max_alloc (lenN b)) as [H|_]; [lia|].
        cbn [err]. exists (al + lenN b). rewrite d_read_exact.
        f_equal. f_equal. lia.
      * rewrite d_read_exact. cbn [inp cnt err alloc].
        eexists. f_equal. f_equal. lia.
Qed.

(** * Round trip *)

Lemma dec_value_exact cap k v rest c al :
  wf_value k v ->
  exists al',
    dec_value cap k (mkD (enc_value k v ++ rest) c None al)
    = (v, mkD rest (c + lenN (enc_value k v)) None al').
Proof.
  intros Hwf. destruct k, v as [n|z|b|[[code m]|]]; cbn [wf_value] in Hwf;
    try contradiction; cbn [dec_value enc_value].
  - (* u64 *) exists al. rewrite d_u64_exact by assumption. now rewrite lenN_le64.
  - (* int *) exists al. rewrite d_u64_exact by apply u64_of_int_bound.
    rewrite int_of_u64_of_int by assumption. now rewrite lenN_le64.
  - (* str *) destruct (d_bytes_exact 0 b rest c al Hwf) as [al' E].
    exists al'. now rewrite E.
  - (* bytes *) destruct (d_bytes_exact cap b rest c al Hwf) as [al' E].
    exists al'. now rewrite E.
  - (* err, non-nil *)
    destruct Hwf as (Hc & Hnz & Hm).
    destruct (Z.eqb_spec code 0) as [|_]; [contradiction|].
    unfold d_rerr. rewrite <- app_assoc.
    rewrite d_u64_exact by apply u64_of_int_bound.
    rewrite int_of_u64_of_int by assumption.
    destruct (Z.eqb_spec code 0) as [|_]; [contradiction|].
    destruct (d_bytes_exact 0 m rest (c + 8) al Hm) as [al' E].
    exists al'. rewrite E. f_equal. f_equal.
    rewrite lenN_app, lenN_le64. lia.
  - (* err, nil *)
    exists al. unfold d_rerr.
    rewrite d_u64_exact by reflexivity. rewrite lenN_le64. reflexivity.
Qed.

Theorem dec_schema_exact cap sch : forall vs rest c al,
  Forall2 wf_value sch vs ->
  exists al',
    dec_schema cap sch (mkD (enc_schema sch vs ++ rest) c None al)
    = (vs, mkD rest (c + lenN (enc_schema sch vs)) None al').
Proof.
  induction sch as [|k sch IH]; intros vs rest c al H.
  - inversion H; subst. exists al. cbn [dec_schema enc_schema app]. rewrite lenN_nil.
    replace (c + 0) with c by lia. reflexivity.
  - inversion H as [|? v ? vs' Hv Hvs]; subst.
    cbn [dec_schema enc_schema]. rewrite <- app_assoc.
    destruct (dec_value_exact cap k v (enc_schema sch vs' ++ rest) c al Hv)
      as [al1 E1]. rewrite E1.
    destruct (IH vs' rest (c + lenN (enc_value k v)) al1 Hvs) as [al2 E2].
    rewrite E2. exists al2. f_equal. f_equal. rewrite lenN_app. lia.
Qed.

(** Decoding then [end]: no error iff nothing trails. *)
Lemma d_end_ok rest c al :
  err (d_end (mkD rest c None al)) = None <-> rest = [].
Proof.
  unfold d_end. cbn [err inp cnt alloc].
  destruct (N.eqb_spec (lenN rest) 0) as [H|H]; cbn [err].
  - split; [|reflexivity]. intros _. destruct rest; [reflexivity|].
    unfold lenN in H. simpl in H. lia.
  - split; [discriminate|]. intros ->. rewrite lenN_nil in H. lia.
Qed.

Lemma d_end_tail rest c al :
  rest <> [] -> err (d_end (mkD rest c None al)) = Some (ETail (lenN rest)).
Proof.
  intros H. unfold d_end. cbn [err inp cnt alloc].
  destruct (N.eqb_spec (lenN rest) 0) as [E|_]; [|reflexivity].
  destruct rest; [contradiction|]. unfold lenN in E. simpl in E. lia.
Qed.

(** * Sticky errors *)

Lemma d_read_sticky n d e : err d = Some e -> d_read n d = ([], d).
Proof. intros H. unfold d_read. now rewrite H. Qed.

Lemma d_u64_sticky d e : err d = Some e -> d_u64 d = (0, d).
Proof. intros H. unfold d_u64. now rewrite H. Qed.

Lemma d_u8_sticky d e : err d = Some e -> d_u8 d = (0, d).
Proof. intros H. unfold d_u8. now rewrite (d_read_sticky _ _ _ H). Qed.

Lemma d_bytes_sticky cap d e : err d = Some e -> d_bytes cap d = ([], d).
Proof. intros H. unfold d_bytes. now rewrite (d_u64_sticky _ _ H). Qed.

Lemma dec_value_sticky cap k d e :
  err d = Some e -> snd (dec_value cap k d) = d.
Proof.
  intros H. destruct k; cbn [dec_value]; unfold d_rerr;
    rewrite ?(d_u64_sticky _ _ H), ?(d_bytes_sticky _ _ _ H); reflexivity.
Qed.

Lemma dec_schema_sticky cap sch : forall d e,
  err d = Some e -> snd (dec_schema cap sch d) = d.
Proof.
  induction sch as [|k sch IH]; intros d e H; [reflexivity|].
  cbn [dec_schema].
  pose proof (dec_value_sticky cap k d e H) as E.
  destruct (dec_value cap k d) as [v d1]. cbn [snd] in E. subst d1.
  pose proof (IH d e H) as E2.
  destruct (dec_schema cap sch d) as [vs d2]. exact E2.
Qed.

(** * Truncation is always reported *)

Definition strict_prefix (p l : bytes) : Prop :=
  exists s, s <> [] /\ l = p ++ s.

Lemma strict_prefix_app p a b :
  strict_prefix p (a ++ b) ->
  strict_prefix p a \/ exists p', p = a ++ p' /\ strict_prefix p' b.
Proof.
  revert p. induction a as [|x a IH]; intros p [s [Hs E]].
  - right. exists p. split; [reflexivity|]. exists s. auto.
  - destruct p as [|y p].
    + left. exists (x :: a). split; [discriminate|reflexivity].
    + cbn in E. injection E as -> E.
      destruct (IH p) as [[s' [Hs' E']]|[p' [E' H']]].
      * exists s. auto.
      * left. exists s'. split; [assumption|]. cbn. now rewrite E'.
      * right. exists p'. split; [now rewrite E'|assumption].
Qed.

Lemma strict_prefix_len p l : strict_prefix p l -> lenN p < lenN l.
Proof.
  intros [s [Hs ->]]. rewrite lenN_app.
  destruct s; [contradiction|]. unfold lenN. simpl. lia.
Qed.

Lemma d_read_short n p c al :
  lenN p < n ->
  d_read n (mkD p c None al) = (p, mkD [] (c + lenN p) (Some EEof) al).
Proof.
  intros H. unfold d_read. cbn [err inp cnt alloc].
  destruct (N.leb_spec n (lenN p)); [lia|reflexivity].
Qed.

Lemma d_u64_short p c al :
  lenN p < 8 -> err (snd (d_u64 (mkD p c None al))) = Some EEof.
Proof. intros H. unfold d_u64. cbn [err]. now rewrite d_read_short. Qed.

Lemma d_bytes_cut cap b p c al :
  lenN b < two63 -> strict_prefix p (enc_bytes b) ->
  err (snd (d_bytes cap (mkD p c None al))) = Some EEof.
Proof.
  intros Hb Hp. unfold enc_bytes in Hp.
  apply strict_prefix_app in Hp. destruct Hp as [Hp|[p' [-> Hp']]].
  - apply strict_prefix_len in Hp. rewrite lenN_le64 in Hp.
    unfold d_bytes, d_u64. cbn [err]. rewrite d_read_short by assumption.
    destruct (_ =? 0); reflexivity.
  - pose proof (strict_prefix_len _ _ Hp') as L.
    unfold d_bytes.
    rewrite d_u64_exact by (pose proof two63_lt_two64; lia).
    destruct (N.eqb_spec (lenN b) 0) as [|_]; [lia|]. cbn [err].
    destruct (N.leb_spec two63 (lenN b)) as [|_]; [lia|].
    destruct (N.leb_spec (lenN b) cap) as [_|_].
    + now rewrite d_read_short.
    + destruct (N.leb_spec (lenN b) alloc_max) as [Hs|_].
      * unfold d_make. cbn [inp cnt err alloc].
        destruct (N.ltb_spec go_max_alloc (lenN b)) as [|_]; [lia|].
        cbn [err]. now rewrite d_read_short.
      * now rewrite d_read_short.
Qed.

Lemma dec_value_cut cap k v p c al :
  wf_value k v -> strict_prefix p (enc_value k v) ->
  err (snd (dec_value cap k (mkD p c None al))) = Some EEof.
Proof.
  intros Hwf Hp. destruct k, v as [n|z|b|[[code m]|]]; cbn [wf_value] in Hwf;
    try contradiction; cbn [dec_value enc_value] in *.
  - apply strict_prefix_len in Hp. rewrite lenN_le64 in Hp.
    pose proof (d_u64_short p c al Hp) as E.
    destruct (d_u64 _) as [? ?]. exact E.
  - apply strict_prefix_len in Hp. rewrite lenN_le64 in Hp.
    pose proof (d_u64_short p c al Hp) as E.
    destruct (d_u64 _) as [? ?]. exact E.
  - pose proof (d_bytes_cut 0 b p c al Hwf Hp) as E.
    destruct (d_bytes _ _) as [? ?]. exact E.
  - pose proof (d_bytes_cut cap b p c al Hwf Hp) as E.
    destruct (d_bytes _ _) as [? ?]. exact E.
  - destruct Hwf as (Hc & Hnz & Hm).
    destruct (Z.eqb_spec code 0) as [|_]; [contradiction|].
    apply strict_prefix_app in Hp. destruct Hp as [Hp|[p' [-> Hp']]].
    + apply strict_prefix_len in Hp. rewrite lenN_le64 in Hp.
      unfold d_rerr, d_u64. cbn [err]. rewrite d_read_short by assumption.
      destruct (_ =? 0)%Z; [reflexivity|].
      rewrite (d_bytes_sticky 0 _ EEof) by reflexivity. reflexivity.
    + unfold d_rerr. rewrite d_u64_exact by apply u64_of_int_bound.
      rewrite int_of_u64_of_int by assumption.
      destruct (Z.eqb_spec code 0) as [|_]; [contradiction|].
      pose proof (d_bytes_cut 0 m p' (c + 8) al Hm Hp') as E.
      destruct (d_bytes _ _) as [? ?]. exact E.
  - apply strict_prefix_len in Hp. rewrite lenN_le64 in Hp.
    unfold d_rerr, d_u64. cbn [err]. rewrite d_read_short by assumption.
    destruct (_ =? 0)%Z; [reflexivity|].
    rewrite (d_bytes_sticky 0 _ EEof) by reflexivity. reflexivity.
Qed.

Theorem dec_schema_cut cap sch : forall vs p c al,
  Forall2 wf_value sch vs -> strict_prefix p (enc_schema sch vs) ->
  err (snd (dec_schema cap sch (mkD p c None al))) = Some EEof.
Proof.
  induction sch as [|k sch IH]; intros vs p c al H Hp.
  - inversion H; subst. destruct Hp as [s [Hs E]]. cbn in E.
    destruct p, s; try discriminate; contradiction.
  - inversion H as [|? v ? vs' Hv Hvs]; subst.
    cbn [enc_schema] in Hp. cbn [dec_schema].
    apply strict_prefix_app in Hp. destruct Hp as [Hp|[p' [-> Hp']]].
    + pose proof (dec_value_cut cap k v p c al Hv Hp) as E.
      destruct (dec_value cap k _) as [v1 d1]. cbn [snd] in E.
      pose proof (dec_schema_sticky cap sch d1 EEof E) as E2.
      destruct (dec_schema cap sch d1) as [vs2 d2]. cbn [snd] in *.
      now subst d2.
    + destruct (dec_value_exact cap k v p' c al Hv) as [al1 E1]. rewrite E1.
      pose proof (IH vs' p' (c + lenN (enc_value k v)) al1 Hvs Hp') as E.
      destruct (dec_schema cap sch _) as [vs2 d2]. exact E.
Qed.

(** * Totality and bounded allocation, for every input *)

(** [step_ok d d' K]: going from [d] to [d'] did not panic, consumed input
    monotonically and allocated at most four bytes per byte consumed plus
    [K]. *)
Definition step_ok (d d' : dstate) (K : N) : Prop :=
  err d' <> Some EPanic /\
  cnt d <= cnt d' /\
  cnt d' + lenN (inp d') <= cnt d + lenN (inp d) /\
  alloc d' <= alloc d + 4 * (cnt d' - cnt d) + K.

Lemma step_ok_refl d K : err d <> Some EPanic -> step_ok d d K.
Proof. unfold step_ok. intros H. repeat split; try lia; assumption. Qed.

Lemma step_ok_trans d d1 d2 K1 K2 :
  step_ok d d1 K1 -> step_ok d1 d2 K2 -> step_ok d d2 (K1 + K2).
Proof. unfold step_ok. intros (?&?&?&?) (?&?&?&?). repeat split; try lia; assumption. Qed.

Lemma step_ok_weaken d d' K K' : K <= K' -> step_ok d d' K -> step_ok d d' K'.
Proof. unfold step_ok. intros ? (?&?&?&?). repeat split; try lia; assumption. Qed.

Lemma d_read_ok n d :
  err d <> Some EPanic ->
  let r := d_read n d in
  step_ok d (snd r) 0 /\ lenN (fst r) = cnt (snd r) - cnt d
  /\ alloc (snd r) = alloc d.
Proof.
  intros Hp. unfold d_read. destruct (err d) as [e|] eqn:E.
  - cbn [fst snd]. split; [apply step_ok_refl; congruence|]. rewrite lenN_nil.
    split; [lia|reflexivity].
  - destruct (N.leb_spec n (lenN (inp d))) as [H|H]; cbn [fst snd];
      unfold step_ok; cbn [inp cnt err alloc].
    + rewrite lenN_skipn, lenN_firstn by assumption.
      repeat split; try lia; discriminate.
    + rewrite lenN_nil. repeat split; try lia; discriminate.
Qed.

Lemma d_u64_ok d :
  err d <> Some EPanic -> step_ok d (snd (d_u64 d)) 0.
Proof.
  intros Hp. unfold d_u64. destruct (err d) as [e|] eqn:E.
  - cbn [snd]. apply step_ok_refl. congruence.
  - pose proof (d_read_ok 8 d) as H. rewrite E in H.
    destruct (d_read 8 d) as [got d']. apply H. discriminate.
Qed.

Lemma d_u8_ok d :
  err d <> Some EPanic -> step_ok d (snd (d_u8 d)) 0.
Proof.
  intros Hp. unfold d_u8.
  pose proof (d_read_ok 1 d Hp) as H.
  destruct (d_read 1 d) as [got d']. apply H.
Qed.

Lemma d_bytes_ok cap d :
  err d <> Some EPanic ->
  step_ok d (snd (d_bytes cap d)) (alloc_max + 1024).
Proof.
  intros Hp. unfold d_bytes.
  pose proof (d_u64_ok d Hp) as H1.
  destruct (d_u64 d) as [n d1]. cbn [snd] in H1.
  assert (W : step_ok d d1 (alloc_max + 1024))
    by (eapply step_ok_weaken; [|exact H1]; lia).
  destruct (n =? 0); [exact W|].
  destruct (err d1) as [e|] eqn:E1; [exact W|].
  assert (Hp1 : err d1 <> Some EPanic) by congruence.
  destruct (two63 <=? n).
  { cbn [snd]. destruct H1 as (?&?&?&?). unfold step_ok, set_err.
    cbn [inp cnt err alloc]. repeat split; try lia; discriminate. }
  destruct (n <=? cap).
  { pose proof (d_read_ok n d1 Hp1) as [H2 _].
    pose proof (step_ok_trans _ _ _ _ _ H1 H2) as H.
    eapply step_ok_weaken; [|exact H]. lia. }
  destruct (N.leb_spec n alloc_max) as [Hs|Hs].
  - unfold d_make. destruct (N.ltb_spec go_max_alloc n) as [|_]; [lia|].
    cbn [err]. rewrite E1.
    set (d2 := mkD (inp d1) (cnt d1) None (alloc d1 + n)).
    assert (H2 : step_ok d1 d2 alloc_max).
    { unfold step_ok, d2. cbn [inp cnt err alloc].
      repeat split; try lia; discriminate. }
    pose proof (d_read_ok n d2) as [H3 _]; [discriminate|].
    pose proof (step_ok_trans _ _ _ _ _ (step_ok_trans _ _ _ _ _ H1 H2) H3) as H.
    eapply step_ok_weaken; [|exact H]. lia.
  - pose proof (d_read_ok n d1 Hp1) as (H2 & L & A).
    destruct (d_read n d1) as [got d2]. cbn [fst snd] in *.
    destruct H1 as (?&?&?&?). destruct H2 as (?&?&?&?).
    unfold step_ok. cbn [inp cnt err alloc]. repeat split; try lia; assumption.
Qed.

Lemma d_rerr_ok d :
  err d <> Some EPanic ->
  step_ok d (snd (d_rerr d)) (alloc_max + 1024).
Proof.
  intros Hp. unfold d_rerr.
  pose proof (d_u64_ok d Hp) as H1.
  destruct (d_u64 d) as [n d1]. cbn [snd] in H1.
  destruct (_ =? 0)%Z.
  - eapply step_ok_weaken; [|exact H1]. lia.
  - pose proof (d_bytes_ok 0 d1 (proj1 H1)) as H2.
    destruct (d_bytes 0 d1) as [m d2]. cbn [snd] in *.
    pose proof (step_ok_trans _ _ _ _ _ H1 H2) as H.
    eapply step_ok_weaken; [|exact H]. lia.
Qed.

Lemma dec_value_ok cap k d :
  err d <> Some EPanic ->
  step_ok d (snd (dec_value cap k d)) (alloc_max + 1024).
Proof.
  intros Hp. destruct k; cbn [dec_value].
  - pose proof (d_u64_ok d Hp) as H. destruct (d_u64 d).
    eapply step_ok_weaken; [|exact H]. lia.
  - pose proof (d_u64_ok d Hp) as H. destruct (d_u64 d).
    eapply step_ok_weaken; [|exact H]. lia.
  - pose proof (d_bytes_ok 0 d Hp) as H. destruct (d_bytes 0 d). exact H.
  - pose proof (d_bytes_ok cap d Hp) as H. destruct (d_bytes cap d). exact H.
  - apply d_rerr_ok, Hp.
Qed.

Theorem dec_schema_ok cap sch : forall d,
  err d <> Some EPanic ->
  step_ok d (snd (dec_schema cap sch d))
    ((alloc_max + 1024) * N.of_nat (List.length sch)).
Proof.
  induction sch as [|k sch IH]; intros d Hp.
  - cbn. apply step_ok_refl, Hp.
  - cbn [dec_schema].
    pose proof (dec_value_ok cap k d Hp) as H1.
    destruct (dec_value cap k d) as [v d1]. cbn [snd] in H1.
    pose proof (IH d1 (proj1 H1)) as H2.
    destruct (dec_schema cap sch d1) as [vs d2]. cbn [snd] in *.
    pose proof (step_ok_trans _ _ _ _ _ H1 H2) as H.
    eapply step_ok_weaken; [|exact H]. cbn [List.length]. lia.
Qed.

Lemma d_end_step d : err d <> Some EPanic -> step_ok d (d_end d) 0.
Proof.
  intros Hp. unfold d_end. destruct (err d) eqn:E.
  - apply step_ok_refl. congruence.
  - unfold step_ok. cbn [inp cnt err alloc]. rewrite lenN_nil.
    repeat split; try lia. destruct (_ =? 0); discriminate.
Qed.

(** Every schema a request table can return has at most [m] fields. *)
Definition table_bounded (tbl : request_table) (m : N) : Prop :=
  forall t name sch, tbl t = Some (Some (name, sch)) ->
    N.of_nat (List.length sch) <= m.

Theorem start_call_ok tbl m input :
  table_bounded tbl m ->
  let r := start_call alloc_max tbl input in
  fst r <> CErr EPanic /\
  err (snd r) <> Some EPanic /\
  alloc (snd r) <= 4 * lenN input + (alloc_max + 1024) * m.
Proof.
  intros Hm. unfold start_call.
  assert (H0 : err (init input) <> Some EPanic) by discriminate.
  pose proof (d_u64_ok _ H0) as H1.
  destruct (d_u64 (init input)) as [id d1]. cbn [snd] in H1.
  pose proof (d_u8_ok _ (proj1 H1)) as H2.
  destruct (d_u8 d1) as [t d2]. cbn [snd] in H2.
  pose proof (step_ok_trans _ _ _ _ _ H1 H2) as H12.
  assert (Fin : forall d K, step_ok (init input) d K -> K <= (alloc_max + 1024) * m ->
     err d <> Some EPanic /\ alloc d <= 4 * lenN input + (alloc_max + 1024) * m).
  { intros d K (A&B&C&D) HK. cbn [init inp cnt err alloc] in *. split; [assumption|lia]. }
  destruct (err d2) as [e|] eqn:E2.
  - cbn [fst snd]. destruct (Fin d2 _ H12) as [A B]; [lia|].
    repeat split; try assumption. congruence.
  - destruct (tbl t) as [[[name sch]|]|] eqn:Et.
    + pose proof (dec_schema_ok 0 sch d2 (proj1 H12)) as H3.
      destruct (dec_schema 0 sch d2) as [vs d3]. cbn [snd] in H3.
      pose proof (d_end_step d3 (proj1 H3)) as H4.
      pose proof (step_ok_trans _ _ _ _ _ (step_ok_trans _ _ _ _ _ H12 H3) H4) as H.
      specialize (Hm t name sch Et).
      destruct (Fin (d_end d3) _ H) as [A B]; [nia|].
      destruct (err (d_end d3)) eqn:E4; cbn [fst snd];
        repeat split; try assumption; congruence.
    + pose proof (d_end_step d2 (proj1 H12)) as H4.
      pose proof (step_ok_trans _ _ _ _ _ H12 H4) as H.
      destruct (Fin (d_end d2) _ H) as [A B]; [lia|].
      destruct (err (d_end d2)) eqn:E4; cbn [fst snd];
        repeat split; try assumption; congruence.
    + pose proof (d_end_step d2 (proj1 H12)) as H4.
      pose proof (step_ok_trans _ _ _ _ _ H12 H4) as H.
      destruct (Fin (d_end d2) _ H) as [A B]; [lia|].
      cbn [fst snd]. repeat split; try assumption; discriminate.
Qed.

Theorem client_decode_ok cap sch input :
  match client_decode alloc_max cap sch input with
  | (_, Some (_, d)) =>
      err d <> Some EPanic /\
      alloc d <= 4 * lenN input + (alloc_max + 1024) * N.of_nat (List.length sch)
  | (_, None) => True
  end.
Proof.
  unfold client_decode, parse_reply_header.
  assert (H0 : err (init input) <> Some EPanic) by discriminate.
  pose proof (d_u64_ok _ H0) as H1.
  destruct (d_u64 (init input)) as [id d1]. cbn [snd] in H1.
  pose proof (d_u8_ok _ (proj1 H1)) as H2.
  destruct (d_u8 d1) as [t d2]. cbn [snd] in H2.
  pose proof (d_u8_ok _ (proj1 H2)) as H3.
  destruct (d_u8 d2) as [ec d3]. cbn [snd] in H3.
  pose proof (step_ok_trans _ _ _ _ _ (step_ok_trans _ _ _ _ _ H1 H2) H3) as H.
  destruct (err d3) eqn:E3; [exact I|].
  destruct (ec =? 0); [|exact I].
  pose proof (dec_schema_ok cap sch d3 (proj1 H)) as H4.
  destruct (dec_schema cap sch d3) as [vs d4]. cbn [snd] in H4.
  pose proof (step_ok_trans _ _ _ _ _ H H4) as (A&B&C&D).
  cbn [init inp cnt err alloc] in *. split; [assumption|lia].
Qed.

(** * Whole frames *)

Theorem start_call_roundtrip tbl id t name sch vs :
  id < two64 -> t < 256 ->
  tbl t = Some (Some (name, sch)) ->
  Forall2 wf_value sch vs ->
  fst (start_call alloc_max tbl (request_frame id t (enc_schema sch vs)))
  = CReq id t name vs.
Proof.
  intros Hid Ht Htbl Hwf. unfold start_call, request_frame, init.
  rewrite d_u64_exact by assumption.
  unfold d_u8. cbn [app].
  change (t :: enc_schema sch vs) with ([t] ++ enc_schema sch vs).
  change 1 with (lenN [t]). rewrite d_read_exact. cbn [de_bytes err].
  replace (t + 256 * 0) with t by lia. rewrite Htbl.
  rewrite <- (app_nil_r (enc_schema sch vs)).
  destruct (dec_schema_exact 0 sch vs [] (0 + 8 + lenN [t]) 0 Hwf) as [al E].
  rewrite E.
  destruct (err (d_end _)) eqn:Ee; [|reflexivity].
  pose proof (proj2 (d_end_ok [] (0 + 8 + lenN [t] + lenN (enc_schema sch vs)) al) eq_refl).
  congruence.
Qed.

Theorem start_call_tail tbl id t name sch vs extra :
  id < two64 -> t < 256 ->
  tbl t = Some (Some (name, sch)) ->
  Forall2 wf_value sch vs -> extra <> [] ->
  fst (start_call alloc_max tbl (request_frame id t (enc_schema sch vs) ++ extra))
  = CErr (ETail (lenN extra)).
Proof.
  intros Hid Ht Htbl Hwf Hx. unfold start_call, request_frame, init.
  rewrite <- !app_assoc.
  rewrite d_u64_exact by assumption.
  unfold d_u8. cbn [app].
  change (t :: enc_schema sch vs ++ extra) with ([t] ++ enc_schema sch vs ++ extra).
  change 1 with (lenN [t]). rewrite d_read_exact. cbn [de_bytes err].
  replace (t + 256 * 0) with t by lia. rewrite Htbl.
  destruct (dec_schema_exact 0 sch vs extra (0 + 8 + lenN [t]) 0 Hwf) as [al E].
  rewrite E. rewrite d_end_tail by assumption. reflexivity.
Qed.

Theorem start_call_cut tbl id t name sch vs p :
  id < two64 -> t < 256 ->
  tbl t = Some (Some (name, sch)) ->
  Forall2 wf_value sch vs ->
  strict_prefix p (request_frame id t (enc_schema sch vs)) ->
  fst (start_call alloc_max tbl p) = CErr EEof.
Proof.
  intros Hid Ht Htbl Hwf Hp. unfold request_frame in Hp.
  unfold start_call, init.
  apply strict_prefix_app in Hp. destruct Hp as [Hp|[p1 [-> Hp]]].
  { apply strict_prefix_len in Hp. rewrite lenN_le64 in Hp.
    unfold d_u64. cbn [err]. rewrite d_read_short by assumption.
    rewrite (d_u8_sticky _ EEof) by reflexivity. reflexivity. }
  rewrite d_u64_exact by assumption.
  apply strict_prefix_app in Hp. destruct Hp as [Hp|[p2 [-> Hp]]].
  { apply strict_prefix_len in Hp. change (lenN [t]) with 1 in Hp.
    unfold d_u8. rewrite d_read_short by assumption. reflexivity. }
  unfold d_u8. change 1 with (lenN [t]). rewrite d_read_exact.
  cbn [de_bytes err]. replace (t + 256 * 0) with t by lia. rewrite Htbl.
  pose proof (dec_schema_cut 0 sch vs p2 (0 + 8 + lenN [t]) 0 Hwf Hp) as E.
  destruct (dec_schema 0 sch _) as [vs' d3]. cbn [snd] in E.
  unfold d_end. rewrite E. cbn iota. rewrite E. reflexivity.
Qed.

Theorem client_roundtrip cap id t sch vs extra :
  id < two64 -> t < 256 ->
  Forall2 wf_value sch vs ->
  exists d,
    client_decode alloc_max cap sch (reply_frame id t 0 (enc_schema sch vs) ++ extra)
    = (HReply id t, Some (vs, d)) /\ err d = None /\ inp d = extra.
Proof.
  intros Hid Ht Hwf. unfold client_decode, parse_reply_header, reply_frame, init.
  rewrite <- !app_assoc. rewrite d_u64_exact by assumption.
  unfold d_u8. cbn [app].
  change (t :: 0 :: enc_schema sch vs ++ extra)
    with ([t] ++ [0] ++ enc_schema sch vs ++ extra).
  change 1 with (lenN [t]) at 1. rewrite d_read_exact.
  change 1 with (lenN [0]). rewrite d_read_exact.
  cbn [de_bytes err]. replace (t + 256 * 0) with t by lia.
  change (0 + 256 * 0 =? 0) with true. cbn iota.
  destruct (dec_schema_exact cap sch vs extra (0 + 8 + lenN [t] + lenN [0]) 0 Hwf)
    as [al E].
  rewrite E. eexists. split; [reflexivity|]. split; reflexivity.
Qed.

Theorem client_cut cap id t sch vs p :
  id < two64 -> t < 256 ->
  Forall2 wf_value sch vs ->
  strict_prefix p (reply_frame id t 0 (enc_schema sch vs)) ->
  match client_decode alloc_max cap sch p with
  | (HShort _, None) => True
  | (HReply _ _, Some (_, d)) => err d = Some EEof
  | _ => False
  end.
Proof.
  intros Hid Ht Hwf Hp. unfold reply_frame in Hp.
  unfold client_decode, parse_reply_header, init.
  apply strict_prefix_app in Hp. destruct Hp as [Hp|[p1 [-> Hp]]].
  { apply strict_prefix_len in Hp. rewrite lenN_le64 in Hp.
    unfold d_u64. cbn [err]. rewrite d_read_short by assumption.
    rewrite (d_u8_sticky _ EEof) by reflexivity.
    rewrite (d_u8_sticky _ EEof) by reflexivity. exact I. }
  rewrite d_u64_exact by assumption.
  change [t; 0] with ([t] ++ [0]) in Hp. rewrite <- app_assoc in Hp.
  apply strict_prefix_app in Hp. destruct Hp as [Hp|[p2 [-> Hp]]].
  { apply strict_prefix_len in Hp. change (lenN [t]) with 1 in Hp.
    unfold d_u8 at 1. rewrite d_read_short by assumption.
    rewrite (d_u8_sticky _ EEof) by reflexivity. exact I. }
  unfold d_u8 at 1. change 1 with (lenN [t]) at 1. rewrite d_read_exact.
  apply strict_prefix_app in Hp. destruct Hp as [Hp|[p3 [-> Hp]]].
  { apply strict_prefix_len in Hp. change (lenN [0]) with 1 in Hp.
    unfold d_u8. rewrite d_read_short by assumption. exact I. }
  unfold d_u8. change 1 with (lenN [0]). rewrite d_read_exact.
  cbn [de_bytes err]. change (0 + 256 * 0 =? 0) with true. cbn iota.
  pose proof (dec_schema_cut cap sch vs p3 (0 + 8 + lenN [t] + lenN [0]) 0 Hwf Hp) as E.
  destruct (dec_schema cap sch _) as [vs' d3]. exact E.
Qed.

End Proofs.

(** * What the encoder puts on the wire *)

(** The payload bytes of a value (what the caller supplied as data). *)
Definition payload_is_bytes (v : value) : Prop :=
  match v with
  | VBytes b => is_bytes b
  | VErr (Some (_, m)) => is_bytes m
  | _ => True
  end.

Lemma enc_value_is_bytes k v : payload_is_bytes v -> is_bytes (enc_value k v).
Proof.
  intros H. destruct k, v as [n|z|b|[[c m]|]]; cbn [enc_value payload_is_bytes] in *;
    try (apply Forall_nil); try apply le64_is_bytes;
    try (unfold enc_bytes; apply is_bytes_app; split; [apply le64_is_bytes|assumption]).
  destruct (c =? 0)%Z; [apply le64_is_bytes|].
  apply is_bytes_app. split; [apply le64_is_bytes|].
  unfold enc_bytes. apply is_bytes_app. split; [apply le64_is_bytes|assumption].
Qed.

Theorem enc_schema_is_bytes sch : forall vs,
  Forall payload_is_bytes vs -> is_bytes (enc_schema sch vs).
Proof.
  induction sch as [|k sch IH]; intros vs H; [apply Forall_nil|].
  destruct vs as [|v vs]; [apply Forall_nil|].
  inversion H; subst. cbn [enc_schema]. apply is_bytes_app. split.
  - now apply enc_value_is_bytes.
  - now apply IH.
Qed.

(** Size on the wire of one well-formed field: fixed part + payload. *)
Definition wire_size (k : kind) (v : value) : N :=
  match k, v with
  | KU64, VU64 _ | KInt, VInt _ => 8
  | KStr, VBytes b | KBytes, VBytes b => 8 + lenN b
  | KErr, VErr None => 8
  | KErr, VErr (Some (_, m)) => 16 + lenN m
  | _, _ => 0
  end.

Lemma enc_value_size k v : wf_value k v -> lenN (enc_value k v) = wire_size k v.
Proof.
  intros H. destruct k, v as [n|z|b|[[c m]|]]; cbn [wf_value enc_value wire_size] in *;
    try contradiction; unfold enc_bytes; rewrite ?lenN_app, ?lenN_le64; try reflexivity.
  destruct H as (_ & Hnz & _). destruct (Z.eqb_spec c 0); [contradiction|].
  rewrite !lenN_app, !lenN_le64. lia.
Qed.

(** * handleRead and tunnel.Read *)

Theorem handle_read_safe mrs maxRead avail :
  mrs <= go_max_alloc ->
  match handle_read mrs maxRead avail with
  | RPanic => False
  | RErrReply => (maxRead < 0)%Z
  | RRead size n => size <= mrs /\ n <= size /\ n <= avail /\ (0 <= maxRead)%Z
                    /\ size <= Z.to_N maxRead
  end.
Proof.
  intros H. unfold handle_read.
  destruct (Z.ltb_spec maxRead 0); [assumption|].
  destruct (N.ltb_spec go_max_alloc (N.min (Z.to_N maxRead) mrs)); lia.
Qed.

Theorem tunnel_read_fits buflen replylen n :
  tunnel_read_result buflen replylen = Some n -> n <= buflen /\ n = replylen.
Proof.
  unfold tunnel_read_result. destruct (N.ltb_spec buflen replylen); [discriminate|].
  intros [= <-]. lia.
Qed.
