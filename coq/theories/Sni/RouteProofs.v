(** Proofs about the model of Sni/Route.v. *)
From Coq Require Import List NArith Bool String Lia.
From Verif Require Import Lib.Bytes Sni.Wire Sni.Route.
Import ListNotations.
Local Open Scope N_scope.

(** * Suffixes *)

Lemma prefixb_spec p s : prefixb p s = true <-> exists r, s = p ++ r.
Proof.
  revert s; induction p as [|x p IH]; intros s; cbn [prefixb].
  - split; [intros _; exists s; reflexivity|reflexivity].
  - destruct s as [|y s].
    + split; [discriminate|intros [r Hr]; discriminate].
    + rewrite andb_true_iff, IH, N.eqb_eq. split.
      * intros [-> [r ->]]. exists r. reflexivity.
      * intros [r [= -> ->]]. split; [reflexivity|exists r; reflexivity].
Qed.

(** [has_suffix] is strings.HasSuffix. *)
Lemma has_suffix_spec s suf : has_suffix s suf = true <-> exists p, s = p ++ suf.
Proof.
  unfold has_suffix. rewrite prefixb_spec. split.
  - intros [r Hr]. exists (rev r). apply (f_equal (@rev N)) in Hr.
    rewrite rev_involutive, rev_app_distr, rev_involutive in Hr. exact Hr.
  - intros [p ->]. exists (rev p). apply rev_app_distr.
Qed.

Section Route.
Variable is_ip : bytes -> bool.

(** The emitted statements of isRejectedDomain compute the specification. *)
Lemma run_rj_deployed name :
  run_rj is_ip deployed_rj_steps name = Some (is_rejected is_ip deployed_suffixes name).
Proof.
  unfold deployed_rj_steps, is_rejected. cbn [run_rj].
  destruct name as [|c r]; [reflexivity|].
  destruct (is_ip (c :: r)); [reflexivity|]. cbn [orb].
  destruct (existsb _ deployed_suffixes); reflexivity.
Qed.

(** Empty names, IP literals and names under a rejected suffix are rejected
    before any dial: no endpoint is involved. *)
Lemma rejected_names sufs cfg name :
  (name = [] \/ is_ip name = true \/
   exists suf p, In suf sufs /\ name = p ++ bytes_of_string suf) ->
  is_rejected is_ip sufs name = true /\
  decide is_ip sufs cfg name = RRejected /\
  endpoint_dials (decide is_ip sufs cfg name) = [].
Proof.
  intros H. assert (R : is_rejected is_ip sufs name = true).
  { unfold is_rejected. destruct name as [|c r]; [reflexivity|].
    destruct H as [H|[H|(suf & p & Hin & Hs)]]; [discriminate|now rewrite H|].
    apply orb_true_iff. right. apply existsb_exists. exists suf. split; [assumption|].
    apply has_suffix_spec. now exists p. }
  split; [assumption|]. unfold decide. rewrite R. split; reflexivity.
Qed.

(** A connection is handed to endpoint [ep] exactly when its name passes the
    rejection test, the lookup answers with a plain destination, and [ep] is
    what the registry holds under the destination's name at that moment. *)
Lemma deliver_only_selected sufs cfg sni ep n :
  decide is_ip sufs cfg sni = REndpoint ep n <->
  is_rejected is_ip sufs sni = false /\ has_lookup cfg = true /\
  exists d, lookup cfg sni = Some d /\ d_home d = false /\ d_forward d = [] /\
            d_name d = n /\ registry cfg n = Some ep.
Proof.
  unfold decide. split.
  - destruct (is_rejected is_ip sufs sni); [discriminate|].
    destruct (has_lookup cfg); [|discriminate]. cbn [negb].
    destruct (lookup cfg sni) as [d|]; [|discriminate].
    destruct (d_home d) eqn:Eh; [destruct (has_dial_home cfg); discriminate|].
    destruct (d_forward d) eqn:Ef; [|discriminate]. cbn [nonemptyb].
    destruct (registry cfg (d_name d)) as [e|] eqn:Er; [|discriminate].
    intros [= <- <-]. repeat split. exists d. auto.
  - intros (-> & -> & d & -> & -> & -> & <- & ->). reflexivity.
Qed.

(** At most one endpoint is dialled, and only in the case above. *)
Lemma dials_at_most_one sufs cfg sni :
  match endpoint_dials (decide is_ip sufs cfg sni) with
  | [] => forall ep n, decide is_ip sufs cfg sni <> REndpoint ep n
  | [ep] => exists n, decide is_ip sufs cfg sni = REndpoint ep n
  | _ => False
  end.
Proof.
  destruct (decide is_ip sufs cfg sni) eqn:E; cbn [endpoint_dials]; try discriminate.
  eexists. reflexivity.
Qed.

(** Names the lookup refuses, names whose endpoint is not connected, and a
    server without lookup: nothing is dialled. *)
Lemma refused_names sufs cfg sni :
  (has_lookup cfg = false \/ lookup cfg sni = None \/
   exists d, lookup cfg sni = Some d /\ d_home d = false /\ d_forward d = [] /\
             registry cfg (d_name d) = None) ->
  endpoint_dials (decide is_ip sufs cfg sni) = [].
Proof.
  unfold decide. intros H.
  destruct (is_rejected is_ip sufs sni); [reflexivity|].
  destruct H as [->|[H|(d & Hl & Hh & Hf & Hr)]]; [reflexivity| |].
  - destruct (has_lookup cfg); [|reflexivity]. cbn [negb]. now rewrite H.
  - destruct (has_lookup cfg); [|reflexivity]. cbn [negb]. now rewrite Hl, Hh, Hf, Hr.
Qed.

End Route.

(** * The remote address in address-forwarding mode *)

Lemma accepted_addr_forwarded front :
  front <> [] ->
  accepted_remote_addr SidingAddr (request_addr SidingAddr front) = AGiven front.
Proof. intros H. destruct front; [contradiction|reflexivity]. Qed.

Lemma accepted_addr_other m decoded :
  accepted_remote_addr m (request_addr m decoded) =
  match m with
  | Legacy => APipe
  | Siding => AWebsocketPeer
  | SidingAddr => side_conn_addr decoded
  end.
Proof. destruct m; reflexivity. Qed.
