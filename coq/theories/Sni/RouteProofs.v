(** Proofs about the model of Sni/Route.v. *)
From Coq Require Import List NArith Bool String Lia.
From Verif Require Import Lib.Bytes Sni.Wire Sni.Route.
Import ListNotations.
Local Open Scope N_scope.

(** * Suffixes *)

Lemma prefixb_spec p s : prefixb p s = true <-> exists r, s = p ++ r.
Proof.
  revert s; induction p as [|x p IH]; intros s; cbn [prefixb].
  - split; [intros _; exists s; reflexivity|reflexivity].
  - destruct s as [|y s].
    + split; [discriminate|intros [r Hr]; discriminate].
    + rewrite andb_true_iff, IH, N.eqb_eq. split.
      * intros [-> [r ->]]. exists r. reflexivity.
      * intros [r [= -> ->]]. split; [reflexivity|exists r; reflexivity].
Qed.

(** [has_suffix] is strings.HasSuffix. *)
Lemma has_suffix_spec s suf : has_suffix s suf = true <-> exists p, s = p ++ suf.
Proof.
  unfold has_suffix. rewrite prefixb_spec. split.
  - intros [r Hr]. exists (rev r). apply (f_equal (@rev N)) in Hr.
    rewrite rev_involutive, rev_app_distr, rev_involutive in Hr. exact Hr.
  - intros [p ->]. exists (rev p). apply rev_app_distr.
Qed.

Section Route.
Variable is_ip : bytes -> bool.

(** The emitted statements of isRejectedDomain compute the specification. *)
Lemma run_rj_deployed name :
  run_rj is_ip deployed_rj_steps name = Some (is_rejected is_ip deployed_suffixes name).
Proof.
  unfold deployed_rj_steps, is_rejected. cbn [run_rj].
  destruct name as [|c r]; [reflexivity|].
  destruct (is_ip (c :: r)); [reflexivity|]. cbn [orb].
  destruct (existsb _ deployed_suffixes); reflexivity.
Qed.

(** Empty names, IP literals and names under a rejected suffix are rejected
    before any dial: no endpoint is involved. *)
Lemma rejected_names sufs cfg name :
  (name = [] \/ is_ip name = true \/
   exists suf p, In suf sufs /\ name = p ++ bytes_of_string suf) ->
  is_rejected is_ip sufs name = true /\
  decide is_ip sufs cfg name = RRejected /\
  endpoint_dials (decide is_ip sufs cfg name) = [].
Proof.
  intros H. assert (R : is_rejected is_ip sufs name = true).
  { unfold is_rejected. destruct name as [|c r]; [reflexivity|].
    destruct H as [H|[H|(suf & p & Hin & Hs)]]; [discriminate|now rewrite H|].
    apply orb_true_iff. right. apply existsb_exists. exists suf. split; [assumption|].
    apply has_suffix_spec. now exists p. }
  split; [assumption|]. unfold decide. rewrite R. split; reflexivity.
Qed.

(** A connection is handed to endpoint [ep] exactly when its name passes the
    rejection test, the lookup answers with a plain destination and no error,
    and [ep] is what the registry holds under the destination's name at that
    moment. *)
Lemma deliver_only_selected sufs cfg sni ep n :
  decide is_ip sufs cfg sni = REndpoint ep n <->
  is_rejected is_ip sufs sni = false /\ has_lookup cfg = true /\
  exists d, lookup cfg sni = mkLk (Some d) false /\ d_home d = false /\ d_forward d = [] /\
            d_name d = n /\ registry cfg n = Some ep.
Proof.
  unfold decide, decide_dial. split.
  - destruct (is_rejected is_ip sufs sni); [discriminate|].
    destruct (has_lookup cfg); [|discriminate]. cbn [negb].
    destruct (lookup cfg sni) as [[d|] [|]]; cbn [lk_err lk_dest]; try discriminate.
    destruct (d_home d) eqn:Eh; [destruct (has_dial_home cfg); discriminate|].
    destruct (d_forward d) eqn:Ef; [|discriminate]. cbn [nonemptyb].
    destruct (registry cfg (d_name d)) as [e|] eqn:Er; [|discriminate].
    intros [= <- <-]. repeat split. exists d. auto.
  - intros (-> & -> & d & Hl & Hh & Hf & <- & Hr). rewrite Hl. cbn [negb lk_err lk_dest].
    rewrite Hh, Hf. cbn [nonemptyb]. rewrite Hr. reflexivity.
Qed.

(** At most one endpoint is dialled, and only in the case above. *)
Lemma dials_at_most_one sufs cfg sni :
  match endpoint_dials (decide is_ip sufs cfg sni) with
  | [] => forall ep n, decide is_ip sufs cfg sni <> REndpoint ep n
  | [ep] => exists n, decide is_ip sufs cfg sni = REndpoint ep n
  | _ => False
  end.
Proof.
  destruct (decide is_ip sufs cfg sni) eqn:E; cbn [endpoint_dials]; try discriminate.
  eexists. reflexivity.
Qed.

(** Names the lookup refuses (an error, with or without a destination next
    to it), names for which it has neither, names whose endpoint is not
    connected, and a server without lookup: nothing is dialled - no endpoint,
    no home, no forward. *)
Lemma refused_names sufs cfg sni :
  (has_lookup cfg = false \/ lk_err (lookup cfg sni) = true \/ lk_dest (lookup cfg sni) = None \/
   exists d, lk_dest (lookup cfg sni) = Some d /\ d_home d = false /\ d_forward d = [] /\
             registry cfg (d_name d) = None) ->
  endpoint_dials (decide is_ip sufs cfg sni) = [] /\
  served (decide is_ip sufs cfg sni) = false /\
  refusal (decide is_ip sufs cfg sni) = true.
Proof.
  unfold decide, decide_dial. intros H.
  destruct (is_rejected is_ip sufs sni); [repeat split|].
  destruct (has_lookup cfg); [|repeat split]. cbn [negb].
  destruct H as [H|[H|[H|(d & Hl & Hh & Hf & Hr)]]]; [discriminate| | |].
  - rewrite H. repeat split.
  - destruct (lk_err (lookup cfg sni)); [repeat split|]. rewrite H. repeat split.
  - destruct (lk_err (lookup cfg sni)); [repeat split|]. rewrite Hl, Hh, Hf, Hr. repeat split.
Qed.

(** Every route of the closed form is a refusal or serves the connection;
    it never crashes - for all four shapes of the lookup result. *)
Lemma decide_total sufs cfg sni :
  crashes (decide is_ip sufs cfg sni) = false /\
  refusal (decide is_ip sufs cfg sni) = negb (served (decide is_ip sufs cfg sni)).
Proof.
  unfold decide, decide_dial.
  destruct (is_rejected is_ip sufs sni); [split; reflexivity|].
  destruct (has_lookup cfg); [|split; reflexivity]. cbn [negb].
  destruct (lk_err (lookup cfg sni)); [split; reflexivity|].
  destruct (lk_dest (lookup cfg sni)) as [d|]; [|split; reflexivity].
  destruct (d_home d); [destruct (has_dial_home cfg); split; reflexivity|].
  destruct (nonemptyb (d_forward d)); [split; reflexivity|].
  destruct (registry cfg (d_name d)); split; reflexivity.
Qed.

(** A served connection: the lookup gave a destination and no error. *)
Lemma served_only_without_error sufs cfg sni :
  served (decide is_ip sufs cfg sni) = true ->
  is_rejected is_ip sufs sni = false /\ has_lookup cfg = true /\
  lk_err (lookup cfg sni) = false /\ exists d, lk_dest (lookup cfg sni) = Some d.
Proof.
  unfold decide, decide_dial.
  destruct (is_rejected is_ip sufs sni); [discriminate|].
  destruct (has_lookup cfg); [|discriminate]. cbn [negb].
  destruct (lk_err (lookup cfg sni)); [discriminate|].
  destruct (lk_dest (lookup cfg sni)) as [d|]; [|discriminate].
  intros _. repeat split. now exists d.
Qed.

(** ** The emitted statements *)

(** The deployed statement list computes the closed form. *)
Lemma run_dial_deployed cfg sni :
  run_dial cfg sni deployed_dial_steps st0 = decide_dial cfg sni.
Proof.
  unfold deployed_dial_steps, decide_dial. cbn [run_dial].
  destruct (has_lookup cfg); [|reflexivity]. cbn [negb st_looked st_dest st_err st_ep st0].
  destruct (lookup cfg sni) as [[d|] [|]]; cbn [lk_dest lk_err is_some negb eval_cond run_body route_of_exit];
    try reflexivity.
  destruct (d_home d); [reflexivity|]. destruct (nonemptyb (d_forward d)); [reflexivity|].
  cbn [st_looked st_dest st_err st_ep negb].
  destruct (registry cfg (d_name d)); cbn [is_some negb eval_cond run_body route_of_exit st_dest]; reflexivity.
Qed.

Lemma run_host_deployed cfg sni :
  run_host is_ip deployed_rj_steps deployed_dial_steps cfg sni = decide is_ip deployed_suffixes cfg sni.
Proof.
  unfold run_host, decide. rewrite run_rj_deployed.
  destruct (is_rejected is_ip deployed_suffixes sni); [reflexivity|apply run_dial_deployed].
Qed.

(** ** hostConn: every return before the join *)

Lemma decide_dial_total cfg sni : crashes (decide_dial cfg sni) = false.
Proof.
  unfold decide_dial. destruct (has_lookup cfg); [|reflexivity]. cbn [negb].
  destruct (lk_err (lookup cfg sni)); [reflexivity|].
  destruct (lk_dest (lookup cfg sni)) as [d|]; [|reflexivity].
  destruct (d_home d); [destruct (has_dial_home cfg); reflexivity|].
  destruct (nonemptyb (d_forward d)); [reflexivity|].
  destruct (registry cfg (d_name d)); reflexivity.
Qed.

(** The closed form of the deployed hostConn: the front connection is always
    closed on return; the dialer is called only for a sniffed name that is
    not rejected; the connection is joined - bytes flow - only if the route
    selects a destination and the dial succeeds; a dialled connection is
    closed again. *)
Definition front_spec (sufs : list string) (cfg : server_cfg) (sniff : option bytes) (dial_ok : bool)
  : front_out :=
  match sniff with
  | None => mkOut true None false false
  | Some name =>
      if is_rejected is_ip sufs name then mkOut true None false false
      else let rt := decide_dial cfg name in
           mkOut true (Some rt) (served rt && dial_ok) (served rt && dial_ok)
  end.

Lemma run_front_deployed cfg sniff dial_ok :
  run_front is_ip deployed_rj_steps deployed_dial_steps cfg sniff dial_ok deployed_host_steps hs0
  = FOut (front_spec deployed_suffixes cfg sniff dial_ok).
Proof.
  unfold deployed_host_steps, front_spec. cbn [run_front hs0 hs_sniffed hs_err hs_defer_front hs_dial
    hs_remote hs_closer hs_defer_remote].
  destruct sniff as [name|]; cbn [is_some negb]; [|reflexivity].
  rewrite run_rj_deployed. destruct (is_rejected is_ip deployed_suffixes name); [reflexivity|].
  rewrite run_dial_deployed, decide_dial_total.
  cbn [run_front hs_sniffed hs_err hs_defer_front hs_dial hs_remote hs_closer hs_defer_remote].
  destruct (served (decide_dial cfg name) && dial_ok) eqn:E; cbn [negb]; unfold ret_out;
    cbn [hs_defer_front hs_dial hs_remote hs_defer_remote orb andb]; reflexivity.
Qed.

Lemma front_spec_props sufs cfg sniff dial_ok :
  let o := front_spec sufs cfg sniff dial_ok in
  fo_front_closed o = true /\
  (fo_joined o = true <->
     exists name, sniff = Some name /\ served (decide is_ip sufs cfg name) = true /\ dial_ok = true) /\
  ((sniff = None \/ exists name, sniff = Some name /\ is_rejected is_ip sufs name = true) ->
     fo_dial o = None /\ fo_joined o = false) /\
  fo_remote_closed o = fo_joined o.
Proof.
  unfold front_spec, decide. destruct sniff as [name|].
  - destruct (is_rejected is_ip sufs name) eqn:R; cbn [fo_front_closed fo_joined fo_dial fo_remote_closed].
    + repeat split; try discriminate.
      intros (n & [= <-] & H & _). rewrite R in H. discriminate.
    + split; [reflexivity|]. split; [|split; [|reflexivity]].
      * split.
        -- intros H. apply andb_true_iff in H. destruct H as [H1 H2]. exists name. rewrite R. auto.
        -- intros (n & [= <-] & H & ->). rewrite R in H. rewrite H. reflexivity.
      * intros [H|(n & [= <-] & H)]; [discriminate|]. rewrite R in H. discriminate.
  - cbn [fo_front_closed fo_joined fo_dial fo_remote_closed]. repeat split; try discriminate.
    intros (n & H & _). discriminate.
Qed.

(** ** Exact registry *)

Lemma beqb_true_eq a : forall b, beqb a b = true -> a = b.
Proof.
  induction a as [|x a IH]; intros [|y b]; cbn; try discriminate; [reflexivity|].
  intros H. apply andb_true_iff in H. destruct H as [H1 H2]. apply N.eqb_eq in H1. subst. f_equal. auto.
Qed.

Lemma reg_exact_none l n : ~ In n (map fst l) -> reg_exact l n = None.
Proof.
  induction l as [|[k e] r IH]; intros H; [reflexivity|]. cbn [reg_exact].
  destruct (beqb n k) eqn:E.
  - apply beqb_true_eq in E. exfalso. apply H. left. symmetry. exact E.
  - apply IH. intros Hin. apply H. right. exact Hin.
Qed.

(** Whatever else is registered - names that differ from it in letter case
    included - a destination name under which no endpoint registered with
    exactly these bytes is a name whose endpoint is not connected: the
    connection is refused, nothing is dialled. *)
Lemma unconnected_name_never_served_by_a_variant sufs has_home lk l sni d :
  lk sni = mkLk (Some d) false -> d_home d = false -> d_forward d = [] ->
  ~ In (d_name d) (map fst l) ->
  let r := decide is_ip sufs (mkCfg true lk has_home (reg_exact l)) sni in
  endpoint_dials r = [] /\ served r = false /\ refusal r = true.
Proof.
  intros Hl Hh Hf Hn. apply refused_names. right. right. right. exists d. cbn [lookup registry].
  rewrite Hl. cbn [lk_dest]. repeat split; auto. apply reg_exact_none. exact Hn.
Qed.

(** ** Histories *)

(** With config.Lookup itself in s.lookup, every dial of every history - any
    sequence of changes of the lookup's answers, of the registry, and of
    front connections - is routed by the lookup's answer and the registry at
    that very dial. *)
Lemma routed_by_lookup_at_dial_time has_lk has_home : forall evs lk reg memo,
  run_hist is_ip LDirect deployed_rj_steps deployed_dial_steps has_lk has_home lk reg memo evs
  = spec_hist is_ip deployed_suffixes has_lk has_home lk reg evs.
Proof.
  induction evs as [|e r IH]; intros lk reg memo; [reflexivity|].
  destruct e as [f|g|sni]; cbn [run_hist spec_hist stored_lookup].
  - apply IH.
  - apply IH.
  - rewrite run_host_deployed, IH. reflexivity.
Qed.

(** A server that remembers successful answers: the name is first answered
    with endpoint 1, then the lookup refuses it - and the second connection is
    still handed to endpoint 1; it moves to endpoint 2 - still endpoint 1. *)
Definition memo_history (d a b : bytes) : list hevent :=
  [ EvLookup (fun x => if beqb x d then mkLk (Some (mkDest a false [])) false else mkLk None true);
    EvDial d;
    EvLookup (fun _ => mkLk None true);
    EvDial d;
    EvLookup (fun x => if beqb x d then mkLk (Some (mkDest b false [])) false else mkLk None true);
    EvDial d ].

(** Generic over emitted lists: if the lookup is followed by a guard that
    fires whenever err != nil and whose body returns a non-nil error, then a
    name for which the lookup returns an error - with or without a *Dest - is
    refused: the route is an error return, nothing is served, nothing crashes. *)
Lemma route_of_exit_refusal st x : refusal (route_of_exit st (Some x)) = true.
Proof. destruct x; reflexivity. Qed.

Lemma lookup_error_always_refuses steps cfg sni :
  lookup_err_guarded steps = true ->
  has_lookup cfg = true ->
  lk_err (lookup cfg sni) = true ->
  refusal (run_dial cfg sni steps st0) = true /\
  served (run_dial cfg sni steps st0) = false /\
  endpoint_dials (run_dial cfg sni steps st0) = [].
Proof.
  intros G HL HE.
  assert (R : refusal (run_dial cfg sni steps st0) = true).
  { induction steps as [|s r IH]; [discriminate|].
    destruct s; cbn [lookup_err_guarded] in G; try discriminate.
    - cbn [run_dial]. rewrite HL. cbn [negb]. auto.
    - cbn [run_dial]. auto.
    - destruct r as [|[| | |c b| | | |] r']; try discriminate.
      apply andb_true_iff in G. destruct G as [Gc Gb].
      cbn [run_dial]. rewrite HL, HE. cbn [st_looked st_dest st_err st_ep negb is_some].
      unfold cond_when_err in Gc. unfold refusing_body in Gb. cbn [forallb] in Gc, Gb.
      apply andb_true_iff in Gc. destruct Gc as [Gc1 Gc2]. apply andb_true_iff in Gc2. destruct Gc2 as [Gc2 _].
      apply andb_true_iff in Gb. destruct Gb as [Gb1 Gb2]. apply andb_true_iff in Gb2. destruct Gb2 as [Gb2 _].
      destruct (lk_dest (lookup cfg sni)) as [d|]; cbn [is_some negb].
      + destruct (eval_cond false false c) as [[|]|]; try discriminate.
        destruct (run_body false (Some FromLookup) b) as [|[x|]|]; try discriminate.
        apply route_of_exit_refusal.
      + destruct (eval_cond true false c) as [[|]|]; try discriminate.
        destruct (run_body true (Some FromLookup) b) as [|[x|]|]; try discriminate.
        apply route_of_exit_refusal. }
  split; [exact R|].
  destruct (run_dial cfg sni steps st0); try discriminate; repeat split.
Qed.

(** The predicate is not vacuous and not trivial: it holds for the deployed
    list, and fails for a list that tests the destination instead of the
    error (a lookup returning a destination together with an error would be
    served). *)
Lemma deployed_lookup_err_guarded : lookup_err_guarded deployed_dial_steps = true.
Proof. reflexivity. Qed.

Definition dest_tested_steps : list dial_step :=
  [ DNoLookup; DDomain; DLookup;
    DGuard CDestNil (BIf CErrNil (BSetErrNotFound BEnd) (BRet XErr));
    DHomeForward; DEndpoint; DGuard CErrNonNil (BRet XAnnotErr); DDial ].

Lemma dest_tested_not_guarded : lookup_err_guarded dest_tested_steps = false.
Proof. reflexivity. Qed.

Lemma dest_tested_serves_refused_name cfg sni d ep :
  has_lookup cfg = true -> lookup cfg sni = mkLk (Some d) true ->
  d_home d = false -> d_forward d = [] -> registry cfg (d_name d) = Some ep ->
  run_dial cfg sni dest_tested_steps st0 = REndpoint ep (d_name d).
Proof.
  intros HL Hlk Hh Hf Hr. unfold dest_tested_steps. cbn [run_dial]. rewrite HL, Hlk.
  cbn [negb lk_dest lk_err st_looked st_dest st_err st_ep is_some eval_cond].
  rewrite Hh, Hf. cbn [nonemptyb st_looked st_dest st_err st_ep negb]. rewrite Hr.
  reflexivity.
Qed.

End Route.

(** * The remote address in address-forwarding mode *)

Lemma accepted_addr_forwarded front :
  front <> [] ->
  accepted_remote_addr SidingAddr (request_addr SidingAddr front) = AGiven front.
Proof. intros H. destruct front; [contradiction|reflexivity]. Qed.

Lemma accepted_addr_other m decoded :
  accepted_remote_addr m (request_addr m decoded) =
  match m with
  | Legacy => APipe
  | Siding => AWebsocketPeer
  | SidingAddr => side_conn_addr decoded
  end.
Proof. destruct m; reflexivity. Qed.
