(** Interleaving model of the blocking structure of the sniproxy RPC client
    transport (sniproxy/transport.go: serve, its deferred exit, serveRead /
    handleMessage's hand-off, asyncCall, call) for C04: who can be left
    waiting on what after the serve loop has exited.

    Threads: the serve loop, the reader, and any number of callers.  A caller
    is one invocation of [transport.call]; it has a context that is never
    cancelled (tunnel operations use context.TODO()), cancellable, or already
    fired, and it may be the first half of netutil.JoinConn's [closeAll]
    (tunnel.Close, then closing the front connection).

    The select statements of callers and reader are NOT hard-wired: the list
    of arms of each is a parameter ([cfg]), instantiated from the skeleton
    regenerated from /repo (ShutdownGen.v) and, for the refuted legacy shape,
    from the pinned tree.  An arm on a channel the semantics does not know is
    never enabled.

    Definitions only; proofs are in ShutdownProofs.v. *)
From Coq Require Import List NArith Bool String.
From Verif Require Import Sni.SchedSkel.
Import ListNotations.
Local Open Scope N_scope.

Record cfg := mkCfg {
  enq_arms : list arm;      (* asyncCall: the select that enqueues the call *)
  wait_arms : list arm;     (* call: the select that waits for completion *)
  fsend_arms : list arm;    (* handleMessage: handing a fetch request to serve *)
  frecv_arms : list arm;    (* handleMessage: waiting for serve's answer *)
  box_arms : list arm;      (* connMailBox.receive: a side dial waiting for its side connection *)
  calls_cap : N;            (* cap(tr.calls) *)
  fetch_cap : N             (* cap(tr.pendingFetch) *)
}.

Inductive sstate :=
| SRun        (* in the for/select loop *)
| SFailing    (* returned from the loop; the deferred loop over pending has not run *)
| SClosing    (* pending failed; close(serveDone) has not run *)
| SDone.      (* serveDone is closed *)

Inductive ctxk := CtxNever | CtxOpen | CtxFired.

Inductive cpc :=
| CStart      (* in asyncCall, before the shutdown check *)
| CEnq        (* at the enqueue select *)
| CWait       (* at the wait select *)
| CBox        (* side dial only: the call succeeded; waiting in connMailBox.receive *)
| CRet        (* call returned *)
| CFront.     (* closeAll only: the front connection has been closed *)

Record caller := mkCaller {
  c_ctx : ctxk;
  c_pc : cpc;
  c_sd : bool;        (* a msgShutdown call *)
  c_closeall : bool;  (* tunnel.Close inside closeAll: the front conn is closed after it returns *)
  c_side : bool       (* endpointClient.Dial in a side mode: after the call, wait for the side connection *)
}.

Inductive rstate :=
| RIdle                          (* in conn.NextReader *)
| RSend (c : N) (good : bool)    (* got a reply addressed to call c; at the fetch-send point *)
| RRecv (c : N) (good : bool)    (* waiting for serve's answer *)
| RHave (c : option N) (good : bool)   (* got the exchange (or nil); type matches iff good *)
| RExit.                         (* serveRead returned *)

Record state := mkState {
  serve : sstate;
  sigc : bool;              (* shutdownSignal closed *)
  shutc : bool;             (* serve's shutdownCalled *)
  queue : list N;           (* tr.calls *)
  pend : list N;            (* serve's pending table *)
  donec : list N;           (* exchanges whose done() has run *)
  fetchq : list N;          (* tr.pendingFetch *)
  reader : rstate;
  readerr : bool;           (* readErr holds a value *)
  taken : list N;           (* ghost: calls serve has received from tr.calls *)
  dropped : list N;         (* ghost: exchanges removed by a mistyped reply *)
  callers : list (N * caller);
  okc : list N;             (* exchanges completed by a matching reply (done() with err == nil) *)
  delivered : list N        (* side dials whose side connection has been put into their mailbox *)
}.

Definition init : state :=
  mkState SRun false false [] [] [] [] RIdle false [] [] [] [] [].

Fixpoint getc (c : N) (l : list (N * caller)) : option caller :=
  match l with
  | [] => None
  | (c', x) :: r => if c =? c' then Some x else getc c r
  end.

Fixpoint setc (c : N) (x : caller) (l : list (N * caller)) : list (N * caller) :=
  match l with
  | [] => [(c, x)]
  | (c', y) :: r => if c =? c' then (c, x) :: r else (c', y) :: setc c x r
  end.

Definition mem (c : N) (l : list N) : bool := existsb (N.eqb c) l.

Fixpoint rem (c : N) (l : list N) : list N :=
  match l with
  | [] => []
  | x :: r => if c =? x then rem c r else x :: rem c r
  end.

Definition lenN {A} (l : list A) : N := N.of_nat (List.length l).

Inductive action :=
| ANew (c : N) (k : ctxk) (sd closeall side : bool)   (* a goroutine enters transport.call *)
| ABox (c : N) (i : nat)    (* side dial: arm i of connMailBox.receive's select fires *)
| ADeliver (c : N)          (* serveBackSide delivers the side connection for dial c *)
| ACheck (c : N)            (* asyncCall's shutdown handling *)
| AEnq (c : N) (i : nat)    (* arm i of the enqueue select fires *)
| AWait (c : N) (i : nat)   (* arm i of the wait select fires *)
| AFront (c : N)            (* closeAll closes the front connection *)
| ACancel (c : N)           (* the caller's context is cancelled / times out *)
| ATake (ok : bool)         (* serve: receive from tr.calls; [ok]: the websocket write succeeded *)
| AFetch                    (* serve: receive a fetch request and answer the reader *)
| AReadErrS                 (* serve: receive from readErr and return *)
| AFail                     (* serve's deferred loop: fail everything pending *)
| ACloseDone                (* serve's deferred close(tr.serveDone) *)
| AFrame (c : N) (good : bool)   (* reader: a reply frame addressed to call c arrives *)
| ARSend (i : nat)          (* reader: arm i of the fetch-send select fires *)
| ARRecv (i : nat)          (* reader: arm i of the fetch-recv select fires, other than the answer itself *)
| ARDone                    (* reader: finishes handleMessage (done() on a matching exchange) *)
| AReaderStop.              (* reader: NextReader fails, or handleMessage returns an error: serveRead returns *)


Section WithCfg.
Variable g : cfg.

Local Open Scope string_scope.

(** Is the channel operation of an arm possible right now, for the caller
    [x] whose exchange is [c]?  Arms on channels the model does not know are
    never ready. *)
Definition caller_arm_ready (s : state) (c : N) (x : caller) (a : arm) : bool :=
  match a with
  | ARecv ch =>
      if String.eqb ch "ctx.Done()" then
        match c_ctx x with CtxFired => true | _ => false end
      else if String.eqb ch "tr.serveDone" then
        match serve s with SDone => true | _ => false end
      else if String.eqb ch "done" then mem c (donec s)
      else if String.eqb ch "b.ch" then mem c (delivered s)
      else if String.eqb ch "gone" then
        match serve s with SDone => true | _ => false end
      else false            (* "b.closed": only the dial's own clean-up closes it *)
  | ASend ch =>
      if String.eqb ch "tr.calls" then (lenN (queue s) <? calls_cap g)%N else false
  | ADefault => true
  | AUnknown _ => false
  end.

Definition reader_arm_ready (s : state) (a : arm) : bool :=
  match a with
  | ARecv ch =>
      if String.eqb ch "tr.serveDone" then
        match serve s with SDone => true | _ => false end
      else false            (* "ch": the answer itself is serve's AFetch step *)
  | ASend ch =>
      if String.eqb ch "tr.pendingFetch" then (lenN (fetchq s) <? fetch_cap g)%N else false
  | ADefault => true
  | AUnknown _ => false
  end.

Local Close Scope string_scope.

Definition set_caller (c : N) (x : caller) (s : state) : state :=
  mkState (serve s) (sigc s) (shutc s) (queue s) (pend s) (donec s) (fetchq s)
          (reader s) (readerr s) (taken s) (dropped s) (setc c x (callers s))
          (okc s) (delivered s).

Definition with_pc (x : caller) (p : cpc) : caller :=
  mkCaller (c_ctx x) p (c_sd x) (c_closeall x) (c_side x).

Definition is_send (a : arm) : bool :=
  match a with ASend _ => true | _ => false end.

Definition is_ctx_arm (a : arm) : bool :=
  match a with ARecv ch => String.eqb ch "ctx.Done()" | _ => false end.

Definition is_sd (s : state) (c : N) : bool :=
  match getc c (callers s) with Some x => c_sd x | None => false end.

(** One step; [None] when the action is not enabled. *)
Definition step (s : state) (a : action) : option state :=
  match a with
  | ANew c k sd ca sidef =>
      match getc c (callers s) with
      | Some _ => None
      | None => Some (set_caller c (mkCaller k CStart sd ca sidef) s)
      end
  | ABox c i =>
      match getc c (callers s) with
      | Some x =>
          match c_pc x, nth_error (box_arms g) i with
          | CBox, Some a =>
              if caller_arm_ready s c x a && negb (is_send a)
              then Some (set_caller c (with_pc x CRet) s) else None
          | _, _ => None
          end
      | None => None
      end
  | ADeliver c =>
      Some (mkState (serve s) (sigc s) (shutc s) (queue s) (pend s) (donec s) (fetchq s)
                    (reader s) (readerr s) (taken s) (dropped s) (callers s) (okc s)
                    (c :: delivered s))
  | ACheck c =>
      match getc c (callers s) with
      | Some x =>
          match c_pc x with
          | CStart =>
              if c_sd x then
                (* shutdownOnce.Do(close(shutdownSignal)) *)
                if sigc s then Some (set_caller c (with_pc x CRet) s)
                else Some (set_caller c (with_pc x CEnq)
                             (mkState (serve s) true (shutc s) (queue s) (pend s) (donec s)
                                      (fetchq s) (reader s) (readerr s) (taken s) (dropped s)
                                      (callers s) (okc s) (delivered s)))
              else if sigc s then Some (set_caller c (with_pc x CRet) s)
              else Some (set_caller c (with_pc x CEnq) s)
          | _ => None
          end
      | None => None
      end
  | AEnq c i =>
      match getc c (callers s) with
      | Some x =>
          match c_pc x, nth_error (enq_arms g) i with
          | CEnq, Some a =>
              if caller_arm_ready s c x a then
                if is_send a then
                  Some (set_caller c (with_pc x CWait)
                          (mkState (serve s) (sigc s) (shutc s) (queue s ++ [c]) (pend s) (donec s)
                                   (fetchq s) (reader s) (readerr s) (taken s) (dropped s)
                                   (callers s) (okc s) (delivered s)))
                else Some (set_caller c (with_pc x CRet) s)
              else None
          | _, _ => None
          end
      | None => None
      end
  | AWait c i =>
      match getc c (callers s) with
      | Some x =>
          match c_pc x, nth_error (wait_arms g) i with
          | CWait, Some a =>
              if caller_arm_ready s c x a && negb (is_send a)
              then
                (* call() returns nil iff done() ran with a nil error (also when it
                   notices serveDone first: it re-checks done); ctx.Done wins as an error *)
                if c_side x && mem c (okc s) && negb (is_ctx_arm a)
                then Some (set_caller c (with_pc x CBox) s)
                else Some (set_caller c (with_pc x CRet) s)
              else None
          | _, _ => None
          end
      | None => None
      end
  | AFront c =>
      match getc c (callers s) with
      | Some x =>
          match c_pc x with
          | CRet => if c_closeall x then Some (set_caller c (with_pc x CFront) s) else None
          | _ => None
          end
      | None => None
      end
  | ACancel c =>
      match getc c (callers s) with
      | Some x =>
          match c_ctx x with
          | CtxOpen => Some (set_caller c (mkCaller CtxFired (c_pc x) (c_sd x) (c_closeall x) (c_side x)) s)
          | _ => None
          end
      | None => None
      end
  | ATake ok =>
      match serve s, queue s with
      | SRun, c :: rest =>
          let sd := is_sd s c in
          if shutc s then
            Some (mkState SRun (sigc s) true rest (pend s) (c :: donec s) (fetchq s)
                          (reader s) (readerr s) (c :: taken s) (dropped s) (callers s) (okc s) (delivered s))
          else if ok then
            Some (mkState SRun (sigc s) sd rest (c :: rem c (pend s)) (donec s) (fetchq s)
                          (reader s) (readerr s) (c :: taken s) (dropped s) (callers s) (okc s) (delivered s))
          else
            Some (mkState SFailing (sigc s) sd rest (pend s) (c :: donec s) (fetchq s)
                          (reader s) (readerr s) (c :: taken s) (dropped s) (callers s) (okc s) (delivered s))
      | _, _ => None
      end
  | AFetch =>
      match serve s, fetchq s, reader s with
      | SRun, c :: rest, RRecv c' good =>
          if c =? c' then
            let found := mem c (pend s) in
            Some (mkState SRun (sigc s) (shutc s) (queue s) (rem c (pend s)) (donec s) rest
                          (RHave (if found then Some c else None) good) (readerr s) (taken s)
                          (if found && negb good then c :: dropped s else dropped s) (callers s) (okc s) (delivered s))
          else None
      | _, _, _ => None
      end
  | AReadErrS =>
      match serve s with
      | SRun =>
          if readerr s then
            Some (mkState SFailing (sigc s) (shutc s) (queue s) (pend s) (donec s) (fetchq s)
                          (reader s) false (taken s) (dropped s) (callers s) (okc s) (delivered s))
          else None
      | _ => None
      end
  | AFail =>
      match serve s with
      | SFailing =>
          Some (mkState SClosing (sigc s) (shutc s) (queue s) [] (pend s ++ donec s) (fetchq s)
                        (reader s) (readerr s) (taken s) (dropped s) (callers s) (okc s) (delivered s))
      | _ => None
      end
  | ACloseDone =>
      match serve s with
      | SClosing =>
          Some (mkState SDone (sigc s) (shutc s) (queue s) (pend s) (donec s) (fetchq s)
                        (reader s) (readerr s) (taken s) (dropped s) (callers s) (okc s) (delivered s))
      | _ => None
      end
  | AFrame c good =>
      match reader s with
      | RIdle =>
          Some (mkState (serve s) (sigc s) (shutc s) (queue s) (pend s) (donec s) (fetchq s)
                        (RSend c good) (readerr s) (taken s) (dropped s) (callers s) (okc s) (delivered s))
      | _ => None
      end
  | ARSend i =>
      match reader s, nth_error (fsend_arms g) i with
      | RSend c good, Some a =>
          if reader_arm_ready s a then
            if is_send a then
              Some (mkState (serve s) (sigc s) (shutc s) (queue s) (pend s) (donec s)
                            (fetchq s ++ [c]) (RRecv c good) (readerr s) (taken s) (dropped s)
                            (callers s) (okc s) (delivered s))
            else
              (* gives up: handleMessage returns an error, serveRead returns *)
              Some (mkState (serve s) (sigc s) (shutc s) (queue s) (pend s) (donec s) (fetchq s)
                            RExit true (taken s) (dropped s) (callers s) (okc s) (delivered s))
          else None
      | _, _ => None
      end
  | ARRecv i =>
      match reader s, nth_error (frecv_arms g) i with
      | RRecv c good, Some a =>
          if reader_arm_ready s a && negb (is_send a) then
            Some (mkState (serve s) (sigc s) (shutc s) (queue s) (pend s) (donec s) (fetchq s)
                          RExit true (taken s) (dropped s) (callers s) (okc s) (delivered s))
          else None
      | _, _ => None
      end
  | ARDone =>
      match reader s with
      | RHave (Some c) true =>
          (* done(); the reply to a msgShutdown call ends serveRead (io.EOF) *)
          if is_sd s c then
            Some (mkState (serve s) (sigc s) (shutc s) (queue s) (pend s) (c :: donec s) (fetchq s)
                          RExit true (taken s) (dropped s) (callers s) (c :: okc s) (delivered s))
          else
            Some (mkState (serve s) (sigc s) (shutc s) (queue s) (pend s) (c :: donec s) (fetchq s)
                          RIdle (readerr s) (taken s) (dropped s) (callers s) (c :: okc s) (delivered s))
      | RHave _ _ =>
          Some (mkState (serve s) (sigc s) (shutc s) (queue s) (pend s) (donec s) (fetchq s)
                        RIdle (readerr s) (taken s) (dropped s) (callers s) (okc s) (delivered s))
      | _ => None
      end
  | AReaderStop =>
      match reader s with
      | RIdle =>
          Some (mkState (serve s) (sigc s) (shutc s) (queue s) (pend s) (donec s) (fetchq s)
                        RExit true (taken s) (dropped s) (callers s) (okc s) (delivered s))
      | _ => None
      end
  end.

Fixpoint exec (s : state) (acts : list action) : option state :=
  match acts with
  | [] => Some s
  | a :: r => match step s a with Some s' => exec s' r | None => None end
  end.

Definition reachable (s : state) : Prop := exists acts, exec init acts = Some s.

Definition reachable_from (s s' : state) : Prop := exists acts, exec s acts = Some s'.

(** A caller at a select is enabled iff one of the arms is ready. *)
Definition caller_enabled (s : state) (c : N) : bool :=
  match getc c (callers s) with
  | Some x =>
      match c_pc x with
      | CStart => true
      | CEnq => existsb (caller_arm_ready s c x) (enq_arms g)
      | CWait => existsb (fun a => caller_arm_ready s c x a && negb (is_send a)) (wait_arms g)
      | CBox => existsb (fun a => caller_arm_ready s c x a && negb (is_send a)) (box_arms g)
      | CRet => c_closeall x
      | CFront => false
      end
  | None => false
  end.

(** Own steps a caller still has to take at most before [call] has returned
    (and, for closeAll, the front connection is closed). *)
Definition measure (x : caller) : nat :=
  match c_pc x with
  | CStart => 5
  | CEnq => 4
  | CWait => 3
  | CBox => 2
  | CRet => if c_closeall x then 1 else 0
  | CFront => 0
  end.

Definition finished (x : caller) : bool :=
  match c_pc x with
  | CRet => negb (c_closeall x)
  | CFront => true
  | _ => false
  end.

Definition is_caller_step (c : N) (a : action) : bool :=
  match a with
  | ACheck c' | AEnq c' _ | AWait c' _ | AFront c' | ABox c' _ => c =? c'
  | _ => false
  end.

Definition reader_enabled (s : state) : bool :=
  match reader s with
  | RIdle => true              (* blocked in the network read: ends when the connection ends *)
  | RSend _ _ => existsb (reader_arm_ready s) (fsend_arms g)
  | RRecv c _ =>
      existsb (fun a => reader_arm_ready s a && negb (is_send a)) (frecv_arms g) ||
      match serve s, fetchq s with
      | SRun, c' :: _ => c =? c'
      | _, _ => false
      end
  | RHave _ _ => true
  | RExit => false
  end.

End WithCfg.

(** * Well-formedness of a configuration: every blocking point of callers and
    reader has an arm on serveDone *)

Local Open Scope string_scope.

Definition guarded (g : cfg) : bool :=
  has_arm (ARecv "tr.serveDone") (enq_arms g) &&
  has_arm (ARecv "tr.serveDone") (wait_arms g) &&
  has_arm (ARecv "tr.serveDone") (fsend_arms g) &&
  has_arm (ARecv "tr.serveDone") (frecv_arms g) &&
  has_arm (ARecv "gone") (box_arms g).

(** The shape of the pinned tree (before the repair), kept as a
    counter-model. *)
Definition legacy_cfg : cfg :=
  mkCfg [ARecv "ctx.Done()"; ASend "tr.calls"]
        [ARecv "ctx.Done()"; ARecv "done"]
        [ASend "tr.pendingFetch"]
        [ARecv "ch"]
        [ARecv "ctx.Done()"; ARecv "b.closed"; ARecv "b.ch"]
        128 5.
