(** The registration bracket of ServeBackName (seeded change C15-j).

    [upgrade] stores the new endpoint client in the registry; what takes it
    out again is the [unmap] of the deferred clean-up that ServeBackName
    installs right afterwards.  The registry model (Sni/Registry.v) gives every
    connection that was mapped an [AUnmap] step before its thread ends; that
    is only true of the source if NO way out of the function lies between the
    two.  Here the function body is a list of top-level statements in a
    three-word vocabulary, every way out of it is enumerated, and the
    bracket property is: on every way out, if this call registered the
    client, the unmap runs. *)
From Coq Require Import List NArith ZArith Bool String.
From Verif Require Import Sni.Registry Sni.RegistryProofs.
Import ListNotations.

Inductive bstmt :=
| BRegister                  (* ep, err := s.upgrade(..); if err != nil { return err } *)
| BDeferUnmap                (* defer func() { s.unmap(name, ep); .. }() *)
| BStmt (may_exit : bool).   (* any other statement; may_exit: a return / panic / goto inside *)

(** Every way out of the statements [ss], as (registered by this call, the
    deferred unmap is installed and therefore runs).  [BRegister] has the
    exit of the failed upgrade, on which nothing was registered. *)
Fixpoint exits (ss : list bstmt) (r d : bool) : list (bool * bool) :=
  match ss with
  | [] => [(r, d)]
  | BRegister :: ss' => (r, d) :: exits ss' true d
  | BDeferUnmap :: ss' => exits ss' r true
  | BStmt true :: ss' => (r, d) :: exits ss' r d
  | BStmt false :: ss' => exits ss' r d
  end.

Definition exit_ok (p : bool * bool) : bool := implb (fst p) (snd p).

Definition bracket_ok (ss : list bstmt) : bool := forallb exit_ok (exits ss false false).

Definition is_register (b : bstmt) : bool := match b with BRegister => true | _ => false end.
Definition falls_through (b : bstmt) : bool := match b with BStmt false => true | _ => false end.

Lemma exits_after_defer : forall ss r, forallb exit_ok (exits ss r true) = true.
Proof.
  induction ss as [|b ss IH]; intros r; cbn.
  - destruct r; reflexivity.
  - destruct b as [| |e]; cbn.
    + rewrite IH. destruct r; reflexivity.
    + apply IH.
    + destruct e; cbn; [rewrite IH; destruct r; reflexivity|apply IH].
Qed.

Lemma exits_before_register : forall pre rest,
  existsb is_register pre = false ->
  (forall d, forallb exit_ok (exits rest false d) = true) ->
  forall d, forallb exit_ok (exits (pre ++ rest) false d) = true.
Proof.
  induction pre as [|b pre IH]; intros rest Hn Hrest d; cbn.
  - apply Hrest.
  - destruct b as [| |e]; cbn in Hn; try discriminate.
    + apply IH; auto.
    + destruct e; cbn; apply IH; auto.
Qed.

Lemma exits_fall_through : forall mid rest r d,
  forallb falls_through mid = true -> exits (mid ++ rest) r d = exits rest r d.
Proof.
  induction mid as [|b mid IH]; intros rest r d H; cbn; [reflexivity|].
  cbn in H. apply andb_true_iff in H. destruct H as [Hb Hm].
  destruct b as [| |e]; cbn in Hb; try discriminate. destruct e; try discriminate.
  apply IH; assumption.
Qed.

(** The bracket: nothing before the registration registers, and nothing
    between the registration and the defer can leave the function; then every
    way out on which the client was registered runs the unmap -- whatever
    follows the defer (callbacks that panic, serve, further defers). *)
Theorem registration_bracket : forall pre mid post,
  existsb is_register pre = false ->
  forallb falls_through mid = true ->
  bracket_ok (pre ++ BRegister :: mid ++ BDeferUnmap :: post) = true.
Proof.
  intros pre mid post Hpre Hmid. unfold bracket_ok.
  apply exits_before_register; auto.
  intros d. cbn. rewrite exits_fall_through by assumption. cbn.
  apply exits_after_defer.
Qed.

(** What the translator extracts: the statements between the two, each with
    its may-exit flag. *)
Definition bracket_of (between : list (string * bool)) (post : list bstmt) : list bstmt :=
  BRegister :: map (fun p => BStmt (snd p)) between ++ BDeferUnmap :: post.

Theorem adjacent_bracket_ok : forall post, bracket_ok (bracket_of [] post) = true.
Proof. intros post. apply (registration_bracket [] [] post); reflexivity. Qed.

Theorem no_exit_between_bracket_ok : forall between post,
  forallb (fun p => negb (snd p)) between = true -> bracket_ok (bracket_of between post) = true.
Proof.
  intros between post H. apply (registration_bracket [] (map (fun p => BStmt (snd p)) between) post); [reflexivity|].
  induction between as [|[t e] l IH]; cbn in *; [reflexivity|].
  apply andb_true_iff in H. destruct H as [He Hl]. destruct e; cbn in He; [discriminate|]. cbn. apply IH; assumption.
Qed.

(** ** An early return between the two (C15-j), refuted

    The body with a probe between registration and defer that can return: there
    is a way out on which the client is registered and no unmap runs. *)
Definition early_return_body : list bstmt :=
  bracket_of [("if opt.Siding { if _, err := ep.token(); err != nil { ep.conn.Close() return .. } }"%string, true)]
             [BStmt false; BStmt false; BStmt false].

Theorem early_return_bracket_refuted :
  bracket_ok early_return_body = false /\ In (true, false) (exits early_return_body false false).
Proof. vm_compute. split; [reflexivity|]. right. left. reflexivity. Qed.

(** The same in the registry model: the thread of a connection that was
    mapped ends -- ServeBackName has returned, [P6] -- without the [AUnmap]
    step.  Connection 1 serves under name 7; connection 2 upgrades under 7
    (kicking 1) and returns early.  The name resolves to connection 2, which
    has ended and has no notification at all (the callback log is balanced):
    not a state of the model ([ended_not_registered]). *)
Definition return_without_unmap (s : state) (t : N) : state :=
  match get t (threads s) with
  | Some th => set_pc t th P6 s
  | None => s
  end.

Theorem early_return_refuted :
  match exec init [AUpgrade 1 7; AConnect 1 5; AUpgrade 2 7] with
  | Some s =>
      let s' := return_without_unmap s 2 in
      lookup_name s' 7 = Some 2%N /\
      (exists th, get 2%N (threads s') = Some th /\ th_pc th = P6 /\ live (th_pc th) = false) /\
      proj 2 (log s') = [] /\ ~ reachable s'
  | None => False
  end.
Proof.
  cbn [exec step]. cbn. split; [reflexivity|].
  split; [eexists; repeat split; reflexivity|]. split; [reflexivity|].
  intros Hr.
  eapply (ended_not_registered _ 2%N _ 7%N Hr); [vm_compute; reflexivity|reflexivity|vm_compute; reflexivity].
Qed.
