(** Proofs about the model of Sni/Stream.v. *)
From Coq Require Import List Arith NArith ZArith Bool Lia.
From Coq Require Import ZifyN ZifyNat ZifyBool.
From Verif Require Import Lib.Bytes Sni.Wire Sni.WireProofs Sni.Hello Sni.HelloProofs Sni.Stream.
Import ListNotations.
Local Open Scope N_scope.

(** * sideConn.Write *)

Definition frame_ok (chunk : N) (f : bytes) : Prop := f <> [] /\ lenN f <= chunk.

Lemma skipn_skipn_nat {A} (a b : nat) (l : list A) : skipn a (skipn b l) = skipn (b + a) l.
Proof.
  revert l; induction b as [|b IH]; intros l; [reflexivity|].
  destruct l; [now rewrite !skipn_nil|]. cbn [skipn plus]. apply IH.
Qed.

(** The loop from index n: it ends with n = len(buf), the frames it adds are
    buf[n:] cut into pieces that are non-empty, at most [chunk] long, and all
    but the last exactly [chunk] long. *)
Lemma side_write_loop_spec chunk buf : 0 < chunk ->
  forall fuel n frames,
  n <= lenN buf -> (N.to_nat (lenN buf - n) < fuel)%nat ->
  exists fs,
    side_write_loop fuel chunk buf n frames = WDone (lenN buf) (frames ++ fs) /\
    concat fs = skipn (N.to_nat n) buf /\
    Forall (frame_ok chunk) fs /\
    Forall (fun f => lenN f = chunk) (removelast fs).
Proof.
  intros Hc. induction fuel as [|f IH]; intros n frames Hn Hf; [lia|].
  cbn [side_write_loop].
  destruct (N.ltb_spec n (lenN buf)) as [Hlt|Hge].
  - set (e := if lenN buf <? n + chunk then lenN buf else n + chunk).
    assert (He : n < e /\ e <= lenN buf /\ e - n <= chunk /\ (e < lenN buf -> e - n = chunk)).
    { unfold e. destruct (N.ltb_spec (lenN buf) (n + chunk)); lia. }
    set (to_send := firstn (N.to_nat (e - n)) (skipn (N.to_nat n) buf)).
    assert (Hlen : lenN to_send = e - n).
    { unfold to_send, lenN. rewrite firstn_length, skipn_length. unfold lenN in *. lia. }
    destruct (IH (n + lenN to_send) (frames ++ [to_send]) ltac:(lia) ltac:(lia))
      as (fs & -> & Hcat & Hok & Hfull).
    exists (to_send :: fs). rewrite <- app_assoc. split; [reflexivity|]. split; [|split].
    + cbn [concat]. rewrite Hcat.
      replace (N.to_nat (n + lenN to_send)) with (N.to_nat n + N.to_nat (e - n))%nat by lia.
      rewrite <- skipn_skipn_nat. unfold to_send. apply firstn_skipn.
    + constructor; [|assumption]. split; [|lia].
      intros E. rewrite E in Hlen. cbn in Hlen. lia.
    + destruct fs as [|g fs']; [constructor|].
      cbn [removelast]. constructor; [|exact Hfull].
      (* a further frame exists, so this one did not reach the end *)
      destruct He as (He1 & He2 & He3 & Hfullc). rewrite Hlen. apply Hfullc.
      destruct (N.eq_dec e (lenN buf)) as [Ee|]; [|lia].
      exfalso. inversion Hok as [|? ? [Hg _] _]; subst.
      assert (Hz : concat (g :: fs') = []).
      { rewrite Hcat. apply skipn_all2. unfold lenN in *. lia. }
      cbn [concat] in Hz. apply app_eq_nil in Hz as [Hz _]. contradiction.
  - exists []. rewrite app_nil_r. replace n with (lenN buf) by lia.
    split; [reflexivity|]. split; [|split; constructor].
    cbn [concat]. symmetry. apply skipn_all2. unfold lenN. lia.
Qed.

Theorem side_write_spec chunk buf : 0 < chunk ->
  exists fs,
    side_write chunk buf = WDone (lenN buf) fs /\
    concat fs = buf /\
    Forall (frame_ok chunk) fs /\
    Forall (fun f => lenN f = chunk) (removelast fs).
Proof.
  intros Hc. unfold side_write.
  destruct (side_write_loop_spec chunk buf Hc (S (length buf)) 0 [] ltac:(lia)
              ltac:(unfold lenN; lia)) as (fs & E & Hcat & Hok & Hfull).
  exists fs. auto.
Qed.

Lemma frames_of_concat chunk buf : 0 < chunk -> concat (frames_of chunk buf) = buf.
Proof.
  intros Hc. unfold frames_of.
  destruct (side_write_spec chunk buf Hc) as (fs & -> & Hcat & _). exact Hcat.
Qed.

Lemma frames_of_empty chunk : frames_of chunk [] = [].
Proof. reflexivity. Qed.

(** * sideConn.Read *)

Lemma bin_prefix_app_bins fs rest :
  bin_prefix (map MBin fs ++ rest) = concat fs ++ bin_prefix rest.
Proof.
  induction fs as [|f fs IH]; [reflexivity|]. cbn [map app bin_prefix concat].
  now rewrite IH, app_assoc.
Qed.

Lemma bin_prefix_side_writes chunk ws rest : 0 < chunk ->
  bin_prefix (side_writes chunk ws ++ rest) = concat ws ++ bin_prefix rest.
Proof.
  intros Hc. unfold side_writes. induction ws as [|w ws IH]; [reflexivity|].
  cbn [flat_map concat]. rewrite <- !app_assoc, bin_prefix_app_bins, IH.
  now rewrite frames_of_concat.
Qed.

Lemma msg_read_spec m k we r got eof rest :
  0 < m -> msg_read m k we r = (got, eof, rest) ->
  got ++ rest = r /\ lenN got <= m /\
  (r = [] -> got = [] /\ eof = true) /\
  (r <> [] -> got <> []) /\
  (eof = true -> rest = []).
Proof.
  intros Hm. unfold msg_read. destruct r as [|x r'].
  - intros [= <- <- <-]. repeat split; auto; try (cbn; lia).
  - set (n := N.to_nat (N.min (N.max 1 k) (N.min m (lenN (x :: r'))))).
    assert (Hn : (1 <= n <= N.to_nat m)%nat /\ (n <= length (x :: r'))%nat).
    { unfold n, lenN. cbn [length]. lia. }
    intros [= <- <- <-]. split; [apply firstn_skipn|]. split.
    { unfold lenN. rewrite firstn_length. lia. }
    split; [discriminate|]. split.
    { intros _. destruct n; [lia|]. discriminate. }
    destruct (skipn n (x :: r')); [reflexivity|discriminate].
Qed.

Lemma next_reader_spec s e s' :
  next_reader s = (e, s') ->
  match e with
  | SNil => exists b, s_cur s' = Some b /\ s_in s = MBin b :: s_in s'
  | SEof | SErr | SBlock => bin_prefix (s_in s) = []
  | SFuel => False
  end.
Proof.
  unfold next_reader. destruct (s_in s) as [|[b| |code|] r] eqn:E.
  - intros [= <- <-]. reflexivity.
  - intros [= <- <-]. exists b. auto.
  - intros [= <- <-]. reflexivity.
  - destruct (existsb (N.eqb code) close_codes_tested); [destruct (code =? close_normal)|];
      intros [= <- <-]; reflexivity.
  - intros [= <- <-]. reflexivity.
Qed.

(** The result of one Read, by kind. *)
Definition read_post (m : N) (before : bytes) (got : bytes) (e : rerrs) (s' : sstate) : Prop :=
  lenN got <= m /\
  match e with
  | SNil => got <> [] /\ got ++ owed s' = before
  | SEof | SErr | SBlock => got = [] /\ before = []
  | SFuel => False
  end.

Lemma side_read_loop_spec m : 0 < m ->
  forall fuel ks r s got e s' ks',
  (length (s_in s) <= fuel)%nat ->
  side_read_loop fuel m ks r s = (got, e, s', ks') ->
  read_post m (r ++ bin_prefix (s_in s)) got e s'.
Proof.
  intros Hm. induction fuel as [|f IH]; intros ks r s got e s' ks' Hf.
  - cbn [side_read_loop].
    destruct (match ks with [] => (m, false) | x :: _ => x end) as [k we].
    destruct (msg_read m k we r) as [[g eof] rest] eqn:Em.
    destruct (msg_read_spec m k we r g eof rest Hm Em) as (Hcat & Hlen & Hr0 & Hr1 & Heof).
    destruct eof; cbn [negb].
    + specialize (Heof eq_refl). subst rest. rewrite app_nil_r in Hcat. subst r.
      destruct g as [|y g'].
      * destruct (next_reader (mkS None (s_in s))) as [e1 s1] eqn:En.
        pose proof (next_reader_spec _ _ _ En) as Hn. cbn [s_in] in Hn.
        destruct e1.
        -- destruct Hn as (b & _ & Hin). rewrite Hin in Hf. cbn [length] in Hf. lia.
        -- intros [= <- <- <- <-]. split; [cbn; lia|]. cbn [app]. auto.
        -- intros [= <- <- <- <-]. split; [cbn; lia|]. cbn [app]. auto.
        -- intros [= <- <- <- <-]. split; [cbn; lia|]. cbn [app]. auto.
        -- contradiction.
      * intros [= <- <- <- <-]. split; [assumption|]. split; [discriminate|].
        unfold owed. reflexivity.
    + intros [= <- <- <- <-]. split; [assumption|]. split.
      * apply Hr1. intros ->. destruct (Hr0 eq_refl). discriminate.
      * unfold owed. cbn [s_cur s_in]. now rewrite app_assoc, Hcat.
  - cbn [side_read_loop].
    destruct (match ks with [] => (m, false) | x :: _ => x end) as [k we].
    destruct (msg_read m k we r) as [[g eof] rest] eqn:Em.
    destruct (msg_read_spec m k we r g eof rest Hm Em) as (Hcat & Hlen & Hr0 & Hr1 & Heof).
    destruct eof; cbn [negb].
    + specialize (Heof eq_refl). subst rest. rewrite app_nil_r in Hcat. subst r.
      destruct g as [|y g'].
      * destruct (next_reader (mkS None (s_in s))) as [e1 s1] eqn:En.
        pose proof (next_reader_spec _ _ _ En) as Hn. cbn [s_in] in Hn.
        destruct e1.
        -- destruct Hn as (b & Hc & Hin). rewrite Hc. intros E.
           apply IH in E; [|rewrite Hin in Hf; cbn [length] in Hf; lia].
           rewrite Hin. cbn [bin_prefix app]. exact E.
        -- intros [= <- <- <- <-]. split; [cbn; lia|]. cbn [app]. auto.
        -- intros [= <- <- <- <-]. split; [cbn; lia|]. cbn [app]. auto.
        -- intros [= <- <- <- <-]. split; [cbn; lia|]. cbn [app]. auto.
        -- contradiction.
      * intros [= <- <- <- <-]. split; [assumption|]. split; [discriminate|].
        unfold owed. reflexivity.
    + intros [= <- <- <- <-]. split; [assumption|]. split.
      * apply Hr1. intros ->. destruct (Hr0 eq_refl). discriminate.
      * unfold owed. cbn [s_cur s_in]. now rewrite app_assoc, Hcat.
Qed.

Theorem side_read_spec m ks s got e s' ks' :
  0 < m -> side_read m ks s = (got, e, s', ks') -> read_post m (owed s) got e s'.
Proof.
  intros Hm. unfold side_read, owed at 1.
  destruct (s_cur s) as [r|] eqn:Ec.
  - intros E. eapply side_read_loop_spec; [assumption| |exact E]. lia.
  - cbn [app]. destruct (next_reader s) as [e1 s1] eqn:En.
    pose proof (next_reader_spec _ _ _ En) as Hn.
    destruct e1.
    + destruct Hn as (b & Hc & Hin). rewrite Hc. intros E.
      apply side_read_loop_spec in E; [|assumption|lia].
      rewrite Hin. cbn [bin_prefix]. exact E.
    + intros [= <- <- <- <-]. split; [cbn; lia|auto].
    + intros [= <- <- <- <-]. split; [cbn; lia|auto].
    + intros [= <- <- <- <-]. split; [cbn; lia|auto].
    + contradiction.
Qed.

(** A Read with a non-empty buffer returns data, and no error, whenever
    bytes are owed. *)
Corollary side_read_progress m ks s got e s' ks' :
  0 < m -> owed s <> [] -> side_read m ks s = (got, e, s', ks') -> e = SNil /\ got <> [].
Proof.
  intros Hm Ho E. destruct (side_read_spec m ks s got e s' ks' Hm E) as [_ H].
  destruct e; try (destruct H as [_ H]; contradiction); try contradiction.
  split; [reflexivity|apply H].
Qed.

Theorem side_reads_spec : forall ms ks s outs e s',
  Forall (fun m => 0 < m) ms ->
  side_reads ms ks s = (outs, e, s') ->
  concat outs ++ owed_after e s' = owed s /\ e <> SFuel.
Proof.
  induction ms as [|m ms IH]; intros ks s outs e s' Hms; cbn [side_reads].
  - intros [= <- <- <-]. cbn. split; [reflexivity|discriminate].
  - inversion Hms as [|? ? Hm Hms']; subst.
    destruct (side_read m ks s) as [[[got e1] s1] ks1] eqn:E1.
    destruct (side_read_spec m ks s got e1 s1 ks1 Hm E1) as [_ H1].
    destruct e1.
    + destruct (side_reads ms ks1 s1) as [[l e2] s2] eqn:E2. intros [= <- <- <-].
      destruct (IH _ _ _ _ _ Hms' E2) as [H2 Hf]. split; [|assumption].
      cbn [concat]. rewrite <- app_assoc, H2. apply H1.
    + intros [= <- <- <-]. destruct H1 as [-> Ho]. rewrite Ho. cbn. split; [reflexivity|discriminate].
    + intros [= <- <- <-]. destruct H1 as [-> Ho]. rewrite Ho. cbn. split; [reflexivity|discriminate].
    + intros [= <- <- <-]. destruct H1 as [-> Ho]. rewrite Ho. cbn. split; [reflexivity|discriminate].
    + contradiction.
Qed.

(** Writes, then CloseWrite, read back with any buffer sizes and any
    behaviour of the message reader: the bytes written, in order; and the end
    is reported only after all of them. *)
Theorem side_roundtrip chunk ws tail ms ks outs e s' :
  0 < chunk -> Forall (fun m => 0 < m) ms ->
  side_reads ms ks (mkS None (side_writes chunk ws ++ tail)) = (outs, e, s') ->
  concat outs ++ owed_after e s' = concat ws ++ bin_prefix tail.
Proof.
  intros Hc Hms E. destruct (side_reads_spec _ _ _ _ _ _ Hms E) as [H _].
  rewrite H. unfold owed. cbn [s_cur s_in app]. now apply bin_prefix_side_writes.
Qed.

(** * net.Pipe and tunnel.Read *)

Lemma pipe_read_spec m p got p' :
  pipe_read m p = Some (got, p') -> got ++ concat p' = concat p /\ lenN got <= m.
Proof.
  unfold pipe_read. destruct p as [|w r]; [discriminate|].
  set (k := N.to_nat (N.min m (lenN w))).
  assert (Hlen : lenN (firstn k w) <= m).
  { unfold lenN. rewrite firstn_length. unfold k, lenN. lia. }
  destruct (skipn k w) as [|y rest] eqn:Es; intros [= <- <-]; cbn [concat]; (split; [|assumption]).
  - rewrite <- (firstn_skipn k w) at 2. now rewrite Es, app_nil_r.
  - rewrite app_assoc. f_equal. rewrite <- Es. apply firstn_skipn.
Qed.

(** With room in the buffer, a Read on a pipe with a pending non-empty Write
    returns data. *)
Lemma pipe_read_progress m w r :
  0 < m -> w <> [] -> exists got p', pipe_read m (w :: r) = Some (got, p') /\ got <> [].
Proof.
  intros Hm Hw. unfold pipe_read.
  set (k := N.to_nat (N.min m (lenN w))).
  assert (Hk : (1 <= k)%nat).
  { unfold k, lenN. destruct w; [contradiction|cbn [length]; lia]. }
  assert (Hg : firstn k w <> []).
  { destruct w; [contradiction|]. destruct k; [lia|discriminate]. }
  destruct (skipn k w); eauto.
Qed.

Theorem pipe_reads_spec : forall ms p outs p',
  pipe_reads ms p = (outs, p') -> concat outs ++ concat p' = concat p.
Proof.
  induction ms as [|m ms IH]; intros p outs p'; cbn [pipe_reads].
  - now intros [= <- <-].
  - destruct (pipe_read m p) as [[got p1]|] eqn:E1; [|now intros [= <- <-]].
    destruct (pipe_reads ms p1) as [l p2] eqn:E2. intros [= <- <-].
    cbn [concat]. rewrite <- app_assoc, (IH _ _ _ E2). now apply pipe_read_spec in E1.
Qed.

(** The reply of an honest endpoint fits the caller's buffer, so it is
    decoded in place and the caller sees exactly the bytes read from the pipe. *)
Lemma buffer_after_view alloc_max old data :
  lenN data <= lenN old ->
  firstn (length data)
    (buffer_after old data (dec_place alloc_max (lenN old) (lenN data))) = data.
Proof.
  intros Hle. unfold dec_place.
  destruct (N.eqb_spec (lenN data) 0) as [Hz|Hnz].
  - apply lenN_0 in Hz. subst data. reflexivity.
  - destruct (N.leb_spec (lenN data) (lenN old)); [|lia]. cbn [buffer_after].
    rewrite firstn_app, Nat.sub_diag, firstn_O, app_nil_r. apply firstn_all.
Qed.

Theorem tunnel_read_spec alloc_max max_read old p r :
  tunnel_read alloc_max max_read old p = Some r ->
  exists data p', r = (Some data, p') /\
    pipe_read (N.min (lenN old) max_read) p = Some (data, p') /\
    lenN data <= lenN old /\ lenN data <= max_read.
Proof.
  unfold tunnel_read.
  destruct (pipe_read (N.min (lenN old) max_read) p) as [[data p1]|] eqn:E; [|discriminate].
  destruct (pipe_read_spec _ _ _ _ E) as [_ Hlen].
  destruct (N.ltb_spec (lenN old) (lenN data)) as [H|H]; [lia|].
  intros [= <-]. exists data, p1. rewrite buffer_after_view by lia.
  repeat split; try reflexivity; lia.
Qed.

Theorem tunnel_reads_spec alloc_max max_read : forall olds p outs p',
  tunnel_reads alloc_max max_read olds p = (outs, p') ->
  concat outs ++ concat p' = concat p.
Proof.
  induction olds as [|old olds IH]; intros p outs p'; cbn [tunnel_reads].
  - now intros [= <- <-].
  - destruct (tunnel_read alloc_max max_read old p) as [r|] eqn:E1; [|now intros [= <- <-]].
    destruct (tunnel_read_spec _ _ _ _ _ E1) as (data & p1 & -> & Hp & _).
    destruct (tunnel_reads alloc_max max_read olds p1) as [l p2] eqn:E2. intros [= <- <-].
    cbn [concat]. rewrite <- app_assoc, (IH _ _ _ E2). now apply pipe_read_spec in Hp.
Qed.

(** * TCP re-segmentation *)

Lemma rechunk_concat : forall sizes s, concat (rechunk sizes s) = s.
Proof.
  induction sizes as [|k r IH]; intros s; cbn [rechunk].
  - destruct s; [reflexivity|]. cbn. now rewrite app_nil_r.
  - destruct s as [|x s']; [reflexivity|]. cbn [concat]. rewrite IH. apply firstn_skipn.
Qed.

(** * Whole directions *)

Lemma concat_filter_nonempty (l : list bytes) : concat (filter nonempty l) = concat l.
Proof.
  induction l as [|x l IH]; [reflexivity|]. cbn [filter].
  destruct x as [|y x']; cbn [nonempty concat app]; [exact IH|]. now rewrite IH.
Qed.

Lemma Forall_pos_dec (l : list N) : forallb (fun m => 0 <? m) l = true -> Forall (fun m => 0 < m) l.
Proof. rewrite forallb_forall, Forall_forall. intros H x Hx. specialize (H x Hx). lia. Qed.

(** Client to application, both modes, every schedule: what the application
    has read, followed by what is still in flight, is the stream the client
    wrote - nothing lost, duplicated, reordered or inserted, starting with the
    first byte of the ClientHello. *)
Theorem to_app_transparent m cap chunk sc stream outs left :
  5 <= cap -> 0 < chunk -> Forall (fun x => 0 < x) (sc_app sc) ->
  to_app m cap chunk sc stream = (outs, left) ->
  concat outs ++ left = stream.
Proof.
  intros Hcap Hc Happ. unfold to_app.
  destruct (sniff_then_reads cap stream (sc_tcp sc) (sc_late sc) (sc_copy sc) Hcap)
    as (b1 & -> & _ & _ & _ & Hreads).
  destruct (breads cap (sc_copy sc) b1) as [[copied e1] b2] eqn:Eb.
  destruct (Hreads _ _ _ eq_refl) as [Hcopied _].
  destruct m.
  - destruct (pipe_reads (sc_app sc) (filter nonempty copied)) as [o p'] eqn:Ep.
    intros [= <- <-]. apply pipe_reads_spec in Ep. rewrite concat_filter_nonempty in Ep.
    now rewrite app_assoc, Ep.
  - destruct (side_reads (sc_app sc) (sc_ws sc) (mkS None (side_writes chunk copied)))
      as [[o e2] s'] eqn:Es.
    intros [= <- <-].
    rewrite <- (app_nil_r (side_writes chunk copied)) in Es.
    apply side_roundtrip in Es; [|assumption|assumption].
    cbn [bin_prefix] in Es. rewrite app_nil_r in Es. now rewrite app_assoc, Es.
Qed.

Theorem to_client_transparent m alloc_max max_read chunk sc ws outs left :
  0 < chunk -> Forall (fun x => 0 < x) (sc_copy sc) ->
  to_client m alloc_max max_read chunk sc ws = (outs, left) ->
  concat outs ++ left = concat ws.
Proof.
  intros Hc Hcopy. unfold to_client. destruct m.
  - destruct (tunnel_reads alloc_max max_read (sc_bufs sc) ws) as [copied p'] eqn:Et.
    intros [= <- <-]. rewrite rechunk_concat. now apply tunnel_reads_spec in Et.
  - destruct (side_reads (sc_copy sc) (sc_ws sc) (mkS None (side_writes chunk ws)))
      as [[copied e] s'] eqn:Es.
    intros [= <- <-]. rewrite rechunk_concat.
    rewrite <- (app_nil_r (side_writes chunk ws)) in Es.
    apply side_roundtrip in Es; [|assumption|assumption].
    cbn [bin_prefix] in Es. now rewrite app_nil_r in Es.
Qed.

(** The received stream does not depend on the tunnel mode. *)
Corollary to_app_mode_independent cap chunk sc1 sc2 stream o1 o2 :
  5 <= cap -> 0 < chunk ->
  Forall (fun x => 0 < x) (sc_app sc1) -> Forall (fun x => 0 < x) (sc_app sc2) ->
  to_app TLegacy cap chunk sc1 stream = (o1, []) ->
  to_app TSide cap chunk sc2 stream = (o2, []) ->
  concat o1 = concat o2 /\ concat o1 = stream.
Proof.
  intros Hcap Hc H1 H2 E1 E2.
  apply to_app_transparent in E1; try assumption. apply to_app_transparent in E2; try assumption.
  rewrite app_nil_r in E1, E2. split; congruence.
Qed.

(** The first byte the application reads is the first byte of the
    ClientHello: peeking consumed nothing. *)
Corollary to_app_first_byte m cap chunk sc stream outs left x r :
  5 <= cap -> 0 < chunk -> Forall (fun x => 0 < x) (sc_app sc) ->
  to_app m cap chunk sc stream = (outs, left) ->
  concat outs = x :: r -> exists r', stream = x :: r'.
Proof.
  intros Hcap Hc Happ E Hx. apply to_app_transparent in E; try assumption.
  rewrite Hx in E. cbn [app] in E. eauto.
Qed.

(** * Completeness: readers that keep reading get everything

    "If both sides keep the connection open the whole stream arrives": when
    every reader on the way issues enough Reads with non-empty buffers (as
    many as there are bytes is always enough: each such Read takes at least
    one byte that is owed), nothing is left in flight. *)

Lemma breads_drain cap : forall ms b chunks e b2,
  0 < cap -> binv cap b -> Forall (fun m => 0 < m) ms ->
  (length (remaining b) <= length ms)%nat ->
  breads cap ms b = (chunks, e, b2) -> remaining b2 = [].
Proof.
  induction ms as [|m ms IH]; intros b chunks e b2 Hcap Hinv Hms Hlen; cbn [breads].
  - intros [= <- <- <-]. cbn [length] in Hlen. destruct (remaining b); [reflexivity|cbn in Hlen; lia].
  - inversion Hms as [|? ? Hm Hms']; subst.
    destruct (bread cap m b) as [[got e1] b1] eqn:E1.
    destruct (bread_spec cap m b got e1 b1 Hcap Hinv E1) as (Hrem & Hinv1 & _ & He1 & Hprog).
    destruct e1 as [e1|].
    + intros [= <- <- <-]. destruct He1 as [|(_ & Hr)]; [discriminate|]. exact Hr.
    + destruct (breads cap ms b1) as [[l e2] b3] eqn:E2. intros [= <- <- <-].
      eapply IH; [exact Hcap|exact Hinv1|exact Hms'| |exact E2].
      destruct (remaining b) as [|x r] eqn:Er.
      * apply app_eq_nil in Hrem as [_ ->]. cbn. lia.
      * pose proof (Hprog Hm ltac:(discriminate)) as Hg.
        rewrite <- Hrem, app_length in Hlen. destruct got; [contradiction|].
        cbn [length] in Hlen. lia.
Qed.

Lemma side_reads_drain : forall ms ks s outs e s',
  Forall (fun m => 0 < m) ms -> (length (owed s) <= length ms)%nat ->
  side_reads ms ks s = (outs, e, s') -> owed_after e s' = [].
Proof.
  induction ms as [|m ms IH]; intros ks s outs e s' Hms Hlen; cbn [side_reads].
  - intros [= <- <- <-]. cbn [owed_after length] in *. destruct (owed s); [reflexivity|cbn in Hlen; lia].
  - inversion Hms as [|? ? Hm Hms']; subst.
    destruct (side_read m ks s) as [[[got e1] s1] ks1] eqn:E1.
    destruct (side_read_spec m ks s got e1 s1 ks1 Hm E1) as [_ H1].
    destruct e1; try (intros [= <- <- <-]; reflexivity).
    destruct (side_reads ms ks1 s1) as [[l e2] s2] eqn:E2. intros [= <- <- <-].
    eapply IH; [exact Hms'| |exact E2].
    destruct H1 as [Hg Ho]. rewrite <- Ho, app_length in Hlen.
    destruct got; [contradiction|]. cbn [length] in Hlen. lia.
Qed.

Lemma pipe_read_nonempty m p got p' :
  Forall (fun w => w <> []) p -> pipe_read m p = Some (got, p') -> Forall (fun w => w <> []) p'.
Proof.
  unfold pipe_read. destruct p as [|w r]; [discriminate|]. intros Hp.
  inversion Hp as [|? ? Hw Hr]; subst.
  destruct (skipn _ w) as [|y rest] eqn:Es; intros [= <- <-]; [assumption|].
  constructor; [discriminate|assumption].
Qed.

Lemma pipe_reads_drain : forall ms p outs p',
  Forall (fun m => 0 < m) ms -> Forall (fun w => w <> []) p ->
  (length (concat p) <= length ms)%nat ->
  pipe_reads ms p = (outs, p') -> p' = [].
Proof.
  induction ms as [|m ms IH]; intros p outs p' Hms Hp Hlen; cbn [pipe_reads].
  - intros [= <- <-]. destruct p as [|w r]; [reflexivity|].
    inversion Hp as [|? ? Hw _]; subst. cbn [concat length] in Hlen.
    rewrite app_length in Hlen. destruct w; [contradiction|cbn in Hlen; lia].
  - inversion Hms as [|? ? Hm Hms']; subst.
    destruct p as [|w r].
    + cbn [pipe_read]. now intros [= <- <-].
    + inversion Hp as [|? ? Hw Hr]; subst.
      destruct (pipe_read_progress m w r Hm Hw) as (got & p1 & E1 & Hg). rewrite E1.
      destruct (pipe_reads ms p1) as [l p2] eqn:E2. intros [= <- <-].
      eapply IH; [exact Hms'|exact (pipe_read_nonempty m (w :: r) got p1 Hp E1)| |exact E2].
      apply pipe_read_spec in E1 as [Hc _]. rewrite <- Hc, app_length in Hlen.
      destruct got; [contradiction|]. cbn [length] in Hlen. lia.
Qed.

(** Bytes and pending Writes (a zero-length Write is taken by one Read). *)
Definition pipe_weight (p : pipe) : nat := (length (concat p) + length p)%nat.

Lemma pipe_read_weight m w r :
  0 < m -> exists got p', pipe_read m (w :: r) = Some (got, p') /\
                          (pipe_weight p' < pipe_weight (w :: r))%nat.
Proof.
  intros Hm. unfold pipe_read, pipe_weight.
  set (k := N.to_nat (N.min m (lenN w))).
  destruct (skipn k w) as [|y rest] eqn:Es.
  - do 2 eexists. split; [reflexivity|]. cbn [concat length]. rewrite app_length. lia.
  - do 2 eexists. split; [reflexivity|]. cbn [concat length]. rewrite !app_length.
    assert (Hk : (1 <= k)%nat).
    { unfold k, lenN. destruct w; [now rewrite skipn_nil in Es|cbn [length]; lia]. }
    pose proof (skipn_length k w) as L. rewrite Es in L. cbn [length] in L |- *. lia.
Qed.

Lemma tunnel_reads_drain alloc_max max_read : 0 < max_read -> forall olds p outs p',
  Forall (fun old => old <> []) olds ->
  (pipe_weight p <= length olds)%nat ->
  tunnel_reads alloc_max max_read olds p = (outs, p') -> p' = [].
Proof.
  intros Hmr. induction olds as [|old olds IH]; intros p outs p' Ho Hlen; cbn [tunnel_reads].
  - intros [= <- <-]. destruct p as [|w r]; [reflexivity|].
    unfold pipe_weight in Hlen. cbn [length] in Hlen. lia.
  - inversion Ho as [|? ? Hold Ho']; subst.
    destruct p as [|w r].
    + unfold tunnel_read. cbn [pipe_read]. now intros [= <- <-].
    + assert (Hsz : 0 < N.min (lenN old) max_read).
      { unfold lenN. destruct old; [contradiction|cbn [length]; lia]. }
      destruct (pipe_read_weight _ w r Hsz) as (got & p1 & E1 & Hw).
      destruct (tunnel_read alloc_max max_read old (w :: r)) as [res|] eqn:Et.
      2:{ unfold tunnel_read in Et. rewrite E1 in Et.
          destruct (lenN old <? lenN got); discriminate. }
      destruct (tunnel_read_spec _ _ _ _ _ Et) as (data & p1' & -> & Hpr & _).
      rewrite E1 in Hpr. injection Hpr as <- <-.
      destruct (tunnel_reads alloc_max max_read olds p1) as [l p2] eqn:E2. intros [= <- <-].
      eapply IH; [exact Ho'| |exact E2]. cbn [length] in Hlen. lia.
Qed.

Lemma filter_nonempty_all (l : list bytes) : Forall (fun w => w <> []) (filter nonempty l).
Proof.
  induction l as [|x l IH]; [constructor|]. cbn [filter].
  destruct x; cbn [nonempty]; [assumption|]. constructor; [discriminate|assumption].
Qed.

(** Client to application: with enough Reads everywhere, everything the
    client wrote arrives, in both mechanisms. *)
Theorem to_app_complete m cap chunk sc stream :
  5 <= cap -> 0 < chunk ->
  Forall (fun x => 0 < x) (sc_copy sc) -> Forall (fun x => 0 < x) (sc_app sc) ->
  (length stream <= length (sc_copy sc))%nat -> (length stream <= length (sc_app sc))%nat ->
  exists outs, to_app m cap chunk sc stream = (outs, []) /\ concat outs = stream.
Proof.
  intros Hcap Hc Hcopy Happ Hl1 Hl2.
  destruct (to_app m cap chunk sc stream) as [outs left] eqn:E.
  pose proof (to_app_transparent m cap chunk sc stream outs left Hcap Hc Happ E) as Ht.
  assert (Hleft : left = []).
  { unfold to_app in E.
    destruct (sniff_then_reads cap stream (sc_tcp sc) (sc_late sc) (sc_copy sc) Hcap)
      as (b1 & Hs & _ & Hinv1 & Hrem1 & Hreads).
    rewrite Hs in E.
    destruct (breads cap (sc_copy sc) b1) as [[copied e1] b2] eqn:Eb.
    destruct (Hreads _ _ _ eq_refl) as [Hcopied _].
    assert (Hb2 : remaining b2 = []).
    { eapply (breads_drain cap (sc_copy sc) b1); [lia|exact Hinv1|exact Hcopy| |exact Eb].
      now rewrite Hrem1. }
    rewrite Hb2, app_nil_r in Hcopied.
    destruct m.
    - destruct (pipe_reads (sc_app sc) (filter nonempty copied)) as [o p'] eqn:Ep.
      injection E as <- <-. rewrite Hb2, app_nil_r.
      erewrite (pipe_reads_drain (sc_app sc) (filter nonempty copied) o p'); try eassumption;
        [reflexivity|apply filter_nonempty_all|].
      now rewrite concat_filter_nonempty, Hcopied.
    - destruct (side_reads (sc_app sc) (sc_ws sc) (mkS None (side_writes chunk copied)))
        as [[o e2] s'] eqn:Es.
      injection E as <- <-. rewrite Hb2, app_nil_r.
      eapply side_reads_drain; [exact Happ| |exact Es].
      unfold owed. cbn [s_cur s_in app].
      rewrite <- (app_nil_r (side_writes chunk copied)), bin_prefix_side_writes by assumption.
      cbn [bin_prefix]. now rewrite app_nil_r, Hcopied. }
  subst left. rewrite app_nil_r in Ht. eauto.
Qed.

(** Application to client. *)
Theorem to_client_complete m alloc_max max_read chunk sc ws :
  0 < chunk -> 0 < max_read ->
  Forall (fun x => 0 < x) (sc_copy sc) -> Forall (fun old => old <> []) (sc_bufs sc) ->
  (length (concat ws) <= length (sc_copy sc))%nat ->
  (length (concat ws) + length ws <= length (sc_bufs sc))%nat ->
  exists outs, to_client m alloc_max max_read chunk sc ws = (outs, []) /\ concat outs = concat ws.
Proof.
  intros Hc Hmr Hcopy Hbufs Hl1 Hl2.
  destruct (to_client m alloc_max max_read chunk sc ws) as [outs left] eqn:E.
  pose proof (to_client_transparent m alloc_max max_read chunk sc ws outs left Hc Hcopy E) as Ht.
  assert (Hleft : left = []).
  { unfold to_client in E. destruct m.
    - destruct (tunnel_reads alloc_max max_read (sc_bufs sc) ws) as [copied p'] eqn:Et.
      injection E as <- <-.
      erewrite (tunnel_reads_drain alloc_max max_read Hmr (sc_bufs sc) ws copied p');
        try eassumption; reflexivity.
    - destruct (side_reads (sc_copy sc) (sc_ws sc) (mkS None (side_writes chunk ws)))
        as [[copied e] s'] eqn:Es.
      injection E as <- <-.
      eapply side_reads_drain; [exact Hcopy| |exact Es].
      unfold owed. cbn [s_cur s_in app].
      rewrite <- (app_nil_r (side_writes chunk ws)), bin_prefix_side_writes by assumption.
      cbn [bin_prefix]. now rewrite app_nil_r. }
  subst left. rewrite app_nil_r in Ht. eauto.
Qed.

(** * Reads after the end of the stream

    sideConn.Read does not remember that it has reported the end: the text
    message is consumed by nextReader and the next Read calls NextReader
    again.  Whether such a later Read returns depends on the websocket alone:
    once the connection is closed (a close frame or a lost connection, both
    sticky in gorilla's NextReader) every Read returns; while it stays open
    and silent a later Read blocks. *)

Definition is_sticky (m : msg) : bool :=
  match m with MClose _ | MErr => true | _ => false end.
Definition has_sticky (l : list msg) : bool := existsb is_sticky l.

Lemma next_reader_sticky s e s' :
  has_sticky (s_in s) = true -> next_reader s = (e, s') ->
  e <> SBlock /\ has_sticky (s_in s') = true.
Proof.
  unfold next_reader. destruct (s_in s) as [|[b| |code|] r] eqn:E; cbn [has_sticky existsb is_sticky orb].
  - discriminate.
  - intros H [= <- <-]. split; [discriminate|exact H].
  - intros H [= <- <-]. split; [discriminate|exact H].
  - intros _. destruct (existsb (N.eqb code) close_codes_tested); [destruct (code =? close_normal)|];
      intros [= <- <-]; (split; [discriminate|rewrite E; reflexivity]).
  - intros _ [= <- <-]. split; [discriminate|rewrite E; reflexivity].
Qed.

Lemma side_read_loop_sticky m : forall fuel ks r s got e s' ks',
  has_sticky (s_in s) = true ->
  side_read_loop fuel m ks r s = (got, e, s', ks') ->
  e <> SBlock /\ has_sticky (s_in s') = true.
Proof.
  induction fuel as [|f IH]; intros ks r s got e s' ks' Hs; cbn [side_read_loop];
    destruct (match ks with [] => (m, false) | x :: _ => x end) as [k we];
    destruct (msg_read m k we r) as [[g eof] rest];
    destruct eof; cbn [negb].
  - destruct g.
    + destruct (next_reader (mkS None (s_in s))) as [e1 s1] eqn:En.
      destruct (next_reader_sticky (mkS None (s_in s)) _ _ Hs En) as [Hb Hs1].
      destruct e1; try contradiction; intros [= <- <- <- <-]; (split; [discriminate|assumption]).
    + intros [= <- <- <- <-]. split; [discriminate|exact Hs].
  - intros [= <- <- <- <-]. split; [discriminate|exact Hs].
  - destruct g.
    + destruct (next_reader (mkS None (s_in s))) as [e1 s1] eqn:En.
      destruct (next_reader_sticky (mkS None (s_in s)) _ _ Hs En) as [Hb Hs1].
      destruct e1.
      * destruct (s_cur s1) as [r'|]; [apply IH; exact Hs1|].
        intros [= <- <- <- <-]. split; [discriminate|assumption].
      * intros [= <- <- <- <-]. split; [discriminate|assumption].
      * intros [= <- <- <- <-]. split; [discriminate|assumption].
      * contradiction.
      * intros [= <- <- <- <-]. split; [discriminate|assumption].
    + intros [= <- <- <- <-]. split; [discriminate|exact Hs].
  - intros [= <- <- <- <-]. split; [discriminate|exact Hs].
Qed.

(** Once the websocket is closed, no Read blocks - not the pending one, not
    any later one (the closed state persists). *)
Theorem side_read_closed_never_blocks m ks s got e s' ks' :
  has_sticky (s_in s) = true ->
  side_read m ks s = (got, e, s', ks') ->
  e <> SBlock /\ has_sticky (s_in s') = true.
Proof.
  intros Hs. unfold side_read. destruct (s_cur s) as [r|].
  - apply side_read_loop_sticky. exact Hs.
  - destruct (next_reader s) as [e1 s1] eqn:En.
    destruct (next_reader_sticky _ _ _ Hs En) as [Hb Hs1].
    destruct e1.
    + destruct (s_cur s1) as [r|]; [apply side_read_loop_sticky; exact Hs1|].
      intros [= <- <- <- <-]. split; [discriminate|assumption].
    + intros [= <- <- <- <-]. split; [discriminate|assumption].
    + intros [= <- <- <- <-]. split; [discriminate|assumption].
    + contradiction.
    + intros [= <- <- <- <-]. split; [discriminate|assumption].
Qed.

(** The end marker is consumed by the Read that reports it ... *)
Lemma text_marker_is_forgotten m ks r :
  side_read m ks (mkS None (MText :: r)) = ([], SEof, mkS None r, ks).
Proof. reflexivity. Qed.

(** ... so while the websocket stays open and silent, a later Read blocks. *)
Theorem later_read_blocks_while_open m ks :
  side_read m ks (mkS None []) = ([], SBlock, mkS None [], ks).
Proof. reflexivity. Qed.

(** * A Write that fails part-way *)

Lemma firstn_plus {A} (a b : nat) (l : list A) :
  firstn (a + b) l = firstn a l ++ firstn b (skipn a l).
Proof.
  revert l; induction a as [|a IH]; intros l; [reflexivity|].
  destruct l as [|x l]; [now rewrite !firstn_nil|]. cbn [plus firstn skipn app]. now rewrite IH.
Qed.

Lemma firstn_firstn_le {A} (a b : nat) (l : list A) : (a <= b)%nat -> firstn a (firstn b l) = firstn a l.
Proof. intros H. rewrite firstn_firstn. now rewrite Nat.min_l. Qed.

(** Whatever fails and wherever: the call returns with n and a non-nil error
    (never a silent short count), n is the number of bytes of completed
    messages plus what the failing message accepted, and these bytes are a
    prefix of the buffer; without a failure it is the plain Write. *)
Lemma side_write_loop_f_spec chunk buf : 0 < chunk ->
  forall fuel n frames fa how,
  n <= lenN buf -> (N.to_nat (lenN buf - n) < fuel)%nat ->
  concat frames = firstn (N.to_nat n) buf ->
  match side_write_loop_f fuel chunk buf n frames fa how with
  | WOkF n' fs => n' = lenN buf /\ concat fs = buf
  | WErrF n' fs part =>
      n' <= lenN buf /\ concat fs ++ part = firstn (N.to_nat n') buf /\
      n' = lenN (concat fs ++ part)
  | WFuelF => False
  end.
Proof.
  intros Hc. induction fuel as [|f IH]; intros n frames fa how Hn Hf Hfr; [lia|].
  cbn [side_write_loop_f].
  destruct (N.ltb_spec n (lenN buf)) as [Hlt|Hge].
  - set (e := if lenN buf <? n + chunk then lenN buf else n + chunk).
    assert (He : n < e /\ e <= lenN buf).
    { unfold e. destruct (N.ltb_spec (lenN buf) (n + chunk)); lia. }
    set (to_send := firstn (N.to_nat (e - n)) (skipn (N.to_nat n) buf)).
    assert (Hlen : lenN to_send = e - n).
    { unfold to_send, lenN. rewrite firstn_length, skipn_length. unfold lenN in *. lia. }
    assert (Hnext : concat (frames ++ [to_send]) = firstn (N.to_nat (n + lenN to_send)) buf).
    { rewrite concat_app. cbn [concat]. rewrite app_nil_r, Hfr.
      replace (N.to_nat (n + lenN to_send)) with (N.to_nat n + N.to_nat (e - n))%nat by lia.
      rewrite firstn_plus. reflexivity. }
    assert (Hn_len : n = lenN (concat frames)).
    { rewrite Hfr. unfold lenN. rewrite firstn_length. unfold lenN in Hn. lia. }
    destruct fa as [[|k]|].
    + destruct how as [|w|].
      * split; [lia|]. rewrite app_nil_r. split; [assumption|assumption].
      * set (k := N.to_nat (N.min w (lenN to_send))).
        assert (Hk : (k <= N.to_nat (e - n))%nat) by (unfold k; lia).
        assert (Hpl : lenN (firstn k to_send) = N.of_nat k).
        { unfold lenN. rewrite firstn_length. unfold lenN in Hlen. lia. }
        split; [lia|]. split.
        -- rewrite Hfr. unfold to_send. rewrite firstn_firstn_le by assumption.
           assert (Hl2 : lenN (firstn k (skipn (N.to_nat n) buf)) = N.of_nat k).
           { unfold lenN. rewrite firstn_length, skipn_length. unfold lenN in *. lia. }
           rewrite Hl2.
           replace (N.to_nat (n + N.of_nat k)) with (N.to_nat n + k)%nat by lia.
           now rewrite firstn_plus.
        -- rewrite lenN_app, <- Hn_len. reflexivity.
      * split; [lia|]. split.
        -- rewrite <- Hnext, concat_app. cbn [concat]. now rewrite app_nil_r.
        -- rewrite lenN_app, <- Hn_len. reflexivity.
    + apply IH; [lia|lia|exact Hnext].
    + apply IH; [lia|lia|exact Hnext].
  - replace n with (lenN buf) in * by lia. split; [reflexivity|].
    rewrite Hfr. apply firstn_all_lenN. lia.
Qed.

Theorem side_write_f_spec chunk buf fa how : 0 < chunk ->
  match side_write_f chunk buf fa how with
  | WOkF n fs => n = lenN buf /\ concat fs = buf
  | WErrF n fs part =>
      n <= lenN buf /\ concat fs ++ part = firstn (N.to_nat n) buf /\ n = lenN (concat fs ++ part)
  | WFuelF => False
  end.
Proof.
  intros Hc. unfold side_write_f.
  apply side_write_loop_f_spec; [assumption|lia|unfold lenN; lia|reflexivity].
Qed.

(** Without a failure it is the plain Write. *)
Lemma side_write_f_none chunk buf how : 0 < chunk ->
  side_write_f chunk buf None how =
  match side_write chunk buf with WDone n fs => WOkF n fs | WFuel => WFuelF end.
Proof.
  intros Hc. unfold side_write_f, side_write.
  generalize (S (length buf)) (@nil bytes) 0. intros fuel.
  induction fuel as [|f IH]; intros frames n; cbn [side_write_loop_f side_write_loop];
    destruct (n <? lenN buf); try reflexivity. apply IH.
Qed.
