(** Proofs about Sni/PendingAge.v. *)
From Coq Require Import List NArith Bool Arith Lia.
From Verif Require Import Sni.PendingAge.
Import ListNotations.

Lemma mem_id_In id l : mem_id id l = true <-> In id l.
Proof.
  unfold mem_id. rewrite existsb_exists. split.
  - intros (x & Hin & He). apply Nat.eqb_eq in He. now subst.
  - intros H. exists id. split; [assumption|apply Nat.eqb_refl].
Qed.

Lemma remove_id_In id x l : In x (remove_id id l) <-> In x l /\ x <> id.
Proof.
  unfold remove_id. rewrite filter_In. split; intros [H1 H2]; split; auto.
  - intros ->. rewrite Nat.eqb_refl in H2. discriminate.
  - apply negb_true_iff. now apply Nat.eqb_neq.
Qed.

(** With the deployed rule every pending id is below the counter, so the
    entry "under the id just handed out" never exists: nothing is ever failed
    with errTooLong, and an entry leaves the table only through its own reply. *)
Lemma same_id_invariant evs :
  let s := prun EvictSameId evs in
  (forall id, In id (p_pending s) -> id < p_next s) /\ p_evicted s = [].
Proof.
  unfold prun. rewrite <- (rev_involutive evs). induction (rev evs) as [|e r IH]; [cbn; split; [intros ? []|reflexivity]|].
  cbn [rev]. rewrite fold_left_app. cbn [fold_left]. destruct IH as [Hb He].
  set (s := fold_left (pstep EvictSameId) (rev r) p_init) in *.
  destruct e as [|id]; cbn [pstep].
  - destruct (mem_id (p_next s) (p_pending s)) eqn:Em.
    + apply mem_id_In, Hb in Em. lia.
    + cbn. split; [|assumption]. intros x [<-|Hin]; [lia|]. apply Hb in Hin. lia.
  - cbn. split; [|assumption]. intros x Hin. apply remove_id_In in Hin. apply Hb. apply Hin.
Qed.

(** Age does not matter: a call that was sent and whose reply has not been
    fetched is still pending after ANY number of newer sends and of replies to
    other calls. *)
Theorem pending_until_own_reply : forall before after id,
  id = p_next (prun EvictSameId before) ->
  ~ In (PReply id) after ->
  In id (p_pending (prun EvictSameId (before ++ PSend :: after))).
Proof.
  intros before after id Hid Hno. unfold prun. rewrite fold_left_app. cbn [fold_left].
  fold (prun EvictSameId before).
  set (s0 := pstep EvictSameId (prun EvictSameId before) PSend).
  assert (H0 : In id (p_pending s0)).
  { subst s0. cbn [pstep]. destruct (mem_id _ _); cbn; left; congruence. }
  assert (Hn0 : id < p_next s0).
  { subst s0. cbn [pstep]. destruct (mem_id _ _); cbn; lia. }
  clearbody s0. revert s0 H0 Hn0. induction after as [|e r IH]; intros s0 H0 Hn0; [exact H0|].
  cbn [fold_left]. apply IH.
  - intros H. apply Hno. right. exact H.
  - destruct e as [|j]; cbn [pstep].
    + destruct (mem_id (p_next s0) (p_pending s0)); cbn [p_pending].
      * right. apply remove_id_In. split; [assumption|lia].
      * right. assumption.
    + cbn [p_pending]. apply remove_id_In. split; [assumption|]. intros ->. apply Hno. left. reflexivity.
  - destruct e as [|j]; cbn [pstep]; [destruct (mem_id _ _); cbn; lia|cbn; assumption].
Qed.

(** A windowed eviction: the first call is sent, w newer calls follow, no reply
    to the first one was fetched - and it is no longer pending; it was failed
    with errTooLong. *)
Lemma window_evicts_old_call w :
  let s := prun (EvictWindow (S w)) (PSend :: repeat PSend (S w)) in
  ~ In 0 (p_pending s) /\ In 0 (p_evicted s).
Proof.
  (* after k+1 sends with k <= w: pending = [k; ...; 0], nothing evicted *)
  assert (Hk : forall k, k <= w ->
            let s := prun (EvictWindow (S w)) (repeat PSend (S k)) in
            p_next s = S k /\ p_evicted s = [] /\ In 0 (p_pending s) /\ (forall x, In x (p_pending s) -> x <= k)).
  { induction k as [|k IH]; intros Hle.
    - cbn. repeat split; auto. intros x [<-|[]]. lia.
    - specialize (IH (Nat.le_trans _ _ _ (Nat.le_succ_diag_r k) Hle)).
      change (repeat PSend (S (S k))) with (PSend :: repeat PSend (S k)).
      replace (PSend :: repeat PSend (S k)) with (repeat PSend (S k) ++ [PSend])
        by (rewrite <- repeat_cons; reflexivity).
      unfold prun. rewrite fold_left_app. cbn [fold_left]. fold (prun (EvictWindow (S w)) (repeat PSend (S k))).
      destruct IH as (Hn & He & H0 & Hb). cbn [pstep]. rewrite Hn.
      assert (Hl : Nat.leb (S w) (S k) = false) by (apply Nat.leb_gt; lia). rewrite Hl.
      cbn. repeat split; auto. intros x [<-|Hin]; [lia|]. apply Hb in Hin. lia. }
  replace (PSend :: repeat PSend (S w)) with (repeat PSend (S w) ++ [PSend])
    by (rewrite <- repeat_cons; reflexivity).
  cbn zeta. unfold prun. rewrite fold_left_app. cbn [fold_left]. fold (prun (EvictWindow (S w)) (repeat PSend (S w))).
  destruct (Hk w (Nat.le_refl w)) as (Hn & He & H0 & Hb). cbn [pstep]. rewrite Hn.
  rewrite Nat.leb_refl, Nat.sub_diag.
  apply mem_id_In in H0. rewrite H0. cbn [p_pending p_evicted]. split.
  - intros [H|H]; [discriminate|]. apply remove_id_In in H. destruct H as [_ H]. contradiction.
  - left. reflexivity.
Qed.
