(** Contexts that end: the transport model of Sni/Rpc.v with the queue of
    calls made explicit and "the caller gives up" as an event.

    [transport.call] waits in a select on the caller's context, on the
    call's [done] channel and on [serveDone].  The context may end at any
    point of the call's life: before [asyncCall] has put the exchange into
    [tr.calls], while it sits there, after [serve] has taken it (id assigned,
    request written, recorded in [pending]), after the peer has answered.
    The coarse model abstracts a call to the moment [serve] takes it
    ([ECall]); here that moment is split into

      - [XEnqueue c]   asyncCall: the exchange of call [c] goes into [tr.calls]
      - [XTake ok]     serve takes the oldest queued exchange, assigns the next
                       id, writes the request ([ok]: the write succeeded)
      - [XGiveUp k]    the context of caller [k] ends; [transport.call] returns
      - [XOther e]     any other event of the coarse model

    What [transport.call] does to the TRANSPORT when it gives up is a
    parameter ([giveup_shape]), read off the source by the translator
    (Sni/RpcGen.v): in the source now it is nothing at all.

    Definitions only; proofs in RpcCtxProofs.v. *)
From Coq Require Import List NArith ZArith Bool String.
From Verif Require Import Lib.Bytes Sni.Wire Sni.Rpc.
Import ListNotations.
Local Open Scope N_scope.

Inductive giveup_shape :=
| GuSilent       (* return ctx.Err(): nothing is sent to the serve goroutine *)
| GuFetchField.  (* before returning, ask serve (through pendingFetch) to drop pending[ex.id],
                    with ex.id read from the exchange as it is at that moment: the id
                    serve has assigned, or the zero value if serve has not taken it yet *)

Inductive xevent :=
| XEnqueue (c : pcall)
| XTake (sendok : bool)
| XGiveUp (k : N)
| XOther (e : event).

Record xst := mkX {
  x_st : st;                 (* the transport of Sni/Rpc.v *)
  x_queue : list pcall;      (* tr.calls, oldest first *)
  x_ids : list (N * N);      (* caller -> the id serve has written into its exchange *)
  x_gone : list N            (* callers whose context ended before the transport completed them *)
}.

Definition xinit : xst := mkX init_st [] [] [].

Definition in_queue (k : N) (q : list pcall) : bool :=
  existsb (fun c => pc_caller c =? k) q.

(** serve services a fetch request for id [i] that nobody reads the answer of. *)
Definition drop_entry (i : N) (s : st) : st :=
  if running s then set_pending (remove i (pending s)) s else s.

Section Model.
Variable alloc_max idmod : N.
Variable shape : giveup_shape.

Definition xstep (s : xst) (e : xevent) : xst :=
  match e with
  | XEnqueue c => mkX (x_st s) (x_queue s ++ [c]) (x_ids s) (x_gone s)
  | XTake ok =>
      match x_queue s with
      | c :: q =>
          (* (once serve has returned nobody takes anything: [step] ignores the call) *)
          mkX (step alloc_max idmod (x_st s) (ECall c ok)) q
              ((pc_caller c, next_id (x_st s)) :: x_ids s) (x_gone s)
      | [] => s
      end
  | XGiveUp k =>
      let gone := if completed k (x_st s) then x_gone s else k :: x_gone s in
      match shape with
      | GuSilent => mkX (x_st s) (x_queue s) (x_ids s) gone
      | GuFetchField =>
          match assoc_N k (x_ids s) with
          | Some i => mkX (drop_entry i (x_st s)) (x_queue s) (x_ids s) gone
          | None =>
              if in_queue k (x_queue s)
              then mkX (drop_entry 0 (x_st s)) (x_queue s) (x_ids s) gone   (* ex.id is still 0 *)
              else mkX (x_st s) (x_queue s) (x_ids s) gone                  (* never enqueued: asyncCall returned ctx.Err() *)
          end
      end
  | XOther e =>
      if is_call e then s               (* calls reach serve through the queue only *)
      else mkX (step alloc_max idmod (x_st s) e) (x_queue s) (x_ids s) (x_gone s)
  end.

Definition xrun_from (s : xst) (tr : list xevent) : xst := fold_left xstep tr s.
Definition xrun (tr : list xevent) : xst := xrun_from xinit tr.

(** The history the transport sees: give-ups and enqueues erased, every take
    replaced by the call taken. *)
Fixpoint project (q : list pcall) (tr : list xevent) : list event :=
  match tr with
  | [] => []
  | XEnqueue c :: r => project (q ++ [c]) r
  | XTake ok :: r =>
      match q with
      | c :: q' => ECall c ok :: project q' r
      | [] => project q r
      end
  | XGiveUp _ :: r => project q r
  | XOther e :: r => if is_call e then project q r else e :: project q r
  end.

(** What caller [k] gets back from [transport.call]. *)
Inductive view := VCtx | VResult (r : result) | VWaiting.

Definition xview (s : xst) (k : N) : view :=
  if existsb (N.eqb k) (x_gone s) then VCtx
  else match status (x_st s) k with Some r => VResult r | None => VWaiting end.

End Model.
