(** Model of the state that keeps concurrent connections apart:
    - sniproxy/session_id.go  (the locked counter),
    - sniproxy/conn_mailbox.go (connMailOffice / connMailBox: pending side
      dials keyed by session id, matched on id and key),
    - sniproxy/connections.go  (the endpoint's session table).

    Every method of these types runs under the type's mutex, so an execution
    of any number of goroutines is a sequence of whole operations; the model
    is the transition function on one operation, and the theorems quantify
    over all operation sequences (all schedules, any number of dials, and
    deliveries with arbitrary - also adversarial - keys).

    Definitions only; proofs are in MailboxProofs.v. *)
From Coq Require Import List NArith Bool.
Import ListNotations.
Local Open Scope N_scope.

(** * The mail office *)

(** A box on the heap; its handle is its index.  [bx_ch]: the connection
    waiting in the 1-slot channel (connections are named by a tag). *)
Record box := mkBox { bx_id : N; bx_key : N; bx_ch : option N; bx_closed : bool }.

Record office := mkOffice {
  o_next : N;                  (* sessionID.id *)
  o_boxes : list box;          (* heap of boxes, handle = position *)
  o_map : list (N * nat);      (* connMailOffice.m: id -> handle (first match) *)
  o_log : list (N * N * N);    (* ghost: deliveries that passed the id and key test: (id, key, tag) *)
  o_recv : list (nat * N)      (* ghost: (handle, tag) for every connection a receive returned *)
}.

Definition office_init : office := mkOffice 0 [] [] [] [].

Inductive op :=
| ONext                              (* sessionID.next() *)
| ONewBox (id key : N)               (* office.newBox(&sessionKey{id, key}) *)
| ODeliver (id key tag : N)          (* office.deliver(&sessionKey{id, key}, conn#tag) *)
| OReceive (h : nat) (pick_closed : bool)
    (* box.receive(ctx) with a live ctx; when both the closed channel and the
       connection channel are ready Go's select picks either: the flag is the
       scheduler's choice *)
| OCleanUp (h : nat).                (* box.cleanUp() *)

Inductive obs :=
| VId (id : N)              (* next() *)
| VHandle (h : nat)         (* newBox *)
| VDelivered                (* deliver returned nil (connection queued, or dropped because the slot was taken) *)
| VNotFound                 (* "session not found" *)
| VMismatch                 (* "key mismatch" *)
| VConn (tag : N)           (* receive returned this connection *)
| VClosed                   (* receive: box closed *)
| VBlocked                  (* receive would block *)
| VDone                     (* cleanUp *)
| VBadHandle.               (* not an operation of the code: a handle that does not exist *)

Fixpoint map_get (id : N) (m : list (N * nat)) : option nat :=
  match m with
  | [] => None
  | (k, h) :: r => if k =? id then Some h else map_get id r
  end.

Fixpoint map_del (id : N) (m : list (N * nat)) : list (N * nat) :=
  match m with
  | [] => []
  | (k, h) :: r => if k =? id then map_del id r else (k, h) :: map_del id r
  end.

Definition map_set (id : N) (h : nat) (m : list (N * nat)) : list (N * nat) :=
  (id, h) :: map_del id m.

Fixpoint upd_box (h : nat) (f : box -> box) (bs : list box) : list box :=
  match bs, h with
  | [], _ => []
  | b :: r, O => f b :: r
  | b :: r, S h' => b :: upd_box h' f r
  end.

Definition close_box (b : box) : box := mkBox (bx_id b) (bx_key b) (bx_ch b) true.
Definition put_box (tag : N) (b : box) : box :=
  match bx_ch b with
  | None => mkBox (bx_id b) (bx_key b) (Some tag) (bx_closed b)
  | Some _ => b                                        (* select default: dropped *)
  end.
Definition take_box (b : box) : box := mkBox (bx_id b) (bx_key b) None (bx_closed b).

(** connMailBox.match *)
Definition box_match (b : box) (id key : N) : bool := (bx_id b =? id) && (bx_key b =? key).

Definition step (o : office) (p : op) : office * obs :=
  match p with
  | ONext =>
      (mkOffice (o_next o + 1) (o_boxes o) (o_map o) (o_log o) (o_recv o), VId (o_next o))
  | ONewBox id key =>
      let boxes := match map_get id (o_map o) with
                   | Some cur => upd_box cur close_box (o_boxes o)   (* close the pending one *)
                   | None => o_boxes o
                   end in
      let h := length boxes in
      (mkOffice (o_next o) (boxes ++ [mkBox id key None false]) (map_set id h (o_map o))
         (o_log o) (o_recv o), VHandle h)
  | ODeliver id key tag =>
      match map_get id (o_map o) with
      | None => (o, VNotFound)
      | Some h =>
          match nth_error (o_boxes o) h with
          | None => (o, VBadHandle)
          | Some b =>
              if box_match b id key then
                (mkOffice (o_next o) (upd_box h (put_box tag) (o_boxes o)) (o_map o)
                   (match bx_ch b with None => (id, key, tag) :: o_log o | Some _ => o_log o end)
                   (o_recv o), VDelivered)
              else (o, VMismatch)
          end
      end
  | OReceive h pick_closed =>
      match nth_error (o_boxes o) h with
      | None => (o, VBadHandle)
      | Some b =>
          match bx_ch b with
          | Some tag =>
              if bx_closed b && pick_closed then (o, VClosed)
              else (mkOffice (o_next o) (upd_box h take_box (o_boxes o)) (o_map o) (o_log o)
                      ((h, tag) :: o_recv o), VConn tag)
          | None => if bx_closed b then (o, VClosed) else (o, VBlocked)
          end
      end
  | OCleanUp h =>
      match nth_error (o_boxes o) h with
      | None => (o, VBadHandle)
      | Some b =>
          let boxes := upd_box h close_box (o_boxes o) in
          let m := match map_get (bx_id b) (o_map o) with
                   | Some h' =>
                       match nth_error (o_boxes o) h' with
                       | Some b' => if box_match b' (bx_id b) (bx_key b)
                                    then map_del (bx_id b) (o_map o) else o_map o
                       | None => o_map o
                       end
                   | None => o_map o
                   end in
          (mkOffice (o_next o) boxes m (o_log o) (o_recv o), VDone)
      end
  end.

Fixpoint run (o : office) (ps : list op) : office * list obs :=
  match ps with
  | [] => (o, [])
  | p :: r =>
      let '(o1, v) := step o p in
      let '(o2, vs) := run o1 r in
      (o2, v :: vs)
  end.

(** ids handed out by next(), in order *)
Fixpoint ids_of (vs : list obs) : list N :=
  match vs with
  | [] => []
  | VId i :: r => i :: ids_of r
  | _ :: r => ids_of r
  end.

(** * The endpoint's session table (connections.go) *)

(** A connection object: its session id (c.session()) and an identity. *)
Record cobj := mkC { c_sess : N; c_ident : N }.

Record ctable := mkT { t_closed : bool; t_map : list (N * cobj) }.

Definition ctable_init : ctable := mkT false [].

Inductive cop :=
| CAdd (c : cobj)
| CGet (id : N)
| CRemove (id : N)
| CShutdown.

Inductive cobs :=
| WOk
| WShutdown                (* errAlreadyShutdown *)
| WConflict                (* session id conflict *)
| WNotFound
| WFound (c : cobj)
| WAll (l : list cobj).    (* shutdown: everything that was in the table *)

Fixpoint t_get (id : N) (m : list (N * cobj)) : option cobj :=
  match m with
  | [] => None
  | (k, c) :: r => if k =? id then Some c else t_get id r
  end.

Fixpoint t_del (id : N) (m : list (N * cobj)) : list (N * cobj) :=
  match m with
  | [] => []
  | (k, c) :: r => if k =? id then t_del id r else (k, c) :: t_del id r
  end.

Definition cstep (t : ctable) (p : cop) : ctable * cobs :=
  match p with
  | CAdd c =>
      if t_closed t then (t, WShutdown)
      else match t_get (c_sess c) (t_map t) with
           | Some _ => (t, WConflict)
           | None => (mkT false ((c_sess c, c) :: t_map t), WOk)
           end
  | CGet id =>
      if t_closed t then (t, WShutdown)
      else match t_get id (t_map t) with
           | Some c => (t, WFound c)
           | None => (t, WNotFound)
           end
  | CRemove id =>
      if t_closed t then (t, WShutdown)
      else match t_get id (t_map t) with
           | Some _ => (mkT false (t_del id (t_map t)), WOk)
           | None => (t, WNotFound)
           end
  | CShutdown =>
      if t_closed t then (t, WAll [])
      else (mkT true (t_map t), WAll (map snd (t_map t)))
  end.

Fixpoint crun (t : ctable) (ps : list cop) : ctable * list cobs :=
  match ps with
  | [] => (t, [])
  | p :: r =>
      let '(t1, v) := cstep t p in
      let '(t2, vs) := crun t1 r in
      (t2, v :: vs)
  end.
