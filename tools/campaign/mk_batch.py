import json, glob, os, subprocess, sys
batch = sys.argv[1]
tmpl = open('/tmp/mut/PROMPT.tmpl').read()
focus0 = open('/tmp/mut/C01-r3g/PROMPT.txt').read()
i = focus0.index('Focus for this task (so that different people produce different changes): ') + len('Focus for this task (so that different people produce different changes): ')
j = focus0.index('at a different site:') + len('at a different site:')
focus_head = focus0[i:j]
props = [json.loads(l) for l in open('/verif/properties.jsonl')]
for p in props:
    pid = p['id']; tag = f'{pid}-{batch}'; d = f'/tmp/mut/{tag}'
    os.makedirs(d + '/out', exist_ok=True)
    subprocess.run(['git','-C','/repo','worktree','add','-q','--detach',d+'/wt','HEAD'],check=True)
    json.dump(p, open(d+'/PROPERTY.json','w'), indent=1)
    prev = []
    for f in sorted(glob.glob(f'/verif/seeded/{pid}-*/meta.json')):
        m = json.load(open(f)); prev.append('  - ' + m['needs_to_manifest'].replace('\n',' ')[:600])
    focus = focus_head + '\n' + '\n'.join(prev)
    s = tmpl.replace('@TAG@', tag).replace('@LTAG@', tag.lower().replace('-','_')).replace('@PROPERTY@', json.dumps(p, indent=1)).replace('@FOCUS@', focus)
    open(d+'/PROMPT.txt','w').write(s)
    print(tag, len(prev))
