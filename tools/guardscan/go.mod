module guardscan

go 1.21
