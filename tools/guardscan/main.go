// Command guardscan enumerates small semantic changes ("guard mutants") of
// selected functions of a Go source tree: a guard switched off, a comparison
// moved by one, a disjunct / conjunct dropped, Before/After moved onto the
// boundary, an integer constant moved by one.  It is used to find out which
// changes of the functions a frozen-text obligation pins would be noticed by
// nothing else (checks' Task: "what remains frozen-only").
//
//	guardscan -repo DIR -list                 print the mutants, one per line: id<TAB>file<TAB>func<TAB>description
//	guardscan -repo DIR -apply ID             rewrite the file of mutant ID in place
//
// Functions are given as pkgdir:Recv.Name or pkgdir:Name, comma separated (-funcs),
// constants as pkgdir:name (-consts).  Standard library only.
package main

import (
	"bytes"
	"flag"
	"fmt"
	"go/ast"
	"go/format"
	"go/parser"
	"go/token"
	"os"
	"path/filepath"
	"sort"
	"strconv"
	"strings"
)

type mutant struct {
	file, fn, desc string
	apply          func()
	f              *ast.File
}

func recvName(fd *ast.FuncDecl) string {
	if fd.Recv == nil || len(fd.Recv.List) == 0 {
		return ""
	}
	t := fd.Recv.List[0].Type
	if s, ok := t.(*ast.StarExpr); ok {
		t = s.X
	}
	if id, ok := t.(*ast.Ident); ok {
		return id.Name
	}
	return ""
}

func src(fset *token.FileSet, n ast.Node) string {
	var b bytes.Buffer
	format.Node(&b, fset, n)
	return strings.Join(strings.Fields(b.String()), " ")
}

func main() {
	repo := flag.String("repo", "", "source tree")
	funcs := flag.String("funcs", "", "pkgdir:Recv.Name,...")
	consts := flag.String("consts", "", "pkgdir:name,...")
	list := flag.Bool("list", false, "list mutants")
	applyID := flag.Int("apply", -1, "apply mutant")
	flag.Parse()
	fset := token.NewFileSet()
	want := map[string]bool{}
	dirs := map[string]bool{}
	for _, f := range strings.Split(*funcs, ",") {
		if f = strings.TrimSpace(f); f != "" {
			want[f] = true
			dirs[strings.SplitN(f, ":", 2)[0]] = true
		}
	}
	wantC := map[string]bool{}
	for _, c := range strings.Split(*consts, ",") {
		if c = strings.TrimSpace(c); c != "" {
			wantC[c] = true
			dirs[strings.SplitN(c, ":", 2)[0]] = true
		}
	}
	var ds []string
	for d := range dirs {
		ds = append(ds, d)
	}
	sort.Strings(ds)
	var ms []*mutant
	for _, d := range ds {
		names, _ := filepath.Glob(filepath.Join(*repo, d, "*.go"))
		sort.Strings(names)
		for _, fn := range names {
			if strings.HasSuffix(fn, "_test.go") || strings.Contains(filepath.Base(fn), "verif_") {
				continue
			}
			f, err := parser.ParseFile(fset, fn, nil, parser.ParseComments)
			if err != nil {
				fmt.Fprintln(os.Stderr, err)
				os.Exit(2)
			}
			for _, decl := range f.Decls {
				switch dd := decl.(type) {
				case *ast.FuncDecl:
					name := dd.Name.Name
					if r := recvName(dd); r != "" {
						name = r + "." + name
					}
					if !want[d+":"+name] || dd.Body == nil {
						continue
					}
					ms = append(ms, mutate(fset, f, fn, d+":"+name, dd.Body)...)
				case *ast.GenDecl:
					if dd.Tok != token.CONST {
						continue
					}
					for _, s := range dd.Specs {
						vs := s.(*ast.ValueSpec)
						for i, nm := range vs.Names {
							if !wantC[d+":"+nm.Name] || i >= len(vs.Values) {
								continue
							}
							ms = append(ms, litMutants(fset, f, fn, "const "+d+":"+nm.Name, vs.Values[i])...)
						}
					}
				}
			}
		}
	}
	if *list {
		for i, m := range ms {
			fmt.Printf("%d\t%s\t%s\t%s\n", i, strings.TrimPrefix(m.file, *repo+"/"), m.fn, m.desc)
		}
		return
	}
	if *applyID >= 0 && *applyID < len(ms) {
		m := ms[*applyID]
		m.apply()
		var b bytes.Buffer
		if err := format.Node(&b, fset, m.f); err != nil {
			fmt.Fprintln(os.Stderr, err)
			os.Exit(2)
		}
		if err := os.WriteFile(m.file, b.Bytes(), 0o644); err != nil {
			fmt.Fprintln(os.Stderr, err)
			os.Exit(2)
		}
		fmt.Printf("%s\t%s\t%s\n", strings.TrimPrefix(m.file, *repo+"/"), m.fn, m.desc)
		return
	}
	os.Exit(2)
}

func litMutants(fset *token.FileSet, f *ast.File, file, fn string, e ast.Expr) []*mutant {
	var ms []*mutant
	ast.Inspect(e, func(n ast.Node) bool {
		bl, ok := n.(*ast.BasicLit)
		if !ok || bl.Kind != token.INT {
			return true
		}
		v, err := strconv.ParseInt(bl.Value, 0, 64)
		if err != nil {
			return true
		}
		old := bl.Value
		for _, d := range []int64{1, -1} {
			nv := strconv.FormatInt(v+d, 10)
			ms = append(ms, &mutant{file: file, fn: fn, f: f, desc: fmt.Sprintf("constant %s -> %s in %s", old, nv, src(fset, e)),
				apply: func() { bl.Value = nv }})
		}
		return true
	})
	return ms
}

func mutate(fset *token.FileSet, f *ast.File, file, fn string, body *ast.BlockStmt) []*mutant {
	var ms []*mutant
	add := func(desc string, apply func()) {
		ms = append(ms, &mutant{file: file, fn: fn, f: f, desc: desc, apply: apply})
	}
	flip := map[token.Token]token.Token{token.LSS: token.LEQ, token.LEQ: token.LSS, token.GTR: token.GEQ, token.GEQ: token.GTR}
	ast.Inspect(body, func(n ast.Node) bool {
		switch s := n.(type) {
		case *ast.IfStmt:
			st := s
			add("guard off: if "+src(fset, st.Cond), func() {
				// keep the condition evaluated (it may declare nothing, but may be needed for "declared and not used")
				st.Cond = &ast.BinaryExpr{X: &ast.ParenExpr{X: st.Cond}, Op: token.LAND, Y: ast.NewIdent("false")}
			})
		case *ast.BinaryExpr:
			be := s
			if to, ok := flip[be.Op]; ok {
				from := be.Op
				add(fmt.Sprintf("%s -> %s in %s", from, to, src(fset, be)), func() { be.Op = to })
			}
			if be.Op == token.NEQ {
				// x != c  ->  x < c   (a length test that still lets longer inputs through)
				if _, isCall := be.X.(*ast.CallExpr); isCall && strings.HasPrefix(src(fset, be.X), "len(") {
					add(fmt.Sprintf("!= -> < in %s", src(fset, be)), func() { be.Op = token.LSS })
				}
			}
			if be.Op == token.LOR || be.Op == token.LAND {
				d := src(fset, be)
				x, y := be.X, be.Y
				add("left operand only of "+d, func() { be.Y = x })
				add("right operand only of "+d, func() { be.X = y })
			}
		case *ast.CallExpr:
			ce := s
			if sel, ok := ce.Fun.(*ast.SelectorExpr); ok && len(ce.Args) == 1 && (sel.Sel.Name == "Before" || sel.Sel.Name == "After") {
				// a.Before(b) -> !a.After(b)  i.e. a <= b ; a.After(b) -> !a.Before(b) i.e. a >= b
				name := sel.Sel.Name
				recv, arg := sel.X, ce.Args[0]
				d := src(fset, ce)
				other := map[string]string{"Before": "After", "After": "Before"}[name]
				add("boundary included: "+d+" -> !"+other, func() {
					inner := &ast.CallExpr{Fun: &ast.SelectorExpr{X: recv, Sel: ast.NewIdent(other)}, Args: []ast.Expr{arg}}
					ce.Fun = &ast.FuncLit{
						Type: &ast.FuncType{Params: &ast.FieldList{}, Results: &ast.FieldList{List: []*ast.Field{{Type: ast.NewIdent("bool")}}}},
						Body: &ast.BlockStmt{List: []ast.Stmt{&ast.ReturnStmt{Results: []ast.Expr{&ast.UnaryExpr{Op: token.NOT, X: inner}}}}}}
					ce.Args = nil
				})
			}
		case *ast.BasicLit:
			if s.Kind == token.INT {
				ms = append(ms, litMutants(fset, f, file, fn, s)...)
			}
		}
		return true
	})
	return ms
}
