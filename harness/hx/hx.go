// Package hx has the helpers shared by the correspondence harnesses: a
// seeded PRNG, JSON-lines output and a crash-isolating batch runner.
package hx

import (
	"bufio"
	"encoding/json"
	"fmt"
	"io"
	"os"
	"os/exec"
	"strconv"
	"syscall"
)

// Rng is a splitmix64 generator: every random choice of a run derives from
// one seed, so a run replays exactly.
type Rng struct{ s uint64 }

func NewRng(seed uint64) *Rng { return &Rng{s: seed*0x9e3779b97f4a7c15 + 0x1234567} }

func (r *Rng) U64() uint64 {
	r.s += 0x9e3779b97f4a7c15
	z := r.s
	z = (z ^ (z >> 30)) * 0xbf58476d1ce4e5b9
	z = (z ^ (z >> 27)) * 0x94d049bb133111eb
	return z ^ (z >> 31)
}

func (r *Rng) Intn(n int) int {
	if n <= 0 {
		return 0
	}
	return int(r.U64() % uint64(n))
}

func (r *Rng) Bool() bool { return r.U64()&1 == 1 }

func (r *Rng) Bytes(n int) []byte {
	b := make([]byte, n)
	for i := range b {
		b[i] = byte(r.U64())
	}
	return b
}

func PickU64(r *Rng, xs []uint64) uint64 { return xs[r.Intn(len(xs))] }

// Out writes JSON lines.
type Out struct {
	w *bufio.Writer
}

func NewOut(w io.Writer) *Out { return &Out{w: bufio.NewWriterSize(w, 1<<20)} }

func (o *Out) Emit(v interface{}) {
	bs, err := json.Marshal(v)
	if err != nil {
		panic(err)
	}
	o.w.Write(bs)
	o.w.WriteByte('\n')
	o.w.Flush()
}

// RunIsolated runs cases [0,n) in child processes of this same binary
// (re-executed with childArgs + "-from k"), so that a fatal crash (out of
// memory, stack overflow, unrecovered panic in another goroutine) is observed
// as the result of one case instead of killing the harness. The child must
// print exactly one JSON line per case, in order, each with field "i".
// For a case on which the child died, crashed(i, why) is called.
func RunIsolated(n int, childArgs []string, memLimit uint64, line func(i int, raw []byte), crashed func(i int, why string)) error {
	from := 0
	for from < n {
		args := append(append([]string{}, childArgs...), "-child", "-from", strconv.Itoa(from), "-mem", strconv.FormatUint(memLimit, 10))
		cmd := exec.Command(os.Args[0], args...)
		cmd.Stderr = nil
		stdout, err := cmd.StdoutPipe()
		if err != nil {
			return err
		}
		var errTail tailBuf
		cmd.Stderr = &errTail
		if err := cmd.Start(); err != nil {
			return err
		}
		sc := bufio.NewScanner(stdout)
		sc.Buffer(make([]byte, 1<<20), 1<<28)
		next := from
		for sc.Scan() {
			raw := append([]byte{}, sc.Bytes()...)
			line(next, raw)
			next++
		}
		werr := cmd.Wait()
		if next >= n {
			break
		}
		if werr == nil && next < n {
			return fmt.Errorf("child exited cleanly after %d of %d cases", next, n)
		}
		crashed(next, firstLine(errTail.String()))
		from = next + 1
	}
	return nil
}

type tailBuf struct{ b []byte }

func (t *tailBuf) Write(p []byte) (int, error) {
	if len(t.b) < 4096 {
		t.b = append(t.b, p...)
	}
	return len(p), nil
}
func (t *tailBuf) String() string { return string(t.b) }

func firstLine(s string) string {
	for i, c := range s {
		if c == '\n' {
			return s[:i]
		}
	}
	return s
}

// LimitMemory sets RLIMIT_AS for this process.
func LimitMemory(bytes uint64) {
	if bytes == 0 {
		return
	}
	lim := &syscall.Rlimit{Cur: bytes, Max: bytes}
	syscall.Setrlimit(syscall.RLIMIT_AS, lim)
}
