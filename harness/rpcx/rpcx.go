// Package rpcx has what the sniproxy RPC harnesses (c03, c04, c15) share:
// a websocket pair over loopback, a tap on the standard logger used as a
// synchronisation signal, the JSON form of wire fields, and a filtered
// goroutine profile.
package rpcx

import (
	"bytes"
	"encoding/hex"
	"fmt"
	"log"
	"net"
	"net/http"
	"net/http/httptest"
	"runtime/pprof"
	"sort"
	"strconv"
	"strings"
	"sync"
	"sync/atomic"
	"time"

	"github.com/gorilla/websocket"
	"shanhu.io/g/sniproxy"
)

// ---- websocket pair ------------------------------------------------------

// WSPair is two ends of one websocket connection over loopback TCP.
type WSPair struct {
	A, B *websocket.Conn // A: upgraded (server) side, B: dialled (client) side
	ts   *httptest.Server
	maxA *atomic.Int64 // A's network connection returns at most that many bytes per Read (0: no limit)
}

// LimitReadsA makes the network connection under A deliver at most k bytes
// per Read from now on (0: whatever the kernel has).
func (p *WSPair) LimitReadsA(k int) { p.maxA.Store(int64(k)) }

type chunkConn struct {
	net.Conn
	max *atomic.Int64
}

func (c *chunkConn) Read(b []byte) (int, error) {
	if m := c.max.Load(); m > 0 && int64(len(b)) > m {
		b = b[:m]
	}
	return c.Conn.Read(b)
}

type chunkListener struct {
	net.Listener
	max *atomic.Int64
}

func (l *chunkListener) Accept() (net.Conn, error) {
	c, err := l.Listener.Accept()
	if err != nil {
		return nil, err
	}
	return &chunkConn{Conn: c, max: l.max}, nil
}

// WriteFragmentedClient sends data as ONE binary websocket message in two
// fragments, the first with the first `first` bytes, written straight onto
// the network connection of the dialled side c (client frames: masked).  No
// other write on c may be in progress.  With first <= 0 or >= len(data) it
// is an ordinary single-frame message.
func WriteFragmentedClient(c *websocket.Conn, data []byte, first int) error {
	if first <= 0 || first >= len(data) {
		return c.WriteMessage(websocket.BinaryMessage, data)
	}
	frame := func(fin bool, opcode byte, payload []byte) []byte {
		b0 := opcode
		if fin {
			b0 |= 0x80
		}
		out := []byte{b0}
		n := len(payload)
		switch {
		case n < 126:
			out = append(out, 0x80|byte(n))
		case n < 65536:
			out = append(out, 0x80|126, byte(n>>8), byte(n))
		default:
			out = append(out, 0x80|127, 0, 0, 0, 0, byte(n>>24), byte(n>>16), byte(n>>8), byte(n))
		}
		key := [4]byte{0x3a, 0x91, 0x5c, 0xe7}
		out = append(out, key[:]...)
		for i, x := range payload {
			out = append(out, x^key[i%4])
		}
		return out
	}
	buf := append(frame(false, websocket.BinaryMessage, data[:first]), frame(true, 0, data[first:])...)
	_, err := c.UnderlyingConn().Write(buf)
	return err
}

// NewWSPair makes a connected pair.
func NewWSPair() (*WSPair, error) {
	up := &websocket.Upgrader{ReadBufferSize: 64 * 1024, WriteBufferSize: 64 * 1024}
	got := make(chan *websocket.Conn, 1)
	hold := make(chan struct{})
	maxA := new(atomic.Int64)
	ts := httptest.NewUnstartedServer(http.HandlerFunc(func(w http.ResponseWriter, r *http.Request) {
		c, err := up.Upgrade(w, r, nil)
		if err != nil {
			got <- nil
			return
		}
		got <- c
		<-hold
	}))
	ts.Listener = &chunkListener{Listener: ts.Listener, max: maxA}
	ts.Start()
	p := &WSPair{ts: ts, maxA: maxA}
	u := "ws" + strings.TrimPrefix(ts.URL, "http")
	d := &websocket.Dialer{ReadBufferSize: 64 * 1024, WriteBufferSize: 64 * 1024}
	b, _, err := d.Dial(u, nil)
	if err != nil {
		close(hold)
		ts.Close()
		return nil, err
	}
	a := <-got
	close(hold) // the connection is hijacked; the handler may return
	if a == nil {
		b.Close()
		ts.Close()
		return nil, fmt.Errorf("upgrade failed")
	}
	p.A, p.B = a, b
	return p, nil
}

// Close closes both ends and the HTTP server.
func (p *WSPair) Close() {
	p.A.Close()
	p.B.Close()
	p.ts.Close()
}

// ---- log tap ---------------------------------------------------------------

// LogTap receives everything written through the standard logger and lets
// callers wait for a line containing a marker.
type LogTap struct {
	mu    sync.Mutex
	buf   []byte
	lines []string
	cond  *sync.Cond
	Keep  bool
	delay atomic.Int64
}

// InstallLogTap redirects the standard logger into a new tap.
func InstallLogTap() *LogTap {
	t := &LogTap{}
	t.cond = sync.NewCond(&t.mu)
	log.SetFlags(0)
	log.SetOutput(t)
	return t
}

// SetDelay makes every later log line take d: the goroutine that logs is
// held inside log.Printf for that long, which widens every window of the
// code under test that contains a log statement.
func (t *LogTap) SetDelay(d time.Duration) { t.delay.Store(int64(d)) }

func (t *LogTap) Write(p []byte) (int, error) {
	if d := time.Duration(t.delay.Load()); d > 0 {
		time.Sleep(d)
	}
	t.mu.Lock()
	t.buf = append(t.buf, p...)
	for {
		i := bytes.IndexByte(t.buf, '\n')
		if i < 0 {
			break
		}
		t.lines = append(t.lines, string(t.buf[:i]))
		t.buf = t.buf[i+1:]
	}
	if len(t.lines) > 4096 {
		t.lines = t.lines[len(t.lines)-2048:]
	}
	t.cond.Broadcast()
	t.mu.Unlock()
	return len(p), nil
}

// Has reports whether a line containing marker has been logged.
func (t *LogTap) Has(marker string) bool {
	t.mu.Lock()
	defer t.mu.Unlock()
	for _, l := range t.lines {
		if strings.Contains(l, marker) {
			return true
		}
	}
	return false
}

// Count returns the number of lines containing marker.
func (t *LogTap) Count(marker string) int {
	t.mu.Lock()
	defer t.mu.Unlock()
	n := 0
	for _, l := range t.lines {
		if strings.Contains(l, marker) {
			n++
		}
	}
	return n
}

// Reset forgets the lines seen so far.
func (t *LogTap) Reset() {
	t.mu.Lock()
	t.lines = nil
	t.mu.Unlock()
}

// WaitAny polls until a line containing marker was logged, stop is closed, or
// the timeout passes. It returns "marker", "stop" or "timeout".
func (t *LogTap) WaitAny(marker string, stop <-chan struct{}, d time.Duration) string {
	deadline := time.Now().Add(d)
	for {
		if t.Has(marker) {
			return "marker"
		}
		select {
		case <-stop:
			// give a marker that raced with stop a last chance
			if t.Has(marker) {
				return "marker"
			}
			return "stop"
		default:
		}
		if time.Now().After(deadline) {
			return "timeout"
		}
		time.Sleep(200 * time.Microsecond)
	}
}

// ---- fields ----------------------------------------------------------------

// Seg is a piece of a byte string: literal hex, or a run of one byte.
type Seg struct {
	Hex string `json:"hex,omitempty"`
	Rep []int  `json:"rep,omitempty"` // [byte, count]
}

// SegBytes expands segments.
func SegBytes(ss []Seg) []byte {
	var out []byte
	for _, s := range ss {
		if s.Rep != nil {
			for i := 0; i < s.Rep[1]; i++ {
				out = append(out, byte(s.Rep[0]))
			}
		} else {
			b, _ := hex.DecodeString(s.Hex)
			out = append(out, b...)
		}
	}
	return out
}

// SegsOf compresses long uniform runs.
func SegsOf(b []byte) []Seg {
	var out []Seg
	i, lit := 0, 0
	flush := func(to int) {
		if to > lit {
			out = append(out, Seg{Hex: hex.EncodeToString(b[lit:to])})
		}
	}
	for i < len(b) {
		j := i
		for j < len(b) && b[j] == b[i] {
			j++
		}
		if j-i >= 64 {
			flush(i)
			out = append(out, Seg{Rep: []int{int(b[i]), j - i}})
			lit = j
		}
		i = j
	}
	flush(len(b))
	if out == nil {
		out = []Seg{}
	}
	return out
}

// Field is a wire field in JSON form (same form as the c13 harness).
type Field struct {
	K   string `json:"k"`
	U   string `json:"u,omitempty"`
	I   string `json:"i,omitempty"`
	B   []Seg  `json:"b,omitempty"`
	Nil bool   `json:"nil,omitempty"`
}

// ToShim converts to the repository shim's form.
func ToShim(fs []Field) []sniproxy.VerifField {
	out := make([]sniproxy.VerifField, len(fs))
	for i, f := range fs {
		v := sniproxy.VerifField{K: f.K, Nil: f.Nil}
		if f.U != "" {
			v.U, _ = strconv.ParseUint(f.U, 10, 64)
		}
		if f.I != "" {
			v.I, _ = strconv.ParseInt(f.I, 10, 64)
		}
		v.B = SegBytes(f.B)
		out[i] = v
	}
	return out
}

// FromShim converts from the repository shim's form.
func FromShim(vs []sniproxy.VerifField) []Field {
	out := make([]Field, len(vs))
	for i, v := range vs {
		f := Field{K: v.K}
		switch v.K {
		case "u64":
			f.U = strconv.FormatUint(v.U, 10)
		case "int":
			f.I = strconv.FormatInt(v.I, 10)
		case "bytes":
			f.B = SegsOf(v.B)
		case "err":
			f.Nil = v.Nil
			if !v.Nil {
				f.I = strconv.FormatInt(v.I, 10)
				f.B = SegsOf(v.B)
			}
		}
		out[i] = f
	}
	return out
}

// ---- goroutine profile -------------------------------------------------------

// Goroutines returns, for every goroutine that has a frame in one of the
// given package prefixes, the innermost such frame's function name, sorted.
// Frames of skip functions (the harness's own) do not count.
func Goroutines(prefixes []string, skip []string) []string {
	var b bytes.Buffer
	pprof.Lookup("goroutine").WriteTo(&b, 2)
	var out []string
	for _, g := range strings.Split(b.String(), "\n\n") {
		lines := strings.Split(g, "\n")
		found := ""
		for _, l := range lines[1:] {
			if strings.HasPrefix(l, "\t") || strings.HasPrefix(l, "created by ") {
				continue
			}
			fn := l
			if i := strings.LastIndex(fn, "("); i > 0 {
				fn = fn[:i]
			}
			ok := false
			for _, p := range prefixes {
				if strings.HasPrefix(fn, p) {
					ok = true
				}
			}
			for _, s := range skip {
				if strings.Contains(fn, s) {
					ok = false
				}
			}
			if ok {
				found = fn
				break
			}
		}
		if found != "" {
			out = append(out, found)
		}
	}
	sort.Strings(out)
	return out
}

// WaitGoroutinesGone polls the filtered profile until it is empty or the
// timeout passes; returns what is left.
func WaitGoroutinesGone(prefixes, skip []string, d time.Duration) []string {
	deadline := time.Now().Add(d)
	for {
		g := Goroutines(prefixes, skip)
		if len(g) == 0 || time.Now().After(deadline) {
			return g
		}
		time.Sleep(20 * time.Millisecond)
	}
}

// Underlying returns the TCP connection under a websocket.
func Underlying(c *websocket.Conn) net.Conn { return c.UnderlyingConn() }
