// Command c20 drives the routing code of shanhu.io/g/aries and
// shanhu.io/g/trie (built with -tags verif) with tagging handlers and prints
// what it observed, one JSON line per case.
//
// Every string in the output is "latin-1 lifted": one rune per byte, so that
// arbitrary byte strings survive JSON.
//
// Usage-pattern audit (round 3).  What the anchored packages export, the state
// behind it, and which stream uses it how.  "fresh" = one object per case,
// registrations first, then requests; "long-lived" = registrations and
// requests interleaved on one object.
//
//  API / callback / state            | shapes it can take                         | exercised by
//  ----------------------------------+--------------------------------------------+----------------------------------------------
//  Mux.Prefix/Exact/Dir              | new / duplicate / "" / Dir half-registered | mux-small, mux-triples, mux-rand (fresh);
//   state: exacts, prefixes, trie    | (Exact ok, Prefix refused)                 | steps-mux (long-lived, request between any two
//   (per Mux, three structures that  |                                            | registrations, re-registration after a refusal)
//   must stay in step)               |                                            |
//  Mux.Route/Serve                   | exact hit / longest prefix / miss; handler | same streams; handler results other than nil:
//                                    | returns nil / Miss / error                 | NOT exercised on Mux (Serve returns f(c) as is)
//  trieNode.add/find (via shim)      | every branch of add (split, re-parent,     | corpus, trie-rand (arbitrary bytes), mux-* dump
//                                    | phantom node becoming a hit)               | comparison node by node
//  trie.Trie Add/Find/FindExact      | new / conflict / empty value (panic) /     | seg-small, seg-triples, seg-rand (fresh)
//                                    | empty route; Find aliases its argument     | (the harness passes copies; aliasing not probed)
//  Router.Index/Default              | set / set again (last wins) / nil Func     | router-rich (repeated calls, nil resets),
//   state: index, miss (per Router)  | resets / handler is a sub-router           | steps-router (between requests), corpus
//  Router.File/MethodFile/Get/Post/  | new / duplicate (error, first kept) / nil  | router, router-http, router-rich, entry, corpus;
//   Dir/DirService/JSONCall/Call     | handler (panic) / empty route (panic) /    | registration after a refused or panicking one:
//   state: nodes map + trie.Trie     | Call on a duplicate (panic)                | every stream (ops shuffled); after serving
//   (must stay in step)              | any method string, compared exactly        | started: steps-router
//  Router.Serve                      | index / longest route / file vs dir /      | the same; methods GET POST "" PUT get HEAD
//   state: c.routePos (per request,  | method refused / default / Miss            | DELETE OPTIONS; leaves returning nil, Miss,
//   in the CONTEXT, shared by every  | leaf result: nil, Miss, coded errors,      | NotFound, Internal, Unauthorized, InvalidArg,
//   service the context is handed to)| plain error, panic (nil func)              | plain; number of leaves run per request
//  C.RelRoute() (the one accessor    | handler only reads it / overwrites every   | router-rich, seq-direct, seq-tiers, steps-router,
//   of C returning a slice)          | element / append(rr[:1], x) and declines   | corpus: handlers with "w" (C20-g) [new]
//  C.ShiftRoute(k) called BY A       | leaf handler shifts 1-2 segments and       | same streams: handlers with "sh" (C20-i) [new]
//   HANDLER                          | declines (or serves)                       |
//                                    | or delegates to a sub-router               |
//  one *C through several services   | router misses after shifting the context,  | seq-direct (r1.Serve(c); r2.Serve(c); ...),
//                                    | next router / next tier gets the same *C   | seq-tiers (ServiceSet{Auth,Resource,Guest,User,
//                                    |                                            | Admin} all routers, nil tiers), corpus  [FINDING]
//  one Router mounted twice          | same sub-router under two Dirs / as two    | router (random 1000+j handlers), seq-* (a router
//                                    | tiers                                      | listed twice in a sequence)
//  ServiceSet.Serve/ServeInternal    | Auth nil (Serve panics, ServeInternal      | tiers-all (exhaustive), tiers-rand
//   fields Auth Resource Guest User  | guards) / each tier nil, miss, nil, error  | typed-nil tiers (a nil Func inside the Service
//   Admin IsAdmin InternalSignIn     | Auth.Serve: Miss, nil, error; Setup: nil,  | interface): NOT exercised - serveService tests
//   (stateless struct; identity in   | error, changes identity; tier changes      | the interface only and such a tier panics when
//   the context)                     | identity; IsAdmin nil/true/false/level/    | reached
//                                    | name; SignIn nil/ok/error; path "/", else  | IsAdmin callbacks that modify the context: NOT
//                                    |                                            | exercised (modelled as pure)
//  HostMux.Set/Serve                 | new / re-bound (last wins) / "" / case /   | host (fresh), entry-host (real server),
//   state: map (per HostMux)         | port / trailing dot; Set(host, nil) panics | steps-host (long-lived); nil service: NOT exercised
//                                    | at request time                            |
//  aries.Serve / Func.ServeHTTP      | Func fast path vs Service wrapper;         | router-http (wrapper), entry (Func), raw request
//  NewContext / ErrCode              | error -> status table                      | lines over TCP
//  C.Rel/RelRoute/ShiftRoute/        | read by leaves (Rel), by routers           | Rel at every leaf; Current, negative ShiftRoute:
//   PathIsDir/Current                |                                            | NOT exercised (not used by the routing code)
//  concurrency                       | serving only (no lock in the code)         | conc (8 goroutines, -race) on finished objects
//  depth of routes and request paths | 31 .. 129 segments (and l-1, l, l+1, 2l+1   | deep [new] (C20-l): file routes at depth d, d-1, a
//                                    | for every integer the package names)       | directory, default, two tiers
//  thresholds in the anchored files  | len(s)==0, i==m / i==n in trieNode.add,    | all sides by mux-small (every pair of strings
//                                    | routePos >= size, value == ""              | over {a,b,/}^(1..3)), seg-rand, router paths
package main

import (
	"bufio"
	"io"
	"log"
	"net"
	"encoding/json"
	"errors"
	"flag"
	"fmt"
	"net/http"
	"net/http/httptest"
	"net/url"
	"os"
	"strconv"
	"strings"
	"sync"
	"time"

	"shanhu.io/g/aries"
	"shanhu.io/g/errcode"
	"shanhu.io/g/trie"
	"verifharness/hx"
)

func lift(s string) string {
	rs := make([]rune, len(s))
	for i := 0; i < len(s); i++ {
		rs[i] = rune(s[i])
	}
	return string(rs)
}

func lifts(ss []string) []string {
	out := make([]string, len(ss))
	for i, s := range ss {
		out[i] = lift(s)
	}
	return out
}

// ---------------------------------------------------------------- cases

type MuxOp struct {
	Op string `json:"op"` // prefix | exact | dir
	S  string `json:"s"`
	F  int    `json:"f"`
}

type Dump struct {
	K int     `json:"k"`
	B string  `json:"b"`
	P string  `json:"p"`
	H bool    `json:"h"`
	C []*Dump `json:"c"`
}

type RouterOp struct {
	Op  string `json:"op"` // index | default | file | mfile | get | post | dir | dirsvc | jsoncall | call
	M   string `json:"m,omitempty"`
	P   string `json:"p,omitempty"`
	H   int    `json:"h"`             // < 1000: leaf tag; 1000+j: router j of the case
	Nil bool   `json:"nil,omitempty"` // register a nil handler (nil Func; nil Service for dirsvc)
	E   string `json:"e,omitempty"`   // what the leaf returns: "" nil | notfound | internal | unauth | invalid | plain
	W   int    `json:"w,omitempty"`   // what the handler does to the slice C.RelRoute() hands it: 1 overwrites every element with WS, 2 append(rr[:1], WS)
	WS  string `json:"ws,omitempty"`
	SH  int    `json:"sh,omitempty"`  // a leaf handler calls c.ShiftRoute(SH) before it returns (seeded change C20-i)
}

// scribble: a handler may do what it likes with a slice it was handed.
func scribble(cc *aries.C, w int, ws string) {
	if w == 0 {
		return
	}
	rr := cc.RelRoute()
	switch w {
	case 1:
		for i := range rr {
			rr[i] = ws
		}
	case 2:
		if len(rr) >= 1 {
			_ = append(rr[:1], ws)
		}
	}
}

type RouterDef struct {
	Ops []RouterOp `json:"ops"`
}

type Req struct {
	Path   string `json:"path"`
	Method string `json:"method"`
}

type ReqObs struct {
	Tag int    `json:"tag"` // leaf that ran, -1 none
	Rel string `json:"rel"` // c.Rel() seen by the leaf
	Err string `json:"err"` // nil | miss | badmethod | panic | other
	N   int    `json:"n"`   // how many leaves ran for this request
}

type Beh struct {
	Nil     bool   `json:"nil,omitempty"`
	Res     string `json:"res,omitempty"` // miss | nil | err
	SetUser bool   `json:"set,omitempty"`
	U       string `json:"u,omitempty"`
	L       int    `json:"l,omitempty"`
}

type AuthDef struct {
	Nil      bool   `json:"nil,omitempty"`
	Serve    Beh    `json:"serve"`
	SetupU   string `json:"su"`
	SetupL   int    `json:"sl"`
	SetupSet bool   `json:"sset"` // Setup assigns User/UserLevel
	SetupErr bool   `json:"serr,omitempty"`
}

type TierEv struct {
	T string `json:"t"` // auth | resource | guest | user | admin | setup | signin | redirect
	U string `json:"u"`
	L int    `json:"l"`
}

type SegAdd struct {
	R []string `json:"r"`
	V string   `json:"v"`
}

type SegFind struct {
	N     int    `json:"n"` // length of the matched route prefix
	V     string `json:"v"`
	Exact string `json:"x"`
}

// Raw is one request as written on the wire.
type Raw struct {
	Method string  `json:"method"`
	Target string  `json:"target"`
	Host   *string `json:"host"` // Host header; null = not sent
	P10    bool    `json:"p10,omitempty"`
}

// EObs is what came back for a Raw, and what aries saw on entry.
type EObs struct {
	Status  int      `json:"status"` // 0 = connection closed without a response
	Reached bool     `json:"reached"`
	Path    string   `json:"path"`
	Segs    []string `json:"segs"`
	IsDir   bool     `json:"isdir"`
	Host    string   `json:"host"`
	Tag     int      `json:"tag"`
	Rel     string   `json:"rel"`
}

// LeafObs is one leaf invocation.
type LeafObs struct {
	Tag int    `json:"tag"`
	Rel string `json:"rel"`
}

// SeqObs is what one request did to a sequence of routers that were all
// handed the SAME context, one after the other, until one did not miss.
type SeqObs struct {
	Hits     []LeafObs `json:"hits"`     // every leaf that ran, in order
	Err      string    `json:"err"`      // the final result
	RelAfter string    `json:"relafter"` // c.Rel() after the last Serve returned
}

// Step is one operation on a long-lived Mux / Router / HostMux: a
// registration, or (Serve set) a request.
type Step struct {
	Mux    *MuxOp    `json:"mux,omitempty"`
	Rop    *RouterOp `json:"rop,omitempty"`
	HSet   *HostSet  `json:"hset,omitempty"`
	Serve  bool      `json:"serve,omitempty"`
	Path   string    `json:"path,omitempty"` // mux: c.Path; router: URL path; host: Req.Host
	Method string    `json:"method,omitempty"`
}

// StepObs: a registration's flag (1 ok, 0 refused, 2 panic), or what the request reached.
type StepObs struct {
	Ok  int    `json:"ok"`
	Tag int    `json:"tag"`
	Rel string `json:"rel,omitempty"`
	Err string `json:"err,omitempty"`
	N   int    `json:"n"` // number of handlers that ran for the request
}

type HostSet struct {
	H string `json:"h"`
	F int    `json:"f"`
}

type Obs struct {
	Crash string `json:"crash,omitempty"`

	Oks    []int     `json:"oks,omitempty"`    // per op: 1 ok, 0 refused, 2 panic
	Routes []int     `json:"routes,omitempty"` // per path: tag or -1
	Finds  []string  `json:"finds,omitempty"`  // trie: found prefix per path
	Exacts []bool    `json:"exacts,omitempty"` // trie: exact-hit flag per path
	Dump   *Dump     `json:"dump,omitempty"`
	ROks   [][]int   `json:"roks,omitempty"`
	Reqs   []ReqObs  `json:"reqs,omitempty"`
	Trace  []TierEv  `json:"trace,omitempty"`
	Res    string    `json:"res,omitempty"`
	Status int       `json:"status,omitempty"`
	SFinds []SegFind `json:"sfinds,omitempty"`
	Hosts  []int     `json:"hosts,omitempty"`
	Entry  []EObs    `json:"entry,omitempty"`
	Seqs   []SeqObs  `json:"seqs,omitempty"`
	Steps  []StepObs `json:"steps,omitempty"`
}

type Case struct {
	I      int    `json:"i"`
	Stream string `json:"stream"`
	Kind   string `json:"kind"` // mux | trie | seg | router | tiers | host

	Ops   []MuxOp  `json:"ops,omitempty"`
	Adds  []string `json:"adds,omitempty"`
	Paths []string `json:"paths,omitempty"`
	PSet  string   `json:"pset,omitempty"` // name of a shared path list instead of Paths

	SAdds  []SegAdd   `json:"sadds,omitempty"`
	SFinds [][]string `json:"sq,omitempty"`
	SQSet  string     `json:"sqset,omitempty"`

	Routers []RouterDef `json:"routers,omitempty"`
	Reqs    []Req       `json:"reqs,omitempty"`
	HTTP    bool        `json:"http,omitempty"` // through aries.Serve(r).ServeHTTP and a parsed request line

	Internal bool    `json:"internal,omitempty"`
	U0       string  `json:"u0,omitempty"`
	L0       int     `json:"l0,omitempty"`
	Path     string  `json:"path,omitempty"`
	Auth     *AuthDef `json:"auth,omitempty"`
	Tiers    []Beh   `json:"tiers,omitempty"` // resource, guest, user, admin
	IsAdmin  string  `json:"isadmin,omitempty"`
	SignIn   string  `json:"signin,omitempty"`

	HSets []HostSet `json:"hsets,omitempty"`
	HReqs []string  `json:"hreqs,omitempty"`

	Seq   []int  `json:"seq,omitempty"`   // seq: router indices tried in order on ONE context (tiers mode: auth, resource, guest, user, admin; -1 none)
	Mode  string `json:"mode,omitempty"`  // seq: direct | tiers
	On    string `json:"on,omitempty"`    // steps: mux | router | host
	Steps []Step `json:"steps,omitempty"` // steps: registrations interleaved with requests on one object

	HMux bool  `json:"hmux,omitempty"` // entry: a HostMux in front; hsets bind hosts to router F
	Raws []Raw `json:"raws,omitempty"`

	Obs *Obs `json:"obs,omitempty"`

	paths []string   // resolved, raw bytes
	sq    [][]string // resolved
}

// ------------------------------------------------------------- shared sets

func allStrings(alpha string, minLen, maxLen int) []string {
	var out []string
	var rec func(cur string, n int)
	rec = func(cur string, n int) {
		if len(cur) == n {
			out = append(out, cur)
			return
		}
		for i := 0; i < len(alpha); i++ {
			rec(cur+alpha[i:i+1], n)
		}
	}
	for n := minLen; n <= maxLen; n++ {
		rec("", n)
	}
	return out
}

func allRoutes(segs []string, maxDepth int) [][]string {
	out := [][]string{{}}
	last := [][]string{{}}
	for d := 1; d <= maxDepth; d++ {
		var next [][]string
		for _, r := range last {
			for _, s := range segs {
				nr := append(append([]string{}, r...), s)
				next = append(next, nr)
			}
		}
		out = append(out, next...)
		last = next
	}
	return out
}

var (
	smallPrefixes = allStrings("ab/", 1, 3) // 39
	smallPaths    = allStrings("ab/", 0, 4) // 121
	segRoutes     = allRoutes([]string{"a", "b"}, 3)
	segQueries    = allRoutes([]string{"a", "b"}, 4)
)

// ------------------------------------------------------------- running

type tagErr struct{ code int }

func (e *tagErr) Error() string { return "tagged error " + strconv.Itoa(e.code) }

func errName(err error) string {
	if err == nil {
		return "nil"
	}
	if err == aries.Miss {
		return "miss"
	}
	if err == aries.NeedSignIn {
		return "needsignin"
	}
	var te *tagErr
	if errors.As(err, &te) {
		return "err" + strconv.Itoa(te.code)
	}
	if errcode.IsInvalidArg(err) && strings.Contains(err.Error(), "unsupported method") {
		return "badmethod"
	}
	var le *leafErr
	if errors.As(err, &le) {
		return "e:" + le.class
	}
	return "other:" + err.Error()
}

// leafErr is what a leaf handler returns when told to fail.
type leafErr struct{ class string }

func (e *leafErr) Error() string { return "leaf error " + e.class }

func leafError(class string) error {
	switch class {
	case "":
		return nil
	case "miss":
		return aries.Miss // the leaf itself declines
	case "notfound":
		return errcode.Add(errcode.NotFound, &leafErr{class})
	case "internal":
		return errcode.Add(errcode.Internal, &leafErr{class})
	case "unauth":
		return errcode.Add(errcode.Unauthorized, &leafErr{class})
	case "invalid":
		return errcode.Add(errcode.InvalidArg, &leafErr{class})
	}
	return &leafErr{class}
}

func dumpOf(d *aries.VerifTrieNode) *Dump {
	out := &Dump{K: d.Key, B: lift(d.Branch), P: lift(d.Prefix), H: d.Hit, C: []*Dump{}}
	for _, c := range d.Child {
		out.C = append(out.C, dumpOf(c))
	}
	return out
}

func guard(f func()) (panicked string) {
	defer func() {
		if r := recover(); r != nil {
			panicked = fmt.Sprint(r)
		}
	}()
	f()
	return ""
}

func runMux(c *Case) {
	o := &Obs{}
	c.Obs = o
	m := aries.NewMux()
	for _, op := range c.Ops {
		tag := op.F
		f := aries.Func(func(cc *aries.C) error {
			cc.Data["tag"] = tag
			return nil
		})
		var err error
		p := guard(func() {
			switch op.Op {
			case "prefix":
				err = m.Prefix(op.S, f)
			case "exact":
				err = m.Exact(op.S, f)
			case "dir":
				err = m.Dir(op.S, f)
			}
		})
		switch {
		case p != "":
			o.Oks = append(o.Oks, 2)
		case err != nil:
			o.Oks = append(o.Oks, 0)
		default:
			o.Oks = append(o.Oks, 1)
		}
	}
	for _, p := range c.paths {
		cc := &aries.C{Path: p, Data: make(map[string]interface{})}
		tag := -1
		pn := guard(func() {
			err := m.Serve(cc)
			if err == nil {
				tag = cc.Data["tag"].(int)
			} else if err != aries.Miss {
				tag = -3
			}
		})
		if pn != "" {
			tag = -2
		}
		o.Routes = append(o.Routes, tag)
	}
	o.Dump = dumpOf(aries.VerifMuxTrie(m))
}

func runTrie(c *Case) {
	o := &Obs{}
	c.Obs = o
	t := aries.VerifNewTrie()
	for _, s := range c.Adds {
		ok := false
		p := guard(func() { ok = t.Add(s) })
		switch {
		case p != "":
			o.Oks = append(o.Oks, 2)
		case ok:
			o.Oks = append(o.Oks, 1)
		default:
			o.Oks = append(o.Oks, 0)
		}
	}
	for _, p := range c.paths {
		r, b := t.Find(p)
		o.Finds = append(o.Finds, lift(r))
		o.Exacts = append(o.Exacts, b)
	}
	o.Dump = dumpOf(t.Dump())
}

func runSeg(c *Case) {
	o := &Obs{}
	c.Obs = o
	t := trie.New()
	for _, a := range c.SAdds {
		ok := false
		p := guard(func() { ok = t.Add(append([]string{}, a.R...), a.V) })
		switch {
		case p != "":
			o.Oks = append(o.Oks, 2)
		case ok:
			o.Oks = append(o.Oks, 1)
		default:
			o.Oks = append(o.Oks, 0)
		}
	}
	o.SFinds = []SegFind{}
	for _, q := range c.sq {
		m, v := t.Find(append([]string{}, q...))
		x := t.FindExact(append([]string{}, q...))
		o.SFinds = append(o.SFinds, SegFind{N: len(m), V: lift(v), Exact: lift(x)})
	}
}

type leafHit struct {
	tag int
	rel string
}

// buildRouters makes the routers of a case; *hit receives the leaf that ran.
func buildRouters(c *Case, hit **leafHit) ([]*aries.Router, [][]int) {
	if hit == nil {
		return buildRoutersRec(c, nil)
	}
	return buildRoutersRec(c, func(lh *leafHit) { *hit = lh })
}

// buildRoutersRec makes the routers of a case; rec is told about every leaf
// invocation, in order (nil: the leaf leaves its record in cc.Data).
func buildRoutersRec(c *Case, rec func(*leafHit)) ([]*aries.Router, [][]int) {
	n := len(c.Routers)
	routers := make([]*aries.Router, n)
	for i := range routers {
		routers[i] = aries.NewRouter()
	}
	svc := func(op *RouterOp) aries.Func {
		if op.Nil {
			return nil
		}
		h := op.H
		w, ws := op.W, op.WS
		if h >= 1000 && h-1000 < n {
			if w == 0 {
				return routers[h-1000].Serve
			}
			sub := routers[h-1000]
			return func(cc *aries.C) error { // writes to what it was handed, then delegates
				scribble(cc, w, ws)
				return sub.Serve(cc)
			}
		}
		e, sh := op.E, op.SH
		return func(cc *aries.C) error {
			lh := &leafHit{tag: h, rel: cc.Rel()}
			if rec != nil {
				rec(lh)
			} else {
				cc.Data["leaf"] = lh // concurrent mode: nothing shared
			}
			scribble(cc, w, ws)
			if sh > 0 {
				cc.ShiftRoute(sh) // a handler that walks the route itself
			}
			return leafError(e)
		}
	}
	roks := make([][]int, n)
	for i, def := range c.Routers {
		roks[i] = []int{}
		for j := range def.Ops {
			roks[i] = append(roks[i], regRouterOp(routers[i], &def.Ops[j], svc))
		}
	}
	return routers, roks
}

// regRouterOp performs one registration: 1 ok, 0 refused, 2 panic.
func regRouterOp(r *aries.Router, op *RouterOp, svc func(*RouterOp) aries.Func) int {
	var err error
	p := guard(func() {
		switch op.Op {
		case "index":
			r.Index(svc(op))
		case "default":
			r.Default(svc(op))
		case "file":
			err = r.File(op.P, svc(op))
		case "mfile":
			err = r.MethodFile(op.M, op.P, svc(op))
		case "get":
			err = r.Get(op.P, svc(op))
		case "post":
			err = r.Post(op.P, svc(op))
		case "dirsvc":
			if op.Nil {
				err = r.DirService(op.P, nil)
			} else {
				err = r.DirService(op.P, svc(op))
			}
		case "dir":
			err = r.Dir(op.P, svc(op))
		case "jsoncall", "call":
			// the reflective wrapper around func(*C) error
			f := svc(op)
			fn := func(cc *aries.C) error { return f(cc) }
			if op.Op == "call" {
				r.Call(op.P, fn)
			} else {
				err = r.JSONCall(op.P, fn)
			}
		}
	})
	switch {
	case p != "":
		return 2
	case err != nil:
		return 0
	}
	return 1
}

func runRouter(c *Case) {
	o := &Obs{}
	c.Obs = o
	var hit *leafHit
	nran := 0
	routers, roks := buildRoutersRec(c, func(lh *leafHit) { hit = lh; nran++ })
	o.ROks = roks
	for _, q := range c.Reqs {
		hit = nil
		nran = 0
		req := &http.Request{
			Method: q.Method, URL: &url.URL{Path: q.Path}, Host: "h",
			Header: make(http.Header),
		}
		w := httptest.NewRecorder()
		var err error
		var p string
		if c.HTTP {
			// the whole net/http entry: request line parsing, NewContext,
			// Func.ServeHTTP and the error-to-status mapping
			p = guard(func() {
				hreq := httptest.NewRequest(q.Method, q.Path, nil)
				aries.Serve(routers[0]).ServeHTTP(w, hreq)
			})
			switch w.Code {
			case 200:
				err = nil
			case 404:
				err = aries.Miss
			case 400:
				err = errcode.InvalidArgf("unsupported method: %q", q.Method)
			default:
				err = fmt.Errorf("status %d", w.Code)
			}
		} else {
			p = guard(func() {
				cc := aries.NewContext(w, req)
				err = routers[0].Serve(cc)
			})
		}
		ro := ReqObs{Tag: -1, N: nran}
		if p != "" {
			ro.Err = "panic"
		} else {
			ro.Err = errName(err)
		}
		if hit != nil {
			ro.Tag = hit.tag
			ro.Rel = lift(hit.rel)
		}
		o.Reqs = append(o.Reqs, ro)
	}
}

type authImpl struct {
	def   *AuthDef
	trace *[]TierEv
}

func applyBeh(name string, b *Beh, code int, trace *[]TierEv, cc *aries.C) error {
	*trace = append(*trace, TierEv{T: name, U: lift(cc.User), L: cc.UserLevel})
	if b.SetUser {
		cc.User = b.U
		cc.UserLevel = b.L
	}
	switch b.Res {
	case "nil":
		return nil
	case "err":
		return &tagErr{code}
	}
	return aries.Miss
}

func (a *authImpl) Serve(cc *aries.C) error {
	return applyBeh("auth", &a.def.Serve, 10, a.trace, cc)
}

func (a *authImpl) Setup(cc *aries.C) error {
	*a.trace = append(*a.trace, TierEv{T: "setup", U: lift(cc.User), L: cc.UserLevel})
	if a.def.SetupSet {
		cc.User = a.def.SetupU
		cc.UserLevel = a.def.SetupL
	}
	if a.def.SetupErr {
		return &tagErr{11}
	}
	return nil
}

var tierNames = []string{"resource", "guest", "user", "admin"}

func runTiers(c *Case) {
	o := &Obs{}
	c.Obs = o
	trace := []TierEv{}
	set := &aries.ServiceSet{}
	if !c.Auth.Nil {
		set.Auth = &authImpl{def: c.Auth, trace: &trace}
	}
	mk := func(i int) aries.Service {
		b := &c.Tiers[i]
		if b.Nil {
			return nil
		}
		return aries.Func(func(cc *aries.C) error {
			return applyBeh(tierNames[i], b, i+1, &trace, cc)
		})
	}
	set.Resource = mk(0)
	set.Guest = mk(1)
	set.User = mk(2)
	set.Admin = mk(3)
	switch c.IsAdmin {
	case "true":
		set.IsAdmin = func(cc *aries.C) bool { return true }
	case "false":
		set.IsAdmin = func(cc *aries.C) bool { return false }
	case "lvl2":
		set.IsAdmin = func(cc *aries.C) bool { return cc.UserLevel >= 2 }
	case "root":
		set.IsAdmin = func(cc *aries.C) bool { return cc.User == "root" }
	}
	switch c.SignIn {
	case "ok", "err":
		kind := c.SignIn
		set.InternalSignIn = func(cc *aries.C) error {
			trace = append(trace, TierEv{T: "signin", U: lift(cc.User), L: cc.UserLevel})
			if kind == "err" {
				return &tagErr{20}
			}
			return nil
		}
	}
	req := &http.Request{
		Method: "GET", URL: &url.URL{Path: c.Path}, Host: "h", Header: make(http.Header),
	}
	w := httptest.NewRecorder()
	var err error
	p := guard(func() {
		cc := aries.NewContext(w, req)
		cc.User = c.U0
		cc.UserLevel = c.L0
		if c.Internal {
			err = set.ServeInternal(cc)
		} else {
			err = set.Serve(cc)
		}
	})
	if p != "" {
		o.Res = "panic"
	} else {
		o.Res = errName(err)
	}
	o.Status = w.Code
	if w.Code == http.StatusFound {
		trace = append(trace, TierEv{T: "redirect", U: lift(w.Header().Get("Location"))})
	}
	o.Trace = trace
}

func runHost(c *Case) {
	o := &Obs{Hosts: []int{}}
	c.Obs = o
	m := aries.NewHostMux()
	for _, s := range c.HSets {
		tag := s.F
		m.Set(s.H, aries.Func(func(cc *aries.C) error {
			cc.Data["tag"] = tag
			return nil
		}))
	}
	for _, h := range c.HReqs {
		req := &http.Request{Method: "GET", URL: &url.URL{Path: "/"}, Host: h, Header: make(http.Header)}
		cc := aries.NewContext(httptest.NewRecorder(), req)
		tag := -1
		err := m.Serve(cc)
		if err == nil {
			tag = cc.Data["tag"].(int)
		} else if err != aries.Miss {
			tag = -3
		}
		o.Hosts = append(o.Hosts, tag)
	}
}

// runEntry serves the case with a real http.Server and writes the raw
// requests on TCP connections.
func runEntry(c *Case) {
	o := &Obs{Entry: []EObs{}}
	c.Obs = o
	var hit *leafHit
	routers, roks := buildRouters(c, &hit)
	o.ROks = roks
	var root aries.Service = routers[0]
	if c.HMux {
		hm := aries.NewHostMux()
		for _, s := range c.HSets {
			if s.F >= 0 && s.F < len(routers) {
				hm.Set(s.H, routers[s.F])
			}
		}
		root = hm
	}
	var cur *EObs
	entry := aries.Func(func(cc *aries.C) error {
		cur.Reached = true
		cur.Path = lift(cc.Path)
		cur.Segs = lifts(cc.RelRoute())
		cur.IsDir = cc.PathIsDir()
		cur.Host = lift(cc.Req.Host)
		return root.Serve(cc)
	})
	srv := httptest.NewUnstartedServer(aries.Serve(entry))
	srv.Config.ErrorLog = log.New(io.Discard, "", 0)
	srv.Start()
	defer srv.Close()
	addr := srv.Listener.Addr().String()
	for _, q := range c.Raws {
		hit = nil
		eo := EObs{Tag: -1, Segs: []string{}}
		cur = &eo
		var b strings.Builder
		proto := "1.1"
		if q.P10 {
			proto = "1.0"
		}
		fmt.Fprintf(&b, "%s %s HTTP/%s\r\n", q.Method, q.Target, proto)
		if q.Host != nil {
			fmt.Fprintf(&b, "Host: %s\r\n", *q.Host)
		}
		if q.Method == "POST" {
			b.WriteString("Content-Length: 0\r\n")
		}
		b.WriteString("Connection: close\r\n\r\n")
		conn, err := net.DialTimeout("tcp", addr, 5*time.Second)
		if err == nil {
			conn.SetDeadline(time.Now().Add(10 * time.Second))
			io.WriteString(conn, b.String())
			resp, _ := io.ReadAll(conn)
			conn.Close()
			line := string(resp)
			if i := strings.Index(line, "\r\n"); i >= 0 {
				line = line[:i]
			}
			parts := strings.SplitN(line, " ", 3)
			if len(parts) >= 2 {
				eo.Status, _ = strconv.Atoi(parts[1])
			}
		}
		if hit != nil {
			eo.Tag = hit.tag
			eo.Rel = lift(hit.rel)
		}
		if eo.Segs == nil {
			eo.Segs = []string{}
		}
		o.Entry = append(o.Entry, eo)
	}
}

// concCase builds the structure of a case once (registration finished), then
// serves all its requests from several goroutines at once and compares with
// the sequential answers. Built with -race, any write to the routing
// structures while serving is reported by the race detector.
func concCase(c *Case) bool {
	const workers = 8
	// the reference answers come from a separate, identically built structure,
	// so that nothing is warmed up before the concurrent phase
	refServe, nq := concBuild(c)
	serve, _ := concBuild(c)
	if serve == nil {
		return true
	}
	want := make([]string, nq)
	for q := 0; q < nq; q++ {
		want[q] = refServe(q)
	}
	same := make([]bool, workers)
	var wg sync.WaitGroup
	for w := 0; w < workers; w++ {
		wg.Add(1)
		go func(w int) {
			defer wg.Done()
			ok := true
			for rep := 0; rep < 3; rep++ {
				for q := 0; q < nq; q++ {
					if serve((q+w)%nq) != want[(q+w)%nq] {
						ok = false
					}
				}
			}
			same[w] = ok
		}(w)
	}
	wg.Wait()
	for _, ok := range same {
		if !ok {
			return false
		}
	}
	return true
}

func concBuild(c *Case) (serve func(q int) string, nq int) {
	switch c.Kind {
	case "mux":
		m := aries.NewMux()
		for _, op := range c.Ops {
			tag := op.F
			f := aries.Func(func(cc *aries.C) error { cc.Data["tag"] = tag; return nil })
			guard(func() {
				switch op.Op {
				case "prefix":
					m.Prefix(op.S, f)
				case "exact":
					m.Exact(op.S, f)
				case "dir":
					m.Dir(op.S, f)
				}
			})
		}
		nq = len(c.paths)
		serve = func(q int) string {
			cc := &aries.C{Path: c.paths[q], Data: make(map[string]interface{})}
			if err := m.Serve(cc); err != nil {
				return errName(err)
			}
			return strconv.Itoa(cc.Data["tag"].(int))
		}
	case "seg":
		t := trie.New()
		for _, a := range c.SAdds {
			guard(func() { t.Add(append([]string{}, a.R...), a.V) })
		}
		nq = len(c.sq)
		serve = func(q int) string {
			m, v := t.Find(append([]string{}, c.sq[q]...))
			return strconv.Itoa(len(m)) + ":" + v + ":" + t.FindExact(append([]string{}, c.sq[q]...))
		}
	case "router":
		routers, _ := buildRouters(c, nil)
		nq = len(c.Reqs)
		serve = func(q int) string {
			req := &http.Request{Method: c.Reqs[q].Method, URL: &url.URL{Path: c.Reqs[q].Path}, Host: "h", Header: make(http.Header)}
			var err error
			var cc *aries.C
			if p := guard(func() {
				cc = aries.NewContext(httptest.NewRecorder(), req)
				err = routers[0].Serve(cc)
			}); p != "" {
				return "panic"
			}
			out := errName(err)
			if lh, ok := cc.Data["leaf"].(*leafHit); ok {
				out += ":" + strconv.Itoa(lh.tag) + ":" + lh.rel
			}
			return out
		}
	case "host":
		m := aries.NewHostMux()
		for _, s := range c.HSets {
			tag := s.F
			m.Set(s.H, aries.Func(func(cc *aries.C) error { cc.Data["tag"] = tag; return nil }))
		}
		nq = len(c.HReqs)
		serve = func(q int) string {
			req := &http.Request{Method: "GET", URL: &url.URL{Path: "/"}, Host: c.HReqs[q], Header: make(http.Header)}
			cc := aries.NewContext(httptest.NewRecorder(), req)
			if err := m.Serve(cc); err != nil {
				return errName(err)
			}
			return strconv.Itoa(cc.Data["tag"].(int))
		}
	}
	return serve, nq
}

// authRouter is an Auth whose Serve is a router (or misses) and whose Setup
// installs the identity of the case.
type authRouter struct {
	r    *aries.Router
	u    string
	l    int
}

func (a *authRouter) Serve(cc *aries.C) error {
	if a.r == nil {
		return aries.Miss
	}
	return a.r.Serve(cc)
}

func (a *authRouter) Setup(cc *aries.C) error {
	cc.User, cc.UserLevel = a.u, a.l
	return nil
}

// runSeq hands ONE context to several routers in a row: directly, or as the
// Auth / Resource / Guest / User / Admin of a ServiceSet (the way the
// repository composes them: authgate's ServiceSet{Auth: gate, Guest: r, User: u}).
func runSeq(c *Case) {
	o := &Obs{Seqs: []SeqObs{}}
	c.Obs = o
	var hits []LeafObs
	routers, roks := buildRoutersRec(c, func(lh *leafHit) {
		hits = append(hits, LeafObs{Tag: lh.tag, Rel: lift(lh.rel)})
	})
	o.ROks = roks
	at := func(i int) *aries.Router {
		if i < len(c.Seq) && c.Seq[i] >= 0 && c.Seq[i] < len(routers) {
			return routers[c.Seq[i]]
		}
		return nil
	}
	svcAt := func(i int) aries.Service {
		if r := at(i); r != nil {
			return r
		}
		return nil
	}
	for _, q := range c.Reqs {
		hits = []LeafObs{}
		req := &http.Request{Method: q.Method, URL: &url.URL{Path: q.Path}, Host: "h", Header: make(http.Header)}
		var err error
		var cc *aries.C
		p := guard(func() {
			cc = aries.NewContext(httptest.NewRecorder(), req)
			if c.Mode == "tiers" {
				set := &aries.ServiceSet{
					Auth:     &authRouter{r: at(0), u: c.U0, l: c.L0},
					Resource: svcAt(1), Guest: svcAt(2), User: svcAt(3), Admin: svcAt(4),
				}
				err = set.Serve(cc)
				return
			}
			err = aries.Miss
			for i := range c.Seq {
				if r := at(i); r != nil {
					if err = r.Serve(cc); err != aries.Miss {
						return
					}
				}
			}
		})
		so := SeqObs{Hits: hits}
		if p != "" {
			so.Err = "panic"
		} else {
			so.Err = errName(err)
			so.RelAfter = lift(cc.Rel())
		}
		o.Seqs = append(o.Seqs, so)
	}
}

// runSteps keeps ONE Mux / Router / HostMux for the whole case and mixes
// registrations with requests (a handler registered after serving started
// must be found; an answer must not be remembered past a registration).
func runSteps(c *Case) {
	o := &Obs{Steps: []StepObs{}}
	c.Obs = o
	m := aries.NewMux()
	r := aries.NewRouter()
	hm := aries.NewHostMux()
	var hits []leafHit
	tagger := func(tag int) aries.Func {
		return func(cc *aries.C) error {
			hits = append(hits, leafHit{tag: tag}) // a Mux is served with a bare C: no route to ask for
			return nil
		}
	}
	svc := func(op *RouterOp) aries.Func {
		if op.Nil {
			return nil
		}
		h, e, w, ws, sh := op.H, op.E, op.W, op.WS, op.SH
		return func(cc *aries.C) error {
			hits = append(hits, leafHit{tag: h, rel: cc.Rel()})
			scribble(cc, w, ws)
			if sh > 0 {
				cc.ShiftRoute(sh)
			}
			return leafError(e)
		}
	}
	for i := range c.Steps {
		st := &c.Steps[i]
		so := StepObs{Tag: -1}
		switch {
		case st.Mux != nil:
			var err error
			p := guard(func() {
				switch st.Mux.Op {
				case "prefix":
					err = m.Prefix(st.Mux.S, tagger(st.Mux.F))
				case "exact":
					err = m.Exact(st.Mux.S, tagger(st.Mux.F))
				case "dir":
					err = m.Dir(st.Mux.S, tagger(st.Mux.F))
				}
			})
			switch {
			case p != "":
				so.Ok = 2
			case err == nil:
				so.Ok = 1
			}
		case st.Rop != nil:
			so.Ok = regRouterOp(r, st.Rop, svc)
		case st.HSet != nil:
			hm.Set(st.HSet.H, tagger(st.HSet.F))
			so.Ok = 1
		case st.Serve:
			hits = nil
			var err error
			p := guard(func() {
				switch c.On {
				case "mux":
					err = m.Serve(&aries.C{Path: st.Path, Data: make(map[string]interface{})})
				case "router":
					req := &http.Request{Method: st.Method, URL: &url.URL{Path: st.Path}, Host: "h", Header: make(http.Header)}
					err = r.Serve(aries.NewContext(httptest.NewRecorder(), req))
				case "host":
					req := &http.Request{Method: "GET", URL: &url.URL{Path: "/"}, Host: st.Path, Header: make(http.Header)}
					err = hm.Serve(aries.NewContext(httptest.NewRecorder(), req))
				}
			})
			if p != "" {
				so.Err = "panic"
			} else {
				so.Err = errName(err)
			}
			so.N = len(hits)
			if len(hits) > 0 {
				so.Tag = hits[len(hits)-1].tag
				so.Rel = lift(hits[len(hits)-1].rel)
			}
		}
		o.Steps = append(o.Steps, so)
	}
}

func runCase(c *Case) {
	switch c.Kind {
	case "seq":
		runSeq(c)
	case "steps":
		runSteps(c)
	case "mux":
		runMux(c)
	case "trie":
		runTrie(c)
	case "seg":
		runSeg(c)
	case "router":
		runRouter(c)
	case "tiers":
		runTiers(c)
	case "host":
		runHost(c)
	case "entry":
		runEntry(c)
	}
}

func unlift(s string) string {
	b := make([]byte, 0, len(s))
	for _, r := range s {
		b = append(b, byte(r))
	}
	return string(b)
}

var lift1 = lift

func lifts1(ss []string) []string {
	out := make([]string, len(ss))
	for i, s := range ss {
		out[i] = lift1(s)
	}
	return out
}

// unliftCase undoes liftCase on a case read back from JSON.
func unliftCase(c *Case) {
	lift1 = unlift
	liftCase(c)
	lift1 = lift
}

// lift the input strings for output (after running)
func liftCase(c *Case) {
	for i := range c.Ops {
		c.Ops[i].S = lift1(c.Ops[i].S)
	}
	c.Adds = lifts1(c.Adds)
	c.Paths = lifts1(c.Paths)
	for i := range c.SAdds {
		c.SAdds[i].R = lifts1(c.SAdds[i].R)
		c.SAdds[i].V = lift1(c.SAdds[i].V)
	}
	for i := range c.SFinds {
		c.SFinds[i] = lifts1(c.SFinds[i])
	}
	for i := range c.Routers {
		for j := range c.Routers[i].Ops {
			c.Routers[i].Ops[j].P = lift1(c.Routers[i].Ops[j].P)
			c.Routers[i].Ops[j].M = lift1(c.Routers[i].Ops[j].M)
		}
	}
	for i := range c.Reqs {
		c.Reqs[i].Path = lift1(c.Reqs[i].Path)
		c.Reqs[i].Method = lift1(c.Reqs[i].Method)
	}
	c.U0 = lift1(c.U0)
	c.Path = lift1(c.Path)
	if c.Auth != nil {
		c.Auth.SetupU = lift1(c.Auth.SetupU)
		c.Auth.Serve.U = lift1(c.Auth.Serve.U)
	}
	for i := range c.Tiers {
		c.Tiers[i].U = lift1(c.Tiers[i].U)
	}
	for i := range c.HSets {
		c.HSets[i].H = lift1(c.HSets[i].H)
	}
	c.HReqs = lifts1(c.HReqs)
	for i := range c.Steps {
		st := &c.Steps[i]
		if st.Mux != nil {
			st.Mux.S = lift1(st.Mux.S)
		}
		if st.Rop != nil {
			st.Rop.P = lift1(st.Rop.P)
			st.Rop.M = lift1(st.Rop.M)
		}
		if st.HSet != nil {
			st.HSet.H = lift1(st.HSet.H)
		}
		st.Path = lift1(st.Path)
		st.Method = lift1(st.Method)
	}
	for i := range c.Raws {
		c.Raws[i].Method = lift1(c.Raws[i].Method)
		c.Raws[i].Target = lift1(c.Raws[i].Target)
		if c.Raws[i].Host != nil {
			h := lift1(*c.Raws[i].Host)
			c.Raws[i].Host = &h
		}
	}
}

// ------------------------------------------------------------- generation

func pick(r *hx.Rng, xs []string) string { return xs[r.Intn(len(xs))] }

func randStr(r *hx.Rng, alpha string, maxLen int) string {
	n := r.Intn(maxLen + 1)
	b := make([]byte, n)
	for i := range b {
		b[i] = alpha[r.Intn(len(alpha))]
	}
	return string(b)
}

func prefixOps(ss []string) []MuxOp {
	ops := make([]MuxOp, len(ss))
	for i, s := range ss {
		ops[i] = MuxOp{Op: "prefix", S: s, F: i + 1}
	}
	return ops
}

// genRouterDefs makes 1-3 routers (later ones reachable as sub-routers).
// rich adds what round 2 covers: failing leaves, nil handlers, the
// JSONCall/Call wrappers.
func genRouterDefs(r *hx.Rng, rich bool) []RouterDef {
	nr := 1 + r.Intn(3)
	var defs []RouterDef
	tag := 1
	for i := 0; i < nr; i++ {
		var ops []RouterOp
		k := r.Intn(6)
		for j := 0; j < k; j++ {
			d := 1 + r.Intn(3)
			var sg []string
			for x := 0; x < d; x++ {
				sg = append(sg, []string{"a", "b"}[r.Intn(2)])
			}
			p := strings.Join(sg, "/")
			switch r.Intn(6) {
			case 0:
				p = "/" + p
			case 1:
				p = p + "/"
			case 2:
				p = "/" + strings.Join(sg, "//") + "/"
			}
			if r.Intn(25) == 0 {
				p = []string{"", "/", "//"}[r.Intn(3)]
			}
			h := tag
			tag++
			op := RouterOp{Op: "file", P: p, H: h}
			switch r.Intn(5) {
			case 0, 1:
				op.Op = "dir"
				if i+1 < nr && r.Intn(2) == 0 {
					op.H = 1000 + i + 1 + r.Intn(nr-i-1)
				}
			case 2:
				op.Op = "mfile"
				op.M = []string{"GET", "POST", ""}[r.Intn(3)]
				if op.M == "GET" && r.Bool() {
					op.Op, op.M = "get", ""
				} else if op.M == "POST" && r.Bool() {
					op.Op, op.M = "post", ""
				}
			}
			if op.Op == "dir" && r.Intn(4) == 0 {
				op.Op = "dirsvc"
			}
			if rich {
				if op.Op == "mfile" && op.M == "POST" && r.Bool() {
					op.Op, op.M = []string{"jsoncall", "call"}[r.Intn(2)], ""
				}
				if op.H < 1000 && r.Intn(5) == 0 {
					op.E = []string{"notfound", "internal", "unauth", "invalid", "plain", "miss"}[r.Intn(6)]
				}
				if op.Op == "mfile" && r.Intn(3) == 0 {
					op.M = []string{"PUT", "get", "HEAD", "DELETE"}[r.Intn(4)] // any method string, compared exactly
				}
				if r.Intn(3) == 0 {
					// the handler writes to the RelRoute slice it is handed (and, being a
					// directory or a default, often declines afterwards)
					op.W, op.WS = 1+r.Intn(2), []string{"a", "b", "a", "b", "zz"}[r.Intn(5)]
					if op.H < 1000 && r.Bool() {
						op.E = "miss"
					}
				}
				if op.H < 1000 && r.Intn(4) == 0 {
					// the handler walks the route itself (ShiftRoute) and, often, declines
					op.SH = 1 + r.Intn(2)
					if r.Intn(3) != 0 {
						op.E = "miss"
					}
				}
				if r.Intn(20) == 0 && op.Op != "jsoncall" && op.Op != "call" {
					op.Nil = true
				}
			}
			ops = append(ops, op)
		}
		if r.Intn(2) == 0 {
			ops = append(ops, RouterOp{Op: "index", H: tag, Nil: rich && r.Intn(12) == 0})
			tag++
		}
		if rich {
			// Index / Default called again: the last call decides, a nil Func resets
			for x := r.Intn(3); x > 0; x-- {
				op := RouterOp{Op: []string{"index", "default"}[r.Intn(2)], H: tag, Nil: r.Intn(3) == 0}
				if r.Intn(4) == 0 {
					op.E = "miss"
				}
				ops = append(ops, op)
				tag++
			}
		}
		if r.Intn(3) == 0 {
			h := tag
			tag++
			if i+1 < nr && r.Intn(4) == 0 {
				h = 1000 + i + 1 + r.Intn(nr-i-1)
			}
			ops = append(ops, RouterOp{Op: "default", H: h, Nil: rich && r.Intn(12) == 0})
		}
		// shuffle (registration order must not matter)
		for x := len(ops) - 1; x > 0; x-- {
			y := r.Intn(x + 1)
			ops[x], ops[y] = ops[y], ops[x]
		}
		if ops == nil {
			ops = []RouterOp{}
		}
		defs = append(defs, RouterDef{Ops: ops})
	}
	return defs
}

var deepDepths []int

func genCases(seed uint64, tier string) []Case {
	var cs []Case
	add := func(c Case) {
		c.I = len(cs)
		cs = append(cs, c)
	}
	thorough := tier == "thorough"

	// --- corpus: the sequences of the repository's own tests, and the
	// shapes that exercise every branch of trieNode.add, first.
	add(Case{Stream: "corpus", Kind: "trie",
		Adds: []string{"", "axy45678", "abc", "axy", "abc", "a", "axy120", "ax456", "ax4567"},
		Paths: []string{"", "a", "ax", "abc", "abcd", "axy12", "ax45", "dtc", "axy45678", "axy456789"}})
	add(Case{Stream: "corpus", Kind: "mux",
		Ops: []MuxOp{{"prefix", "ab", 1}, {"prefix", "a", 2}, {"prefix", "abc", 3}, {"prefix", "ac", 4},
			{"prefix", "ab", 5}, {"exact", "abx", 6}, {"dir", "/d/", 7}, {"dir", "/", 8}, {"prefix", "", 9},
			{"exact", "abx", 10}, {"dir", "/d", 11}},
		Paths: []string{"", "a", "ab", "abc", "abx", "abxy", "ac", "b", "/", "/d", "/d/", "/d/e", "/e"}})
	add(Case{Stream: "corpus", Kind: "seg",
		SAdds: []SegAdd{{[]string{"a", "b", "c"}, "a/b/c"}, {[]string{"a", "b"}, "a/b"}, {[]string{"abc"}, "abc"},
			{[]string{"a", "c"}, "a/c"}, {[]string{"a", "c"}, "dup"}, {[]string{}, "root"}, {[]string{"x"}, ""}},
		SFinds: [][]string{{"a", "c"}, {"a", "b", "c", "d"}, {"a"}, {"def"}, {}, {"a", "c", "d"}, {"x"}}})
	add(Case{Stream: "corpus", Kind: "router",
		Routers: []RouterDef{
			{Ops: []RouterOp{{Op: "mfile", M: "GET", P: "something", H: 1}, {Op: "dir", P: "books", H: 2},
				{Op: "dir", P: "sub", H: 1001}, {Op: "index", H: 3}, {Op: "file", P: "/books/", H: 4},
				{Op: "file", P: "", H: 5}, {Op: "file", P: "//", H: 6}, {Op: "file", P: "books/x", H: 7}}},
			{Ops: []RouterOp{{Op: "index", H: 10}, {Op: "default", H: 11}, {Op: "file", P: "f", H: 12}}},
		},
		Reqs: []Req{{"/something", "GET"}, {"/something", "POST"}, {"/something/", "GET"}, {"/something/xxx", "GET"},
			{"/books/xxx", "GET"}, {"/books/", "GET"}, {"/books", "GET"}, {"/bookss", "GET"}, {"", "GET"}, {"/", "GET"},
			{"/sub", "GET"}, {"/sub/", "GET"}, {"/sub/f", "GET"}, {"/sub/f/", "GET"}, {"/sub/g", "GET"},
			{"//sub//f", "GET"}, {"/books/x", "GET"}, {"/books/x/y", "GET"}, {"books/x", "GET"}}})

	// round 2 corpus: the input of seeded change C20-c (ServeInternal, non-admin,
	// path != "/", resource misses: nothing but the redirect may run) ...
	for _, adm := range []string{"nil", "false"} {
		add(Case{Stream: "corpus", Kind: "tiers", Internal: true, U0: "u", L0: 0, Path: "/x",
			Auth: &AuthDef{Serve: Beh{Res: "miss"}}, IsAdmin: adm, SignIn: "ok",
			Tiers: []Beh{{Res: "miss"}, {Res: "nil"}, {Res: "nil"}, {Res: "nil"}}})
	}
	// ... an admin through all three tiers with identity-preserving handlers ...
	add(Case{Stream: "corpus", Kind: "tiers", Internal: true, U0: "adm", L0: 1, Path: "/x",
		Auth: &AuthDef{Serve: Beh{Res: "miss"}}, IsAdmin: "nil", SignIn: "nil",
		Tiers: []Beh{{Res: "miss"}, {Res: "miss"}, {Res: "miss"}, {Res: "nil"}}})
	// ... nil handlers handed to the Router ...
	add(Case{Stream: "corpus", Kind: "router",
		Routers: []RouterDef{{Ops: []RouterOp{{Op: "file", P: "a", H: 1, Nil: true}, {Op: "dir", P: "b", H: 2, Nil: true},
			{Op: "dirsvc", P: "c", H: 3, Nil: true}, {Op: "index", H: 4, Nil: true}, {Op: "file", P: "d", H: 5},
			{Op: "call", P: "e", H: 6}, {Op: "call", P: "e", H: 7}, {Op: "jsoncall", P: "f", H: 8, E: "internal"}}}},
		Reqs: []Req{{"/a", "GET"}, {"/b/x", "GET"}, {"/c", "GET"}, {"/", "GET"}, {"/d", "GET"}, {"/zzz", "GET"},
			{"/e", "POST"}, {"/e", "GET"}, {"/f", "POST"}}})
	add(Case{Stream: "corpus", Kind: "router",
		Routers: []RouterDef{{Ops: []RouterOp{{Op: "default", H: 1, Nil: true}, {Op: "file", P: "a", H: 2}}}},
		Reqs:    []Req{{"/q", "GET"}, {"/a", "GET"}, {"/a/", "GET"}}})
	// ... and raw request lines: escapes, slashes, "*", CONNECT, absolute-form, hosts.
	{
		hp := func(s string) *string { return &s }
		add(Case{Stream: "corpus", Kind: "entry", HMux: true,
			HSets: []HostSet{{"shanhu.io", 0}, {"Shanhu.IO", 1}, {"shanhu.io:443", 1}, {"[::1]:8080", 1}, {"", 1}, {"abs.host:81", 1}},
			Routers: []RouterDef{
				{Ops: []RouterOp{{Op: "dir", P: "a", H: 1}, {Op: "file", P: "a/b", H: 2}, {Op: "index", H: 3}, {Op: "file", P: "*", H: 4},
					{Op: "file", P: "..", H: 5}, {Op: "file", P: "e", H: 6, E: "unauth"}, {Op: "file", P: "i", H: 7, E: "internal"},
					{Op: "file", P: "p", H: 8, E: "plain"}}},
				{Ops: []RouterOp{{Op: "index", H: 20}, {Op: "default", H: 21}}},
			},
			Raws: []Raw{
				{Method: "GET", Target: "/a%2Fb", Host: hp("shanhu.io")}, {Method: "GET", Target: "/a%2fb/", Host: hp("shanhu.io")},
				{Method: "GET", Target: "/a/%2e%2e/b", Host: hp("shanhu.io")}, {Method: "GET", Target: "/%2e%2e", Host: hp("shanhu.io")},
				{Method: "GET", Target: "//a//b", Host: hp("shanhu.io")}, {Method: "GET", Target: "/a/b/", Host: hp("shanhu.io")},
				{Method: "GET", Target: "/a/b?x=/c", Host: hp("shanhu.io")}, {Method: "GET", Target: "/a/b#f", Host: hp("shanhu.io")},
				{Method: "GET", Target: "/a%zz", Host: hp("shanhu.io")}, {Method: "GET", Target: "/a%2", Host: hp("shanhu.io")},
				{Method: "GET", Target: "*", Host: hp("shanhu.io")}, {Method: "OPTIONS", Target: "*", Host: hp("shanhu.io")},
				{Method: "CONNECT", Target: "shanhu.io:443", Host: hp("shanhu.io")}, {Method: "CONNECT", Target: "/a", Host: hp("shanhu.io")},
				{Method: "GET", Target: "http://abs.host:81/a/b", Host: hp("shanhu.io")}, {Method: "GET", Target: "http://abs.host:81", Host: hp("shanhu.io")},
				{Method: "GET", Target: "/", Host: hp("Shanhu.IO")}, {Method: "GET", Target: "/", Host: hp("SHANHU.IO")},
				{Method: "GET", Target: "/", Host: hp("shanhu.io:443")}, {Method: "GET", Target: "/", Host: hp("shanhu.io.")},
				{Method: "GET", Target: "/", Host: hp("[::1]:8080")}, {Method: "GET", Target: "/", Host: hp("[::1]")},
				{Method: "GET", Target: "/", Host: hp("")}, {Method: "GET", Target: "/", P10: true}, {Method: "GET", Target: "/"},
				{Method: "GET", Target: "/e", Host: hp("shanhu.io")}, {Method: "GET", Target: "/i", Host: hp("shanhu.io")},
				{Method: "GET", Target: "/p", Host: hp("shanhu.io")}, {Method: "GET", Target: "a/b", Host: hp("shanhu.io")},
			}})
	}

	// round 3 corpus: one context through two routers; the first matches "a" of
	// /a/b and then misses, the second has "b" registered (finding: it served /a/b)
	for _, mode := range []string{"direct", "tiers"} {
		seq := []int{0, 1, 2}
		if mode == "tiers" {
			seq = []int{-1, -1, 0, 1, 2}
		}
		add(Case{Stream: "corpus", Kind: "seq", Mode: mode, Seq: seq, U0: "adm", L0: 1,
			Routers: []RouterDef{
				{Ops: []RouterOp{{Op: "file", P: "a", H: 1}, {Op: "dir", P: "d", H: 1002}}},
				{Ops: []RouterOp{{Op: "file", P: "b", H: 2}, {Op: "file", P: "x", H: 3}}},
				{Ops: []RouterOp{{Op: "file", P: "y", H: 4}, {Op: "index", H: 5}, {Op: "file", P: "a/b", H: 6}, {Op: "file", P: "m", H: 7, E: "miss"}}},
			},
			Reqs: []Req{{"/a/b", "GET"}, {"/a", "GET"}, {"/b", "GET"}, {"/a/b/", "GET"}, {"/d/x", "GET"}, {"/d/y", "GET"},
				{"/d", "GET"}, {"/d/b", "GET"}, {"/a/x", "GET"}, {"/d/m", "GET"}, {"/m", "GET"}, {"/", "GET"}}})
	}
	// seeded change C20-g: handlers that write to the slice C.RelRoute() handed them.
	// GET /docs/secret: the guest router's "docs" directory appends "index" to
	// rr[:1] and declines; the user router has docs/index (a file) and docs (a
	// directory).  GET /api/ADMIN: the directory handler overwrites its RelRoute
	// with "admin" and delegates to a sub-router that has the file "admin".
	for _, mode := range []string{"direct", "tiers"} {
		seq := []int{0, 1}
		if mode == "tiers" {
			seq = []int{-1, -1, 0, 1, -1}
		}
		add(Case{Stream: "corpus", Kind: "seq", Mode: mode, Seq: seq, U0: "u", L0: 0,
			Routers: []RouterDef{
				{Ops: []RouterOp{{Op: "dir", P: "docs", H: 1, E: "miss", W: 2, WS: "index"}, {Op: "dir", P: "api", H: 1002, W: 1, WS: "admin"},
					{Op: "dir", P: "x", H: 3, E: "miss", W: 1, WS: "docs"}}},
				{Ops: []RouterOp{{Op: "file", P: "docs/index", H: 11}, {Op: "dir", P: "docs", H: 12}, {Op: "file", P: "x/docs", H: 13}}},
				{Ops: []RouterOp{{Op: "file", P: "admin", H: 21}, {Op: "default", H: 22}}},
			},
			Reqs: []Req{{"/docs/secret", "GET"}, {"/api/ADMIN", "GET"}, {"/x/y", "GET"}, {"/docs/secret/deep", "GET"}, {"/api/admin", "GET"}}})
	}
	// seeded change C20-i: GET /u/settings - the guest router's directory "u" walks one
	// segment on (ShiftRoute(1)) and declines; the user router has the file "settings".
	for _, mode := range []string{"direct", "tiers"} {
		seq := []int{0, 1}
		if mode == "tiers" {
			seq = []int{-1, -1, 0, 1, -1}
		}
		add(Case{Stream: "corpus", Kind: "seq", Mode: mode, Seq: seq, U0: "u", L0: 0,
			Routers: []RouterDef{
				{Ops: []RouterOp{{Op: "dir", P: "u", H: 1, E: "miss", SH: 1}, {Op: "dir", P: "v", H: 2, E: "miss", SH: 2}}},
				{Ops: []RouterOp{{Op: "file", P: "settings", H: 11}, {Op: "file", P: "u/settings", H: 12}, {Op: "file", P: "z", H: 13}}},
			},
			Reqs: []Req{{"/u/settings", "GET"}, {"/u/x/settings", "GET"}, {"/v/x/z", "GET"}, {"/u/settings/", "GET"}, {"/v/x/y/z", "GET"}}})
	}
	// seeded change C20-l: routes and request paths deeper than any number the package
	// might name (a route split that stops after 32 segments): depths 31, 32, 33, 40,
	// 64, 65, 129 and whatever the translator finds (deepDepths), file routes at depth
	// d and d-1, a directory route, a default handler, and two tiers.
	{
		rep := func(seg string, n int) string { return strings.TrimSuffix(strings.Repeat(seg+"/", n), "/") }
		depths := append([]int{31, 32, 33, 40, 64, 65, 129}, deepDepths...)
		for _, d := range depths {
			if d < 2 {
				continue
			}
			add(Case{Stream: "deep", Kind: "router",
				Routers: []RouterDef{{Ops: []RouterOp{{Op: "file", P: rep("a", d), H: 1}, {Op: "file", P: rep("a", d-1), H: 2},
					{Op: "dir", P: "b/" + rep("a", d-1), H: 3}, {Op: "default", H: 4}}}},
				Reqs: []Req{{"/" + rep("a", d-1), "GET"}, {"/" + rep("a", d), "GET"}, {"/" + rep("a", d+1), "GET"},
					{"/" + rep("a", 2*d+1), "GET"}, {"/" + rep("a", d) + "/", "GET"}, {"/b/" + rep("a", d-1) + "/x/y", "GET"},
					{"/b/" + rep("a", d-1) + "/" + rep("c", d), "GET"}, {"/b/" + rep("a", d-2), "GET"}}})
			// two tiers: the guest router's file at depth d must not pre-empt the user router's directory
			add(Case{Stream: "deep", Kind: "seq", Mode: "tiers", Seq: []int{-1, -1, 0, 1, -1}, U0: "u", L0: 0,
				Routers: []RouterDef{
					{Ops: []RouterOp{{Op: "file", P: rep("a", d), H: 1}}},
					{Ops: []RouterOp{{Op: "dir", P: rep("a", d+2), H: 2}, {Op: "file", P: rep("a", d+1), H: 3}}},
				},
				Reqs: []Req{{"/" + rep("a", d), "GET"}, {"/" + rep("a", d+1), "GET"}, {"/" + rep("a", d+8), "GET"}, {"/" + rep("a", d+2) + "/z", "GET"}}})
		}
	}
	// ... and a Mux / Router / HostMux that keeps being registered on after it served
	{
		sp := func(p string) Step { return Step{Serve: true, Path: p, Method: "GET"} }
		add(Case{Stream: "corpus", Kind: "steps", On: "mux", Steps: []Step{
			sp("/a/b"), {Mux: &MuxOp{Op: "prefix", S: "/a", F: 1}}, sp("/a/b"), {Mux: &MuxOp{Op: "prefix", S: "/a/", F: 2}}, sp("/a/b"),
			{Mux: &MuxOp{Op: "exact", S: "/a/b", F: 3}}, sp("/a/b"), sp("/a/bc"), {Mux: &MuxOp{Op: "prefix", S: "/a/", F: 4}}, sp("/a/bc"),
			{Mux: &MuxOp{Op: "dir", S: "/a/b", F: 5}}, sp("/a/b/c"), sp("/a/b")}})
		add(Case{Stream: "corpus", Kind: "steps", On: "router", Steps: []Step{
			sp("/a"), {Rop: &RouterOp{Op: "file", P: "a", H: 1}}, sp("/a"), {Rop: &RouterOp{Op: "file", P: "a", H: 2}}, sp("/a"),
			{Rop: &RouterOp{Op: "dir", P: "/a/", H: 3}}, sp("/a/b"), {Rop: &RouterOp{Op: "dir", P: "a/b", H: 4}}, sp("/a/b"), sp("/a/b/c"),
			sp("/"), {Rop: &RouterOp{Op: "index", H: 5}}, sp("/"), {Rop: &RouterOp{Op: "index", H: 6}}, sp("/"),
			{Rop: &RouterOp{Op: "index", H: 7, Nil: true}}, sp("/"), {Rop: &RouterOp{Op: "default", H: 8}}, sp("/"), sp("/zz"),
			{Rop: &RouterOp{Op: "default", H: 9, Nil: true}}, sp("/zz"), {Rop: &RouterOp{Op: "file", P: "zz", H: 10, Nil: true}}, sp("/zz"),
			{Rop: &RouterOp{Op: "file", P: "zz", H: 11}}, sp("/zz")}})
		add(Case{Stream: "corpus", Kind: "steps", On: "host", Steps: []Step{
			sp("shanhu.io"), {HSet: &HostSet{H: "shanhu.io", F: 1}}, sp("shanhu.io"), sp("Shanhu.io"), sp("shanhu.io."), sp("shanhu.io:443"),
			{HSet: &HostSet{H: "shanhu.io", F: 2}}, sp("shanhu.io"), {HSet: &HostSet{H: "shanhu.io:443", F: 3}}, sp("shanhu.io:443"), sp("shanhu.io")}})
	}

	// --- mux: all ordered prefix sets of size <= 2 (or 3) over {a,b,/}^{1..3}
	N := len(smallPrefixes)
	for i := 0; i < N; i++ {
		add(Case{Stream: "mux-small", Kind: "mux", Ops: prefixOps([]string{smallPrefixes[i]}), PSet: "small"})
	}
	for i := 0; i < N; i++ {
		for j := 0; j < N; j++ {
			if i != j {
				add(Case{Stream: "mux-small", Kind: "mux",
					Ops: prefixOps([]string{smallPrefixes[i], smallPrefixes[j]}), PSet: "small"})
			}
		}
	}
	// hx.NewRng's streams for consecutive seeds are one-step shifts of each other;
	// spread the seeds first.
	r := hx.NewRng(seed*0x2545F4914F6CDD1D + 0x1b873593)
	for i := 0; i < N; i++ {
		for j := 0; j < N; j++ {
			for k := 0; k < N; k++ {
				if i == j || j == k || i == k {
					continue
				}
				if !thorough && r.Intn(40) != 0 {
					continue
				}
				add(Case{Stream: "mux-triples", Kind: "mux",
					Ops: prefixOps([]string{smallPrefixes[i], smallPrefixes[j], smallPrefixes[k]}), PSet: "small"})
			}
		}
	}

	// --- mux: random op sequences (prefix/exact/dir, duplicates, empty strings)
	nRand := 300
	if thorough {
		nRand = 6000
	}
	for n := 0; n < nRand; n++ {
		var ops []MuxOp
		var pool []string
		k := 1 + r.Intn(9)
		alpha := []string{"ab/", "ab", "abc/", "a/"}[r.Intn(4)]
		for i := 0; i < k; i++ {
			s := randStr(r, alpha, 6)
			if len(pool) > 0 && r.Intn(4) == 0 {
				s = pool[r.Intn(len(pool))]
				if r.Bool() && len(s) > 0 {
					s = s[:r.Intn(len(s)+1)]
				} else if r.Bool() {
					s += randStr(r, alpha, 2)
				}
			}
			pool = append(pool, s)
			op := []string{"prefix", "prefix", "prefix", "exact", "dir"}[r.Intn(5)]
			ops = append(ops, MuxOp{Op: op, S: s, F: i + 1})
		}
		var paths []string
		for i := 0; i < 12; i++ {
			p := randStr(r, alpha, 8)
			if r.Intn(2) == 0 {
				p = pool[r.Intn(len(pool))] + randStr(r, alpha, 2)
			}
			paths = append(paths, p)
		}
		add(Case{Stream: "mux-rand", Kind: "mux", Ops: ops, Paths: paths})
	}

	// --- trie directly: arbitrary bytes (malformed stream for a path router:
	// NUL, 0xff, empty, repeated), longer strings, many insertions
	for n := 0; n < nRand; n++ {
		alpha := []string{"ab", "\x00\xff", "ab\x00/\xff", "abcdefgh"}[r.Intn(4)]
		k := 1 + r.Intn(14)
		var adds []string
		for i := 0; i < k; i++ {
			s := randStr(r, alpha, 7)
			if len(adds) > 0 && r.Intn(3) == 0 {
				s = adds[r.Intn(len(adds))]
				if len(s) > 0 && r.Bool() {
					s = s[:r.Intn(len(s)+1)]
				} else {
					s += randStr(r, alpha, 3)
				}
			}
			adds = append(adds, s)
		}
		var paths []string
		for i := 0; i < 12; i++ {
			p := randStr(r, alpha, 9)
			if r.Intn(2) == 0 {
				p = adds[r.Intn(len(adds))] + randStr(r, alpha, 2)
			}
			paths = append(paths, p)
		}
		add(Case{Stream: "trie-rand", Kind: "trie", Adds: adds, Paths: paths})
	}

	// --- segment trie: all ordered route sets of size <= 2 over {a,b}^{0..3},
	// a sample (or all) of size 3, all queries of depth <= 4
	val := func(rt []string) string { return "/" + strings.Join(rt, "/") }
	M := len(segRoutes)
	for i := 0; i < M; i++ {
		add(Case{Stream: "seg-small", Kind: "seg", SAdds: []SegAdd{{segRoutes[i], val(segRoutes[i])}}, SQSet: "segq"})
		for j := 0; j < M; j++ {
			if i == j {
				continue
			}
			add(Case{Stream: "seg-small", Kind: "seg",
				SAdds: []SegAdd{{segRoutes[i], val(segRoutes[i])}, {segRoutes[j], val(segRoutes[j])}}, SQSet: "segq"})
			for k := 0; k < M; k++ {
				if k == i || k == j || (!thorough && r.Intn(12) != 0) {
					continue
				}
				add(Case{Stream: "seg-triples", Kind: "seg",
					SAdds: []SegAdd{{segRoutes[i], val(segRoutes[i])}, {segRoutes[j], val(segRoutes[j])},
						{segRoutes[k], val(segRoutes[k])}}, SQSet: "segq"})
			}
		}
	}
	// malformed for a segment trie: empty segments, segments with slashes,
	// empty values, duplicate routes with other values
	for n := 0; n < nRand/2; n++ {
		sg := []string{"a", "b", "", "a/b", "/"}
		k := 1 + r.Intn(6)
		var adds []SegAdd
		for i := 0; i < k; i++ {
			d := r.Intn(4)
			var rt []string
			for j := 0; j < d; j++ {
				rt = append(rt, pick(r, sg))
			}
			if rt == nil {
				rt = []string{}
			}
			v := "v" + strconv.Itoa(i)
			if r.Intn(8) == 0 {
				v = ""
			}
			adds = append(adds, SegAdd{rt, v})
		}
		var qs [][]string
		for i := 0; i < 10; i++ {
			d := r.Intn(5)
			q := []string{}
			for j := 0; j < d; j++ {
				q = append(q, pick(r, sg))
			}
			qs = append(qs, q)
		}
		add(Case{Stream: "seg-rand", Kind: "seg", SAdds: adds, SFinds: qs})
	}

	// --- router: route sets over segments {a,b} depth <= 3, file/dir kinds,
	// methods, nested routers, index/default; request paths with trailing
	// and repeated slashes
	nRouter := 700
	if thorough {
		nRouter = 12000
	}
	reqPaths := allStrings("ab/", 0, 5)
	for n := 0; n < nRouter; n++ {
		defs := genRouterDefs(r, false)
		var reqs []Req
		for i := 0; i < 14; i++ {
			p := reqPaths[r.Intn(len(reqPaths))]
			if r.Intn(3) == 0 {
				p = "/" + p
			}
			if r.Intn(4) == 0 {
				p = randStr(r, "ab/", 9)
			}
			reqs = append(reqs, Req{Path: p, Method: []string{"GET", "GET", "POST", ""}[r.Intn(4)]})
		}
		if n%5 == 4 {
			// every fifth set goes through the HTTP entry point: request targets
			// must be origin-form, methods real
			for i := range reqs {
				if !strings.HasPrefix(reqs[i].Path, "/") {
					reqs[i].Path = "/" + reqs[i].Path
				}
				if reqs[i].Method == "" {
					reqs[i].Method = "GET"
				}
			}
			add(Case{Stream: "router-http", Kind: "router", Routers: defs, Reqs: reqs, HTTP: true})
			continue
		}
		add(Case{Stream: "router", Kind: "router", Routers: defs, Reqs: reqs})
	}

	// --- round 2: failing leaves, nil handlers, JSONCall/Call
	for n := 0; n < nRouter/4; n++ {
		defs := genRouterDefs(r, true)
		var reqs []Req
		for i := 0; i < 12; i++ {
			p := "/" + reqPaths[r.Intn(len(reqPaths))]
			reqs = append(reqs, Req{Path: p, Method: []string{"GET", "POST", "POST", "PUT", "get", "HEAD", "DELETE", "OPTIONS"}[r.Intn(8)]})
		}
		add(Case{Stream: "router-rich", Kind: "router", Routers: defs, Reqs: reqs})
	}

	// --- round 3: ONE context handed to several routers in a row (directly, and
	// as the Auth/Resource/Guest/User/Admin of a ServiceSet)
	seqPaths := allStrings("ab/", 0, 5)
	for n := 0; n < nRouter/2; n++ {
		defs := genRouterDefs(r, n%2 == 0)
		for len(defs) < 2 {
			// a further router: its own leaf tags, no references to sub-routers
			d := genRouterDefs(r, false)[0]
			for j := range d.Ops {
				d.Ops[j].H = 500 + 20*len(defs) + j
			}
			defs = append(defs, d)
		}
		var reqs []Req
		for i := 0; i < 12; i++ {
			p := "/" + seqPaths[r.Intn(len(seqPaths))]
			if r.Intn(2) == 0 {
				// two registered routes of different routers, one after the other
				var cand []string
				for _, d := range defs {
					for _, op := range d.Ops {
						if op.P != "" {
							cand = append(cand, strings.Trim(op.P, "/"))
						}
					}
				}
				if len(cand) > 0 {
					p = "/" + pick(r, cand) + "/" + pick(r, cand)
					if r.Intn(4) == 0 {
						p += "/"
					}
				}
			}
			reqs = append(reqs, Req{Path: p, Method: []string{"GET", "GET", "POST"}[r.Intn(3)]})
		}
		c := Case{Stream: "seq-direct", Kind: "seq", Mode: "direct", Routers: defs, Reqs: reqs}
		if n%2 == 1 {
			c.Stream, c.Mode = "seq-tiers", "tiers"
			for i := 0; i < 5; i++ {
				x := r.Intn(len(defs)+1) - 1 // -1: this tier is nil
				if i == 0 && r.Bool() {
					x = -1
				}
				c.Seq = append(c.Seq, x)
			}
			id := []struct {
				u string
				l int
			}{{"", 0}, {"u", 0}, {"adm", 1}, {"adm", 1}}[r.Intn(4)]
			c.U0, c.L0 = id.u, id.l
		} else {
			for i := 2 + r.Intn(3); i > 0; i-- {
				c.Seq = append(c.Seq, r.Intn(len(defs)))
			}
		}
		add(c)
	}

	// --- round 3: one long-lived Mux / Router / HostMux, registrations mixed with requests
	for n := 0; n < nRouter/2; n++ {
		on := []string{"mux", "router", "host"}[n%3]
		c := Case{Stream: "steps-" + on, Kind: "steps", On: on}
		var pool []string
		tag := 1
		k := 6 + r.Intn(14)
		for i := 0; i < k; i++ {
			serve := len(pool) > 0 && r.Intn(5) < 3
			switch on {
			case "mux":
				alpha := "ab/"
				if serve {
					p := pool[r.Intn(len(pool))]
					switch r.Intn(4) {
					case 0:
						p += randStr(r, alpha, 2)
					case 1:
						p = randStr(r, alpha, 5)
					case 2:
						if len(p) > 0 {
							p = p[:r.Intn(len(p)+1)]
						}
					}
					c.Steps = append(c.Steps, Step{Serve: true, Path: p})
					continue
				}
				s := randStr(r, alpha, 4)
				if len(pool) > 0 && r.Intn(3) == 0 {
					s = pool[r.Intn(len(pool))] + randStr(r, alpha, 2)
				}
				pool = append(pool, s)
				c.Steps = append(c.Steps, Step{Mux: &MuxOp{Op: []string{"prefix", "prefix", "exact", "dir"}[r.Intn(4)], S: s, F: tag}})
				tag++
			case "router":
				if serve {
					p := "/" + pool[r.Intn(len(pool))]
					switch r.Intn(4) {
					case 0:
						p += "/" + []string{"a", "b"}[r.Intn(2)]
					case 1:
						p += "/"
					case 2:
						p = "/" + randStr(r, "ab/", 4)
					}
					c.Steps = append(c.Steps, Step{Serve: true, Path: p, Method: []string{"GET", "POST"}[r.Intn(2)]})
					continue
				}
				var sg []string
				for x := 1 + r.Intn(3); x > 0; x-- {
					sg = append(sg, []string{"a", "b"}[r.Intn(2)])
				}
				p := strings.Join(sg, "/")
				pool = append(pool, p)
				op := &RouterOp{Op: []string{"file", "dir", "get", "post", "index", "default"}[r.Intn(6)], P: p, H: tag}
				if op.Op == "index" || op.Op == "default" {
					op.P = ""
					op.Nil = r.Intn(4) == 0
				} else if r.Intn(12) == 0 {
					op.Nil = true
				}
				if r.Intn(8) == 0 {
					op.E = []string{"miss", "internal"}[r.Intn(2)]
				}
				if r.Intn(4) == 0 {
					op.W, op.WS = 1+r.Intn(2), []string{"a", "b"}[r.Intn(2)]
				}
				if r.Intn(5) == 0 {
					op.SH = 1 + r.Intn(2)
				}
				c.Steps = append(c.Steps, Step{Rop: op})
				tag++
			default:
				hostsAll := []string{"shanhu.io", "Shanhu.IO", "shanhu.io:443", "shanhu.io.", "h8liu.io", ""}
				if serve {
					c.Steps = append(c.Steps, Step{Serve: true, Path: pick(r, hostsAll)})
					continue
				}
				h := pick(r, hostsAll)
				pool = append(pool, h)
				c.Steps = append(c.Steps, Step{HSet: &HostSet{H: h, F: tag}})
				tag++
			}
		}
		// every case ends with requests for everything registered
		for _, p := range pool {
			st := Step{Serve: true, Path: p, Method: "GET"}
			if on == "router" {
				st.Path = "/" + p
			}
			c.Steps = append(c.Steps, st)
		}
		add(c)
	}

	// --- round 2: raw request lines through a real http.Server: escapes,
	// repeated/trailing slashes, "*", CONNECT, absolute-form, Host variants
	pieces := []string{"a", "b", "a", "b", "/", "/", "/", "//", "%2F", "%2f", "%61", "%62", "%2e%2e", "..", ".", "%", "%2", "%zz", "%00",
		"?x=/b", "#f", "*", "+", "%25", "a/b", "b/a"}
	hostVals := []string{"shanhu.io", "Shanhu.IO", "shanhu.io:443", "shanhu.io.", "[::1]:8080", "[::1]", "h8liu.io", ""}
	nEntry := nRouter / 5
	for n := 0; n < nEntry; n++ {
		defs := genRouterDefs(r, n%3 == 0)
		c := Case{Stream: "entry", Kind: "entry", Routers: defs}
		if r.Bool() {
			c.HMux = true
			c.Stream = "entry-host"
			k := 1 + r.Intn(4)
			for i := 0; i < k; i++ {
				c.HSets = append(c.HSets, HostSet{H: pick(r, hostVals), F: r.Intn(len(defs))})
			}
		}
		for i := 0; i < 12; i++ {
			var t string
			switch r.Intn(8) {
			case 0:
				t = "*"
			case 1:
				t = "http://" + pick(r, []string{"abs.host", "abs.host:81", "shanhu.io", "[::1]:8080"})
			default:
				t = "/"
			}
			if t != "*" && r.Bool() {
				// a registered route of some router, written with other separators and escapes
				var cand []string
				for _, d := range defs {
					for _, op := range d.Ops {
						if op.P != "" {
							cand = append(cand, op.P)
						}
					}
				}
				if len(cand) > 0 {
					if !strings.HasSuffix(t, "/") {
						t += "/"
					}
					var sg []string
					for _, x := range strings.Split(pick(r, cand), "/") {
						if x == "" {
							continue
						}
						if r.Intn(4) == 0 {
							x = strings.ReplaceAll(strings.ReplaceAll(x, "a", "%61"), "b", "%62")
						}
						sg = append(sg, x)
					}
					t += strings.Join(sg, pick(r, []string{"/", "/", "//", "%2F", "%2f"}))
					switch r.Intn(5) {
					case 0:
						t += "/"
					case 1:
						t += "/" + pick(r, pieces)
					case 2:
						t += "?q=/x"
					}
				}
			} else if t != "*" {
				k := r.Intn(6)
				if k > 0 && !strings.HasSuffix(t, "/") {
					t += "/" // absolute-form: the authority ends here (its own syntax is net/url's business)
				}
				for x := 0; x < k; x++ {
					t += pick(r, pieces)
				}
			}
			q := Raw{Method: []string{"GET", "GET", "POST", "OPTIONS"}[r.Intn(4)], Target: t}
			if r.Intn(16) == 0 {
				q.Method = "CONNECT"
				if r.Bool() {
					q.Target = pick(r, []string{"shanhu.io:443", "h8liu.io:80", "[::1]:8080"})
				}
			}
			switch r.Intn(10) {
			case 0:
				q.P10 = true // HTTP/1.0, maybe without Host
				if r.Bool() {
					h := pick(r, hostVals)
					q.Host = &h
				}
			case 1:
				// HTTP/1.1 without Host: net/http answers 400
			default:
				h := pick(r, hostVals)
				if c.HMux && len(c.HSets) > 0 && r.Bool() {
					h = c.HSets[r.Intn(len(c.HSets))].H
				}
				q.Host = &h
			}
			c.Raws = append(c.Raws, q)
		}
		add(c)
	}

	// --- tiers: every combination of (initial user, level, IsAdmin
	// predicate) x (each tier nil/miss/hit) x auth behaviour x path x entry
	behs := []Beh{{Nil: true}, {Res: "miss"}, {Res: "nil"}}
	auths := []AuthDef{
		{Nil: true},
		{Serve: Beh{Res: "miss"}},
		{Serve: Beh{Res: "miss"}, SetupSet: true, SetupU: "u", SetupL: 0},
		{Serve: Beh{Res: "miss"}, SetupSet: true, SetupU: "adm", SetupL: 1},
		{Serve: Beh{Res: "nil"}},
		{Serve: Beh{Res: "miss"}, SetupErr: true},
	}
	idents := []struct {
		u string
		l int
	}{{"", 0}, {"", 1}, {"u", 0}, {"u", 1}, {"root", -1}}
	for _, internal := range []bool{false, true} {
		for _, id := range idents {
			for _, adm := range []string{"nil", "true", "false", "lvl2", "root"} {
				for ai := range auths {
					for _, path := range []string{"/", "/x"} {
						for t := 0; t < 81; t++ {
							if !thorough && (ai == 0 || ai >= 4) && t%9 != 4 {
								continue // fewer tier combinations for the degenerate auth behaviours
							}
							tiers := []Beh{behs[t%3], behs[t/3%3], behs[t/9%3], behs[t/27%3]}
							signin := []string{"nil", "ok", "err"}[t%3]
							add(Case{Stream: "tiers-all", Kind: "tiers", Internal: internal, U0: id.u, L0: id.l,
								Path: path, Auth: &auths[ai], Tiers: tiers, IsAdmin: adm, SignIn: signin})
						}
					}
				}
			}
		}
	}
	// handlers that change the identity, handlers that fail, odd users
	for n := 0; n < nRand*2; n++ {
		rb := func() Beh {
			b := Beh{Res: []string{"miss", "miss", "nil", "err"}[r.Intn(4)]}
			if r.Intn(6) == 0 {
				b.Nil = true
			}
			if r.Intn(4) == 0 {
				b.SetUser = true
				b.U = []string{"", "u", "root"}[r.Intn(3)]
				b.L = r.Intn(4) - 1
			}
			return b
		}
		a := AuthDef{Serve: rb(), SetupSet: r.Bool(), SetupU: []string{"", "u", "root", "\x00"}[r.Intn(4)],
			SetupL: r.Intn(5) - 1, SetupErr: r.Intn(8) == 0, Nil: r.Intn(10) == 0}
		add(Case{Stream: "tiers-rand", Kind: "tiers", Internal: r.Bool(),
			U0: []string{"", "", "u"}[r.Intn(3)], L0: r.Intn(3) - 1,
			Path: []string{"/", "/x", "", "//"}[r.Intn(4)], Auth: &a,
			Tiers: []Beh{rb(), rb(), rb(), rb()},
			IsAdmin: []string{"nil", "nil", "true", "false", "lvl2", "root"}[r.Intn(6)],
			SignIn:  []string{"nil", "ok", "err"}[r.Intn(3)]})
	}

	// --- host mux
	hosts := []string{"shanhu.io", "h8liu.io", "Shanhu.io", "shanhu.io:443", "shanhu.io.", "", "x.shanhu.io", "io"}
	for n := 0; n < 120; n++ {
		k := r.Intn(5)
		sets := []HostSet{}
		for i := 0; i < k; i++ {
			sets = append(sets, HostSet{H: pick(r, hosts), F: i + 1})
		}
		add(Case{Stream: "host", Kind: "host", HSets: sets, HReqs: hosts})
	}
	return cs
}

func resolve(c *Case) {
	c.paths = c.Paths
	if c.PSet == "small" {
		c.paths = smallPaths
	}
	c.sq = c.SFinds
	if c.SQSet == "segq" {
		c.sq = segQueries
	}
}

func main() {
	seed := flag.Uint64("seed", 1, "seed")
	tier := flag.String("tier", "quick", "quick | thorough")
	child := flag.Bool("child", false, "child mode")
	from := flag.Int("from", 0, "first case (child)")
	mem := flag.Uint64("mem", 3<<30, "address-space limit of the child")
	sets := flag.Bool("sets", false, "print the shared path sets and exit")
	runStdin := flag.Bool("run", false, "run the cases given as JSON lines on stdin (replay / shrinking)")
	depths := flag.String("depths", "", "comma-separated route depths of the deep stream (besides the fixed ones)")
	conc := flag.Int("conc", 0, "serve the first N mux/seg/router/host cases concurrently (build with -race)")
	flag.Parse()

	for _, x := range strings.Split(*depths, ",") {
		if v, err := strconv.Atoi(strings.TrimSpace(x)); err == nil && v > 1 && v <= 600 {
			deepDepths = append(deepDepths, v)
		}
	}
	out := hx.NewOut(os.Stdout)
	if *sets {
		out.Emit(map[string]interface{}{"small": lifts(smallPaths), "segq": segQueries})
		return
	}
	if *runStdin {
		sc := bufio.NewScanner(os.Stdin)
		sc.Buffer(make([]byte, 1<<20), 1<<28)
		for sc.Scan() {
			var c Case
			if err := json.Unmarshal(sc.Bytes(), &c); err != nil {
				fmt.Fprintln(os.Stderr, err)
				os.Exit(2)
			}
			c.Obs = nil
			unliftCase(&c)
			resolve(&c)
			if p := guard(func() { runCase(&c) }); p != "" {
				c.Obs = &Obs{Crash: "panic: " + p}
			}
			liftCase(&c)
			out.Emit(&c)
		}
		return
	}
	cs := genCases(*seed, *tier)
	if *conc > 0 {
		per := map[string]int{}
		for i := range cs {
			c := &cs[i]
			k := c.Kind
			if k != "mux" && k != "seg" && k != "router" && k != "host" {
				continue
			}
			if c.Stream == "mux-small" || c.Stream == "mux-triples" || c.Stream == "seg-small" || c.Stream == "seg-triples" {
				k = c.Stream
			}
			if per[k] >= *conc {
				continue
			}
			per[k]++
			resolve(c)
			same := concCase(c)
			out.Emit(map[string]interface{}{"i": c.I, "stream": "conc", "kind": c.Kind, "from": c.Stream, "same": same})
		}
		return
	}
	if *child {
		hx.LimitMemory(*mem)
		for i := *from; i < len(cs); i++ {
			resolve(&cs[i])
			done := make(chan struct{})
			go func(i int) {
				select {
				case <-done:
				case <-time.After(20 * time.Second):
					fmt.Fprintf(os.Stderr, "case %d did not finish within 20s\n", i)
					os.Exit(3)
				}
			}(i)
			runCase(&cs[i])
			close(done)
			liftCase(&cs[i])
			out.Emit(&cs[i])
		}
		return
	}
	args := []string{"-seed", strconv.FormatUint(*seed, 10), "-tier", *tier, "-depths", *depths}
	err := hx.RunIsolated(len(cs), args, *mem,
		func(i int, raw []byte) { os.Stdout.Write(append(raw, '\n')) },
		func(i int, why string) {
			c := cs[i]
			liftCase(&c)
			c.Obs = &Obs{Crash: "fatal: " + why}
			out.Emit(&c)
		})
	if err != nil {
		fmt.Fprintln(os.Stderr, err)
		os.Exit(2)
	}
}
