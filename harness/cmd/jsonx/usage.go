// Usage patterns of the API (round 3 audit, see the table at the top of
// main.go): one Decoder driven by a script of calls, also after a call that
// failed; Decoders fed by io.Readers of every legal shape, including a reader
// that fails; results of consecutive and of concurrent calls that must not
// share memory; decoding targets of every shape; the exported lexing
// functions the four entry points do not reach.
package main

import (
	"bytes"
	"encoding/hex"
	"encoding/json"
	"errors"
	"fmt"
	"io"
	"math/big"
	"reflect"
	"strconv"
	"strings"
	"sync"
	"unicode/utf8"

	"shanhu.io/g/jsonx"
	"shanhu.io/g/lexing"
	"shanhu.io/g/strtoken"
)

// ---------------------------------------------------------------- a script of calls on one Decoder

// Step is what one call on the long-lived Decoder returned.
type Step struct {
	Op    string     `json:"op"` // M(ore) D(ecode) S(eries)
	More  bool       `json:"more,omitempty"`
	Ok    bool       `json:"ok"`
	Out   []int      `json:"out,omitempty"`
	Errs  []string   `json:"errs,omitempty"`
	Fin   int        `json:"fin,omitempty"`
	Items [][2][]int `json:"items,omitempty"`
	Got   string     `json:"got,omitempty"`
}

func runScript(c *Case, o *Obs, in []byte) {
	o.Floats = floatTable(in)
	dec := jsonx.NewDecoder(bytes.NewReader(in))
	o.Steps = []Step{}
	for _, op := range c.Script {
		st := Step{Op: string(op)}
		switch op {
		case 'M':
			st.More = dec.More()
			st.Ok = true
		case 'D':
			var raw json.RawMessage
			es := dec.Decode(&raw)
			if es != nil {
				st.Errs = errNames(es)
				st.Fin = 1
				if len(es) == 1 && st.Errs[0] == "jsonerr" {
					st.Fin = 2
				}
				if len(es) == 0 && o.Note == "" {
					o.Note = "Decode returned an empty, non-nil error list"
				}
				if raw != nil && st.Fin == 1 && o.Note == "" {
					o.Note = "Decode set the value and returned errors"
				}
			} else {
				st.Ok = true
				st.Out = runesOf([]byte(raw))
				holdBytes("a RawMessage Decode filled", []byte(raw))
				if st.Out == nil {
					st.Out = []int{}
				}
				if raw == nil && o.Note == "" {
					o.Note = "Decode returned neither a value nor an error"
				}
				cj, err := canonJSON([]byte(raw))
				if err != nil {
					cj = "E(" + err.Error() + ")"
				}
				st.Got = cj
			}
		case 'S':
			typed, es := dec.DecodeSeries(knownMaker(c.Known))
			if es != nil {
				st.Errs = errNames(es)
				if len(es) == 0 && o.Note == "" {
					o.Note = "DecodeSeries returned an empty, non-nil error list"
				}
				if typed != nil && o.Note == "" {
					o.Note = "DecodeSeries returned a result together with errors"
				}
			} else {
				st.Ok = true
				st.Items = [][2][]int{}
				var got []string
				for _, t := range typed {
					raw := t.V.(*json.RawMessage)
					st.Items = append(st.Items, [2][]int{bytesOf([]byte(t.Type)), runesOf([]byte(*raw))})
					holdBytes("an entry DecodeSeries returned", []byte(*raw))
					cj, err := canonJSON([]byte(*raw))
					if err != nil {
						cj = "E(" + err.Error() + ")"
					}
					got = append(got, t.Type+" "+cj)
				}
				st.Got = strings.Join(got, "#")
			}
		}
		o.Steps = append(o.Steps, st)
	}
	o.Ok = true
}

// ---------------------------------------------------------------- readers

var errInjected = errors.New("injected read failure")

// shapedReader delivers data in the way mode says:
//
//	1 one byte per Read
//	2 chunks of 1..7 bytes, sizes derived from the data (deterministic)
//	3 the last chunk comes together with io.EOF
//	4 every other Read returns (0, nil)
//	5 chunks of 4096 (the size of bufio's buffer) minus 0..3 bytes
//	6 delivers cut bytes, then fails with errInjected (never io.EOF)
//	7 as 6, but the failure comes together with the last delivered bytes
type shapedReader struct {
	data  []byte
	mode  int
	cut   int
	k     int
	empty bool
}

func (r *shapedReader) Read(p []byte) (int, error) {
	if len(p) == 0 {
		return 0, nil
	}
	limit := len(r.data)
	if r.mode == 6 || r.mode == 7 {
		limit = r.cut
	}
	left := limit - r.k
	if left <= 0 {
		if r.mode == 6 || r.mode == 7 {
			return 0, errInjected
		}
		return 0, io.EOF
	}
	n := left
	switch r.mode {
	case 1:
		n = 1
	case 2:
		n = 1 + (r.k*7+len(r.data))%7
	case 4:
		r.empty = !r.empty
		if r.empty {
			return 0, nil
		}
		n = 1 + r.k%5
	case 5:
		n = 4096 - r.k%4
	case 6, 7:
		n = 1 + (r.k*5+3)%9
	}
	if n > left {
		n = left
	}
	if n > len(p) {
		n = len(p)
	}
	copy(p, r.data[r.k:r.k+n])
	r.k += n
	if r.k >= limit {
		if r.mode == 3 {
			return n, io.EOF
		}
		if r.mode == 7 {
			return n, errInjected
		}
	}
	return n, nil
}

func streamOf(o *Obs, r io.Reader, limit int) {
	o.Vals = [][]int{}
	dec := jsonx.NewDecoder(r)
	var got []string
	for i := 0; dec.More(); i++ {
		if i > limit+2 {
			o.Note = "More() still true after more successful Decode calls than input bytes"
			return
		}
		var raw json.RawMessage
		es := dec.Decode(&raw)
		if es != nil {
			o.Errs = errNames(es)
			o.Fin = 1
			if len(es) == 1 && o.Errs[0] == "jsonerr" {
				o.Fin = 2
			}
			return
		}
		o.Vals = append(o.Vals, runesOf([]byte(raw)))
		holdBytes("a RawMessage Decode filled", []byte(raw))
		cj, err := canonJSON([]byte(raw))
		if err != nil {
			cj = "E(" + err.Error() + ")"
		}
		got = append(got, cj)
	}
	o.Ok = true
	o.Got = strings.Join(got, "#")
}

func seriesOf(c *Case, o *Obs, r io.Reader) {
	typed, es := jsonx.NewDecoder(r).DecodeSeries(knownMaker(c.Known))
	o.Errs = errNames(es)
	if es == nil {
		o.Ok = true
		o.Items = [][2][]int{}
		for _, t := range typed {
			raw := t.V.(*json.RawMessage)
			o.Items = append(o.Items, [2][]int{bytesOf([]byte(t.Type)), runesOf([]byte(*raw))})
			holdBytes("an entry DecodeSeries returned", []byte(*raw))
		}
	} else if typed != nil {
		o.Note = "result together with errors"
	}
}

// runReader: op rstream / rseries.  The same Decoder calls as the ops
// stream / series, with the input delivered by a shaped reader; for the
// modes that deliver the whole input the result must be the one a
// bytes.Reader gives.
func runReader(c *Case, o *Obs, in []byte) {
	o.Floats = floatTable(in)
	rd := &shapedReader{data: in, mode: c.RMode, cut: c.Cut}
	plain := &Obs{}
	if c.Op == "rstream" {
		streamOf(o, rd, len(in))
		streamOf(plain, bytes.NewReader(in), len(in))
	} else {
		seriesOf(c, o, rd)
		seriesOf(c, plain, bytes.NewReader(in))
	}
	if c.RMode == 6 || c.RMode == 7 {
		return
	}
	a, _ := json.Marshal([]interface{}{o.Ok, o.Errs, o.Vals, o.Items, o.Fin})
	b, _ := json.Marshal([]interface{}{plain.Ok, plain.Errs, plain.Vals, plain.Items, plain.Fin})
	if !bytes.Equal(a, b) && o.Note == "" {
		o.Note = fmt.Sprintf("reader shape %d: the result differs from the one for the same bytes in a bytes.Reader", c.RMode)
	}
}

// ---------------------------------------------------------------- results must not share memory; inputs are read-only

type failWriter struct {
	failAt int // the call (from 1) that fails; 0 = never
	once   bool
	calls  int
	buf    bytes.Buffer
}

func (w *failWriter) Write(p []byte) (int, error) {
	w.calls++
	if w.failAt > 0 && (w.calls == w.failAt || (!w.once && w.calls > w.failAt)) {
		return 0, errInjected
	}
	return w.buf.Write(p)
}

func clone(b []byte) []byte { return append([]byte(nil), b...) }

// runReuse: op reuse.  Stream c07: Marshal / Sprint / Fprint / WriteFile of
// two values one after the other, then concurrently.  Other streams:
// ToJSON / Unmarshal / DecodeSeries / strtoken.Parse of two inputs one after
// the other, then concurrently.  Everything is read off the implementation.
func runReuse(c *Case, o *Obs) {
	o.Ok = true
	note := func(f string, a ...interface{}) {
		if o.Note == "" {
			o.Note = fmt.Sprintf(f, a...)
		}
	}
	if vs, ok := c.goVal.([]interface{}); ok && c.Stream == "reuse7" {
		// sequential: the first result is still intact after later calls
		type res struct {
			b   []byte
			err error
		}
		first := make([]res, len(vs))
		keep := make([][]byte, len(vs))
		for i, v := range vs {
			b, err := jsonx.Marshal(v)
			first[i] = res{b, err}
			keep[i] = clone(b)
		}
		for i, v := range vs {
			if !bytes.Equal(first[i].b, keep[i]) {
				note("the bytes Marshal returned for value %d changed when Marshal was called again", i)
			}
			b2, err2 := jsonx.Marshal(v)
			if (err2 == nil) != (first[i].err == nil) || !bytes.Equal(b2, keep[i]) {
				note("Marshal of value %d printed %s the first time and %s the second time", i, printable(keep[i]), printable(b2))
			}
			if first[i].err != nil {
				continue
			}
			// a writer that fails must make Fprint fail
			var ok failWriter
			if err := jsonx.Fprint(&ok, v); err != nil || !bytes.Equal(ok.buf.Bytes(), keep[i]) {
				note("Fprint into a writer differs from Marshal for value %d", i)
			}
			for _, once := range []bool{false, true} {
				for _, at := range []int{1, 2, ok.calls / 2, ok.calls - 1, ok.calls} {
					if at < 1 || at > ok.calls {
						continue
					}
					w := &failWriter{failAt: at, once: once}
					if err := jsonx.Fprint(w, v); err == nil {
						note("Fprint returned nil although Write call %d of %d failed (writer then %s)", at, ok.calls,
							map[bool]string{true: "recovered", false: "kept failing"}[once])
					}
				}
			}
		}
		// WriteFile into a directory that does not exist must fail
		if first[0].err == nil {
			if err := jsonx.WriteFile("/nonexistent-dir-jsonxh/v.jsonx", vs[0]); err == nil {
				note("WriteFile into a missing directory returned nil")
			}
		}
		// concurrent
		var wg sync.WaitGroup
		var mu sync.Mutex
		for g := 0; g < 8; g++ {
			wg.Add(1)
			go func(g int) {
				defer wg.Done()
				for r := 0; r < 30; r++ {
					i := (g + r) % len(vs)
					b, err := jsonx.Marshal(vs[i])
					var s string
					var err2 error
					if r%3 == 0 {
						s, err2 = jsonx.Sprint(vs[i])
					}
					mu.Lock()
					if (err == nil) != (first[i].err == nil) || !bytes.Equal(b, keep[i]) {
						note("concurrent Marshal of value %d printed %s, alone it prints %s", i, printable(b), printable(keep[i]))
					}
					if r%3 == 0 && ((err2 == nil) != (first[i].err == nil) || s != string(keep[i])) {
						note("concurrent Sprint of value %d differs from Marshal alone", i)
					}
					mu.Unlock()
				}
			}(g)
		}
		wg.Wait()
		return
	}

	// inputs: c.In and c.In2 ... a list of documents separated by NUL NUL
	docs := bytes.Split(c.input(), []byte{0, 0})
	type out struct {
		j     []byte
		jerr  int
		raw   json.RawMessage
		uerr  string
		items string
		shell string
	}
	one := func(d []byte) out {
		var r out
		var es []*lexing.Error
		r.j, es = jsonx.ToJSON(d)
		r.jerr = len(es)
		if err := jsonx.Unmarshal(d, &r.raw); err != nil {
			r.uerr = "err"
		}
		typed, es2 := jsonx.NewDecoder(bytes.NewReader(d)).DecodeSeries(knownMaker(seriesKnown))
		var sb strings.Builder
		for _, t := range typed {
			sb.WriteString(t.Type + " " + string(*t.V.(*json.RawMessage)) + "\n")
		}
		fmt.Fprintf(&sb, "errs %d", len(es2))
		r.items = sb.String()
		ss, es3 := strtoken.Parse(string(d))
		r.shell = fmt.Sprintf("%q %d", ss, len(es3))
		return r
	}
	origs := make([][]byte, len(docs))
	firsts := make([]out, len(docs))
	keepJ := make([][]byte, len(docs))
	keepR := make([][]byte, len(docs))
	for i, d := range docs {
		origs[i] = clone(d)
		firsts[i] = one(d)
		keepJ[i] = clone(firsts[i].j)
		keepR[i] = clone(firsts[i].raw)
	}
	same := func(a, b out) bool {
		return bytes.Equal(a.j, b.j) && a.jerr == b.jerr && bytes.Equal(a.raw, b.raw) && a.uerr == b.uerr && a.items == b.items && a.shell == b.shell
	}
	for i, d := range docs {
		if !bytes.Equal(d, origs[i]) {
			note("the input bytes of document %d were modified by a call", i)
		}
		if !bytes.Equal(firsts[i].j, keepJ[i]) {
			note("the bytes ToJSON returned for document %d changed when it was called again", i)
		}
		if !bytes.Equal(firsts[i].raw, keepR[i]) {
			note("the value Unmarshal stored for document %d changed when it was called again", i)
		}
		if again := one(d); !same(again, firsts[i]) {
			note("document %d (%s): a second call gives another result than the first", i, printable(d))
		}
	}
	// several Decoders alive at the same time, their calls interleaved: each
	// must read its own document as if it were alone
	alone := make([]*Obs, len(docs))
	decs := make([]*jsonx.Decoder, len(docs))
	inter := make([][]string, len(docs))
	done := make([]bool, len(docs))
	for i, d := range docs {
		alone[i] = &Obs{}
		streamOf(alone[i], bytes.NewReader(d), len(d))
		decs[i] = jsonx.NewDecoder(bytes.NewReader(origs[i]))
	}
	for round, left := 0, len(docs); left > 0 && round < 4096; round++ {
		for i := range docs {
			if done[i] {
				continue
			}
			if !decs[i].More() {
				done[i] = true
				left--
				continue
			}
			var raw json.RawMessage
			if es := decs[i].Decode(&raw); es != nil {
				inter[i] = append(inter[i], "!"+strings.Join(errNames(es), ","))
				done[i] = true
				left--
				continue
			}
			inter[i] = append(inter[i], string(raw))
		}
	}
	for i := range docs {
		var want []string
		for _, v := range alone[i].Vals {
			rs := make([]rune, len(v))
			for k, r := range v {
				rs[k] = rune(r)
			}
			want = append(want, string(rs))
		}
		if alone[i].Fin != 0 {
			want = append(want, "!"+strings.Join(alone[i].Errs, ","))
		}
		if strings.Join(want, "\x00") != strings.Join(inter[i], "\x00") {
			note("document %d (%s): a Decoder whose calls are interleaved with those of other Decoders reads %q, alone %q", i, printable(origs[i]), inter[i], want)
		}
	}
	var wg sync.WaitGroup
	var mu sync.Mutex
	for g := 0; g < 8; g++ {
		wg.Add(1)
		go func(g int) {
			defer wg.Done()
			for r := 0; r < 20; r++ {
				i := (g*3 + r) % len(docs)
				got := one(clone(origs[i]))
				mu.Lock()
				if !same(got, firsts[i]) {
					note("document %d (%s): a call running concurrently with others gives another result than alone", i, printable(origs[i]))
				}
				mu.Unlock()
			}
		}(g)
	}
	wg.Wait()
}

// ---------------------------------------------------------------- decoding targets

type tgStruct struct {
	A int     `json:"a"`
	B string  `json:"b"`
	C []int   `json:"c"`
	D *bool   `json:"d"`
	E float64 `json:"e"`
}

// runTargets: op targets.  jsonx.Unmarshal(in, &t) against
// json.Unmarshal(ToJSON(in), &t) for targets of several types (what "the
// JSON denotes the same value" means to a caller who decodes into a type),
// and the targets encoding/json refuses (nil, not a pointer).
func runTargets(o *Obs, in []byte) {
	o.Ok = true
	note := func(f string, a ...interface{}) {
		if o.Note == "" {
			o.Note = fmt.Sprintf(f, a...)
		}
	}
	js, es := jsonx.ToJSON(in)
	var probe json.RawMessage
	uerr := jsonx.Unmarshal(in, &probe)
	accepted := es == nil && uerr == nil
	if err := jsonx.Unmarshal(in, nil); err == nil {
		note("Unmarshal into nil returned nil")
	}
	if err := jsonx.Unmarshal(in, tgStruct{}); err == nil {
		note("Unmarshal into a non-pointer returned nil")
	}
	var np *tgStruct
	if err := jsonx.Unmarshal(in, np); err == nil {
		note("Unmarshal into a nil pointer returned nil")
	}
	if !accepted {
		// every target must see the error
		for _, mk := range targetMakers {
			if err := jsonx.Unmarshal(in, mk()); err == nil {
				note("Unmarshal into %T returned nil for an input that Unmarshal into a RawMessage rejects", mk())
			}
		}
		return
	}
	for _, mk := range targetMakers {
		a, b := mk(), mk()
		e1 := jsonx.Unmarshal(in, a)
		e2 := json.Unmarshal(js, b)
		if (e1 == nil) != (e2 == nil) {
			note("target %T: jsonx.Unmarshal error %v, json.Unmarshal of ToJSON's output error %v", a, e1, e2)
			continue
		}
		if !reflect.DeepEqual(a, b) {
			note("target %T: jsonx.Unmarshal stored %+v, json.Unmarshal of ToJSON's output %+v", a, reflect.ValueOf(a).Elem().Interface(), reflect.ValueOf(b).Elem().Interface())
		}
	}
}

var targetMakers = []func() interface{}{
	func() interface{} { return new(interface{}) },
	func() interface{} { return new(int) },
	func() interface{} { return new(int64) },
	func() interface{} { return new(uint64) },
	func() interface{} { return new(float64) },
	func() interface{} { return new(string) },
	func() interface{} { return new(bool) },
	func() interface{} { return new(json.Number) },
	func() interface{} { return new([]interface{}) },
	func() interface{} { return new([]string) },
	func() interface{} { return new(map[string]interface{}) },
	func() interface{} { return new(tgStruct) },
	func() interface{} { m := map[string]int{"kept": 7}; return &m },
}

// ---------------------------------------------------------------- exported lexing functions no entry point reaches

// runLexFn: op lexfn.  The comment lexer, the word lexer, a lexer of
// '-quoted character literals and a lexer without LexFunc, all built from the
// exported functions of lexing/: they must return, end with EOF, and their
// tokens must spell the input.
func runLexFn(c *Case, o *Obs, in []byte) {
	o.Ok = true
	charLit := func(x *lexing.Lexer) *lexing.Token {
		switch r := x.Rune(); {
		case r == '\'':
			return lexing.LexString(x, 1, '\'')
		case r == '"':
			return lexing.LexString(x, 2, '"')
		case r == '`':
			return lexing.LexRawString(x, 3)
		case lexing.IsDigit(r):
			return lexing.LexNumber(x, 4, 5)
		case lexing.IsIdentLetter(r):
			return lexing.LexIdent(x, 6)
		case r == '/':
			x.Next()
			return lexing.LexComment(x)
		}
		x.Next()
		return x.MakeToken(lexing.Illegal)
	}
	lexers := []struct {
		name  string
		x     lexing.Tokener
		white func(rune) bool
	}{
		{"comment lexer", lexing.NewCommentLexer("f", bytes.NewReader(in)), lexing.IsWhiteOrEndl},
		{"word lexer", lexing.NewWordLexer("f", bytes.NewReader(in)), lexing.IsWhiteOrEndl},
		{"literal lexer", lexing.MakeLexer("f", bytes.NewReader(in), charLit), lexing.IsWhiteOrEndl},
		{"lexer without LexFunc", lexing.NewLexer("f", bytes.NewReader(in)), lexing.IsWhite},
		{"tokener", lexing.NewTokener("f", bytes.NewReader(in), charLit, lexing.IsWhite), lexing.IsWhite},
	}
	for i, l := range lexers {
		if lx, ok := l.x.(*lexing.Lexer); ok && i == 2 {
			lx.IsWhite = lexing.IsWhiteOrEndl
		}
		var ts []*lexing.Token
		for n := 0; ; n++ {
			t := l.x.Token()
			ts = append(ts, t)
			if t.Type == lexing.EOF {
				break
			}
			if n > len(in)+2 {
				o.Note = l.name + ": more tokens than input bytes and still no EOF"
				return
			}
		}
		if why := spelled(in, ts, l.white); why != "" && o.Note == "" {
			o.Note = l.name + ": " + why
		}
		if es := l.x.Errs(); len(es) > 20 && o.Note == "" {
			o.Note = fmt.Sprintf("%s: %d errors, more than the cap of 20", l.name, len(es))
		}
		// after EOF the lexer keeps returning EOF
		for k := 0; k < 3; k++ {
			if t := l.x.Token(); t.Type != lexing.EOF && o.Note == "" {
				o.Note = l.name + ": a token after EOF"
			}
		}
	}
}

// spelled: the literals of the tokens, in order, with runes the white
// function accepts between them, are the input (undecodable bytes as
// U+FFFD); every token but the last (EOF) is not empty.
func spelled(in []byte, ts []*lexing.Token, white func(rune) bool) string {
	var rs []rune
	for b := in; len(b) > 0; {
		r, w := utf8.DecodeRune(b)
		rs = append(rs, r)
		b = b[w:]
	}
	k := 0
	for i, t := range ts {
		lit := []rune(t.Lit)
		last := i == len(ts)-1
		if last != (t.Type == lexing.EOF) {
			return "EOF is not exactly the last token"
		}
		if len(lit) == 0 && !last {
			return fmt.Sprintf("token %d is empty", i)
		}
		for k < len(rs) && white(rs[k]) {
			k++ // white space is skipped before a token starts, never inside one
		}
		if k+len(lit) > len(rs) {
			return fmt.Sprintf("token %d %q runs past the end of the input", i, t.Lit)
		}
		for j, r := range lit {
			if rs[k+j] != r {
				return fmt.Sprintf("token %d %q is not the input text at rune %d", i, t.Lit, k)
			}
		}
		k += len(lit)
	}
	if k != len(rs) {
		return fmt.Sprintf("the tokens end at rune %d of %d", k, len(rs))
	}
	return ""
}

// ---------------------------------------------------------------- generators

func (b *builder) addScript(stream string, in []byte, script string, want []string) {
	b.add(stream, "script", in, func(c *Case) { c.Script = script; c.WantSteps = want; c.Known = seriesKnown })
}

var scriptCorpus = [][2]string{
	{"1 2 3", "DDDD"}, {"1 2", "MMDMMDMMD"}, {"", "D"}, {"", "MDSM"}, {"1", "DDD"}, {"[1,2] x", "DDDM"},
	{"}", "DDDM"}, {"1 } 2", "DDDDM"}, {"{a:1}\nx {b:2}\ny [3]\n", "DSM"}, {"x 1\ny 2\n", "SS"}, {"x 1\ny 2\n", "SDM"},
	{"x 1\n} y 2\nx 3\n", "SSM"}, {"1 2 \"", "DDDD"}, {"[1, 2", "DDD"}, {"{a:", "DD"}, {"a.b.c 1", "DD"},
	{"[1 2] 3\n4", "DDDD"}, {"{a:1 b:2} 3", "DMDMD"}, {"1 \"\\z\" 2", "DDDM"}, {"# 1 2", "DDD"}, {"1 2 #", "DDM"},
	{"1 /* open", "DMD"}, {"[1,2]\n[3,4]\n", "SDD"}, {"x 1\n1 2\ny 3\n", "SMS"}, {"zz 1\nx 2\n", "SS"}, {"08 1 2", "DDD"},
	{"x 08\ny 1\n", "SS"}, {"1;;2", "DDD"}, {"; 1", "DD"}, {"- - 1", "DDD"}, {"true false null", "MDMDMDMD"},
	{"x [1 2]\ny 3\n", "DDS"}, {"[[[[", "DDDDD"}, {"]]]]", "DDDDM"}, {"1 2 3 4 5", "DSD"},
}

func genScripts(b *builder, n int, cuts bool) {
	g := b.g
	for _, s := range scriptCorpus {
		b.addScript("script", []byte(s[0]), s[1], nil)
	}
	// valid sequences of values: any script with the Decodes in order must
	// return the values in order, whatever More calls are made around them,
	// and errors once the values are used up
	for i := 0; i < n; i++ {
		k := g.r.Intn(5)
		var sb strings.Builder
		var vals []string
		sb.WriteString(g.pick("", "", "\n", "// c\n", " "))
		for j := 0; j < k; j++ {
			v := g.value(2)
			vals = append(vals, canonV(v))
			sb.WriteString(g.render(v))
			sep := g.pick("\n", ";", " ", "; ", "\n\n", ";\n", " /* c */ ", "\n// c\n")
			if j == k-1 {
				sep = g.pick("", "\n", ";", " ", ";\n", " // end")
			}
			sb.WriteString(sep)
		}
		doc := sb.String()
		var script strings.Builder
		var want []string
		for done := 0; done <= k; done++ {
			for m := g.r.Intn(3); m > 0; m-- {
				script.WriteByte('M')
				if done < k {
					want = append(want, "true")
				} else {
					want = append(want, "false")
				}
			}
			script.WriteByte('D')
			if done < k {
				want = append(want, vals[done])
			} else {
				want = append(want, "!")
			}
		}
		// after the end: more calls, all without a value
		for m := g.r.Intn(3); m > 0; m-- {
			op := g.pick("M", "D")
			script.WriteString(op)
			if op == "M" {
				want = append(want, "") // the decoder is in error state now; More is whatever the model says
			} else {
				want = append(want, "!")
			}
		}
		b.addScript("script-valid", []byte(doc), script.String(), want)
		if cuts && len(doc) > 0 {
			cut := doc[:g.r.Intn(len(doc))]
			b.addScript("script-cut", []byte(cut), script.String(), nil)
		}
	}
	// a header value, then a series, read by one Decoder
	for i := 0; i < n/2; i++ {
		hv := g.value(2)
		var sb strings.Builder
		sb.WriteString(g.render(hv) + g.pick("\n", ";", ";\n", "\n\n"))
		var items []string
		for j := g.r.Intn(4); j > 0; j-- {
			name := g.pick("x", "a", "t", "build", "string")
			v := g.value(2)
			items = append(items, name+" "+canonV(v))
			tn := name
			if g.r.Intn(4) == 0 {
				tn = g.goString([]byte(name))
			}
			sb.WriteString(tn + g.pick(" ", "\t") + g.render(v) + g.pick("\n", ";", ";\n", "\n\n"))
		}
		script, want := "DS", []string{canonV(hv), strings.Join(items, "#")}
		switch g.r.Intn(4) {
		case 0:
			script, want = "MDMSMS", []string{"true", canonV(hv), "", strings.Join(items, "#"), "false", ""}
		case 1:
			script, want = "DSD", []string{canonV(hv), strings.Join(items, "#"), "!"}
		}
		if len(items) > 0 && script == "MDMSMS" {
			want[2] = "true"
		}
		b.addScript("script-series", []byte(sb.String()), script, want)
	}
	// anything, any script
	for i := 0; i < n; i++ {
		var in []byte
		if i%2 == 0 {
			in = b.malformedBytes()
		} else {
			d := docs[g.r.Intn(len(docs))]
			in = []byte(d[:g.r.Intn(len(d)+1)])
		}
		var script strings.Builder
		for m := 1 + g.r.Intn(7); m > 0; m-- {
			script.WriteString(g.pick("M", "D", "D", "D", "S"))
		}
		b.addScript("script-any", in, script.String(), nil)
	}
}

func (b *builder) addReader(stream, op string, in []byte, mode, cut int) {
	b.add(stream, op, in, func(c *Case) { c.RMode = mode; c.Cut = cut; c.Known = seriesKnown })
}

func genReaders(b *builder, n int) {
	g := b.g
	modes := []int{1, 2, 3, 4, 5}
	base := append([]string{}, docs...)
	base = append(base, "é 中\n😀 x", "\"\u00e9\u4e2d\U0001F600\" `\u00e9`", "x \"\xff\"\n", "")
	for _, d := range base {
		for _, m := range modes {
			b.addReader("reader", "rstream", []byte(d), m, 0)
			b.addReader("reader", "rseries", []byte(d), m, 0)
		}
	}
	// a multi-byte rune across the boundary of bufio's 4096-byte buffer
	for _, pad := range []int{4090, 4093, 4094, 4095, 4096} {
		doc := "x \"" + strings.Repeat("a", pad-3) + "\U0001F600\u00e9\"\ny 1\n"
		for _, m := range []int{2, 5} {
			b.addReader("reader", "rseries", []byte(doc), m, 0)
		}
	}
	for i := 0; i < n; i++ {
		v := g.value(2)
		doc := []byte("x " + g.render(v) + "\ny [1]\n")
		b.addReader("reader", "rseries", doc, modes[g.r.Intn(len(modes))], 0)
		b.addReader("reader", "rstream", []byte(g.render(v)+g.pick("", "\n", " 2")), modes[g.r.Intn(len(modes))], 0)
	}
	// a reader that fails: every cut point of a few documents, and seeded ones
	for _, d := range []string{"x {a:1}\ny {b:[1,2]}\n", "x 1\n", "build {\n  name: \"n\", // c\n}\n\nbuild {\n  name: \"m\",\n}\n", "x 1;y 2;"} {
		for cut := 0; cut <= len(d); cut++ {
			b.addReader("reader-fails", "rseries", []byte(d), 6+cut%2, cut)
			if cut%3 == 0 {
				b.addReader("reader-fails", "rstream", []byte(d), 6+cut%2, cut)
			}
		}
	}
	for i := 0; i < n; i++ {
		d := docs[g.r.Intn(len(docs))]
		cut := g.r.Intn(len(d) + 1)
		b.addReader("reader-fails", g.pick("rseries", "rseries", "rstream"), []byte(d), 6+g.r.Intn(2), cut)
	}
}

func genReuse9(b *builder, n int) {
	g := b.g
	for i := 0; i < n; i++ {
		var parts [][]byte
		for k := 2 + g.r.Intn(4); k > 0; k-- {
			switch g.r.Intn(4) {
			case 0:
				parts = append(parts, []byte(docs[g.r.Intn(len(docs))]))
			case 1:
				parts = append(parts, bytes.ReplaceAll(b.malformedBytes(), []byte{0, 0}, []byte{0, 1}))
			default:
				parts = append(parts, []byte(g.render(g.value(3))))
			}
		}
		in := bytes.Join(parts, []byte{0, 0})
		b.add("reuse", "reuse", in, nil)
	}
}

func genReuse7(b *builder, n int) {
	g := b.g
	for i := 0; i < n; i++ {
		var vs []interface{}
		for k := 2 + g.r.Intn(4); k > 0; k-- {
			vs = append(vs, g.goValue(3))
		}
		if i == 0 {
			vs = []interface{}{map[string]interface{}{"a": []interface{}{1, "x"}}, "short", map[string]interface{}{"long key": strings.Repeat("z", 300)}, 1e21}
		}
		js, err := json.Marshal(vs)
		if err != nil {
			continue
		}
		b.add("reuse7", "reuse", js, func(c *Case) { c.goVal = vs; c.PV = true })
	}
}

func genTargets(b *builder, n int) {
	g := b.g
	for _, s := range []string{"1", "-1", "1.5", "\"s\"", "true", "null", "[1,2]", "[\"a\",\"b\"]", "{a:1,b:\"x\",c:[1,2],d:true,e:2.5}",
		"{a:\"1\"}", "{kept:1}", "{other:2}", "a.b", "18446744073709551615", "-9223372036854775808", "9223372036854775808", "1e2", "0x10", "010",
		"{A:1}", "{a:1,a:2}", "[]", "{}", "1 2", "{a:", "\"\\z\"", "", "08", "{a:1.0}", "{c:[1.5]}", "{d:null}", "1e400"} {
		b.add("targets", "targets", []byte(s), nil)
	}
	for i := 0; i < n; i++ {
		b.add("targets", "targets", []byte(g.render(g.value(2))), nil)
	}
}

var lexfnCorpus = []string{"", "/", "/*", "/**", "/*/", "/**/", "//", "//\n", "/ /", "a/b", "'a'", "''", "'ab'", "'\\''", "'\\n'", "'\\", "'", "'a", "'\n'",
	"\"a\" 'b' `c` 1 1.5 0x1f x_1 /* c */ // d\n", "1e", "1e+", "0x", "ab12 cd,ef.", "é中😀", "\xff\xfe", "a\r\nb", "\t \n", "`", "`a", "\"", "\"\\", "\"\\x", "\"\\u12",
	"'\\u00e9'", "'\\U0001F600'", "'\\400'", "'\\377'", "/* a */ x /* b", "/***/", "/* * / */", "*/"}

func genLexFn(b *builder, n int) {
	for _, s := range lexfnCorpus {
		b.add("lexfn", "lexfn", []byte(s), nil)
	}
	for i := 0; i < n; i++ {
		b.add("lexfn", "lexfn", b.malformedBytes(), nil)
	}
	for _, d := range docs {
		b.add("lexfn", "lexfn", []byte(d), nil)
	}
}

// ---------------------------------------------------------------- fixed corpora with intended values

// goIntValue: the value of s when it is an integer literal of the grammar
// JSONx documents (Go style: 0x hexadecimal, leading 0 octal, else decimal),
// with an optional sign; ok=false when s is not such a literal.
func numIntended(s string) (want string, isNum bool, valid bool) {
	t := s
	neg := false
	if strings.HasPrefix(t, "-") {
		neg, t = true, t[1:]
	} else if strings.HasPrefix(t, "+") {
		t = t[1:]
	}
	if t == "" || t[0] < '0' || t[0] > '9' {
		return "", false, false
	}
	all := func(s string, ok func(c byte) bool) bool {
		for i := 0; i < len(s); i++ {
			if !ok(s[i]) {
				return false
			}
		}
		return true
	}
	dec := func(c byte) bool { return c >= '0' && c <= '9' }
	hexd := func(c byte) bool { return dec(c) || c >= 'a' && c <= 'f' || c >= 'A' && c <= 'F' }
	oct := func(c byte) bool { return c >= '0' && c <= '7' }
	val := func(digits string, base int) string {
		n, _ := new(big.Int).SetString(digits, base)
		if neg {
			n.Neg(n)
		}
		return canonNum(n.String())
	}
	switch {
	case strings.HasPrefix(t, "0x"):
		if len(t) > 2 && all(t[2:], hexd) {
			return val(t[2:], 16), true, true
		}
		if all(t[2:], hexd) {
			return "", true, false // "0x": a number token without value
		}
		return "", false, false
	case all(t, dec):
		if len(t) > 1 && t[0] == '0' {
			if all(t, oct) {
				return val(t, 8), true, true
			}
			return "", true, false // 08, 09..: not an octal literal
		}
		return val(t, 10), true, true
	}
	// floats: digits [. digits] [e|E [+-] digits]
	i := 0
	for i < len(t) && dec(t[i]) {
		i++
	}
	if i < len(t) && t[i] == '.' {
		i++
		for i < len(t) && dec(t[i]) {
			i++
		}
	}
	if i < len(t) && (t[i] == 'e' || t[i] == 'E') {
		i++
		if i < len(t) && (t[i] == '+' || t[i] == '-') {
			i++
		}
		j := i
		for i < len(t) && dec(t[i]) {
			i++
		}
		if i == j {
			if i == len(t) {
				return "", true, false // exponent without digits
			}
			return "", false, false
		}
	}
	if i != len(t) {
		return "", false, false
	}
	f, err := strconv.ParseFloat(t, 64)
	if err != nil {
		return "", true, false
	}
	if neg {
		f = -f
	}
	return canonFloat(f), true, true
}

// genNumLex: every string up to length 3 over a number-like alphabet, and
// longer ones over a smaller alphabet: what is a number literal must be
// emitted with its value, what is a number token without value must be
// rejected; the rest (several tokens, identifiers) is left to the model.
func genNumLex(b *builder, quick bool) {
	add := func(s string) {
		want, isNum, valid := numIntended(s)
		b.add("numlex", "tojson", []byte(s), func(c *Case) {
			if isNum && valid {
				c.Want = want
			} else if isNum {
				c.Reject = true
			}
		})
	}
	var rec func(alpha string, prefix string, left int)
	rec = func(alpha string, prefix string, left int) {
		if prefix != "" {
			add(prefix)
		}
		if left == 0 {
			return
		}
		for i := 0; i < len(alpha); i++ {
			rec(alpha, prefix+alpha[i:i+1], left-1)
		}
	}
	rec("0179xeE.-+af", "", 3)
	if !quick {
		rec("019xe.-+", "", 5)
	} else {
		rec("01x.e-", "", 4)
	}
	for _, s := range []string{"0x0", "0X1", "0xABCDEFabcdef0123456789", "00000", "0e0", "0.0e-0", "00.5", "09.5", "0.e1", "1e+0", "1e-0", "1E+01", "1e0001",
		"1.7976931348623157e308", "1.7976931348623159e308", "4.9e-324", "2e-324", "1e309", "1e-400", "0x7fffffffffffffff", "0x8000000000000000",
		"0xffffffffffffffff", "0x10000000000000000", "-0x8000000000000000", "01777777777777777777777", "-0", "+0", "-0.0", "+0.0", "-00", "-0x0",
		"9007199254740993", "9007199254740993.0", "1e21", "1e22", "123456789012345678901234567890e-10", ".5", "-.5", "5.", "-5.", "1..2", "1.2.3", "1e5e5", "0x1.8", "0x1p3", "1_000", "0b11", "0o17"} {
		add(s)
	}
}

var wordCorpus = []string{"t", "tr", "tru", "true", "truex", "true1", "true_", "_true", "True", "TRUE", "f", "fals", "false", "falsey", "False", "n", "nu", "nul", "null",
	"nulls", "null0", "Null", "nil", "NaN", "Infinity", "undefined", "e", "E", "e5", "x", "x0", "_", "__", "_1", "a1b2", "A", "Z9", "if", "trüe"}

func genWords(b *builder) {
	kw := map[string]string{"true": "true", "false": "false", "null": "null"}
	isID := func(w string) bool { return isIdentStr(w) }
	for _, w := range wordCorpus {
		w := w
		// as a value
		b.add("words", "tojson", []byte(w), func(c *Case) {
			if v, ok := kw[w]; ok {
				c.Want = v
			} else if isID(w) {
				c.Want = "[" + canonStr(w) + "]"
			}
		})
		// in a list, twice
		b.add("words", "tojson", []byte("["+w+","+w+"]"), func(c *Case) {
			if v, ok := kw[w]; ok {
				c.Want = "[" + v + ";" + v + "]"
			} else if isID(w) {
				c.Want = "[[" + canonStr(w) + "];[" + canonStr(w) + "]]"
			}
		})
		// as a bare key: identifiers only, keywords are refused
		b.add("words", "tojson", []byte("{"+w+":1}"), func(c *Case) {
			if _, ok := kw[w]; ok {
				c.Reject = true
			} else if isID(w) {
				c.Want = "{" + canonStr(w) + ":" + canonNum("1") + "}"
			}
		})
		// as a quoted key
		if utf8.ValidString(w) {
			b.add("words", "tojson", []byte("{\""+w+"\":"+w+"}"), func(c *Case) {
				if v, ok := kw[w]; ok {
					c.Want = "{" + canonStr(w) + ":" + v + "}"
				} else if isID(w) {
					c.Want = "{" + canonStr(w) + ":[" + canonStr(w) + "]}"
				}
			})
		}
		// in a dotted list: a.w and w.a
		b.add("words", "tojson", []byte("a."+w), func(c *Case) {
			if _, ok := kw[w]; ok {
				c.Reject = true
			} else if isID(w) {
				c.Want = "[" + canonStr("a") + ";" + canonStr(w) + "]"
			}
		})
		b.add("words", "unmarshal", []byte(w+".a"), func(c *Case) {
			if _, ok := kw[w]; ok {
				c.Reject = true // a keyword is a complete value; ".a" is trailing content
			} else if isID(w) {
				c.Want = "[" + canonStr(w) + ";" + canonStr("a") + "]"
			}
		})
		// as a type name of a series
		b.add("words", "series", []byte(w+" 1\n"), func(c *Case) { c.Known = append([]string{w}, seriesKnown...) })
	}
}

// escape boundaries of lexing/string.go lexEscape: digit counts n-1 / n /
// n+1 of every escape kind, the largest values and the first beyond them,
// the surrogate range from both sides; at the end of the input and of a line.
func escapeCorpus() []string {
	var out []string
	for _, e := range []string{`\0`, `\00`, `\000`, `\0000`, `\377`, `\400`, `\777`, `\008`, `\8`, `\x`, `\x4`, `\x41`, `\x414`, `\xff`, `\xFF`, `\xfg`, `\xg0`,
		`\u`, `\u0`, `\u00`, `\u004`, `\u0041`, `\u00411`, `\ud7ff`, `\ud800`, `\udbff`, `\udc00`, `\udfff`, `\ue000`, `\uffff`, `\uD7FF`, `\uDFFF`, `\uE000`,
		`\U`, `\U0000004`, `\U00000041`, `\U000000411`, `\U0000d7ff`, `\U0000d800`, `\U0000dfff`, `\U0000e000`, `\U0010ffff`, `\U00110000`, `\Uffffffff`, `\U0010FFFF`,
		`\a`, `\b`, `\f`, `\n`, `\r`, `\t`, `\v`, `\\`, `\"`, `\'`, `\/`, `\e`, `\ `, `\A`, `\N`, "\\\n", "\\\xff", `\é`} {
		out = append(out, `"`+e+`"`, `"a`+e+`b"`, `"`+e, `"`+e+"\n", `"`+e+"\"\n")
	}
	return out
}

func genEscapes(b *builder, shell bool) {
	for _, lit := range escapeCorpus() {
		lit := lit
		if shell {
			b.add("escapes", "shell", []byte(lit), nil)
			b.add("escapes", "shell", []byte("a "+lit+" b"), nil)
			continue
		}
		b.add("escapes", "tojson", []byte(lit), func(c *Case) {
			if s, err := strconv.Unquote(strings.TrimRight(lit, "\n")); err == nil {
				c.Want = canonStr(s) // undecodable bytes denote U+FFFD
			} else {
				c.Reject = true
			}
		})
		b.add("escapes", "unquote", []byte(lit), nil)
	}
}

// documents around the sizes the code has: every kind of token across the
// end of bufio's 4096-byte buffer under the rune scanner (a multi-byte rune
// on the boundary included), long tokens, deep and wide containers.
func bigDocs() []struct{ doc, want string } {
	var out []struct{ doc, want string }
	add := func(doc, want string) { out = append(out, struct{ doc, want string }{doc, want}) }
	toks := []struct{ t, want string }{
		{"\"h\u00e9llo\U0001F600w\u00f6rld\"", canonStr("h\u00e9llo\U0001F600w\u00f6rld")},
		{"`r\u00e9w\U0001F600raw`", canonStr("r\u00e9w\U0001F600raw")},
		{"1234567890123", canonNum("1234567890123")},
		{"0x1fffffffff", canonNum("137438953471")},
		{"1.5e+10", canonFloat(1.5e10)},
		{"abc_def.ghi", "[" + canonStr("abc_def") + ";" + canonStr("ghi") + "]"},
		{"/* c\u00f6mment */ 7", canonNum("7")},
		{"{\"k\U0001F600\":[1,2]}", "{" + canonStr("k\U0001F600") + ":[" + canonNum("1") + ";" + canonNum("2") + "]}"},
		{"-5", canonNum("-5")},
	}
	for i, t := range toks {
		// the token starts 1..3 bytes before the end of the buffer
		add(strings.Repeat(" ", 4093+i%3)+t.t, t.want)
	}
	for _, n := range []int{4097} {
		s := strings.Repeat("a", n-1)
		add("\""+s+"\u00e9\"", canonStr(s+"\u00e9"))
	}
	add("/*"+strings.Repeat("*", 4100)+"*/ 2 //"+strings.Repeat("/", 100), canonNum("2"))
	digits := strings.Repeat("1234567890", 60)
	add(digits, canonNum(digits))
	add("-"+digits, canonNum("-"+digits))
	hx, _ := new(big.Int).SetString(strings.Repeat("f", 520), 16)
	add("0x"+strings.Repeat("f", 520), canonNum(hx.String()))
	fl, _ := strconv.ParseFloat("0."+digits+"e1", 64)
	add("0."+digits+"e1", canonFloat(fl))
	id := strings.Repeat("ab_9", 300)
	add("{"+id+":"+id+"}", "{"+canonStr(id)+":["+canonStr(id)+"]}")
	for _, d := range []int{100, 1000} {
		add(strings.Repeat("[", d)+strings.Repeat("]", d), strings.Repeat("[", d)+strings.Repeat("]", d))
		add(strings.Repeat("{a:", d)+"1"+strings.Repeat("}", d), strings.Repeat("{"+canonStr("a")+":", d)+canonNum("1")+strings.Repeat("}", d))
		add(strings.Repeat("[", d)+strings.Repeat("]", d-1), "")
	}
	var sb, wb strings.Builder
	sb.WriteString("[")
	wb.WriteString("[")
	for i := 0; i < 400; i++ {
		if i > 0 {
			wb.WriteString(";")
		}
		fmt.Fprintf(&sb, "%d,\n", i)
		wb.WriteString(canonNum(fmt.Sprint(i)))
	}
	sb.WriteString("]")
	wb.WriteString("]")
	add(sb.String(), wb.String())
	return out
}

func genBig(b *builder, ops ...string) {
	for i, d := range bigDocs() {
		d := d
		for k, op := range ops {
			if k > 0 && i%4 != 0 {
				continue // the further operations on a quarter of the documents
			}
			in := []byte(d.doc)
			if op == "series" {
				in = []byte("x " + d.doc + "\n")
			}
			b.add("big", op, in, func(c *Case) {
				c.Known = seriesKnown
				if op != "series" {
					c.Want = d.want
					if d.want == "" {
						c.Reject = true
					}
				}
			})
		}
	}
}

var shellEOL = []string{"\"a\\", "\"a\\\n", "\"a\\\"", "\"a\\\"\n", "\"a\"\n", "\"a\n", "\"a\n\"", "a\"", "a\"\n", "a\"b\"", "\"\\\"", "\"\\\\\"", "\"\\\\", "\"a\\\\\n",
	"a\\", "a\\\n", "a \\ b", "\"abc", "\"abc\r\n", "\"a\" \"", "\"a\" \"b", "\"a\"\"b\"", "\"\"", "\"\"\n", "\"", "\"\n", "\\\"", "a\\\"b c", "\"\\x4", "\"\\x4\n",
	"\"\\u12", "\"\\1", "\"\\12\"", "\"\\12", "x \"y\\", "x \"y\\\nz", "\"a\tb\"", "\"a\rb\"", "\"a\\\rb\"", "\"é\\", "\"\xff\\", "a\n\"b", "\"\\n\"\n\"", "'a b'\\", "`a b`"}

func genShellEOL(b *builder) {
	for _, s := range shellEOL {
		b.add("shell-eol", "shell", []byte(s), nil)
	}
	// every string up to length 4 over the runes that matter to the shell lexer
	alpha := []string{"a", "\"", "\\", " ", "\n", "x", "4"}
	var rec func(prefix string, left int)
	rec = func(prefix string, left int) {
		if prefix != "" {
			b.add("shell-short", "shell", []byte(prefix), nil)
		}
		if left == 0 {
			return
		}
		for _, a := range alpha {
			rec(prefix+a, left-1)
		}
	}
	rec("", 4)
}

// typed series with TypeMakers of every result shape
var makerShapes = []string{"byval {x:1}\n", "nilp {x:1}\n", "nilmap {a:1}\n", "point {x:1}\nbyval {X:2}\n", "byval 1\nnilp 2\nbyval 3\n", "nilp {}\npoint {}\n",
	"filled {x:5}\n", "filled {}\n", "valmap {a:1}\n", "chan 1\n", "point {x:1}\nfilled {y:2}\nchan null\n"}

func genMakerShapes(b *builder) {
	for _, s := range makerShapes {
		b.add("makers", "tseries", []byte(s), func(c *Case) { c.Known = typedKnown })
	}
	for _, cnt := range []int{9, 10, 11, 19, 20, 21} {
		b.add("makers", "tseries", []byte(strings.Repeat("byval {x:1}\n", cnt)), func(c *Case) { c.Known = typedKnown })
		// two errors per entry: the text cannot be encoded, and the empty text is not JSON
		b.add("manyerr", "series", []byte(strings.Repeat("x 08\n", cnt)), withKnown)
		b.add("manyerr", "series", []byte(strings.Repeat("x [0x]\n", cnt)+"y 1\n"), withKnown)
		b.add("manyerr", "tseries", []byte(strings.Repeat("point 09\n", cnt)), func(c *Case) { c.Known = typedKnown })
	}
}

func hexOf(b []byte) string { return hex.EncodeToString(b) }

// genSmallNumbers: the numbers a printer fast path keyed on size or on the
// Go type would treat differently: every integer of small magnitude, powers
// of ten and their neighbours in every integer and float type, short decimals.
func genSmallNumbers(addPrint func(stream string, v interface{})) {
	for i := -130; i <= 130; i++ {
		addPrint("smallnum", i)
	}
	for i := -12; i <= 12; i++ {
		addPrint("smallnum", float64(i)/4)
		addPrint("smallnum", float32(i)/8)
		addPrint("smallnum", []interface{}{int8(i * 10), uint8(i * i), int16(i * 2500), uint16(i * i * 400), int32(i) << 27, uint32(i*i) << 24})
	}
	p := int64(1)
	for k := 0; k <= 18; k++ {
		for _, d := range []int64{-1, 0, 1} {
			addPrint("smallnum", p+d)
			addPrint("smallnum", -(p + d))
			addPrint("smallnum", uint64(p+d))
			addPrint("smallnum", float64(p+d))
		}
		addPrint("smallnum", 1/float64(p))
		addPrint("smallnum", -1/float64(p))
		addPrint("smallnum", json.Number("1e"+strconv.Itoa(k)))
		addPrint("smallnum", json.Number("-1E-"+strconv.Itoa(k)))
		p *= 10
	}
	for k := 19; k <= 25; k++ {
		f, _ := strconv.ParseFloat("1e"+strconv.Itoa(k), 64)
		addPrint("smallnum", f)
		addPrint("smallnum", -f)
		addPrint("smallnum", 1/f)
		addPrint("smallnum", json.Number("1"+strings.Repeat("0", k)))
	}
	for _, s := range []string{"0", "-0", "0.0", "-0.0", "0e0", "0E+0", "1e0", "1E0", "1e+0", "1e-0", "10", "1.0", "0.1", "0.10", "1.5", "15e-1", "0.15E1", "100e-2"} {
		addPrint("smallnum", json.Number(s))
	}
}

// genBigValues: strings longer than bufio's buffer, wide and deep containers.
func genBigValues(addPrint func(stream string, v interface{})) {
	for _, n := range []int{4096} {
		addPrint("bigvalue", strings.Repeat("a", n-1)+"\u00e9\n\U0001F600")
		addPrint("bigvalue", map[string]interface{}{strings.Repeat("k", n): strings.Repeat("\x00\"", n/4)})
	}
	var wide []interface{}
	m := map[string]interface{}{}
	for i := 0; i < 300; i++ {
		wide = append(wide, i)
		m["k"+strconv.Itoa(i)] = float64(i) / 2
	}
	addPrint("bigvalue", wide)
	addPrint("bigvalue", m)
	var deep, deepm interface{} = 1, "x"
	for i := 0; i < 60; i++ { // deeper terms overflow the stack of Coq's own parser
		deep = []interface{}{deep}
		if i < 40 {
			deepm = map[string]interface{}{"a b": deepm, "c": i}
		}
	}
	addPrint("bigvalue", deep)
	addPrint("bigvalue", deepm)
}
