// Go VALUES through the real Marshal -> Unmarshal into the same Go type, and
// the sweep of all code points through strconv.Quote and the round trip.
package main

import (
	"bytes"
	"encoding/json"
	"fmt"
	"math"
	"reflect"
	"strconv"
	"strings"
	"time"
	"unicode"
	"unicode/utf8"

	"shanhu.io/g/jsonx"
)

// ---------------------------------------------------------------- types

type gvEmb struct {
	E1 int `json:"e1"`
	E2 string
}

type gvTagged struct {
	Name string `json:"name"`
	Skip string `json:"-"`
	Dash string `json:"-,"`
	Omit int    `json:",omitempty"`
	Str  int64  `json:"n,string"`
	U    uint64 `json:"u"`
	F32  float32
	I8   int8 `json:"true"`
	gvEmb
	Ptr     *gvEmb `json:"ptr"`
	private int
	Iface   interface{} `json:"iface"`
	Arr     [2]bool
	HTML    string `json:"<html>"`
}

type gvKey struct{ A, B int }

func (k gvKey) MarshalText() ([]byte, error) { return []byte(fmt.Sprintf("%d/%d", k.A, k.B)), nil }
func (k *gvKey) UnmarshalText(b []byte) error {
	_, err := fmt.Sscanf(string(b), "%d/%d", &k.A, &k.B)
	return err
}

type gvPtrs struct {
	P3 ***int
	PS *[]*string
	PE **gvEmb
	N  *int
}

type gvNums struct {
	N json.Number
	A []json.Number
	M map[string]json.Number
}

type gvBytes struct {
	B   []byte
	BB  [][]byte
	M   map[string][]byte
	Arr [4]byte
	Nil []byte
}

type gvFloat struct {
	F float64
	G []float64
}

type gvAny struct {
	V interface{}
}

type gvInts struct {
	U64 uint64
	I64 int64
	U8  uint8
	I16 int16
	UP  uintptr
	Us  []uint64
}

// gvOdd writes valid JSON that json.Marshal itself would never write.
type gvOdd string

func (o gvOdd) MarshalJSON() ([]byte, error) { return []byte(string(o)), nil }
func (o *gvOdd) UnmarshalJSON(b []byte) error {
	*o = gvOdd(b)
	return nil
}

type gvRaw struct {
	R json.RawMessage
	T time.Time
	O gvOdd
}

type gvNode struct {
	V    int
	Next *gvNode
}

func ptrInt(n int) *int { return &n }

// goTyped returns a value of a concrete Go type; loose says that the type
// holds JSON text as text (json.Number, RawMessage, a Marshaler), so that
// only JSON equality - not reflect.DeepEqual - is expected when a number of
// it is not in canonical spelling or its members are not sorted.
func (g *gen) goTyped() (v interface{}, loose bool) {
	str := func() string { return string(g.strBytes()) }
	switch g.r.Intn(16) {
	case 0, 1:
		t := gvTagged{Name: str(), Dash: g.pick("", "d"), Omit: g.r.Intn(2), Str: g.bigInt().Int64(), U: g.r.U64() >> uint(g.r.Intn(64)),
			F32: float32(floatPool[g.r.Intn(8)]), I8: int8(g.r.Intn(256) - 128), gvEmb: gvEmb{E1: g.r.Intn(9), E2: str()},
			Arr: [2]bool{g.r.Bool(), false}, HTML: g.pick("", "<a href=\"x\">&amp;</a>", "  ", "a&b")}
		if g.r.Bool() {
			t.Ptr = &gvEmb{E1: -1, E2: "p"}
		}
		switch g.r.Intn(5) {
		case 0:
			t.Iface = floatPool[g.r.Intn(len(floatPool))]
		case 1:
			t.Iface = str()
		case 2:
			t.Iface = map[string]interface{}{"k": []interface{}{nil, true}}
		case 3:
			t.Iface = []interface{}{}
		}
		if g.r.Intn(4) == 0 {
			t.Skip = "dropped"
		}
		return t, false
	case 2:
		m := map[int]string{}
		for i := g.r.Intn(4); i > 0; i-- {
			m[g.r.Intn(2000)-1000] = str()
		}
		return m, false
	case 3:
		m := map[string]int{}
		for i := g.r.Intn(5); i > 0; i-- {
			m[g.pick("1", "true", "null", "1e5", "a b", "", "é", "\n", "0x1", "-1", "1.5", "a", "_", "false", "[", "{}")] = g.r.Intn(100)
		}
		return m, false
	case 4:
		m := map[gvKey]uint8{}
		for i := g.r.Intn(3); i > 0; i-- {
			m[gvKey{g.r.Intn(5), -g.r.Intn(5)}] = uint8(g.r.Intn(256))
		}
		return m, false
	case 5:
		p := gvPtrs{}
		if g.r.Bool() {
			a := ptrInt(g.r.Intn(100))
			b := &a
			p.P3 = &b
		}
		if g.r.Bool() {
			s := str()
			sl := []*string{&s, nil}
			p.PS = &sl
		}
		if g.r.Bool() {
			e := &gvEmb{E1: 7}
			p.PE = &e
		}
		return p, false
	case 6:
		num := func() json.Number {
			return json.Number(g.pick("0", "-0", "1e5", "1E+2", "0.10", "12345678901234567890123", "1.0", "-1.5e-7", "100", "1e21", "1e+21", "123", "-9223372036854775809", "1.7976931348623157e308", "0.000001", "1e-7"))
		}
		n := gvNums{N: num(), A: []json.Number{num(), num()}, M: map[string]json.Number{"k": num()}}
		return n, true
	case 7:
		bs := func() []byte {
			b := make([]byte, g.r.Intn(7))
			for i := range b {
				b[i] = byte(g.r.Intn(256))
			}
			return b
		}
		v := gvBytes{B: bs(), BB: [][]byte{bs(), {}, nil}, M: map[string][]byte{"k": bs()}}
		copy(v.Arr[:], bs())
		if g.r.Intn(3) == 0 {
			return bs(), false
		}
		return v, false
	case 8:
		// values json.Marshal rejects
		bad := []float64{math.NaN(), math.Inf(1), math.Inf(-1)}[g.r.Intn(3)]
		switch g.r.Intn(9) {
		case 0:
			return bad, false
		case 1:
			return []float64{1, bad}, false
		case 2:
			return map[string]interface{}{"a": bad}, false
		case 3:
			return gvFloat{F: bad}, false
		case 4:
			return float32(bad), false
		case 5:
			return make(chan int), false
		case 6:
			return map[bool]int{true: 1}, false
		case 7:
			n := &gvNode{V: 1}
			n.Next = n
			return n, false
		default:
			return gvAny{V: []interface{}{complex(1, 2)}}, false
		}
	case 9:
		u := []uint64{math.MaxUint64, 1<<63 + 1, 1<<53 + 1, g.r.U64(), 1 << 63}[g.r.Intn(5)]
		switch g.r.Intn(4) {
		case 0:
			return []interface{}{u, int64(math.MinInt64)}, false
		case 1:
			return map[string]interface{}{"u": u}, false
		case 2:
			return gvAny{V: u}, false
		default:
			return gvInts{U64: u, I64: math.MinInt64, U8: 255, I16: -32768, UP: uintptr(u), Us: []uint64{u, 0}}, false
		}
	case 10:
		odd := gvOdd(g.pick("1E+2", "-0", "0.10", "1.50e1", "\"\\u0041\\/\"", "[1,2]", "{\"b\":1,\"a\":2}", "123456789012345678901234567890", "1e0", "null", "\"\\ud83d\\ude00\"", "[ ]", "-0.0"))
		r := gvRaw{R: json.RawMessage(g.pick("null", "{\"b\":[1.0,2e0],\"a\":null}", "[]", "\"s\"", "1.5", "[1, 2 ]", "{\"z\":1,\"a\":{\"y\":1,\"b\":2}}")),
			T: time.Unix(int64(g.r.Intn(2000000000)), int64(g.r.Intn(1000))*1000000).UTC(), O: odd}
		return r, true
	case 11:
		return gvFloat{F: floatPool[g.r.Intn(len(floatPool))], G: []float64{math.Float64frombits(g.r.U64() &^ (0x7ff << 52)), -0.0, math.Copysign(0, -1)}}, false
	case 12:
		return []map[string]*gvEmb{{"a": {E1: 1}, "": nil}, nil, {}}, false
	case 13:
		var s []string
		var m map[string]int
		type nils struct {
			S  []string
			M  map[string]int
			E  []int
			EM map[string]bool
			P  *int
			I  interface{}
		}
		return nils{S: s, M: m, E: []int{}, EM: map[string]bool{}}, false
	case 14:
		return g.goValue(2), false
	default:
		return gvAny{V: g.goValue(2)}, false
	}
}

func containsLooseValue(v interface{}) bool {
	// json.Number anywhere inside an interface{} value (goValue makes them)
	bs, err := json.Marshal(v)
	if err != nil {
		return false
	}
	return !floatsCanonical(bs)
}

// floatsCanonical: every number literal of a JSON text that is not an
// integer literal is what json.Marshal writes for the float64 read from it.
func floatsCanonical(js []byte) bool {
	dec := json.NewDecoder(bytes.NewReader(js))
	dec.UseNumber()
	for {
		t, err := dec.Token()
		if err != nil {
			return true
		}
		n, ok := t.(json.Number)
		if !ok {
			continue
		}
		s := strings.TrimPrefix(string(n), "-")
		if !strings.ContainsAny(s, ".eE") {
			continue
		}
		f, err := strconv.ParseFloat(s, 64)
		if err != nil {
			return false
		}
		out, err := json.Marshal(f)
		if err != nil || string(out) != s {
			return false
		}
	}
}

// runGoRT: v -> jsonx.Marshal -> jsonx.Unmarshal into a new value of v's
// type, compared with encoding/json's own round trip and with v.
func runGoRT(c *Case, o *Obs) {
	v := c.goVal
	jbs, jerr := json.Marshal(v)
	bs, err := jsonx.Marshal(v)
	if jerr != nil {
		if err == nil {
			o.Res, o.Note = "marshal-mismatch", "json.Marshal rejects the value ("+jerr.Error()+"), jsonx.Marshal printed "+printable(bs)
			return
		}
		o.Ok, o.Res = true, "marshalerr"
		return
	}
	if err != nil {
		o.Res, o.Note = "marshal-mismatch", "json.Marshal accepts the value, jsonx.Marshal fails: "+err.Error()
		return
	}
	o.Text = printable(bs)
	holdBytes("the bytes Marshal returned", bs)
	canon := floatsCanonical(jbs)
	o.Canon = &canon
	if v == nil {
		var p, q interface{}
		e1, e2 := jsonx.Unmarshal(bs, &p), json.Unmarshal(jbs, &q)
		o.Ok = e1 == nil && e2 == nil && p == nil && q == nil
		o.Res, o.Deep, o.JsonEq, o.Ident = "ok", o.Ok, o.Ok, o.Ok
		return
	}
	p := reflect.New(reflect.TypeOf(v))
	q := reflect.New(reflect.TypeOf(v))
	if err := jsonx.Unmarshal(bs, p.Interface()); err != nil {
		o.Res, o.Note = "unmarshalerr", err.Error()
		if err2 := json.Unmarshal(jbs, q.Interface()); err2 != nil {
			// encoding/json cannot read its own output into this type either
			o.Ok, o.Res = true, "both-reject"
		}
		return
	}
	if err := json.Unmarshal(jbs, q.Interface()); err != nil {
		o.Res, o.Note = "json-rejects", "jsonx.Unmarshal accepts what json.Unmarshal rejects: "+err.Error()
		return
	}
	o.Ok, o.Res = true, "ok"
	holdValue("the value Unmarshal stored", p.Interface())
	o.Deep = reflect.DeepEqual(p.Elem().Interface(), q.Elem().Interface())
	o.Ident = reflect.DeepEqual(p.Elem().Interface(), v)
	b1, e1 := json.Marshal(p.Elem().Interface())
	b2, e2 := json.Marshal(q.Elem().Interface())
	if e1 == nil && e2 == nil {
		c1, e1 := canonJSON(b1)
		c2, e2 := canonJSON(b2)
		if e1 == nil && e2 == nil {
			o.Got, o.Want2 = c1, c2
			o.JsonEq = true // compared by the driver (numbers by value)
		}
	}
}

// ---------------------------------------------------------------- all code points

// quoteModel is strconv.Quote of one rune as the model's go_quote computes it
// from the unicode.IsPrint table.
func quoteModel(r rune) string {
	switch {
	case r == '"':
		return `\"`
	case r == '\\':
		return `\\`
	case unicode.IsPrint(r):
		return string(r)
	}
	switch r {
	case '\a':
		return `\a`
	case '\b':
		return `\b`
	case '\f':
		return `\f`
	case '\n':
		return `\n`
	case '\r':
		return `\r`
	case '\t':
		return `\t`
	case '\v':
		return `\v`
	}
	switch {
	case r < ' ' || r == 0x7f:
		return fmt.Sprintf(`\x%02x`, r)
	case !utf8.ValidRune(r):
		return `�`
	case r < 0x10000:
		return fmt.Sprintf(`\u%04x`, r)
	}
	return fmt.Sprintf(`\U%08x`, r)
}

// runRunes: input "lo-hi" (hex).  Every code point of the range: the
// quoting decision of strconv.Quote against unicode.IsPrint, and the string
// of all of them (as a value and as a key) through Marshal -> Unmarshal.
func runRunes(o *Obs, in []byte) {
	var lo, hi int
	if _, err := fmt.Sscanf(string(in), "%x-%x", &lo, &hi); err != nil {
		o.Note = "bad range"
		return
	}
	var sb strings.Builder
	for r := lo; r < hi; r++ {
		want := `"` + quoteModel(rune(r)) + `"`
		if r >= 0xd800 && r < 0xe000 {
			want = `"` + string(utf8.RuneError) + `"` // string(rune(surrogate)) is U+FFFD, which is printable
		}
		if got := strconv.Quote(string(rune(r))); got != want {
			o.Note = fmt.Sprintf("strconv.Quote(U+%04X) = %s, the model with unicode.IsPrint gives %s", r, got, want)
			return
		}
		sb.WriteRune(rune(r))
		o.N++
	}
	s := sb.String()
	for _, v := range []interface{}{s, map[string]interface{}{s: []interface{}{s}}} {
		bs, err := jsonx.Marshal(v)
		if err != nil {
			o.Note = "marshal: " + err.Error()
			return
		}
		var back interface{}
		if err := jsonx.Unmarshal(bs, &back); err != nil {
			o.Note = fmt.Sprintf("range %x-%x: Unmarshal rejects what Marshal printed: %v", lo, hi, err)
			return
		}
		if !reflect.DeepEqual(back, v) {
			o.Note = fmt.Sprintf("range %x-%x: the string does not come back", lo, hi)
			// find the rune
			for r := lo; r < hi; r++ {
				one := string(rune(r))
				b1, _ := jsonx.Marshal(one)
				var x interface{}
				if err := jsonx.Unmarshal(b1, &x); err != nil || x != one {
					o.Note += fmt.Sprintf(" (first: U+%04X printed as %s)", r, printable(b1))
					break
				}
			}
			return
		}
	}
	o.Ok = true
}

// classRunes: the code points where the behaviour of a printer can change:
// both ends of every range of every Unicode category table, their
// neighbours, and fixed points of interest.
func classRunes() []rune {
	seen := map[rune]bool{}
	var out []rune
	add := func(r rune) {
		if r >= 0 && r <= unicode.MaxRune && !seen[r] && !(r >= 0xd800 && r < 0xe000) {
			seen[r] = true
			out = append(out, r)
		}
	}
	for r := rune(0); r < 0x300; r++ {
		add(r)
	}
	names := make([]string, 0, len(unicode.Categories))
	for n := range unicode.Categories {
		names = append(names, n)
	}
	sortStrings(names)
	for _, n := range names {
		t := unicode.Categories[n]
		for _, r16 := range t.R16 {
			for _, r := range []rune{rune(r16.Lo) - 1, rune(r16.Lo), rune(r16.Hi), rune(r16.Hi) + 1} {
				add(r)
			}
		}
		for _, r32 := range t.R32 {
			for _, r := range []rune{rune(r32.Lo) - 1, rune(r32.Lo), rune(r32.Hi), rune(r32.Hi) + 1} {
				add(r)
			}
		}
	}
	for _, r := range []rune{0x2028, 0x2029, 0xfeff, 0xfffd, 0xfffe, 0xffff, 0x10000, 0x1f600, 0xe000, 0xf8ff, 0xd7ff, 0x10ffff, 0x10fffe, 0xe0001, 0x200b, 0xad, 0x85, 0xa0, 0x3000} {
		add(r)
	}
	return out
}

func sortStrings(a []string) {
	for i := 1; i < len(a); i++ {
		for j := i; j > 0 && a[j] < a[j-1]; j-- {
			a[j], a[j-1] = a[j-1], a[j]
		}
	}
}

func genGoValues(b *builder, n int, addPrint func(stream string, v interface{})) {
	g := b.g
	for i := 0; i < n; i++ {
		v, loose := g.goTyped()
		js, err := json.Marshal(v)
		in := js
		if err != nil {
			in = []byte("!" + reflect.TypeOf(v).String() + ": " + err.Error())
		} else if !loose && containsLooseValue(v) {
			loose = true
		}
		b.add("govalue", "gort", in, func(c *Case) { c.goVal = v; c.Loose = loose; c.PV = true })
		if err == nil {
			addPrint("govalue", v)
		}
	}
}

func genRunes(b *builder, n int, thorough bool) {
	// sampled code points of every class: printer text and strconv.Quote
	// against the model's go_quote with the unicode.IsPrint table of the case
	rs := classRunes()
	step := 1
	if !thorough && len(rs) > 6000 {
		step = len(rs)/6000 + 1
	}
	var chunk []rune
	flush := func() {
		if len(chunk) == 0 {
			return
		}
		s := string(chunk)
		b.add("runes", "goquote", []byte(s), nil)
		chunk = chunk[:0]
	}
	off := int(b.g.r.Intn(step))
	for i := off; i < len(rs); i += step {
		chunk = append(chunk, rs[i])
		if len(chunk) == 24 {
			flush()
		}
	}
	flush()
	// all code points: in the thorough tier every one, else a seeded tenth
	const block = 0x400
	for lo := 0; lo < 0x110000; lo += block {
		if thorough || b.g.r.Intn(10) == 0 || lo < 0x3000 {
			b.add("allrunes", "runes", []byte(fmt.Sprintf("%x-%x", lo, lo+block)), nil)
		}
	}
}
