package main

import (
	"encoding/hex"
	"encoding/json"
	"fmt"
	"math"
	"math/big"
	"sort"
	"strconv"
	"strings"
	"unicode/utf8"

	"verifharness/hx"
)

// ---------------------------------------------------------------- value trees

// V is a JSON value together with what it is meant to denote.
type V struct {
	K   byte // n b i f s a o d(ident list)
	B   bool
	I   *big.Int // i: exact value (sign included)
	F   string   // f: unsigned float literal as it will be spelled
	Neg bool     // f: leading minus
	S   []byte   // s: the bytes of the string value
	A   []*V
	O   []Member
	D   []string
}

type Member struct {
	K []byte
	V *V
}

func canonV(v *V) string {
	switch v.K {
	case 'n':
		return "null"
	case 'b':
		return strconv.FormatBool(v.B)
	case 'i':
		return canonNum(v.I.String())
	case 'f':
		f, err := strconv.ParseFloat(v.F, 64)
		if err != nil {
			return "E(" + v.F + ")"
		}
		if v.Neg {
			f = -f
		}
		return canonFloat(f)
	case 's':
		return canonStr(string(v.S))
	case 'a':
		parts := make([]string, len(v.A))
		for i, x := range v.A {
			parts[i] = canonV(x)
		}
		return "[" + strings.Join(parts, ";") + "]"
	case 'o':
		parts := make([]string, len(v.O))
		for i, m := range v.O {
			parts[i] = canonStr(string(m.K)) + ":" + canonV(m.V)
		}
		sort.SliceStable(parts, func(i, j int) bool { return memberKey(parts[i]) < memberKey(parts[j]) })
		return "{" + strings.Join(parts, ";") + "}"
	case 'd':
		parts := make([]string, len(v.D))
		for i, x := range v.D {
			parts[i] = canonStr(x)
		}
		return "[" + strings.Join(parts, ";") + "]"
	}
	return "?"
}

type gen struct {
	r       *hx.Rng
	badUTF8 bool // strings may contain bytes that are not UTF-8
}

func (g *gen) pick(xs ...string) string { return xs[g.r.Intn(len(xs))] }

var identPool = []string{"a", "b", "x", "y", "name", "Src", "_", "_x1", "value", "k9", "T", "deps", "nulls", "truex", "e5", "x0"}
var keywordPool = []string{"true", "false", "null"}

func (g *gen) ident() string { return identPool[g.r.Intn(len(identPool))] }

var runePool = []rune{'a', 'Z', '0', ' ', '"', '\\', '\'', '`', '/', '<', '>', '&', '\n', '\t', '\r', 0, 0x1f, 0x7f, 0x80, 0xe9, 0x4e2d,
	0x2028, 0x2029, 0xfffd, 0x1f600, 0x10ffff, 0xd7ff, 0xe000, '{', '}', '[', ']', ',', ':', ';', '.', '-', '+', 'e', 'x', 'u', '*',
	0xa0, 0xad, 0x200b, 0xfeff, 0x85}

func (g *gen) strBytes() []byte {
	n := g.r.Intn(7)
	if g.r.Intn(8) == 0 {
		n = 8 + g.r.Intn(24)
	}
	var b []byte
	for i := 0; i < n; i++ {
		switch {
		case g.badUTF8 && g.r.Intn(12) == 0:
			b = append(b, []byte{0xff, 0x80, 0xc0, 0xed, 0xa0, 0xf5, 0xe2, 0x82}[g.r.Intn(8)])
		case g.r.Intn(3) == 0:
			b = append(b, byte('a'+g.r.Intn(26)))
		default:
			b = utf8.AppendRune(b, runePool[g.r.Intn(len(runePool))])
		}
	}
	return b
}

var intPool = []string{"0", "1", "7", "8", "9", "10", "42", "255", "256", "1000000", "2147483647", "2147483648",
	"4294967296", "9007199254740991", "9007199254740992", "9007199254740993", "9223372036854775807",
	"9223372036854775808", "9223372036854775809", "18446744073709551615", "18446744073709551616",
	"123456789012345678901234567890", "100000000000000000000", "1000000000000000000000", "999999999999999999999"}

func (g *gen) bigInt() *big.Int {
	var n *big.Int
	if g.r.Intn(3) == 0 {
		n, _ = new(big.Int).SetString(intPool[g.r.Intn(len(intPool))], 10)
	} else {
		n = new(big.Int).SetUint64(g.r.U64() >> uint(g.r.Intn(64)))
	}
	if g.r.Intn(3) == 0 {
		n.Neg(n)
	}
	return n
}

func (g *gen) digits(min, max int) string {
	n := min + g.r.Intn(max-min+1)
	var b strings.Builder
	for i := 0; i < n; i++ {
		b.WriteByte(byte('0' + g.r.Intn(10)))
	}
	return b.String()
}

// floatLit: an unsigned literal of the lexer's float grammar whose exponent
// has digits (so strconv accepts it) and whose value is finite.
func (g *gen) floatLit() string {
	for {
		s := g.digits(1, 4)
		if g.r.Intn(6) == 0 {
			s = g.digits(15, 22)
		}
		hasDot := g.r.Intn(3) != 0
		if hasDot {
			s += "." + g.digits(0, 6)
		}
		if !hasDot || g.r.Intn(2) == 0 {
			e := g.pick("e", "E")
			sg := g.pick("", "", "-", "+")
			ex := strconv.Itoa(g.r.Intn(25))
			if g.r.Intn(8) == 0 {
				ex = strconv.Itoa(g.r.Intn(320))
			}
			if g.r.Intn(10) == 0 {
				ex = "0" + ex
			}
			s += e + sg + ex
		}
		if f, err := strconv.ParseFloat(s, 64); err == nil && !math.IsInf(f, 0) {
			return s
		}
	}
}

func (g *gen) value(depth int) *V {
	k := g.r.Intn(13)
	if depth <= 0 && k >= 9 {
		k = g.r.Intn(9)
	}
	switch k {
	case 0:
		return &V{K: 'n'}
	case 1:
		return &V{K: 'b', B: g.r.Bool()}
	case 2, 3:
		return &V{K: 'i', I: g.bigInt()}
	case 4, 5:
		return &V{K: 'f', F: g.floatLit(), Neg: g.r.Intn(3) == 0}
	case 6, 7:
		return &V{K: 's', S: g.strBytes()}
	case 8:
		n := 1 + g.r.Intn(4)
		v := &V{K: 'd'}
		for i := 0; i < n; i++ {
			v.D = append(v.D, g.ident())
		}
		return v
	case 9, 10:
		n := g.r.Intn(4)
		v := &V{K: 'a'}
		for i := 0; i < n; i++ {
			v.A = append(v.A, g.value(depth-1))
		}
		return v
	default:
		n := g.r.Intn(4)
		v := &V{K: 'o'}
		for i := 0; i < n; i++ {
			var key []byte
			switch g.r.Intn(4) {
			case 0:
				key = []byte(keywordPool[g.r.Intn(3)])
			case 1:
				key = g.strBytes()
			default:
				key = []byte(g.ident())
			}
			v.O = append(v.O, Member{K: key, V: g.value(depth - 1)})
		}
		return v
	}
}

// ---------------------------------------------------------------- JSONx rendering

// ws returns white space and comments; with nl, also line ends.
func (g *gen) ws(nl bool) string {
	switch g.r.Intn(14) {
	case 0, 1, 2, 3, 4, 5:
		return ""
	case 6, 7:
		return " "
	case 8:
		return "\t "
	case 9:
		return "/* c */"
	case 10:
		return " /*{*/ "
	case 11:
		if nl {
			return "\n"
		}
		return " \r"
	case 12:
		if nl {
			return " // c \"\n  "
		}
		return "  "
	default:
		if nl {
			return "\r\n\t"
		}
		return "/***/"
	}
}

func isIdentStr(s string) bool {
	if s == "" {
		return false
	}
	for i, c := range s {
		switch {
		case c == '_' || c >= 'a' && c <= 'z' || c >= 'A' && c <= 'Z':
		case c >= '0' && c <= '9' && i > 0:
		default:
			return false
		}
	}
	return s != "true" && s != "false" && s != "null"
}

// goString spells the byte string s as a JSONx string token.
func (g *gen) goString(s []byte) string {
	if utf8.Valid(s) && !strings.ContainsAny(string(s), "`\r") && g.r.Intn(4) == 0 {
		return "`" + string(s) + "`"
	}
	var b strings.Builder
	b.WriteByte('"')
	for len(s) > 0 {
		r, w := utf8.DecodeRune(s)
		if r == utf8.RuneError && w == 1 {
			if g.r.Bool() {
				fmt.Fprintf(&b, `\x%02x`, s[0])
			} else {
				fmt.Fprintf(&b, `\%03o`, s[0])
			}
			s = s[1:]
			continue
		}
		s = s[w:]
		style := g.r.Intn(8)
		switch {
		case r == '"' || r == '\\':
			if style == 0 {
				fmt.Fprintf(&b, `\x%02x`, r)
			} else {
				b.WriteByte('\\')
				b.WriteRune(r)
			}
		case r == '\n':
			b.WriteString(g.pick(`\n`, `\x0a`, `\012`, `\u000a`))
		case style == 0 && r < 0x80:
			fmt.Fprintf(&b, `\x%02x`, r)
		case style == 1 && r < 0x80:
			fmt.Fprintf(&b, `\%03o`, r)
		case style == 2 && r < 0x10000:
			fmt.Fprintf(&b, g.pick(`\u%04x`, `\u%04X`), r)
		case style == 3:
			fmt.Fprintf(&b, `\U%08x`, r)
		case style == 4 && strings.ContainsRune("\a\b\f\r\t\v", r):
			b.WriteString(map[rune]string{'\a': `\a`, '\b': `\b`, '\f': `\f`, '\r': `\r`, '\t': `\t`, '\v': `\v`}[r])
		default:
			b.WriteRune(r)
		}
	}
	b.WriteByte('"')
	return b.String()
}

func (g *gen) intLit(n *big.Int) string {
	abs := new(big.Int).Abs(n)
	var s string
	switch g.r.Intn(6) {
	case 0:
		s = "0x" + abs.Text(16)
		if g.r.Bool() {
			s = "0x" + strings.ToUpper(abs.Text(16))
		}
	case 1:
		s = "0" + abs.Text(8)
	default:
		s = abs.String()
	}
	if n.Sign() < 0 {
		return "-" + g.pick("", "", " ", "\n", "/*-*/") + s
	}
	if g.r.Intn(6) == 0 {
		return "+" + g.pick("", " ") + s
	}
	return s
}

func (g *gen) render(v *V) string {
	switch v.K {
	case 'n':
		return "null"
	case 'b':
		return strconv.FormatBool(v.B)
	case 'i':
		return g.intLit(v.I)
	case 'f':
		if v.Neg {
			return "-" + g.pick("", "", " ") + v.F
		}
		if g.r.Intn(8) == 0 {
			return "+" + v.F
		}
		return v.F
	case 's':
		return g.goString(v.S)
	case 'd':
		var b strings.Builder
		for i, id := range v.D {
			if i > 0 {
				b.WriteString(g.ws(false) + "." + g.ws(true))
			}
			b.WriteString(id)
		}
		return b.String()
	case 'a':
		var b strings.Builder
		b.WriteString("[" + g.ws(true))
		for i, x := range v.A {
			b.WriteString(g.render(x) + g.ws(false))
			if i < len(v.A)-1 || g.r.Intn(3) == 0 {
				b.WriteString("," + g.ws(true))
			}
		}
		b.WriteString("]")
		return b.String()
	case 'o':
		var b strings.Builder
		b.WriteString("{" + g.ws(true))
		for i, m := range v.O {
			if isIdentStr(string(m.K)) && g.r.Intn(3) != 0 {
				b.Write(m.K)
			} else {
				b.WriteString(g.goString(m.K))
			}
			b.WriteString(g.ws(false) + ":" + g.ws(true) + g.render(m.V) + g.ws(false))
			if i < len(v.O)-1 || g.r.Intn(3) == 0 {
				b.WriteString("," + g.ws(true))
			}
		}
		b.WriteString("}")
		return b.String()
	}
	return "?"
}

// ---------------------------------------------------------------- plain JSON rendering (RFC 8259)

func (g *gen) jws() string { return g.pick("", "", "", " ", "\n", "\t", "\r\n", "  ") }

func (g *gen) jsonString(s []byte) string {
	var b strings.Builder
	b.WriteByte('"')
	for _, r := range string(s) { // invalid bytes become U+FFFD
		style := g.r.Intn(6)
		switch {
		case r == '"' || r == '\\':
			b.WriteByte('\\')
			b.WriteRune(r)
		case r < 0x20:
			if esc, ok := map[rune]string{'\b': `\b`, '\f': `\f`, '\n': `\n`, '\r': `\r`, '\t': `\t`}[r]; ok && style != 0 {
				b.WriteString(esc)
			} else {
				fmt.Fprintf(&b, `\u%04x`, r)
			}
		case r == '/' && style == 0:
			b.WriteString(`\/`)
		case style == 1 && r < 0x10000:
			fmt.Fprintf(&b, `\u%04X`, r)
		case style == 1:
			r1, r2 := (r-0x10000)>>10+0xd800, (r-0x10000)&0x3ff+0xdc00
			fmt.Fprintf(&b, `\u%04x\u%04x`, r1, r2)
		default:
			b.WriteRune(r)
		}
	}
	b.WriteByte('"')
	return b.String()
}

func (g *gen) renderJSON(v *V) string {
	switch v.K {
	case 'n':
		return "null"
	case 'b':
		return strconv.FormatBool(v.B)
	case 'i':
		return v.I.String()
	case 'f':
		lit := v.F
		if strings.HasSuffix(lit, ".") {
			lit += "0"
		}
		lit = strings.Replace(lit, ".e", ".0e", 1)
		lit = strings.Replace(lit, ".E", ".0E", 1)
		// RFC 8259 has no leading zeros
		for len(lit) > 1 && lit[0] == '0' && lit[1] >= '0' && lit[1] <= '9' {
			lit = lit[1:]
		}
		if v.Neg {
			return "-" + lit
		}
		return lit
	case 's':
		return g.jsonString(v.S)
	case 'd':
		parts := make([]string, len(v.D))
		for i, x := range v.D {
			parts[i] = g.jsonString([]byte(x))
		}
		return "[" + strings.Join(parts, ","+g.jws()) + "]"
	case 'a':
		var b strings.Builder
		b.WriteString("[" + g.jws())
		for i, x := range v.A {
			if i > 0 {
				b.WriteString("," + g.jws())
			}
			b.WriteString(g.renderJSON(x) + g.pick("", "", " ", "", "", " ", "", "", " ", "\n", " \n "))
		}
		b.WriteString("]")
		return b.String()
	case 'o':
		var b strings.Builder
		b.WriteString("{" + g.jws())
		for i, m := range v.O {
			if i > 0 {
				b.WriteString("," + g.jws())
			}
			b.WriteString(g.jsonString(m.K) + g.pick("", " ", "", " ", "", " ", "\n") + ":" + g.jws() + g.renderJSON(m.V) + g.pick("", "", " ", "", "", " ", "", " ", "\r\n"))
		}
		b.WriteString("}")
		return b.String()
	}
	return "?"
}

// plainReasons: the documented reasons for which JSONx rejects a text that is
// valid RFC 8259 JSON (Props/C09.v C09_plain_json_accepted): a line end
// between a value or key and the following , : ] }; a string escape that Go
// does not have (\/ and surrogate \u escapes); a float literal outside the
// range of strconv.ParseFloat.  Computed from the text alone.
func plainReasons(txt []byte) []string {
	rs := map[string]bool{}
	n := len(txt)
	afterValue, sawNL := false, false
	for i := 0; i < n; {
		c := txt[i]
		switch {
		case c == ' ' || c == '\t' || c == '\r':
			i++
		case c == '\n':
			if afterValue {
				sawNL = true
			}
			i++
		case c == '"':
			j := i + 1
			for j < n && txt[j] != '"' {
				if txt[j] == '\\' && j+1 < n {
					switch txt[j+1] {
					case '/':
						rs["escape-slash"] = true
					case 'u':
						if j+5 < n {
							if v, err := strconv.ParseUint(string(txt[j+2:j+6]), 16, 32); err == nil && v >= 0xD800 && v <= 0xDFFF {
								rs["escape-surrogate"] = true
							}
						}
					}
					j += 2
				} else {
					j++
				}
			}
			i = j + 1
			afterValue, sawNL = true, false
		case c == ',' || c == ':' || c == ']' || c == '}':
			if sawNL {
				rs["newline-after-value"] = true
			}
			afterValue, sawNL = c == ']' || c == '}', false
			i++
		case c == '[' || c == '{':
			afterValue, sawNL = false, false
			i++
		default:
			j := i
			for j < n && !strings.ContainsRune(" \t\r\n,:]}", rune(txt[j])) {
				j++
			}
			tok := string(txt[i:j])
			if (tok[0] == '-' || tok[0] >= '0' && tok[0] <= '9') && strings.ContainsAny(tok, ".eE") {
				if _, err := strconv.ParseFloat(strings.TrimPrefix(tok, "-"), 64); err != nil {
					rs["float-range"] = true
				}
			}
			i = j
			afterValue, sawNL = true, false
		}
	}
	out := []string{}
	for r := range rs {
		out = append(out, r)
	}
	sort.Strings(out)
	return out
}

// ---------------------------------------------------------------- Go values for Marshal (C07)

var floatPool = []float64{0, 1, -1, 0.5, -1.5, 1.234, 1234, 999999, 1000000, 1000001, 1e6, 1e7, 123456789, 1e20, 1e21, 1e22, -1e21,
	1.5e300, 1e-5, 1e-6, 1e-7, 1.5e-9, -2.5e-8, 5e-324, 2.2250738585072014e-308, math.MaxFloat64, -math.MaxFloat64,
	9007199254740991, 9007199254740992, 9007199254740993, 0.1, 0.2, 0.30000000000000004, 100, 1e15, 1e16, 123456.789e3,
	math.SmallestNonzeroFloat64, 3.141592653589793, -0.0001, 4294967296, 1e100, 12345678901234567890}

func (g *gen) goValue(depth int) interface{} {
	k := g.r.Intn(14)
	if depth <= 0 && k >= 10 {
		k = g.r.Intn(10)
	}
	switch k {
	case 0:
		return nil
	case 1:
		return g.r.Bool()
	case 2:
		return floatPool[g.r.Intn(len(floatPool))]
	case 3:
		f := math.Float64frombits(g.r.U64())
		if math.IsNaN(f) || math.IsInf(f, 0) {
			return 2.5
		}
		return f
	case 4:
		return (float64(g.r.Intn(2000001)) - 1000000) / float64([]int{1, 2, 8, 10, 1000}[g.r.Intn(5)])
	case 5:
		n := int64(g.r.U64() >> uint(g.r.Intn(64)))
		if g.r.Bool() {
			n = -n
		}
		return n
	case 6:
		return []interface{}{uint64(math.MaxUint64), uint64(1<<63 + 1), int64(math.MinInt64), int64(-(1 << 53) - 1),
			int64(1<<53 + 1), uint64(g.r.U64()), int64(math.MaxInt64), 1000000, 10000000, -1234567}[g.r.Intn(10)]
	case 7, 8:
		return string(g.strBytes())
	case 9:
		return json.Number(g.pick("1e5", "1E+2", "-0", "0.10", "12345678901234567890123", "1.0", "-1.5e-7", "100"))
	case 10, 11:
		n := g.r.Intn(4)
		a := []interface{}{}
		for i := 0; i < n; i++ {
			a = append(a, g.goValue(depth-1))
		}
		return a
	case 12:
		type S struct {
			A string
			B int `json:"b,omitempty"`
			C []float64
			D map[string]bool `json:"true"`
			E *int
		}
		return S{A: string(g.strBytes()), B: g.r.Intn(3), C: []float64{floatPool[g.r.Intn(len(floatPool))]}, D: map[string]bool{"x y": true}}
	default:
		n := g.r.Intn(4)
		m := map[string]interface{}{}
		allIdent := g.r.Intn(3) != 0
		for i := 0; i < n; i++ {
			var key string
			switch {
			case allIdent:
				key = g.ident()
			case g.r.Intn(3) == 0:
				key = keywordPool[g.r.Intn(3)]
			default:
				key = string(g.strBytes())
			}
			m[key] = g.goValue(depth - 1)
		}
		return m
	}
}

// pvTree: what Fprint's json.Marshal + decode(UseNumber) step yields.
func pvTree(v interface{}) (interface{}, string, error) {
	bs, err := json.Marshal(v)
	if err != nil {
		return nil, "", err
	}
	t, ok := treeJSON(bs)
	if !ok {
		return nil, "", fmt.Errorf("json.Marshal output not valid")
	}
	c, err := canonJSON(bs)
	if err != nil {
		return nil, "", err
	}
	return sortTree(t), c, nil
}

func sortTree(t interface{}) interface{} {
	m := t.(map[string]interface{})
	switch m["k"] {
	case "arr":
		a := m["a"].([]interface{})
		for i := range a {
			a[i] = sortTree(a[i])
		}
	case "obj":
		ms := m["m"].([]interface{})
		for i := range ms {
			p := ms[i].([]interface{})
			p[1] = sortTree(p[1])
		}
	}
	return m
}

// isIntLexeme: the literals the number lexer can return as an integer token.
func isIntLexeme(s string) bool {
	if strings.HasPrefix(s, "0x") {
		for _, c := range s[2:] {
			if !(c >= '0' && c <= '9' || c >= 'a' && c <= 'f' || c >= 'A' && c <= 'F') {
				return false
			}
		}
		return true
	}
	if s == "" {
		return false
	}
	for _, c := range s {
		if c < '0' || c > '9' {
			return false
		}
	}
	return true
}

// ---------------------------------------------------------------- streams

type builder struct {
	cs []Case
	g  *gen
}

func (b *builder) add(stream, op string, in []byte, f func(c *Case)) {
	c := Case{I: len(b.cs), Stream: stream, Op: op, In: hex.EncodeToString(in), Src: printable(in)}
	if f != nil {
		f(&c)
	}
	b.cs = append(b.cs, c)
}

var seriesKnown = []string{"x", "a", "t", "build", "string"}

func withKnown(c *Case) { c.Known = seriesKnown }

// the inputs already known to fail on the pinned tree come first
var corpusHang = []string{"x {", "{a:1}\n/* unterminated", "1;/*", "x [", "x {a:1}\nx {a:", "a {\n", "t [1,", "x {a:[", "x \"s\" {", "x {a:1", "build {\n  name: \"n\",\n  deps: [\"a\",\n"}
var corpusNum = []string{"-1.5", "-1e5", "0x1F", "007", "-0x10", "1e+06", "1E+2", "+1.5", "-0.0", "08", "0x", "-0", "1.", "1.e3", "1e", "1e-", "1e400", "0x1g", "00", "0b1", "1_0", "- 5", "-\n5", "--5", "+-5", "0e0", "123456789012345678901234567890", "-9223372036854775809", "0777", "0xFFFFFFFFFFFFFFFFFF", "1E5", "1e05", "0.1e-7"}

var docs = []string{
	"{a:42,b:true}",
	"{\n  name: \"hello\",\n  deps: [\"a\", \"b\",],\n  n: -12,\n}\n",
	"[1, 2.5, \"x\\n\", `raw\nstring`, null, a.b.c]",
	"{ \"k 1\": {a:{a:{a:42}}}, /* c */ z: [], }",
	"x {a:1}\ny {b:[1,2]}\n",
	"build {\n  name: \"n\", // comment\n  srcs: [\"a.go\"],\n}\n\nbuild {\n  name: \"m\",\n}\n",
	"\"string\" 12\n\"t\" {}\n",
	"a.b.c.d",
	"{a:/*a*/42}",
	"t true; t false; x null;",
	"{\"a\":\"\\u00e9\\x41\\101\\U0001F600\",\"b\":-1.5e-3}",
	"[[[[]]],{},{a:{}},]",
	"{a:1}\n/* done */\n",
	"[1,2] ; /* end */ // eof",
}

var alphabet = []string{"{", "}", "[", "]", ",", ":", "a", "\"s\"", "1", "-", "\n", ";", "true", "1.5", ".", "x"}

func (b *builder) tokenSeqs(stream string, k int, nsym int, ops ...string) {
	idx := make([]int, k)
	for {
		parts := make([]string, k)
		for i, j := range idx {
			parts[i] = alphabet[j]
		}
		in := []byte(strings.Join(parts, " "))
		for _, op := range ops {
			b.add(stream, op, in, withKnown)
		}
		i := k - 1
		for i >= 0 {
			idx[i]++
			if idx[i] < nsym {
				break
			}
			idx[i] = 0
			i--
		}
		if i < 0 {
			return
		}
	}
}

func splitTokens(doc string) []string {
	// a coarse tokenisation good enough for deleting / inserting tokens
	var out []string
	cur := ""
	flush := func() {
		if cur != "" {
			out = append(out, cur)
			cur = ""
		}
	}
	inStr := byte(0)
	for i := 0; i < len(doc); i++ {
		c := doc[i]
		if inStr != 0 {
			cur += string(c)
			if c == '\\' && inStr == '"' && i+1 < len(doc) {
				i++
				cur += string(doc[i])
			} else if c == inStr {
				inStr = 0
				flush()
			}
			continue
		}
		switch {
		case c == '"' || c == '`':
			flush()
			inStr = c
			cur = string(c)
		case strings.ContainsRune("{}[],:;\n", rune(c)):
			flush()
			out = append(out, string(c))
		case c == ' ' || c == '\t':
			flush()
		default:
			cur += string(c)
		}
	}
	flush()
	return out
}

func joinTokens(ts []string) []byte { return []byte(strings.Join(ts, " ")) }

func (b *builder) malformedBytes() []byte {
	g := b.g
	switch g.r.Intn(5) {
	case 0:
		return g.r.Bytes(g.r.Intn(12))
	case 1:
		d := []byte(docs[g.r.Intn(len(docs))])
		for k := 0; k < 1+g.r.Intn(3) && len(d) > 0; k++ {
			d[g.r.Intn(len(d))] = byte(g.r.U64())
		}
		return d
	case 2:
		d := []byte(docs[g.r.Intn(len(docs))])
		p := g.r.Intn(len(d) + 1)
		ins := [][]byte{{0xff}, {0xc3}, {0xe2, 0x82}, {0xf0, 0x9f}, {0xed, 0xa0, 0x80}, {0}, {'"'}, {'\\'}, {'`'}, {'/', '*'}, {'\''}, {'\\', 'u', 'd', '8', '0', '0'}}
		x := ins[g.r.Intn(len(ins))]
		return append(append(append([]byte{}, d[:p]...), x...), d[p:]...)
	case 3:
		n := 1 + g.r.Intn(10)
		var sb strings.Builder
		for i := 0; i < n; i++ {
			sb.WriteString(g.pick("\"", "\\", "x", "\\u12", "\\x4", "\\7", "\\400", "`", "/*", "*/", "//", "\n", " ", "{", "[", "1e", "0x", "\\UFFFFFFFF", "\\ud800", "é", "\x80", "'"))
		}
		return []byte(sb.String())
	default:
		n := 1 + g.r.Intn(8)
		parts := make([]string, n)
		for i := range parts {
			parts[i] = alphabet[g.r.Intn(len(alphabet))]
		}
		return []byte(strings.Join(parts, g.pick(" ", "", "\n")))
	}
}

var shellCorpus = []string{"", "a b c", "  a   b  ", "\"a b\" c", "\"a\\\"b\"", "a\"b c", "\"unterminated", "\"a\\", "a\nb", "a\tb", "\"a\"b", "\"\\z\"", "\"\\x4\" z",
	"a\rb", "\"\n\"", "'a b'", "\"a\\u00e9\\101\"", "x=\"y z\"", "\"\" \"\"", "\"\\400\"", "\"\\ud800\"", "é \"é\" \xff", "\"\xff\""}

func genCases(mode string, seed uint64, n int) []Case {
	b := &builder{g: &gen{r: hx.NewRng(seed)}}
	switch mode {
	case "c08":
		genC08(b, n)
	case "c09":
		genC09(b, n)
	case "c07":
		genC07(b, n)
	}
	return b.cs
}

// Documents with many errors: the error lists keep 20 errors; what happens
// to the parser's error state from the 21st error on decides whether the
// recovery loops still make progress.
var manyErrKinds = []string{
	"1 {}\n",      // not a type name
	"x [a b]\n",   // missing comma in a list
	"x :\n",       // no operand
	"x {1:2}\n",   // not an object entry
	"x -\n",       // sign without number
	"x {a:1} y\n", // no separator after the value
	"x \"\\z\"\n", // lexing error in a string
	"# \n",        // illegal character
	"zz 1\n",      // unknown type (the decoder's own error list)
	"thing { A: [a b] }\n",
}

var manyErrTails = []string{"", "{", ":", ",\n", "thing {", "thing { A: [1, 2", "thing { A: [1 2", "x [", "x {a:",
	"x \"abc", "x /* open", "x `raw", "x", "x 1", "[", "1 {}"}

var manyErrCounts = []int{19, 20, 21, 22, 40}

func genManyErrors(b *builder, n int) {
	// the inputs of the demonstration first
	for _, k := range []int{1, 5, 19, 20, 21, 22, 40} {
		b.add("manyerr", "series", []byte(strings.Repeat("1 {}\n", k)), withKnown)
	}
	for _, k := range []int{1, 19, 20, 21, 30} {
		b.add("manyerr", "series", []byte(strings.TrimSuffix(strings.Repeat("thing { A: [a b] }\n", k), "\n")), withKnown)
	}
	for _, tail := range []string{"{", ":", ",\n", "thing {", "thing { A: [1, 2", "thing { A: [1 2"} {
		b.add("manyerr", "series", []byte(strings.Repeat("1 {}\n", 20)+tail), withKnown)
	}
	i := 0
	for _, kind := range manyErrKinds {
		for _, cnt := range manyErrCounts {
			for _, tail := range manyErrTails {
				doc := []byte(strings.Repeat(kind, cnt) + tail)
				b.add("manyerr", "series", doc, withKnown)
				if i%4 == 0 {
					b.add("manyerr", "unmarshal", doc, nil)
				}
				if i%7 == 0 {
					b.add("manyerr", "ptokens", doc, nil)
				}
				i++
			}
		}
	}
	// mixed kinds, and single values with many errors (lexing errors inside
	// one list / object; a value stops at its first parse error)
	g := b.g
	for k := 0; k < 40+n/20; k++ {
		cnt := manyErrCounts[g.r.Intn(len(manyErrCounts))] + g.r.Intn(3)
		var sb strings.Builder
		for j := 0; j < cnt; j++ {
			sb.WriteString(manyErrKinds[g.r.Intn(len(manyErrKinds))])
		}
		sb.WriteString(manyErrTails[g.r.Intn(len(manyErrTails))])
		b.add("manyerr", "series", []byte(sb.String()), withKnown)
	}
	for _, cnt := range manyErrCounts {
		for _, item := range []string{"# ", "\"\\z\", ", "'", "\"\\400\" ", "$ 1, "} {
			for _, close := range []string{"]", "", "}", "\n"} {
				doc := []byte("[" + strings.Repeat(item, cnt) + close)
				b.add("manyerr", "unmarshal", doc, nil)
				b.add("manyerr", "tojson", doc, nil)
				b.add("manyerr", "series", append([]byte("x "), doc...), withKnown)
				b.add("manyerr", "stream", append([]byte("1 {a:2}\n"), doc...), nil)
			}
		}
		// errors of the decoder's own list: unknown types, texts the struct types reject
		for _, ent := range []string{"point {x:[]}\n", "build {zzz:1}\n", "nosuch 1\n", "string 1;"} {
			b.add("manyerr", "tseries", []byte(strings.Repeat(ent, cnt)), func(c *Case) { c.Known = typedKnown })
			b.add("manyerr", "tseries", []byte("point {x:1}\n"+strings.Repeat(ent, cnt)+"any {v:1}"), func(c *Case) { c.Known = typedKnown })
		}
		// many bad escapes (the lexer's capped list; no input is known that the lexer takes and strconv.Unquote rejects)
		b.add("manyerr", "shell", []byte(strings.Repeat("\"\\x4\" ", cnt)), nil)
		b.add("manyerr", "shell", []byte(strings.Repeat("\"\\400\" z ", cnt)), nil)
		b.add("manyerr", "shell", []byte(strings.Repeat("\"\\z\" ", cnt)), nil)
		b.add("manyerr", "shell", []byte(strings.Repeat("a\n", cnt)), nil)
	}
}

func genC08(b *builder, n int) {
	g := b.g
	for _, s := range corpusHang {
		b.add("corpus", "series", []byte(s), withKnown)
		b.add("corpus", "unmarshal", []byte(s), nil)
		b.add("corpus", "tojson", []byte(s), nil)
	}
	genManyErrors(b, n)
	for _, s := range corpusNum {
		b.add("corpus", "tojson", []byte(s), nil)
	}
	for _, d := range docs {
		b.add("files", "file", []byte(d), withKnown)
		b.add("files", "file", []byte(d[:len(d)/2]), withKnown)
		b.add("docs", "raw", []byte(d), nil)
		b.add("docs", "rawpos", []byte(d), nil)
		b.add("docs", "rawpos", []byte(strings.ReplaceAll(d, "\n", "\r\n")), nil)
		b.add("docs", "filtered", []byte(d), nil)
		b.add("docs", "ptokens", []byte(d), nil)
		b.add("docs", "series", []byte(d), withKnown)
		b.add("docs", "unmarshal", []byte(d), nil)
		b.add("docs", "tojson", []byte(d), nil)
	}
	// every prefix of every document
	for _, d := range docs {
		step := 1
		if n < 400 && len(d) > 40 {
			step = 2
		}
		for p := 0; p < len(d); p += step {
			in := []byte(d[:p])
			b.add("prefix", "series", in, withKnown)
			b.add("prefix", "unmarshal", in, nil)
			if p%3 == 0 {
				b.add("prefix", "tojson", in, nil)
				b.add("prefix", "ptokens", in, nil)
			}
		}
	}
	// single-token deletion / insertion
	for _, d := range docs {
		ts := splitTokens(d)
		for i := range ts {
			del := append(append([]string{}, ts[:i]...), ts[i+1:]...)
			in := joinTokens(del)
			b.add("tokdel", "series", in, withKnown)
			b.add("tokdel", "unmarshal", in, nil)
		}
		for k := 0; k < len(ts)+1; k += 1 + len(ts)/12 {
			t := alphabet[g.r.Intn(len(alphabet))]
			ins := append(append(append([]string{}, ts[:k]...), t), ts[k:]...)
			in := joinTokens(ins)
			b.add("tokins", "series", in, withKnown)
			b.add("tokins", "unmarshal", in, nil)
		}
	}
	// all short token sequences
	b.tokenSeqs("seq1", 1, len(alphabet), "series", "unmarshal", "tojson")
	b.tokenSeqs("seq2", 2, len(alphabet), "series", "unmarshal")
	if n >= 400 {
		b.tokenSeqs("seq3", 3, 12, "series", "unmarshal")
	} else {
		b.tokenSeqs("seq3", 3, 8, "series")
	}
	if n >= 5000 {
		b.tokenSeqs("seq4", 4, 12, "series")
	}
	// random longer sequences, bad UTF-8, mutated documents
	for i := 0; i < n; i++ {
		in := b.malformedBytes()
		ops := []string{"series", "unmarshal", "tojson", "ptokens", "raw", "rawpos"}
		b.add("malformed", ops[i%len(ops)], in, withKnown)
		if i%4 == 0 {
			b.add("malformed", "utf8", in, nil)
		}
	}
	// valid structured documents and their cuts
	g.badUTF8 = true
	for i := 0; i < n/4; i++ {
		v := g.value(3)
		txt := []byte(g.render(v))
		b.add("valid", "unmarshal", txt, nil)
		b.add("valid", "series", append([]byte("x "), append(txt, '\n')...), withKnown)
		if len(txt) > 0 {
			b.add("cut", "unmarshal", txt[:g.r.Intn(len(txt))], nil)
			b.add("cut", "series", append([]byte("x "), txt[:g.r.Intn(len(txt))]...), withKnown)
		}
	}
	// positions
	for _, s := range []string{"", "a", "\n", "a\n", "\n\na", "\"x\ny\"", "/* a\nb */ c", "`r\nr` 1", "é 中\n😀 x", "\xff\xfe a\n b", "a\r\nb", "# $\n %", "\t\ta", "1 {}\n1 {}\n", "//c", "//c\n", "a // c\n  b"} {
		b.add("positions", "rawpos", []byte(s), nil)
	}
	for _, k := range manyErrCounts {
		b.add("positions", "rawpos", []byte(strings.Repeat("# \n $", k)), nil)
	}
	for i := 0; i < n/6; i++ {
		v := g.value(3)
		b.add("positions", "rawpos", []byte(g.render(v)), nil)
	}
	// a Decoder used for several values; series with struct types
	genMulti(b, n/8, true)
	genTyped(b, n/8, true)
	for _, d := range docs {
		b.add("docs", "stream", []byte(d), nil)
		b.add("docs", "tseries", []byte(d), func(c *Case) { c.Known = typedKnown })
	}
	// usage patterns (round 3): one Decoder driven by a script of calls, readers of
	// every shape, results that must not share memory, the other exported lexers,
	// TypeMaker result shapes, sizes around bufio's buffer, command lines ending
	// inside a quote or an escape
	genDeep(b)
	genScripts(b, n/12, true)
	genReaders(b, n/40)
	genReuse9(b, 4)
	genLexFn(b, n/20)
	genMakerShapes(b)
	genBig(b, "unmarshal", "series")
	genEscapes(b, true)
	genShellEOL(b)
	// command lines
	for _, s := range shellCorpus {
		b.add("shell", "shell", []byte(s), nil)
	}
	for i := 0; i < n/3; i++ {
		k := 1 + g.r.Intn(6)
		var sb strings.Builder
		for j := 0; j < k; j++ {
			sb.WriteString(g.pick("a", "bc", "\"x y\"", "\"", "\\", " ", "  ", "\t", "\n", "\r", "\"a\\\"", "\"\\n\"", "\"\\q\"", "é", "\xff", "x\"y", "\"\\x41\"", "\"\\1\"", "'", "`"))
			sb.WriteString(g.pick(" ", "", " "))
		}
		b.add("shell", "shell", []byte(sb.String()), nil)
	}
}

func genC09(b *builder, n int) {
	g := b.g
	g.badUTF8 = true
	for _, s := range corpusNum {
		b.add("corpus", "tojson", []byte(s), nil)
		b.add("corpus", "unmarshal", []byte(s), nil)
		if lx := strings.TrimLeft(s, "+- \n"); isIntLexeme(lx) {
			b.add("corpus", "intlit", []byte(lx), nil)
		}
	}
	for _, d := range docs {
		b.add("docs", "tojson", []byte(d), nil)
		b.add("files", "file", []byte(d), withKnown)
	}
	// usage patterns (round 3): tokens keyed on their first bytes and length, escape
	// boundaries, keyword prefixes, sizes around bufio's buffer, one Decoder driven
	// by a script of calls, decoding targets, results that must not share memory
	genWideObjects(b, n/100)
	genBigFiles(b)
	genNumLex(b, n < 20000)
	genWords(b)
	genEscapes(b, false)
	genBig(b, "tojson")
	genScripts(b, n/25, false)
	genTargets(b, n/50)
	genReuse9(b, 4)
	genMakerShapes(b)
	// arbitrary values under arbitrary surface choices
	for i := 0; i < n; i++ {
		v := g.value(3)
		txt := []byte(g.render(v))
		want := canonV(v)
		b.add("render", "tojson", txt, func(c *Case) { c.Want = want })
		if i%2 == 0 {
			b.add("render", "unmarshal", append(txt, []byte(g.pick("", "\n", " ", ";", " // end", "\n\n", "/* */"))...), func(c *Case) { c.Want = want })
		}
	}
	// number spellings
	for i := 0; i < n/2; i++ {
		var v *V
		if i%2 == 0 {
			v = &V{K: 'i', I: g.bigInt()}
		} else {
			v = &V{K: 'f', F: g.floatLit(), Neg: g.r.Intn(3) == 0}
		}
		want := canonV(v)
		b.add("number", "tojson", []byte(g.render(v)), func(c *Case) { c.Want = want })
	}
	// strings
	for i := 0; i < n/2; i++ {
		v := &V{K: 's', S: g.strBytes()}
		want := canonV(v)
		txt := g.render(v)
		b.add("string", "tojson", []byte(txt), func(c *Case) { c.Want = want })
		if i%3 == 0 {
			b.add("string", "unquote", []byte(txt), nil)
			b.add("string", "jsonquote", v.S, nil)
		}
	}
	// plain RFC 8259 texts: the meaning is what encoding/json reads
	g.badUTF8 = false
	for i := 0; i < n/2; i++ {
		v := g.value(3)
		txt := []byte(g.renderJSON(v))
		want, err := canonJSON(txt)
		if err != nil {
			want = "E(generator: " + err.Error() + ")"
		}
		rs := plainReasons(txt)
		b.add("plainjson", "tojson", txt, func(c *Case) { c.Want = want; c.Reasons = rs; c.Plain = true })
		if i%3 == 0 {
			b.add("plainjson", "jsonparse", txt, nil)
		}
	}
	for _, s := range []string{"[1e400]", "-1E999", "\"\\/\"", "\"\\ud83d\\ude00\"", "{\"a\"\n:1}", "[1\n]", "1\n", "{\"a\":1\n,\"b\":2}",
		"[1,\n2]", "1E5", "-0", "[-0.0e-0]", "{\"a\":1,\"a\":2}", "{\"true\":null,\"null\":true}", "[\n]", "{\n}", "\n\n[\n1\n]", " {\"k\" : [ ] } \n",
		"1.5E+3", "0e0", "[[],{}]\n\n", "\"\\u00e9\\n\\t\\\"\\\\\"", "\"\\ud800\"", "[1 ,2 ]", "{\"a\" :1 }", "\"\u2028\"", "123456789012345678901234567890", "-1e-400"} {
		txt := []byte(s)
		want, err := canonJSON(txt)
		if err != nil {
			continue
		}
		rs := plainReasons(txt)
		b.add("plainjson", "tojson", txt, func(c *Case) { c.Want = want; c.Reasons = rs; c.Plain = true })
		b.add("plainjson", "unmarshal", txt, func(c *Case) { c.Want = want; c.Reasons = rs; c.Plain = true })
	}
	g.badUTF8 = true
	// several values from one Decoder; series decoded into struct types
	genMulti(b, n/5, false)
	genTyped(b, n/5, false)
	// trailing content after a complete value must be reported
	for i := 0; i < n/4; i++ {
		v := g.value(2)
		txt := g.render(v)
		sep := g.pick(" ", "\n", ";", ",", "\n\n", " ; ")
		extra := g.pick("1", "{}", "x", "\"s\"", "]", "}", ",", ":", "null", "[", "-", "/* c */ 2", "; ;", "true")
		if sep == "," && (extra == "]" || extra == "}") {
			extra = "1"
		}
		b.add("trailing", "unmarshal", []byte(txt+sep+extra), func(c *Case) { c.Reject = true })
		if i%8 == 0 {
			// the file-level entry points must report it as well
			b.add("trailing", "file", []byte(txt+sep+extra), func(c *Case) { c.Reject = true; c.Known = seriesKnown })
		}
	}
	// standard-library correspondences: json reference parser, Unquote, integer literals
	for i := 0; i < n/4; i++ {
		in := b.malformedBytes()
		if utf8.Valid(in) {
			b.add("stdlib", "jsonparse", in, nil)
		}
		b.add("stdlib", "unquote", []byte("\""+string(in)+"\""), nil)
		b.add("stdlib", "jsonquote", in, nil)
	}
	for _, s := range []string{`"\ud83d\ude00"`, `"\ud83d"`, `"\ude00\ud83d"`, `"\ud83d\u0041"`, `"\ud83dx"`, `"\ud83d\n"`, `"\ud83d\ud83d\ude00"`, `[1,]`, `{"a":1,}`, `01`, `1.`, `.5`, `-`, `1e`, `1e+`, `"\x41"`, "\"\t\"", `[] []`, ` null `, `nul`, `{"a" 1}`, `{"a":1 "b":2}`, `[1 2]`, `-0`, `-01`, `1E-0`, `"\u12G4"`, `{"\u0061":1,"a":2}`, `2e308`, `[[[[[[]]]]]]`, `{"":{"":{}}}`, `tru`, `"\/"`} {
		b.add("stdlib", "jsonparse", []byte(s), nil)
	}
	for i := 0; i < n/4; i++ {
		s := g.pick("0x", "0", "", "0x", "00", "") + g.digits(0, 5) + g.pick("", "", "f", "8", "9", "A", "c0")
		if isIntLexeme(s) {
			b.add("stdlib", "intlit", []byte(s), nil)
		}
	}
}

func genC07(b *builder, n int) {
	g := b.g
	fixed := []interface{}{1000000, 1e21, -1.5, uint64(1<<63 + 1), int64(-(1 << 53) - 1), 1e6, 1e-7, "é\n\"\\\x00\u2028😀", map[string]interface{}{"true": 1, "a b": []interface{}{}},
		map[string]interface{}{"a": map[string]interface{}{"b": []interface{}{1.5, nil, map[string]interface{}{}}}}, []interface{}{}, map[string]interface{}{}, "", nil, true, 0.0, math.Copysign(0, -1),
		json.Number("1.7976931348623157e308"), []interface{}{[]interface{}{[]interface{}{[]interface{}{"deep"}}}}, map[string]interface{}{"null": nil, "x": 1}, map[string]interface{}{"é": 1}, map[string]interface{}{"": 1}}
	addPrint := func(stream string, v interface{}) {
		tree, want, err := pvTree(v)
		if err != nil {
			return
		}
		js, _ := json.Marshal(v)
		b.add(stream, "print", js, func(c *Case) { c.PV = tree; c.Want = want; c.goVal = v })
	}
	nfile := 0
	addPrint0 := addPrint
	addPrint = func(stream string, v interface{}) {
		addPrint0(stream, v)
		nfile++
		if nfile%8 == 1 {
			js, err := json.Marshal(v)
			if err != nil {
				return
			}
			b.add("files", "file", js, func(c *Case) { c.goVal = v; c.PV = true; c.Known = seriesKnown })
		}
	}
	for _, v := range fixed {
		addPrint("corpus", v)
	}
	for i := 0; i < n; i++ {
		addPrint("value", g.goValue(3))
	}
	for i := 0; i < n/2; i++ {
		var v interface{}
		switch i % 3 {
		case 0:
			v = floatPool[g.r.Intn(len(floatPool))] * float64([]int{1, -1, 3, 10}[g.r.Intn(4)])
		case 1:
			f := math.Float64frombits(g.r.U64())
			if math.IsNaN(f) || math.IsInf(f, 0) {
				f = 1
			}
			v = f
		default:
			v = g.goValue(0)
		}
		addPrint("number", v)
	}
	for i := 0; i < n/2; i++ {
		s := string(g.strBytes())
		addPrint("string", s)
		if i%3 == 0 {
			bs := []byte(strings.ToValidUTF8(s, "\uFFFD"))
			b.add("string", "goquote", bs, nil)
		}
	}
	keys := append(append([]string{}, identPool...), keywordPool...)
	sort.Strings(keys)
	// keys that are almost identifiers, alone and mixed with identifiers
	tricky := []string{"1", "9x", "0", "00", "1e5", "a1", "A_", "nil", "NULL", "True", "nulls", "x.y", "a-b", "$", "\u00e4", "a b", "",
		"-", "_", "__", "x\n", "\"", "a:b", "a,b", "{", "/*", "//", "é", "x\u00a0y", "0x1", "true "}
	for _, k := range tricky {
		addPrint("keys", map[string]interface{}{k: 1})
		addPrint("keys", map[string]interface{}{k: []interface{}{}, "a": nil})
	}
	for i := 0; i < n/4; i++ {
		m := map[string]interface{}{}
		for j := 0; j < 1+g.r.Intn(4); j++ {
			k := keys[g.r.Intn(len(keys))]
			switch g.r.Intn(6) {
			case 0:
				k = string(g.strBytes())
			case 1:
				k = tricky[g.r.Intn(len(tricky))]
			}
			m[k] = g.goValue(1)
		}
		addPrint("keys", m)
	}
	// usage patterns (round 3): small numbers and powers of ten of every Go number
	// type, long strings / wide / deep containers, consecutive and concurrent
	// Marshal calls and failing writers
	genSmallNumbers(addPrint0)
	genBigValues(addPrint0)
	genReuse7(b, 6)
	genFileHist(b, n/40)
	genBigTokens(b)
	genReread(b, n/100)
	// Go values of concrete types through Marshal -> Unmarshal into the same type
	genGoValues(b, n/3, addPrint0)
	// code point classes; all code points
	genRunes(b, n, n >= 20000)
	for _, r := range classRunes() {
		if r%97 == 0 || r < 0x100 {
			addPrint0("runes", "a"+string(r)+"b")
			if r%2 == 0 {
				addPrint0("runes", map[string]interface{}{string(r): 1, "k" + string(r): nil})
			}
		}
	}
	// the text Marshal prints must also go through the model's decoder
	for i := 0; i < n/4; i++ {
		v := g.goValue(2)
		bs, err := jsonxMarshal(v)
		if err != nil {
			continue
		}
		b.add("printed", "unmarshal", bs, nil)
	}
}
