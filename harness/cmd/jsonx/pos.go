// Positions of tokens and errors.
package main

import (
	"bytes"
	"fmt"

	"shanhu.io/g/jsonx"
	"shanhu.io/g/lexing"
)

func posOf(p *lexing.Pos) [2]int {
	if p == nil {
		return [2]int{-1, -1}
	}
	return [2]int{p.Line, p.Col}
}

// runRawPos: the position of every raw token and of every lexing error; and,
// read off the implementation alone, every error of ToJSON and DecodeSeries
// points at the start of a token of the input.
func runRawPos(o *Obs, in []byte) {
	ts, es := jsonx.VerifRawTokens(in)
	o.Pos, o.EPos = [][2]int{}, [][2]int{}
	starts := map[[2]int]bool{}
	for _, t := range ts {
		o.Pos = append(o.Pos, posOf(t.Pos))
		starts[posOf(t.Pos)] = true
	}
	for _, e := range es {
		o.EPos = append(o.EPos, posOf(e.Pos))
	}
	o.Ok = true
	check := func(what string, errs []*lexing.Error) {
		for _, e := range errs {
			if e.Pos == nil {
				continue // errors of encoding/json and of the TypeMaker's decoding carry none
			}
			if !starts[posOf(e.Pos)] && o.Note == "" {
				o.Note = fmt.Sprintf("%s: error %q at %d:%d, where no token of the input starts", what, errName(e), e.Pos.Line, e.Pos.Col)
			}
			if e.Pos.File != "" && o.Note == "" {
				o.Note = what + ": error position names a file"
			}
		}
	}
	_, errs := jsonx.ToJSON(in)
	check("ToJSON", errs)
	_, errs = jsonx.NewDecoder(bytes.NewReader(in)).DecodeSeries(knownMaker(seriesKnown))
	check("DecodeSeries", errs)
	typed, errs := jsonx.NewDecoder(bytes.NewReader(in)).DecodeSeries(typedMaker)
	check("DecodeSeries", errs)
	for _, t := range typed {
		if t.Pos == nil || !starts[posOf(t.Pos)] {
			o.Note = "DecodeSeries: an entry's position is not the start of a token"
		}
	}
}
