// Files of the sizes the code names (batch r3i).  For every integer l the
// source names (gen_int_literals) files of l-1, l, l+1 and 2l+1 bytes, and
// files of 1 MiB-1, 1 MiB, 1 MiB+1 (one of 3 MiB), go through ReadFile,
// ReadFileMaybeJSON and ReadSeriesFile: a value, a long run of white space or
// comments, and a second value at the very end (trailing content that must be
// reported); a number whose digits straddle byte l; a value with nothing but
// white space after it (must be accepted).  The answer must be what
// Unmarshal / DecodeSeries say about the bytes on disk.  Only sizes are
// reported, never the content.
package main

import (
	"bytes"
	"encoding/json"
	"fmt"
	"os"
	"strings"

	"shanhu.io/g/jsonx"
)

func bigFileContent(shape string, size int) []byte {
	pad := func(head, tail string, filler string) []byte {
		n := size - len(head) - len(tail)
		if n < 0 {
			n = 0
		}
		var sb strings.Builder
		sb.Grow(size + len(filler))
		sb.WriteString(head)
		for sb.Len() < len(head)+n {
			sb.WriteString(filler)
		}
		s := sb.String()[:len(head)+n]
		if strings.Contains(filler, "//") {
			// end the last comment line before the tail
			if n > 0 {
				s = s[:len(s)-1] + "\n"
			}
		}
		return []byte(s + tail)
	}
	switch shape {
	case "spaces+value":
		return pad("{a:1}\n", "2\n", " ")
	case "comments+value":
		return pad("{a:1}\n", "x\n", "// a comment line that says nothing at all\n")
	case "spaces":
		return pad("{a:1}\n", "\n", " ")
	case "number": // the digits 1234567 straddle byte index size: three before it, four after
		return []byte(strings.Repeat(" ", size-3) + "1234567\n")
	case "series":
		return pad("x 1\n", "y 2\n", "// a comment line that says nothing at all\n")
	}
	return nil
}

func runBigFile(c *Case, o *Obs) {
	shape, size := c.Pre, c.Cut
	data := bigFileContent(shape, size)
	dir, err := os.MkdirTemp("", "jsonxbf")
	if err != nil {
		o.Note = "tempdir: " + err.Error()
		return
	}
	defer os.RemoveAll(dir)
	fn := dir + "/f.jsonx"
	if err := os.WriteFile(fn, data, 0644); err != nil {
		o.Note = "write: " + err.Error()
		return
	}
	o.N = len(data)
	o.Ok = true
	what := fmt.Sprintf("a file of %d bytes (%s)", len(data), c.Src)
	say := func(e error, raw json.RawMessage) string {
		if e != nil {
			return "error: " + e.Error()
		}
		return "the value " + printable(raw)
	}
	if shape == "series" {
		t1, es1 := jsonx.NewDecoder(bytes.NewReader(data)).DecodeSeries(knownMaker(seriesKnown))
		t2, es2 := jsonx.ReadSeriesFile(fn, knownMaker(seriesKnown))
		if (es1 == nil) != (es2 == nil) || len(t1) != len(t2) {
			o.Note = fmt.Sprintf("%s: ReadSeriesFile returned %d entries and %d errors; DecodeSeries of the %d bytes on disk %d entries and %d errors",
				what, len(t2), len(es2), len(data), len(t1), len(es1))
		}
		return
	}
	var want, got, maybe json.RawMessage
	e1 := jsonx.Unmarshal(data, &want)
	e2 := jsonx.ReadFile(fn, &got)
	if (e1 == nil) != (e2 == nil) || !bytes.Equal(want, got) {
		o.Note = fmt.Sprintf("%s: ReadFile returned %s; Unmarshal of the %d bytes on disk returns %s", what, say(e2, got), len(data), say(e1, want))
		return
	}
	e3 := jsonx.ReadFileMaybeJSON(fn, &maybe)
	var js json.RawMessage
	ej := json.Unmarshal(data, &js)
	switch {
	case e1 == nil && (e3 != nil || !bytes.Equal(want, maybe)):
		o.Note = fmt.Sprintf("%s: ReadFileMaybeJSON returned %s; Unmarshal of the %d bytes on disk returns %s", what, say(e3, maybe), len(data), say(e1, want))
	case e1 != nil && (e3 == nil) != (ej == nil):
		o.Note = fmt.Sprintf("%s: JSONx rejects the %d bytes on disk, encoding/json says %v; ReadFileMaybeJSON returned %s", what, len(data), ej, say(e3, maybe))
	}
}

func genBigFiles(b *builder) {
	seen := map[string]bool{}
	add := func(shape string, size int) {
		if size < 64 || size > 4<<20 {
			return
		}
		key := fmt.Sprintf("%s %d", shape, size)
		if seen[key] {
			return
		}
		seen[key] = true
		b.add("bigfile", "bigfile", []byte(key), func(c *Case) {
			c.Pre = shape
			c.Cut = size
			c.PV = true
			c.Src = map[string]string{
				"spaces+value":   "a value, spaces, a second value at the very end",
				"comments+value": "a value, comment lines, a second value at the very end",
				"spaces":         "a value and nothing but spaces after it",
				"number":         fmt.Sprintf("spaces, then the number 1234567 with three digits before byte %d", size),
				"series":         "a series entry, comment lines, a second entry at the very end",
			}[shape]
		})
	}
	shapes := []string{"spaces+value", "comments+value", "spaces", "number", "series"}
	for _, l := range sizeList {
		for _, s := range []int{l - 1, l, l + 1, 2*l + 1} {
			for _, sh := range shapes {
				add(sh, s)
			}
		}
	}
	for _, s := range []int{1<<20 - 1, 1 << 20, 1<<20 + 1} {
		for _, sh := range shapes {
			add(sh, s)
		}
	}
	add("spaces+value", 3<<20)
	add("number", 3<<20)
}
