// Decoder used for several values (More / Decode / Decode ...) and
// DecodeSeries with a TypeMaker that makes real struct types.
package main

import (
	"bytes"
	"encoding/json"
	"math/big"
	"reflect"
	"sort"
	"strings"
	"unicode/utf8"

	"shanhu.io/g/jsonx"
)

// ---------------------------------------------------------------- the types of the typed series

type tsInner struct {
	A bool    `json:"a"`
	B float64 `json:"b"`
}

type tsBuild struct {
	Name string         `json:"name"`
	Deps []string       `json:"deps,omitempty"`
	N    int64          `json:"n"`
	Opt  *tsInner       `json:"opt,omitempty"`
	M    map[string]int `json:"m,omitempty"`
}

// no tags: encoding/json matches the keys case-insensitively
type tsPoint struct {
	X, Y int
}

type tsAny struct {
	V interface{} `json:"v"`
}

var typedKnown = []string{"build", "point", "t", "any", "x", "a", "string", "byval", "nilp", "nilmap", "valmap", "filled", "chan"}

func typedMaker(t string) interface{} {
	switch t {
	case "build":
		return new(tsBuild)
	case "point", "t":
		return new(tsPoint)
	case "any":
		return new(tsAny)
	case "x":
		return new(interface{})
	case "a":
		return new([]interface{})
	case "string":
		return new(string)
	// result shapes a TypeMaker may have besides "nil" and "pointer to a fresh value"
	case "byval":
		return tsPoint{} // not a pointer: nothing can be stored
	case "nilp":
		return (*tsPoint)(nil) // a non-nil interface holding a nil pointer
	case "nilmap":
		return map[string]int(nil)
	case "valmap":
		return map[string]int{}
	case "filled":
		return &tsPoint{X: 9, Y: 9} // decoding merges into what is there
	case "chan":
		return new(chan int)
	}
	return nil
}

type recEnt struct {
	name string
	raw  []byte
}

// recAny accepts every JSON text and records it.
type recAny struct {
	name string
	log  *[]recEnt
}

func (r *recAny) UnmarshalJSON(bs []byte) error {
	*r.log = append(*r.log, recEnt{r.name, append([]byte(nil), bs...)})
	return nil
}

func strictDecode(bs []byte, v interface{}) error {
	dec := json.NewDecoder(bytes.NewReader(bs))
	dec.DisallowUnknownFields()
	return dec.Decode(v)
}

// runTyped observes DecodeSeries with the struct TypeMaker.  The JSON text
// of every entry is taken from a first run whose TypeMaker records it; which
// of them encoding/json's strict decoding rejects is computed here with
// encoding/json itself (trusted) and handed to the model as a table.
func runTyped(c *Case, o *Obs, in []byte) {
	o.Floats = floatTable(in)
	var log []recEnt
	jsonx.NewDecoder(bytes.NewReader(in)).DecodeSeries(func(t string) interface{} {
		return &recAny{name: t, log: &log}
	})
	type exp struct {
		name string
		raw  []byte
		v    interface{}
	}
	var accepted []exp
	o.Rejects = [][2][]int{}
	for _, e := range log {
		v := typedMaker(e.name)
		if v == nil {
			continue
		}
		if err := strictDecode(e.raw, v); err != nil {
			o.Rejects = append(o.Rejects, [2][]int{bytesOf([]byte(e.name)), runesOf(e.raw)})
			continue
		}
		accepted = append(accepted, exp{e.name, e.raw, v})
	}

	typed, es := jsonx.NewDecoder(bytes.NewReader(in)).DecodeSeries(typedMaker)
	o.Errs = errNames(es)
	if es != nil {
		if typed != nil {
			o.Note = "result together with errors"
		}
		return
	}
	o.Ok = true
	o.Items = [][2][]int{}
	same := len(typed) == len(accepted)
	for i := 0; same && i < len(typed); i++ {
		same = typed[i].Type == accepted[i].name && typed[i].Pos != nil && reflect.DeepEqual(typed[i].V, accepted[i].v)
	}
	if !same {
		o.Note = "the typed values are not the strict decodings of the entries' JSON texts"
		for _, t := range typed {
			o.Items = append(o.Items, [2][]int{bytesOf([]byte(t.Type)), {}})
		}
		return
	}
	var got []string
	for _, t := range typed {
		holdValue("a value DecodeSeries decoded", t.V)
		holdString("a type name DecodeSeries returned", t.Type)
	}
	for _, a := range accepted {
		o.Items = append(o.Items, [2][]int{bytesOf([]byte(a.name)), runesOf(a.raw)})
		cj, err := canonJSON(a.raw)
		if err != nil {
			cj = "E(" + err.Error() + ")"
		}
		got = append(got, a.name+" "+cj)
	}
	o.Got = strings.Join(got, "#")
	if want, ok := c.goVal.([]interface{}); ok {
		if len(want) != len(typed) {
			o.Note = "number of decoded entries differs from the intended number"
			return
		}
		for i := range want {
			if !reflect.DeepEqual(want[i], typed[i].V) {
				o.Note = "entry " + typed[i].Type + ": the decoded value differs from the intended value"
				return
			}
		}
	}
}

// runStream observes a Decoder used for several values.
func runStream(o *Obs, in []byte) {
	o.Floats = floatTable(in)
	o.Vals = [][]int{}
	dec := jsonx.NewDecoder(bytes.NewReader(in))
	var got []string
	for i := 0; dec.More(); i++ {
		if i > len(in)+2 {
			o.Note = "More() still true after more successful Decode calls than input bytes"
			return
		}
		var raw json.RawMessage
		es := dec.Decode(&raw)
		if es != nil {
			o.Errs = errNames(es)
			o.Fin = 1
			if len(es) == 1 && o.Errs[0] == "jsonerr" {
				o.Fin = 2
			}
			return
		}
		o.Vals = append(o.Vals, runesOf([]byte(raw)))
		holdBytes("a RawMessage Decode filled", []byte(raw))
		cj, err := canonJSON([]byte(raw))
		if err != nil {
			cj = "E(" + err.Error() + ")"
		}
		got = append(got, cj)
	}
	o.Ok = true
	o.Got = strings.Join(got, "#")
	// a Decode after the end must report an error and not a value
	var raw json.RawMessage
	if es := dec.Decode(&raw); es == nil {
		o.Note = "Decode after More() == false returned a value"
	}
}

// ---------------------------------------------------------------- generation

// vFromJSON turns a JSON text into a value tree (members sorted by key).
func vFromJSON(bs []byte) *V {
	dec := json.NewDecoder(bytes.NewReader(bs))
	dec.UseNumber()
	var x interface{}
	if err := dec.Decode(&x); err != nil {
		panic(err)
	}
	return vFromGo(x)
}

func vFromGo(x interface{}) *V {
	switch t := x.(type) {
	case nil:
		return &V{K: 'n'}
	case bool:
		return &V{K: 'b', B: t}
	case string:
		return &V{K: 's', S: []byte(t)}
	case json.Number:
		s := string(t)
		if !strings.ContainsAny(s, ".eE") {
			n, _ := new(big.Int).SetString(s, 10)
			return &V{K: 'i', I: n}
		}
		if strings.HasPrefix(s, "-") {
			return &V{K: 'f', F: s[1:], Neg: true}
		}
		return &V{K: 'f', F: s}
	case []interface{}:
		v := &V{K: 'a'}
		for _, y := range t {
			v.A = append(v.A, vFromGo(y))
		}
		return v
	case map[string]interface{}:
		keys := make([]string, 0, len(t))
		for k := range t {
			keys = append(keys, k)
		}
		sort.Strings(keys)
		v := &V{K: 'o'}
		for _, k := range keys {
			v.O = append(v.O, Member{K: []byte(k), V: vFromGo(t[k])})
		}
		return v
	}
	panic("vFromGo")
}

type WantItem struct {
	Name string `json:"name"`
	Kind string `json:"kind"` // ok | unknownfield | mismatch | unknowntype
}

func (g *gen) typedValue() (string, interface{}) {
	switch g.r.Intn(5) {
	case 0, 1:
		v := &tsBuild{Name: string(g.strBytesValid()), N: g.bigInt().Int64()}
		for i := g.r.Intn(3); i > 0; i-- {
			v.Deps = append(v.Deps, g.pick("a", "b/c", "", "é", "x y"))
		}
		if g.r.Bool() {
			v.Opt = &tsInner{A: g.r.Bool(), B: floatPool[g.r.Intn(len(floatPool))]}
		}
		for i := g.r.Intn(3); i > 0; i-- {
			if v.M == nil {
				v.M = map[string]int{}
			}
			v.M[g.pick("k", "true", "a b", "", "0")] = g.r.Intn(100) - 50
		}
		return "build", v
	case 2:
		return g.pick("point", "t"), &tsPoint{X: g.r.Intn(2000) - 1000, Y: g.r.Intn(10)}
	case 3:
		var x interface{}
		switch g.r.Intn(6) {
		case 0:
			x = nil
		case 1:
			x = "s"
		case 2:
			x = float64(g.r.Intn(1000)) / 8
		case 3:
			x = []interface{}{true, "a", float64(2)}
		case 4:
			x = map[string]interface{}{"k": []interface{}{}, "null": nil}
		default:
			x = false
		}
		return "any", &tsAny{V: x}
	default:
		s := string(g.strBytesValid())
		return "string", &s
	}
}

// strBytesValid: string bytes that survive a round trip through a Go string
// field (valid UTF-8).
func (g *gen) strBytesValid() []byte {
	for {
		if b := g.strBytes(); utf8.Valid(b) {
			return b
		}
	}
}

// typedDoc renders a typed series; bad says how many entries get a defect.
func (g *gen) typedDoc(entries int, bad int) (string, []WantItem, []interface{}) {
	var sb strings.Builder
	var items []WantItem
	var vals []interface{}
	badAt := map[int]bool{}
	for len(badAt) < bad && len(badAt) < entries {
		badAt[g.r.Intn(entries)] = true
	}
	for i := 0; i < entries; i++ {
		name, val := g.typedValue()
		bs, err := json.Marshal(val)
		if err != nil {
			panic(err)
		}
		v := vFromJSON(bs)
		kind := "ok"
		if badAt[i] {
			switch k := g.r.Intn(4); {
			case k == 0:
				kind, name = "unknowntype", g.pick("nosuch", "Build", "points", "_")
			case k == 1 && v.K == 'o':
				kind = "unknownfield"
				tgt := v
				for _, m := range v.O {
					if string(m.K) == "opt" && m.V.K == 'o' && g.r.Bool() {
						tgt = m.V
					}
				}
				if name == "any" {
					tgt = v
				}
				tgt.O = append(tgt.O, Member{K: []byte(g.pick("zzz", "Name2", "x1", "")), V: &V{K: 'i', I: big.NewInt(1)}})
			default:
				kind = "mismatch"
				switch name {
				case "build":
					switch g.r.Intn(4) {
					case 0:
						v.O = append(v.O, Member{K: []byte("name"), V: &V{K: 'i', I: big.NewInt(5)}})
					case 1:
						v.O = append(v.O, Member{K: []byte("n"), V: &V{K: 'i', I: new(big.Int).Lsh(big.NewInt(1), 63)}})
					case 2:
						v.O = append(v.O, Member{K: []byte("n"), V: &V{K: 'f', F: "1.5"}})
					default:
						v.O = append(v.O, Member{K: []byte("deps"), V: &V{K: 's', S: []byte("a")}})
					}
				case "point", "t":
					v.O = append(v.O, Member{K: []byte(g.pick("x", "Y")), V: &V{K: 'a'}})
				case "any":
					v = &V{K: 'a'}
				default: // string
					v = &V{K: 'i', I: big.NewInt(7)}
				}
			}
		} else {
			vals = append(vals, val)
		}
		if name == "point" || name == "t" {
			for j := range v.O {
				if g.r.Bool() {
					v.O[j].K = bytes.ToLower(v.O[j].K)
				}
			}
		}
		items = append(items, WantItem{Name: name, Kind: kind})
		tn := name
		if g.r.Intn(4) == 0 {
			tn = g.goString([]byte(name))
		}
		sb.WriteString(g.pick("", "", "// c\n", "\n", "/* c */ ") + tn + g.pick(" ", "  ", "\t", "/**/") + g.render(v) + g.pick("\n", ";", ";\n", "\n\n", " ; "))
	}
	return sb.String(), items, vals
}

func genTyped(b *builder, n int, cuts bool) {
	g := b.g
	for i := 0; i < n; i++ {
		entries := 1 + g.r.Intn(5)
		bad := 0
		if i%3 == 2 {
			bad = 1 + g.r.Intn(2)
		}
		doc, items, vals := g.typedDoc(entries, bad)
		b.add("typed", "tseries", []byte(doc), func(c *Case) {
			c.Known = typedKnown
			c.WantItems = items
			if bad == 0 {
				c.goVal = vals
			}
		})
		if cuts && len(doc) > 0 {
			b.add("typedcut", "tseries", []byte(doc[:g.r.Intn(len(doc))]), func(c *Case) { c.Known = typedKnown })
		}
	}
}

func genMulti(b *builder, n int, cuts bool) {
	g := b.g
	for _, s := range []string{"", "1 2", "1;2", "1\n2\n", "{a:1}{b:2}", "[1][2]", "1;;2", "1 2 }", "a.b c", "a.\nb\n-1", "\"s\"\"t\"", "1 /* c", "1\n\"", "null;true;false;", ";", "1,2", "- 1 - 2"} {
		b.add("multi", "stream", []byte(s), nil)
	}
	for i := 0; i < n; i++ {
		k := g.r.Intn(5)
		var sb strings.Builder
		var want []string
		sb.WriteString(g.pick("", "", "\n", "// c\n", " "))
		for j := 0; j < k; j++ {
			v := g.value(2)
			want = append(want, canonV(v))
			sb.WriteString(g.render(v))
			sep := g.pick("\n", ";", " ", "; ", "\n\n", ";\n", " /* c */ ", "\n// c\n")
			if j == k-1 {
				sep = g.pick("", "\n", ";", " ", ";\n", " // end")
			}
			sb.WriteString(sep)
		}
		doc := sb.String()
		w := strings.Join(want, "#")
		b.add("multi", "stream", []byte(doc), func(c *Case) { c.Want = w; c.Multi = true })
		if cuts && len(doc) > 0 {
			b.add("multicut", "stream", []byte(doc[:g.r.Intn(len(doc))]), nil)
		}
	}
}
