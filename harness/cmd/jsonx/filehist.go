// File histories on ONE path: WriteFile again and again over the same file
// (texts shrinking, growing, of equal length; scalars over objects; empty
// containers), each followed by a byte comparison of the file with Marshal's
// output and by ReadFile; over files that were there before (other modes, a
// longer text that WriteFile did not write), through a symbolic link, onto a
// dangling link; a directory or a missing directory must be an error.
//
// WriteFile is the only entry point of jsonx that creates or opens a file
// for writing.  Fprint into an *os.File the caller opened writes where the
// caller's file offset is and truncates nothing: how that file was opened is
// the caller's business.
package main

import (
	"bytes"
	"encoding/json"
	"fmt"
	"os"
	"path/filepath"
	"strings"

	"shanhu.io/g/jsonx"
)

type FStep struct {
	WErr  string `json:"werr,omitempty"` // WriteFile's error
	Same  bool   `json:"same"`           // the file's bytes are Marshal's output
	Out   []int  `json:"out,omitempty"`  // the file's content (runes)
	Text  string `json:"text,omitempty"` // printable copy
	RErr  string `json:"rerr,omitempty"` // ReadFile's error
	Got   string `json:"got,omitempty"`  // canonical form of what ReadFile returned
	NonPr []int  `json:"nonprint,omitempty"`
}

func runFileHist(c *Case, o *Obs) {
	vs, _ := c.goVal.([]interface{})
	dir, err := os.MkdirTemp("", "jsonxfh")
	if err != nil {
		o.Note = "tempdir: " + err.Error()
		return
	}
	defer os.RemoveAll(dir)
	o.Ok = true
	fn := filepath.Join(dir, "v.jsonx")
	real := fn // where the bytes end up
	switch c.Pre {
	case "mode0600":
		os.WriteFile(fn, []byte("{\n    old: \"a file that was here before, with another mode\",\n}\n"), 0600)
	case "mode0444":
		os.WriteFile(fn, []byte("[\n    1,\n    2,\n    3,\n    4,\n    5,\n    6,\n    7,\n    8,\n]\n"), 0444)
	case "longold":
		os.WriteFile(fn, []byte(strings.Repeat("# not written by WriteFile\n", 40)), 0644)
	case "symlink":
		real = filepath.Join(dir, "target.jsonx")
		os.WriteFile(real, []byte("{\n    old: [\n        1,\n        2,\n        3,\n    ],\n    z: \"zzzzzzzzzzzzzzzzzzzzzzzzz\",\n}\n"), 0644)
		os.Symlink(real, fn)
	case "dangling":
		real = filepath.Join(dir, "target.jsonx")
		os.Symlink(real, fn)
	case "dir":
		os.Mkdir(fn, 0755)
	case "missingdir":
		fn = filepath.Join(dir, "no", "such", "v.jsonx")
		real = fn
	}
	o.FSteps = []FStep{}
	for k, v := range vs {
		st := FStep{}
		want, merr := jsonx.Marshal(v)
		werr := jsonx.WriteFile(fn, v)
		if werr != nil {
			st.WErr = werr.Error()
		}
		if c.Pre == "dir" || c.Pre == "missingdir" {
			if werr == nil && o.Note == "" {
				o.Note = fmt.Sprintf("WriteFile onto a %s returned nil", map[string]string{"dir": "directory", "missingdir": "path in a missing directory"}[c.Pre])
			}
			var r json.RawMessage
			if rerr := jsonx.ReadFile(fn, &r); rerr == nil && o.Note == "" {
				o.Note = "ReadFile of a " + c.Pre + " returned nil"
			}
			o.FSteps = append(o.FSteps, st)
			continue
		}
		if (merr == nil) != (werr == nil) && o.Note == "" {
			o.Note = fmt.Sprintf("step %d: Marshal error %v, WriteFile error %v", k, merr, werr)
		}
		if merr != nil {
			o.FSteps = append(o.FSteps, st)
			continue
		}
		got, _ := os.ReadFile(real)
		st.Same = bytes.Equal(got, want)
		st.Out = runesOf(got)
		st.Text = printable(got)
		st.NonPr = nonPrintTree(v)
		if c.Pre == "symlink" || c.Pre == "dangling" {
			if fi, err := os.Lstat(fn); (err != nil || fi.Mode()&os.ModeSymlink == 0) && o.Note == "" {
				o.Note = fmt.Sprintf("step %d: the path is no longer the symbolic link it was", k)
			}
		}
		var r json.RawMessage
		if rerr := jsonx.ReadFile(fn, &r); rerr != nil {
			st.RErr = rerr.Error()
		} else if cj, err := canonJSON([]byte(r)); err == nil {
			st.Got = cj
		} else {
			st.Got = "E(" + err.Error() + ")"
		}
		o.FSteps = append(o.FSteps, st)
	}
}

// fileHistCorpus: texts that shrink, grow, keep their length; scalars over
// objects; empty containers.
func fileHistCorpus() [][]interface{} {
	big := map[string]interface{}{"name": "a long record", "deps": []interface{}{"a", "b", "c"}, "n": 123456789, "nested": map[string]interface{}{"k": []interface{}{1.5, nil, true}}}
	return [][]interface{}{
		{big, 1, big, "s", []interface{}{}, big, map[string]interface{}{}, nil},
		{[]interface{}{1, 2, 3, 4, 5, 6}, []interface{}{1, 2, 3}, []interface{}{1}, []interface{}{}},
		{"a rather long string value, longer than the next", "short", "", "x"},
		{123456789, 12345678, 1234567, 7, 1e21, 0},
		{map[string]interface{}{"a": 1, "b": 2}, map[string]interface{}{"a": 1}, map[string]interface{}{"a": 12}, map[string]interface{}{"b": 12}},
		{true, false, nil, true}, // "true\n" "false\n" "null\n": one byte longer, one shorter
		{10, 11, 12},             // equal length
		{big, map[string]interface{}{"x": 1}, big},
		{1, big, 2},
		{[]interface{}{[]interface{}{[]interface{}{"deep"}}}, []interface{}{"flat"}, 3},
		{"é中😀 non-ASCII, then ASCII only", "ascii", "é"},
	}
}

func genFileHist(b *builder, n int) {
	g := b.g
	add := func(pre string, vs []interface{}) {
		var trees []interface{}
		var wants []string
		for _, v := range vs {
			t, w, err := pvTree(v)
			if err != nil {
				return
			}
			trees = append(trees, t)
			wants = append(wants, w)
		}
		js, _ := json.Marshal(vs)
		b.add("filehist", "fhist", js, func(c *Case) { c.goVal = vs; c.PVs = trees; c.Wants = wants; c.Pre = pre })
	}
	pres := []string{"", "mode0600", "mode0444", "longold", "symlink", "dangling"}
	for i, h := range fileHistCorpus() {
		add("", h)
		add(pres[1+i%5], h)
	}
	add("dir", []interface{}{1, "x"})
	add("missingdir", []interface{}{1, "x"})
	for i := 0; i < n; i++ {
		var vs []interface{}
		for k := 2 + g.r.Intn(4); k > 0; k-- {
			switch g.r.Intn(5) {
			case 0:
				vs = append(vs, g.goValue(0))
			case 1:
				vs = append(vs, []interface{}{})
			default:
				vs = append(vs, g.goValue(2))
			}
		}
		add(pres[g.r.Intn(len(pres))], vs)
	}
}
