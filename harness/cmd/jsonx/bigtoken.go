// Single tokens of the sizes the code names.  The translator lists every
// integer of at least 256 that lexing/, jsonx/ and strtoken/ mention
// (gen_int_literals); for each such l, and for the fixed sizes 65536, 1 MiB-1,
// 1 MiB, 1 MiB+1 and 3 MiB, a string, a quoted key, a bare key, a []byte
// (one base64 string) and a number whose token has about that many bytes go
// through Marshal -> Unmarshal and through WriteFile -> ReadFile.  The values
// are far beyond what the Coq evaluation can take: implementation oracle
// only; only sizes are recorded, never the text.
package main

import (
	"bytes"
	"encoding/json"
	"fmt"
	"os"
	"reflect"
	"strconv"
	"strings"

	"shanhu.io/g/jsonx"
)

// sizeList: set from -sizes (the check passes gen_int_literals).
var sizeList []int

var fixedSizes = []int{65536, 1<<20 - 1, 1 << 20, 1<<20 + 1, 3 << 20}

type btBytes struct {
	B []byte `json:"b"`
}

func bigTokenValue(kind string, size int) (v interface{}, mk func() interface{}) {
	switch kind {
	case "string":
		s := strings.Repeat("a", size)
		return s, func() interface{} { return new(string) }
	case "escaped": // every rune printed as an escape: the token is much longer than the string
		s := strings.Repeat("\x01", size/4)
		return s, func() interface{} { return new(string) }
	case "key":
		return map[string]int{strings.Repeat("k", size-1) + " ": 1}, func() interface{} { return new(map[string]int) }
	case "barekey":
		return map[string]int{strings.Repeat("k", size): 1}, func() interface{} { return new(map[string]int) }
	case "bytes":
		return btBytes{B: bytes.Repeat([]byte{0xA7}, size/4*3)}, func() interface{} { return new(btBytes) }
	case "number":
		return json.Number("1" + strings.Repeat("0", size-1)), func() interface{} { return new(json.Number) }
	}
	return nil, nil
}

func runBigToken(c *Case, o *Obs) {
	kind, size := c.Pre, c.Cut
	v, mk := bigTokenValue(kind, size)
	if v == nil {
		o.Note = "unknown kind"
		return
	}
	what := fmt.Sprintf("a %s whose token has about %d bytes", kind, size)
	bs, err := jsonx.Marshal(v)
	if err != nil {
		o.Note = what + ": Marshal failed: " + err.Error()
		return
	}
	o.N = len(bs)
	p := mk()
	if err := jsonx.Unmarshal(bs, p); err != nil {
		o.Note = fmt.Sprintf("%s: Unmarshal rejects the %d bytes Marshal printed: %v", what, len(bs), err)
		return
	}
	if !reflect.DeepEqual(reflect.ValueOf(p).Elem().Interface(), v) {
		o.Note = what + ": the value does not come back from Marshal -> Unmarshal"
		return
	}
	dir, err := os.MkdirTemp("", "jsonxbt")
	if err != nil {
		o.Note = "tempdir: " + err.Error()
		return
	}
	defer os.RemoveAll(dir)
	fn := dir + "/v.jsonx"
	if err := jsonx.WriteFile(fn, v); err != nil {
		o.Note = what + ": WriteFile failed: " + err.Error()
		return
	}
	q := mk()
	if err := jsonx.ReadFile(fn, q); err != nil {
		o.Note = fmt.Sprintf("%s: ReadFile rejects the file WriteFile wrote: %v", what, err)
		return
	}
	if !reflect.DeepEqual(reflect.ValueOf(q).Elem().Interface(), v) {
		o.Note = what + ": the value does not come back from WriteFile -> ReadFile"
		return
	}
	o.Ok = true
}

func genBigTokens(b *builder) {
	seen := map[string]bool{}
	add := func(kind string, size int) {
		if size < 16 || size > 4<<20 {
			return
		}
		if kind == "number" && size > 1<<17 {
			return // the conversion of longer integer literals (math/big) takes seconds
		}
		key := kind + strconv.Itoa(size)
		if seen[key] {
			return
		}
		seen[key] = true
		b.add("bigtoken", "bigrt", []byte(fmt.Sprintf("%s %d", kind, size)), func(c *Case) { c.Pre = kind; c.Cut = size; c.PV = true })
	}
	kinds := []string{"string", "escaped", "key", "barekey", "bytes", "number"}
	for _, l := range sizeList {
		// both "the token has l bytes" and "the value has l bytes": the quotes make two bytes
		for _, s := range []int{l - 3, l - 2, l - 1, l, l + 1, 2*l + 1} {
			for _, k := range kinds {
				add(k, s)
			}
		}
	}
	for _, s := range fixedSizes {
		for _, k := range kinds {
			add(k, s)
		}
	}
}
