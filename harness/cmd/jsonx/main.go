// Command jsonx runs the real lexing / jsonx / strtoken code of the repository
// under test on generated inputs and prints what it observed, one JSON line
// per case.  Modes c07, c08, c09 select the streams of the three properties.
//
// Every case runs in a child process with a per-case deadline, so that a
// parse that never returns (or exhausts memory, or panics in another
// goroutine) is an observation of that case, not a failure of the harness.
//
// USAGE-PATTERN AUDIT (round 3) - what a caller can do with the API, and which
// op / stream does it.  [new] = added by the audit (usage.go).
//
// Entry points                          exercised by
//
//	jsonx.Unmarshal(bs, v)              op unmarshal into *RawMessage and *interface{} (corpus manyerr docs prefix tokdel
//	                                    tokins seq1-3 malformed valid cut render plainjson trailing printed words big);
//	                                    op gort into the Go type the value came from; op targets [new]: nil, not a
//	                                    pointer, nil pointer, *int *int64 *uint64 *float64 *string *bool *json.Number
//	                                    *[]interface{} *[]string *map *struct, a map that already holds a key - each
//	                                    against json.Unmarshal of ToJSON's output; op reuse [new]: the input slice is
//	                                    not written to, the stored value of call 1 survives call 2, 8 goroutines
//	jsonx.ReadFile / ReadFileMaybeJSON  op file: C08 files (14 documents and their halves), C07 files (every 8th value),
//	/ ReadSeriesFile / WriteFile        C09 files + every 8th trailing-content document [new]; missing file [new];
//	/ Fprint / Sprint / Print           the file name in error positions [new]; MaybeJSON falls back exactly when
//	                                    encoding/json accepts, with that value [new]; all printers agree with Marshal
//	jsonx.Marshal                       op print (value, number, string, keys, runes, govalue, smallnum [new]: every
//	                                    integer -130..130, 10^k and neighbours in every Go number type, bigvalue [new]);
//	                                    op reuse/reuse7 [new]: bytes of call 1 intact after call 2, same text twice,
//	                                    8 goroutines, Fprint into a writer failing at Write k (for good / once),
//	                                    WriteFile into a missing directory
//	jsonx.ToJSON                        op tojson (all C09 streams; numlex [new]: every string <= 3 over 0179xeE.-+af,
//	                                    <= 4 over 01x.e-; words [new]: keyword prefixes as value / key / list / dotted /
//	                                    type name; escapes [new]: digit counts and value bounds of every escape kind;
//	                                    big [new]); op reuse [new]
//	NewDecoder / NewFileDecoder +       op stream (for More { Decode }), series, tseries (one call per Decoder);
//	More / Decode / DecodeSeries        op script [new]: ONE Decoder, any sequence of More / Decode / DecodeSeries -
//	                                    Decode without More, More repeated, calls after a call that failed, a series
//	                                    after a header value, a series twice, Decode after a series; intended values
//	                                    for valid documents, the proved model (Jsonx/Script.v) for everything
//	strtoken.Parse                      op shell (shell manyerr; escapes, shell-eol, shell-short [new]: every string
//	                                    <= 4 over a " \ space LF x 4, lines ending inside a quote or an escape); reuse
//	lexing.NewCommentLexer NewWordLexer op lexfn [new]: exported lexers no entry point above reaches (shared helpers
//	NewLexer (no LexFunc) NewTokener    lexBlockComment / LexString / LexNumber / LexIdent with other white-space
//	LexString with quote '              functions and quotes): return, EOF last and for ever, tokens spell the input
//
// Values the caller supplies            legal shapes                                    exercised by
//
//	io.Reader of a Decoder              (n,nil) (n,EOF) (0,EOF) (0,nil) (n,err) (0,err); op rstream / rseries [new] modes 1 one
//	                                    any chunking, a rune split across reads         byte, 2 chunks 1-7, 3 data with EOF,
//	                                                                                    4 empty reads, 5 4096-k, 6/7 fails
//	                                                                                    after cut bytes; before: bytes.Reader
//	io.Writer of Fprint                 error at Write k, for good or once              reuse7 [new]; short writes without error
//	                                                                                    break io.Writer's contract: not done
//	TypeMaker                           nil; pointer to a fresh value; NOT a pointer;   series tseries; makers [new]: byval
//	                                    typed nil pointer; nil / non-nil map by value;  nilp nilmap valmap filled chan.  A maker
//	                                    pointer to a filled value; *chan                that panics or hands out one pointer
//	                                                                                    twice is the caller's: not done
//	v of Unmarshal / Decode             see targets                                     targets [new], gort
//	v of Marshal                        everything json.Marshal takes or refuses        gort, value
//
// State                                 lifetime          exercised by
//
//	parser token, parser ErrorList      per Decoder;      script [new] (never reset between calls: an error is sticky,
//	(errs <= 20, inJail), lexer         never reset       except the encoder's own "invalid integer" which is per call),
//	ErrorList (<= 20), read error x.e,                    manyerr 19/20/21/22/40 errors of every kind, two errors per
//	semiInserter.save / insertSemi                        entry at 9/10/11 entries for DecodeSeries' own list [new]
//	bufio.Reader (4096 bytes)           per Decoder       big / reader [new]: every token kind and a 4-byte rune across
//	                                                      byte 4096; tokens longer than the buffer
//	Recorder.tokens                     per Decoder       grows with the input, never read
//	bytes.Buffer of Marshal / ToJSON    per call          hold [new]: EVERY []byte / string / decoded value / file an op gets
//	                                                      back is kept (the slice itself) and compared again by the next
//	                                                      "hold" case, 32 cases later; inputs are scribbled over after the
//	                                                      call, results after the check; reuse [new]: two to five values /
//	                                                      documents, Decoders alive together with interleaved calls
//	keywords, tokTypes                  per process, r/o  reuse [new] (concurrent calls)
//	files                               on disk           op file (a fresh path per case); op fhist [new]: a HISTORY of
//	                                                      WriteFile calls on ONE path (texts shrinking / growing / equal,
//	                                                      scalars over objects, empty containers), the file compared with
//	                                                      Marshal's output and read back after every call; over a file of
//	                                                      another mode, a longer foreign file, a symlink, a dangling link;
//	                                                      a directory / missing directory must fail.  WriteFile is the only
//	                                                      entry point that opens a file for writing; Fprint into an *os.File
//	                                                      the caller opened writes at the caller's offset and truncates
//	                                                      nothing - how that file was opened is the caller's business
//
// Thresholds in the code: 20 (three error lists) manyerr; escape digit counts 3/2/4/8, bounds 0377 / 0x10FFFF /
// D800-DFFF escapes [new]; '0' 'x' and exponent signs of LexNumber numlex [new]; isIdent (digit not first) keys;
// float formatting regimes number, smallnum [new]; 4096 big [new]; every integer >= 256 the packages name
// (translator: gen_int_literals) and 64 KiB / 1 MiB-1 / 1 MiB / 1 MiB+1 / 3 MiB as the size of ONE token: bigtoken [new].
// Not exercised: ErrorList.Max changed by a caller, Keyworder without a keyword set (jsonx never does either).
package main

import (
	"bufio"
	"bytes"
	"encoding/hex"
	"encoding/json"
	"flag"
	"fmt"
	"io"
	"math"
	"math/big"
	"os"
	"os/exec"
	"sort"
	"strconv"
	"strings"
	"sync/atomic"
	"time"
	"unicode"
	"unicode/utf8"

	"shanhu.io/g/jsonx"
	"shanhu.io/g/lexing"
	"shanhu.io/g/strtoken"
	"verifharness/hx"
)

// ---------------------------------------------------------------- cases

type Tok struct {
	T string `json:"t"`
	L []int  `json:"l"` // literal as runes
}

type FloatEnt struct {
	L  string `json:"l"`
	Ok bool   `json:"ok"`
	J  string `json:"j,omitempty"`
}

type Obs struct {
	Crash    string      `json:"crash,omitempty"`
	Toks     []Tok       `json:"toks,omitempty"`
	Errs     []string    `json:"errs,omitempty"`
	Ok       bool        `json:"ok"`
	Out      []int       `json:"out,omitempty"`    // output text as runes
	OutHex   string      `json:"outhex,omitempty"` // output bytes when not valid UTF-8
	Res      string      `json:"res,omitempty"`    // unmarshal: ok | err | json | more
	First    string      `json:"first,omitempty"`
	Items    [][2][]int  `json:"items,omitempty"`   // series: (type name bytes, json runes)
	Rejects  [][2][]int  `json:"rejects,omitempty"` // tseries: entries whose JSON the strict decoding rejects
	Vals     [][]int     `json:"vals,omitempty"`    // stream: the JSON of the values decoded one after the other
	Fin      int         `json:"fin,omitempty"`     // stream: 0 More() false, 1 Decode errors, 2 json.Unmarshal error
	Deep     bool        `json:"deep,omitempty"`    // gort: jsonx round trip DeepEqual encoding/json's round trip
	Ident    bool        `json:"ident,omitempty"`   // gort: the value came back DeepEqual to the original
	JsonEq   bool        `json:"jsoneq,omitempty"`  // gort: Got / Want2 are the canonical JSON of the two results
	Want2    string      `json:"want2,omitempty"`
	Canon    *bool       `json:"canon,omitempty"` // gort: every float literal json.Marshal wrote is canonical
	N        int         `json:"n,omitempty"`     // runes: code points checked
	Pos      [][2]int    `json:"pos,omitempty"`   // rawpos: (line, column) of every token, EOF last
	EPos     [][2]int    `json:"epos,omitempty"`  // rawpos: positions of the lexer's errors
	Strs     [][]int     `json:"strs,omitempty"`  // shell tokens (bytes)
	Floats   []FloatEnt  `json:"floats,omitempty"`
	Valid    *bool       `json:"valid,omitempty"` // json.Valid(output)
	Got      string      `json:"got,omitempty"`   // canonical form of the decoded output
	Tree     interface{} `json:"tree,omitempty"`  // jsonparse: decoded tree
	NonPr    []int       `json:"nonprint,omitempty"`
	Text     string      `json:"text,omitempty"` // printable copy of the output for reports
	Note     string      `json:"note,omitempty"`
	Order    string      `json:"order,omitempty"`    // keys and scalars of the emitted JSON in document order
	FSteps   []FStep     `json:"fsteps,omitempty"`   // fhist: every WriteFile / ReadFile step on the one path
	Steps    []Step      `json:"steps,omitempty"`    // script: what every call on the long-lived Decoder returned
	Unstable []Unstable  `json:"unstable,omitempty"` // hold: results that changed after they were returned (Fin = how many, N = how many were held)
}

type Case struct {
	I         int           `json:"i"`
	Stream    string        `json:"stream"`
	Op        string        `json:"op"`
	In        string        `json:"in"`             // input bytes, hex
	Src       string        `json:"src,omitempty"`  // printable copy of the input
	Want      string        `json:"want,omitempty"` // canonical intended value
	Known     []string      `json:"known,omitempty"`
	Reject    bool          `json:"reject,omitempty"`    // the input must be rejected
	Plain     bool          `json:"plain,omitempty"`     // the input is a valid RFC 8259 text
	Reasons   []string      `json:"reasons,omitempty"`   // documented reasons for JSONx to reject it
	PV        interface{}   `json:"pv,omitempty"`        // print: the value tree
	WantItems []WantItem    `json:"wantitems,omitempty"` // tseries: the intended entries
	Multi     bool          `json:"multi,omitempty"`     // stream: Want lists the intended values
	Loose     bool          `json:"loose,omitempty"`     // gort: the type keeps JSON text as text; JSON equality expected
	Order     string        `json:"order,omitempty"`     // tojson / unmarshal / series: keys and scalars in source order
	Pre       string        `json:"pre,omitempty"`       // fhist: what is at the path before the first WriteFile
	PVs       []interface{} `json:"pvs,omitempty"`       // fhist: the value trees, one per step
	Wants     []string      `json:"wants,omitempty"`     // fhist: canonical intended value per step
	Script    string        `json:"script,omitempty"`    // script: the calls, M(ore) D(ecode) S(eries)
	WantSteps []string      `json:"wantsteps,omitempty"` // script: intended result per call ("" none, "!" no value)
	RMode     int           `json:"rmode,omitempty"`     // rstream / rseries: the shape of the io.Reader
	Cut       int           `json:"cut,omitempty"`       // rstream / rseries: bytes delivered before the reader fails
	Obs       *Obs          `json:"obs,omitempty"`

	goVal interface{} // print: the Go value (not serialised)
}

func (c *Case) input() []byte {
	b, _ := hex.DecodeString(c.In)
	return b
}

func printable(b []byte) string {
	if len(b) > 200 {
		return strconv.QuoteToASCII(string(b[:200])) + "..."
	}
	return strconv.QuoteToASCII(string(b))
}

func runesOf(b []byte) []int {
	rs := []rune(string(b))
	out := make([]int, len(rs))
	for i, r := range rs {
		out[i] = int(r)
	}
	return out
}

func bytesOf(b []byte) []int {
	out := make([]int, len(b))
	for i, x := range b {
		out[i] = int(x)
	}
	return out
}

// ---------------------------------------------------------------- errors

func errName(e *lexing.Error) string {
	if e == nil {
		return "nil"
	}
	if e.Code != "" {
		return e.Code
	}
	if e.Err == errInjected {
		return "reader"
	}
	m := ""
	if e.Err != nil {
		m = e.Err.Error()
	}
	switch {
	case strings.HasPrefix(m, "escape not terminated"):
		return "escNotTerm"
	case strings.HasPrefix(m, "illegal escape char"):
		return "illegalEscChar"
	case strings.HasPrefix(m, "invalid unicode code point"):
		return "invalidCodePoint"
	case strings.HasPrefix(m, "illegal char"):
		return "shellIllegalChar"
	case e.Pos == nil:
		switch e.Err.(type) {
		case *json.SyntaxError, *json.UnmarshalTypeError, *json.InvalidUnmarshalError:
			return "jsonerr"
		}
		if strings.HasPrefix(m, "unexpected end of JSON") || strings.HasPrefix(m, "json:") {
			return "jsonerr"
		}
		return "encode"
	}
	return "other:" + m
}

func errNames(es []*lexing.Error) []string {
	out := []string{}
	for _, e := range es {
		out = append(out, errName(e))
	}
	return out
}

func toks(ts []*lexing.Token) []Tok {
	out := make([]Tok, len(ts))
	for i, t := range ts {
		out[i] = Tok{T: jsonx.VerifTokenTypeName(t.Type), L: runesOf([]byte(t.Lit))}
	}
	return out
}

// floatTable runs the real lexer and, for every float token, records what
// strconv.ParseFloat then json.Marshal give.
func floatTable(in []byte) []FloatEnt {
	ts, _ := jsonx.VerifRawTokens(in)
	seen := map[string]bool{}
	var out []FloatEnt
	for _, t := range ts {
		if jsonx.VerifTokenTypeName(t.Type) != "float" || seen[t.Lit] {
			continue
		}
		seen[t.Lit] = true
		f, err := strconv.ParseFloat(t.Lit, 64)
		if err != nil {
			out = append(out, FloatEnt{L: t.Lit})
			continue
		}
		bs, err := json.Marshal(f)
		if err != nil {
			out = append(out, FloatEnt{L: t.Lit})
			continue
		}
		out = append(out, FloatEnt{L: t.Lit, Ok: true, J: string(bs)})
	}
	return out
}

// ---------------------------------------------------------------- canonical values

// canonNum: a number is written n<exact>|<bits>: <exact> is the decimal value
// when the text is an integer literal (else empty), <bits> the float64 the
// text reads as.  Two numbers agree when the intended one has an exact part
// and the exact parts are equal, or it has none and the bits are equal
// (checks/jsonx_common.py same_value).
func canonNum(text string) string {
	t := text
	neg := false
	if strings.HasPrefix(t, "-") {
		neg = true
		t = t[1:]
	}
	isInt := t != ""
	for _, c := range t {
		if c < '0' || c > '9' {
			isInt = false
		}
	}
	exact := ""
	if isInt {
		n, _ := new(big.Int).SetString(t, 10)
		if neg {
			n.Neg(n)
		}
		exact = n.String()
	}
	f, err := strconv.ParseFloat(text, 64)
	if err != nil {
		return "n" + exact + "|inf"
	}
	return "n" + exact + "|" + floatBits(f)
}

func floatBits(f float64) string {
	if f == 0 {
		f = 0 // -0 and 0 are the same JSON number
	}
	return strconv.FormatUint(math.Float64bits(f), 16)
}

func canonFloat(f float64) string { return "n|" + floatBits(f) }

func memberKey(m string) string { return m[:strings.Index(m, "]:")+1] }

func canonStr(s string) string {
	var b strings.Builder
	b.WriteString("s[")
	for i, r := range []rune(s) {
		if i > 0 {
			b.WriteByte(',')
		}
		b.WriteString(strconv.Itoa(int(r)))
	}
	b.WriteByte(']')
	return b.String()
}

// canonJSON reads a JSON text with encoding/json's tokenizer (numbers kept
// as text, member order and duplicates kept).
func canonJSON(text []byte) (string, error) {
	dec := json.NewDecoder(bytes.NewReader(text))
	dec.UseNumber()
	var b strings.Builder
	if err := canonDec(dec, &b); err != nil {
		return "", err
	}
	if _, err := dec.Token(); err == nil {
		return "", fmt.Errorf("trailing data")
	}
	return b.String(), nil
}

func canonDec(dec *json.Decoder, b *strings.Builder) error {
	t, err := dec.Token()
	if err != nil {
		return err
	}
	switch v := t.(type) {
	case nil:
		b.WriteString("null")
	case bool:
		b.WriteString(strconv.FormatBool(v))
	case json.Number:
		b.WriteString(canonNum(string(v)))
	case string:
		b.WriteString(canonStr(v))
	case json.Delim:
		switch v {
		case '[':
			b.WriteByte('[')
			for i := 0; dec.More(); i++ {
				if i > 0 {
					b.WriteByte(';')
				}
				if err := canonDec(dec, b); err != nil {
					return err
				}
			}
			if _, err := dec.Token(); err != nil {
				return err
			}
			b.WriteByte(']')
		case '{':
			b.WriteByte('{')
			var ms []string
			for dec.More() {
				k, err := dec.Token()
				if err != nil {
					return err
				}
				ks, _ := k.(string)
				var mb strings.Builder
				mb.WriteString(canonStr(ks))
				mb.WriteByte(':')
				if err := canonDec(dec, &mb); err != nil {
					return err
				}
				ms = append(ms, mb.String())
			}
			if _, err := dec.Token(); err != nil {
				return err
			}
			sort.SliceStable(ms, func(i, j int) bool { return memberKey(ms[i]) < memberKey(ms[j]) })
			b.WriteString(strings.Join(ms, ";"))
			b.WriteByte('}')
		}
	}
	return nil
}

// treeJSON: the same walk, producing a tree for the Coq reference parser.
func treeJSON(text []byte) (interface{}, bool) {
	if !json.Valid(text) {
		return nil, false
	}
	dec := json.NewDecoder(bytes.NewReader(text))
	dec.UseNumber()
	t, err := treeDec(dec)
	if err != nil {
		return nil, false
	}
	return t, true
}

func treeDec(dec *json.Decoder) (interface{}, error) {
	t, err := dec.Token()
	if err != nil {
		return nil, err
	}
	switch v := t.(type) {
	case nil:
		return map[string]interface{}{"k": "null"}, nil
	case bool:
		return map[string]interface{}{"k": "bool", "b": v}, nil
	case json.Number:
		return map[string]interface{}{"k": "num", "t": string(v)}, nil
	case string:
		return map[string]interface{}{"k": "str", "r": runesOf([]byte(v))}, nil
	case json.Delim:
		if v == '[' {
			items := []interface{}{}
			for dec.More() {
				x, err := treeDec(dec)
				if err != nil {
					return nil, err
				}
				items = append(items, x)
			}
			if _, err := dec.Token(); err != nil {
				return nil, err
			}
			return map[string]interface{}{"k": "arr", "a": items}, nil
		}
		ms := []interface{}{}
		for dec.More() {
			k, err := dec.Token()
			if err != nil {
				return nil, err
			}
			ks, _ := k.(string)
			x, err := treeDec(dec)
			if err != nil {
				return nil, err
			}
			ms = append(ms, []interface{}{runesOf([]byte(ks)), x})
		}
		if _, err := dec.Token(); err != nil {
			return nil, err
		}
		return map[string]interface{}{"k": "obj", "m": ms}, nil
	}
	return nil, fmt.Errorf("unexpected token")
}

// ---------------------------------------------------------------- running a case

func setOut(o *Obs, out []byte) {
	o.Text = printable(out)
	if utf8.Valid(out) {
		o.Out = runesOf(out)
		if o.Out == nil {
			o.Out = []int{}
		}
	} else {
		o.OutHex = hex.EncodeToString(out)
	}
	v := json.Valid(out)
	o.Valid = &v
	if v && len(out) < 1<<16 {
		o.Order = keyOrderJSON(out)
	}
	if v {
		if c, err := canonJSON(out); err == nil {
			o.Got = c
		} else {
			o.Got = "E(" + err.Error() + ")"
		}
	}
}

func knownMaker(known []string) jsonx.TypeMaker {
	return func(t string) interface{} {
		for _, k := range known {
			if k == t {
				return new(json.RawMessage)
			}
		}
		return nil
	}
}

func runCase(c *Case) {
	o := &Obs{}
	c.Obs = o
	defer func() {
		if e := recover(); e != nil {
			o.Crash = fmt.Sprintf("panic: %v", e)
		}
	}()
	in := c.input()
	defer scribbleInput(in) // the input is the caller's again once the call has returned
	switch c.Op {
	case "hold":
		runHold(o)
	case "utf8":
		o.Out = runesOf(in)
		o.Ok = true
	case "raw":
		ts, es := jsonx.VerifRawTokens(in)
		o.Toks, o.Errs, o.Ok = toks(ts), errNames(es), true
		o.Note = spelled(in, ts, lexing.IsWhite)
	case "rawpos":
		runRawPos(o, in)
	case "filtered":
		ts, es := jsonx.VerifTokens(in)
		o.Toks, o.Errs, o.Ok = toks(ts), errNames(es), true
	case "ptokens":
		ts, es := jsonx.VerifParserTokens(in)
		o.Toks, o.Errs, o.Ok = toks(ts), errNames(es), true
	case "tojson":
		o.Floats = floatTable(in)
		out, es := jsonx.ToJSON(in)
		o.Errs = errNames(es)
		if es == nil {
			o.Ok = true
			if out == nil {
				o.Note = "nil output with nil errors"
			}
			setOut(o, out)
			holdBytes("the bytes ToJSON returned", out)
		} else if out != nil {
			o.Note = "output together with errors"
		}
	case "unmarshal":
		o.Floats = floatTable(in)
		var raw json.RawMessage
		err := jsonx.Unmarshal(in, &raw)
		switch e := err.(type) {
		case nil:
			o.Ok, o.Res = true, "ok"
			setOut(o, []byte(raw))
			holdBytes("the RawMessage Unmarshal filled", []byte(raw))
			v := new(interface{})
			if err2 := jsonx.Unmarshal(in, v); err2 != nil {
				o.Note = "into interface{}: " + err2.Error()
			} else {
				holdValue("the value Unmarshal stored", v)
			}
		case *lexing.Error:
			o.Res, o.First = "err", errName(e)
			if o.First == "jsonerr" {
				o.Res, o.Note = "json", e.Error()
			}
		default:
			if strings.Contains(err.Error(), "expect EOF, got more") {
				o.Res = "more"
			} else {
				o.Res = "json"
				o.Note = err.Error()
			}
		}
	case "series":
		o.Floats = floatTable(in)
		dec := jsonx.NewDecoder(bytes.NewReader(in))
		typed, es := dec.DecodeSeries(knownMaker(c.Known))
		o.Errs = errNames(es)
		if es == nil {
			o.Ok = true
			o.Items = [][2][]int{}
			for _, t := range typed {
				raw := t.V.(*json.RawMessage)
				o.Items = append(o.Items, [2][]int{bytesOf([]byte(t.Type)), runesOf([]byte(*raw))})
				holdBytes("an entry DecodeSeries returned", []byte(*raw))
				holdString("a type name DecodeSeries returned", t.Type)
				if c.Order != "" && len(typed) == 1 {
					o.Order = keyOrderJSON([]byte(*raw))
				}
			}
		} else if typed != nil {
			o.Note = "result together with errors"
		}
	case "gort":
		runGoRT(c, o)
	case "runes":
		runRunes(o, in)
	case "tseries":
		runTyped(c, o, in)
	case "stream":
		runStream(o, in)
	case "script":
		runScript(c, o, in)
	case "rstream", "rseries":
		runReader(c, o, in)
	case "reuse":
		runReuse(c, o)
	case "targets":
		runTargets(o, in)
	case "lexfn":
		runLexFn(c, o, in)
	case "fhist":
		runFileHist(c, o)
	case "bigrt":
		runBigToken(c, o)
	case "deep":
		runDeep(c, o)
	case "bigfile":
		runBigFile(c, o)
	case "reread":
		runReread(c, o)
	case "shell":
		ss, es := strtoken.Parse(string(in))
		o.Errs = errNames(es)
		if es == nil {
			o.Ok = true
			o.Strs = [][]int{}
			for _, s := range ss {
				o.Strs = append(o.Strs, bytesOf([]byte(s)))
				holdString("a token strtoken.Parse returned", s)
			}
		} else if ss != nil {
			o.Note = "result together with errors"
		}
	case "unquote":
		s, err := strconv.Unquote(string(in))
		if err == nil {
			o.Ok = true
			o.Out = bytesOf([]byte(s))
			if o.Out == nil {
				o.Out = []int{}
			}
		}
	case "jsonquote":
		bs, err := json.Marshal(string(in))
		if err == nil {
			o.Ok = true
			o.Out = runesOf(bs)
		}
	case "jsonparse":
		t, ok := treeJSON(in)
		o.Ok = ok
		o.Tree = t
	case "intlit":
		n, ok := new(big.Int).SetString(string(in), 0)
		if ok {
			o.Ok = true
			o.Out = runesOf([]byte(n.String()))
		}
	case "goquote":
		o.Ok = true
		o.Out = runesOf([]byte(strconv.Quote(string(in))))
		o.NonPr = nonPrint(string(in))
	case "file":
		// the file-level entry points must behave as the in-memory ones
		dir, err := os.MkdirTemp("", "jsonxh")
		if err != nil {
			o.Note = "tempdir: " + err.Error()
			return
		}
		o.Ok = true
		var notes []string
		fn := dir + "/v.jsonx"
		defer holdFile("the file of this case", fn) // removed by the next hold case
		if c.goVal != nil || c.PV != nil {
			want, err1 := jsonx.Marshal(c.goVal)
			err2 := jsonx.WriteFile(fn, c.goVal)
			got, _ := os.ReadFile(fn)
			if (err1 == nil) != (err2 == nil) || (err1 == nil && !bytes.Equal(want, got)) {
				notes = append(notes, "WriteFile differs from Marshal")
			}
			var sb bytes.Buffer
			if err3 := jsonx.Fprint(&sb, c.goVal); (err3 == nil) != (err1 == nil) || (err1 == nil && !bytes.Equal(sb.Bytes(), want)) {
				notes = append(notes, "Fprint differs from Marshal")
			}
			s, err4 := jsonx.Sprint(c.goVal)
			if (err4 == nil) != (err1 == nil) || (err1 == nil && s != string(want)) {
				notes = append(notes, "Sprint differs from Marshal")
			}
			holdBytes("the bytes Marshal returned", want)
			holdBytes("the bytes Fprint wrote into the caller's buffer", sb.Bytes())
			holdString("the string Sprint returned", s)
			if pb, err5 := capturePrint(c.goVal); (err5 == nil) != (err1 == nil) || (err1 == nil && !bytes.Equal(pb, want)) {
				notes = append(notes, "Print (standard output) differs from Marshal")
			}
		} else {
			os.WriteFile(fn, in, 0644)
		}
		data, _ := os.ReadFile(fn)
		var r1, r2, r3 json.RawMessage
		e1 := jsonx.Unmarshal(data, &r1)
		e2 := jsonx.ReadFile(fn, &r2)
		holdBytes("the RawMessage ReadFile filled", []byte(r2))
		if (e1 == nil) != (e2 == nil) || !bytes.Equal(r1, r2) {
			notes = append(notes, "ReadFile differs from Unmarshal")
		}
		e3 := jsonx.ReadFileMaybeJSON(fn, &r3)
		if e1 == nil && (e3 != nil || !bytes.Equal(r1, r3)) {
			notes = append(notes, "ReadFileMaybeJSON differs from Unmarshal on accepted input")
		}
		if e1 != nil {
			// what JSONx rejects is accepted exactly when it is plain JSON, with that value
			var rj json.RawMessage
			ej := json.Unmarshal(data, &rj)
			if (ej == nil) != (e3 == nil) {
				notes = append(notes, fmt.Sprintf("ReadFileMaybeJSON: JSONx rejects the file, encoding/json says %v, the call returned %v", ej, e3))
			} else if ej == nil && !bytes.Equal(rj, r3) {
				notes = append(notes, "ReadFileMaybeJSON: the value is not the one encoding/json reads")
			}
		}
		// errors of the file-level entry points name the file, those of the in-memory ones no file
		if le, ok := e2.(*lexing.Error); ok && le.Pos != nil && le.Pos.File != fn {
			notes = append(notes, "ReadFile: the error position names "+le.Pos.File)
		}
		if le, ok := e1.(*lexing.Error); ok && le.Pos != nil && le.Pos.File != "" {
			notes = append(notes, "Unmarshal: the error position names a file")
		}
		if e := jsonx.ReadFile(dir+"/missing.jsonx", &r2); e == nil {
			notes = append(notes, "ReadFile of a missing file returned nil")
		}
		if _, es := jsonx.ReadSeriesFile(dir+"/missing.jsonx", knownMaker(c.Known)); es == nil {
			notes = append(notes, "ReadSeriesFile of a missing file returned nil errors")
		}
		t1, es1 := jsonx.NewDecoder(bytes.NewReader(data)).DecodeSeries(knownMaker(c.Known))
		t2, es2 := jsonx.ReadSeriesFile(fn, knownMaker(c.Known))
		for _, e := range es2 {
			if e.Pos != nil && e.Pos.File != fn {
				notes = append(notes, "ReadSeriesFile: an error position names "+e.Pos.File)
				break
			}
		}
		if (es1 == nil) != (es2 == nil) || len(t1) != len(t2) || len(es1) != len(es2) {
			notes = append(notes, "ReadSeriesFile differs from DecodeSeries")
		} else {
			for i := range t1 {
				if t1[i].Type != t2[i].Type || !bytes.Equal(*t1[i].V.(*json.RawMessage), *t2[i].V.(*json.RawMessage)) {
					notes = append(notes, "ReadSeriesFile differs from DecodeSeries")
					break
				}
			}
		}
		o.Note = strings.Join(notes, "; ")
	case "print":
		bs, err := jsonx.Marshal(c.goVal)
		if err != nil {
			o.Note = "marshal: " + err.Error()
			return
		}
		o.Ok = true
		o.Text = printable(bs)
		o.Out = runesOf(bs)
		o.NonPr = nonPrintTree(c.goVal)
		holdBytes("the bytes Marshal returned", bs)
		// the round trip, read off the implementation only
		var raw json.RawMessage
		if err := jsonx.Unmarshal(bs, &raw); err != nil {
			o.Res = "err"
			o.Note = "unmarshal: " + err.Error()
			return
		}
		o.Res = "ok"
		holdBytes("the RawMessage Unmarshal filled", []byte(raw))
		got, err := canonJSON([]byte(raw))
		if err != nil {
			o.Got = "E(" + err.Error() + ")"
		} else {
			o.Got = got
		}
	}
}

// capturePrint runs jsonx.Print with os.Stdout replaced by a pipe.
func capturePrint(v interface{}) ([]byte, error) {
	r, w, err := os.Pipe()
	if err != nil {
		return nil, err
	}
	old := os.Stdout
	os.Stdout = w
	done := make(chan []byte)
	go func() {
		b, _ := io.ReadAll(r)
		done <- b
	}()
	perr := jsonx.Print(v)
	os.Stdout = old
	w.Close()
	b := <-done
	r.Close()
	return b, perr
}

func nonPrint(s string) []int {
	seen := map[rune]bool{}
	out := []int{}
	for _, r := range s {
		if !unicode.IsPrint(r) && !seen[r] {
			seen[r] = true
			out = append(out, int(r))
		}
	}
	sort.Ints(out)
	return out
}

func nonPrintTree(v interface{}) []int {
	bs, _ := json.Marshal(v)
	var g interface{}
	json.Unmarshal(bs, &g)
	var sb strings.Builder
	var walk func(x interface{})
	walk = func(x interface{}) {
		switch t := x.(type) {
		case string:
			sb.WriteString(t)
		case []interface{}:
			for _, y := range t {
				walk(y)
			}
		case map[string]interface{}:
			for k, y := range t {
				sb.WriteString(k)
				walk(y)
			}
		}
	}
	walk(g)
	return nonPrint(sb.String())
}

// ---------------------------------------------------------------- main

var curCase atomic.Int64
var curStart atomic.Int64

func watchdog(limit time.Duration) {
	for {
		time.Sleep(20 * time.Millisecond)
		st := curStart.Load()
		if st == 0 {
			continue
		}
		if time.Since(time.Unix(0, st)) > limit {
			fmt.Fprintf(os.Stderr, "timeout: case %d did not return within %v\n", curCase.Load(), limit)
			os.Exit(3)
		}
	}
}

func main() {
	mode := flag.String("mode", "c08", "c07 | c08 | c09")
	seed := flag.Uint64("seed", 1, "seed")
	n := flag.Int("n", 500, "size parameter of the generated streams")
	child := flag.Bool("child", false, "child mode")
	from := flag.Int("from", 0, "first case (child)")
	mem := flag.Uint64("mem", 4<<30, "address-space limit of the child")
	limit := flag.Duration("limit", 3*time.Second, "per-case deadline")
	skip := flag.String("skip", "", "child: comma-separated ops not to run any more")
	oneOp := flag.String("oneop", "", "run a single case: its operation")
	oneIn := flag.String("onein", "", "run a single case: input bytes, hex")
	oneStream := flag.String("onestream", "replay", "run a single case: its stream")
	sizes := flag.String("sizes", "", "comma-separated integers the source names (gen_int_literals): token sizes to try")
	flag.Parse()
	for _, f := range strings.Split(*sizes, ",") {
		if n, err := strconv.Atoi(f); err == nil && n > 0 {
			sizeList = append(sizeList, n)
		}
	}

	cs := withHolds(genCases(*mode, *seed, *n))
	if *oneOp != "" {
		in, _ := hex.DecodeString(*oneIn)
		cs = []Case{{I: 0, Stream: *oneStream, Op: *oneOp, In: *oneIn, Src: printable(in), Known: seriesKnown}}
		if *oneOp == "tseries" {
			cs[0].Known = typedKnown
		}
	}
	out := hx.NewOut(os.Stdout)
	if *child {
		hx.LimitMemory(*mem)
		go watchdog(*limit)
		skipped := map[string]bool{}
		for _, op := range strings.Split(*skip, ",") {
			skipped[op] = true
		}
		for i := *from; i < len(cs); i++ {
			if skipped[cs[i].Op] {
				cs[i].Obs = &Obs{Note: "skipped"}
				out.Emit(&cs[i])
				continue
			}
			curCase.Store(int64(i))
			curStart.Store(time.Now().UnixNano())
			cur = &cs[i]
			runCase(&cs[i])
			curStart.Store(0)
			out.Emit(&cs[i])
		}
		return
	}
	if err := runIsolated(cs, *mode, *seed, *n, *mem, *limit, out, *oneOp, *oneIn, *oneStream); err != nil {
		fmt.Fprintln(os.Stderr, err)
		os.Exit(2)
	}
}

// runIsolated is hx.RunIsolated with two additions for code that does not
// return: after a few such observations the per-case deadline is shortened,
// and after many the operation that keeps hanging is no longer run (its
// remaining cases are reported as skipped, and are neither counted nor
// compared).  Neither happens on a tree where every case returns.
func runIsolated(cs []Case, mode string, seed uint64, n int, mem uint64, limit time.Duration, out *hx.Out, oneOp, oneIn, oneStream string) error {
	const shortAfter, skipAfter = 5, 25
	noReturn := map[string]int{}
	total := 0
	var skip []string
	from := 0
	for from < len(cs) {
		lim := limit
		if total >= shortAfter {
			lim = 400 * time.Millisecond
		}
		args := []string{"-mode", mode, "-seed", strconv.FormatUint(seed, 10), "-n", strconv.Itoa(n),
			"-limit", lim.String(), "-skip", strings.Join(skip, ","), "-sizes", sizesFlag(),
			"-child", "-from", strconv.Itoa(from), "-mem", strconv.FormatUint(mem, 10)}
		if oneOp != "" {
			args = append(args, "-oneop", oneOp, "-onein", oneIn, "-onestream", oneStream)
		}
		cmd := exec.Command(os.Args[0], args...)
		stdout, err := cmd.StdoutPipe()
		if err != nil {
			return err
		}
		var errBuf bytes.Buffer
		cmd.Stderr = &errBuf
		if err := cmd.Start(); err != nil {
			return err
		}
		sc := bufio.NewScanner(stdout)
		sc.Buffer(make([]byte, 1<<20), 1<<28)
		next := from
		for sc.Scan() {
			os.Stdout.Write(append(append([]byte{}, sc.Bytes()...), '\n'))
			next++
		}
		werr := cmd.Wait()
		if next >= len(cs) {
			break
		}
		if werr == nil {
			return fmt.Errorf("child exited cleanly after %d of %d cases", next, len(cs))
		}
		why := errBuf.String()
		if i := strings.IndexByte(why, '\n'); i >= 0 {
			why = why[:i]
		}
		if len(why) > 300 {
			why = why[:300]
		}
		c := cs[next]
		c.Obs = &Obs{Crash: "fatal: " + why}
		out.Emit(&c)
		total++
		noReturn[c.Op]++
		if noReturn[c.Op] == skipAfter {
			skip = append(skip, c.Op)
		}
		from = next + 1
	}
	return nil
}

func sizesFlag() string {
	var fs []string
	for _, n := range sizeList {
		fs = append(fs, strconv.Itoa(n))
	}
	return strings.Join(fs, ",")
}

func jsonxMarshal(v interface{}) ([]byte, error) { return jsonx.Marshal(v) }
