// Results are HELD: every []byte, string and decoded value an entry point
// hands back is kept - the very slice that was returned, not a copy - while
// the following cases run, and looked at again by the next "hold" case (one
// after every holdEvery cases).  A result that changed in the meantime was not
// the caller's own: the implementation still writes to it (a pooled or shared
// buffer).  Inputs are scribbled over as soon as the call has returned, and
// returned slices after they have been checked, so that an implementation
// that keeps a reference to either shows in the results of later cases.
package main

import (
	"bytes"
	"encoding/json"
	"os"
	"path/filepath"
)

const holdEvery = 32

type heldResult struct {
	i        int
	op, src  string
	what     string
	get      func() []byte
	snap     []byte
	scribble func()
}

type Unstable struct {
	I      int    `json:"i"`
	Op     string `json:"op"`
	Src    string `json:"src"`
	What   string `json:"what"`
	Before string `json:"before"`
	After  string `json:"after"`
}

var held []heldResult
var cur *Case // the case being run (child process)

func holdAny(what string, get func() []byte, scribble func()) {
	if cur == nil {
		return
	}
	held = append(held, heldResult{i: cur.I, op: cur.Op, src: cur.Src, what: what, get: get, snap: clone(get()), scribble: scribble})
}

// holdBytes keeps the slice b itself.
func holdBytes(what string, b []byte) {
	if len(b) == 0 {
		return
	}
	holdAny(what, func() []byte { return b }, func() {
		for k := range b {
			b[k] = 0xA5
		}
	})
}

func holdString(what string, s string) {
	if s == "" {
		return
	}
	holdAny(what, func() []byte { return []byte(s) }, nil)
}

// holdValue keeps a decoded value (a pointer the entry point filled in).
func holdValue(what string, v interface{}) {
	holdAny(what, func() []byte {
		bs, err := json.Marshal(v)
		if err != nil {
			return []byte("!" + err.Error())
		}
		return bs
	}, nil)
}

// holdFile keeps a file an entry point wrote; its directory is removed after
// the check.
func holdFile(what, path string) {
	holdAny(what, func() []byte {
		b, err := os.ReadFile(path)
		if err != nil {
			return []byte("!" + err.Error())
		}
		return b
	}, func() { os.RemoveAll(filepath.Dir(path)) })
}

func scribbleInput(in []byte) {
	for k := range in {
		in[k] = 0x5A
	}
}

// runHold: op hold.
func runHold(o *Obs) {
	o.Ok = true
	for _, h := range held {
		o.N++
		now := h.get()
		if !bytes.Equal(now, h.snap) {
			if len(o.Unstable) < 4 {
				o.Unstable = append(o.Unstable, Unstable{I: h.i, Op: h.op, Src: h.src, What: h.what,
					Before: printable(h.snap), After: printable(now)})
			}
			o.Fin++ // number of results that changed
		}
	}
	for _, h := range held {
		if h.scribble != nil {
			h.scribble()
		}
	}
	held = nil
}

// withHolds inserts a hold case after every holdEvery cases and at the end.
func withHolds(cs []Case) []Case {
	out := make([]Case, 0, len(cs)+len(cs)/holdEvery+1)
	add := func() {
		out = append(out, Case{Stream: "hold", Op: "hold", In: "", Src: "\"\""})
	}
	for k, c := range cs {
		out = append(out, c)
		if (k+1)%holdEvery == 0 {
			add()
		}
	}
	add()
	for k := range out {
		out[k].I = k
	}
	return out
}
