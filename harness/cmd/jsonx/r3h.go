// Batch r3h: wide objects with repeated keys (member order), nesting as deep
// as the integers the source names, re-reading a file that was rewritten.
package main

import (
	"bytes"
	"encoding/json"
	"fmt"
	"math/big"
	"os"
	"sort"
	"strconv"
	"strings"
	"time"

	"shanhu.io/g/jsonx"
)

// ---------------------------------------------------------------- member order

// keyOrderJSON: what the MEANING of a JSON text needs of its member order.
// JSON objects are unordered, so a re-ordering of distinct keys changes
// nothing; but of a key that occurs more than once in an object the last
// occurrence wins (encoding/json), so the relative order of ITS occurrences
// matters: the one that is last must stay last.  The result lists, for
// every object of the text and every key that occurs more than once in it,
// how often it occurs and the value of its LAST occurrence (canonical form,
// members of nested objects sorted stably by key); the
// entries are sorted, so the result does not depend on where an object
// stands.
func keyOrderJSON(text []byte) string {
	dec := json.NewDecoder(bytes.NewReader(text))
	dec.UseNumber()
	var sigs []string
	if _, err := dupDec(dec, &sigs); err != nil {
		return "E(" + err.Error() + ")"
	}
	sort.Strings(sigs)
	return strings.Join(sigs, " ")
}

func dupDec(dec *json.Decoder, sigs *[]string) (string, error) {
	t, err := dec.Token()
	if err != nil {
		return "", err
	}
	switch v := t.(type) {
	case nil:
		return "null", nil
	case bool:
		return strconv.FormatBool(v), nil
	case json.Number:
		return canonNum(string(v)), nil
	case string:
		return canonStr(v), nil
	case json.Delim:
		if v == '[' {
			var parts []string
			for dec.More() {
				x, err := dupDec(dec, sigs)
				if err != nil {
					return "", err
				}
				parts = append(parts, x)
			}
			if _, err := dec.Token(); err != nil {
				return "", err
			}
			return "[" + strings.Join(parts, ";") + "]", nil
		}
		type member struct{ k, v string }
		var ms []member
		count := map[string]int{}
		for dec.More() {
			k, err := dec.Token()
			if err != nil {
				return "", err
			}
			ks, _ := k.(string)
			x, err := dupDec(dec, sigs)
			if err != nil {
				return "", err
			}
			ms = append(ms, member{canonStr(ks), x})
			count[canonStr(ks)]++
		}
		if _, err := dec.Token(); err != nil {
			return "", err
		}
		var order []string
		seen := map[string]bool{}
		for _, m := range ms {
			if count[m.k] > 1 && !seen[m.k] {
				seen[m.k] = true
				var vals []string
				for _, m2 := range ms {
					if m2.k == m.k {
						vals = append(vals, m2.v)
					}
				}
				// the last occurrence is the one that counts
				order = append(order, fmt.Sprintf("%s=<%d-times-last:%s>", m.k, len(vals), vals[len(vals)-1]))
			}
		}
		*sigs = append(*sigs, order...)
		sort.SliceStable(ms, func(i, j int) bool { return ms[i].k < ms[j].k })
		parts := make([]string, len(ms))
		for i, m := range ms {
			parts[i] = m.k + ":" + m.v
		}
		return "{" + strings.Join(parts, ";") + "}", nil
	}
	return "", fmt.Errorf("unexpected token")
}

// genWideObjects: objects of 13..40 members whose keys repeat (the same key
// bare and quoted is the same key), values all different, in JSONx and in
// plain JSON: of a repeated key the occurrences must keep their order (the
// last one wins), and the decoded value must be what encoding/json reads.
func genWideObjects(b *builder, n int) {
	g := b.g
	pool := []string{"timeout", "name", "a", "b", "deps", "x", "k9", "port", "true", "a b"}
	for i := 0; i < n; i++ {
		m := 13 + g.r.Intn(28)
		v := &V{K: 'o'}
		for j := 0; j < m; j++ {
			key := pool[g.r.Intn(len(pool))]
			if g.r.Intn(3) == 0 {
				key = fmt.Sprintf("u%d", j)
			}
			var val *V
			switch g.r.Intn(4) {
			case 0:
				val = &V{K: 's', S: []byte(fmt.Sprintf("v%d", j))}
			case 1:
				val = &V{K: 'a', A: []*V{{K: 'i', I: big.NewInt(int64(j))}}}
			default:
				val = &V{K: 'i', I: big.NewInt(int64(1000 + j))}
			}
			v.O = append(v.O, Member{K: []byte(key), V: val})
		}
		if i%4 == 0 {
			v = &V{K: 'a', A: []*V{v, {K: 'n'}}}
		}
		plain := []byte(g.renderJSON(v))
		order := keyOrderJSON(plain)
		want, _ := canonJSON(plain)
		rs := plainReasons(plain)
		b.add("wideobj", "tojson", plain, func(c *Case) { c.Want = want; c.Reasons = rs; c.Plain = true; c.Order = order })
		b.add("wideobj", "unmarshal", plain, func(c *Case) { c.Want = want; c.Reasons = rs; c.Plain = true; c.Order = order })
		x := []byte(g.render(v))
		b.add("wideobj", "tojson", x, func(c *Case) { c.Want = canonV(v); c.Order = order })
		if i%2 == 0 {
			b.add("wideobj", "series", append(append([]byte("x "), x...), '\n'), func(c *Case) { c.Known = seriesKnown; c.Order = order })
		}
	}
}

// ---------------------------------------------------------------- deep nesting

func deepDoc(kind string, depth int, closing string) []byte {
	open, close := "[", "]"
	if kind == "obj" {
		open, close = "{a:", "}"
	}
	var sb strings.Builder
	sb.WriteString(strings.Repeat(open, depth))
	if kind == "obj" {
		sb.WriteString("1")
	}
	switch closing {
	case "closed":
		sb.WriteString(strings.Repeat(close, depth))
	case "half":
		sb.WriteString(strings.Repeat(close, depth/2))
	}
	return []byte(sb.String())
}

func deepText(kind string, depth int, closing string) string {
	open := "'['"
	if kind == "obj" {
		open = "'{a:' and a 1"
	}
	switch closing {
	case "closed":
		return fmt.Sprintf("%d x %s, closed %d times", depth, open, depth)
	case "half":
		return fmt.Sprintf("%d x %s, closed %d times, then EOF", depth, open, depth/2)
	}
	return fmt.Sprintf("%d x %s then EOF", depth, open)
}

// runDeep: op deep.  Unmarshal, ToJSON and DecodeSeries on a document nested
// c.Cut levels deep: each must return; what is not closed must be rejected;
// what is closed must come out of ToJSON as the same nesting.
func runDeep(c *Case, o *Obs) {
	parts := strings.SplitN(c.Pre, "/", 2)
	kind, closing := parts[0], parts[1]
	doc := deepDoc(kind, c.Cut, closing)
	what := deepText(kind, c.Cut, closing)
	o.N = len(doc)
	note := func(f string, a ...interface{}) {
		if o.Note == "" {
			o.Note = what + ": " + fmt.Sprintf(f, a...)
		}
	}
	out, es := jsonx.ToJSON(doc)
	var raw json.RawMessage
	uerr := jsonx.Unmarshal(doc, &raw)
	typed, ses := jsonx.NewDecoder(bytes.NewReader(append(append([]byte("x "), doc...), '\n'))).DecodeSeries(knownMaker(seriesKnown))
	if closing != "closed" {
		if es == nil {
			note("ToJSON accepted a document that is not closed")
		}
		if uerr == nil {
			note("Unmarshal accepted a document that is not closed")
		}
		if ses == nil {
			note("DecodeSeries accepted a document that is not closed")
		}
	} else {
		want := string(doc)
		if kind == "obj" {
			want = strings.Repeat("{\"a\":", c.Cut) + "1" + strings.Repeat("}", c.Cut)
		}
		if es != nil {
			note("ToJSON rejected a closed document: %s", errNames(es)[0])
		} else if string(out) != want {
			note("ToJSON emitted %d bytes that are not the same nesting", len(out))
		}
		if ses == nil && (len(typed) != 1 || string(*typed[0].V.(*json.RawMessage)) != want) {
			note("DecodeSeries returned another value")
		}
		// Unmarshal hands the text to encoding/json, which has a nesting limit of its own: an error is fine
		if uerr == nil && string(raw) != want {
			note("Unmarshal stored another value")
		}
	}
	o.Ok = true
}

func genDeep(b *builder) {
	seen := map[string]bool{}
	add := func(depth int) {
		if depth < 2 || depth > 25000 { // deeper documents cost seconds; the named integers beyond are code points, not depths
			return
		}
		for _, kind := range []string{"list", "obj"} {
			for _, closing := range []string{"closed", "open", "half"} {
				key := fmt.Sprintf("%s/%s %d", kind, closing, depth)
				if seen[key] {
					continue
				}
				seen[key] = true
				pre := kind + "/" + closing
				b.add("deep", "deep", []byte(key), func(c *Case) { c.Pre = pre; c.Cut = depth; c.Src = deepText(kind, depth, closing) })
			}
		}
	}
	for _, d := range []int{1000, 10001, 20001} {
		add(d)
	}
	for _, l := range sizeList {
		for _, d := range []int{l - 1, l, l + 1, 2*l + 1} {
			add(d)
		}
	}
}

// ---------------------------------------------------------------- re-reading a file

func sameAsDisk(fn string) string {
	data, err := os.ReadFile(fn)
	if err != nil {
		return "cannot read the file: " + err.Error()
	}
	var want, got json.RawMessage
	e1 := jsonx.Unmarshal(data, &want)
	e2 := jsonx.ReadFile(fn, &got)
	if (e1 == nil) != (e2 == nil) || !bytes.Equal(want, got) {
		return fmt.Sprintf("ReadFile returned %s (error %v); the bytes on disk are %s, which Unmarshal reads as %s (error %v)",
			printable(got), e2, printable(data), printable(want), e1)
	}
	var m json.RawMessage
	if e3 := jsonx.ReadFileMaybeJSON(fn, &m); (e1 == nil) && (e3 != nil || !bytes.Equal(want, m)) {
		return fmt.Sprintf("ReadFileMaybeJSON returned %s (error %v); the bytes on disk are %s", printable(m), e3, printable(data))
	}
	return ""
}

func seriesSameAsDisk(fn string) string {
	data, err := os.ReadFile(fn)
	if err != nil {
		return "cannot read the file: " + err.Error()
	}
	t1, es1 := jsonx.NewDecoder(bytes.NewReader(data)).DecodeSeries(knownMaker(seriesKnown))
	t2, es2 := jsonx.ReadSeriesFile(fn, knownMaker(seriesKnown))
	if (es1 == nil) != (es2 == nil) || len(t1) != len(t2) {
		return "ReadSeriesFile does not return what the bytes on disk hold: " + printable(data)
	}
	for i := range t1 {
		if t1[i].Type != t2[i].Type || !bytes.Equal(*t1[i].V.(*json.RawMessage), *t2[i].V.(*json.RawMessage)) {
			return "ReadSeriesFile does not return what the bytes on disk hold: " + printable(data)
		}
	}
	return ""
}

// runReread: op reread.  c.goVal = [v1, v2, v3]: Marshal(v1) and Marshal(v2)
// have the same length, Marshal(v3) another.  After every step ReadFile must
// return what Unmarshal reads from the bytes that are on disk at that moment.
func runReread(c *Case, o *Obs) {
	vs, _ := c.goVal.([]interface{})
	if len(vs) != 3 {
		o.Note = "bad case"
		return
	}
	dir, err := os.MkdirTemp("", "jsonxrr")
	if err != nil {
		o.Note = "tempdir: " + err.Error()
		return
	}
	defer os.RemoveAll(dir)
	o.Ok = true
	p, q := dir+"/p.jsonx", dir+"/q.jsonx"
	t0 := time.Unix(1700000000, 0)
	step := func(what string, fn string) {
		os.Chtimes(fn, t0, t0) // the same time stamp as ever: a coarse clock, cp -p, a restore
		if bad := sameAsDisk(fn); bad != "" && o.Note == "" {
			o.Note = what + ": " + bad
		}
	}
	b1, _ := jsonx.Marshal(vs[0])
	b2, _ := jsonx.Marshal(vs[1])
	o.N = len(b1)
	if len(b1) != len(b2) {
		o.Note = "generator: the two texts differ in length"
		return
	}
	jsonx.WriteFile(p, vs[0])
	step("after WriteFile(v1)", p)
	step("a second ReadFile of the unchanged file", p)
	jsonx.WriteFile(p, vs[1])
	step("after WriteFile(v2), a text of the same length, with the time stamp of before", p)
	os.WriteFile(p, b1, 0644)
	step("after the file was rewritten with v1's text by os.WriteFile, same length, same time stamp", p)
	jsonx.WriteFile(p, vs[2])
	step("after WriteFile(v3), a text of another length", p)
	os.WriteFile(q, b1, 0644)
	step("a second path with v1's text", q)
	os.WriteFile(q, b2, 0644)
	step("the second path rewritten with v2's text, same length, same time stamp", q)
	step("the first path again", p)
	os.WriteFile(p, []byte("{a:"), 0644)
	step("after the file was overwritten with a text that does not parse", p)
	// a series file
	s := dir + "/s.jsonx"
	for k, txt := range []string{"x 1\ny [2]\n", "x 2\ny [1]\n", "x 3\n", "x 1\ny [2]\n"} {
		os.WriteFile(s, []byte(txt), 0644)
		os.Chtimes(s, t0, t0)
		if bad := seriesSameAsDisk(s); bad != "" && o.Note == "" {
			o.Note = fmt.Sprintf("series file, version %d: %s", k+1, bad)
		}
	}
}

func genReread(b *builder, n int) {
	g := b.g
	add := func(v1, v2, v3 interface{}) {
		vs := []interface{}{v1, v2, v3}
		js, err := json.Marshal(vs)
		if err != nil {
			return
		}
		b1, e1 := jsonxMarshal(v1)
		b2, e2 := jsonxMarshal(v2)
		if e1 != nil || e2 != nil || len(b1) != len(b2) || bytes.Equal(b1, b2) {
			return
		}
		b.add("reread", "reread", js, func(c *Case) { c.goVal = vs; c.PV = true })
	}
	add(10, 11, 7)
	add("abc", "abd", "")
	add(true, nil, false) // "true\n" and "null\n"
	add(map[string]interface{}{"a": 1}, map[string]interface{}{"a": 2}, map[string]interface{}{})
	add(map[string]interface{}{"a": 1}, map[string]interface{}{"b": 1}, 1)
	add([]interface{}{1, 2}, []interface{}{2, 1}, []interface{}{})
	add(1.5, 2.5, 100)
	add(map[string]interface{}{"timeout": 30, "name": "x"}, map[string]interface{}{"timeout": 60, "name": "x"}, "s")
	add("é", "è", "e")
	for i := 0; i < n; i++ {
		k := 100 + g.r.Intn(900)
		add(map[string]interface{}{"n": k, "s": g.ident()}, map[string]interface{}{"n": k ^ 1, "s": g.ident()}, g.goValue(1))
		add(k, k^1, g.goValue(1))
	}
}
