// Command c06 runs concurrent workloads on the real pisces KV backends
// (memory and sqlite) and prints the recorded histories: for every call its
// goroutine, operation, projected result and invocation / return stamps from
// one global counter, plus the final contents. One JSON line per run.
//
// Usage-pattern audit (round 3): what a concurrent user can do, which stream
// does it. Every run uses ONE store object (one memKV / one sqlx.DB pool and
// one KV handle) shared by all goroutines - that is the pattern of the
// statement; every third run is on the key-hashing kind of store.
//
//	calls under contention                streams
//	Mutate (increment)                    counter (2..16 goroutines, 2 counters), lin, forced
//	Mutate whose function fails /         forced: mutate-fail, mutate-cancel, mutate-panic (the holder's function
//	 cancels / panics while others wait     ends that way after the others have made or queued their calls; then
//	                                        writers and readers run: no lock, transaction or value may remain);
//	                                        lin: increments of a non-numeric value fail in the function
//	Mutate of a value Unmarshal merges    forced mutate-set/both-read:* (map and struct-with-omitempty targets as sets of
//	 into (map, omitted struct fields)      letters: one adds, the other removes, both have read, the holder's commit is
//	                                        refused), mutate-set/inside, linset (random), ownset (own-letter accounting)
//	how often a call invokes the function recorded per call (cb); every hook acts on the invocation it names, so a
//	                                        backend that retries can invoke it any number of times
//	AppendBytes                           append (unique tokens, per-goroutine order), lin, forced walk/append,
//	                                        mutate/append-inside; the argument is a sub-slice of a scratch page
//	                                        the goroutine overwrites after the call
//	AppendBytes to an ABSENT key          appendfresh: fresh key per round, every goroutine one token, barrier; sqlite with
//	                                        the default DSN and with a busy timeout (contended statements wait)
//	Add / Emplace (absent key)            addrace, emplacerace (every goroutine, every key), lin,
//	                                        forced walk/add, walk/emplace, mutate/add+emplace-inside
//	Remove (present key)                  removerace (every goroutine removes every key: one success each), lin,
//	                                        forced walk/remove, mutate/remove-inside
//	Replace                               lin, forced walk/replace, mutate/replace-inside
//	Get / GetBytes / Count                lin, forced probes during a held Walk / Mutate; returned slices are
//	                                        overwritten by the caller
//	Walk holding its read lock / SHARED   forced walk/* (11 schedules): every writer kind during the walk; a walk
//	                                        whose Do fails, cancels or panics (walk-fail/-cancel/-panic), writers after
//	Mutate holding its lock / transaction forced mutate/*: every writer kind and readers inside; both-read-then-write
//	BUSY then later calls                 forced (sqlite): the refused call, then the same connection pool is used
//	                                        by probes and by the calls after the holder; durable contents re-read
//	                                        after closing and reopening the file
//	Set / SetClass / Clear / walks as     not in the statement's operation set; sequentially in harness/cmd/c05
//	 recorded concurrent calls
//	two pools / two processes on a file   not exercised (same SQLite locking as two connections of one pool)
//	PostgreSQL                            cannot run here (model + open finding)
package main

import (
	"encoding/hex"
	"encoding/json"
	"errors"
	"flag"
	"fmt"
	"os"
	"path/filepath"
	"runtime"
	"strings"
	"sync"
	"sync/atomic"
	"time"

	_ "modernc.org/sqlite"
	"shanhu.io/g/errcode"
	"shanhu.io/g/pisces"
	"shanhu.io/g/sqlx"
	"verifharness/hx"
)

type Op struct {
	Op string `json:"op"` // incr | incr-fail | incr-cancel | incr-panic | madd | mdel | sadd | sdel | append | add | emplace | replace | remove | get | getbytes | count
	K  string `json:"k"`  // hex
	V  string `json:"v,omitempty"`
}

type Call struct {
	T   int     `json:"t"`
	Inv int64   `json:"inv"`
	Ret int64   `json:"ret"`
	Op  Op      `json:"op"`
	E   string  `json:"e"`
	B   *string `json:"b,omitempty"`
	N   *int64  `json:"n,omitempty"`
	Msg string  `json:"msg,omitempty"`
	Cb  int     `json:"cb,omitempty"` // how often the call invoked the user's function
}

// setStruct is a Mutate target with fields the stored JSON may omit; setMap
// (map[string]int) is one whose keys it may omit. json.Unmarshal MERGES into
// both: what the JSON does not mention stays as it was. Values of these
// targets are sets of the letters a..d: {"a":1,"c":1}.
type setStruct struct {
	A int `json:"a,omitempty"`
	B int `json:"b,omitempty"`
	C int `json:"c,omitempty"`
	D int `json:"d,omitempty"`
}

func (s *setStruct) field(x string) *int {
	switch x {
	case "a":
		return &s.A
	case "b":
		return &s.B
	case "c":
		return &s.C
	}
	return &s.D
}

type Final struct {
	K string  `json:"k"`
	B *string `json:"b,omitempty"` // nil: key absent
	E string  `json:"e,omitempty"`
}

type Run struct {
	I       int     `json:"i"`
	Stream  string  `json:"stream"` // lin | counter | append | addrace | emplacerace
	Backend string  `json:"backend"`
	Threads int     `json:"threads"`
	Init    []Op    `json:"init,omitempty"` // sequential set-up calls
	Calls   []Call  `json:"calls"`
	Final   []Final `json:"final"` // read through the store after the run
	Count   int64   `json:"count"`
	Durable []Final `json:"durable,omitempty"` // sqlite: read after closing and reopening the database
	DCount  int64   `json:"dcount,omitempty"`
	Name    string  `json:"name,omitempty"` // forced schedules: which one
	Hold    *Hold   `json:"hold,omitempty"`
}

// Hold describes the call that was kept inside its critical section while
// the recorded calls were made: entered its callback at stamp Mid, returned
// at stamp Ret, and is a writer (Mutate) or a reader (Walk).
type Hold struct {
	Writer bool  `json:"writer"`
	Mid    int64 `json:"mid"` // stamp taken on entering the callback
	Out    int64 `json:"out"` // stamp taken on leaving the callback (the lock is still held)
	Ret    int64 `json:"ret"` // stamp taken after the holder returned
}

var errUser = errors.New("user callback failed")

// userPanic is what a panicking user callback panics with (recorded as
// "upanic"; any other panic value is pisces' own).
type userPanic struct{}

// The caller's memory: every goroutine appends from one scratch page it
// recycles as soon as the call has returned, and overwrites the slices it is
// given once it has recorded them (see harness/cmd/c05).
const scratchFill = 0xee

func scratchArg(page *[]byte, b []byte) []byte {
	if len(*page) < len(b)+64 {
		*page = make([]byte, 2*len(b)+256)
	}
	copy((*page)[7:], b)
	return (*page)[7 : 7+len(b)]
}

func overwrite(b []byte) {
	for i := range b {
		b[i] = scratchFill
	}
}

var spin int64

func unhex(s string) []byte {
	b, err := hex.DecodeString(s)
	if err != nil {
		panic(err)
	}
	return b
}
func hx2(b []byte) string { return hex.EncodeToString(b) }
func h(s string) string   { return hx2([]byte(s)) }

func project(err error) (string, string) {
	if err == nil {
		return "ok", ""
	}
	msg := err.Error()
	var se *json.SyntaxError
	switch {
	case err == errUser:
		return "user", ""
	case errcode.IsNotFound(err):
		return "not_found", ""
	case errcode.IsInvalidArg(err) && strings.Contains(msg, "already exist"):
		return "exists", ""
	case strings.Contains(msg, "UNIQUE constraint failed"):
		return "exists", ""
	case strings.Contains(msg, "SQLITE_BUSY") || strings.Contains(msg, "database is locked") ||
		strings.Contains(msg, "SQLITE_LOCKED") || strings.Contains(msg, "database table is locked"):
		return "busy", ""
	case errors.As(err, &se), strings.Contains(msg, "unexpected end of JSON input"):
		return "decode", ""
	}
	if len(msg) > 200 {
		msg = msg[:200]
	}
	return "other", msg
}

func incr(bs []byte) ([]byte, bool) {
	if len(bs) == 0 {
		return nil, false
	}
	for _, c := range bs {
		if c < '0' || c > '9' {
			return nil, false
		}
	}
	out := append([]byte{}, bs...)
	for i := len(out) - 1; i >= 0; i-- {
		if out[i] == '9' {
			out[i] = '0'
			continue
		}
		out[i]++
		return out, true
	}
	return append([]byte{'1'}, out...), true
}

func apply(kv *pisces.KV, op Op) (e, msg string, b *string, cb int) {
	e, msg, b, _, cb = applyCb(kv, op, nil)
	return
}

// applyCb is apply with a hook run inside the Mutate callback (before the
// increment), and also returns the count for op "count".
// The user's function may be invoked any number of times by one call (a
// backend may retry): it counts its invocations (cb) and hands the number to
// the hook, and everything a hook does once (signals, stamps) it does on the
// invocation it names.
func applyCb(kv *pisces.KV, op Op, inCallback func(nth int)) (e, msg string, b *string, n *int64, cb int) {
	defer func() {
		if r := recover(); r != nil {
			if _, mine := r.(userPanic); mine {
				e, msg = "upanic", ""
			} else {
				e, msg = "panic", fmt.Sprint(r)
			}
		}
	}()
	k := string(unhex(op.K))
	var err error
	var page []byte
	defer func() { overwrite(page) }()
	switch op.Op {
	case "incr", "incr-fail", "incr-cancel", "incr-panic":
		var raw json.RawMessage
		err = kv.Mutate(k, &raw, func(v interface{}) error {
			p := v.(*json.RawMessage)
			// user code inside the read-modify-write: stay there for a moment so
			// that other goroutines really arrive while it is in progress
			for i := 0; i < 3000; i++ {
				atomic.AddInt64(&spin, 1)
			}
			cb++
			if inCallback != nil {
				inCallback(cb)
			}
			switch op.Op {
			case "incr-fail": // changes its argument, then fails
				*p = json.RawMessage("77")
				return errUser
			case "incr-cancel":
				*p = json.RawMessage("77")
				return pisces.ErrCancel
			case "incr-panic":
				panic(userPanic{})
			}
			nv, ok := incr([]byte(*p))
			if !ok {
				return errUser
			}
			*p = json.RawMessage(nv)
			return nil
		})
	case "madd", "mdel": // a map target, declared by the caller for this call
		x := string(unhex(op.V))
		m := map[string]int{}
		err = kv.Mutate(k, &m, func(v interface{}) error {
			cb++
			if inCallback != nil {
				inCallback(cb)
			}
			mm := *(v.(*map[string]int))
			if op.Op == "madd" {
				mm[x] = 1
			} else {
				delete(mm, x)
			}
			return nil
		})
	case "sadd", "sdel": // a struct target whose fields the stored JSON may omit
		x := string(unhex(op.V))
		var st setStruct
		err = kv.Mutate(k, &st, func(v interface{}) error {
			cb++
			if inCallback != nil {
				inCallback(cb)
			}
			f := v.(*setStruct).field(x)
			if op.Op == "sadd" {
				*f = 1
			} else {
				*f = 0
			}
			return nil
		})
	case "append":
		err = kv.AppendBytes(k, scratchArg(&page, unhex(op.V)))
	case "add":
		err = kv.Add(k, json.RawMessage(unhex(op.V)))
	case "emplace":
		err = kv.Emplace(k, json.RawMessage(unhex(op.V)))
	case "replace":
		err = kv.Replace(k, json.RawMessage(unhex(op.V)))
	case "remove":
		err = kv.Remove(k)
	case "get":
		var raw json.RawMessage
		err = kv.Get(k, &raw)
		if err == nil {
			s := hx2(raw)
			b = &s
		}
	case "getbytes":
		var bs []byte
		bs, err = kv.GetBytes(k)
		if err == nil {
			s := hx2(bs)
			b = &s
			overwrite(bs)
		}
	case "count":
		var c int64
		c, err = kv.Count()
		if err == nil {
			n = &c
		}
	default:
		panic("unknown op " + op.Op)
	}
	e, msg = project(err)
	return
}

// ---- backends ----

type env struct {
	dir     string
	n       int
	db      *sqlx.DB
	runs    int
	hashing bool
	dsn     string // appended to the file name when a sqlite store is opened ("?_pragma=busy_timeout(...)")
}

func openEnv() *env {
	base := ""
	if fi, err := os.Stat("/dev/shm"); err == nil && fi.IsDir() {
		base = "/dev/shm"
	}
	dir, err := os.MkdirTemp(base, "verif-c06-")
	if err != nil {
		panic(err)
	}
	return &env{dir: dir}
}

func (e *env) close() {
	if e.db != nil {
		e.db.Close()
	}
	os.RemoveAll(e.dir)
}

// fresh gives an empty store; for sqlite a new database file and a new
// connection pool, so that nothing of one run reaches the next.
func (e *env) fresh(backend string) *pisces.KV {
	const table = "verifkv"
	e.runs++
	e.hashing = e.runs%3 == 0 // every third run on the key-hashing kind of store
	if backend == "mem" {
		if e.hashing {
			return pisces.NewMemKV()
		}
		return pisces.NewOrderedMemKV()
	}
	if e.db != nil {
		e.db.Close()
		os.Remove(filepath.Join(e.dir, fmt.Sprintf("db%d", e.n)))
		os.Remove(filepath.Join(e.dir, fmt.Sprintf("db%d-journal", e.n)))
	}
	e.n++
	db, err := sqlx.OpenSqlite3(filepath.Join(e.dir, fmt.Sprintf("db%d", e.n)) + e.dsn)
	if err != nil {
		panic(err)
	}
	e.db = db
	if err := pisces.Sqlite3CreateKV(e.db, table); err != nil {
		panic(err)
	}
	if e.hashing {
		return pisces.NewSqlite3KV(e.db, table)
	}
	return pisces.NewOrderedSqlite3KV(e.db, table)
}

// execute runs progs[t] in goroutine t, all released together.
func execute(kv *pisces.KV, progs [][]Op) []Call {
	var clock int64
	var ready int32
	var wg sync.WaitGroup
	start := make(chan struct{})
	out := make([][]Call, len(progs))
	for t := range progs {
		wg.Add(1)
		go func(t int) {
			defer wg.Done()
			<-start
			// spin until every goroutine runs, so that the calls really overlap
			atomic.AddInt32(&ready, 1)
			for atomic.LoadInt32(&ready) < int32(len(progs)) {
				runtime.Gosched()
			}
			for _, op := range progs[t] {
				c := Call{T: t, Op: op}
				c.Inv = atomic.AddInt64(&clock, 1)
				c.E, c.Msg, c.B, c.Cb = apply(kv, op)
				c.Ret = atomic.AddInt64(&clock, 1)
				out[t] = append(out[t], c)
			}
		}(t)
	}
	close(start)
	wg.Wait()
	var all []Call
	for _, cs := range out {
		all = append(all, cs...)
	}
	return all
}

// executeRounds is execute for programs of equal length with a barrier before
// every [every]-th call: these calls of all goroutines are released together, so
// that calls on one key really arrive at the same time (a check made under a
// shared lock is then passed by several of them at once).
func executeRounds(kv *pisces.KV, progs [][]Op, every int) []Call {
	var clock int64
	n := len(progs[0])
	arrived := make([]int32, n)
	var wg sync.WaitGroup
	out := make([][]Call, len(progs))
	for t := range progs {
		wg.Add(1)
		go func(t int) {
			defer wg.Done()
			for x, op := range progs[t] {
				if x%every == 0 {
					atomic.AddInt32(&arrived[x], 1)
					for spins := 0; atomic.LoadInt32(&arrived[x]) < int32(len(progs)); spins++ {
						if spins > 50 {
							runtime.Gosched()
						}
					}
				}
				c := Call{T: t, Op: op}
				c.Inv = atomic.AddInt64(&clock, 1)
				c.E, c.Msg, c.B, c.Cb = apply(kv, op)
				c.Ret = atomic.AddInt64(&clock, 1)
				out[t] = append(out[t], c)
			}
		}(t)
	}
	wg.Wait()
	var all []Call
	for _, cs := range out {
		all = append(all, cs...)
	}
	return all
}

// finals reads the keys after the run. A read that still reports busy after
// many attempts is recorded as such.
func finals(kv *pisces.KV, keys []string) []Final {
	var fs []Final
	for _, k := range keys {
		f := Final{K: k, E: "busy"}
		for i := 0; i < 200; i++ {
			bs, err := kv.GetBytes(string(unhex(k)))
			e, _ := project(err)
			if e == "busy" {
				runtime.Gosched()
				continue
			}
			f.E = ""
			if err == nil {
				s := hx2(bs)
				f.B = &s
			} else if e != "not_found" {
				f.E = e
			}
			break
		}
		fs = append(fs, f)
	}
	return fs
}

func count(kv *pisces.KV) int64 {
	for i := 0; i < 200; i++ {
		n, err := kv.Count()
		if err == nil {
			return n
		}
	}
	return -1
}

// reopen closes the connection pool of a sqlite store (which rolls back
// whatever a connection left open) and opens the file again: what is read
// then is what was committed.
func (e *env) reopen() *pisces.KV {
	e.db.Close()
	db, err := sqlx.OpenSqlite3(filepath.Join(e.dir, fmt.Sprintf("db%d", e.n)))
	if err != nil {
		panic(err)
	}
	e.db = db
	if e.hashing {
		return pisces.NewSqlite3KV(e.db, "verifkv")
	}
	return pisces.NewOrderedSqlite3KV(e.db, "verifkv")
}

// ---- forced schedules ------------------------------------------------
//
// A call is kept inside its critical section by a callback that waits (the
// Do of a Walk holds the read lock / SHARED, the function of a Mutate holds
// the write lock / the open transaction) while other goroutines make calls.
// Every wait has a time limit: where the backend makes the other goroutine
// block (memory backend: the lock), the holder goes on after the limit and
// the blocked call completes afterwards - which is what the model predicts
// and what the recorded stamps must show.

const forcedWait = 150 * time.Millisecond

type forcedRec struct {
	clock int64
	kv    *pisces.KV
}

func (f *forcedRec) timed(t int, op Op, inCallback func(nth int)) Call {
	c := Call{T: t, Op: op}
	c.Inv = atomic.AddInt64(&f.clock, 1)
	c.E, c.Msg, c.B, c.N, c.Cb = applyCb(f.kv, op, inCallback)
	c.Ret = atomic.AddInt64(&f.clock, 1)
	return c
}

// hangLimit bounds the wait for a goroutine of a forced schedule after the
// holder has returned: a call that is still blocked then (a lock or a
// transaction left behind) is the observation "hang".
const hangLimit = 10 * time.Second

// collect waits for the goroutine that fills *calls (under mu) and closes
// done; if it does not finish, what it completed is returned together with a
// "hang" record for the call it is stuck in.
func collect(mu *sync.Mutex, calls *[]Call, done chan struct{}, t int, ops []Op) ([]Call, bool) {
	hung := false
	select {
	case <-done:
	case <-time.After(hangLimit):
		hung = true
	}
	mu.Lock()
	defer mu.Unlock()
	out := append([]Call{}, (*calls)...)
	if hung && len(out) < len(ops) {
		out = append(out, Call{T: t, Op: ops[len(out)], E: "hang", Msg: "the call had not returned " + hangLimit.String() + " after the holder returned"})
	}
	return out, hung
}

func waitFor(ch chan struct{}) {
	select {
	case <-ch:
	case <-time.After(forcedWait):
	}
}

// forcedWalk: goroutine 0 walks; inside the callback of the first entry
// goroutine 1 runs [during] and then goroutine 2 runs [probes]; after the
// walk goroutine 3 runs [after].
func forcedWalk(kv *pisces.KV, during, probes, after []Op) ([]Call, *Hold) {
	return forcedWalkEnd(kv, during, probes, after, "")
}

// forcedWalkEnd: the same, and the Do of the first entry ends the walk by
// returning a user error ("user"), ErrCancel ("cancel") or by panicking
// ("panic") once the other goroutines have made their calls.
func forcedWalkEnd(kv *pisces.KV, during, probes, after []Op, end string) ([]Call, *Hold) {
	f := &forcedRec{kv: kv}
	hold := &Hold{Writer: false}
	var c1, c2 []Call
	var mu sync.Mutex
	d1 := make(chan struct{})
	d2 := make(chan struct{})
	first := true
	it := &pisces.Iter{
		Make: func() interface{} { return new(json.RawMessage) },
		Do: func(cls string, v interface{}) error {
			if !first {
				return nil
			}
			first = false
			hold.Mid = atomic.AddInt64(&f.clock, 1)
			go func() {
				for _, op := range during {
					c := f.timed(1, op, nil)
					mu.Lock()
					c1 = append(c1, c)
					mu.Unlock()
				}
				close(d1)
			}()
			waitFor(d1)
			go func() {
				for _, op := range probes {
					c := f.timed(2, op, nil)
					mu.Lock()
					c2 = append(c2, c)
					mu.Unlock()
				}
				close(d2)
			}()
			waitFor(d2)
			hold.Out = atomic.AddInt64(&f.clock, 1)
			switch end {
			case "user":
				return errUser
			case "cancel":
				return pisces.ErrCancel
			case "panic":
				panic(userPanic{})
			}
			return nil
		},
	}
	func() {
		defer func() {
			if r := recover(); r != nil {
				if _, mine := r.(userPanic); !mine {
					panic(r)
				}
			}
		}()
		kv.Walk(it)
	}()
	hold.Ret = atomic.AddInt64(&f.clock, 1)
	if first { // nothing to walk over: no schedule was forced
		close(d1)
		close(d2)
	}
	r1, h1 := collect(&mu, &c1, d1, 1, during)
	r2, h2 := collect(&mu, &c2, d2, 2, probes)
	calls := append(r1, r2...)
	if h1 || h2 {
		return calls, hold // the store is stuck: nothing more can be asked of it
	}
	for _, op := range after {
		calls = append(calls, f.timed(3, op, nil))
	}
	return calls, hold
}

// forcedMutate: goroutine 0 runs Mutate(k); inside its function (the value
// has been read, nothing written yet) goroutine 1 runs [during]; when
// [bothRead] is set the first of these is a Mutate whose own function waits
// for goroutine 0's Mutate to finish, and goroutine 0 only waits until that
// function has been entered (both have read, then 0 writes first).
func forcedMutate(kv *pisces.KV, k string, during []Op, bothRead bool, after []Op) ([]Call, *Hold) {
	return forcedMutateAs(kv, "incr", k, during, bothRead, after)
}

// forcedMutateAs: the holder is the given kind of Mutate (incr, incr-fail,
// incr-cancel, incr-panic): its function fails, cancels or panics after the
// other goroutine has made (or queued) its calls.
func forcedMutateAs(kv *pisces.KV, holder, k string, during []Op, bothRead bool, after []Op) ([]Call, *Hold) {
	return forcedMutateOp(kv, Op{Op: holder, K: k}, during, bothRead, after, forcedWait)
}

// forcedMutateOp: the holder is any Mutate. With bothRead the first call of
// [during] is a Mutate whose function, once entered, waits until the holder's
// call has returned - at most innerWait (a holder that does not return but
// tries again, because its commit was refused while the other had read, then
// finds the other's update committed).
func forcedMutateOp(kv *pisces.KV, holder Op, during []Op, bothRead bool, after []Op, innerWait time.Duration) ([]Call, *Hold) {
	f := &forcedRec{kv: kv}
	hold := &Hold{Writer: true}
	var c1 []Call
	var mu sync.Mutex
	d1 := make(chan struct{})
	entered := make(chan struct{})
	zeroDone := make(chan struct{})
	c0 := f.timed(0, holder, func(nth int) {
		if nth > 1 {
			return // the schedule is set up by the first invocation
		}
		hold.Mid = atomic.AddInt64(&f.clock, 1)
		go func() {
			for i, op := range during {
				var cb func(int)
				if bothRead && i == 0 {
					cb = func(nth int) {
						if nth > 1 {
							return
						}
						close(entered)
						select {
						case <-zeroDone:
						case <-time.After(innerWait):
						}
					}
				}
				c := f.timed(1, op, cb)
				mu.Lock()
				c1 = append(c1, c)
				mu.Unlock()
			}
			close(d1)
		}()
		if bothRead {
			waitFor(entered)
		} else {
			waitFor(d1)
		}
		hold.Out = atomic.AddInt64(&f.clock, 1)
	})
	hold.Ret = c0.Ret
	close(zeroDone)
	r1, h1 := collect(&mu, &c1, d1, 1, during)
	calls := append([]Call{c0}, r1...)
	if h1 {
		return calls, hold // the store is stuck: nothing more can be asked of it
	}
	for _, op := range after {
		calls = append(calls, f.timed(3, op, nil))
	}
	return calls, hold
}

type forcedCase struct {
	name string
	run  func(kv *pisces.KV) ([]Call, *Hold)
}

func setBoth(name string, holder, other Op, wait time.Duration, m string, rdc []Op) forcedCase {
	return forcedCase{"mutate-set/both-read:" + name, func(kv *pisces.KV) ([]Call, *Hold) {
		return forcedMutateOp(kv, holder, []Op{other}, true, append([]Op{{Op: "getbytes", K: m}}, rdc...), wait)
	}}
}

func forcedFamily(a, b, n, m string) []forcedCase {
	rd := []Op{{Op: "getbytes", K: a}, {Op: "getbytes", K: b}, {Op: "getbytes", K: n}}
	rdc := append(append([]Op{}, rd...), Op{Op: "count"})
	// afterwards: writers first (they need what the holder held), then the readers
	wrc := append([]Op{{Op: "incr", K: a}, {Op: "append", K: b, V: h("1")}, {Op: "remove", K: n}}, rdc...)
	walk := func(name string, during ...Op) forcedCase {
		return forcedCase{"walk/" + name, func(kv *pisces.KV) ([]Call, *Hold) { return forcedWalk(kv, during, rd, rdc) }}
	}
	return []forcedCase{
		// the schedule on which sqlite was seen to keep a refused transaction open
		{"walk/incr+writes", func(kv *pisces.KV) ([]Call, *Hold) {
			return forcedWalk(kv, []Op{{Op: "incr", K: a}},
				[]Op{{Op: "getbytes", K: a}, {Op: "append", K: b, V: h("7")}, {Op: "getbytes", K: b}, {Op: "incr", K: a}, {Op: "getbytes", K: a}}, rdc)
		}},
		walk("incr", Op{Op: "incr", K: a}),
		walk("append", Op{Op: "append", K: b, V: h("7")}),
		walk("add", Op{Op: "add", K: n, V: h("1")}),
		walk("emplace", Op{Op: "emplace", K: n, V: h("2")}),
		walk("replace", Op{Op: "replace", K: b, V: h("5")}),
		walk("remove", Op{Op: "remove", K: b}),
		walk("add-existing+emplace-existing", Op{Op: "add", K: a, V: h("3")}, Op{Op: "emplace", K: b, V: h("4")}),
		{"mutate/mutate-inside", func(kv *pisces.KV) ([]Call, *Hold) {
			return forcedMutate(kv, a, []Op{{Op: "incr", K: a}}, false, rdc)
		}},
		{"mutate/both-read-then-write", func(kv *pisces.KV) ([]Call, *Hold) {
			return forcedMutate(kv, a, []Op{{Op: "incr", K: a}}, true, rdc)
		}},
		{"mutate/replace-inside", func(kv *pisces.KV) ([]Call, *Hold) {
			return forcedMutate(kv, a, []Op{{Op: "replace", K: a, V: h("41")}}, false, rdc)
		}},
		{"mutate/remove-inside", func(kv *pisces.KV) ([]Call, *Hold) {
			return forcedMutate(kv, a, []Op{{Op: "remove", K: a}}, false, rdc)
		}},
		{"mutate/readers-inside", func(kv *pisces.KV) ([]Call, *Hold) {
			return forcedMutate(kv, a, []Op{{Op: "getbytes", K: a}, {Op: "count"}, {Op: "get", K: b}}, false, rdc)
		}},
		{"mutate/other-key-inside", func(kv *pisces.KV) ([]Call, *Hold) {
			return forcedMutate(kv, a, []Op{{Op: "incr", K: b}, {Op: "append", K: n, V: h("8")}}, false, rdc)
		}},
		// the remaining single-statement writers against an open Mutate of the same key / a new key
		{"mutate/append-inside", func(kv *pisces.KV) ([]Call, *Hold) {
			return forcedMutate(kv, a, []Op{{Op: "append", K: a, V: h("5")}, {Op: "getbytes", K: a}}, false, rdc)
		}},
		{"mutate/add+emplace-inside", func(kv *pisces.KV) ([]Call, *Hold) {
			return forcedMutate(kv, a, []Op{{Op: "add", K: n, V: h("1")}, {Op: "emplace", K: n, V: h("2")}, {Op: "emplace", K: a, V: h("3")},
				{Op: "add", K: a, V: h("4")}}, false, rdc)
		}},
		// the holder's function fails, cancels or panics after the others have made their calls:
		// nothing of it may remain (no lock, no open transaction, no value), the others' calls count
		{"mutate-fail/incr-inside", func(kv *pisces.KV) ([]Call, *Hold) {
			return forcedMutateAs(kv, "incr-fail", a, []Op{{Op: "incr", K: a}, {Op: "append", K: b, V: h("7")}}, false, wrc)
		}},
		{"mutate-cancel/incr-inside", func(kv *pisces.KV) ([]Call, *Hold) {
			return forcedMutateAs(kv, "incr-cancel", a, []Op{{Op: "incr", K: a}, {Op: "replace", K: b, V: h("5")}}, false, wrc)
		}},
		{"mutate-panic/incr-inside", func(kv *pisces.KV) ([]Call, *Hold) {
			return forcedMutateAs(kv, "incr-panic", a, []Op{{Op: "incr", K: a}, {Op: "add", K: n, V: h("1")}}, false, wrc)
		}},
		{"mutate-panic/both-read", func(kv *pisces.KV) ([]Call, *Hold) {
			return forcedMutateAs(kv, "incr-panic", a, []Op{{Op: "incr", K: a}}, true, wrc)
		}},
		// Mutates of a value into which json.Unmarshal merges (a map, a struct with omitted fields): one
		// adds an element, the other removes one; both have read before either writes. A Mutate that
		// reports success must have been applied to the value that was stored when it took effect.
		setBoth("map/2ms", Op{Op: "madd", K: m, V: h("c")}, Op{Op: "mdel", K: m, V: h("b")}, 2*time.Millisecond, m, rdc),
		setBoth("map/3ms", Op{Op: "madd", K: m, V: h("c")}, Op{Op: "mdel", K: m, V: h("b")}, 3*time.Millisecond, m, rdc),
		setBoth("map/4ms", Op{Op: "madd", K: m, V: h("c")}, Op{Op: "mdel", K: m, V: h("b")}, 4*time.Millisecond, m, rdc),
		setBoth("struct/3ms", Op{Op: "sadd", K: m, V: h("c")}, Op{Op: "sdel", K: m, V: h("b")}, 3*time.Millisecond, m, rdc),
		setBoth("struct/8ms", Op{Op: "sdel", K: m, V: h("a")}, Op{Op: "sdel", K: m, V: h("b")}, 8*time.Millisecond, m, rdc),
		{"mutate-set/inside", func(kv *pisces.KV) ([]Call, *Hold) {
			return forcedMutateOp(kv, Op{Op: "madd", K: m, V: h("c")}, []Op{{Op: "mdel", K: m, V: h("b")}, {Op: "sadd", K: m, V: h("d")}},
				false, append([]Op{{Op: "getbytes", K: m}}, rdc...), forcedWait)
		}},
		// a walk that ends by an error, a cancel or a panic of its Do while a writer was refused / queued
		{"walk-fail/incr", func(kv *pisces.KV) ([]Call, *Hold) {
			return forcedWalkEnd(kv, []Op{{Op: "incr", K: a}}, rd, wrc, "user")
		}},
		{"walk-cancel/append", func(kv *pisces.KV) ([]Call, *Hold) {
			return forcedWalkEnd(kv, []Op{{Op: "append", K: b, V: h("7")}}, rd, wrc, "cancel")
		}},
		{"walk-panic/incr", func(kv *pisces.KV) ([]Call, *Hold) {
			return forcedWalkEnd(kv, []Op{{Op: "incr", K: a}}, rd, wrc, "panic")
		}},
	}
}

func main() {
	seed := flag.Uint64("seed", 1, "seed")
	nlin := flag.Int("lin", 150, "short mixed histories per backend")
	nacc := flag.Int("acc", 3, "accounting runs per kind and backend")
	threads := flag.Int("threads", 8, "goroutines in accounting runs (2..16)")
	per := flag.Int("per", 60, "calls per goroutine in accounting runs")
	fresh := flag.Int("fresh", 120, "rounds (fresh keys) of the append-to-absent-key runs")
	flag.Parse()
	r := hx.NewRng(*seed)
	out := hx.NewOut(os.Stdout)
	ev := openEnv()
	defer ev.close()
	i := 0
	emit := func(run Run) {
		if run.Backend == "sqlite" {
			kv2 := ev.reopen()
			var keys []string
			for _, f := range run.Final {
				keys = append(keys, f.K)
			}
			run.Durable = finals(kv2, keys)
			run.DCount = count(kv2)
		}
		run.I = i
		out.Emit(run)
		i++
	}

	linKeys := []string{h("a"), h("b")}
	linVals := []string{h("1"), h("7"), h(`"x"`), h("41")}
	genLinOp := func() Op {
		k := linKeys[r.Intn(len(linKeys))]
		switch r.Intn(10) {
		case 0, 1, 2:
			return Op{Op: "incr", K: k}
		case 3:
			return Op{Op: "append", K: k, V: h([]string{"5", "0", "12"}[r.Intn(3)])}
		case 4:
			return Op{Op: "add", K: k, V: linVals[r.Intn(len(linVals))]}
		case 5:
			return Op{Op: "emplace", K: k, V: linVals[r.Intn(len(linVals))]}
		case 6:
			return Op{Op: "replace", K: k, V: linVals[r.Intn(len(linVals))]}
		case 7:
			return Op{Op: "remove", K: k}
		case 8:
			return Op{Op: "get", K: k}
		default:
			return Op{Op: "getbytes", K: k}
		}
	}

	// corpus first: the family of forced schedules
	newKey := h("n")
	setKey := h("m")
	for _, backend := range []string{"mem", "sqlite"} {
		for _, fc := range forcedFamily(linKeys[0], linKeys[1], newKey, setKey) {
			kv := ev.fresh(backend)
			init := []Op{{Op: "add", K: linKeys[0], V: h("0")}, {Op: "add", K: linKeys[1], V: h("9")},
				{Op: "add", K: setKey, V: h(`{"a":1,"b":1}`)}}
			for _, op := range init {
				apply(kv, op)
			}
			calls, hold := fc.run(kv)
			if backend == "sqlite" {
				hold = nil // sqlite refuses instead of blocking
			}
			stuck := false
			for _, c := range calls {
				stuck = stuck || c.E == "hang"
			}
			if stuck {
				// reading the final contents would block as well
				out.Emit(Run{I: i, Stream: "forced", Name: fc.name, Backend: backend, Threads: 4, Init: init, Calls: calls, Count: -1})
				i++
				if backend == "sqlite" {
					ev.db = nil // leave the stuck pool alone; the next run opens a new file
				}
				continue
			}
			emit(Run{Stream: "forced", Name: fc.name, Backend: backend, Threads: 4, Init: init, Calls: calls,
				Final: finals(kv, []string{linKeys[0], linKeys[1], newKey, setKey}), Count: count(kv), Hold: hold})
		}
	}

	for _, backend := range []string{"mem", "sqlite"} {
		// short mixed histories for the linearizability check
		for j := 0; j < *nlin; j++ {
			kv := ev.fresh(backend)
			var init []Op
			if r.Bool() {
				init = append(init, Op{Op: "add", K: linKeys[0], V: h("0")})
			}
			if r.Intn(3) == 0 {
				init = append(init, Op{Op: "add", K: linKeys[1], V: h("9")})
			}
			for _, op := range init {
				apply(kv, op)
			}
			nt := 2 + r.Intn(2)
			progs := make([][]Op, nt)
			for t := range progs {
				n := 1 + r.Intn(3)
				for x := 0; x < n; x++ {
					progs[t] = append(progs[t], genLinOp())
				}
			}
			calls := execute(kv, progs)
			emit(Run{Stream: "lin", Backend: backend, Threads: nt, Init: init, Calls: calls,
				Final: finals(kv, linKeys), Count: count(kv)})
		}
		// the same with set-valued entries (map and struct targets): adds and removals of elements
		setTexts := []string{`{}`, `{"a":1}`, `{"a":1,"b":1}`, `{"b":1,"d":1}`, `{"a":1,"b":1,"c":1,"d":1}`}
		letters := []string{"a", "b", "c", "d"}
		for j := 0; j < *nlin/3; j++ {
			kv := ev.fresh(backend)
			var init []Op
			if r.Intn(4) != 0 {
				init = append(init, Op{Op: "add", K: setKey, V: h(setTexts[r.Intn(len(setTexts))])})
			}
			for _, op := range init {
				apply(kv, op)
			}
			nt := 2 + r.Intn(2)
			progs := make([][]Op, nt)
			for t := range progs {
				n := 1 + r.Intn(3)
				for x := 0; x < n; x++ {
					var op Op
					switch r.Intn(8) {
					case 0:
						op = Op{Op: "getbytes", K: setKey}
					case 1:
						op = Op{Op: "replace", K: setKey, V: h(setTexts[r.Intn(len(setTexts))])}
					default:
						op = Op{Op: []string{"madd", "mdel", "sadd", "sdel"}[r.Intn(4)], K: setKey, V: h(letters[r.Intn(4)])}
					}
					progs[t] = append(progs[t], op)
				}
			}
			calls := execute(kv, progs)
			emit(Run{Stream: "linset", Backend: backend, Threads: nt, Init: init, Calls: calls,
				Final: finals(kv, []string{setKey}), Count: count(kv)})
		}
		// own element: goroutine t adds and removes its own letter of one shared set, over and over;
		// in the end a letter is in the set iff its goroutine's last successful Mutate was an add
		for j := 0; j < *nacc; j++ {
			kv := ev.fresh(backend)
			init := []Op{{Op: "add", K: setKey, V: h(`{}`)}}
			apply(kv, init[0])
			nt := 2 + r.Intn(3)
			progs := make([][]Op, nt)
			for t := range progs {
				kinds := []string{"madd", "mdel"}
				if t%2 == 1 {
					kinds = []string{"sadd", "sdel"}
				}
				for x := 0; x < *per; x++ {
					progs[t] = append(progs[t], Op{Op: kinds[x%2], K: setKey, V: h(letters[t])})
				}
			}
			calls := execute(kv, progs)
			emit(Run{Stream: "ownset", Backend: backend, Threads: nt, Init: init, Calls: calls,
				Final: finals(kv, []string{setKey}), Count: count(kv)})
		}
		for j := 0; j < *nacc; j++ {
			nt := *threads
			if j > 0 {
				nt = 2 + r.Intn(15)
			}
			// counter: every goroutine increments the same two counters
			{
				kv := ev.fresh(backend)
				keys := []string{h("c0"), h("c1")}
				init := []Op{{Op: "add", K: keys[0], V: h("0")}, {Op: "add", K: keys[1], V: h("0")}}
				for _, op := range init {
					apply(kv, op)
				}
				progs := make([][]Op, nt)
				for t := range progs {
					for x := 0; x < *per; x++ {
						progs[t] = append(progs[t], Op{Op: "incr", K: keys[r.Intn(10)/9]})
					}
				}
				calls := execute(kv, progs)
				emit(Run{Stream: "counter", Backend: backend, Threads: nt, Init: init, Calls: calls,
					Final: finals(kv, keys), Count: count(kv)})
			}
			// append: unique fixed-width tokens onto one value
			{
				kv := ev.fresh(backend)
				keys := []string{h("log")}
				progs := make([][]Op, nt)
				for t := range progs {
					for x := 0; x < *per; x++ {
						progs[t] = append(progs[t], Op{Op: "append", K: keys[0], V: h(fmt.Sprintf("%02d.%04d;", t, x))})
					}
				}
				calls := execute(kv, progs)
				emit(Run{Stream: "append", Backend: backend, Threads: nt, Calls: calls,
					Final: finals(kv, keys), Count: count(kv)})
			}
			// append to ABSENT keys: a fresh key per round, every goroutine appends one token of its own,
			// all released together; in the end the key holds exactly the tokens whose call succeeded.
			// On sqlite once with the default DSN (a contended statement is refused: BUSY) and once with a
			// busy timeout (it waits instead, so all of them really run against the same absent key).
			for _, dsn := range []string{"", "?_pragma=busy_timeout(5000)"} {
				if backend == "mem" && dsn != "" {
					continue
				}
				ev.dsn = dsn
				kv := ev.fresh(backend)
				ev.dsn = ""
				na := 4 + r.Intn(5)
				rounds := *fresh
				var keys []string
				progs := make([][]Op, na)
				for x := 0; x < rounds; x++ {
					keys = append(keys, h(fmt.Sprintf("f%04d", x)))
					for t := range progs {
						progs[t] = append(progs[t], Op{Op: "append", K: keys[x], V: h(fmt.Sprintf("%02d.%04d;", t, x))})
					}
				}
				calls := executeRounds(kv, progs, 1)
				name := "default"
				if dsn != "" {
					name = "busy_timeout"
				}
				emit(Run{Stream: "appendfresh", Name: name, Backend: backend, Threads: na, Calls: calls,
					Final: finals(kv, keys), Count: count(kv)})
			}
			// remove race: every goroutine removes every (existing) key
			{
				kv := ev.fresh(backend)
				var keys []string
				var init []Op
				for x := 0; x < *per/4+1; x++ {
					keys = append(keys, h(fmt.Sprintf("k%03d", x)))
					init = append(init, Op{Op: "add", K: keys[x], V: h("5")})
				}
				for _, op := range init {
					apply(kv, op)
				}
				progs := make([][]Op, nt)
				for t := range progs {
					for _, k := range keys {
						progs[t] = append(progs[t], Op{Op: "remove", K: k})
					}
				}
				calls := executeRounds(kv, progs, 1)
				emit(Run{Stream: "removerace", Backend: backend, Threads: nt, Init: init, Calls: calls,
					Final: finals(kv, keys), Count: count(kv)})
			}
			// add race / emplace race: every goroutine tries every key with its own value
			for _, kind := range []string{"add", "emplace"} {
				kv := ev.fresh(backend)
				var keys []string
				for x := 0; x < *per/4+1; x++ {
					keys = append(keys, h(fmt.Sprintf("k%03d", x)))
				}
				progs := make([][]Op, nt)
				for t := range progs {
					for _, k := range keys {
						progs[t] = append(progs[t], Op{Op: kind, K: k, V: h(fmt.Sprintf("%d", 100+t))})
						if kind == "emplace" {
							// what the goroutine reads once its Emplace has returned is settled for good
							progs[t] = append(progs[t], Op{Op: "getbytes", K: k})
						}
					}
				}
				every := 1
				if kind == "emplace" {
					every = 2 // no barrier between a goroutine's Emplace and its own read
				}
				calls := executeRounds(kv, progs, every)
				emit(Run{Stream: kind + "race", Backend: backend, Threads: nt, Calls: calls,
					Final: finals(kv, keys), Count: count(kv)})
			}
		}
	}
}
