// Command c18 runs the object stores (objects: fs, mem, mapped) and
// hashutil (Hash*, CheckReader) of the repository under test on generated and
// enumerated inputs and prints what it observed, one JSON line per case.
//
// Input readers are scripted: they return planned chunks with planned
// statuses ((n>0,nil), (0,nil), (n>0,EOF), (0,EOF), (n>0,err), (0,err)) and
// record what they actually returned call by call; the recorded script is
// what the Coq model is run on.  For forced interleavings every Read call of
// every concurrent Create waits for the harness to release it.
//
// USAGE-PATTERN TABLE (round 3 audit; anchors objects/{fs,mem,mapped,tmp_file,
// json}.go, hashutil/{hash,check_reader}.go).  "shapes" = what a user-supplied
// value may legally be or return.
//
//	API / state                       shapes and usage patterns                                     streams
//	objects.NewFS(dir)                dir: fresh, nested and absent, trailing slash, x/../s, holding  ctor, every fs-* stream
//	                                    tmp/ leftovers, a regular file, tmp a regular file ((nil,err))
//	                                  again on a directory that holds objects (restart), again while   fs-reopen sched free
//	                                    calls of another store object are in flight
//	 state <dir>/<key>, <dir>/tmp/*   on disk, outlives the store object: histories continue through  fs-reopen fs-stray sched(fs2) free(fs2)
//	                                    a second/third store object; pre-existing strays; two store    fs-peek
//	                                    objects at once
//	 state fsObjects.mu               per store object: 2-16 goroutines on one object, on two objects sched free
//	fsObjects.Create(r)               r: every chunking, (0,nil) reads, both EOF styles, failing after  fs-fault fs-hist sched free
//	                                    every byte (with/without data), panicking; *bytes.Reader/Buffer json
//	                                  contents 0 B .. 70 KB incl. 32767/32768/32769/65536 (copy buffer) fs-hist fs-reopen
//	                                  one object, many calls: re-create same content, call after a     fs-fault fs-hist fs-reopen
//	                                    failed/panicked call, after an OS failure
//	                                  OS failures: tmp/ missing, tmp/ a regular file, tmp/ gone until   fs-osfault fs-reopen
//	                                    the next NewFS, temp file unwritable (RLIMIT_FSIZE), rename
//	                                    blocked by a directory at the key's path
//	fsObjects.Open / Has(key)         stored / never stored / syntactically bad keys; aliases built     fs-hist fs-alias
//	                                    from stored keys (K/, K/., K/../other, upper case, K+x, NUL...)
//	                                  isValidKey thresholds: len 63/64/65; one character just outside  fs-keychars
//	                                    a-z / 0-9 (` { / : G @ [ . - _ NUL DEL) at first, middle and
//	                                    last position; 64-byte strings that are paths to files which
//	                                    exist (../<61>, tmp/<60>, ./<62>)
//	                                  while the key is being committed, through a second store object   fs-peek sched
//	objects.NewMem / NewMemStore      Put / Get / Create / Open / Has histories on one object with       mem-hist mem-alias mem-fault
//	                                    clients overwriting every slice they hold; failing readers
//	objects.NewMapped(Store)          over the memory store                                             mem-hist free(mapped)
//	                                  over a user-supplied Store whose Put / Get / Has return the zero  mem-ustore
//	                                    result with an error, or a NON-ZERO result together with an
//	                                    error, on present and absent keys, followed by undisturbed calls
//	objects.NewPsql(nil)              falls back to the memory store                                    json
//	objects.CreateJSON / ReadJSON     fs, mem, mapped, psql(nil); value that cannot be marshalled;      json
//	                                    object of another type, not JSON, with trailing bytes, absent;
//	                                    user-supplied Objects whose Open returns a reader failing
//	                                    part-way, or a reader together with an error; descriptor count
//	hashutil.Hash/HashStr/HashReader/ lengths around the SHA-256 block (55,56,63,64,65,119,120) and the hash
//	  HashFile                          copy buffer (32767..65536, 70 KB); every chunking; failing
//	                                    reader; missing file; a directory; descriptor count
//	hashutil.NewCheckReader(r,h,n)    h: 14 spellings (case, scheme, odd length, 31/33 bytes, non-hex)  cr-ctor
//	hashutil.NewSHA256CheckReader     digest of 0/16/32/33 bytes, nil; n: -1, -7, 0, len, len+-1, 2^40, cr-digest cr-declared
//	                                    -2^62 (the want slice is kept, not copied: by Go convention the
//	                                    caller gives it away; not exercised)
//	(*CheckReader).Read               underlying reader: every chunking, both EOF styles, (0,nil) runs, cr-genuine cr-corrupt cr-truncate
//	                                    failing at every offset, every single-byte corruption,          cr-extend cr-fail cr-zero cr-random
//	                                    truncation, extension; contract violations                      cr-contract
//	                                  an underlying reader that goes ON after an error or an end-of-    cr-resume
//	                                    stream (retry, growing file): error between genuine halves,
//	                                    corrupt-then-genuine, early EOF then the rest, EOF then more
//	                                  caller: buffers 1,7,4096,65536, mixed, EMPTY buffers; stops early cr-early cr-zerobuf
//	                                    or reads on after the verdict; one CheckReader per stream (the
//	                                    type has no reset), > 2^31 bytes (thorough)                     cr-huge
package main

import (
	"bufio"
	"bytes"
	"compress/gzip"
	"context"
	"crypto/sha256"
	"encoding/hex"
	"encoding/json"
	"errors"
	"flag"
	"fmt"
	"io"
	"os"
	"os/signal"
	"path/filepath"
	"runtime"
	"sort"
	"strings"
	"sync"
	"sync/atomic"
	"syscall"
	"time"

	"shanhu.io/g/errcode"
	"shanhu.io/g/hashutil"
	"shanhu.io/g/objects"
	"verifharness/hx"
)

// ---- byte strings as segments ------------------------------------------------

type Seg struct {
	Hex string  `json:"hex,omitempty"`
	Rep []int   `json:"rep,omitempty"` // [byte, count]
	Gen []int64 `json:"gen,omitempty"` // [seed, offset, count] of a generated stream
}

// Generated streams: byte i of stream `seed` is (b0 + i*step) mod 256 with
// b0 = seed mod 256 and step = bits 8..15 of the seed, made odd (the same
// function is evaluated inside Coq), so that contents and everything cut out
// of them can be written down as (seed, offset, count) instead of literal bytes.
func genByte(seed uint32, i uint32) byte { return byte(seed) + byte(i)*(byte(seed>>8)|1) }

type stream struct {
	seed uint32
	data []byte
	idx  map[uint32][]int32
}

var streams []*stream // the most recent ones

func newStream(r *hx.Rng, n int) []byte {
	seed := uint32(r.U64() >> 33)
	d := make([]byte, n)
	for i := range d {
		d[i] = genByte(seed, uint32(i))
	}
	if n >= 12 {
		streams = append(streams, &stream{seed: seed, data: d})
		if len(streams) > 10 {
			streams = streams[len(streams)-10:]
		}
	}
	return append([]byte{}, d...)
}

func win(b []byte) uint32 {
	return uint32(b[0]) | uint32(b[1])<<8 | uint32(b[2])<<16 | uint32(b[3])<<24
}

func (s *stream) index() {
	if s.idx != nil {
		return
	}
	s.idx = map[uint32][]int32{}
	for i := 0; i+4 <= len(s.data); i++ {
		w := win(s.data[i:])
		if len(s.idx[w]) < 4 {
			s.idx[w] = append(s.idx[w], int32(i))
		}
	}
}

// segsOf writes b as runs of one byte, slices of recent generated streams,
// and literal hex for whatever remains.
var segMu sync.Mutex

func segsOf(b []byte) []Seg {
	segMu.Lock()
	defer segMu.Unlock()
	out := []Seg{}
	i, lit := 0, 0
	flush := func(to int) {
		if to > lit {
			out = append(out, Seg{Hex: hex.EncodeToString(b[lit:to])})
		}
	}
	for i < len(b) {
		j := i
		for j < len(b) && b[j] == b[i] {
			j++
		}
		if j-i >= 24 {
			flush(i)
			out = append(out, Seg{Rep: []int{int(b[i]), j - i}})
			lit, i = j, j
			continue
		}
		best, bestOff := 0, 0
		var bestS *stream
		if i+12 <= len(b) {
			w := win(b[i:])
			for _, s := range streams {
				s.index()
				for _, off := range s.idx[w] {
					m := 0
					for i+m < len(b) && int(off)+m < len(s.data) && b[i+m] == s.data[int(off)+m] {
						m++
					}
					if m > best {
						best, bestOff, bestS = m, int(off), s
					}
				}
			}
		}
		if best >= 12 {
			flush(i)
			out = append(out, Seg{Gen: []int64{int64(bestS.seed), int64(bestOff), int64(best)}})
			lit, i = i+best, i+best
			continue
		}
		i++
	}
	flush(len(b))
	return out
}

// ---- scripted readers -------------------------------------------------------

const (
	stNil  = 0
	stEOF  = 1
	stFail = 2
)

type Chunk struct {
	B  []Seg `json:"b"`
	St int   `json:"st"`
	E  int   `json:"e,omitempty"`
	d  []byte
}

// ScriptJ is written as {"c": all bytes, "k": [[n, status, error] per call]}.
type ScriptJ []Chunk

func (s ScriptJ) MarshalJSON() ([]byte, error) {
	var all []byte
	k := [][3]int{}
	for _, c := range s {
		all = append(all, c.d...)
		k = append(k, [3]int{len(c.d), c.St, c.E})
	}
	return json.Marshal(map[string]interface{}{"c": segsOf(all), "k": k})
}

// TraceJ is written as {"c": all bytes, "k": [[n, code] per call]}.
type TraceJ []TraceEntry

func (t TraceJ) MarshalJSON() ([]byte, error) {
	var all []byte
	k := [][2]int{}
	for _, e := range t {
		all = append(all, e.d...)
		k = append(k, [2]int{len(e.d), e.C})
	}
	return json.Marshal(map[string]interface{}{"c": segsOf(all), "k": k})
}

const panicCode = 255

type injErr struct{ code int }

func (e *injErr) Error() string { return fmt.Sprintf("injected reader failure %d", e.code) }

func plan(d []byte, st, e int) Chunk { return Chunk{d: append([]byte{}, d...), St: st, E: e} }

type scriptReader struct {
	mu      sync.Mutex
	plan    []Chunk
	pos     int
	off     int
	term    int // 0 not yet, else terminal status reached
	termE   int
	rec     []Chunk
	yield   bool
	loose   bool // terminal statuses do not latch: the plan goes on after an error or an end-of-stream (a retried source)
	gateID  int
	arrive  chan int
	gate    chan struct{}
	started bool
}

func newScript(p []Chunk) *scriptReader { return &scriptReader{plan: p} }

func (s *scriptReader) record(d []byte, st, e int) (int, error) {
	s.rec = append(s.rec, Chunk{St: st, E: e, d: append([]byte{}, d...)})
	switch st {
	case stEOF:
		return len(d), io.EOF
	case stFail:
		if e == panicCode {
			// a reader that panics instead of returning an error; the bytes
			// of this call are lost with it
			s.rec[len(s.rec)-1].d = nil
			panic(&injErr{e})
		}
		if v, ok := errValues[e]; ok {
			return len(d), v.err // a well-known error VALUE, not the harness's own type
		}
		return len(d), &injErr{e}
	}
	return len(d), nil
}

// Error VALUES a failing input may return (codes 200..): what truncated gzip /
// http / tar streams, closed pipes, deadlines and cancelled contexts produce,
// and errors that merely look like end-of-stream.  Whatever the value, a read
// error that is not the bare io.EOF means the input FAILED.
type eofLike struct{}

func (eofLike) Error() string        { return "looks like the end" }
func (eofLike) Is(target error) bool { return target == io.EOF }

type errValue struct {
	name string
	err  error
}

var errValues = map[int]errValue{
	200: {"io.ErrUnexpectedEOF", io.ErrUnexpectedEOF},
	201: {"io.ErrClosedPipe", io.ErrClosedPipe},
	202: {"io.ErrShortBuffer", io.ErrShortBuffer},
	203: {"io.ErrNoProgress", io.ErrNoProgress},
	204: {"os.ErrDeadlineExceeded", os.ErrDeadlineExceeded},
	205: {"context.Canceled", context.Canceled},
	206: {"fmt.Errorf(\"%w\", io.EOF)", fmt.Errorf("read body: %w", io.EOF)},
	207: {"an error whose Is(io.EOF) is true", eofLike{}},
	208: {"io.ErrShortWrite", io.ErrShortWrite},
	209: {"fmt.Errorf(\"%w\", io.ErrUnexpectedEOF)", fmt.Errorf("gzip: %w", io.ErrUnexpectedEOF)},
	210: {"errors.New(\"EOF\")", errors.New("EOF")},
}

func errCodeOf(err error) (int, bool) {
	for c, v := range errValues {
		if err == v.err {
			return c, true
		}
	}
	return 0, false
}

// recReader records what a real reader (gzip over a truncated stream) returned, call by call, as a script.
type recReader struct {
	r   io.Reader
	rec []Chunk
}

func (x *recReader) Read(p []byte) (int, error) {
	n, err := x.r.Read(p)
	c := Chunk{d: append([]byte{}, p[:n]...)}
	switch {
	case err == io.EOF:
		c.St = stEOF
	case err != nil:
		c.St = stFail
		c.E = 99
		if code, ok := errCodeOf(err); ok {
			c.E = code
		}
	}
	x.rec = append(x.rec, c)
	return n, err
}

func (s *scriptReader) Read(p []byte) (int, error) {
	if s.gate != nil {
		s.arrive <- s.gateID
		<-s.gate
	}
	if s.yield {
		runtime.Gosched()
	}
	s.mu.Lock()
	defer s.mu.Unlock()
	if s.term != 0 {
		return s.record(nil, s.term, s.termE)
	}
	if s.pos >= len(s.plan) {
		s.term = stEOF
		return s.record(nil, stEOF, 0)
	}
	c := &s.plan[s.pos]
	rest := c.d[s.off:]
	n := copy(p, rest)
	if n < len(rest) {
		s.off += n
		return s.record(p[:n], stNil, 0)
	}
	s.pos++
	s.off = 0
	if c.St != stNil && !s.loose {
		s.term, s.termE = c.St, c.E
	}
	return s.record(p[:n], c.St, c.E)
}

func (s *scriptReader) recorded() []Chunk {
	s.mu.Lock()
	defer s.mu.Unlock()
	out := make([]Chunk, len(s.rec))
	copy(out, s.rec)
	return out
}

// delivered returns the bytes of a recorded script up to the first terminal
// status, and that status.
func delivered(rec []Chunk) ([]byte, int, int) {
	var out []byte
	for _, c := range rec {
		out = append(out, c.d...)
		if c.St != stNil {
			return out, c.St, c.E
		}
	}
	return out, stEOF, 0
}

// splitPlan cuts content into planned chunks.
// style: 0 whole, 1 per byte, 2 random pieces, 3 random pieces with empty reads
// ending: 0 separate (0,EOF), 1 (n>0,EOF) with the last chunk
func splitPlan(r *hx.Rng, d []byte, style, ending int) []Chunk {
	if style == 1 && len(d) > 64 {
		style = 2
	}
	var pieces [][]byte
	switch style {
	case 0:
		if len(d) > 0 {
			pieces = append(pieces, d)
		}
	case 1:
		for i := range d {
			pieces = append(pieces, d[i:i+1])
		}
	default:
		i := 0
		for i < len(d) {
			m := 1 + r.Intn(1+len(d)/2)
			if i+m > len(d) {
				m = len(d) - i
			}
			pieces = append(pieces, d[i:i+m])
			i += m
		}
	}
	var out []Chunk
	for _, p := range pieces {
		if style == 3 && r.Intn(3) == 0 {
			out = append(out, plan(nil, stNil, 0))
		}
		out = append(out, plan(p, stNil, 0))
	}
	if ending == 1 && len(out) > 0 {
		out[len(out)-1].St = stEOF
	} else {
		out = append(out, plan(nil, stEOF, 0))
	}
	return out
}

// failPlan delivers d[:off] and then fails: withData: the failing call also
// returns the last byte(s).
func failPlan(r *hx.Rng, d []byte, off int, withData bool, style, code int) []Chunk {
	p := splitPlan(r, d[:off], style, 0)
	p = p[:len(p)-1] // drop the EOF
	if withData && len(p) > 0 {
		p[len(p)-1].St = stFail
		p[len(p)-1].E = code
		return p
	}
	return append(p, plan(nil, stFail, code))
}

// ---- observations -----------------------------------------------------------

type Obs struct {
	T   string `json:"t"` // key errin erros panic other found notfound bool unit timeout
	Key string `json:"key,omitempty"`
	E   int    `json:"e,omitempty"`
	B   []Seg  `json:"b,omitempty"`
	V   bool   `json:"v,omitempty"`
	Msg string `json:"msg,omitempty"`
	Pos *int64 `json:"pos,omitempty"` // shaped readers: where the reader stands after the call (bytes of the underlying stream)
	d   []byte
}

func errObs(err error) Obs {
	if code, ok := errCodeOf(err); ok {
		return Obs{T: "errin", E: code} // the very value the input returned
	}
	var ie *injErr
	if errors.As(err, &ie) {
		return Obs{T: "errin", E: ie.code}
	}
	var pe *os.PathError
	var le *os.LinkError
	var en syscall.Errno
	if errors.As(err, &pe) || errors.As(err, &le) || errors.As(err, &en) {
		return Obs{T: "erros", Msg: short(err.Error())}
	}
	return Obs{T: "other", Msg: short(err.Error())}
}

func short(s string) string {
	if len(s) > 160 {
		return s[:160]
	}
	return s
}

func createObsRaw(o objects.Objects, r io.Reader) (ob Obs) {
	defer func() {
		if p := recover(); p != nil {
			if ie, ok := p.(*injErr); ok {
				// the reader's own panic came out of Create: observed like its error
				ob = Obs{T: "errin", E: ie.code, Msg: "panic"}
				return
			}
			ob = Obs{T: "panic", Msg: short(fmt.Sprint(p))}
		}
	}()
	k, err := o.Create(r)
	if err != nil {
		return errObs(err)
	}
	return Obs{T: "key", Key: k}
}

func openObsRaw(o objects.Objects, key string) (ob Obs) {
	defer func() {
		if p := recover(); p != nil {
			ob = Obs{T: "panic", Msg: short(fmt.Sprint(p))}
		}
	}()
	rc, err := o.Open(key)
	if err != nil {
		if errcode.IsNotFound(err) {
			return Obs{T: "notfound"}
		}
		return errObs(err)
	}
	defer rc.Close()
	bs, err := io.ReadAll(rc)
	if err != nil {
		return errObs(err)
	}
	return Obs{T: "found", B: segsOf(bs), d: bs}
}

func hasObsRaw(o objects.Objects, key string) Obs {
	h, err := o.Has(key)
	if err != nil {
		return errObs(err)
	}
	return Obs{T: "bool", V: h}
}

// A call of the code under test that does not return within the limit is an
// observation ("timeout"); the harness then finishes the current case and
// stops, because the goroutine cannot be killed.
var hung int32

const callLimit = 30 * time.Second

func limited(f func() Obs) Obs {
	ch := make(chan Obs, 1)
	go func() { ch <- f() }()
	select {
	case ob := <-ch:
		return ob
	case <-time.After(callLimit):
		atomic.StoreInt32(&hung, 1)
		return Obs{T: "timeout"}
	}
}

func createObs(o objects.Objects, r io.Reader) Obs {
	return limited(func() Obs { return createObsRaw(o, r) })
}
func openObs(o objects.Objects, key string) Obs {
	return limited(func() Obs { return openObsRaw(o, key) })
}
func hasObs(o objects.Objects, key string) Obs {
	return limited(func() Obs { return hasObsRaw(o, key) })
}

// ---- digest table -----------------------------------------------------------

type tabT struct {
	seen map[string]bool
	rows [][2]interface{}
}

func newTab() *tabT { return &tabT{seen: map[string]bool{}} }

func (t *tabT) add(d []byte) {
	if t.seen[string(d)] {
		return
	}
	t.seen[string(d)] = true
	s := sha256.Sum256(d)
	t.rows = append(t.rows, [2]interface{}{segsOf(d), hex.EncodeToString(s[:])})
}

func shaHex(d []byte) string {
	s := sha256.Sum256(d)
	return hex.EncodeToString(s[:])
}

// ---- cases ------------------------------------------------------------------

type Op struct {
	Op     string  `json:"op"`
	Script ScriptJ `json:"script,omitempty"`
	Key    string  `json:"key,omitempty"`
	Fault  string  `json:"fault,omitempty"`
	B      []Seg   `json:"b,omitempty"`
	H      int     `json:"h"`
	E      int     `json:"e,omitempty"`     // user store: the error code it injects
	Shape  string  `json:"shape,omitempty"` // create: the concrete reader type handed in (B = the whole underlying stream)
	K      int     `json:"k,omitempty"`     // ... positioned at this offset before the call: the content supplied is B[K:]
	Ls     *Ls     `json:"ls,omitempty"`
	d      []byte
	plan   []Chunk
}

type Ls struct {
	Keys    []string `json:"keys"`
	Tmps    [][]Seg  `json:"tmps"`
	BadObjs []string `json:"badobjs,omitempty"` // object files whose content does not hash to their name
	Odd     []string `json:"odd,omitempty"`     // entries that are neither objects nor known strays
}

type Step struct {
	Tid    int     `json:"tid"`
	Ls     Ls      `json:"ls"`
	Probes []Probe `json:"probes"`
}

type Probe struct {
	Key string `json:"key"`
	Obs Obs    `json:"obs"`
}

type TraceEntry struct {
	B []Seg `json:"b"`
	C int   `json:"c"`
	d []byte
}

type Case struct {
	I       int              `json:"i"`
	Stream  string           `json:"stream"`
	Kind    string           `json:"kind,omitempty"`
	Ops     []Op             `json:"ops,omitempty"`
	Obs     []Obs            `json:"obs,omitempty"`
	Final   *Ls              `json:"final,omitempty"`
	Strays  string           `json:"strays,omitempty"` // "ok" or what happened to them
	Scripts []ScriptJ        `json:"scripts,omitempty"`
	Steps   []Step           `json:"steps,omitempty"`
	Results []Obs            `json:"results,omitempty"`
	Opens   []Probe          `json:"opens,omitempty"`
	Tab     [][2]interface{} `json:"tab"`
	// check reader
	Ctor     string  `json:"ctor,omitempty"` // raw | str
	Want     string  `json:"want,omitempty"` // hex of the digest handed to the constructor
	HStr     string  `json:"hstr,omitempty"` // string handed to NewCheckReader
	CtorCode int     `json:"ctorcode"`
	N        int64   `json:"n"`
	Genuine  []Seg   `json:"genuine,omitempty"`
	Script   ScriptJ `json:"script,omitempty"`
	Trace    TraceJ  `json:"trace,omitempty"`
	Note     string  `json:"note,omitempty"`
	FDs      []int   `json:"fds,omitempty"` // open descriptors before and after the case
}

var scratch string

func mkStoreDir() string {
	d, err := os.MkdirTemp(scratch, "store")
	if err != nil {
		panic(err)
	}
	return d
}

func isKeyName(n string) bool {
	if len(n) != 64 {
		return false
	}
	for _, c := range n {
		if !(c >= 'a' && c <= 'z' || c >= '0' && c <= '9') {
			return false
		}
	}
	return true
}

// listDir reads the store directory without going through the store.
func listDir(dir string, strayTop, strayTmp map[string]bool) Ls {
	ls := Ls{Keys: []string{}, Tmps: [][]Seg{}}
	ents, _ := os.ReadDir(dir)
	for _, e := range ents {
		n := e.Name()
		if n == "tmp" || strayTop[n] {
			continue
		}
		if !isKeyName(n) || !e.Type().IsRegular() {
			ls.Odd = append(ls.Odd, n)
			continue
		}
		ls.Keys = append(ls.Keys, n)
		bs, err := os.ReadFile(filepath.Join(dir, n))
		if err != nil || shaHex(bs) != n {
			ls.BadObjs = append(ls.BadObjs, n)
		}
	}
	sort.Strings(ls.Keys)
	tents, _ := os.ReadDir(filepath.Join(dir, "tmp"))
	var tmps [][]byte
	for _, e := range tents {
		if strayTmp[e.Name()] {
			continue
		}
		bs, _ := os.ReadFile(filepath.Join(dir, "tmp", e.Name()))
		tmps = append(tmps, bs)
	}
	sort.Slice(tmps, func(i, j int) bool { return bytes.Compare(tmps[i], tmps[j]) < 0 })
	for _, t := range tmps {
		ls.Tmps = append(ls.Tmps, segsOf(t))
	}
	return ls
}

type gen struct {
	r     *hx.Rng
	out   *hx.Out
	count int
	big   int
}

func (g *gen) emit(c *Case) {
	c.I = g.count
	g.count++
	if c.Tab == nil {
		c.Tab = [][2]interface{}{}
	}
	if atomic.LoadInt32(&hung) != 0 && c.Note == "" {
		c.Note = "stuck"
	}
	g.out.Emit(c)
	if atomic.LoadInt32(&hung) != 0 {
		os.Exit(3)
	}
}

func (g *gen) content() []byte {
	r := g.r
	switch c := r.Intn(20); {
	case c == 0:
		return []byte{}
	case c < 10:
		return newStream(r, 1+r.Intn(40))
	case c < 15:
		return newStream(r, 100+r.Intn(900))
	case c < 19:
		b := bytes.Repeat([]byte{byte(r.Intn(256))}, 600+r.Intn(3000))
		return append(append(r.Bytes(r.Intn(5)), b...), newStream(r, 12+r.Intn(50))...)
	default:
		sizes := []int{32767, 32768, 32769, 65536, g.big}
		n := sizes[r.Intn(len(sizes))]
		if r.Bool() {
			return newStream(r, n)
		}
		b := bytes.Repeat([]byte{byte(r.Intn(256))}, n)
		return append(b, r.Bytes(r.Intn(4))...)
	}
}

// ---- concrete reader types handed to Create ---------------------------------
//
// Create takes an io.Reader; callers hand in *bytes.Reader, *strings.Reader,
// *os.File, *io.SectionReader, *bytes.Buffer ... which also implement Seeker,
// WriterTo, ReaderFrom (io.Copy's fast paths), and which need not stand at
// their beginning (a header was read before).  The content supplied is what
// can be read from the reader's CURRENT position.

type shapedInput struct {
	r    io.Reader
	pos  func() int64 // position in the whole underlying stream
	done func()
}

// custom: a user type that is a ReadSeeker and a WriterTo over its own buffer.
type customRS struct {
	d   []byte
	off int64
}

func (c *customRS) Read(p []byte) (int, error) {
	if c.off >= int64(len(c.d)) {
		return 0, io.EOF
	}
	n := copy(p, c.d[c.off:])
	if n > 3 {
		n = 3 + (n-3)/2 // short reads
	}
	c.off += int64(n)
	return n, nil
}

func (c *customRS) Seek(off int64, whence int) (int64, error) {
	switch whence {
	case io.SeekCurrent:
		off += c.off
	case io.SeekEnd:
		off += int64(len(c.d))
	}
	if off < 0 {
		return 0, errors.New("negative position")
	}
	c.off = off
	return off, nil
}

func (c *customRS) WriteTo(w io.Writer) (int64, error) {
	if c.off >= int64(len(c.d)) {
		return 0, nil
	}
	n, err := w.Write(c.d[c.off:])
	c.off += int64(n)
	return int64(n), err
}

var shapeNames = []string{"bytes", "strings", "file", "section", "buffer", "custom", "wrapped", "bufio"}

func mkShaped(shape string, whole []byte, k int) *shapedInput {
	seekPos := func(s io.Seeker) func() int64 {
		return func() int64 { p, _ := s.Seek(0, io.SeekCurrent); return p }
	}
	nop := func() {}
	switch shape {
	case "bytes":
		r := bytes.NewReader(whole)
		r.Seek(int64(k), io.SeekStart)
		return &shapedInput{r, seekPos(r), nop}
	case "strings":
		r := strings.NewReader(string(whole))
		r.Seek(int64(k), io.SeekStart)
		return &shapedInput{r, seekPos(r), nop}
	case "file":
		f, err := os.CreateTemp(scratch, "input")
		if err != nil {
			panic(err)
		}
		f.Write(whole)
		f.Seek(int64(k), io.SeekStart)
		return &shapedInput{f, seekPos(f), func() { f.Close(); os.Remove(f.Name()) }}
	case "section":
		// the stream is a section of something larger; Seek(0) is the section's start
		under := append([]byte("#pad#"), whole...)
		under = append(under, "#tail#"...)
		r := io.NewSectionReader(bytes.NewReader(under), 5, int64(len(whole)))
		r.Seek(int64(k), io.SeekStart)
		return &shapedInput{r, seekPos(r), nop}
	case "buffer":
		b := bytes.NewBuffer(append([]byte{}, whole...))
		b.Next(k)
		return &shapedInput{b, func() int64 { return int64(len(whole) - b.Len()) }, nop}
	case "custom":
		r := &customRS{d: whole, off: int64(k)}
		return &shapedInput{r, func() int64 { return r.off }, nop}
	case "bufio":
		under := bytes.NewReader(whole)
		r := bufio.NewReaderSize(under, 16)
		r.Discard(k)
		return &shapedInput{r, func() int64 { p, _ := under.Seek(0, io.SeekCurrent); return p - int64(r.Buffered()) }, nop}
	default: // wrapped: nothing but Read is visible
		under := bytes.NewReader(whole)
		under.Seek(int64(k), io.SeekStart)
		return &shapedInput{struct{ io.Reader }{under}, seekPos(under), nop}
	}
}

// every reader type, at offsets 0, 1, 7, the middle and the end, for a small and a copy-buffer-sized
// stream: create, look the content up, create the same again (already stored), through fs, mem and mapped
func (g *gen) shapeCases() {
	r := g.r
	for _, L := range []int{24, 40000} {
		for si, shape := range shapeNames {
			whole := newStream(r, L)
			var fops, mops []Op
			for _, k := range []int{0, 1, 7, L / 2, L} {
				content := whole[k:]
				kc, kw := shaHex(content), shaHex(whole)
				fops = append(fops, Op{Op: "create", Shape: shape, K: k, d: whole},
					Op{Op: "has", Key: kc}, Op{Op: "open", Key: kc}, Op{Op: "has", Key: kw},
					Op{Op: "create", Shape: shape, K: k, d: whole})
				mops = append(mops, Op{Op: []string{"create", "pcreate"}[(si+k)%2], Shape: shape, K: k, d: whole},
					Op{Op: "has", Key: kc}, Op{Op: "popen", Key: kc}, Op{Op: "phas", Key: kw},
					Op{Op: []string{"pcreate", "create"}[(si+k)%2], Shape: shape, K: k, d: whole})
			}
			g.runFsOps("fs-shapes", fops, false)
			g.runMemOps("mem-shapes", "mem", mops)
		}
	}
}

// ---- fs histories -----------------------------------------------------------

type fsEnv struct {
	outside  []string // planted files beside the store directory
	dir      string
	o        objects.Objects
	strayTop map[string]bool
	strayTmp map[string]bool
	strayDat map[string][]byte
}

func newFsEnv(strays bool, r *hx.Rng) *fsEnv {
	e := &fsEnv{dir: mkStoreDir(), strayTop: map[string]bool{}, strayTmp: map[string]bool{}, strayDat: map[string][]byte{}}
	if strays {
		os.MkdirAll(filepath.Join(e.dir, "tmp"), 0700)
		for i := 0; i < 3; i++ {
			n := hex.EncodeToString(r.Bytes(32))
			p := filepath.Join(e.dir, "tmp", n)
			d := r.Bytes(r.Intn(20))
			os.WriteFile(p, d, 0600)
			e.strayTmp[n] = true
			e.strayDat[p] = d
		}
		p := filepath.Join(e.dir, "README")
		os.WriteFile(p, []byte("not an object"), 0600)
		e.strayTop["README"] = true
		e.strayDat[p] = []byte("not an object")
		os.Mkdir(filepath.Join(e.dir, "subdir"), 0700)
		e.strayTop["subdir"] = true
	}
	o, err := objects.NewFS(e.dir)
	if err != nil {
		panic(err)
	}
	e.o = o
	return e
}

func (e *fsEnv) straysState() string {
	for p, d := range e.strayDat {
		bs, err := os.ReadFile(p)
		if err != nil {
			return "stray file gone: " + filepath.Base(p)
		}
		if !bytes.Equal(bs, d) {
			return "stray file changed: " + filepath.Base(p)
		}
	}
	return "ok"
}

// countFDs: open file descriptors of this process (a Create that forgets to
// close its temp file on some path shows up here).
func countFDs() int {
	ents, err := os.ReadDir("/proc/self/fd")
	if err != nil {
		return -1
	}
	return len(ents)
}

func (e *fsEnv) ls() Ls { return listDir(e.dir, e.strayTop, e.strayTmp) }

func (e *fsEnv) close() {
	os.RemoveAll(e.dir)
	os.RemoveAll(e.dir + ".tmpaway")
	for _, p := range e.outside {
		os.Remove(p)
	}
}

// limitFileSize makes every write to a regular file fail (EFBIG) until the
// returned function is called.
func limitFileSize() func() {
	signal.Ignore(syscall.SIGXFSZ)
	var old syscall.Rlimit
	if err := syscall.Getrlimit(syscall.RLIMIT_FSIZE, &old); err != nil {
		return func() {}
	}
	lim := old
	lim.Cur = 0
	syscall.Setrlimit(syscall.RLIMIT_FSIZE, &lim)
	return func() { syscall.Setrlimit(syscall.RLIMIT_FSIZE, &old) }
}

// runFsOps executes ops on a fresh fs store.
func (g *gen) runFsOps(stream string, ops []Op, strays bool) {
	e := newFsEnv(strays, g.r)
	defer e.close()
	tab := newTab()
	c := &Case{Stream: stream, Kind: "fs"}
	fds0 := countFDs()
	for i := range ops {
		op := &ops[i]
		var ob Obs
		switch op.Op {
		case "create":
			if op.Shape == "gzipcut" {
				// a real gzip.Reader over a compressed stream that ends K bytes early
				var zb bytes.Buffer
				zw := gzip.NewWriter(&zb)
				zw.Write(op.d)
				zw.Close()
				cut := zb.Bytes()[:zb.Len()-op.K]
				gz, err := gzip.NewReader(bytes.NewReader(cut))
				if err != nil {
					ob = Obs{T: "other", Msg: "gzip header: " + err.Error()}
					break
				}
				rr := &recReader{r: gz}
				ob = createObs(e.o, rr)
				op.Script = rr.rec
				op.B = segsOf(op.d)
				if d, st, _ := delivered(op.Script); st == stEOF {
					tab.add(d)
				}
				break
			}
			if op.Shape != "" {
				in := mkShaped(op.Shape, op.d, op.K)
				ob = createObs(e.o, in.r)
				pos := in.pos()
				ob.Pos = &pos
				in.done()
				op.Script = ScriptJ{plan(op.d[op.K:], stEOF, 0)}
				op.B = segsOf(op.d)
				tab.add(op.d[op.K:])
				break
			}
			sr := newScript(op.plan)
			var undo func()
			switch op.Fault {
			case "createtemp":
				away := e.dir + ".tmpaway"
				os.Rename(filepath.Join(e.dir, "tmp"), away)
				undo = func() { os.Rename(away, filepath.Join(e.dir, "tmp")) }
			case "tmpisfile": // the staging directory is a regular file while the call runs
				away := e.dir + ".tmpaway"
				os.Rename(filepath.Join(e.dir, "tmp"), away)
				os.WriteFile(filepath.Join(e.dir, "tmp"), []byte("not a directory"), 0600)
				undo = func() { os.Remove(filepath.Join(e.dir, "tmp")); os.Rename(away, filepath.Join(e.dir, "tmp")) }
			case "tmpgone": // the staging directory disappears and stays away until the store is opened again
				os.Rename(filepath.Join(e.dir, "tmp"), e.dir+".tmpaway")
			case "tmpstillgone":
			case "teewrite": // writing the temp file fails (file size limit 0)
				undo = limitFileSize()
			case "rename":
				full, _, _ := planDelivered(op.plan)
				p := filepath.Join(e.dir, shaHex(full))
				if _, err := os.Lstat(p); err == nil {
					op.Fault = "" // already an object: the fault cannot be staged
				} else {
					os.Mkdir(p, 0700)
					undo = func() { os.Remove(p) }
				}
			}
			ob = createObs(e.o, sr)
			if undo != nil {
				undo()
			}
			op.Script = sr.recorded()
			d, st, _ := delivered(op.Script)
			if st == stEOF {
				tab.add(d)
			}
		case "open":
			ob = openObs(e.o, op.Key)
		case "has":
			ob = hasObs(e.o, op.Key)
		case "newfs": // a new store object on the same directory takes over (a restarted process)
			o2, err := objects.NewFS(e.dir)
			if err != nil {
				ob = errObs(err)
			} else {
				e.o = o2
				ob = Obs{T: "unit"}
			}
		case "plant": // a file that is not an object, at a place a path-like key would resolve to
			pth := filepath.Join(e.dir, op.Key)
			os.MkdirAll(filepath.Dir(pth), 0700)
			os.WriteFile(pth, op.d, 0600)
			e.strayDat[pth] = op.d
			if strings.HasPrefix(op.Key, "tmp/") {
				e.strayTmp[strings.TrimPrefix(op.Key, "tmp/")] = true
			} else if strings.HasPrefix(op.Key, "../") {
				e.outside = append(e.outside, pth)
			} else if !strings.Contains(op.Key, "/") {
				e.strayTop[op.Key] = true
			}
			ob = Obs{T: "unit"}
		}
		ls := e.ls()
		op.Ls = &ls
		c.Obs = append(c.Obs, ob)
		if atomic.LoadInt32(&hung) != 0 {
			ops = ops[:i+1]
			break
		}
	}
	fin := e.ls()
	c.Final = &fin
	c.Ops = ops
	c.Strays = e.straysState()
	c.Tab = tab.rows
	c.FDs = []int{fds0, countFDs()}
	g.emit(c)
}

func planDelivered(p []Chunk) ([]byte, int, int) {
	var out []byte
	for _, c := range p {
		out = append(out, c.d...)
		if c.St != stNil {
			return out, c.St, c.E
		}
	}
	return out, stEOF, 0
}

var badKeys = []string{
	"", "not a hash", "tmp", "../tmp", "tmp/x",
	strings.Repeat("A", 64), strings.Repeat("a", 63), strings.Repeat("a", 65),
	strings.Repeat("a", 63) + "/", strings.Repeat("a", 63) + ".", strings.Repeat("\xc3\xa9", 32),
	strings.Repeat("z", 64),
}

// aliasKey derives a string that is NOT a key from keys of stored objects: path
// suffixes and prefixes that the file system would resolve to an object file, to
// another object, to the staging directory or out of the store.  None of them may
// ever be found (the bytes would not hash to the string that was asked for).
func aliasKey(r *hx.Rng, keys []string) string {
	k := keys[r.Intn(len(keys))]
	o := keys[r.Intn(len(keys))]
	switch r.Intn(14) {
	case 0:
		return k + "/"
	case 1:
		return k + "/."
	case 2:
		return k + "/../" + o
	case 3:
		return o + "/../" + k
	case 4:
		return "./" + k
	case 5:
		return k + "/../tmp"
	case 6:
		return k + "/../tmp/../" + o
	case 7:
		return strings.ToUpper(k)
	case 8:
		return k + "x"
	case 9:
		return k + "\x00"
	case 10:
		return "/" + k
	case 11:
		return k + "//"
	case 12:
		return strings.Repeat("0", 64) + "/../" + k
	default:
		return k[:63]
	}
}

// fixed alias histories: every alias shape against two stored objects
func (g *gen) fsAliases() {
	r := g.r
	for rep := 0; rep < 3; rep++ {
		d1, d2 := g.content(), g.content()
		ops := []Op{{Op: "create", plan: splitPlan(r, d1, 1, 0)}, {Op: "create", plan: splitPlan(r, d2, 2, 0)}}
		k1, k2 := shaHex(d1), shaHex(d2)
		z := strings.Repeat("0", 64)
		for _, a := range []string{
			k1 + "/", k1 + "/.", k1 + "/../" + k2, z + "/../" + k2, z + "/../" + k1, "./" + k1, k1 + "/../tmp",
			k1 + "/../tmp/../" + k2, strings.ToUpper(k1), k1 + "x", k1 + "\x00", "/" + k1, k1 + "//", k2[:63],
			z + "/../../" + k1, k1 + "/../../x",
		} {
			ops = append(ops, Op{Op: "open", Key: a}, Op{Op: "has", Key: a})
		}
		g.runFsOps("fs-alias", ops, false)
	}
}

// Strings that differ from a stored key in one character just outside the
// accepted ranges, at the first, a middle and the last position; and 64-byte
// strings that are paths to files which exist but are not objects.
func (g *gen) fsKeyChars() {
	r := g.r
	d1 := g.content()
	k1 := shaHex(d1)
	ops := []Op{{Op: "create", plan: splitPlan(r, d1, 2, 0)}}
	for _, pos := range []int{0, 31, 63} {
		for _, ch := range []string{"`", "{", "/", ":", "G", "\x00", "\x7f", ".", " ", "-", "_", "@", "[", "Z", "A"} {
			a := k1[:pos] + ch + k1[pos+1:]
			ops = append(ops, Op{Op: "open", Key: a}, Op{Op: "has", Key: a})
		}
	}
	beside := strings.Repeat("b", 61) // "../"+beside is 64 bytes long
	staged := strings.Repeat("c", 60) // "tmp/"+staged too
	under := strings.Repeat("d", 62)  // "./"+under
	ops = append(ops, Op{Op: "plant", Key: "../" + beside, d: []byte("beside the store")},
		Op{Op: "plant", Key: "tmp/" + staged, d: []byte("in the staging directory")},
		Op{Op: "plant", Key: under, d: []byte("62 characters")})
	for _, a := range []string{"../" + beside, "tmp/" + staged, "./" + under, under, under + "/.", "tmp/../" + k1[:57]} {
		ops = append(ops, Op{Op: "open", Key: a}, Op{Op: "has", Key: a})
	}
	ops = append(ops, Op{Op: "open", Key: k1})
	g.runFsOps("fs-keychars", ops, false)
}

// One directory, several store objects one after the other (a restarted
// process): objects stay, an object already there is accepted again, a lost
// staging directory comes back with the next store object.
func (g *gen) fsReopen(n int) {
	r := g.r
	for i := 0; i < n; i++ {
		d1, d2, d3 := g.content(), newStream(r, 1+r.Intn(50)), newStream(r, 1+r.Intn(50))
		k1, k2, k3 := shaHex(d1), shaHex(d2), shaHex(d3)
		ops := []Op{
			{Op: "create", plan: splitPlan(r, d1, r.Intn(4), r.Intn(2))},
			{Op: "newfs"},
			{Op: "open", Key: k1}, {Op: "has", Key: k1},
			{Op: "create", plan: splitPlan(r, d1, r.Intn(4), r.Intn(2))},
			{Op: "create", plan: failPlan(r, d2, r.Intn(len(d2)+1), r.Bool(), 2, 3)},
			{Op: "newfs"},
			{Op: "has", Key: k2},
			{Op: "create", plan: splitPlan(r, d2, r.Intn(4), r.Intn(2))},
			{Op: "create", plan: splitPlan(r, d3, r.Intn(3), 0), Fault: []string{"tmpgone", "tmpisfile", "teewrite"}[i%3]},
			{Op: "has", Key: k3}, {Op: "open", Key: k2},
		}
		if i%3 == 0 {
			ops = append(ops, Op{Op: "create", plan: splitPlan(r, d3, 1, 1), Fault: "tmpstillgone"}, Op{Op: "open", Key: k3}, Op{Op: "newfs"})
		}
		ops = append(ops, Op{Op: "create", plan: splitPlan(r, d3, r.Intn(4), r.Intn(2))},
			Op{Op: "open", Key: k3}, Op{Op: "open", Key: k1}, Op{Op: "newfs"}, Op{Op: "open", Key: k3})
		g.runFsOps("fs-reopen", ops, false)
	}
	// the temp file cannot be written: every chunking, contents around the copy buffer
	for i, L := range []int{1, 2, 40, 32768, 32769, 70000} {
		d := newStream(r, L)
		ops := []Op{
			{Op: "create", plan: splitPlan(r, d, i%4, i%2), Fault: "teewrite"},
			{Op: "has", Key: shaHex(d)},
			{Op: "create", plan: splitPlan(r, d, (i+1)%4, 0)},
			{Op: "open", Key: shaHex(d)},
		}
		g.runFsOps("fs-reopen", ops, false)
	}
}

// NewFS itself: what it does with a directory that cannot be a store, and
// with spellings of a directory that can.
func (g *gen) ctorCases() {
	r := g.r
	for _, kind := range []string{"dirisfile", "tmpisfile", "nested", "trailing", "dotdot", "existing"} {
		base := mkStoreDir()
		dir := filepath.Join(base, "s")
		c := &Case{Stream: "ctor", Kind: kind}
		switch kind {
		case "dirisfile":
			os.WriteFile(dir, []byte("a file"), 0600)
		case "tmpisfile":
			os.MkdirAll(dir, 0700)
			os.WriteFile(filepath.Join(dir, "tmp"), []byte("a file"), 0600)
		case "nested":
			dir = filepath.Join(base, "a", "b", "c")
		case "trailing":
			dir = dir + "/"
		case "dotdot":
			dir = filepath.Join(base, "x") + "/../s"
			os.MkdirAll(filepath.Join(base, "x"), 0700)
		case "existing":
			os.MkdirAll(filepath.Join(dir, "tmp"), 0700)
			os.WriteFile(filepath.Join(dir, "tmp", "leftover"), []byte("from a crash"), 0600)
		}
		o, err := objects.NewFS(dir)
		if err != nil {
			ob := errObs(err)
			ob.V = o != nil // a store AND an error?
			c.Obs = append(c.Obs, ob)
		} else {
			c.Obs = append(c.Obs, Obs{T: "unit"})
			d := newStream(r, 20)
			c.Obs = append(c.Obs, createObs(o, newScript(splitPlan(r, d, 2, 0))), openObs(o, shaHex(d)), hasObs(o, shaHex(d)))
			c.Ops = []Op{{Op: "newfs"}, {Op: "create", Key: shaHex(d)}, {Op: "open", Key: shaHex(d)}, {Op: "has", Key: shaHex(d)}}
			strayTmp := map[string]bool{"leftover": true}
			ls := listDir(filepath.Clean(dir), map[string]bool{}, strayTmp)
			c.Final = &ls
			if kind == "existing" {
				if bs, err := os.ReadFile(filepath.Join(dir, "tmp", "leftover")); err != nil || string(bs) != "from a crash" {
					c.Strays = "file in tmp/ touched by NewFS"
				}
			}
		}
		os.RemoveAll(base)
		g.emit(c)
	}
}

func (g *gen) fsHistories(n int) {
	r := g.r
	g.fsAliases()
	g.fsKeyChars()
	// fixed: a failing input followed by the same content succeeding
	for i := 0; i < n; i++ {
		var ops []Op
		var keys []string
		nops := 2 + r.Intn(7)
		for j := 0; j < nops; j++ {
			switch c := r.Intn(10); {
			case c < 5:
				d := g.content()
				if len(keys) > 0 && r.Intn(4) == 0 {
					d = nil
					// re-create an earlier content (same key)
				}
				var p []Chunk
				if d == nil {
					prev := ops[r.Intn(len(ops))]
					if prev.Op == "create" {
						full, _, _ := planDelivered(prev.plan)
						d = full
					} else {
						d = g.content()
					}
				}
				if r.Intn(5) == 0 && len(d) > 0 {
					p = failPlan(r, d, r.Intn(len(d)+1), r.Bool(), r.Intn(4), 1+r.Intn(5))
				} else {
					p = splitPlan(r, d, r.Intn(4), r.Intn(2))
					keys = append(keys, shaHex(d))
				}
				ops = append(ops, Op{Op: "create", plan: p})
			case c < 8:
				k := shaHex(g.content())
				if len(keys) > 0 && r.Intn(4) != 0 {
					k = keys[r.Intn(len(keys))]
				} else if r.Intn(3) == 0 {
					k = badKeys[r.Intn(len(badKeys))]
				}
				if len(keys) > 0 && r.Intn(6) == 0 {
					k = aliasKey(r, keys)
				}
				ops = append(ops, Op{Op: "open", Key: k})
			default:
				k := shaHex(g.content())
				if len(keys) > 0 && r.Intn(4) != 0 {
					k = keys[r.Intn(len(keys))]
				} else if r.Intn(3) == 0 {
					k = badKeys[r.Intn(len(badKeys))]
				}
				if len(keys) > 0 && r.Intn(6) == 0 {
					k = aliasKey(r, keys)
				}
				ops = append(ops, Op{Op: "has", Key: k})
			}
		}
		g.runFsOps("fs-hist", ops, false)
	}
}

// every failure offset of the input reader, for small contents
func (g *gen) fsFaults(maxLen int) {
	r := g.r
	for _, L := range []int{0, 1, 2, 3, 7, maxLen} {
		d := newStream(r, L)
		k := shaHex(d)
		for off := 0; off <= L; off++ {
			for _, with := range []bool{false, true} {
				if with && off == 0 {
					continue
				}
				for _, style := range []int{0, 1} {
					ops := []Op{
						{Op: "create", plan: failPlan(r, d, off, with, style, 1+off%7)},
						{Op: "has", Key: k},
						{Op: "open", Key: k},
						{Op: "create", plan: splitPlan(r, d, style, off%2)},
						{Op: "open", Key: k},
						{Op: "create", plan: failPlan(r, d, off, with, style, panicCode)},
						{Op: "open", Key: k},
					}
					g.runFsOps("fs-fault", ops, false)
				}
			}
		}
	}
	// larger contents, sampled offsets
	for i := 0; i < 6; i++ {
		d := g.content()
		for j := 0; j < 3; j++ {
			off := r.Intn(len(d) + 1)
			ops := []Op{
				{Op: "create", plan: failPlan(r, d, off, r.Bool(), 2, 3)},
				{Op: "open", Key: shaHex(d)},
				{Op: "create", plan: splitPlan(r, d, 2, j%2)},
				{Op: "open", Key: shaHex(d)},
			}
			g.runFsOps("fs-fault", ops, false)
		}
	}
}

// the input fails with each well-known error VALUE, at every offset incl. 0, with and without data in
// the failing call; then the same content succeeds
func (g *gen) fsErrValues() {
	r := g.r
	codes := []int{}
	for c := range errValues {
		codes = append(codes, c)
	}
	sort.Ints(codes)
	for _, code := range codes {
		for _, L := range []int{0, 1, 5} {
			d := newStream(r, L)
			k := shaHex(d)
			for off := 0; off <= L; off++ {
				for _, with := range []bool{false, true} {
					if with && off == 0 {
						continue
					}
					ops := []Op{
						{Op: "create", plan: failPlan(r, d, off, with, (off+code)%2, code)},
						{Op: "has", Key: k}, {Op: "open", Key: k}, {Op: "has", Key: shaHex(d[:off])},
						{Op: "create", plan: splitPlan(r, d, 1, off%2)},
						{Op: "open", Key: k},
					}
					g.runFsOps("fs-errval", ops, false)
				}
			}
		}
		// larger content, failing inside and exactly at a 32 KiB boundary
		d := newStream(r, 40000)
		for _, off := range []int{32768, 39999} {
			g.runFsOps("fs-errval", []Op{{Op: "create", plan: failPlan(r, d, off, off%2 == 1, 0, code)},
				{Op: "has", Key: shaHex(d[:off])}, {Op: "has", Key: shaHex(d)}}, false)
		}
		// the memory and the mapped store
		d = newStream(r, 4)
		for off := 0; off <= 4; off += 2 {
			g.runMemOps("mem-errval", "mem", []Op{
				{Op: "create", plan: failPlan(r, d, off, off > 0, 1, code)}, {Op: "pcreate", plan: failPlan(r, d, off, false, 1, code)},
				{Op: "has", Key: shaHex(d[:off])}, {Op: "phas", Key: shaHex(d)},
				{Op: "pcreate", plan: splitPlan(r, d, 1, 0)}, {Op: "open", Key: shaHex(d)}})
		}
	}
	// a real truncated gzip stream (its reader returns io.ErrUnexpectedEOF), and the complete one
	for _, L := range []int{10, 5000} {
		d := newStream(r, L)
		for _, cut := range []int{1, 4, 8, 9, 12, 0} {
			g.runFsOps("fs-errval", []Op{{Op: "create", Shape: "gzipcut", K: cut, d: d},
				{Op: "has", Key: shaHex(d)}, {Op: "create", plan: splitPlan(r, d, 2, 0)}, {Op: "open", Key: shaHex(d)}}, false)
		}
	}
}

func (g *gen) fsOsFaults(n int) {
	r := g.r
	for i := 0; i < n; i++ {
		d := newStream(r, r.Intn(30))
		d2 := newStream(r, 1+r.Intn(30))
		ops := []Op{
			{Op: "create", plan: splitPlan(r, d2, r.Intn(3), 0)},
			{Op: "create", plan: splitPlan(r, d, r.Intn(3), r.Intn(2)), Fault: []string{"createtemp", "rename"}[i%2]},
			{Op: "has", Key: shaHex(d)},
			{Op: "open", Key: shaHex(d)},
			{Op: "create", plan: splitPlan(r, d, r.Intn(3), 0)},
			{Op: "open", Key: shaHex(d)},
			{Op: "open", Key: shaHex(d2)},
		}
		g.runFsOps("fs-osfault", ops, false)
	}
	for i := 0; i < n; i++ {
		d := newStream(r, r.Intn(30))
		ops := []Op{
			{Op: "create", plan: splitPlan(r, d, r.Intn(3), 0)},
			{Op: "create", plan: failPlan(r, d, r.Intn(len(d)+1), false, 1, 4)},
			{Op: "open", Key: shaHex(d)},
			{Op: "has", Key: "tmp"},
			{Op: "open", Key: "README"},
		}
		g.runFsOps("fs-stray", ops, true)
	}
}

// ---- forced interleavings ---------------------------------------------------

func (g *gen) sched(n int) {
	r := g.r
	for i := 0; i < n; i++ {
		nthr := 2 + r.Intn(4)
		base := [][]byte{newStream(r, 1+r.Intn(12)), newStream(r, 1+r.Intn(12)), g.content()}
		if len(base[2]) > 5000 {
			base[2] = base[2][:5000]
		}
		var readers []*scriptReader
		var contents [][]byte
		for t := 0; t < nthr; t++ {
			d := base[r.Intn(len(base))]
			if i%3 == 0 {
				d = base[0] // all equal
			}
			var p []Chunk
			if r.Intn(4) == 0 && len(d) > 0 {
				p = failPlan(r, d, r.Intn(len(d)+1), r.Bool(), 2, 1+t)
			} else {
				p = splitPlan(r, d, 2+r.Intn(2), r.Intn(2))
			}
			sr := newScript(p)
			sr.gateID = t
			sr.arrive = make(chan int, 1)
			sr.gate = make(chan struct{}, 1)
			readers = append(readers, sr)
			contents = append(contents, d)
		}
		// every third case: two store objects on the directory; every fourth: files already in tmp/
		g.runSched(readers, contents, i%3 == 1, i%4 == 2)
	}
}

func (g *gen) runSched(readers []*scriptReader, contents [][]byte, two, strays bool) {
	r := g.r
	e := newFsEnv(strays, r)
	defer e.close()
	stores := []objects.Objects{e.o}
	kind := "fs"
	if two {
		o2, err := objects.NewFS(e.dir)
		if err != nil {
			panic(err)
		}
		stores = append(stores, o2)
		kind = "fs2"
	}
	nthr := len(readers)
	done := make([]chan Obs, nthr)
	finished := make([]bool, nthr)
	results := make([]Obs, nthr)
	for t := range done {
		done[t] = make(chan Obs, 1)
		results[t] = Obs{T: "other", Msg: "never started"}
	}
	probeKeys := map[string]bool{}
	for _, d := range contents {
		probeKeys[shaHex(d)] = true
	}
	var pk []string
	for k := range probeKeys {
		pk = append(pk, k)
	}
	sort.Strings(pk)
	tab := newTab()
	c := &Case{Stream: "sched", Kind: kind}
	left := nthr
	for left > 0 && len(c.Steps) < 400 {
		var cand []int
		for t := 0; t < nthr; t++ {
			if !finished[t] {
				cand = append(cand, t)
			}
		}
		t := cand[r.Intn(len(cand))]
		sr := readers[t]
		if !sr.started {
			sr.started = true
			go func(t int) { done[t] <- createObs(stores[t%len(stores)], readers[t]) }(t)
		} else {
			sr.gate <- struct{}{}
		}
		select {
		case <-sr.arrive:
		case ob := <-done[t]:
			finished[t] = true
			results[t] = ob
			left--
		case <-time.After(30 * time.Second):
			finished[t] = true
			results[t] = Obs{T: "timeout"}
			left--
		}
		if len(c.Steps)%3 == 1 {
			// somebody opens the directory as a store once more while calls are in flight
			if o3, err := objects.NewFS(e.dir); err == nil && two {
				stores[1] = o3
			}
		}
		st := Step{Tid: t, Ls: e.ls(), Probes: []Probe{}}
		for _, k := range pk {
			st.Probes = append(st.Probes, Probe{Key: k, Obs: openObs(stores[(len(c.Steps)+len(st.Probes))%len(stores)], k)})
		}
		c.Steps = append(c.Steps, st)
	}
	for t, sr := range readers {
		rec := sr.recorded()
		c.Scripts = append(c.Scripts, rec)
		d, st, _ := delivered(rec)
		if st == stEOF {
			tab.add(d)
		}
		_ = t
	}
	c.Results = results
	fin := e.ls()
	c.Final = &fin
	c.Strays = e.straysState()
	c.Tab = tab.rows
	g.emit(c)
}

// ---- a slow writer watched from outside its lock ---------------------------
//
// Large contents are created through one store object while other goroutines
// keep opening the key through a second store object on the same directory
// (which has its own mutex) and read the file directly.  Whatever they get
// must be the whole object: the final name only ever appears by rename.

func (g *gen) peek(n, size int) {
	r := g.r
	for i := 0; i < n; i++ {
		e := newFsEnv(false, r)
		o2, err := objects.NewFS(e.dir)
		if err != nil {
			panic(err)
		}
		c := &Case{Stream: "fs-peek", Kind: "fs2"}
		for round := 0; round < 3; round++ {
			d := bytes.Repeat([]byte{byte(1 + r.Intn(255))}, size+r.Intn(size))
			d = append(d, newStream(r, 12+r.Intn(20))...)
			key := shaHex(d)
			stop := make(chan struct{})
			var mu sync.Mutex
			var probes []Probe
			var wg sync.WaitGroup
			for p := 0; p < 4; p++ {
				wg.Add(1)
				go func(p int) {
					defer wg.Done()
					for {
						select {
						case <-stop:
							return
						default:
						}
						var ob Obs
						if p%2 == 0 {
							ob = openObsRaw(o2, key)
						} else {
							bs, err := os.ReadFile(filepath.Join(e.dir, key))
							if err != nil {
								ob = Obs{T: "notfound"}
							} else {
								ob = Obs{T: "found", d: bs}
							}
						}
						if ob.T == "found" {
							// only the digest and the length travel: the contents are megabytes
							ob.Msg = fmt.Sprintf("%d:%s", len(ob.d), shaHex(ob.d))
							ob.B, ob.d = nil, nil
						}
						mu.Lock()
						if len(probes) < 40 || (ob.T == "found" && !strings.HasSuffix(ob.Msg, key)) {
							if len(probes) < 400 {
								probes = append(probes, Probe{Key: key, Obs: ob})
							}
						}
						mu.Unlock()
					}
				}(p)
			}
			sr := newScript(splitPlan(r, d, 0, round%2))
			ob := createObs(e.o, sr)
			close(stop)
			wg.Wait()
			c.Results = append(c.Results, ob)
			c.Ops = append(c.Ops, Op{Op: "create", Key: key, H: len(d)})
			last := openObsRaw(o2, key)
			if last.T == "found" {
				last.Msg = fmt.Sprintf("%d:%s", len(last.d), shaHex(last.d))
				last.B, last.d = nil, nil
			}
			probes = append(probes, Probe{Key: key, Obs: last})
			c.Opens = append(c.Opens, probes...)
		}
		fin := e.ls()
		c.Final = &fin
		e.close()
		g.emit(c)
	}
}

// ---- free-running goroutines -----------------------------------------------

func (g *gen) free(n int, kinds []string) {
	r := g.r
	for i := 0; i < n; i++ {
		kind := kinds[i%len(kinds)]
		nthr := 2 + r.Intn(15)
		base := [][]byte{newStream(r, r.Intn(40)), newStream(r, 1+r.Intn(300)), g.content(), newStream(r, 1+r.Intn(8))}
		var readers []*scriptReader
		var keys []string
		for t := 0; t < nthr; t++ {
			d := base[r.Intn(len(base))]
			if i%4 == 0 {
				d = base[1]
			}
			var p []Chunk
			if r.Intn(5) == 0 && len(d) > 0 {
				p = failPlan(r, d, r.Intn(len(d)+1), r.Bool(), 2, 1+t%9)
			} else {
				p = splitPlan(r, d, r.Intn(4), r.Intn(2))
			}
			sr := newScript(p)
			sr.yield = true
			readers = append(readers, sr)
			keys = append(keys, shaHex(d))
		}
		g.runFree(kind, readers, keys)
	}
}

func (g *gen) runFree(kind string, readers []*scriptReader, keys []string) {
	var o objects.Objects
	var env *fsEnv
	switch kind {
	case "fs", "fs2":
		env = newFsEnv(false, g.r)
		defer env.close()
		o = env.o
	case "mem":
		o = objects.NewMem()
	case "mapped":
		o = objects.NewMapped(objects.NewMemStore())
	}
	// fs2: a second store object on the same directory (its own mutex) used by every other goroutine
	var o2 objects.Objects
	if kind == "fs2" {
		var err error
		if o2, err = objects.NewFS(env.dir); err != nil {
			panic(err)
		}
	}
	nthr := len(readers)
	results := make([]Obs, nthr)
	var wg sync.WaitGroup
	start := make(chan struct{})
	for t := 0; t < nthr; t++ {
		wg.Add(1)
		go func(t int) {
			defer wg.Done()
			<-start
			if o2 != nil && t%2 == 1 {
				results[t] = createObs(o2, readers[t])
				return
			}
			results[t] = createObs(o, readers[t])
		}(t)
	}
	stop := make(chan struct{})
	var pmu sync.Mutex
	var opens []Probe
	var pwg sync.WaitGroup
	for p := 0; p < 3; p++ {
		pwg.Add(1)
		go func(p int) {
			defer pwg.Done()
			<-start
			for i := 0; ; i++ {
				select {
				case <-stop:
					return
				default:
				}
				k := keys[(i+p)%len(keys)]
				ob := openObs(o, k)
				hb := hasObs(o, k)
				pmu.Lock()
				if len(opens) < 48 || (ob.T != "found" && ob.T != "notfound") || hb.T != "bool" {
					if ob.T == "found" && len(ob.d) > 4096 && len(opens) >= 8 {
						// keep the case small: only a few large contents
					} else {
						opens = append(opens, Probe{Key: k, Obs: ob})
						if hb.T != "bool" {
							opens = append(opens, Probe{Key: k, Obs: hb})
						}
					}
				}
				pmu.Unlock()
				runtime.Gosched()
			}
		}(p)
	}
	if env != nil {
		pwg.Add(1)
		go func() {
			defer pwg.Done()
			<-start
			for i := 0; i < 20; i++ {
				select {
				case <-stop:
					return
				default:
				}
				objects.NewFS(env.dir)
				runtime.Gosched()
			}
		}()
	}
	close(start)
	allDone := make(chan struct{})
	go func() { wg.Wait(); close(allDone) }()
	stuck := false
	select {
	case <-allDone:
	case <-time.After(120 * time.Second):
		// some Create never returned: report what there is and stop (the goroutines cannot be killed)
		stuck = true
	}
	close(stop)
	if !stuck {
		pwg.Wait()
	}
	tab := newTab()
	if stuck {
		pmu.Lock()
		for t := range results {
			if results[t].T == "" {
				results[t] = Obs{T: "timeout"}
			}
		}
		c := &Case{Stream: "free", Kind: kind, Results: results, Note: "stuck"}
		for _, sr := range readers {
			c.Scripts = append(c.Scripts, sr.recorded())
		}
		c.Final = &Ls{Keys: []string{}, Tmps: [][]Seg{}}
		g.emit(c)
		os.Exit(3)
	}
	c := &Case{Stream: "free", Kind: kind, Results: results}
	for _, sr := range readers {
		rec := sr.recorded()
		c.Scripts = append(c.Scripts, rec)
		d, st, _ := delivered(rec)
		if st == stEOF {
			tab.add(d)
		}
	}
	// final probes of every key, after everything has returned
	seen := map[string]bool{}
	for _, k := range keys {
		if seen[k] {
			continue
		}
		seen[k] = true
		opens = append(opens, Probe{Key: k, Obs: openObs(o, k)})
	}
	for _, p := range opens {
		if p.Obs.T == "found" {
			tab.add(p.Obs.d)
		}
	}
	c.Opens = opens
	var fin Ls
	if env != nil {
		fin = env.ls()
	} else {
		fin = Ls{Keys: []string{}, Tmps: [][]Seg{}}
		for k := range seen {
			if h, _ := o.Has(k); h {
				fin.Keys = append(fin.Keys, k)
			}
		}
		sort.Strings(fin.Keys)
	}
	c.Final = &fin
	c.Tab = tab.rows
	g.emit(c)
}

// ---- mem / mapped histories -------------------------------------------------

// userStore is a Store as a user of NewMapped might supply it: it answers
// from a real store, except that the next call can be told to fail in one of
// the shapes the interface allows: 1 = zero result and an error, 2 = a
// non-zero result TOGETHER with an error (the bytes it has / the key after
// storing / true).
type userStore struct {
	inner objects.Store
	shape int
	code  int
}

func (u *userStore) take() (int, error) {
	sh := u.shape
	u.shape = 0
	return sh, &injErr{u.code}
}

func (u *userStore) Put(bs []byte) (string, error) {
	switch sh, err := u.take(); sh {
	case 1:
		return "", err
	case 2:
		k, _ := u.inner.Put(bs)
		return k, err
	}
	return u.inner.Put(bs)
}

func (u *userStore) Get(key string) ([]byte, error) {
	switch sh, err := u.take(); sh {
	case 1:
		return nil, err
	case 2:
		bs, _ := u.inner.Get(key)
		if bs == nil {
			bs = []byte("partial")
		}
		return bs, err
	}
	return u.inner.Get(key)
}

func (u *userStore) Has(key string) (bool, error) {
	switch sh, err := u.take(); sh {
	case 1:
		return false, err
	case 2:
		return true, err
	}
	return u.inner.Has(key)
}

func (g *gen) runMemOps(stream, kind string, ops []Op) {
	var store objects.Store
	var objs objects.Objects   // direct Objects view of mem
	var mapped objects.Objects // mapped view
	m := objects.NewMem()
	store = m.(objects.Store)
	objs = m
	mapped = objects.NewMapped(store)
	us := &userStore{inner: store}
	umapped := objects.NewMapped(us) // the mapped store over a user-supplied Store
	tab := newTab()
	c := &Case{Stream: stream, Kind: kind}
	var handles [][]byte
	for i := range ops {
		op := &ops[i]
		var ob Obs
		switch op.Op {
		case "alloc":
			handles = append(handles, append([]byte{}, op.d...))
			ob = Obs{T: "unit"}
		case "mutate":
			if op.H < len(handles) {
				h := handles[op.H]
				// overwrite in place: same backing array, same length
				nd := make([]byte, len(h))
				for j := range nd {
					nd[j] = h[j] ^ byte(0x55+j)
				}
				copy(h, nd)
				op.B = segsOf(h)
				ob = Obs{T: "unit"}
			} else {
				ob = Obs{T: "other", Msg: "no such handle"}
			}
		case "put":
			if op.H < len(handles) {
				tab.add(handles[op.H])
				k, err := store.Put(handles[op.H])
				if err != nil {
					ob = errObs(err)
				} else {
					ob = Obs{T: "key", Key: k}
				}
			} else {
				ob = Obs{T: "other", Msg: "no such handle"}
			}
		case "create", "pcreate":
			if op.Shape != "" {
				in := mkShaped(op.Shape, op.d, op.K)
				if op.Op == "create" {
					ob = createObs(objs, in.r)
				} else {
					ob = createObs(mapped, in.r)
				}
				pos := in.pos()
				ob.Pos = &pos
				in.done()
				op.Script = ScriptJ{plan(op.d[op.K:], stEOF, 0)}
				op.B = segsOf(op.d)
				tab.add(op.d[op.K:])
				break
			}
			sr := newScript(op.plan)
			if op.Op == "create" {
				ob = createObs(objs, sr)
			} else {
				ob = createObs(mapped, sr)
			}
			op.Script = sr.recorded()
			d, st, _ := delivered(op.Script)
			if st == stEOF {
				tab.add(d)
			}
		case "get":
			bs, err := store.Get(op.Key)
			if err != nil {
				if errcode.IsNotFound(err) {
					ob = Obs{T: "notfound"}
				} else {
					ob = errObs(err)
				}
			} else {
				handles = append(handles, bs) // the client keeps the very slice it was given
				ob = Obs{T: "found", B: segsOf(bs), d: append([]byte{}, bs...)}
			}
		case "open":
			ob = openObs(objs, op.Key)
		case "popen":
			ob = openObs(mapped, op.Key)
		case "has":
			ob = hasObs(objs, op.Key)
		case "phas":
			ob = hasObs(mapped, op.Key)
		case "ucreate":
			us.shape, us.code = op.H, op.E
			sr := newScript(op.plan)
			ob = createObs(umapped, sr)
			us.shape = 0
			op.Script = sr.recorded()
			d, st, _ := delivered(op.Script)
			if st == stEOF {
				tab.add(d)
			}
		case "uopen":
			us.shape, us.code = op.H, op.E
			ob = openObs(umapped, op.Key)
			us.shape = 0
		case "uhas":
			us.shape, us.code = op.H, op.E
			ob = hasObs(umapped, op.Key)
			us.shape = 0
		}
		c.Obs = append(c.Obs, ob)
		if atomic.LoadInt32(&hung) != 0 {
			ops = ops[:i+1]
			break
		}
	}
	c.Ops = ops
	c.Tab = tab.rows
	g.emit(c)
}

// the mapped store over a user-supplied Store: every result shape of Put /
// Get / Has, on present and absent keys, followed by undisturbed calls
func (g *gen) userStoreHistories(n int) {
	r := g.r
	for shape := 0; shape <= 2; shape++ {
		d, d2 := newStream(r, 30), newStream(r, 17)
		k, k2 := shaHex(d), shaHex(d2)
		absent := shaHex([]byte("absent"))
		ops := []Op{
			{Op: "pcreate", plan: splitPlan(r, d, 2, 0)},
			{Op: "uopen", Key: k, H: shape, E: 11}, {Op: "uopen", Key: absent, H: shape, E: 12},
			{Op: "uhas", Key: k, H: shape, E: 13}, {Op: "uhas", Key: absent, H: shape, E: 14},
			{Op: "ucreate", plan: splitPlan(r, d2, 1, 1), H: shape, E: 15},
			{Op: "open", Key: k2}, {Op: "uopen", Key: k2}, {Op: "uhas", Key: k2},
			{Op: "ucreate", plan: failPlan(r, d2, 5, true, 2, 7), H: shape, E: 16},
			{Op: "ucreate", plan: splitPlan(r, d2, 3, 0)},
			{Op: "uopen", Key: k2}, {Op: "uopen", Key: k}, {Op: "popen", Key: k2},
		}
		g.runMemOps("mem-ustore", "mem", ops)
	}
	for i := 0; i < n; i++ {
		var ops []Op
		var keys []string
		for j := 0; j < 4+r.Intn(8); j++ {
			sh := r.Intn(3)
			if r.Intn(3) == 0 {
				sh = 0
			}
			key := shaHex(r.Bytes(2))
			if len(keys) > 0 && r.Intn(4) != 0 {
				key = keys[r.Intn(len(keys))]
			}
			switch r.Intn(4) {
			case 0, 1:
				d := newStream(r, r.Intn(60))
				if sh != 1 {
					keys = append(keys, shaHex(d))
				}
				ops = append(ops, Op{Op: "ucreate", plan: splitPlan(r, d, r.Intn(4), r.Intn(2)), H: sh, E: 20 + j})
			case 2:
				ops = append(ops, Op{Op: "uopen", Key: key, H: sh, E: 20 + j})
			default:
				ops = append(ops, Op{Op: "uhas", Key: key, H: sh, E: 20 + j})
			}
		}
		for _, k := range keys {
			ops = append(ops, Op{Op: "uopen", Key: k}, Op{Op: "open", Key: k})
		}
		g.runMemOps("mem-ustore", "mem", ops)
	}
}

// ---- hashutil.Hash / HashStr / HashReader / HashFile --------------------------

func (g *gen) hashCases() {
	r := g.r
	keyOrErr := func(k string, err error) Obs {
		if err != nil {
			return errObs(err)
		}
		return Obs{T: "key", Key: k}
	}
	dir := mkStoreDir()
	defer os.RemoveAll(dir)
	for i, L := range []int{0, 1, 55, 56, 63, 64, 65, 119, 120, 1000, 32767, 32768, 32769, 65536, g.big} {
		d := newStream(r, L)
		tab := newTab()
		tab.add(d)
		c := &Case{Stream: "hash"}
		fds0 := countFDs()
		add := func(op Op, ob Obs) { c.Ops = append(c.Ops, op); c.Obs = append(c.Obs, ob) }
		add(Op{Op: "hash", B: segsOf(d)}, Obs{T: "key", Key: hashutil.Hash(d)})
		add(Op{Op: "hashstr", B: segsOf(d)}, Obs{T: "key", Key: hashutil.HashStr(string(d))})
		for style := 0; style < 4; style++ {
			sr := newScript(splitPlan(r, d, style, (i+style)%2))
			k, err := hashutil.HashReader(sr)
			add(Op{Op: "hashreader", Script: sr.recorded()}, keyOrErr(k, err))
		}
		if L > 0 {
			sr := newScript(failPlan(r, d, r.Intn(L+1), r.Bool(), 2, 1+i%9))
			k, err := hashutil.HashReader(sr)
			add(Op{Op: "hashreader", Script: sr.recorded()}, keyOrErr(k, err))
		}
		p := filepath.Join(dir, fmt.Sprintf("f%d", i))
		os.WriteFile(p, d, 0600)
		k, err := hashutil.HashFile(p)
		add(Op{Op: "hashfile", B: segsOf(d)}, keyOrErr(k, err))
		if i < 2 {
			k, err = hashutil.HashFile(filepath.Join(dir, "missing"))
			add(Op{Op: "hashfile", Fault: "missing"}, keyOrErr(k, err))
			k, err = hashutil.HashFile(dir)
			add(Op{Op: "hashfile", Fault: "directory"}, keyOrErr(k, err))
		}
		c.Tab = tab.rows
		c.FDs = []int{fds0, countFDs()}
		g.emit(c)
	}
}

func (g *gen) memHistories(n, deep int) {
	r := g.r
	// the aliasing corpus first: Get, overwrite the slice, read again
	for _, via := range []string{"create", "put", "pcreate"} {
		d := []byte("hello world")
		k := shaHex(d)
		var ops []Op
		switch via {
		case "put":
			ops = append(ops, Op{Op: "alloc", d: d, B: segsOf(d)}, Op{Op: "put", H: 0}, Op{Op: "mutate", H: 0})
		default:
			ops = append(ops, Op{Op: via, plan: splitPlan(r, d, 0, 0)})
		}
		nh := 0
		if via == "put" {
			nh = 1
		}
		ops = append(ops, Op{Op: "get", Key: k}, Op{Op: "mutate", H: nh}, Op{Op: "get", Key: k},
			Op{Op: "open", Key: k}, Op{Op: "popen", Key: k}, Op{Op: "has", Key: k})
		g.runMemOps("mem-alias", "mem", ops)
	}
	for i := 0; i < n; i++ {
		var ops []Op
		var keys []string
		nh := 0
		nops := 3 + r.Intn(10)
		for j := 0; j < nops; j++ {
			pickKey := func() string {
				if len(keys) > 0 && r.Intn(5) != 0 {
					return keys[r.Intn(len(keys))]
				}
				if r.Intn(2) == 0 {
					return badKeys[r.Intn(len(badKeys))]
				}
				return shaHex(r.Bytes(3))
			}
			switch c := r.Intn(12); {
			case c < 2:
				d := g.content()
				if len(d) > 3000 {
					d = d[:3000]
				}
				ops = append(ops, Op{Op: "alloc", d: d, B: segsOf(d)})
				nh++
			case c < 4 && nh > 0:
				ops = append(ops, Op{Op: "mutate", H: r.Intn(nh)})
			case c < 6 && nh > 0:
				ops = append(ops, Op{Op: "put", H: r.Intn(nh)})
				// the key is whatever the slice holds at that time; found through has/get below
			case c < 8:
				d := g.content()
				if len(d) > 3000 {
					d = d[:3000]
				}
				var p []Chunk
				if r.Intn(5) == 0 && len(d) > 0 {
					p = failPlan(r, d, r.Intn(len(d)+1), r.Bool(), r.Intn(4), 1+r.Intn(5))
				} else {
					p = splitPlan(r, d, r.Intn(4), r.Intn(2))
					keys = append(keys, shaHex(d))
				}
				ops = append(ops, Op{Op: []string{"create", "pcreate"}[r.Intn(2)], plan: p})
			case c < 10:
				// Get hands a slice to the client
				k := pickKey()
				ops = append(ops, Op{Op: "get", Key: k})
				for _, kk := range keys {
					if kk == k {
						nh++
						break
					}
				}
			case c < 11:
				ops = append(ops, Op{Op: []string{"open", "popen"}[r.Intn(2)], Key: pickKey()})
			default:
				ops = append(ops, Op{Op: []string{"has", "phas"}[r.Intn(2)], Key: pickKey()})
			}
		}
		// finish by reading every known key back both ways
		for _, k := range keys {
			ops = append(ops, Op{Op: "open", Key: k}, Op{Op: "popen", Key: k})
		}
		g.runMemOps("mem-hist", "mem", ops)
	}
	// every failure offset for mem and mapped
	for _, L := range []int{0, 1, 2, 5, 9} {
		d := newStream(r, L)
		k := shaHex(d)
		for off := 0; off <= L; off++ {
			for _, with := range []bool{false, true} {
				if with && off == 0 {
					continue
				}
				for _, op := range []string{"create", "pcreate"} {
					ops := []Op{
						{Op: op, plan: failPlan(r, d, off, with, 1, 1+off)},
						{Op: op, plan: failPlan(r, d, off, with, 1, panicCode)},
						{Op: "has", Key: k}, {Op: "popen", Key: k},
						{Op: op, plan: splitPlan(r, d, 1, off%2)},
						{Op: "open", Key: k}, {Op: "popen", Key: k},
					}
					g.runMemOps("mem-fault", "mem", ops)
				}
			}
		}
	}
}

// ---- JSON helpers (objects/json.go) and the remaining constructors ----------

type jval struct {
	S string
	N int
	L []int
	M map[string]string `json:",omitempty"`
}

// flakyObjects: a user-supplied Objects whose Open misbehaves.
type flakyObjects struct {
	objects.Objects
	mode string
}

type failingRC struct {
	io.ReadCloser
	left int
}

func (f *failingRC) Read(p []byte) (int, error) {
	if f.left <= 0 {
		return 0, &injErr{9}
	}
	if len(p) > f.left {
		p = p[:f.left]
	}
	n, err := f.ReadCloser.Read(p)
	f.left -= n
	return n, err
}

func (f *flakyObjects) Open(k string) (io.ReadCloser, error) {
	rc, err := f.Objects.Open(k)
	if err != nil {
		return rc, err
	}
	switch f.mode {
	case "readfail":
		return &failingRC{ReadCloser: rc, left: 3}, nil
	case "both":
		rc.Close()
		return io.NopCloser(strings.NewReader(`{"S":"decoded despite the error"}`)), &injErr{8}
	}
	return rc, nil
}

func (g *gen) jsonCases(n int) {
	r := g.r
	for i := 0; i < n; i++ {
		kind := []string{"fs", "mem", "mapped", "mapped-psqlnil"}[i%4]
		var o objects.Objects
		var env *fsEnv
		switch kind {
		case "fs":
			env = newFsEnv(false, r)
			o = env.o
		case "mem":
			o = objects.NewMem()
		case "mapped":
			o = objects.NewMapped(objects.NewMemStore())
		default:
			o = objects.NewMapped(objects.NewPsql(nil)) // no database: falls back to the memory store
		}
		c := &Case{Stream: "json", Kind: kind}
		fdsJ := countFDs()
		add := func(op Op, ob Obs) {
			c.Ops = append(c.Ops, op)
			c.Obs = append(c.Obs, ob)
		}
		var keys []string
		var vals []jval
		for j := 0; j < 1+r.Intn(4); j++ {
			v := jval{S: hex.EncodeToString(r.Bytes(r.Intn(12))), N: int(int32(r.U64())), L: []int{r.Intn(9), j}}
			if r.Bool() {
				v.M = map[string]string{"k": "v", "a\"b": "<&>"}
			}
			bs, _ := json.Marshal(v)
			k, err := objects.CreateJSON(o, v)
			ob := Obs{T: "key", Key: k}
			if err != nil {
				ob = errObs(err)
			}
			add(Op{Op: "cjson", B: segsOf(bs)}, ob)
			keys = append(keys, k)
			vals = append(vals, v)
		}
		for j, k := range keys {
			var got jval
			err := objects.ReadJSON(o, k, &got)
			ob := Obs{T: "bool", V: fmt.Sprint(got) == fmt.Sprint(vals[j])}
			if err != nil {
				ob = errObs(err)
			}
			add(Op{Op: "rjson", Key: k, H: 1}, ob)
		}
		// an absent key, an object that is not JSON, an object with bytes after the first value
		var got jval
		err := objects.ReadJSON(o, shaHex([]byte("absent")), &got)
		ob := Obs{T: "bool", V: true}
		if err != nil {
			ob = errObs(err)
			if errcode.IsNotFound(err) {
				ob = Obs{T: "notfound"}
			}
		}
		add(Op{Op: "rjson", Key: shaHex([]byte("absent")), H: 0}, ob)
		raw := []byte("this is not JSON")
		k1, _ := o.Create(bytes.NewReader(raw))
		err = objects.ReadJSON(o, k1, &got)
		ob = Obs{T: "bool", V: true}
		if err != nil {
			ob = errObs(err)
		}
		add(Op{Op: "rjson", Key: k1, H: 2, B: segsOf(raw)}, ob)
		tail := []byte(`{"S":"x","N":1,"L":null} trailing`)
		k2, _ := o.Create(bytes.NewReader(tail))
		got = jval{}
		err = objects.ReadJSON(o, k2, &got)
		ob = Obs{T: "bool", V: got.S == "x" && got.N == 1}
		if err != nil {
			ob = errObs(err)
		}
		add(Op{Op: "rjson", Key: k2, H: 3, B: segsOf(tail)}, ob)
		// a value that cannot be marshalled: an error, and nothing is created
		kbad, err := objects.CreateJSON(o, map[string]interface{}{"c": make(chan int)})
		ob = Obs{T: "key", Key: kbad}
		if err != nil {
			ob = errObs(err)
			ob.Key = kbad
		}
		add(Op{Op: "cjson-bad"}, ob)
		// a stored value of another type
		var wrong []int
		err = objects.ReadJSON(o, keys[0], &wrong)
		ob = Obs{T: "bool", V: true}
		if err != nil {
			ob = errObs(err)
		}
		add(Op{Op: "rjson", Key: keys[0], H: 4}, ob)
		// a user-supplied Objects whose Open misbehaves: the reader fails after three bytes; a reader AND an error
		for h, mode := range map[int]string{5: "readfail", 7: "both"} {
			got = jval{S: "untouched"}
			err = objects.ReadJSON(&flakyObjects{Objects: o, mode: mode}, keys[0], &got)
			ob = Obs{T: "bool", V: true, Msg: got.S}
			if err != nil {
				ob = errObs(err)
			}
			add(Op{Op: "rjson", Key: keys[0], H: h}, ob)
		}
		c.FDs = []int{fdsJ, countFDs()}
		if env != nil {
			fin := env.ls()
			c.Final = &fin
			env.close()
		}
		g.emit(c)
	}
}

// ---- CheckReader ------------------------------------------------------------

func crCode(err error) int {
	if err == nil {
		return 0
	}
	if err == io.EOF {
		return 1
	}
	var ie *injErr
	if errors.As(err, &ie) {
		return 100 + ie.code
	}
	if errcode.IsInvalidArg(err) {
		m := err.Error()
		if strings.Contains(m, "bytes, want") {
			return 2
		}
		if strings.Contains(m, "got sha256") {
			return 3
		}
	}
	return 99
}

type crSpec struct {
	maxCalls int // >0: the caller stops after this many Read calls, whatever they returned
	stream   string
	genuine  []byte
	want     []byte // digest handed over (raw ctor)
	hstr     string // string ctor when ctor == "str"
	ctor     string
	n        int64
	plan     []Chunk
	sizes    []int
	note     string
	loose    bool // the underlying reader goes on after an error / an end-of-stream
}

func (g *gen) runCr(s crSpec) {
	sr := newScript(s.plan)
	sr.loose = s.loose
	c := &Case{Stream: s.stream, Ctor: s.ctor, N: s.n, Genuine: segsOf(s.genuine), Note: s.note}
	var cr *hashutil.CheckReader
	if s.ctor == "str" {
		c.HStr = s.hstr
		var err error
		cr, err = hashutil.NewCheckReader(sr, s.hstr, s.n)
		if err != nil {
			m := err.Error()
			switch {
			case strings.Contains(m, "only sha256"):
				c.CtorCode = 1
			case strings.Contains(m, "decode sha256 hash"):
				c.CtorCode = 2
			case strings.Contains(m, "invalid hash size"):
				c.CtorCode = 3
			default:
				c.CtorCode = 9
			}
			g.emit(c)
			return
		}
	} else {
		c.Want = hex.EncodeToString(s.want)
		cr = hashutil.NewSHA256CheckReader(sr, s.want, s.n)
	}
	tab := newTab()
	extra := 2
	if s.loose {
		for _, ch := range s.plan {
			if ch.St != stNil {
				extra++
			}
		}
	}
	for i := 0; i < 20000; i++ {
		if s.maxCalls > 0 && i >= s.maxCalls {
			c.Note = "early"
			break
		}
		buf := make([]byte, s.sizes[i%len(s.sizes)])
		n, err := cr.Read(buf)
		code := crCode(err)
		c.Trace = append(c.Trace, TraceEntry{C: code, d: append([]byte{}, buf[:n]...)})
		if code != 0 {
			extra--
			if extra < 0 {
				break
			}
		}
	}
	c.Script = sr.recorded()
	// the model hashes the bytes delivered up to every EOF of the underlying reader
	var acc []byte
	for _, ch := range c.Script {
		acc = append(acc, ch.d...)
		if ch.St == stEOF {
			tab.add(acc)
		}
	}
	c.Tab = tab.rows
	g.emit(c)
}

func sum(d []byte) []byte { s := sha256.Sum256(d); return s[:] }

// badReader breaks the io.Reader contract: it claims to have read more bytes
// than the buffer holds, or a negative number.
type badReader struct {
	data  []byte
	delta int // what is added to the honest count on the second call
	calls int
}

func (b *badReader) Read(p []byte) (int, error) {
	b.calls++
	n := copy(p, b.data)
	b.data = b.data[n:]
	if b.calls == 2 {
		if b.delta < 0 {
			return b.delta, nil
		}
		return len(p) + b.delta, nil
	}
	if len(b.data) == 0 {
		return n, io.EOF
	}
	return n, nil
}

// zeros yields n zero bytes without holding them.
type zeros struct{ left int64 }

func (z *zeros) Read(p []byte) (int, error) {
	if z.left == 0 {
		return 0, io.EOF
	}
	n := int64(len(p))
	if n > z.left {
		n = z.left
	}
	for i := int64(0); i < n; i++ {
		p[i] = 0
	}
	z.left -= n
	return int(n), nil
}

// hugeCase: a genuine stream of more than 2^31 bytes with its length declared
// (thorough tier): a byte count kept in anything narrower than 64 bits shows.
func (g *gen) hugeCase() {
	const total = int64(1)<<31 + 5
	h := sha256.New()
	io.Copy(h, &zeros{left: total})
	want := h.Sum(nil)
	for _, n := range []int64{total, -1} {
		cr := hashutil.NewSHA256CheckReader(&zeros{left: total}, want, n)
		got, err := io.Copy(io.Discard, cr)
		code := 1
		if err != nil {
			code = crCode(err)
		}
		c := &Case{Stream: "cr-huge", Ctor: "raw", N: n, Want: hex.EncodeToString(want),
			Note: fmt.Sprintf("genuine stream of %d zero bytes, %d handed on", total, got)}
		c.Trace = TraceJ{TraceEntry{C: code}}
		g.emit(c)
	}
}

// contractCases: what CheckReader does over a reader that violates the
// contract. Observed only (the model has no such reader): a panic or an error
// is fine, a certified end-of-stream is not.
func (g *gen) contractCases() {
	for _, delta := range []int{1, 1 << 20, -1} {
		for _, n := range []int64{-1, 8} {
			d := []byte("12345678")
			c := &Case{Stream: "cr-contract", Ctor: "raw", N: n, Genuine: segsOf(d), Want: hex.EncodeToString(sum(d)),
				Note: fmt.Sprintf("underlying reader returns len(buf)%+d on its second call", delta)}
			cr := hashutil.NewSHA256CheckReader(&badReader{data: d, delta: delta}, sum(d), n)
			for i := 0; i < 6; i++ {
				var nn int
				var err error
				var pan interface{}
				func() {
					defer func() { pan = recover() }()
					buf := make([]byte, 3)
					nn, err = cr.Read(buf)
				}()
				code := crCode(err)
				if pan != nil {
					code = 98
					c.Note += "; panic: " + short(fmt.Sprint(pan))
				}
				if nn < 0 || nn > 3 {
					nn = 0
				}
				c.Trace = append(c.Trace, TraceEntry{C: code, d: make([]byte, nn)})
				if code != 0 {
					break
				}
			}
			g.emit(c)
		}
	}
}

func (g *gen) checkReaders(scale, deep int) {
	r := g.r
	readSizes := [][]int{{1}, {7}, {4096}, {3, 1, 64}, {65536}}
	declared := func(d []byte) []int64 { return []int64{-1, int64(len(d))} }
	// genuine streams, every chunking style
	for _, L := range []int{0, 1, 2, 5, 33, 64, 65, 1000} {
		d := newStream(r, L)
		for _, n := range append(declared(d), -7) {
			for style := 0; style < 4; style++ {
				for ending := 0; ending < 2; ending++ {
					g.runCr(crSpec{stream: "cr-genuine", genuine: d, want: sum(d), ctor: "raw", n: n,
						plan: splitPlan(r, d, style, ending), sizes: readSizes[r.Intn(len(readSizes))]})
				}
			}
		}
	}
	// every single-byte corruption
	corruptLens := []int{1, 2, 5, 33}
	if deep > 1 {
		corruptLens = append(corruptLens, 64, 200)
	}
	for _, L := range corruptLens {
		d := newStream(r, L)
		for pos := 0; pos < L; pos++ {
			for _, mask := range []byte{0x01, 0x80} {
				bad := append([]byte{}, d...)
				bad[pos] ^= mask
				for _, n := range declared(d) {
					rss := [][]int{{1}, {4096}}
					if L > 5 {
						rss = [][]int{{7}, {4096}}
					}
					for _, rs := range rss {
						ending := (pos + int(mask)) % 2
						g.runCr(crSpec{stream: "cr-corrupt", genuine: d, want: sum(d), ctor: "raw", n: n,
							plan: splitPlan(r, bad, 2, ending), sizes: rs})
					}
				}
			}
		}
	}
	// every truncation point and appended bytes
	cutLens := []int{1, 2, 5, 33, 64}
	if deep > 1 {
		cutLens = append(cutLens, 257)
	}
	for _, L := range cutLens {
		d := newStream(r, L)
		for cut := 0; cut < L; cut++ {
			for _, n := range declared(d) {
				for ending := 0; ending < 2; ending++ {
					g.runCr(crSpec{stream: "cr-truncate", genuine: d, want: sum(d), ctor: "raw", n: n,
						plan: splitPlan(r, d[:cut], r.Intn(4), ending), sizes: readSizes[(cut+ending)%len(readSizes)]})
				}
			}
		}
		for _, extra := range []int{1, 2, 31, 32, 64} {
			ext := append(append([]byte{}, d...), newStream(r, extra)...)
			if extra == 2 {
				ext = append(append([]byte{}, d...), 0, 0)
			}
			for _, n := range declared(d) {
				for ending := 0; ending < 2; ending++ {
					g.runCr(crSpec{stream: "cr-extend", genuine: d, want: sum(d), ctor: "raw", n: n,
						plan: splitPlan(r, ext, r.Intn(4), ending), sizes: readSizes[(extra+ending)%len(readSizes)]})
				}
			}
		}
	}
	// wrong declared lengths and odd digests on the genuine stream
	for _, L := range []int{0, 1, 33} {
		d := newStream(r, L)
		for _, n := range []int64{0, int64(L) + 1, int64(L) - 1, 1 << 40, -1 << 62} {
			g.runCr(crSpec{stream: "cr-declared", genuine: d, want: sum(d), ctor: "raw", n: n,
				plan: splitPlan(r, d, r.Intn(4), r.Intn(2)), sizes: readSizes[r.Intn(len(readSizes))]})
		}
		wrong := sum(d)
		wrong[31] ^= 1
		for _, w := range [][]byte{wrong, sum(d)[:16], {}, nil, append(sum(d), 0), sum(append(d, 0))} {
			for _, n := range declared(d) {
				g.runCr(crSpec{stream: "cr-digest", genuine: d, want: w, ctor: "raw", n: n,
					plan: splitPlan(r, d, r.Intn(4), r.Intn(2)), sizes: readSizes[r.Intn(len(readSizes))], note: "digest differs from sha256(genuine)"})
			}
		}
	}
	// underlying reader failing at every offset (errors pass through, never EOF)
	for _, L := range []int{0, 1, 5, 12} {
		d := newStream(r, L)
		for off := 0; off <= L; off++ {
			for _, with := range []bool{false, true} {
				if with && off == 0 {
					continue
				}
				for _, n := range declared(d) {
					g.runCr(crSpec{stream: "cr-fail", genuine: d, want: sum(d), ctor: "raw", n: n,
						plan: failPlan(r, d, off, with, r.Intn(4), 1+off), sizes: readSizes[off%len(readSizes)]})
				}
			}
		}
	}
	// callers that stop early: after k calls, and after exactly the declared number of bytes
	for _, L := range []int{2, 5, 33} {
		d := newStream(r, L)
		bad := append([]byte{}, d...)
		bad[L/2] ^= 0x10
		for _, deliver := range [][]byte{d, bad, d[:L-1], append(append([]byte{}, d...), 7)} {
			for _, n := range declared(d) {
				for k := 1; k <= 3; k++ {
					g.runCr(crSpec{stream: "cr-early", genuine: d, want: sum(d), ctor: "raw", n: n, maxCalls: k,
						plan: splitPlan(r, deliver, r.Intn(4), r.Intn(2)), sizes: [][]int{{1}, {7}, {L}}[k%3]})
				}
				// io.ReadFull-like: exactly len(d) bytes in one buffer, then no further call
				g.runCr(crSpec{stream: "cr-early", genuine: d, want: sum(d), ctor: "raw", n: n, maxCalls: 1,
					plan: splitPlan(r, deliver, 0, 0), sizes: []int{L}})
			}
		}
	}
	// an underlying reader that goes on after an error or after an end-of-stream (a retried transfer, a file
	// that grows): the verdict is about everything delivered so far, whatever happened in between
	for _, L := range []int{2, 9, 40} {
		d := newStream(r, L)
		bad := append([]byte{}, d...)
		bad[0] ^= 0x40
		for k := 0; k <= L; k += 1 + L/5 {
			for _, n := range declared(d) {
				for v := 0; v < 6; v++ {
					var p []Chunk
					switch v {
					case 0: // error between two halves of the genuine stream
						p = []Chunk{plan(d[:k], stNil, 0), plan(nil, stFail, 3), plan(d[k:], stEOF, 0)}
					case 1: // the failing call also delivers data
						p = []Chunk{plan(d[:k], stFail, 4), plan(d[k:], stNil, 0), plan(nil, stEOF, 0)}
					case 2: // corrupted before the error, genuine bytes after it: never end-of-stream
						p = []Chunk{plan(bad[:k], stFail, 5), plan(d[k:], stEOF, 0), plan(nil, stEOF, 0)}
					case 3: // end-of-stream too early, then the rest arrives
						p = []Chunk{plan(d[:k], stEOF, 0), plan(d[k:], stEOF, 0), plan(nil, stEOF, 0)}
					case 4: // genuine and complete, then more bytes and another end-of-stream
						p = []Chunk{plan(d, stEOF, 0), plan(d[:k], stEOF, 0)}
					default: // the whole genuine stream delivered once after a failed first attempt that delivered it too
						p = []Chunk{plan(d[:k], stFail, 6), plan(d, stEOF, 0)}
					}
					g.runCr(crSpec{stream: "cr-resume", genuine: d, want: sum(d), ctor: "raw", n: n, plan: p, loose: true,
						sizes: [][]int{{64}, {3}, {1, 64}}[(k+v)%3]})
				}
			}
		}
	}
	// callers that hand in empty buffers now and then
	for _, L := range []int{0, 1, 7} {
		d := newStream(r, L)
		for _, deliver := range [][]byte{d, append(append([]byte{}, d...), 1), d[:L/2]} {
			for _, n := range declared(d) {
				for ending := 0; ending < 2; ending++ {
					g.runCr(crSpec{stream: "cr-zerobuf", genuine: d, want: sum(d), ctor: "raw", n: n,
						plan: splitPlan(r, deliver, 2, ending), sizes: [][]int{{0, 3}, {0, 0, 1}}[ending]})
				}
			}
		}
	}
	// a reader that keeps returning (0, nil)
	for _, zeros := range []int{1, 30, 300} {
		d := newStream(r, 20)
		var p []Chunk
		for z := 0; z < zeros; z++ {
			p = append(p, plan(nil, stNil, 0))
		}
		p = append(p, plan(d[:10], stNil, 0))
		for z := 0; z < zeros; z++ {
			p = append(p, plan(nil, stNil, 0))
		}
		p = append(p, plan(d[10:], stNil, 0), plan(nil, stEOF, 0))
		for _, n := range declared(d) {
			g.runCr(crSpec{stream: "cr-zero", genuine: d, want: sum(d), ctor: "raw", n: n, plan: p, sizes: []int{7}})
		}
	}
	g.contractCases()
	if deep > 1 {
		g.hugeCase()
	}
	// the "sha256:<hex>" constructor
	{
		d := newStream(r, 20)
		hx := hex.EncodeToString(sum(d))
		for _, h := range []string{
			"sha256:" + hx, "sha256:" + strings.ToUpper(hx), "sha512:" + hx, hx, "", "sha256:",
			"sha256:" + hx[:63], "sha256:" + hx[:62], "sha256:" + hx + "00", "sha256:" + hx[:60] + "zz00",
			"SHA256:" + hx, "sha256:" + hx + " ", " sha256:" + hx, "sha256:" + strings.Repeat("0", 64),
		} {
			for _, n := range declared(d) {
				g.runCr(crSpec{stream: "cr-ctor", genuine: d, hstr: h, ctor: "str", n: n,
					plan: splitPlan(r, d, 2, 0), sizes: []int{7}})
			}
		}
	}
	// random mixtures, a few large ones
	for i := 0; i < scale; i++ {
		d := g.content()
		if i%5 != 0 && len(d) > 4000 {
			d = d[:4000]
		}
		deliver := append([]byte{}, d...)
		stream := "cr-random"
		switch r.Intn(5) {
		case 0:
			if len(deliver) > 0 {
				deliver[r.Intn(len(deliver))] ^= byte(1 + r.Intn(255))
			}
		case 1:
			deliver = deliver[:r.Intn(len(deliver)+1)]
		case 2:
			deliver = append(deliver, newStream(r, 1+r.Intn(3))...)
		}
		n := declared(d)[r.Intn(2)]
		var p []Chunk
		if r.Intn(6) == 0 {
			p = failPlan(r, deliver, r.Intn(len(deliver)+1), r.Bool(), r.Intn(4), 1+r.Intn(9))
		} else {
			p = splitPlan(r, deliver, r.Intn(4), r.Intn(2))
		}
		rs := readSizes[r.Intn(len(readSizes))]
		if len(deliver) > 1500 {
			rs = readSizes[2+2*r.Intn(2)]
		}
		g.runCr(crSpec{stream: stream, genuine: d, want: sum(d), ctor: "raw", n: n, plan: p, sizes: rs})
	}
}

func main() {
	seed := flag.Uint64("seed", 1, "seed")
	n := flag.Int("n", 100, "scale of the seeded streams")
	dir := flag.String("dir", "", "scratch directory for store directories")
	big := flag.Int("big", 70000, "size of the largest contents")
	deep := flag.Int("deep", 1, "depth of the enumerations")
	streams := flag.String("streams", "", "comma separated subset of: mem,hash,fsfault,fsos,fshist,sched,peek,free,json,cr (default all)")
	flag.Parse()
	if *dir == "" {
		fmt.Fprintln(os.Stderr, "need -dir")
		os.Exit(2)
	}
	if err := os.MkdirAll(*dir, 0700); err != nil {
		fmt.Fprintln(os.Stderr, err)
		os.Exit(2)
	}
	scratch = *dir
	g := &gen{r: hx.NewRng(*seed), out: hx.NewOut(os.Stdout), big: *big}
	// corpus first (known failing inputs), then enumerations, then seeded streams
	on := func(name string) bool {
		if *streams == "" {
			return true
		}
		for _, s := range strings.Split(*streams, ",") {
			if s == name {
				return true
			}
		}
		return false
	}
	if on("mem") {
		g.memHistories(*n, *deep)
		g.userStoreHistories(*n / 6)
	}
	if on("hash") {
		g.hashCases()
	}
	if on("fsfault") {
		g.fsFaults(12 * *deep)
		g.fsErrValues()
	}
	if on("fsos") {
		g.fsOsFaults(4 + *n/20)
		g.fsReopen(6 + *n/30)
		g.ctorCases()
	}
	if on("fshist") {
		g.shapeCases()
		g.fsHistories(*n)
	}
	if on("sched") {
		g.sched(*n / 2)
	}
	if on("peek") {
		g.peek(2+*deep, *big*16)
	}
	if on("free") {
		g.free(*n/4, []string{"fs", "fs2", "mem", "mapped", "fs"})
	}
	if on("json") {
		g.jsonCases(8 + *n/10)
	}
	if on("cr") {
		g.checkReaders(*n, *deep)
	}
}
