// Command c03 drives the sniproxy RPC client transport of /repo (built with
// -tags verif) against a scripted, possibly adversarial websocket peer and
// prints what every caller observed, one JSON line per history.
//
// A history is a list of steps (batches of concurrent callers, bursts of
// reply frames in any order, a broken write side, a cancelled caller, a
// closed peer).  The peer records the wire order of the requests it sees and
// the frames it sends; that order is the event order of the Coq model
// (Sni/Rpc.v), because one goroutine sends and one receives.
package main

import (
	"context"
	"encoding/binary"
	"encoding/json"
	"flag"
	"fmt"
	"os"
	"strconv"
	"strings"
	"sync"
	"sync/atomic"
	"time"

	"github.com/gorilla/websocket"
	"shanhu.io/g/sniproxy"
	"verifharness/hx"
	"verifharness/rpcx"
)

const waitBound = 10 * time.Second

type kindInfo struct {
	typ       int
	req, resp string
}

var kinds = map[string]kindInfo{
	"hello":    {1, "helloRequest", "helloResponse"},
	"dial":     {2, "dialRequest", "dialResponse"},
	"write":    {3, "writeRequest", "writeResponse"},
	"read":     {4, "readRequest", "readResponse"},
	"close":    {6, "closeRequest", "closeResponse"},
	"dialside": {8, "dialSideRequest", "dialResponse"},
	"shutdown": {0, "", ""},
}

var respSchema = map[string][]string{
	"helloResponse": {"bytes"},
	"dialResponse":  {"u64", "err"},
	"writeResponse": {"int", "err"},
	"readResponse":  {"bytes", "err"},
	"closeResponse": {"err"},
	"":              {},
}

type CallSpec struct {
	K    int    `json:"k"`
	Kind string `json:"kind"`
	Cap  int    `json:"cap"`
	Ctx  string `json:"ctx,omitempty"` // "done": the call is issued with a context that has already ended; "gate": see op behind
}

type FrameSpec struct {
	Kind   string       `json:"kind"`
	To     int          `json:"to"`
	Fields []rpcx.Field `json:"fields,omitempty"`
	Cut    int          `json:"cut,omitempty"`
	Typ    int          `json:"typ,omitempty"`
	Ec     int          `json:"ec,omitempty"`
	Off    uint64       `json:"off,omitempty"`
	Tail   int          `json:"tail,omitempty"`
	Raw    string       `json:"raw,omitempty"`
	// how the message travels: "" one websocket frame | "frag:k" two fragments, the first with k bytes
	Shape string `json:"shape,omitempty"`
}

type Step struct {
	Op     string      `json:"op"` // calls | frames | break | peerclose | cancel | early | queued | midsend | behind
	Calls  []CallSpec  `json:"calls,omitempty"`
	Frames []FrameSpec `json:"frames,omitempty"`
	K      int         `json:"k,omitempty"`
	Cancel []int       `json:"cancel,omitempty"` // queued: the callers whose context ends while their call is queued
}

// Event is one event of the model's trace, as observed.
type Event struct {
	E      string     `json:"e"` // signal | refused | call | reply | text | readerr | cancel
	K      int        `json:"k,omitempty"`
	Typ    int        `json:"typ,omitempty"`
	Resp   string     `json:"resp,omitempty"`
	Cap    int        `json:"cap,omitempty"`
	SendOK bool       `json:"sendok,omitempty"`
	ID     string     `json:"id,omitempty"`
	Frame  []rpcx.Seg `json:"frame,omitempty"`
}

// SentFrame is what the peer put on the wire, resolved (for the oracle).
type SentFrame struct {
	Kind   string       `json:"kind"`
	To     int          `json:"to"`
	ID     string       `json:"id"`
	Typ    int          `json:"typ"`
	Ec     int          `json:"ec"`
	Fields []rpcx.Field `json:"fields,omitempty"`
	Whole  bool         `json:"whole"` // header and body complete and well-formed for To's call
	AtEv   int          `json:"at"`    // index in Events
	Len    int          `json:"len"`
	Shape  string       `json:"shape,omitempty"`
}

type CallerObs struct {
	K         int          `json:"k"`
	Kind      string       `json:"kind"`
	Typ       int          `json:"typ"`
	Sent      bool         `json:"sent"`
	ID        string       `json:"id,omitempty"`
	Res       string       `json:"res"` // ok | <error kind> | none
	Fields    []rpcx.Field `json:"fields,omitempty"`
	Cancelled bool         `json:"cancelled,omitempty"`
	Late      bool         `json:"late,omitempty"`
	RejectedButSent bool   `json:"rejected_but_sent,omitempty"` // completed with errAlreadyShutdown by serve, and its request reached the peer all the same
	When      string       `json:"when,omitempty"` // where the call was when its context ended: issue | queued | midsend | pending
}

type Case struct {
	I       int         `json:"i"`
	Stream  string      `json:"stream"`
	Steps   []Step      `json:"steps"`
	Events  []Event     `json:"events"`
	Frames  []SentFrame `json:"frames"`
	Callers []CallerObs `json:"callers"`
	Exited  bool        `json:"exited"`
	Stress  map[string]int `json:"stress,omitempty"` // stream stress: how the calls ended, by error kind
	Page    []PageObs      `json:"page,omitempty"`   // stream page: tunnel reads into windows of one scratch page
	Hang    string      `json:"hang,omitempty"`
	Crash   string      `json:"crash,omitempty"`
	// the transport's network connection returns at most that many bytes per Read (0: no limit)
	Chunk   int         `json:"chunk,omitempty"`
	Skipped string      `json:"skipped,omitempty"` // not run: "hangs" (the stream was cut short after repeated hangs) | "budget" (the run's wall-clock budget was used up)
}

// ---- generation -----------------------------------------------------------

// How a reply's bytes reach the transport is part of the history: the peer
// sends the message in one websocket frame or in two fragments whose first
// has 1, 5, 9, 10 or 11 bytes (the fixed header of a reply is 10 bytes), and
// the transport's network connection delivers everything or at most 1, 7,
// 9, 10, 11 or 64 bytes per Read.  Drawn from a generator of its own, so
// that the histories themselves are what they were.
var fragShapes = []string{"frag:1", "frag:5", "frag:9", "frag:10", "frag:11"}
var readChunks = []int{1, 7, 9, 10, 11, 64}

func shaped(c Case, seed uint64) Case {
	r := hx.NewRng(seed*0x51ed27 + uint64(c.I)*0x9e37 + 11)
	if c.I%3 == 1 {
		c.Chunk = readChunks[(c.I/3)%len(readChunks)]
	}
	for si := range c.Steps {
		for fi := range c.Steps[si].Frames {
			f := &c.Steps[si].Frames[fi]
			if f.Kind == "text" || r.Intn(5) < 2 {
				continue
			}
			f.Shape = fragShapes[r.Intn(len(fragShapes))]
		}
	}
	return c
}

func genBytes(r *hx.Rng, max int) []rpcx.Seg {
	n := r.Intn(max + 1)
	if r.Intn(12) == 0 {
		return []rpcx.Seg{{Rep: []int{r.Intn(256), 64 + r.Intn(5000)}}}
	}
	return rpcx.SegsOf(r.Bytes(n))
}

func genField(r *hx.Rng, k string, tag int) rpcx.Field {
	switch k {
	case "u64":
		vs := []uint64{0, 1, uint64(tag), 1 << 32, 1<<63 - 1, 1 << 63, ^uint64(0), r.U64()}
		return rpcx.Field{K: "u64", U: strconv.FormatUint(hx.PickU64(r, vs), 10)}
	case "int":
		vs := []int64{0, 1, -1, int64(tag), 1 << 40, -(1 << 62), int64(r.U64())}
		return rpcx.Field{K: "int", I: strconv.FormatInt(vs[r.Intn(len(vs))], 10)}
	case "bytes":
		// the payload names the call it answers, so that a misdelivered
		// reply is visible in the result
		b := append([]byte(fmt.Sprintf("r%d:", tag)), rpcx.SegBytes(genBytes(r, 40))...)
		return rpcx.Field{K: "bytes", B: rpcx.SegsOf(b)}
	case "err":
		if r.Intn(3) > 0 {
			return rpcx.Field{K: "err", Nil: true}
		}
		code := int64(1 + r.Intn(11))
		return rpcx.Field{K: "err", I: strconv.FormatInt(code, 10),
			B: rpcx.SegsOf([]byte(fmt.Sprintf("e%d", tag)))}
	}
	panic(k)
}

func genResp(r *hx.Rng, kind string, tag int) []rpcx.Field {
	var fs []rpcx.Field
	for _, k := range respSchema[kinds[kind].resp] {
		fs = append(fs, genField(r, k, tag))
	}
	if fs == nil {
		fs = []rpcx.Field{}
	}
	return fs
}

// perm is a random permutation of 0..n-1.
func perm(r *hx.Rng, n int) []int {
	p := make([]int, n)
	for i := range p {
		p[i] = i
	}
	for i := n - 1; i > 0; i-- {
		j := r.Intn(i + 1)
		p[i], p[j] = p[j], p[i]
	}
	return p
}

var callKinds = []string{"hello", "hello", "hello", "read", "write", "close", "dialside", "dial"}

type genState struct {
	r        *hx.Rng
	nextK    int
	kind     map[int]string
	pending  []int // sent, not yet addressed by a frame
	answered []int
	abandoned []int // sent, the caller's context has ended, not yet addressed by a frame
	steps    []Step
	broken   bool
	dead     bool // the generator's guess that serve has exited
	sig      bool
}

func (g *genState) newCalls(n int, only string) []CallSpec {
	var cs []CallSpec
	dial := false
	for j := 0; j < n; j++ {
		kind := only
		if kind == "" {
			kind = callKinds[g.r.Intn(len(callKinds))]
			if kind == "dial" {
				if dial {
					kind = "hello"
				}
				dial = true
			}
		}
		c := CallSpec{K: g.nextK, Kind: kind}
		if kind == "read" {
			c.Cap = []int{0, 1, 16, 64, 4096}[g.r.Intn(5)]
		}
		g.kind[c.K] = kind
		g.nextK++
		cs = append(cs, c)
	}
	return cs
}

func (g *genState) calls(n int, only string) {
	if g.broken && !g.dead {
		n = 1
	}
	cs := g.newCalls(n, only)
	g.steps = append(g.steps, Step{Op: "calls", Calls: cs})
	if g.dead || g.sig {
		return
	}
	if g.broken {
		g.dead = true
		return
	}
	for _, c := range cs {
		g.pending = append(g.pending, c.K)
	}
}

func (g *genState) takePending(idx int) int {
	k := g.pending[idx]
	g.pending = append(g.pending[:idx], g.pending[idx+1:]...)
	g.answered = append(g.answered, k)
	return k
}

func (g *genState) good(k int) FrameSpec {
	return FrameSpec{Kind: "good", To: k, Fields: genResp(g.r, g.kind[k], k)}
}

// badFrame makes one malformed or misaddressed frame.
func (g *genState) badFrame() FrameSpec {
	r := g.r
	pick := func() (int, bool) {
		if len(g.pending) == 0 {
			return 0, false
		}
		return g.pending[r.Intn(len(g.pending))], true
	}
	switch r.Intn(9) {
	case 0: // duplicate of an answered call
		if len(g.answered) > 0 {
			k := g.answered[r.Intn(len(g.answered))]
			f := g.good(k)
			f.Kind = "dup"
			return f
		}
	case 1:
		return FrameSpec{Kind: "future", Off: uint64(r.Intn(3)) + uint64(r.Intn(2))*(1<<40),
			Fields: []rpcx.Field{genField(r, "bytes", 9999)}}
	case 2: // short packet
		if k, ok := pick(); ok {
			f := g.good(k)
			f.Kind = "short"
			f.Cut = r.Intn(10)
			return f
		}
		return FrameSpec{Kind: "raw", Raw: fmt.Sprintf("%x", r.Bytes(r.Intn(10)))}
	case 3: // mistyped: removes the call from the table
		if len(g.pending) > 0 {
			k := g.takePending(r.Intn(len(g.pending)))
			t := []int{1, 2, 3, 4, 5, 6, 8, 9, 200}[r.Intn(9)]
			if t == kinds[g.kind[k]].typ {
				t = 5
			}
			return FrameSpec{Kind: "wrongtype", To: k, Typ: t,
				Fields: []rpcx.Field{genField(r, "bytes", k)}}
		}
	case 4: // truncated body: fails that call only
		if len(g.pending) > 0 {
			i := r.Intn(len(g.pending))
			k := g.pending[i]
			if len(respSchema[kinds[g.kind[k]].resp]) > 0 {
				g.takePending(i)
				f := g.good(k)
				f.Kind = "trunc"
				f.Cut = 1 + r.Intn(12)
				return f
			}
		}
	case 5:
		return FrameSpec{Kind: "text"}
	case 6: // length prefix far beyond the frame
		if len(g.pending) > 0 {
			i := r.Intn(len(g.pending))
			k := g.pending[i]
			if kk := g.kind[k]; kk == "hello" || kk == "read" {
				g.takePending(i)
				return FrameSpec{Kind: "hugelen", To: k,
					Off: []uint64{1 << 20, 1 << 40, 1 << 62, 1 << 63, ^uint64(0)}[r.Intn(5)]}
			}
		}
	case 7: // empty or tiny binary message
		return FrameSpec{Kind: "raw", Raw: fmt.Sprintf("%x", r.Bytes(r.Intn(4)))}
	case 8: // arbitrary bytes with a complete header and a zero error byte
		b := r.Bytes(10 + r.Intn(30))
		b[9] = 0
		if r.Bool() { // a small id: may hit a live call with a random type and body
			copy(b[:8], []byte{byte(r.Intn(6)), 0, 0, 0, 0, 0, 0, 0})
			b[8] = byte([]int{1, 2, 3, 4, 6, 8, 9, 5}[r.Intn(8)])
		}
		return FrameSpec{Kind: "raw", Raw: fmt.Sprintf("%x", b)}
	}
	return FrameSpec{Kind: "future", Off: 7, Fields: []rpcx.Field{genField(r, "bytes", 9999)}}
}

// aliasDeltas: distances at which a call id could collide with another one if
// the table of pending calls were keyed by anything less than the full 64-bit
// id: every power of two, every small distance, a few multiples.
func aliasDeltas(r *hx.Rng, all bool) []uint64 {
	var ds []uint64
	for j := uint(1); j < 64; j++ {
		if all || r.Intn(4) == 0 {
			ds = append(ds, uint64(1)<<j)
		}
	}
	// small distances: the fixed history has 1..300, every seeded one a
	// window of 40 somewhere below 1100
	lo, hi := 1, 300
	if !all {
		lo = 1 + r.Intn(1060)
		hi = lo + 39
	}
	for m := lo; m <= hi; m++ {
		ds = append(ds, uint64(m))
	}
	for j := 0; j < 12; j++ {
		ds = append(ds, uint64(3+r.Intn(5000))<<uint(r.Intn(50)))
	}
	return ds
}

// alias: while calls are outstanding the peer sends well-formed replies of
// the right type whose id lies a given distance beyond the highest
// outstanding id (nobody has that id); afterwards every call is answered.
func (g *genState) alias(all bool) {
	var fs []FrameSpec
	for _, d := range aliasDeltas(g.r, all) {
		fs = append(fs, FrameSpec{Kind: "alias", To: -1, Off: d})
		if len(fs) >= 64 {
			g.frames(fs)
			fs = nil
		}
	}
	g.frames(fs)
}

// held: one call stays unanswered while n more are issued and answered; then
// one more call; then the peer answers the old call and the new one, in
// that order.
func (g *genState) held(n int) {
	g.calls(1, "hello")
	old := g.pending[0]
	for n > 0 {
		b := 1 + g.r.Intn(16)
		if b > n {
			b = n
		}
		n -= b
		g.calls(b, "")
		var fs []FrameSpec
		for len(g.pending) > 1 {
			i := g.r.Intn(len(g.pending))
			if g.pending[i] == old {
				continue
			}
			fs = append(fs, g.good(g.takePending(i)))
		}
		g.frames(fs)
	}
	g.calls(1, "hello")
	last := g.pending[len(g.pending)-1]
	g.pending = nil
	g.answered = append(g.answered, old, last)
	g.frames([]FrameSpec{g.good(old), g.good(last)})
}

// doneCalls: n calls issued with a context that has already ended, followed
// (in the same step, after they have returned) by live calls.
func (g *genState) doneCalls(n, live int) {
	kinds := []string{"hello", "hello", "read", "write", "close"}
	var cs []CallSpec
	for j := 0; j < n; j++ {
		c := g.newCalls(1, kinds[g.r.Intn(len(kinds))])[0]
		c.Ctx = "done"
		cs = append(cs, c)
	}
	lv := g.newCalls(live, "hello")
	g.steps = append(g.steps, Step{Op: "calls", Calls: append(cs, lv...)})
	for _, c := range lv {
		g.pending = append(g.pending, c.K)
	}
}

// queued: serve is held right after taking one call off the queue; n more
// calls are issued and sit in the queue; the contexts of some of them end
// there; serve is released and sends everything.
func (g *genState) queued(n, ncancel int) {
	cs := g.newCalls(1+n, "hello")
	var cancel []int
	for _, j := range perm(g.r, n) {
		if len(cancel) < ncancel {
			cancel = append(cancel, cs[1+j].K)
		}
	}
	g.steps = append(g.steps, Step{Op: "queued", Calls: cs, Cancel: cancel})
	gone := map[int]bool{}
	for _, k := range cancel {
		gone[k] = true
	}
	for _, c := range cs {
		if gone[c.K] {
			g.abandoned = append(g.abandoned, c.K)
		} else {
			g.pending = append(g.pending, c.K)
		}
	}
}

// midsend: the context of a call ends while serve is between writing the
// request and recording the call.
func (g *genState) midsend() {
	cs := g.newCalls(1, "hello")
	g.steps = append(g.steps, Step{Op: "midsend", Calls: cs})
	g.abandoned = append(g.abandoned, cs[0].K)
}

// behind: k calls that passed the shutdown check queue up behind the
// shutdown request; the peer then answers the shutdown (or not).
func (g *genState) behind(k int) {
	kinds := []string{"hello", "hello", "read", "write", "close"}
	var cs []CallSpec
	for j := 0; j < k; j++ {
		c := g.newCalls(1, kinds[g.r.Intn(len(kinds))])[0]
		c.Ctx = "gate"
		cs = append(cs, c)
	}
	sd := g.newCalls(1, "shutdown")
	g.steps = append(g.steps, Step{Op: "behind", Calls: append(cs, sd...)})
	g.pending = append(g.pending, sd[0].K)
	g.sig = true
}

// ctxRound: one round of a history about contexts that end.
func (g *genState) ctxRound() {
	r := g.r
	switch r.Intn(6) {
	case 0, 1:
		g.doneCalls(1+r.Intn(12), 1+r.Intn(2))
	case 2:
		g.queued(1+r.Intn(6), 1+r.Intn(3))
	case 3:
		g.midsend()
	case 4: // the context of a call that is pending at the peer ends
		g.calls(1+r.Intn(3), "")
		k := g.takePending(len(g.pending) - 1)
		g.answered = g.answered[:len(g.answered)-1]
		g.abandoned = append(g.abandoned, k)
		g.steps = append(g.steps, Step{Op: "cancel", K: k})
	case 5: // the context of a call that has been answered ends: nothing happens
		g.calls(1, "hello")
		k := g.takePending(len(g.pending) - 1)
		g.frames([]FrameSpec{g.good(k)})
		g.steps = append(g.steps, Step{Op: "cancel", K: k})
	}
	// the peer may still answer a call whose caller has gone away
	if len(g.abandoned) > 0 && r.Intn(3) == 0 {
		i := r.Intn(len(g.abandoned))
		k := g.abandoned[i]
		g.abandoned = append(g.abandoned[:i], g.abandoned[i+1:]...)
		g.frames([]FrameSpec{g.good(k)})
	}
}

// early: one call whose reply the peer sends while serve is held between
// the send and the recording of the call as pending.
func (g *genState) early(kind string) {
	cs := g.newCalls(1, kind)
	k := cs[0].K
	g.steps = append(g.steps, Step{Op: "early", Calls: cs, Frames: []FrameSpec{g.good(k)}})
	g.answered = append(g.answered, k)
}

func (g *genState) frames(fs []FrameSpec) {
	if len(fs) > 0 {
		g.steps = append(g.steps, Step{Op: "frames", Frames: fs})
	}
}

// answerAll answers what is pending in a random order, in bursts.
func (g *genState) answerAll(withBad bool, tails bool) {
	for len(g.pending) > 0 {
		burst := 1 + g.r.Intn(len(g.pending))
		var fs []FrameSpec
		for j := 0; j < burst && len(g.pending) > 0; j++ {
			if withBad && g.r.Intn(3) == 0 {
				fs = append(fs, g.badFrame())
				continue
			}
			k := g.takePending(g.r.Intn(len(g.pending)))
			f := g.good(k)
			if tails && g.r.Intn(4) == 0 {
				f.Kind = "tail"
				f.Tail = 1 + g.r.Intn(20)
			}
			fs = append(fs, f)
		}
		g.frames(fs)
	}
}

func genHistory(seed uint64, i int) Case {
	r := hx.NewRng(seed*1000003 + uint64(i)*7919 + 17)
	g := &genState{r: r, kind: map[int]string{}}
	c := Case{I: i}
	// fixed histories first: the known failing inputs
	switch i {
	case 0:
		c.Stream = "sendfail"
		g.calls(1, "hello")
		g.answerAll(false, false)
		g.steps = append(g.steps, Step{Op: "break"})
		g.broken = true
		g.calls(1, "hello")
		c.Steps = g.steps
		return c
	case 4:
		c.Stream = "early"
		g.calls(2, "hello")
		g.early("hello")
		g.early("read")
		g.answerAll(false, false)
		c.Steps = g.steps
		return c
	case 13: // a caller gives up; later calls; the peer then answers the abandoned call, late, and the others
		c.Stream = "ctx"
		g.calls(1, "hello")
		a := g.takePending(0)
		g.answered = g.answered[:len(g.answered)-1]
		g.steps = append(g.steps, Step{Op: "cancel", K: a})
		g.calls(1, "hello")
		g.calls(1, "hello")
		g.calls(1, "read")
		g.frames([]FrameSpec{g.good(a)})
		g.answerAll(false, false)
		c.Steps = g.steps
		return c
	case 11, 12: // calls queued behind the shutdown request; the peer answers the shutdown (11) or goes away (12)
		c.Stream = "behind"
		g.calls(2, "hello")
		g.behind(5)
		if i == 11 {
			sk := g.takePending(len(g.pending) - 1)
			g.frames([]FrameSpec{{Kind: "good", To: sk, Fields: []rpcx.Field{}}})
			g.dead = true
		}
		c.Steps = g.steps
		return c
	case 9: // the first call of the transport is held by the peer while 32 calls are issued with a finished context
		c.Stream = "ctx"
		g.calls(1, "hello")
		g.doneCalls(32, 1)
		g.frames([]FrameSpec{g.good(g.takePending(1))})
		g.frames([]FrameSpec{g.good(g.takePending(0))})
		c.Steps = g.steps
		return c
	case 10: // ... while contexts end in the queue, between send and store, and at the peer
		c.Stream = "ctx"
		g.calls(2, "hello")
		g.queued(6, 3)
		g.midsend()
		g.calls(1, "read")
		k := g.takePending(len(g.pending) - 1)
		g.steps = append(g.steps, Step{Op: "cancel", K: k})
		g.answerAll(false, false)
		c.Steps = g.steps
		return c
	case 5: // replies with ids nobody has, at every distance a smaller key could confuse
		c.Stream = "alias"
		g.calls(3, "hello")
		g.alias(true)
		g.answerAll(false, false)
		c.Steps = g.steps
		return c
	case 6, 7, 8: // an old call answered after 255 / 1023 / 127 younger ones
		c.Stream = "held"
		g.held([]int{255, 1023, 127}[i-6])
		c.Steps = g.steps
		return c
	case 1:
		c.Stream = "sendfail"
		g.calls(3, "hello")
		g.steps = append(g.steps, Step{Op: "break"})
		g.broken = true
		g.calls(1, "read")
		g.calls(2, "hello")
		c.Steps = g.steps
		return c
	case 2:
		c.Stream = "wrongtype"
		g.calls(3, "hello")
		k := g.takePending(1)
		g.frames([]FrameSpec{{Kind: "wrongtype", To: k, Typ: 4,
			Fields: []rpcx.Field{genField(r, "bytes", k)}}, g.good(k)})
		g.answerAll(false, false)
		c.Steps = g.steps
		return c
	case 3:
		c.Stream = "errbyte"
		g.calls(3, "hello")
		k := g.pending[1]
		g.frames([]FrameSpec{{Kind: "errbyte", To: k, Ec: 2}})
		g.dead = true
		c.Steps = g.steps
		return c
	}
	streams := []string{"perm", "perm", "perm", "bad", "bad", "bad", "sendfail", "errbyte",
		"shutdown", "hint", "peerclose", "cancel", "mixed", "mixed", "garbage", "early", "alias", "ctx", "ctx", "behind"}
	c.Stream = streams[r.Intn(len(streams))]
	if i%97 == 20 { // a few long histories with an old call answered late
		c.Stream = "held"
		g.held([]int{63, 255, 256, 511, 257, 300}[r.Intn(6)] + 256*r.Intn(2))
		c.Steps = g.steps
		return c
	}
	rounds := 1 + r.Intn(3)
	if c.Stream == "behind" {
		g.calls(r.Intn(4), "")
		if len(g.pending) > 0 && r.Bool() {
			g.frames([]FrameSpec{g.good(g.takePending(r.Intn(len(g.pending))))})
		}
		g.behind(1 + r.Intn(8))
		sk := g.pending[len(g.pending)-1]
		switch r.Intn(3) {
		case 0: // the peer answers what is outstanding, the shutdown last
			g.pending = g.pending[:len(g.pending)-1]
			g.answerAll(false, false)
			g.frames([]FrameSpec{{Kind: "good", To: sk, Fields: []rpcx.Field{}}})
			g.dead = true
		case 1:
			g.pending = g.pending[:len(g.pending)-1]
			g.frames([]FrameSpec{{Kind: "good", To: sk, Fields: []rpcx.Field{}}})
			g.dead = true
		}
		c.Steps = g.steps
		return c
	}
	if c.Stream == "ctx" {
		// older calls -- among them, mostly, the first call of the transport --
		// stay outstanding while the contexts of younger ones end
		g.calls(1+r.Intn(3), "")
		if r.Intn(4) == 0 {
			g.frames([]FrameSpec{g.good(g.takePending(0))})
		}
		for round := 0; round < rounds+1; round++ {
			g.ctxRound()
			if len(g.pending) > 2 && r.Bool() {
				g.frames([]FrameSpec{g.good(g.takePending(1 + r.Intn(len(g.pending)-1)))})
			}
		}
		g.answerAll(r.Intn(4) == 0, false)
		c.Steps = g.steps
		return c
	}
	for round := 0; round < rounds && !g.dead; round++ {
		n := 1 + r.Intn(8)
		if r.Intn(6) == 0 {
			n = 9 + r.Intn(24)
		}
		g.calls(n, "")
		switch c.Stream {
		case "perm":
			if r.Intn(3) == 0 { // more callers while replies are outstanding
				g.frames([]FrameSpec{g.good(g.takePending(r.Intn(len(g.pending))))})
				g.calls(1+r.Intn(6), "")
			}
			g.answerAll(false, r.Intn(3) == 0)
		case "alias":
			g.alias(false)
			g.answerAll(r.Intn(3) == 0, false)
		case "bad", "mixed":
			g.answerAll(true, true)
		case "garbage": // wholly random frames, most of them fatal (non-zero error byte)
			var fs []FrameSpec
			for j := 0; j < 1+r.Intn(3); j++ {
				fs = append(fs, FrameSpec{Kind: "raw", Raw: fmt.Sprintf("%x", r.Bytes(r.Intn(48)))})
			}
			g.frames(fs)
			g.answerAll(false, false)
		case "sendfail":
			if r.Bool() {
				g.answerAll(false, false)
			} else if len(g.pending) > 1 {
				g.frames([]FrameSpec{g.good(g.takePending(0))})
			}
			if round == rounds-1 {
				g.steps = append(g.steps, Step{Op: "break"})
				g.broken = true
				g.calls(1, "")
				g.calls(1+r.Intn(3), "")
			}
		case "errbyte":
			if round == rounds-1 {
				var fs []FrameSpec
				if len(g.pending) > 1 && r.Bool() {
					fs = append(fs, g.good(g.takePending(0)))
				}
				f := FrameSpec{Kind: "errbyte", Ec: 1 + r.Intn(255)}
				if len(g.pending) > 0 && r.Intn(4) > 0 {
					f.To = g.pending[r.Intn(len(g.pending))]
				} else {
					f.Kind = "errbyte-unknown"
				}
				fs = append(fs, f)
				if len(g.pending) > 0 && r.Bool() { // a good reply after the fatal frame
					fs = append(fs, g.good(g.pending[0]))
				}
				g.frames(fs)
				g.dead = true
				g.calls(1+r.Intn(2), "")
			} else {
				g.answerAll(false, false)
			}
		case "shutdown":
			if round == rounds-1 {
				if r.Bool() && len(g.pending) > 0 {
					g.frames([]FrameSpec{g.good(g.takePending(r.Intn(len(g.pending))))})
				}
				g.calls(1, "shutdown")
				sk := g.nextK - 1
				g.sig = true
				g.calls(1+r.Intn(2), "") // refused
				if r.Intn(4) == 0 {
					g.calls(1, "shutdown") // second shutdown: refused
				}
				var fs []FrameSpec
				if len(g.pending) > 1 && r.Bool() {
					// another reply first; the shutdown call stays pending
					for j, k := range g.pending {
						if k != sk {
							fs = append(fs, g.good(g.takePending(j)))
							break
						}
					}
				}
				if r.Intn(5) > 0 {
					fs = append(fs, FrameSpec{Kind: "good", To: sk, Fields: []rpcx.Field{}})
					g.dead = true
				}
				g.frames(fs)
			} else {
				g.answerAll(r.Bool(), false)
			}
		case "hint":
			if round == rounds-1 {
				var fs []FrameSpec
				if len(g.pending) > 0 && r.Bool() {
					fs = append(fs, g.good(g.takePending(0)))
				}
				fs = append(fs, FrameSpec{Kind: "hint"})
				g.frames(fs)
				g.sig = true
				g.calls(1+r.Intn(2), "") // refused
				if r.Bool() {
					g.frames([]FrameSpec{{Kind: "hintreply"}})
					g.dead = true
				} else if len(g.pending) > 0 {
					g.frames([]FrameSpec{g.good(g.takePending(0))})
				}
			} else {
				g.answerAll(false, false)
			}
		case "peerclose":
			if round == rounds-1 {
				if len(g.pending) > 1 {
					g.frames([]FrameSpec{g.good(g.takePending(r.Intn(len(g.pending))))})
				}
				g.steps = append(g.steps, Step{Op: "peerclose"})
				g.dead = true
				g.calls(1+r.Intn(2), "")
			} else {
				g.answerAll(false, false)
			}
		case "cancel":
			if len(g.pending) > 0 {
				k := g.pending[r.Intn(len(g.pending))]
				g.steps = append(g.steps, Step{Op: "cancel", K: k})
			}
			g.answerAll(r.Bool(), false)
		case "early":
			for j := 0; j < 1+r.Intn(3); j++ {
				g.early("")
				if len(g.pending) > 0 && r.Bool() {
					g.frames([]FrameSpec{g.good(g.takePending(r.Intn(len(g.pending))))})
				}
			}
			g.answerAll(r.Intn(3) == 0, false)
		}
	}
	c.Steps = g.steps
	return c
}

// ---- execution --------------------------------------------------------------

type callRes struct {
	k      int
	kind   string
	fields []rpcx.Field
}

type caller struct {
	spec      CallSpec
	cancel    context.CancelFunc
	res       *callRes
	seen      bool
	id        uint64
	sendFail  bool
	late      bool
	dropped   bool
	cancelled bool
	refused   bool
	internal  bool
	when      string // where the call was when its context ended
	rejectedButSent bool // serve completed the call with errAlreadyShutdown and sent it all the same
}

type runner struct {
	c       *Case
	tap     *rpcx.LogTap
	pair    *rpcx.WSPair
	cl      *sniproxy.VerifClient
	reqs    chan []byte
	results chan callRes
	callers map[int]*caller
	order   []int
	pending map[uint64]int // id -> k, as the harness believes (for wait bounds only)
	sig     bool
	syncN   int
	maxID   uint64
	anyID   bool
	nextInt int
	stray   map[int]bool // callers that have returned although their request may still be sent
}

func (rn *runner) exited() bool {
	select {
	case <-rn.cl.ServeDone():
		return true
	default:
		return false
	}
}

func le64(v uint64) []byte {
	b := make([]byte, 8)
	binary.LittleEndian.PutUint64(b, v)
	return b
}

func (rn *runner) event(e Event) { rn.c.Events = append(rn.c.Events, e) }

func (rn *runner) startCaller(cs CallSpec) { rn.startCallerCtx(cs, nil) }

// startCallerCtx starts the call under the given context (nil: a fresh
// cancellable one).
func (rn *runner) startCallerCtx(cs CallSpec, use context.Context) {
	ctx, cancel := context.WithCancel(context.Background())
	if cs.Ctx == "done" {
		cancel()
	}
	if use != nil {
		ctx = use
	}
	cr := &caller{spec: cs, cancel: cancel}
	rn.callers[cs.K] = cr
	rn.order = append(rn.order, cs.K)
	ki := kinds[cs.Kind]
	var req []rpcx.Field
	k := uint64(cs.K)
	ks := strconv.FormatUint(k, 10)
	switch cs.Kind {
	case "hello":
		req = []rpcx.Field{{K: "bytes", B: rpcx.SegsOf([]byte("c" + ks))}}
	case "read":
		req = []rpcx.Field{{K: "u64", U: ks}, {K: "int", I: strconv.Itoa(cs.Cap)}}
	case "write":
		req = []rpcx.Field{{K: "u64", U: ks}, {K: "bytes", B: rpcx.SegsOf([]byte("w" + ks))}}
	case "close":
		req = []rpcx.Field{{K: "u64", U: ks}}
	case "dialside":
		req = []rpcx.Field{{K: "u64", U: ks}, {K: "u64", U: "7"}, {K: "bytes", B: rpcx.SegsOf([]byte("tok"))}}
	}
	go func() {
		fs, err := rn.cl.Call(ctx, byte(ki.typ), ki.req, rpcx.ToShim(req), ki.resp, cs.Cap)
		r := callRes{k: cs.K, kind: sniproxy.VerifCallErrKind(err)}
		if err == nil {
			r.fields = rpcx.FromShim(fs)
			if r.fields == nil {
				r.fields = []rpcx.Field{}
			}
		}
		rn.results <- r
	}()
}

// identify finds the caller a request frame belongs to.
func (rn *runner) identify(data []byte, batch map[int]bool) (id uint64, typ int, k int, ok bool) {
	if len(data) < 9 {
		return 0, 0, 0, false
	}
	id = binary.LittleEndian.Uint64(data)
	typ = int(data[8])
	body := data[9:]
	switch typ {
	case 1:
		if len(body) >= 9 {
			s := string(body[8:])
			if len(s) > 1 && s[0] == 'c' {
				if n, err := strconv.Atoi(s[1:]); err == nil {
					return id, typ, n, true
				}
			}
		}
	case 3, 4, 6, 8, 9:
		if len(body) >= 8 {
			return id, typ, int(binary.LittleEndian.Uint64(body)), true
		}
	case 2, 0:
		for k := range batch {
			if kinds[rn.callers[k].spec.Kind].typ == typ && !rn.callers[k].seen {
				return id, typ, k, true
			}
		}
		if typ == 0 { // transport-internal shutdown (after a hint)
			return id, typ, -1, true
		}
	}
	return id, typ, 0, false
}

func (rn *runner) noteID(id uint64) {
	if !rn.anyID || id > rn.maxID {
		rn.maxID = id
	}
	rn.anyID = true
}

func (rn *runner) sawRequest(id uint64, typ, k int) {
	cr := rn.callers[k]
	cr.seen = true
	cr.id = id
	rn.noteID(id)
	rn.pending[id] = k
	ki := kinds[cr.spec.Kind]
	if typ == 0 {
		rn.sig = true
		rn.event(Event{E: "signal"})
	}
	rn.event(Event{E: "call", K: k, Typ: typ, Resp: ki.resp, Cap: cr.spec.Cap, SendOK: true,
		ID: strconv.FormatUint(id, 10)})
}

func (rn *runner) internalShutdown(id uint64) {
	k := 100000 + rn.nextInt
	rn.nextInt++
	cr := &caller{spec: CallSpec{K: k, Kind: "shutdown"}, internal: true, seen: true, id: id}
	rn.callers[k] = cr
	rn.noteID(id)
	rn.pending[id] = k
	rn.sig = true
	rn.event(Event{E: "signal"})
	rn.event(Event{E: "call", K: k, Typ: 0, SendOK: true, ID: strconv.FormatUint(id, 10)})
}

func (rn *runner) gotResult(r callRes) {
	cr := rn.callers[r.k]
	rr := r
	cr.res = &rr
}

// gateCtx is a context whose first Done() call -- the one asyncCall makes
// after it has checked the shutdown signal and before it puts the exchange
// into the queue -- reports its arrival and waits until the gate is opened.
type gateCtx struct {
	context.Context
	once    sync.Once
	arrived chan struct{}
	gate    chan struct{}
}

func (g *gateCtx) Done() <-chan struct{} {
	g.once.Do(func() {
		close(g.arrived)
		<-g.gate
	})
	return g.Context.Done()
}

// doBehind forces "a call reaches the queue BEHIND the shutdown request
// although it passed the shutdown check before the signal was closed": the
// calls of the step stop between asyncCall's check and its enqueue, the
// step's shutdown call (the last one) is issued and reaches the peer, the
// gates are opened.  serve takes the calls with shutdownCalled set: each is
// completed with errAlreadyShutdown, once, and is neither sent nor recorded.
func (rn *runner) doBehind(st Step) bool {
	n := len(st.Calls) - 1
	if n < 1 || rn.exited() || rn.sig || st.Calls[n].Kind != "shutdown" {
		return rn.doCalls(st.Calls)
	}
	gate := make(chan struct{})
	var gated []*gateCtx
	for _, c := range st.Calls[:n] {
		g := &gateCtx{Context: context.Background(), arrived: make(chan struct{}), gate: gate}
		gated = append(gated, g)
		rn.startCallerCtx(c, g)
	}
	for _, g := range gated {
		select {
		case <-g.arrived:
		case <-time.After(waitBound):
			rn.c.Hang = "behind: a call did not reach asyncCall's select"
			close(gate)
			return false
		}
	}
	if !rn.doCalls(st.Calls[n:]) { // the shutdown request: closes the signal, is taken, reaches the peer
		close(gate)
		return false
	}
	close(gate)
	// every gated call returns: refused by serve
	want := map[int]bool{}
	for _, c := range st.Calls[:n] {
		want[c.K] = true
	}
	timeout := time.After(waitBound)
	for len(want) > 0 {
		select {
		case data, ok := <-rn.reqs:
			if !ok {
				rn.reqs = nil
				continue
			}
			// a rejected call must not reach the peer
			id, typ, k, ok2 := rn.identify(data, want)
			if ok2 && rn.callers[k] != nil {
				rn.sawRequest(id, typ, k)
				rn.callers[k].rejectedButSent = true
				continue
			}
			rn.c.Hang = fmt.Sprintf("unidentified request id=%d typ=%d", id, typ)
			return false
		case r := <-rn.results:
			rn.gotResult(r)
			if !want[r.k] {
				continue
			}
			delete(want, r.k)
			if r.kind == "alreadyshutdown" {
				rn.callers[r.k].refused = true
				rn.event(Event{E: "refused", K: r.k})
			}
		case <-timeout:
			rn.c.Hang = "behind: a call queued behind the shutdown request did not return"
			return false
		}
	}
	return true
}

// strayRequest records the request of a caller that has already returned
// (its context ended while the call was queued): serve sends it all the same.
func (rn *runner) strayRequest(data []byte) bool {
	id, typ, k, ok := rn.identify(data, map[int]bool{})
	if !ok || !rn.stray[k] {
		return false
	}
	delete(rn.stray, k)
	rn.sawRequest(id, typ, k)
	return true
}

// doDone issues calls whose context has already ended and waits for them to
// return.  asyncCall's select may still put such a call into the queue (the
// send and ctx.Done() are both ready), in which case serve sends it later:
// always before the request of any call issued after this function returns.
func (rn *runner) doDone(cs []CallSpec) bool {
	if len(cs) == 0 {
		return true
	}
	want := map[int]bool{}
	for _, c := range cs {
		rn.startCaller(c)
		want[c.K] = true
	}
	timeout := time.After(waitBound)
	for len(want) > 0 {
		select {
		case data, ok := <-rn.reqs:
			if !ok {
				rn.reqs = nil
				continue
			}
			id, typ, k, ok2 := rn.identify(data, map[int]bool{})
			if ok2 && (want[k] || rn.stray[k]) {
				delete(rn.stray, k)
				rn.sawRequest(id, typ, k)
				continue
			}
			rn.c.Hang = fmt.Sprintf("unidentified request id=%d typ=%d", id, typ)
			return false
		case r := <-rn.results:
			rn.gotResult(r)
			if !want[r.k] {
				continue
			}
			delete(want, r.k)
			cr := rn.callers[r.k]
			switch r.kind {
			case "alreadyshutdown":
				cr.refused = true
				rn.event(Event{E: "refused", K: r.k})
			default:
				cr.cancelled, cr.when = true, "issue"
				rn.event(Event{E: "cancel", K: r.k})
				if !cr.seen {
					rn.stray[r.k] = true
				}
			}
		case <-timeout:
			rn.c.Hang = "a call issued with a finished context did not return"
			return false
		}
	}
	return true
}

func (rn *runner) doCalls(cs []CallSpec) bool {
	need := map[int]bool{}
	wasExited := rn.exited()
	if !wasExited {
		var pre, live []CallSpec
		for _, c := range cs {
			if c.Ctx == "done" {
				pre = append(pre, c)
			} else {
				live = append(live, c)
			}
		}
		if !rn.doDone(pre) {
			return false
		}
		cs = live
	}
	for _, c := range cs {
		rn.startCaller(c)
		if wasExited {
			// serve has returned: nothing takes this call off the queue
			rn.callers[c.K].late = true
			ki := kinds[c.Kind]
			rn.event(Event{E: "call", K: c.K, Typ: ki.typ, Resp: ki.resp, Cap: c.Cap, SendOK: true})
			continue
		}
		need[c.K] = true
	}
	timeout := time.After(waitBound)
	for len(need) > 0 {
		select {
		case data, ok := <-rn.reqs:
			if !ok {
				rn.reqs = nil
				continue
			}
			id, typ, k, ok2 := rn.identify(data, need)
			if !ok2 || k < 0 || !need[k] {
				if ok2 && k == -1 {
					rn.internalShutdown(id)
					continue
				}
				if ok2 && rn.stray[k] {
					delete(rn.stray, k)
					rn.sawRequest(id, typ, k)
					continue
				}
				rn.c.Hang = fmt.Sprintf("unidentified request id=%d typ=%d", id, typ)
				return false
			}
			rn.sawRequest(id, typ, k)
			delete(need, k)
		case r := <-rn.results:
			rn.gotResult(r)
			if !need[r.k] {
				continue
			}
			delete(need, r.k)
			cr := rn.callers[r.k]
			ki := kinds[cr.spec.Kind]
			if r.kind == "alreadyshutdown" {
				cr.refused = true
				rn.event(Event{E: "refused", K: r.k})
			} else {
				// returned although the peer never saw the request
				cr.sendFail = true
				if ki.typ == 0 {
					rn.sig = true
					rn.event(Event{E: "signal"})
				}
				rn.event(Event{E: "call", K: r.k, Typ: ki.typ, Resp: ki.resp, Cap: cr.spec.Cap, SendOK: false})
			}
		case <-timeout:
			rn.c.Hang = "calls: request neither seen nor refused"
			return false
		}
	}
	return true
}

func (rn *runner) encodeGood(id uint64, typ int, resp string, fs []rpcx.Field) []byte {
	b, err := sniproxy.VerifEncodeReply(id, uint8(typ), 0, resp, rpcx.ToShim(fs))
	if err != nil {
		panic(err)
	}
	return b
}

// resolve turns a frame spec into bytes, using the ids seen on the wire.
func (rn *runner) resolve(f FrameSpec) (data []byte, text bool, sf SentFrame) {
	sf = SentFrame{Kind: f.Kind, To: f.To, Fields: f.Fields}
	idOf := func(k int) (uint64, int, string) {
		cr := rn.callers[k]
		if cr == nil { // (a shrunk script may name a caller that no longer exists)
			return rn.maxID + 1000 + uint64(k), 1, "helloResponse"
		}
		ki := kinds[cr.spec.Kind]
		id := cr.id
		if !cr.seen {
			id = rn.maxID + 1000 + uint64(k) // never sent: an id nobody has
		}
		return id, ki.typ, ki.resp
	}
	var id uint64
	typ, ec := 0, 0
	switch f.Kind {
	case "text":
		return []byte("hello"), true, sf
	case "good", "dup", "tail", "trunc", "short":
		var resp string
		id, typ, resp = idOf(f.To)
		data = rn.encodeGood(id, typ, resp, f.Fields)
		sf.Whole = rn.callers[f.To] != nil && rn.callers[f.To].seen
		switch f.Kind {
		case "tail":
			for j := 0; j < f.Tail; j++ {
				data = append(data, byte(j*37+1))
			}
		case "trunc":
			cut := f.Cut
			if cut > len(data)-10 {
				cut = len(data) - 10
			}
			if cut < 1 {
				cut = 0 // nothing to cut: the frame stays whole
			} else {
				sf.Whole = false
			}
			data = data[:len(data)-cut]
		case "short":
			if f.Cut < len(data) {
				data = data[:f.Cut]
			}
			if len(data) > 9 {
				data = data[:9]
			}
			sf.Whole = false
		}
	case "alias":
		// a reply of the right type and shape for the outstanding call with the
		// highest id (To == -1) or for call To, at distance Off from its id
		to := f.To
		if to < 0 {
			var top uint64
			for pid, k := range rn.pending {
				if to < 0 || pid > top {
					to, top = k, pid
				}
			}
		}
		if to < 0 {
			id, typ = rn.maxID+1000+f.Off, 1
			data = rn.encodeGood(id, typ, "helloResponse", []rpcx.Field{{K: "bytes", B: rpcx.SegsOf([]byte("bogus"))}})
			break
		}
		var resp string
		id, typ, resp = idOf(to)
		id += f.Off
		fs := f.Fields
		if fs == nil {
			r := hx.NewRng(f.Off*31 + uint64(to))
			fs = genResp(r, rn.callers[to].spec.Kind, 900000+to)
		}
		sf.Fields = fs
		data = rn.encodeGood(id, typ, resp, fs)
	case "wrongtype":
		id, _, _ = idOf(f.To)
		typ = f.Typ
		data = rn.encodeGood(id, typ, "helloResponse", f.Fields)
	case "hugelen":
		id, typ, _ = idOf(f.To)
		data = append(le64(id), byte(typ), 0)
		data = append(data, le64(f.Off)...)
		data = append(data, 'x', 'y')
	case "errbyte":
		id, typ, _ = idOf(f.To)
		ec = f.Ec
		data = append(le64(id), byte(typ), byte(ec))
	case "errbyte-unknown":
		id = rn.maxID + 500
		typ, ec = 1, f.Ec
		data = append(le64(id), byte(typ), byte(ec))
	case "future":
		id = rn.maxID + 1 + f.Off
		if !rn.anyID {
			id = f.Off
		}
		typ = 1
		data = rn.encodeGood(id, typ, "helloResponse", f.Fields)
	case "hint":
		typ = 7
		data = append(le64(0), 7, 0)
	case "hintreply": // reply to the transport's own shutdown call
		for pid, k := range rn.pending {
			if rn.callers[k].internal {
				id = pid
			}
		}
		data = append(le64(id), 0, 0)
	case "raw":
		data = rpcx.SegBytes([]rpcx.Seg{{Hex: f.Raw}})
		if data == nil {
			data = []byte{}
		}
	}
	if len(data) >= 10 {
		id = binary.LittleEndian.Uint64(data)
		typ, ec = int(data[8]), int(data[9])
	}
	sf.ID, sf.Typ, sf.Ec, sf.Len = strconv.FormatUint(id, 10), typ, ec, len(data)
	return data, false, sf
}

// track mirrors, for choosing observation bounds only, what a frame does to
// the table of pending calls.
func (rn *runner) track(data []byte) {
	if len(data) < 10 || data[9] != 0 || data[8] == 7 {
		return
	}
	id := binary.LittleEndian.Uint64(data)
	k, ok := rn.pending[id]
	if !ok {
		return
	}
	delete(rn.pending, id)
	if int(data[8]) != kinds[rn.callers[k].spec.Kind].typ {
		rn.callers[k].dropped = true
	}
}

// doEarly forces the schedule "the reply is already at the reader while
// serve has sent the request but not yet recorded the call": serve is held
// at the schedule point after the send, the peer answers at once, the reader
// is let run up to its fetch hand-off, then serve is released.
func (rn *runner) doEarly(st Step) bool {
	if len(st.Calls) != 1 || len(st.Frames) != 1 || rn.exited() {
		return true
	}
	me := rn.cl.Transport()
	sent := make(chan struct{}, 1)
	atFetch := make(chan struct{}, 4)
	release := make(chan struct{})
	var once sync.Once
	var taken atomic.Bool
	sniproxy.VerifSetTrHook(func(point string, tr interface{}) {
		if tr != me {
			return
		}
		switch point {
		case "serve:take":
			taken.Store(true) // (only this step's call can be taken now)
		case "serve:sent":
			if !taken.Load() {
				return // the tail of an earlier call's iteration
			}
			held := false
			once.Do(func() { held = true })
			if held {
				sent <- struct{}{}
				<-release
			}
		case "reader:fetch":
			select {
			case atFetch <- struct{}{}:
			default:
			}
		}
	})
	defer sniproxy.VerifSetTrHook(nil)
	cs := st.Calls[0]
	rn.startCaller(cs)
	deadline := time.After(waitBound)
wait:
	select {
	case <-sent:
	case r := <-rn.results:
		rn.gotResult(r)
		if r.k != cs.K {
			goto wait // an earlier caller returning
		}
		// refused or failed before the send: nothing to force
		cr := rn.callers[r.k]
		ki := kinds[cr.spec.Kind]
		if r.kind == "alreadyshutdown" {
			rn.event(Event{E: "refused", K: r.k})
		} else {
			rn.event(Event{E: "call", K: r.k, Typ: ki.typ, Resp: ki.resp, Cap: cr.spec.Cap, SendOK: false})
		}
		close(release)
		return true
	case <-deadline:
		rn.c.Hang = "early: serve did not reach the point after the send"
		close(release)
		return false
	}
	// the request is on the wire although serve has not recorded it
	ok := true
	select {
	case data := <-rn.reqs:
		id, typ, k, ok2 := rn.identify(data, map[int]bool{cs.K: true})
		if !ok2 || k != cs.K {
			rn.c.Hang = "early: unidentified request"
			ok = false
			break
		}
		rn.sawRequest(id, typ, k)
		data2, _, sf := rn.resolve(st.Frames[0])
		sf.AtEv = len(rn.c.Events)
		rn.c.Frames = append(rn.c.Frames, sf)
		rn.event(Event{E: "reply", Frame: rpcx.SegsOf(data2)})
		rn.track(data2)
		rn.pair.B.WriteMessage(websocket.BinaryMessage, data2)
		select {
		case <-atFetch: // the reader has the reply and is about to ask serve for the call
			time.Sleep(2 * time.Millisecond)
		case <-time.After(waitBound):
			rn.c.Hang = "early: the reader did not get to the fetch"
			ok = false
		}
	case <-time.After(waitBound):
		rn.c.Hang = "early: request not seen"
		ok = false
	}
	close(release)
	if !ok {
		return false
	}
	rn.syncN++
	marker := fmt.Sprintf("sync-%d-%d", rn.c.I, rn.syncN)
	rn.pair.B.WriteMessage(websocket.TextMessage, []byte(marker))
	if rn.tap.WaitAny("receive text: "+marker, rn.cl.ServeDone(), waitBound) == "timeout" {
		rn.c.Hang = "early: reader did not get to the marker"
		return false
	}
	return true
}

// endContext ends the context of caller k, whose call is at stage when, and
// waits for the call to return.
func (rn *runner) endContext(k int, when string) bool {
	cr := rn.callers[k]
	cr.cancelled, cr.when = true, when
	rn.event(Event{E: "cancel", K: k})
	cr.cancel()
	deadline := time.After(waitBound)
	for cr.res == nil {
		select {
		case r := <-rn.results:
			rn.gotResult(r)
		case <-deadline:
			rn.c.Hang = "the context of a call (" + when + ") ended, but the call did not return"
			cr.res = &callRes{k: k, kind: "none"}
			return false
		}
	}
	return true
}

// awaitRequests reads requests until those of all the given callers have
// been seen.
func (rn *runner) awaitRequests(need map[int]bool) bool {
	timeout := time.After(waitBound)
	for len(need) > 0 {
		select {
		case data, ok := <-rn.reqs:
			if !ok {
				rn.c.Hang = "connection closed while requests were expected"
				return false
			}
			id, typ, k, ok2 := rn.identify(data, need)
			if ok2 && rn.stray[k] {
				delete(rn.stray, k)
				rn.sawRequest(id, typ, k)
				continue
			}
			if !ok2 || !need[k] {
				rn.c.Hang = fmt.Sprintf("unidentified request id=%d typ=%d", id, typ)
				return false
			}
			rn.sawRequest(id, typ, k)
			delete(need, k)
		case r := <-rn.results:
			rn.gotResult(r)
		case <-timeout:
			rn.c.Hang = "queued calls were not sent"
			return false
		}
	}
	return true
}

// holdServe installs a hook that stops this transport's serve goroutine the
// first time it reaches point; it returns a channel that tells when serve is
// there and the function that lets it go on.
func (rn *runner) holdServe(point string) (<-chan struct{}, func()) {
	me := rn.cl.Transport()
	at := make(chan struct{}, 1)
	release := make(chan struct{})
	var once, relOnce sync.Once
	var taken atomic.Bool
	sniproxy.VerifSetTrHook(func(p string, tr interface{}) {
		if tr != me {
			return
		}
		if p == "serve:take" {
			taken.Store(true)
		}
		// (serve may still be in the tail of an earlier call's iteration: only
		// a point reached after a take counts)
		if p != point || !taken.Load() {
			return
		}
		held := false
		once.Do(func() { held = true })
		if held {
			at <- struct{}{}
			<-release
		}
	})
	return at, func() {
		relOnce.Do(func() { close(release) })
		sniproxy.VerifSetTrHook(nil)
	}
}

// doQueued forces "the context ends while the call is still in the queue":
// serve is held right after it has taken the first call of the step off the
// queue (before it assigns the id), the other calls are issued and stay in
// the queue, the contexts of st.Cancel end there, serve is let go.
func (rn *runner) doQueued(st Step) bool {
	if len(st.Calls) < 2 || rn.exited() || rn.sig {
		return rn.doCalls(st.Calls)
	}
	at, release := rn.holdServe("serve:take")
	defer release()
	rn.startCaller(st.Calls[0])
	select {
	case <-at:
	case <-time.After(waitBound):
		rn.c.Hang = "queued: serve did not take the call"
		return false
	}
	for j, c := range st.Calls[1:] {
		rn.startCaller(c)
		for t0 := time.Now(); rn.cl.QueuedCalls() < j+1; time.Sleep(50 * time.Microsecond) {
			if time.Since(t0) > waitBound {
				rn.c.Hang = "queued: the call did not get into the queue"
				return false
			}
		}
	}
	for _, k := range st.Cancel {
		if cr := rn.callers[k]; cr != nil && cr.res == nil {
			if !rn.endContext(k, "queued") {
				return false
			}
			rn.stray[k] = true
		}
	}
	release()
	need := map[int]bool{}
	for _, c := range st.Calls {
		if !rn.stray[c.K] {
			need[c.K] = true
		}
	}
	if !rn.awaitRequests(need) {
		return false
	}
	// the abandoned calls were queued before the step ended: their requests
	// follow on the wire
	for len(rn.stray) > 0 {
		more := false
		for _, c := range st.Calls {
			if rn.stray[c.K] {
				more = true
			}
		}
		if !more {
			break
		}
		select {
		case data, ok := <-rn.reqs:
			if !ok || !rn.strayRequest(data) {
				rn.c.Hang = "queued: unexpected request"
				return false
			}
		case r := <-rn.results:
			rn.gotResult(r)
		case <-time.After(waitBound):
			rn.c.Hang = "queued: the request of an abandoned call was not sent"
			return false
		}
	}
	return true
}

// doMidsend forces "the context ends while serve is between writing the
// request and recording the call".
func (rn *runner) doMidsend(st Step) bool {
	if len(st.Calls) != 1 || rn.exited() || rn.sig {
		return rn.doCalls(st.Calls)
	}
	at, release := rn.holdServe("serve:sent")
	defer release()
	k := st.Calls[0].K
	rn.startCaller(st.Calls[0])
	select {
	case <-at:
	case <-time.After(waitBound):
		rn.c.Hang = "midsend: serve did not send the call"
		return false
	}
	if !rn.awaitRequests(map[int]bool{k: true}) {
		return false
	}
	ok := rn.endContext(k, "midsend")
	release()
	return ok
}

func (rn *runner) doFrames(fs []FrameSpec) bool {
	hint := false
	for _, f := range fs {
		data, text, sf := rn.resolve(f)
		sf.AtEv = len(rn.c.Events)
		sf.Shape = f.Shape
		rn.c.Frames = append(rn.c.Frames, sf)
		if text {
			rn.event(Event{E: "text"})
			rn.pair.B.WriteMessage(websocket.TextMessage, data)
			continue
		}
		rn.event(Event{E: "reply", Frame: rpcx.SegsOf(data)})
		rn.track(data)
		first := 0
		if strings.HasPrefix(f.Shape, "frag:") {
			first, _ = strconv.Atoi(f.Shape[5:])
		}
		rpcx.WriteFragmentedClient(rn.pair.B, data, first)
		if f.Kind == "hint" {
			hint = true
		}
	}
	// The reader handles messages one at a time: once the marker text has
	// been logged, every frame before it has been handled completely.
	rn.syncN++
	marker := fmt.Sprintf("sync-%d-%d", rn.c.I, rn.syncN)
	rn.pair.B.WriteMessage(websocket.TextMessage, []byte(marker))
	switch rn.tap.WaitAny("receive text: "+marker, rn.cl.ServeDone(), waitBound) {
	case "timeout":
		rn.c.Hang = "frames: reader did not get to the marker"
		return false
	}
	if hint && !rn.sig && !rn.exited() {
		// startShutdown: the transport issues its own msgShutdown call
		select {
		case data, ok := <-rn.reqs:
			if !ok {
				rn.reqs = nil
				break
			}
			id, typ, _, _ := rn.identify(data, map[int]bool{})
			if typ != 0 {
				rn.c.Hang = "hint: unexpected request"
				return false
			}
			rn.internalShutdown(id)
		case <-time.After(waitBound):
			rn.c.Hang = "hint: no shutdown request"
			return false
		}
	}
	return true
}

func (rn *runner) run() {
	c := rn.c
	pair, err := rpcx.NewWSPair()
	if err != nil {
		c.Crash = "setup: " + err.Error()
		return
	}
	rn.pair = pair
	defer pair.Close()
	pair.LimitReadsA(c.Chunk)
	rn.cl = sniproxy.VerifNewClient(pair.A, nil)
	reqs := make(chan []byte, 256)
	rn.reqs = reqs
	go func() {
		defer close(reqs)
		for {
			mt, data, err := pair.B.ReadMessage()
			if err != nil {
				return
			}
			if mt == websocket.BinaryMessage {
				reqs <- data
			}
		}
	}()

	ok := true
	for _, st := range c.Steps {
		if !ok {
			break
		}
		switch st.Op {
		case "calls":
			ok = rn.doCalls(st.Calls)
		case "frames":
			ok = rn.doFrames(st.Frames)
		case "early":
			ok = rn.doEarly(st)
		case "queued":
			ok = rn.doQueued(st)
		case "midsend":
			ok = rn.doMidsend(st)
		case "behind":
			ok = rn.doBehind(st)
		case "break":
			rn.cl.BreakWrites()
		case "peerclose":
			if !rn.exited() {
				rn.event(Event{E: "readerr"})
				rpcx.Underlying(pair.B).Close()
				select {
				case <-rn.cl.ServeDone():
				case <-time.After(waitBound):
					c.Hang = "peerclose: serve did not exit"
					ok = false
				}
			}
		case "cancel":
			// (what has returned already is collected first: the context of a
			// call that has completed ends without any effect)
			for more := true; more; {
				select {
				case r := <-rn.results:
					rn.gotResult(r)
				default:
					more = false
				}
			}
			cr := rn.callers[st.K]
			if cr != nil && cr.res == nil && cr.seen && !cr.dropped {
				if _, waiting := rn.pending[cr.id]; !waiting {
					// a frame addressed to this call has been handled: the
					// call is completing; let it return first
					deadline := time.After(waitBound)
					for cr.res == nil {
						select {
						case r := <-rn.results:
							rn.gotResult(r)
						case <-deadline:
							cr.res = &callRes{k: st.K, kind: "none"}
							c.Hang = "cancel: an answered call did not return"
							ok = false
						}
					}
				}
			}
			if cr != nil && cr.res == nil {
				ok = rn.endContext(st.K, "pending")
			} else if cr != nil {
				cr.cancel()
			}
		}
	}
	// teardown: the peer goes away; then every caller is collected
	for more := ok && len(rn.stray) > 0 && rn.reqs != nil; more; {
		select {
		case data, open := <-rn.reqs:
			if !open || !rn.strayRequest(data) {
				more = false
			}
		default:
			more = false
		}
	}
	if ok && !rn.exited() {
		rn.event(Event{E: "readerr"})
		rpcx.Underlying(pair.B).Close()
	}
	if ok {
		select {
		case <-rn.cl.Served():
		case <-time.After(waitBound):
			c.Hang = "teardown: serve did not return"
		}
	}
	c.Exited = rn.exited()
	longEnd := time.Now().Add(waitBound)
	shortEnd := time.Now().Add(1500 * time.Millisecond)
	for _, k := range rn.order {
		cr := rn.callers[k]
		for cr.res == nil {
			end := longEnd
			if cr.late || cr.dropped || !ok {
				// nothing in the transport will complete this call; it
				// returns only if the caller itself notices the end
				end = shortEnd
			}
			select {
			case r := <-rn.results:
				rn.gotResult(r)
			case <-time.After(time.Until(end)):
				cr.res = &callRes{k: k, kind: "none"}
			}
		}
	}
	for _, k := range rn.order {
		cr := rn.callers[k]
		cr.cancel()
		if cr.late && cr.res.kind == "alreadyshutdown" {
			rn.event(Event{E: "refused", K: k})
		}
		o := CallerObs{K: k, Kind: cr.spec.Kind, Typ: kinds[cr.spec.Kind].typ, Sent: cr.seen,
			Res: cr.res.kind, Fields: cr.res.fields, Cancelled: cr.cancelled, Late: cr.late, When: cr.when,
			RejectedButSent: cr.rejectedButSent}
		if cr.seen {
			o.ID = strconv.FormatUint(cr.id, 10)
		}
		c.Callers = append(c.Callers, o)
	}
}

// PageObs is one round of the page stream.
type PageObs struct {
	Round   int      `json:"round"`
	Windows [][3]int `json:"windows"` // per read: offset, len, cap of its buffer inside the page
	Replies []int    `json:"replies"` // per read: length of the (well-formed) reply the peer sends
	Order   []int    `json:"order"`   // the order in which the peer answers
	Res     []string `json:"res"`     // per read: what tunnel.Read returned (n or the error kind)
	Bad     string   `json:"bad,omitempty"`
}

const pageSentinel = 0xA5

// runPage: caller memory.  Several tunnel reads are outstanding on one
// control channel; their buffers are neighbouring windows of one scratch page
// (filled with a sentinel), each a sub-slice with spare capacity reaching into
// what lies behind it.  The peer answers in some order with well-formed
// replies that are shorter than, as long as, or longer than the window --
// also longer than len and within cap.  After every reply the whole page is
// compared with what it may hold: the data of the reads that succeeded, in
// their windows; anything inside [0, len) of a read that failed; the sentinel
// everywhere else.
func runPage(c *Case, seed uint64) {
	c.Events, c.Frames, c.Callers = []Event{}, []SentFrame{}, []CallerObs{}
	r := hx.NewRng(seed*48271 + uint64(c.I)*31 + 7)
	for round := 0; round < 24 && c.Hang == ""; round++ {
		o := PageObs{Round: round}
		page := make([]byte, 1024)
		for i := range page {
			page[i] = pageSentinel
		}
		k := 2 + r.Intn(3)
		off := 8 + r.Intn(8)
		lens := []int{1, 7, 16, 64, 100}
		for i := 0; i < k; i++ {
			l := lens[r.Intn(len(lens))]
			o.Windows = append(o.Windows, [3]int{off, l, 0})
			off += l
		}
		for i := 0; i < k; i++ {
			// spare capacity: reaches into the next windows (the last one into the tail of the page)
			spare := []int{1, 8, 40, 200}[r.Intn(4)]
			if round == 0 {
				spare = 200
			}
			o.Windows[i][2] = o.Windows[i][1] + spare
			w := o.Windows[i]
			rl := []int{0, w[1] - 1, w[1], w[1] + 1, w[2], w[2] + 1, w[1] + 3}[r.Intn(7)]
			if round == 0 && i == 0 {
				rl = w[1] + 5 // the first read of the first round: longer than len, within cap
			}
			if rl < 0 {
				rl = 0
			}
			o.Replies = append(o.Replies, rl)
		}
		o.Order = perm(r, k)
		if round == 0 { // the neighbour first, the over-long reply afterwards
			o.Order = nil
			for i := k - 1; i >= 0; i-- {
				o.Order = append(o.Order, i)
			}
		}
		pair, err := rpcx.NewWSPair()
		if err != nil {
			c.Crash = "setup: " + err.Error()
			return
		}
		cl := sniproxy.VerifNewClient(pair.A, nil)
		type res struct {
			n   int
			err error
		}
		results := make([]chan res, k)
		for i := 0; i < k; i++ {
			results[i] = make(chan res, 1)
			w := o.Windows[i]
			buf := page[w[0] : w[0]+w[1] : w[0]+w[2]]
			go func(i int) {
				n, err := cl.Tunnel(uint64(100 + i)).Read(buf)
				results[i] <- res{n, err}
			}(i)
		}
		// the peer: collects the k requests (session = 100+i), then answers in order
		ids := map[int]uint64{}
		deadline := time.Now().Add(waitBound)
		for len(ids) < k && c.Hang == "" {
			pair.B.SetReadDeadline(deadline)
			mt, data, err := pair.B.ReadMessage()
			if err != nil {
				c.Hang = "page: the read requests did not reach the peer"
				break
			}
			if mt == websocket.BinaryMessage && len(data) >= 17 && data[8] == 4 {
				ids[int(binary.LittleEndian.Uint64(data[9:]))-100] = binary.LittleEndian.Uint64(data)
			}
		}
		pair.B.SetReadDeadline(time.Time{})
		o.Res = make([]string, k)
		okN := make([]int, k) // -1: not answered yet, -2: failed
		for i := range okN {
			okN[i] = -1
		}
		for _, i := range o.Order {
			if c.Hang != "" {
				break
			}
			payload := make([]byte, o.Replies[i])
			for j := range payload {
				payload[j] = byte(0x10*(i+1) + j%13)
			}
			b, _ := sniproxy.VerifEncodeReply(ids[i], 4, 0, "readResponse",
				rpcx.ToShim([]rpcx.Field{{K: "bytes", B: rpcx.SegsOf(payload)}, {K: "err", Nil: true}}))
			pair.B.WriteMessage(websocket.BinaryMessage, b)
			select {
			case rr := <-results[i]:
				if rr.err != nil {
					okN[i] = -2
					o.Res[i] = sniproxy.VerifCallErrKind(rr.err)
					if len(o.Res[i]) > 40 {
						o.Res[i] = o.Res[i][:40]
					}
				} else {
					okN[i] = rr.n
					o.Res[i] = strconv.Itoa(rr.n)
				}
			case <-time.After(waitBound):
				c.Hang = "page: a read did not return after its reply"
			}
			// what may the page hold now?
			want := make([]int, len(page)) // -1: anything; else the byte
			for j := range want {
				want[j] = pageSentinel
			}
			for q := 0; q < k; q++ {
				w := o.Windows[q]
				switch {
				case okN[q] == -2:
					for j := 0; j < w[1]; j++ {
						want[w[0]+j] = -1
					}
				case okN[q] >= 0:
					for j := 0; j < okN[q] && j < w[1]; j++ {
						want[w[0]+j] = int(byte(0x10*(q+1) + j%13))
					}
				}
			}
			for j := range page {
				if want[j] >= 0 && int(page[j]) != want[j] && o.Bad == "" {
					owner := "the sentinel area"
					for q := 0; q < k; q++ {
						w := o.Windows[q]
						if j >= w[0] && j < w[0]+w[1] {
							owner = fmt.Sprintf("the buffer of read %d (which %s)", q,
								map[bool]string{true: "had completed", false: "is still outstanding"}[okN[q] != -1])
						}
					}
					o.Bad = fmt.Sprintf("after the reply of %d bytes to read %d (buffer len %d, cap %d; Read returned %s) "+
						"the byte at page offset %d, in %s, is %#x instead of %#x",
						o.Replies[i], i, o.Windows[i][1], o.Windows[i][2], o.Res[i], j, owner, page[j], want[j])
				}
			}
		}
		pair.Close()
		c.Page = append(c.Page, o)
	}
	c.Exited = true
}

// runStress: 64 goroutines call Hello in a loop against a peer that answers
// everything, while the transport is shut down under them (150 rounds).  Every
// call returns -- its reply, errAlreadyShutdown, or the end of the transport
// -- and the process survives (a call completed twice closes a closed
// channel).
func runStress(c *Case) {
	c.Events, c.Frames, c.Callers = []Event{}, []SentFrame{}, []CallerObs{}
	c.Stress = map[string]int{}
	var mu sync.Mutex
	for round := 0; round < 150 && c.Hang == ""; round++ {
		pair, err := rpcx.NewWSPair()
		if err != nil {
			c.Crash = "setup: " + err.Error()
			return
		}
		cl := sniproxy.VerifNewClient(pair.A, nil)
		go func() { // the peer: echoes hellos, acknowledges the shutdown
			for {
				mt, data, err := pair.B.ReadMessage()
				if err != nil {
					return
				}
				if mt != websocket.BinaryMessage || len(data) < 9 {
					continue
				}
				id := binary.LittleEndian.Uint64(data)
				switch data[8] {
				case 1:
					b, _ := sniproxy.VerifEncodeReply(id, 1, 0, "helloResponse",
						rpcx.ToShim([]rpcx.Field{{K: "bytes", B: rpcx.SegsOf([]byte("ok"))}}))
					pair.B.WriteMessage(websocket.BinaryMessage, b)
				case 0:
					b, _ := sniproxy.VerifEncodeReply(id, 0, 0, "", nil)
					pair.B.WriteMessage(websocket.BinaryMessage, b)
				}
			}
		}()
		var wg sync.WaitGroup
		for g := 0; g < 64; g++ {
			wg.Add(1)
			go func() {
				defer wg.Done()
				for n := 0; n < 100000; n++ {
					ctx, cancel := context.WithTimeout(context.Background(), waitBound)
					_, err := cl.Hello(ctx, "x")
					cancel()
					k := sniproxy.VerifCallErrKind(err)
					mu.Lock()
					c.Stress[k]++
					mu.Unlock()
					if err != nil {
						return
					}
				}
			}()
		}
		time.Sleep(time.Duration(1+round%5) * time.Millisecond)
		ctx, cancel := context.WithTimeout(context.Background(), 3*time.Second)
		cl.Shutdown(ctx)
		cancel()
		done := make(chan struct{})
		go func() { wg.Wait(); close(done) }()
		select {
		case <-done:
		case <-time.After(2 * waitBound):
			c.Hang = "stress: callers did not return after the shutdown"
		}
		pair.Close()
	}
	c.Exited = true
}

func runHistory(c *Case, tap *rpcx.LogTap) {
	if c.Stream == "stress" {
		runStress(c)
		return
	}
	if c.Stream == "page" {
		runPage(c, 1)
		return
	}
	tap.Reset()
	rn := &runner{c: c, tap: tap, results: make(chan callRes, 4096),
		callers: map[int]*caller{}, pending: map[uint64]int{}, stray: map[int]bool{}}
	c.Events = []Event{}
	c.Frames = []SentFrame{}
	c.Callers = []CallerObs{}
	rn.run()
}

func loadScript(path string) []Case {
	bs, err := os.ReadFile(path)
	if err != nil {
		fmt.Fprintln(os.Stderr, err)
		os.Exit(2)
	}
	var cs []Case
	if err := json.Unmarshal(bs, &cs); err != nil {
		fmt.Fprintln(os.Stderr, err)
		os.Exit(2)
	}
	return cs
}

func main() {
	seed := flag.Uint64("seed", 1, "seed")
	n := flag.Int("n", 300, "number of histories")
	nstress := flag.Int("stress", 0, "number of stress cases (Hello x 64 against a shutdown, 150 rounds each) after the histories")
	script := flag.String("script", "", "JSON file with a list of cases (stream, steps) to run instead")
	child := flag.Bool("child", false, "child mode")
	from := flag.Int("from", 0, "first case (child)")
	mem := flag.Uint64("mem", 4<<30, "address-space limit of the child")
	budget := flag.Int("budget", 0, "wall-clock budget of the whole run in seconds (0: none): cases not started by then are skipped")
	deadline := flag.Int64("deadline", 0, "(child) unix time after which no further case is started")
	flag.Parse()
	if *budget > 0 && *deadline == 0 {
		*deadline = time.Now().Unix() + int64(*budget)
	}

	var scripted []Case
	if *script != "" {
		scripted = loadScript(*script)
		*n, *nstress = len(scripted), 0
	}
	nhist := *n
	*n += 2 * *nstress // (every stress case is followed by a page case)
	gen := func(i int) Case {
		if scripted != nil {
			return Case{I: i, Stream: scripted[i].Stream, Steps: scripted[i].Steps, Chunk: scripted[i].Chunk}
		}
		if i >= nhist && (i-nhist)%2 == 1 {
			return Case{I: i, Stream: "page", Steps: []Step{}}
		}
		if i >= nhist {
			return Case{I: i, Stream: "stress", Steps: []Step{}}
		}
		return shaped(genHistory(*seed, i), *seed)
	}
	out := hx.NewOut(os.Stdout)
	if *child {
		hx.LimitMemory(*mem)
		tap := rpcx.InstallLogTap()
		// every hang costs one or more 10 s observation bounds: after four
		// cases of a stream that hang, the rest of that stream is not run; and
		// no case is started after the deadline of the whole run
		const maxHangs = 4
		hangs := map[string]int{}
		for i := *from; i < *n; i++ {
			c := gen(i)
			skip := ""
			if *deadline > 0 && time.Now().Unix() >= *deadline {
				skip = "budget"
			} else if hangs[c.Stream] >= maxHangs {
				skip = "hangs"
			}
			if skip != "" {
				c.Events, c.Frames, c.Callers = []Event{}, []SentFrame{}, []CallerObs{}
				c.Skipped = skip
				out.Emit(&c)
				continue
			}
			runHistory(&c, tap)
			if c.Hang != "" {
				hangs[c.Stream]++
			}
			out.Emit(&c)
		}
		return
	}
	args := []string{"-seed", strconv.FormatUint(*seed, 10), "-n", strconv.Itoa(nhist), "-stress", strconv.Itoa(*nstress),
		"-deadline", strconv.FormatInt(*deadline, 10)}
	if *script != "" {
		args = append(args, "-script", *script)
	}
	err := hx.RunIsolated(*n, args, *mem,
		func(i int, raw []byte) { os.Stdout.Write(append(raw, '\n')) },
		func(i int, why string) {
			c := gen(i)
			c.Events, c.Frames, c.Callers = []Event{}, []SentFrame{}, []CallerObs{}
			c.Crash = "fatal: " + why
			out.Emit(&c)
		})
	if err != nil {
		fmt.Fprintln(os.Stderr, err)
		os.Exit(2)
	}
}
