// Command c02 exercises where sniproxy sends a front connection.
//
// Component streams (through sniproxy/verif_stream.go, compared with the Coq
// model): "route" (a real ClientHello through proxy.hostConn into
// Server.dial, over a name battery and random server configurations),
// "office" (operation sequences on connMailOffice / sessionID), "conns"
// (operation sequences on the endpoint's session table), "ids" (concurrent
// sessionID.next).
// End-to-end stream "e2e" (public API only): a real Server with 2-6
// endpoints and many concurrent tagged connections in each tunnel mode; each
// backend answers with its own name, the tag it received and the remote
// address it sees.
package main

import (
	"bufio"
	"bytes"
	"context"
	"encoding/hex"
	"errors"
	"flag"
	"fmt"
	"io"
	"net"
	"os"
	"sort"
	"strconv"
	"strings"
	"sync"
	"sync/atomic"
	"syscall"
	"time"

	"github.com/gorilla/websocket"
	"shanhu.io/g/sniproxy"
	"verifharness/cmd/c01/e2e"
	"verifharness/hx"
)

// ---- cases ----

type LookupEntry struct {
	Domain  string `json:"domain"`           // hex
	Err     bool   `json:"err,omitempty"`    // the lookup returns a non-nil error
	NoDest  bool   `json:"nodest,omitempty"` // the lookup returns a nil *Dest
	Name    string `json:"name,omitempty"`   // hex
	Home    bool   `json:"home,omitempty"`
	Forward string `json:"forward,omitempty"` // hex
}

type RouteCase struct {
	HasLookup bool          `json:"has_lookup"`
	Table     []LookupEntry `json:"table"`
	HasHome   bool          `json:"has_home"`
	Endpoints []string      `json:"endpoints"` // hex
	SNI       string        `json:"sni"`       // hex
	IsIP      bool          `json:"is_ip"`     // net.ParseIP(sni) != nil
	// observed
	Rejected    bool   `json:"rejected"`     // isRejectedDomain(sni)
	Dialed      bool   `json:"dialed"`       // hostConn reached the dialer
	DialName    string `json:"dial_name"`    // hex: the name the dialer was given
	DialAddr    string `json:"dial_addr"`    // the address the dialer was given
	FrontAddr   string `json:"front_addr"`   // RemoteAddr of the front connection
	HostErr     string `json:"host_err"`     // rejected | hello:<..> | dial
	Decision    string `json:"decision"`     // result of Server.dial (when dialed)
	DecisionArg string `json:"decision_arg"` // hex
}

type RejectCase struct {
	Name     string `json:"name"`  // hex
	IsIP     bool   `json:"is_ip"` // net.ParseIP(name) != nil
	Rejected bool   `json:"rejected"`
}

type OfficeOp struct {
	Op  string `json:"op"` // next | newbox | deliver | receive | cleanup
	ID  string `json:"id,omitempty"`
	Key string `json:"key,omitempty"`
	Tag string `json:"tag,omitempty"`
	H   int    `json:"h"`
	// observed
	Res  string `json:"res"`            // id | handle | ok | notfound | mismatch | conn | closed | blocked | done
	Val  string `json:"val,omitempty"`  // id, handle or tag
	Both bool   `json:"both,omitempty"` // receive: a connection was queued and the box was closed
}

type ConnsOp struct {
	Op    string      `json:"op"` // add | get | remove | shutdown
	ID    string      `json:"id,omitempty"`
	Ident string      `json:"ident,omitempty"`
	Res   string      `json:"res"`
	Sess  string      `json:"sess,omitempty"`
	Got   string      `json:"got,omitempty"`
	All   [][2]string `json:"all,omitempty"`
}

type Failure struct {
	Tag      string `json:"tag"`
	Domain   string `json:"domain"`
	Kind     string `json:"kind"`
	Expected string `json:"expected"`
	Observed string `json:"observed"`
}

type AddrObs struct {
	Front  string `json:"front"`  // local address of the client connection
	Remote string `json:"remote"` // RemoteAddr().String() seen by the backend
	Back   string `json:"back"`   // address of the websocket server
}

type E2E struct {
	Mode      string    `json:"mode"`
	Endpoints int       `json:"endpoints"`
	Conns     int       `json:"conns"`
	Valid     int       `json:"valid"`
	Invalid   int       `json:"invalid"`
	Echoed    int       `json:"echoed"` // total bytes echoed back correctly
	Accepted  int       `json:"accepted"`
	Failures  []Failure `json:"failures"`
	Addrs     []AddrObs `json:"addrs"`
	SetupErr  string    `json:"setup_err,omitempty"`
}

// HistCase: ONE server whose configured Lookup changes its answers, and
// whose endpoint table changes, between dials.
type HistEvent struct {
	Kind      string        `json:"kind"`                // lookup | registry | dial
	Table     []LookupEntry `json:"table,omitempty"`     // lookup: the answers from now on (names not listed: (nil, error))
	Endpoints []string      `json:"endpoints,omitempty"` // registry: hex names connected from now on
	SNI       string        `json:"sni,omitempty"`       // dial: hex
	// observed (dial)
	Decision    string `json:"decision,omitempty"`
	DecisionArg string `json:"decision_arg,omitempty"`
	Lookups     int    `json:"lookups"` // calls of the configured Lookup during this dial
}

type HistCase struct {
	HasHome bool        `json:"has_home"`
	Events  []HistEvent `json:"events"`
}

// RaceCase: goroutines racing on one mail office.
type RaceCase struct {
	Dials    int      `json:"dials"`
	Forgers  int      `json:"forgers"`
	IDs      []uint64 `json:"ids"`       // id of each dial
	Got      []string `json:"got"`       // per dial: tag received, or closed/timeout
	Crossed  []string `json:"crossed"`   // descriptions of dials that got a connection not made for them
	ForgedOK int      `json:"forged_ok"` // forged deliveries (wrong key) that were not refused
	Left     int      `json:"left"`      // boxes still filed at the end
}

// RegenCase: two registrations of one name (two offices); the stale side
// connection of the first arrives at the second with the same id.
type RegenCase struct {
	ID     string     `json:"id"`
	Key1   string     `json:"key1"`
	Key2   string     `json:"key2"`
	Office []OfficeOp `json:"office"` // the operations on the second office
}

type Case struct {
	I      int         `json:"i"`
	Stream string      `json:"stream"`
	Route  *RouteCase  `json:"route,omitempty"`
	Reject *RejectCase `json:"reject,omitempty"`
	Office []OfficeOp  `json:"office,omitempty"`
	Conns  []ConnsOp   `json:"conns,omitempty"`
	IDs    [][]uint64  `json:"ids,omitempty"`
	Race   *RaceCase   `json:"race,omitempty"`
	Regen  *RegenCase  `json:"regen,omitempty"`
	E2E    *E2E        `json:"e2e,omitempty"`
	Refuse *RefuseCase `json:"refuse,omitempty"`
	Hist   *HistCase   `json:"hist,omitempty"`
	Crash  string      `json:"crash,omitempty"`
}

func hx16(s string) string  { return hex.EncodeToString([]byte(s)) }
func unhex(s string) string { b, _ := hex.DecodeString(s); return string(b) }

// ---- scripted front connection ----

type scriptConn struct {
	data []byte
	pos  int
	addr net.Addr
}

func (c *scriptConn) Read(p []byte) (int, error) {
	if c.pos >= len(c.data) {
		return 0, io.EOF
	}
	n := copy(p, c.data[c.pos:])
	c.pos += n
	return n, nil
}
func (c *scriptConn) Write(p []byte) (int, error)      { return len(p), nil }
func (c *scriptConn) Close() error                     { return nil }
func (c *scriptConn) LocalAddr() net.Addr              { return &net.TCPAddr{} }
func (c *scriptConn) RemoteAddr() net.Addr             { return c.addr }
func (c *scriptConn) SetDeadline(time.Time) error      { return nil }
func (c *scriptConn) SetReadDeadline(time.Time) error  { return nil }
func (c *scriptConn) SetWriteDeadline(time.Time) error { return nil }

// ---- route stream ----

var rejectedSuffixGuess = []string{".iproxy.cloud", ".after.blue", ".spothot.online", ".speedy.red"}

var nameBattery = []string{
	"", "a", "example.com", "site1.example", "site2.example", "xn--bcher-kva.example", "EXAMPLE.com",
	"10.0.0.1", "255.255.255.255", "1.2.3", "1.2.3.4.5", "256.1.1.1", "01.2.3.4", "0x7f.0.0.1", "127.1",
	"::1", "::", "2001:db8::1", "[::1]", "fe80::1%eth0", "::ffff:1.2.3.4", "1:2:3:4:5:6:7:8", "1:2:3:4:5:6:7", "::1.",
	"1.2.3.4.", ".1.2.3.4", "a.1.2.3.4",
	"x.iproxy.cloud", "iproxy.cloud", ".iproxy.cloud", "x.iproxy.cloudy", "x.iproxy.clou", "xiproxy.cloud",
	"y.after.blue", "after.blue", "a.b.after.blue", "after.blue.example",
	"z.spothot.online", "z.spothot.onlin", "q.speedy.red", "speedy.red", "q.speedy.red.", "Q.SPEEDY.RED",
	"site1.example.iproxy.cloud",
}

func genName(r *hx.Rng) string {
	switch r.Intn(10) {
	case 0, 1, 2:
		return nameBattery[r.Intn(len(nameBattery))]
	case 3: // a suffix with one char changed or added
		s := rejectedSuffixGuess[r.Intn(len(rejectedSuffixGuess))]
		b := []byte("host" + s)
		switch r.Intn(4) {
		case 0:
			b[4+r.Intn(len(s))] ^= 1
		case 1:
			b = append(b, 'x')
		case 2:
			b = b[:len(b)-1]
		}
		return string(b)
	case 4: // arbitrary bytes (an SNI is not validated)
		b := r.Bytes(1 + r.Intn(20))
		for i := range b {
			if b[i] == '.' && i == len(b)-1 {
				b[i] = 'x' // a trailing dot never reaches hostConn: crypto/tls rejects it
			}
		}
		return string(b)
	case 5:
		return fmt.Sprintf("%d.%d.%d.%d", r.Intn(300), r.Intn(256), r.Intn(256), r.Intn(256))
	default:
		return fmt.Sprintf("site%d.example", r.Intn(8))
	}
}

func runReject(r *hx.Rng) *RejectCase {
	name := genName(r)
	return &RejectCase{Name: hx16(name), IsIP: net.ParseIP(name) != nil, Rejected: sniproxy.VerifIsRejectedDomain(name)}
}

// runRoute: corpus 0 = random; 1 = the lookup returns the connected endpoint
// together with an error; 2 = the lookup returns (nil, nil); 3 = a Home
// destination together with an error; 4 = a forward together with an error.
func runRoute(r *hx.Rng, corpus int) *RouteCase {
	c := &RouteCase{HasLookup: r.Intn(12) != 0, HasHome: r.Bool()}
	sni := genName(r)
	if corpus != 0 {
		c.HasLookup = true
		sni = []string{"", "suspended.example", "void.example", "suspended-home.example", "suspended-fwd.example", "variant.example"}[corpus]
	}
	// A server name with a trailing dot cannot be carried by a ClientHello
	// that crypto/tls accepts; the raw names go through the "reject" stream.
	for strings.HasSuffix(sni, ".") {
		sni = sni[:len(sni)-1] + "x"
	}
	c.SNI = hx16(sni)
	c.IsIP = net.ParseIP(sni) != nil
	neps := r.Intn(5)
	if corpus != 0 {
		neps = 3
	}
	var eps []string
	for i := 0; i < neps; i++ {
		eps = append(eps, fmt.Sprintf("/ep%d", r.Intn(6)))
	}
	// de-duplicate, keep order
	seen := map[string]bool{}
	var ueps []string
	for _, e := range eps {
		if !seen[e] {
			seen[e] = true
			ueps = append(ueps, e)
			c.Endpoints = append(c.Endpoints, hx16(e))
		}
	}
	if c.Endpoints == nil {
		c.Endpoints = []string{}
	}
	// a name that differs from a connected one only in letter case (ASCII, the
	// Kelvin sign for k, the long s for s): not connected
	variantOf := func(name string) string {
		switch r.Intn(4) {
		case 0:
			return strings.ToUpper(name)
		case 1:
			return strings.Replace(name, "e", "E", 1)
		case 2:
			return strings.Replace(name, "p", "P", 1)
		default:
			return strings.Replace(name, "e", "E", 1) + ""
		}
	}
	someEndpoint := func() string {
		if len(ueps) > 0 && r.Intn(8) == 0 {
			if v := variantOf(ueps[r.Intn(len(ueps))]); !seen[v] {
				return v
			}
		}
		// mostly an endpoint that is connected, so that a refused name that is
		// routed anyway shows up as a dial
		if len(ueps) > 0 && r.Intn(4) != 0 {
			return ueps[r.Intn(len(ueps))]
		}
		return fmt.Sprintf("/ep%d", r.Intn(6))
	}
	table := map[string]LookupEntry{}
	addEntry := func(domain string, kind int) {
		if _, ok := table[domain]; ok {
			return
		}
		e := LookupEntry{Domain: hx16(domain)}
		switch kind {
		case 0: // (nil, err)
			e.Err, e.NoDest = true, true
		case 1:
			e.Home = true
			e.Name = hx16("~")
		case 2:
			e.Forward = hx16(fmt.Sprintf("127.0.0.1:%d", 1000+r.Intn(100)))
			e.Name = hx16("fwd")
		case 3: // both set: Home wins
			e.Home = true
			e.Forward = hx16("127.0.0.1:9")
		case 4: // (dest, err): the owner is resolved but the name is refused
			e.Err = true
			e.Name = hx16(someEndpoint())
		case 5: // (nil, nil)
			e.NoDest = true
		case 6: // (home dest, err)
			e.Err, e.Home = true, true
			e.Name = hx16("~")
		case 7: // (forward dest, err)
			e.Err = true
			e.Forward = hx16(fmt.Sprintf("127.0.0.1:%d", 1000+r.Intn(100)))
		default:
			e.Name = hx16(someEndpoint())
		}
		table[domain] = e
		c.Table = append(c.Table, e)
	}
	switch {
	case corpus != 0:
		if corpus == 5 {
			e := LookupEntry{Domain: hx16(sni), Name: hx16(strings.ToUpper(ueps[0]))}
			table[sni] = e
			c.Table = append(c.Table, e)
		} else {
			addEntry(sni, []int{0, 4, 5, 6, 7}[corpus])
		}
	case r.Intn(5) != 0:
		addEntry(sni, r.Intn(14))
	}
	for i, n := 0, r.Intn(4); i < n; i++ {
		addEntry(genName(r), r.Intn(14))
	}
	if c.Table == nil {
		c.Table = []LookupEntry{}
	}

	cfg := &sniproxy.ServerConfig{}
	if c.HasLookup {
		cfg.Lookup = func(domain string) (*sniproxy.Dest, error) {
			e, ok := table[domain]
			if !ok {
				return nil, fmt.Errorf("bad domain %q", domain)
			}
			var d *sniproxy.Dest
			if !e.NoDest {
				d = &sniproxy.Dest{Name: unhex(e.Name), Home: e.Home, ForwardTCP: unhex(e.Forward)}
			}
			var err error
			if e.Err {
				err = fmt.Errorf("domain %q is refused", domain)
			}
			return d, err
		}
	}

	c.Rejected = sniproxy.VerifIsRejectedDomain(sni)
	front := &net.TCPAddr{IP: net.IPv4(192, 0, 2, byte(1+r.Intn(200))), Port: 1024 + r.Intn(60000)}
	c.FrontAddr = front.String()
	hello := e2e.SynthHello(sni, true, 0)
	conn := &scriptConn{data: hello, addr: front}
	err := sniproxy.VerifHostConn(context.Background(), conn, func(name, addr string) (net.Conn, error) {
		c.Dialed = true
		c.DialName = hx16(name)
		c.DialAddr = addr
		var d string
		func() {
			// a panic inside Server.dial is an observation (in the server it
			// ends the process: the connection goroutine has no recover)
			defer func() {
				if e := recover(); e != nil {
					d = "panic:" + fmt.Sprint(e)
				}
			}()
			d = sniproxy.VerifServerDial(cfg, c.HasHome, true, ueps, name, addr)
		}()
		c.Decision = d
		if i := strings.Index(d, ":"); i >= 0 {
			c.Decision, c.DecisionArg = d[:i], hx16(d[i+1:])
		}
		return nil, errors.New("verif: dial decision recorded")
	})
	switch {
	case sniproxy.VerifIsNameRejected(err):
		c.HostErr = "rejected"
	case c.Dialed:
		c.HostErr = "dial"
	case err != nil:
		c.HostErr = "hello:" + err.Error()
	default:
		c.HostErr = "none"
	}
	return c
}

// ---- office stream ----

func u(v uint64) string { return strconv.FormatUint(v, 10) }

type dialSim struct {
	id, key uint64
	h       int
	pc      int // 0 start, 1 has id, 2 has box, 3 delivered-to, 4 received, 5 cleaned
}

func runOffice(r *hx.Rng, nops int) []OfficeOp {
	v := sniproxy.NewVerifOffice()
	var ops []OfficeOp
	var dials []*dialSim
	nboxes := 0
	keys := []uint64{0, 1, 7, 1 << 32, 1<<64 - 1}
	genKey := func() uint64 {
		if r.Intn(3) == 0 {
			return keys[r.Intn(len(keys))]
		}
		return r.U64()
	}
	doReceive := func(h int) {
		op := OfficeOp{Op: "receive", H: h}
		queued, closed := v.Pending(h)
		switch {
		case h >= nboxes:
			res, _ := v.Receive(h, false)
			op.Res = res
		case queued || closed:
			op.Both = queued && closed
			res, tag := v.Receive(h, true)
			op.Res = res
			if res == "conn" {
				op.Val = u(tag)
			}
		default:
			res, _ := v.Receive(h, false) // nothing ready: a live receive would block
			if res == "cancelled" {
				res = "blocked"
			}
			op.Res = res
		}
		ops = append(ops, op)
	}
	for len(ops) < nops {
		switch c := r.Intn(20); {
		case c < 3 || len(dials) == 0: // a new dial starts
			d := &dialSim{}
			d.id = v.Next()
			d.key = genKey()
			d.pc = 1
			dials = append(dials, d)
			ops = append(ops, OfficeOp{Op: "next", Res: "id", Val: u(d.id)})
		case c < 12: // advance a dial
			d := dials[r.Intn(len(dials))]
			switch d.pc {
			case 1:
				d.h = v.NewBox(d.id, d.key)
				nboxes++
				d.pc = 2
				ops = append(ops, OfficeOp{Op: "newbox", ID: u(d.id), Key: u(d.key), Res: "handle", Val: strconv.Itoa(d.h)})
			case 2: // the endpoint connects back with the right key; the connection is named after the box
				res := v.Deliver(d.id, d.key, uint64(d.h))
				d.pc = 3
				ops = append(ops, OfficeOp{Op: "deliver", ID: u(d.id), Key: u(d.key), Tag: strconv.Itoa(d.h), Res: res})
			case 3:
				doReceive(d.h)
				d.pc = 4
			case 4:
				v.CleanUp(d.h)
				d.pc = 5
				ops = append(ops, OfficeOp{Op: "cleanup", H: d.h, Res: "done"})
			default:
				// finished; sometimes poke it again
				if r.Bool() {
					doReceive(d.h)
				} else {
					v.CleanUp(d.h)
					ops = append(ops, OfficeOp{Op: "cleanup", H: d.h, Res: "done"})
				}
			}
		case c < 16: // a delivery nobody asked for: wrong key, wrong id, stale or duplicate
			d := dials[r.Intn(len(dials))]
			id, key := d.id, d.key
			switch r.Intn(4) {
			case 0:
				key ^= 1 << uint(r.Intn(64))
			case 1:
				id = uint64(r.Intn(len(dials) + 3))
			case 2:
				key = genKey()
			}
			tag := 1000 + uint64(r.Intn(1000))
			res := v.Deliver(id, key, tag)
			ops = append(ops, OfficeOp{Op: "deliver", ID: u(id), Key: u(key), Tag: u(tag), Res: res})
		case c < 17: // receive at a random point of a dial's life
			if nboxes > 0 {
				doReceive(r.Intn(nboxes + 1))
			}
		case c < 18: // early cleanUp (context cancelled, call failed)
			d := dials[r.Intn(len(dials))]
			if d.pc >= 2 {
				v.CleanUp(d.h)
				if d.pc < 5 {
					d.pc = 5
				}
				ops = append(ops, OfficeOp{Op: "cleanup", H: d.h, Res: "done"})
			}
		case c < 19: // a second box under an id in use (not done by Dial; the office allows it)
			d := dials[r.Intn(len(dials))]
			key := genKey()
			h := v.NewBox(d.id, key)
			nboxes++
			ops = append(ops, OfficeOp{Op: "newbox", ID: u(d.id), Key: u(key), Res: "handle", Val: strconv.Itoa(h)})
		default:
			id := v.Next()
			ops = append(ops, OfficeOp{Op: "next", Res: "id", Val: u(id)})
		}
	}
	return ops
}

// ---- race stream ----

func runRace(r *hx.Rng, dials, forgers int) *RaceCase {
	c := &RaceCase{Dials: dials, Forgers: forgers, IDs: make([]uint64, dials), Got: make([]string, dials), Crossed: []string{}}
	v := sniproxy.NewVerifOffice()
	keys := make([]uint64, dials)
	for i := range keys {
		keys[i] = r.U64() | 1 // forged keys below are even: never equal
	}
	type pending struct {
		id, key uint64
		h       int
	}
	boxed := make(chan pending, dials)
	var wg sync.WaitGroup
	var mu sync.Mutex
	start := make(chan struct{})
	// the dials
	for i := 0; i < dials; i++ {
		wg.Add(1)
		go func(i int) {
			defer wg.Done()
			<-start
			id := v.Next()
			h := v.NewBox(id, keys[i])
			boxed <- pending{id, keys[i], h}
			deadline := time.Now().Add(10 * time.Second)
			res := "timeout"
			for time.Now().Before(deadline) {
				q, cl := v.Pending(h)
				if q || cl {
					kind, tag := v.Receive(h, true)
					res = kind
					if kind == "conn" {
						res = strconv.FormatUint(tag, 10)
						if tag != uint64(h) {
							mu.Lock()
							c.Crossed = append(c.Crossed, fmt.Sprintf("dial %d (id %d, box %d) received connection #%d", i, id, h, tag))
							mu.Unlock()
						}
					}
					break
				}
				time.Sleep(50 * time.Microsecond)
			}
			v.CleanUp(h)
			mu.Lock()
			c.IDs[i], c.Got[i] = id, res
			mu.Unlock()
		}(i)
	}
	// the endpoint answering each dial: the connection is named after the box
	wg.Add(1)
	go func() {
		defer wg.Done()
		for i := 0; i < dials; i++ {
			p := <-boxed
			v.Deliver(p.id, p.key, uint64(p.h))
		}
	}()
	// forgers: every id that may be in use, keys that are never right
	stop := make(chan struct{})
	var fwg sync.WaitGroup
	for f := 0; f < forgers; f++ {
		fwg.Add(1)
		go func(seed uint64) {
			defer fwg.Done()
			fr := hx.NewRng(seed)
			<-start
			for {
				select {
				case <-stop:
					return
				default:
				}
				id := uint64(fr.Intn(dials + 2))
				key := fr.U64() &^ 1
				if v.Deliver(id, key, 1000000+uint64(fr.Intn(1000))) == "ok" {
					mu.Lock()
					c.ForgedOK++
					mu.Unlock()
				}
			}
		}(r.U64())
	}
	close(start)
	wg.Wait()
	close(stop)
	fwg.Wait()
	c.Left = len(v.Keys())
	return c
}

// ---- regen stream ----

func runRegen(r *hx.Rng) *RegenCase {
	k1, k2 := r.U64(), r.U64()
	if k1 == k2 {
		k2++
	}
	old, cur := sniproxy.NewVerifOffice(), sniproxy.NewVerifOffice()
	// registration 1: a dial in flight (id 0, key k1), its side connection is slow
	id1 := old.Next()
	old.NewBox(id1, k1)
	// registration 2 of the same name: its first dial also has id 0
	c := &RegenCase{Key1: u(k1), Key2: u(k2)}
	id2 := cur.Next()
	c.ID = u(id2)
	c.Office = append(c.Office, OfficeOp{Op: "next", Res: "id", Val: u(id2)})
	h := cur.NewBox(id2, k2)
	c.Office = append(c.Office, OfficeOp{Op: "newbox", ID: u(id2), Key: u(k2), Res: "handle", Val: strconv.Itoa(h)})
	// the stale websocket arrives first, routed by name to the current office
	c.Office = append(c.Office, OfficeOp{Op: "deliver", ID: u(id1), Key: u(k1), Tag: "777", Res: cur.Deliver(id1, k1, 777)})
	c.Office = append(c.Office, OfficeOp{Op: "deliver", ID: u(id2), Key: u(k2), Tag: strconv.Itoa(h), Res: cur.Deliver(id2, k2, uint64(h))})
	kind, tag := cur.Receive(h, true)
	op := OfficeOp{Op: "receive", H: h, Res: kind}
	if kind == "conn" {
		op.Val = u(tag)
	}
	c.Office = append(c.Office, op)
	cur.CleanUp(h)
	c.Office = append(c.Office, OfficeOp{Op: "cleanup", H: h, Res: "done"})
	return c
}

// ---- conns stream ----

func runConns(r *hx.Rng, nops int) []ConnsOp {
	v := sniproxy.NewVerifConns()
	var ops []ConnsOp
	ident := uint64(0)
	pick := func() uint64 {
		if r.Intn(4) == 0 {
			return []uint64{0, 1, 1 << 40, 1<<64 - 1}[r.Intn(4)]
		}
		return uint64(r.Intn(8))
	}
	for len(ops) < nops {
		switch c := r.Intn(20); {
		case c < 8:
			ident++
			id := pick()
			ops = append(ops, ConnsOp{Op: "add", ID: u(id), Ident: u(ident), Res: v.Add(id, ident)})
		case c < 14:
			id := pick()
			res, sess, got := v.Get(id)
			op := ConnsOp{Op: "get", ID: u(id), Res: res}
			if res == "found" {
				op.Sess, op.Got = u(sess), u(got)
			}
			ops = append(ops, op)
		case c < 19:
			id := pick()
			ops = append(ops, ConnsOp{Op: "remove", ID: u(id), Res: v.Remove(id)})
		default:
			if r.Intn(3) == 0 {
				all := v.Shutdown()
				sort.Slice(all, func(i, j int) bool { return all[i][0] < all[j][0] })
				op := ConnsOp{Op: "shutdown", Res: "all", All: [][2]string{}}
				for _, a := range all {
					op.All = append(op.All, [2]string{u(a[0]), u(a[1])})
				}
				ops = append(ops, op)
			}
		}
	}
	return ops
}

// ---- e2e stream ----

type seenRec struct {
	ep, tag, remote string
}

func runE2E(r *hx.Rng, mode string, neps, nconns int) *E2E {
	res := &E2E{Mode: mode, Endpoints: neps, Conns: nconns, Failures: []Failure{}, Addrs: []AddrObs{}}
	var names []string
	for i := 0; i < neps; i++ {
		names = append(names, fmt.Sprintf("/ep%d", i))
	}
	// domains: siteK.example -> /ep(K mod neps) for K < 2*neps (two domains per
	// endpoint); ghost.example -> an endpoint that is not connected;
	// refused.example -> lookup error; plus names hostConn must reject.
	lookup := func(domain string) (*sniproxy.Dest, error) {
		var k int
		if n, _ := fmt.Sscanf(domain, "site%d.example", &k); n == 1 && k < 2*neps && domain == fmt.Sprintf("site%d.example", k) {
			return &sniproxy.Dest{Name: fmt.Sprintf("/ep%d", k%neps)}, nil
		}
		if domain == "ghost.example" {
			return &sniproxy.Dest{Name: "/ghost"}, nil
		}
		// The four shapes of a lookup result: the owner is resolved but the
		// name is refused (destination AND error), and neither of the two.
		switch domain {
		case "suspended.example":
			return &sniproxy.Dest{Name: "/ep0"}, fmt.Errorf("domain %q is suspended", domain)
		case "expired.example":
			return &sniproxy.Dest{Name: fmt.Sprintf("/ep%d", neps-1)}, fmt.Errorf("domain %q is expired", domain)
		case "void.example":
			return nil, nil
		}
		// Names that hostConn must have rejected never get here; if they do,
		// route them to a live endpoint so that the leak shows at a backend.
		if domain == "" || net.ParseIP(domain) != nil || strings.HasSuffix(domain, ".after.blue") ||
			strings.HasSuffix(domain, ".speedy.red") {
			return &sniproxy.Dest{Name: "/ep0"}, nil
		}
		return nil, fmt.Errorf("bad domain %q", domain)
	}

	var mu sync.Mutex
	var seen []seenRec
	handler := func(ep string, conn net.Conn) {
		defer conn.Close()
		conn.SetDeadline(time.Now().Add(30 * time.Second))
		br := bufio.NewReader(conn)
		if _, err := e2e.ReadRecord(br); err != nil {
			mu.Lock()
			seen = append(seen, seenRec{ep, "<no hello: " + err.Error() + ">", conn.RemoteAddr().String()})
			mu.Unlock()
			return
		}
		line, err := br.ReadString('\n')
		tag := strings.TrimSuffix(line, "\n")
		burst := 0
		if err != nil {
			tag = "<no tag line: " + tag + ">"
		} else if f := strings.Fields(tag); len(f) == 2 {
			tag = f[0]
			burst, _ = strconv.Atoi(f[1])
		}
		mu.Lock()
		seen = append(seen, seenRec{ep, tag, conn.RemoteAddr().String()})
		mu.Unlock()
		fmt.Fprintf(conn, "EP %s GOT %s REMOTE %s\n", ep, tag, conn.RemoteAddr().String())
		if burst > 0 {
			// one single Write of the connection's own tag, large enough to fill the proxy's read buffers
			conn.Write(burstOf(tag, burst))
		}
		io.Copy(conn, br) // echo
	}
	w, err := e2e.NewWorld(mode, lookup, names, handler)
	if err != nil {
		res.SetupErr = err.Error()
		return res
	}
	defer w.Close()
	back := w.Back.Listener.Addr().String()

	type plan struct {
		burst                 int
		tag, domain, expectEP string
		sni                   bool
		chunks                [][]byte
		hello                 []byte
	}
	invalid := []string{"", "10.1.2.3", "::1", "x.after.blue", "deep.x.speedy.red", "ghost.example", "refused.example", "site99.example",
		"suspended.example", "expired.example", "void.example"}
	var plans []plan
	for i := 0; i < nconns; i++ {
		p := plan{tag: fmt.Sprintf("conn-%d-%x", i, r.U64()), sni: true}
		if r.Intn(5) == 0 {
			p.domain = invalid[r.Intn(len(invalid))]
			if p.domain == "" {
				p.sni = false
			}
			res.Invalid++
		} else {
			k := r.Intn(2 * neps)
			p.domain = fmt.Sprintf("site%d.example", k)
			p.expectEP = fmt.Sprintf("/ep%d", k%neps)
			p.burst = []int{32768, 65536, 100000, 32768, 0}[r.Intn(5)]
			res.Valid++
		}
		if r.Intn(3) == 0 && p.sni && net.ParseIP(p.domain) == nil {
			p.hello = e2e.RealHello(p.domain, []string{"h2"})
		} else {
			p.hello = e2e.SynthHello(p.domain, p.sni, []int{0, 600, 5000}[r.Intn(3)])
		}
		for j, n := 0, 1+r.Intn(4); j < n; j++ {
			size := []int{1, 100, 4096, 5000, 20000}[r.Intn(5)]
			if bigRounds && r.Intn(16) == 0 {
				size = 300000
			}
			chunk := bytes.Repeat([]byte(p.tag+"|"), size/len(p.tag+"|")+1)[:size]
			p.chunks = append(p.chunks, chunk)
		}
		plans = append(plans, p)
	}

	var wg sync.WaitGroup
	var fmu sync.Mutex
	fail := func(p plan, kind, exp, obs string) {
		fmu.Lock()
		res.Failures = append(res.Failures, Failure{Tag: p.tag, Domain: p.domain, Kind: kind, Expected: exp, Observed: obs})
		fmu.Unlock()
	}
	start := make(chan struct{})
	for _, p := range plans {
		wg.Add(1)
		go func(p plan) {
			defer wg.Done()
			<-start
			conn, err := w.DialFront()
			if err != nil {
				fail(p, "front-dial", "connected", err.Error())
				return
			}
			defer conn.Close()
			conn.SetDeadline(time.Now().Add(20 * time.Second))
			if _, err := conn.Write(append(append([]byte{}, p.hello...), []byte(fmt.Sprintf("%s %d\n", p.tag, p.burst))...)); err != nil {
				if p.expectEP != "" {
					fail(p, "write", "written", err.Error())
				}
				return
			}
			br := bufio.NewReader(conn)
			line, err := br.ReadString('\n')
			if p.expectEP == "" {
				// must be closed without a byte from any backend
				if err == nil || line != "" {
					fail(p, "invalid-name-answered", "connection closed, nothing received", fmt.Sprintf("%q", line))
				} else if ne, ok := err.(net.Error); ok && ne.Timeout() {
					fail(p, "invalid-name-hung", "connection closed", "still open after 20s")
				}
				return
			}
			if err != nil {
				fail(p, "no-answer", "EP "+p.expectEP, fmt.Sprintf("%q %v", line, err))
				return
			}
			var ep, got, remote string
			fmt.Sscanf(line, "EP %s GOT %s REMOTE %s", &ep, &got, &remote)
			if ep != p.expectEP {
				fail(p, "wrong-endpoint", p.expectEP, ep)
			}
			if got != p.tag {
				fail(p, "wrong-tag", p.tag, got)
			}
			fmu.Lock()
			res.Addrs = append(res.Addrs, AddrObs{Front: conn.LocalAddr().String(), Remote: remote, Back: back})
			fmu.Unlock()
			if p.burst > 0 {
				// the backend's single large Write: every byte must be this connection's own tag
				want := burstOf(p.tag, p.burst)
				got := make([]byte, p.burst)
				if n, err := io.ReadFull(br, got); err != nil {
					fail(p, "burst-short", fmt.Sprintf("%d bytes", p.burst), fmt.Sprintf("%d bytes, %v", n, err))
					return
				}
				if !bytes.Equal(got, want) {
					k := 0
					for k < len(got) && got[k] == want[k] {
						k++
					}
					other := ""
					if i := bytes.Index(got[k:], []byte("conn-")); i >= 0 {
						j := k + i
						e := j
						for e < len(got) && got[e] != '|' {
							e++
						}
						other = string(got[j:e])
					}
					fail(p, "burst-foreign-bytes", "its own tag throughout the backend's single Write of "+strconv.Itoa(p.burst)+" bytes",
						fmt.Sprintf("from offset %d bytes of %q", k, other))
					return
				}
				fmu.Lock()
				res.Echoed += p.burst
				fmu.Unlock()
			}
			for _, chunk := range p.chunks {
				werr := make(chan error, 1)
				go func() { _, e := conn.Write(chunk); werr <- e }()
				buf := make([]byte, len(chunk))
				if _, err := io.ReadFull(br, buf); err != nil {
					fail(p, "echo-short", fmt.Sprintf("%d bytes", len(chunk)), err.Error())
					return
				}
				if !bytes.Equal(buf, chunk) {
					fail(p, "echo-differs", "own bytes", "bytes of another connection or corrupted")
					return
				}
				<-werr
				fmu.Lock()
				res.Echoed += len(chunk)
				fmu.Unlock()
			}
		}(p)
	}
	close(start)
	done := make(chan struct{})
	go func() { wg.Wait(); close(done) }()
	select {
	case <-done:
	case <-time.After(60 * time.Second):
		res.Failures = append(res.Failures, Failure{Kind: "round-hung", Expected: "all connections finish", Observed: "60s elapsed"})
	}

	// what the backends saw
	byTag := map[string]plan{}
	for _, p := range plans {
		byTag[p.tag] = p
	}
	mu.Lock()
	res.Accepted = len(seen)
	for _, s := range seen {
		p, ok := byTag[s.tag]
		switch {
		case !ok:
			res.Failures = append(res.Failures, Failure{Tag: s.tag, Kind: "unknown-tag-at-backend", Expected: "a tag that was sent", Observed: s.ep})
		case p.expectEP == "":
			res.Failures = append(res.Failures, Failure{Tag: s.tag, Domain: p.domain, Kind: "invalid-name-reached-backend", Expected: "no endpoint", Observed: s.ep})
		case p.expectEP != s.ep:
			res.Failures = append(res.Failures, Failure{Tag: s.tag, Domain: p.domain, Kind: "tag-at-wrong-backend", Expected: p.expectEP, Observed: s.ep})
		}
	}
	mu.Unlock()
	sort.Slice(res.Failures, func(i, j int) bool {
		return res.Failures[i].Tag+res.Failures[i].Kind < res.Failures[j].Tag+res.Failures[j].Kind
	})
	sort.Slice(res.Addrs, func(i, j int) bool { return res.Addrs[i].Front < res.Addrs[j].Front })
	if len(res.Addrs) > 6 {
		res.Addrs = res.Addrs[:6]
	}
	return res
}

// ---- refuse stream ----
//
// Every error return of proxy.hostConn between accepting the front connection
// and handing it to an endpoint, end to end through the public API: the hello
// cannot be sniffed, the name is rejected, the lookup refuses (all result
// shapes), the server has no lookup, Home without DialHome, DialHome /
// DialForward fail, the endpoint is not connected, the side token cannot be
// had, the endpoint cannot open its side connection.  For each: the front
// connection must be closed without a byte coming back, and no endpoint may
// accept a connection or read a byte because of it.

type RefuseObs struct {
	World       string `json:"world"`
	Scenario    string `json:"scenario"`
	Expect      string `json:"expect"` // "refused" or the endpoint that must serve it
	Sent        int    `json:"sent"`
	Got         int    `json:"got"`             // bytes the client received
	Reply       string `json:"reply"`           // first line received (served scenarios)
	End         string `json:"end"`             // closed | hung | open
	Accepted    int64  `json:"accepted"`        // connections accepted at any endpoint because of this scenario
	Bytes       int64  `json:"bytes"`           // bytes read at any endpoint because of this scenario
	Where       string `json:"where,omitempty"` // which endpoints
	Lookups     int    `json:"lookups"`         // calls of the configured Lookup this connection caused
	WantLookups int    `json:"want_lookups"`    // one per sniffed, not rejected hello on a server with a lookup
	// the scenario as the model sees it
	SniffOK   bool         `json:"sniff_ok"` // HelloInfo can succeed on the payload
	Name      string       `json:"name"`     // hex: the server name HelloInfo reports
	IsIP      bool         `json:"is_ip"`
	HasLookup bool         `json:"has_lookup"`
	HasHome   bool         `json:"has_home"`
	Entry     *LookupEntry `json:"entry,omitempty"` // what the lookup returns for the name
	Endpoints []string     `json:"endpoints"`       // hex: connected endpoints
	DialOK    bool         `json:"dial_ok"`         // the dial of a selected destination can succeed
}

// MisObs: after hellos whose read failed with an I/O error, several good
// connections at the same time; what each client was answered.
type MisObs struct {
	Round   int    `json:"round"`
	Tag     string `json:"tag"`
	Expect  string `json:"expect"`  // endpoint
	Reply   string `json:"reply"`   // "EP <endpoint> GOT <tag>"
	Payload string `json:"payload"` // what the endpoint said about the payload it read: ok | foreign:<..> | short
}

type RefuseCase struct {
	Aliased  int64       `json:"aliased"` // calls of functions written into the ServerConfig value after NewServer returned
	Mode     string      `json:"mode"`
	Mis      []MisObs    `json:"mis,omitempty"`
	Obs      []RefuseObs `json:"obs"`
	SetupErr string      `json:"setup_err,omitempty"`
}

type refuseWorld struct {
	w        *e2e.World
	cfg      *sniproxy.ServerConfig
	raw      func(string) (*sniproxy.Dest, error) // the configured Lookup, uncounted (for the model's view)
	lookups  int64
	names    []string
	mu       sync.Mutex
	accepted map[string]int64
	bytes    map[string]int64
}

type countReader struct {
	r io.Reader
	f func(n int)
}

func (c *countReader) Read(p []byte) (int, error) {
	n, err := c.r.Read(p)
	if n > 0 {
		c.f(n)
	}
	return n, err
}

func (rw *refuseWorld) handler(ep string, conn net.Conn) {
	defer conn.Close()
	rw.mu.Lock()
	rw.accepted[ep]++
	rw.mu.Unlock()
	conn.SetDeadline(time.Now().Add(15 * time.Second))
	br := bufio.NewReader(&countReader{r: conn, f: func(n int) {
		rw.mu.Lock()
		rw.bytes[ep] += int64(n)
		rw.mu.Unlock()
	}})
	if _, err := e2e.ReadRecord(br); err == nil {
		if line, err := br.ReadString('\n'); err == nil {
			tag := strings.TrimSuffix(line, "\n")
			fmt.Fprintf(conn, "EP %s GOT %s\n", ep, tag)
			if strings.HasPrefix(tag, "MIS-") {
				// a payload of the connection's own tag follows: every byte must be it
				want := burstOf(tag, misPayload)
				got := make([]byte, misPayload)
				verdict := "ok"
				if n, err := io.ReadFull(br, got); err != nil {
					verdict = fmt.Sprintf("short:%d", n)
				} else if !bytes.Equal(got, want) {
					verdict = "foreign"
					if i := bytes.Index(got, []byte("MIS-")); i >= 0 {
						e := i
						for e < len(got) && got[e] != '|' {
							e++
						}
						if string(got[i:e]) != tag {
							verdict = "foreign:" + string(got[i:e])
						}
					}
				}
				fmt.Fprintf(conn, "PAYLOAD %s\n", verdict)
			}
		}
	}
	io.Copy(io.Discard, br)
}

func (rw *refuseWorld) totals() (int64, int64, string) {
	rw.mu.Lock()
	defer rw.mu.Unlock()
	var a, b int64
	var where []string
	for ep, n := range rw.accepted {
		a += n
		where = append(where, fmt.Sprintf("%s:%d conn/%d B", ep, n, rw.bytes[ep]))
	}
	for _, n := range rw.bytes {
		b += n
	}
	sort.Strings(where)
	return a, b, strings.Join(where, " ")
}

const misPayload = 8192

// misRounds: hellos whose read fails with an I/O error, then four good
// connections at the same time to two endpoints, tagged payloads.
func (rw *refuseWorld) misRounds(full []byte, hello func(string) []byte, rounds int) []MisObs {
	var out []MisObs
	abort := func(payload []byte) {
		if c, err := rw.w.DialFront(); err == nil {
			c.Write(payload)
			c.(*net.TCPConn).CloseWrite()
			c.SetReadDeadline(time.Now().Add(3 * time.Second))
			io.Copy(io.Discard, c)
			c.Close()
		}
	}
	big := append([]byte{22, 3, 1, 0x40, 0x01}, bytes.Repeat([]byte{0xAB}, 200)...)
	for round := 0; round < rounds; round++ {
		abort(full[:3])
		abort(full[:len(full)/2])
		abort(big)
		obs := make([]MisObs, 4)
		var wg sync.WaitGroup
		start := make(chan struct{})
		for k := 0; k < 4; k++ {
			wg.Add(1)
			go func(k int) {
				defer wg.Done()
				ep := []string{"/ep0", "/ep1"}[k%2]
				tag := fmt.Sprintf("MIS-%d-%d", round, k)
				o := MisObs{Round: round, Tag: tag, Expect: ep}
				defer func() { obs[k] = o }()
				<-start
				c, err := rw.w.DialFront()
				if err != nil {
					o.Reply = "front-dial: " + err.Error()
					return
				}
				defer c.Close()
				c.SetDeadline(time.Now().Add(8 * time.Second))
				msg := append(append([]byte{}, hello([]string{"site0.example", "site1.example"}[k%2])...), []byte(tag+"\n")...)
				c.Write(append(msg, burstOf(tag, misPayload)...))
				br := bufio.NewReader(c)
				l1, _ := br.ReadString('\n')
				l2, _ := br.ReadString('\n')
				o.Reply = strings.TrimSuffix(l1, "\n")
				o.Payload = strings.TrimPrefix(strings.TrimSuffix(l2, "\n"), "PAYLOAD ")
			}(k)
		}
		close(start)
		wg.Wait()
		out = append(out, obs...)
	}
	return out
}

type refuseScenario struct {
	name      string
	payload   []byte
	halfClose bool   // the client closes its writing side after the payload
	expect    string // "refused" or an endpoint
	sni       string // the server name in the payload; "-" when the hello cannot be sniffed
	dialFails bool   // the dial of the selected destination cannot succeed
}

func (rw *refuseWorld) run(world string, sc refuseScenario) RefuseObs {
	o := RefuseObs{World: world, Scenario: sc.name, Expect: sc.expect, Endpoints: []string{}}
	o.SniffOK = sc.sni != "-"
	o.DialOK = !sc.dialFails
	o.HasLookup = rw.raw != nil
	if o.SniffOK && o.HasLookup && !sniproxy.VerifIsRejectedDomain(sc.sni) {
		o.WantLookups = 1
	}
	l0 := atomic.LoadInt64(&rw.lookups)
	o.HasHome = rw.cfg.DialHome != nil
	for _, n := range rw.names {
		o.Endpoints = append(o.Endpoints, hx16(n))
	}
	if o.SniffOK {
		o.Name = hx16(sc.sni)
		o.IsIP = net.ParseIP(sc.sni) != nil
		if rw.raw != nil {
			d, err := rw.raw(sc.sni)
			e := &LookupEntry{Domain: hx16(sc.sni), Err: err != nil, NoDest: d == nil}
			if d != nil {
				e.Name, e.Home, e.Forward = hx16(d.Name), d.Home, hx16(d.ForwardTCP)
			}
			o.Entry = e
		}
	}
	a0, b0, _ := rw.totals()
	conn, err := rw.w.DialFront()
	if err != nil {
		o.End = "front-dial:" + err.Error()
		return o
	}
	defer conn.Close()
	conn.SetDeadline(time.Now().Add(8 * time.Second))
	n, _ := conn.Write(sc.payload) // the proxy may close before everything is written
	o.Sent = n
	if sc.halfClose {
		conn.(*net.TCPConn).CloseWrite()
	}
	br := bufio.NewReader(conn)
	if sc.expect != "refused" {
		line, _ := br.ReadString('\n')
		o.Reply = strings.TrimSuffix(line, "\n")
		o.Got = len(line)
		o.End = "open"
	} else {
		got, err := io.Copy(io.Discard, br)
		o.Got = int(got)
		o.End = "closed"
		if ne, ok := err.(net.Error); ok && ne.Timeout() {
			o.End = "hung"
		}
	}
	conn.Close()
	// anything this connection caused at an endpoint has happened by the time
	// the proxy closed the front connection (the dial precedes the join); allow
	// for the backend goroutine to be scheduled
	time.Sleep(30 * time.Millisecond)
	if sc.expect != "refused" {
		time.Sleep(50 * time.Millisecond)
	}
	a1, b1, where := rw.totals()
	o.Lookups = int(atomic.LoadInt64(&rw.lookups) - l0)
	o.Accepted, o.Bytes = a1-a0, b1-b0
	if o.Accepted != 0 || o.Bytes != 0 {
		o.Where = where
	}
	return o
}

func tagged(hello []byte, tag string) []byte {
	return append(append([]byte{}, hello...), []byte(tag+"\n")...)
}

func runRefuse(r *hx.Rng, mode string) *RefuseCase {
	res := &RefuseCase{Mode: mode, Obs: []RefuseObs{}}
	siding := mode != "legacy"
	refusedErr := func(d string) error { return fmt.Errorf("domain %q is refused", d) }

	mk := func(cfg *sniproxy.ServerConfig, names []string) (*refuseWorld, error) {
		rw := &refuseWorld{accepted: map[string]int64{}, bytes: map[string]int64{}, names: names, raw: cfg.Lookup}
		counted := *cfg
		if cfg.Lookup != nil {
			counted.Lookup = func(domain string) (*sniproxy.Dest, error) {
				atomic.AddInt64(&rw.lookups, 1)
				return rw.raw(domain)
			}
		}
		rw.cfg = &counted
		cfg = &counted
		var sideDials int32
		w, err := e2e.NewWorldCfg(mode, cfg, names, rw.handler, func(name string) *websocket.Dialer {
			if name != "/epside" {
				return nil
			}
			// this endpoint can reach the proxy for its control connection only
			return &websocket.Dialer{
				ReadBufferSize: sniproxy.DefaultReadBufferSize, WriteBufferSize: sniproxy.DefaultWriteBufferSize,
				NetDialContext: func(ctx context.Context, network, addr string) (net.Conn, error) {
					if atomic.AddInt32(&sideDials, 1) > 1 {
						return nil, errors.New("verif: side connections are blocked for this endpoint")
					}
					return (&net.Dialer{}).DialContext(ctx, network, addr)
				},
			}
		})
		if err != nil {
			return nil, err
		}
		rw.w = w
		return rw, nil
	}

	// a port nothing listens on: a socket that is bound but never listens, kept until this function returns,
	// so that the kernel cannot hand the port to one of the worlds' own listeners meanwhile (it did once:
	// world C's front listener got the released port and the forward scenario dialled the proxy itself)
	closedPort, releasePort := boundNotListening()
	defer releasePort()

	// ---- world A: everything a configured server can refuse
	lookupA := func(domain string) (*sniproxy.Dest, error) {
		switch domain {
		case "site0.example":
			return &sniproxy.Dest{Name: "/ep0"}, nil
		case "site1.example":
			return &sniproxy.Dest{Name: "/ep1"}, nil
		case "ghost.example":
			return &sniproxy.Dest{Name: "/ghost"}, nil
		case "suspended.example":
			return &sniproxy.Dest{Name: "/ep0"}, refusedErr(domain)
		case "suspended-home.example":
			return &sniproxy.Dest{Home: true}, refusedErr(domain)
		case "suspended-fwd.example":
			return &sniproxy.Dest{ForwardTCP: closedPort}, refusedErr(domain)
		case "void.example":
			return nil, nil
		case "home.example":
			return &sniproxy.Dest{Home: true}, nil
		case "fwd.example":
			return &sniproxy.Dest{ForwardTCP: "127.0.0.1:9"}, nil
		case "upper.example": // names that differ from a connected endpoint only in letter case
			return &sniproxy.Dest{Name: "/EP0"}, nil
		case "mixed.example":
			return &sniproxy.Dest{Name: "/Ep1"}, nil
		case "kelvin.example":
			return &sniproxy.Dest{Name: "/epto\u212a"}, nil // KELVIN SIGN folds to k
		case "longs.example":
			return &sniproxy.Dest{Name: "/ep\u017fide"}, nil // LONG S folds to s
		case "tok.example":
			return &sniproxy.Dest{Name: "/eptok"}, nil
		case "side.example":
			return &sniproxy.Dest{Name: "/epside"}, nil
		}
		if domain == "" || net.ParseIP(domain) != nil || strings.HasSuffix(domain, ".after.blue") ||
			strings.HasSuffix(domain, ".speedy.red") || strings.HasSuffix(domain, ".iproxy.cloud") ||
			strings.HasSuffix(domain, ".spothot.online") {
			return &sniproxy.Dest{Name: "/ep0"}, nil // a rejected name that got this far is served, so that it shows
		}
		return nil, refusedErr(domain)
	}
	cfgA := &sniproxy.ServerConfig{
		Lookup: lookupA,
		DialForward: func(ctx context.Context, fwd string) (net.Conn, error) {
			return nil, errors.New("verif: forward target unreachable")
		},
		SideToken: func(user string) (string, error) {
			if user == "/eptok" {
				return "", errors.New("verif: no token for this endpoint")
			}
			return "", nil
		},
	}
	hello := func(name string) []byte { return e2e.SynthHello(name, name != "", 0) }
	full := hello("site0.example")
	big := append([]byte{22, 3, 1, 0x40, 0x01}, bytes.Repeat([]byte{0xAB}, 0x4001)...) // record payload 16385
	junk := append([]byte{22, 3, 1, 0, 64}, r.Bytes(64)...)
	sideExpect := func(ep string) string {
		if siding {
			return "refused"
		}
		return ep
	}
	scA := []refuseScenario{
		{"control-before", tagged(full, "T-control-before"), false, "/ep0", "site0.example", false},
		{"sniff:not-tls", []byte("GET / HTTP/1.1\r\nHost: site0.example\r\n\r\nT-not-tls\n"), false, "refused", "-", false},
		{"sniff:appdata-record", append([]byte{23, 3, 3, 0, 16}, []byte("T-appdata-rec...\n")...), false, "refused", "-", false},
		{"sniff:eof-in-header", full[:3], true, "refused", "-", false},
		{"sniff:eof-after-header", full[:5], true, "refused", "-", false},
		{"sniff:eof-in-hello", full[:len(full)/2], true, "refused", "-", false},
		{"sniff:eof-one-byte-short", full[:len(full)-1], true, "refused", "-", false},
		{"sniff:oversize-record", append(big, []byte("T-oversize\n")...), false, "refused", "-", false},
		{"sniff:garbage-handshake", tagged(junk, "T-garbage"), false, "refused", "", false},
		{"sniff:empty", nil, true, "refused", "-", false},
		{"reject:no-sni", tagged(hello(""), "T-no-sni"), false, "refused", "", false},
		{"reject:ipv4", tagged(hello("10.1.2.3"), "T-ipv4"), false, "refused", "10.1.2.3", false},
		{"reject:ipv6", tagged(hello("::1"), "T-ipv6"), false, "refused", "::1", false},
		{"reject:suffix-after.blue", tagged(hello("x.after.blue"), "T-sfx1"), false, "refused", "x.after.blue", false},
		{"reject:suffix-speedy.red", tagged(hello("a.b.speedy.red"), "T-sfx2"), false, "refused", "a.b.speedy.red", false},
		{"reject:suffix-iproxy.cloud", tagged(hello("x.iproxy.cloud"), "T-sfx3"), false, "refused", "x.iproxy.cloud", false},
		{"reject:suffix-spothot.online", tagged(hello("x.spothot.online"), "T-sfx4"), false, "refused", "x.spothot.online", false},
		{"lookup:nil-err", tagged(hello("refused.example"), "T-nil-err"), false, "refused", "refused.example", false},
		{"lookup:dest-err", tagged(hello("suspended.example"), "T-dest-err"), false, "refused", "suspended.example", false},
		{"lookup:home-err", tagged(hello("suspended-home.example"), "T-home-err"), false, "refused", "suspended-home.example", false},
		{"lookup:forward-err", tagged(hello("suspended-fwd.example"), "T-fwd-err"), false, "refused", "suspended-fwd.example", false},
		{"lookup:nil-nil", tagged(hello("void.example"), "T-nil-nil"), false, "refused", "void.example", false},
		{"endpoint:not-connected", tagged(hello("ghost.example"), "T-ghost"), false, "refused", "ghost.example", false},
		{"endpoint:variant-upper-case", tagged(hello("upper.example"), "T-upper"), false, "refused", "upper.example", false},
		{"endpoint:variant-mixed-case", tagged(hello("mixed.example"), "T-mixed"), false, "refused", "mixed.example", false},
		{"endpoint:variant-kelvin-sign", tagged(hello("kelvin.example"), "T-kelvin"), false, "refused", "kelvin.example", false},
		{"endpoint:variant-long-s", tagged(hello("longs.example"), "T-longs"), false, "refused", "longs.example", false},
		{"home:no-dialhome", tagged(hello("home.example"), "T-home-missing"), false, "refused", "home.example", false},
		{"forward:dial-error", tagged(hello("fwd.example"), "T-fwd-error"), false, "refused", "fwd.example", true},
		{"dial:side-token-error", tagged(hello("tok.example"), "T-tok"), false, sideExpect("/eptok"), "tok.example", siding},
		{"dial:side-connection-fails", tagged(hello("side.example"), "T-side"), false, sideExpect("/epside"), "side.example", siding},
		{"control-after", tagged(hello("site1.example"), "T-control-after"), false, "/ep1", "site1.example", false},
	}
	rwA, err := mk(cfgA, []string{"/ep0", "/ep1", "/eptok", "/epside"})
	if err != nil {
		res.SetupErr = err.Error()
		return res
	}
	for _, sc := range scA {
		res.Obs = append(res.Obs, rwA.run("A", sc))
	}
	res.Mis = rwA.misRounds(full, hello, 4)
	res.Aliased += atomic.LoadInt64(&rwA.w.AliasedCalls)
	rwA.w.Close()

	// ---- world B: a server without lookup ("server not accepting")
	rwB, err := mk(&sniproxy.ServerConfig{}, []string{"/ep0"})
	if err != nil {
		res.SetupErr = "world B: " + err.Error()
		return res
	}
	res.Obs = append(res.Obs, rwB.run("B", refuseScenario{"lookup:none-configured", tagged(full, "T-nolookup"), false, "refused", "site0.example", false}))
	res.Aliased += atomic.LoadInt64(&rwB.w.AliasedCalls)
	rwB.w.Close()

	// ---- world C: DialHome fails; default forward dialer to a port nothing listens on
	cfgC := &sniproxy.ServerConfig{
		Lookup: func(domain string) (*sniproxy.Dest, error) {
			switch domain {
			case "home.example":
				return &sniproxy.Dest{Home: true}, nil
			case "fwd.example":
				return &sniproxy.Dest{ForwardTCP: closedPort}, nil
			case "site0.example":
				return &sniproxy.Dest{Name: "/ep0"}, nil
			}
			return nil, refusedErr(domain)
		},
		DialHome: func(ctx context.Context) (net.Conn, error) { return nil, errors.New("verif: home unreachable") },
	}
	rwC, err := mk(cfgC, []string{"/ep0"})
	if err != nil {
		res.SetupErr = "world C: " + err.Error()
		return res
	}
	for _, sc := range []refuseScenario{
		{"home:dial-error", tagged(hello("home.example"), "T-home-error"), false, "refused", "home.example", true},
		{"forward:connection-refused", tagged(hello("fwd.example"), "T-fwd-refused"), false, "refused", "fwd.example", true},
		{"control-after", tagged(full, "T-control-C"), false, "/ep0", "site0.example", false},
	} {
		res.Obs = append(res.Obs, rwC.run("C", sc))
	}
	res.Aliased += atomic.LoadInt64(&rwC.w.AliasedCalls)
	rwC.w.Close()

	// ---- world D: the configured Lookup changes its answers between connections, an endpoint
	// re-registers; a connection right before and right after every change
	var tmu sync.Mutex
	answer := map[string]func() (*sniproxy.Dest, error){}
	set := func(domain string, f func() (*sniproxy.Dest, error)) {
		tmu.Lock()
		answer[domain] = f
		tmu.Unlock()
	}
	to := func(ep string) func() (*sniproxy.Dest, error) {
		return func() (*sniproxy.Dest, error) { return &sniproxy.Dest{Name: ep}, nil }
	}
	refuse := func(domain string) func() (*sniproxy.Dest, error) {
		return func() (*sniproxy.Dest, error) { return nil, refusedErr(domain) }
	}
	cfgD := &sniproxy.ServerConfig{Lookup: func(domain string) (*sniproxy.Dest, error) {
		tmu.Lock()
		f := answer[domain]
		tmu.Unlock()
		if f == nil {
			return nil, refusedErr(domain)
		}
		return f()
	}}
	rwD, err := mk(cfgD, []string{"/ep0", "/ep1"})
	if err != nil {
		res.SetupErr = "world D: " + err.Error()
		return res
	}
	moving, other := "moving.example", "steady.example"
	conn := func(name, expect string) {
		res.Obs = append(res.Obs, rwD.run("D", refuseScenario{name, tagged(hello(moving), "T-"+strings.ReplaceAll(name, ":", "-")), false, expect, moving, false}))
	}
	set(other, to("/ep1"))
	set(moving, to("/ep0"))
	conn("change:initial", "/ep0")
	conn("change:initial-again", "/ep0")
	set(moving, to("/ep1")) // the site moves
	conn("change:moved-to-ep1", "/ep1")
	set(moving, refuse(moving)) // the name is suspended
	conn("change:now-refused", "refused")
	conn("change:still-refused", "refused")
	set(moving, to("/ep0")) // reinstated, at the first endpoint
	conn("change:reinstated-at-ep0", "/ep0")
	set(moving, func() (*sniproxy.Dest, error) { return &sniproxy.Dest{Name: "/ep1"}, refusedErr(moving) })
	conn("change:owner-ep1-but-refused", "refused")
	set(moving, to("/ghost")) // moved to an endpoint that is not connected
	conn("change:moved-to-unconnected", "refused")
	set(moving, to("/ep1"))
	conn("change:moved-back-to-ep1", "/ep1")
	// /ep1 re-registers: the name now belongs to the new connection of that endpoint
	if err := rwD.w.AddEndpoint("/ep1", func(ep string, c net.Conn) { rwD.handler("/ep1#2", c) }); err != nil {
		res.SetupErr = "world D re-register: " + err.Error()
	} else {
		conn("change:endpoint-re-registered", "/ep1#2")
	}
	res.Obs = append(res.Obs, rwD.run("D", refuseScenario{"change:other-name-unaffected", tagged(hello(other), "T-other"), false, "/ep1#2", other, false}))
	res.Aliased += atomic.LoadInt64(&rwD.w.AliasedCalls)
	rwD.w.Close()
	return res
}

// ---- hist stream: one server, the lookup's answers and the registry change between dials ----

func runHist(r *hx.Rng, corpus bool) *HistCase {
	c := &HistCase{HasHome: r.Bool()}
	var mu sync.Mutex
	table := map[string]LookupEntry{}
	calls := 0
	cfg := &sniproxy.ServerConfig{Lookup: func(domain string) (*sniproxy.Dest, error) {
		mu.Lock()
		defer mu.Unlock()
		calls++
		e, ok := table[domain]
		if !ok {
			return nil, fmt.Errorf("bad domain %q", domain)
		}
		var d *sniproxy.Dest
		if !e.NoDest {
			d = &sniproxy.Dest{Name: unhex(e.Name), Home: e.Home, ForwardTCP: unhex(e.Forward)}
		}
		var err error
		if e.Err {
			err = fmt.Errorf("domain %q is refused", domain)
		}
		return d, err
	}}
	eps := []string{"/ep0", "/ep1", "/ep2"}
	srv := sniproxy.NewVerifDialServer(cfg, c.HasHome, true, eps)
	domains := []string{"d0.example", "d1.example", "d2.example"}
	setLookup := func(entries map[string]LookupEntry) {
		mu.Lock()
		table = map[string]LookupEntry{}
		ev := HistEvent{Kind: "lookup", Table: []LookupEntry{}}
		for _, d := range domains {
			if e, ok := entries[d]; ok {
				e.Domain = hx16(d)
				table[d] = e
				ev.Table = append(ev.Table, e)
			}
		}
		mu.Unlock()
		c.Events = append(c.Events, ev)
	}
	setRegistry := func(names []string) {
		srv.SetEndpoints(names)
		ev := HistEvent{Kind: "registry", Endpoints: []string{}}
		for _, n := range names {
			ev.Endpoints = append(ev.Endpoints, hx16(n))
		}
		c.Events = append(c.Events, ev)
	}
	dial := func(d string) {
		mu.Lock()
		before := calls
		mu.Unlock()
		ev := HistEvent{Kind: "dial", SNI: hx16(d)}
		res := func() (out string) {
			defer func() {
				if e := recover(); e != nil {
					out = "panic:" + fmt.Sprint(e)
				}
			}()
			return srv.Dial(d, "192.0.2.1:4000")
		}()
		ev.Decision = res
		if i := strings.Index(res, ":"); i >= 0 {
			ev.Decision, ev.DecisionArg = res[:i], hx16(res[i+1:])
		}
		mu.Lock()
		ev.Lookups = calls - before
		mu.Unlock()
		c.Events = append(c.Events, ev)
	}
	plain := func(ep string) LookupEntry { return LookupEntry{Name: hx16(ep)} }
	refused := LookupEntry{Err: true, NoDest: true}
	setRegistry(eps)
	if corpus {
		d := domains[0]
		setLookup(map[string]LookupEntry{d: plain("/ep0"), domains[1]: plain("/ep2")})
		dial(d)
		dial(d)
		setLookup(map[string]LookupEntry{d: plain("/ep1"), domains[1]: plain("/ep2")}) // moved
		dial(d)
		setLookup(map[string]LookupEntry{d: refused, domains[1]: plain("/ep2")}) // refused
		dial(d)
		setLookup(map[string]LookupEntry{d: {Err: true, Name: hx16("/ep1")}, domains[1]: plain("/ep2")}) // owner + error
		dial(d)
		setLookup(map[string]LookupEntry{d: plain("/ep0"), domains[1]: plain("/ep2")}) // reinstated
		dial(d)
		setLookup(map[string]LookupEntry{d: plain("/EP0"), domains[1]: plain("/ep2")}) // a case variant of a connected name
		dial(d)
		setLookup(map[string]LookupEntry{d: plain("/ep0"), domains[1]: plain("/ep2")})
		setRegistry([]string{"/ep1", "/ep2"}) // its endpoint disconnects
		dial(d)
		setRegistry(eps)
		dial(d)
		dial(domains[1])
		return c
	}
	cur := map[string]LookupEntry{}
	genEntry := func() LookupEntry {
		switch r.Intn(8) {
		case 0:
			return refused
		case 1:
			return LookupEntry{Err: true, Name: hx16(eps[r.Intn(3)])}
		case 2:
			return LookupEntry{NoDest: true}
		case 3:
			return LookupEntry{Home: true, Name: hx16("~")}
		default:
			return plain([]string{"/ep0", "/ep1", "/ep2", "/ghost", "/EP1", "/Ep2"}[r.Intn(6)])
		}
	}
	for i, n := 0, 8+r.Intn(14); i < n; i++ {
		switch k := r.Intn(10); {
		case k < 4: // the answer for one name changes, then a connection for it
			d := domains[r.Intn(3)]
			if r.Intn(6) == 0 {
				delete(cur, d)
			} else {
				cur[d] = genEntry()
			}
			setLookup(cur)
			dial(d)
		case k < 5:
			var names []string
			for _, e := range eps {
				if r.Intn(4) != 0 {
					names = append(names, e)
				}
			}
			setRegistry(names)
		default:
			dial(domains[r.Intn(3)])
		}
	}
	return c
}

// burstOf is n bytes of "tag|tag|...".
func burstOf(tag string, n int) []byte {
	return bytes.Repeat([]byte(tag+"|"), n/(len(tag)+1)+1)[:n]
}

// ---- main ----

var bigRounds bool

type spec struct {
	stream string
	seed   uint64
	a, b   int
	mode   string
}

func plan(seed uint64, n int, e2eRounds int, only string) []spec {
	r := hx.NewRng(seed)
	var ss []spec
	if only == "race" {
		for len(ss) < n {
			ss = append(ss, spec{stream: "race", seed: r.U64(), a: 2 + r.Intn(30), b: 1 + r.Intn(4)})
		}
		return ss
	}
	ss = append(ss, spec{stream: "regen", seed: r.U64()})      // corpus: stale side connection after re-registration
	ss = append(ss, spec{stream: "hist", seed: r.U64(), a: 1}) // corpus: the lookup's answer changes between dials
	for _, m := range e2e.Modes {                              // every refusal path of hostConn, end to end, in each tunnel mode
		ss = append(ss, spec{stream: "refuse", seed: r.U64(), mode: m})
	}
	for k := 1; k <= 5; k++ { // corpus: lookup results (dest, err), (nil, nil), (home, err), (forward, err), a case variant of a connected endpoint
		ss = append(ss, spec{stream: "route", seed: r.U64(), a: k})
	}
	for i := 0; i < e2eRounds; i++ {
		mode := e2e.Modes[i%3]
		neps := 2 + r.Intn(5)
		nconns := []int{8, 24, 64}[r.Intn(3)]
		if bigRounds && i%3 == 0 {
			nconns = []int{128, 256}[r.Intn(2)]
		}
		ss = append(ss, spec{stream: "e2e", seed: r.U64(), a: neps, b: nconns, mode: mode})
	}
	for len(ss) < n {
		switch c := r.Intn(20); {
		case c < 4:
			ss = append(ss, spec{stream: "reject", seed: r.U64()})
		case c < 13:
			ss = append(ss, spec{stream: "route", seed: r.U64()})
		case c < 17:
			ss = append(ss, spec{stream: "office", seed: r.U64(), a: 10 + r.Intn(60)})
		case c < 18:
			if r.Intn(2) == 0 {
				ss = append(ss, spec{stream: "hist", seed: r.U64()})
			} else {
				ss = append(ss, spec{stream: "conns", seed: r.U64(), a: 5 + r.Intn(40)})
			}
		case c < 19:
			if r.Intn(3) == 0 {
				ss = append(ss, spec{stream: "regen", seed: r.U64()})
			} else {
				ss = append(ss, spec{stream: "race", seed: r.U64(), a: 2 + r.Intn(30), b: 1 + r.Intn(4)})
			}
		default:
			ss = append(ss, spec{stream: "ids", seed: r.U64(), a: 2 + r.Intn(15), b: 1 + r.Intn(200)})
		}
	}
	return ss
}

func runSpec(i int, s spec) (c Case) {
	c = Case{I: i, Stream: s.stream}
	defer func() {
		if e := recover(); e != nil {
			c.Crash = fmt.Sprintf("panic: %v", e)
		}
	}()
	r := hx.NewRng(s.seed)
	switch s.stream {
	case "reject":
		c.Reject = runReject(r)
	case "route":
		c.Route = runRoute(r, s.a)
	case "office":
		c.Office = runOffice(r, s.a)
	case "conns":
		c.Conns = runConns(r, s.a)
	case "race":
		c.Race = runRace(r, s.a, s.b)
	case "regen":
		c.Regen = runRegen(r)
	case "ids":
		c.IDs = sniproxy.VerifSessionIDs(s.a, s.b)
	case "e2e":
		c.E2E = runE2E(r, s.mode, s.a, s.b)
	case "refuse":
		c.Refuse = runRefuse(r, s.mode)
	case "hist":
		c.Hist = runHist(r, s.a == 1)
	}
	return c
}

func main() {
	seed := flag.Uint64("seed", 1, "seed")
	n := flag.Int("n", 500, "number of cases")
	rounds := flag.Int("e2e", 6, "number of end-to-end rounds")
	only := flag.String("only", "", "run only this stream (race)")
	big := flag.Bool("big", false, "larger end-to-end rounds (up to 256 concurrent connections)")
	child := flag.Bool("child", false, "child mode")
	from := flag.Int("from", 0, "first case (child)")
	mem := flag.Uint64("mem", 6<<30, "address-space limit of the child")
	flag.Parse()
	e2e.Quiet()

	bigRounds = *big
	ss := plan(*seed, *n, *rounds, *only)
	out := hx.NewOut(os.Stdout)
	if *child {
		hx.LimitMemory(*mem)
		for i := *from; i < len(ss); i++ {
			c := runSpec(i, ss[i])
			out.Emit(&c)
		}
		return
	}
	args := []string{"-seed", strconv.FormatUint(*seed, 10), "-n", strconv.Itoa(*n), "-e2e", strconv.Itoa(*rounds), "-only", *only}
	if *big {
		args = append(args, "-big")
	}
	err := hx.RunIsolated(len(ss), args, *mem,
		func(i int, raw []byte) { os.Stdout.Write(append(raw, '\n')) },
		func(i int, why string) {
			out.Emit(&Case{I: i, Stream: ss[i].stream, Crash: "fatal: " + why})
		})
	if err != nil {
		fmt.Fprintln(os.Stderr, err)
		os.Exit(2)
	}
}

// boundNotListening reserves a loopback TCP port that refuses connections: the socket is bound, never
// listens, and stays open until release is called.
func boundNotListening() (addr string, release func()) {
	fd, err := syscall.Socket(syscall.AF_INET, syscall.SOCK_STREAM, 0)
	if err != nil {
		return "127.0.0.1:1", func() {}
	}
	if err := syscall.Bind(fd, &syscall.SockaddrInet4{Port: 0, Addr: [4]byte{127, 0, 0, 1}}); err != nil {
		syscall.Close(fd)
		return "127.0.0.1:1", func() {}
	}
	sa, err := syscall.Getsockname(fd)
	in4, ok := sa.(*syscall.SockaddrInet4)
	if err != nil || !ok {
		syscall.Close(fd)
		return "127.0.0.1:1", func() {}
	}
	return fmt.Sprintf("127.0.0.1:%d", in4.Port), func() { syscall.Close(fd) }
}
