// Command c04 injects the loss or shutdown of an endpoint's control
// connection into the real sniproxy code of /repo (built with -tags verif)
// and prints, per scenario, which goroutines returned and which are left
// waiting.
//
//   - stream "tl": transport-level fault scenarios (an endpointClient over a
//     websocket whose peer is this harness): callers with never-cancelled
//     and cancellable contexts, tunnel reads and closeAll-style closes,
//     issued before, during and after the loss; lost connection, failed
//     write, shutdown, replies after the exit.  The same scenario is
//     replayed on the Coq blocking model (Sni/ShutdownCorr.v).
//   - stream "e2e": a real Server with ServeFront, a real Endpoint serving a
//     TLS echo backend, k tunnelled front connections; the control
//     websocket is severed / closed / kicked, with the server's connection
//     thread held at the schedule point after serve() until the tunnelled
//     connections' close calls have been issued (the window in which the
//     pinned tree strands them).  Observed: every front connection sees
//     EOF/reset, the name is unregistered, ServeFront returns after cancel,
//     no goroutine is left inside sniproxy/netutil.
//   - stream "ep": Endpoint.Accept / Close / sendAccept driven explicitly.
//   - stream "epb": the accept backlog against the loss of the tunnel.  A real
//     Server with ServeFront and a real Endpoint whose application does not
//     call Accept: N front connections fill the backlog (10) and park the
//     remaining dial handlers in sendAccept; the control connection is then
//     severed / kicked / shut down; once the endpoint's serve loop is in its
//     deferred clean-up the application drains Accept.  Observed: Accept
//     returns, every connection Accept handed out ends (a pending Read, a
//     later Read and a later Write return), Endpoint.Close returns, the
//     proxy closes every front connection, nothing is left behind.
package main

import (
	"context"
	"crypto/tls"
	"encoding/binary"
	"encoding/json"
	"flag"
	"fmt"
	"io"
	"net"
	"net/http/httptest"
	"os"
	"strconv"
	"strings"
	"sync"
	"sync/atomic"
	"time"

	"github.com/gorilla/websocket"
	"shanhu.io/g/aries"
	"shanhu.io/g/https/httpstest"
	"shanhu.io/g/sniproxy"
	"verifharness/hx"
	"verifharness/rpcx"
)

var waitBound = 10 * time.Second

type Step struct {
	Op   string `json:"op"` // new | reply | sever | break | cancel
	K    int    `json:"k"`
	Ctx  string `json:"ctx,omitempty"`  // never | open
	Kind string `json:"kind,omitempty"` // hello | read | closeall | shutdown
	Good bool   `json:"good"`
	N    int    `json:"n,omitempty"` // burst: number of concurrent callers K..K+N-1
}

type CallerObs struct {
	K        int    `json:"k"`
	Kind     string `json:"kind"`
	Ctx      string `json:"ctx"`
	Returned bool   `json:"returned"`
	Front    bool   `json:"front"` // closeall: the front connection was closed
	Res      string `json:"res,omitempty"`
}

type Case struct {
	I      int    `json:"i"`
	Stream string `json:"stream"`
	// tl
	Steps       []Step      `json:"steps,omitempty"`
	Callers     []CallerObs `json:"callers,omitempty"`
	ReaderAlive bool        `json:"reader_alive"`
	ServeDone   bool        `json:"serve_done"`
	// e2e
	Fault          string   `json:"fault,omitempty"`
	Conns          int      `json:"conns"`
	Hold           bool     `json:"hold"`
	FrontClosed    []bool   `json:"front_closed,omitempty"`
	Unregistered   bool     `json:"unregistered"`
	FrontReturned  bool     `json:"servefront_returned"`
	BackReturned   bool     `json:"serveback_returned"`
	EP             []EPObs  `json:"ep,omitempty"`              // stream "ep": the endpoint-side threads
	CloseMs        int      `json:"close_ms,omitempty"`        // how long Endpoint.Close took
	SendAcceptLeft int      `json:"sendaccept_left,omitempty"` // goroutines still in sendAccept 3 s after Close returned
	MidDial        string   `json:"mid_dial,omitempty"`        // side-kick-middial: how the dial in flight ended
	AcceptReturned bool     `json:"accept_returned"`           // the lost endpoint's Accept returned (endpoint side)
	// stream "epb"
	Mode        string `json:"mode,omitempty"`         // "" (tunnelled) | siding | sidingaddr
	Parked      int    `json:"parked,omitempty"`       // dial handlers waiting in sendAccept when the fault was injected
	Noticed     bool   `json:"noticed,omitempty"`      // the endpoint's serve loop was in its deferred clean-up before the drain
	Accepted    int    `json:"accepted,omitempty"`     // connections handed out by Accept
	AcceptEnd   string `json:"accept_end,omitempty"`   // how the accept loop ended: err | stuck
	ReadStuck   []int  `json:"read_stuck,omitempty"`   // accepted connections (by order of acceptance) whose pending Read did not return
	LaterStuck  []int  `json:"later_stuck,omitempty"`  // ... whose later Read / Write did not return
	LaterOK     int    `json:"later_ok,omitempty"`     // later Reads/Writes that SUCCEEDED on a connection of the lost tunnel
	CloseStuck  bool   `json:"close_stuck,omitempty"`  // Endpoint.Close did not return
	FrontsTotal int    `json:"fronts,omitempty"`
	Timeline    []int  `json:"timeline_ms,omitempty"` // since the fault: noticed, accept loop ended, Close returned, fronts observed, reads observed
	RegAtFronts bool   `json:"registered_when_fronts_observed,omitempty"`
	Skipped        bool     `json:"skipped,omitempty"`         // not run: the stream was stopped after repeated stranding
	SkipBudget     bool     `json:"skipped_budget,omitempty"`  // ... or the wall-clock budget of the run was used up
	Queued         int      `json:"queued_at_release,omitempty"`
	Leak           []string `json:"leak,omitempty"`
	Hang           string   `json:"hang,omitempty"`
	Crash          string   `json:"crash,omitempty"`
}

// ---- generation -------------------------------------------------------------

func genTL(seed uint64, i int) Case {
	r := hx.NewRng(seed*1000003 + uint64(i)*15485863 + 3)
	c := Case{I: i, Stream: "tl"}
	k := 0
	newc := func(kind, ctx string) Step {
		k++
		return Step{Op: "new", K: k, Kind: kind, Ctx: ctx}
	}
	switch i {
	case 0: // loss while idle, then closeAll: the pinned tree strands it
		c.Steps = []Step{{Op: "sever"}, newc("closeall", "never")}
		return c
	case 1: // loss mid-call, then late calls
		c.Steps = []Step{newc("read", "never"), newc("hello", "never"), {Op: "sever"},
			newc("closeall", "never"), newc("hello", "never")}
		return c
	case 2: // failed write ends serve; a reply afterwards reaches the reader
		c.Steps = []Step{newc("hello", "open"), {Op: "break"}, newc("hello", "never"),
			{Op: "reply", K: 1, Good: true}}
		return c
	case 3: // mistyped reply drops the call; it returns when serve ends
		c.Steps = []Step{newc("read", "never"), {Op: "reply", K: 1, Good: false}}
		return c
	case 4: // more calls after the loss than the call queue holds
		c.Steps = []Step{newc("read", "never"), {Op: "sever"}, {Op: "burst", K: 10, N: 160, Kind: "closeall"}}
		return c
	case 5: // a peer that stops reading: the queue fills, callers wait to enqueue; then the loss
		c.Steps = []Step{newc("hello", "never"), {Op: "reply", K: 1, Good: true}, {Op: "stall"},
			{Op: "burst", K: 10, N: 200, Kind: "write"}, {Op: "sever"}}
		return c
	case 6: // side dial: the call succeeded, the side connection never comes, the control connection is lost
		c.Steps = []Step{newc("sidedial", "never"), {Op: "reply", K: 1, Good: true}, {Op: "sever"}}
		return c
	case 7: // side dial completed by the delivery; another one in flight when the connection is lost
		c.Steps = []Step{newc("sidedial", "never"), {Op: "reply", K: 1, Good: true}, {Op: "deliver", K: 1},
			newc("sidedial", "open"), {Op: "sever"}, newc("sidedial", "never")}
		return c
	case 8: // delivery before the reply; a mistyped reply; a cancelled dial
		c.Steps = []Step{newc("sidedial", "never"), {Op: "deliver", K: 1}, {Op: "reply", K: 1, Good: true},
			newc("sidedial", "never"), {Op: "reply", K: 2, Good: false},
			newc("sidedial", "open"), {Op: "reply", K: 3, Good: true}, {Op: "cancel", K: 3},
			newc("closeall", "never")}
		return c
	}
	if i%97 == 50 { // a few more of both, with varying sizes
		n := 130 + r.Intn(60)
		if r.Bool() {
			c.Steps = []Step{{Op: "sever"}, {Op: "burst", K: 10, N: n, Kind: []string{"closeall", "hello", "read"}[r.Intn(3)]},
				newc("closeall", "never")}
		} else {
			c.Steps = []Step{{Op: "stall"}, {Op: "burst", K: 10, N: n + 40, Kind: "write"}, {Op: "sever"},
				newc("closeall", "never")}
		}
		return c
	}
	kinds := []string{"hello", "hello", "read", "closeall"}
	if r.Intn(4) == 0 { // a scenario in a side mode
		kinds = []string{"hello", "sidedial", "sidedial", "closeall", "read"}
	}
	ctxs := []string{"never", "never", "open"}
	n := 2 + r.Intn(9)
	dead, shut := false, false
	var pending []int
	open := map[int]bool{}
	for len(c.Steps) < n {
		switch x := r.Intn(10); {
		case x < 5:
			kind := kinds[r.Intn(len(kinds))]
			ctx := ctxs[r.Intn(len(ctxs))]
			if kind != "hello" && kind != "sidedial" {
				ctx = "never"
			}
			st := newc(kind, ctx)
			c.Steps = append(c.Steps, st)
			if !dead && !shut {
				pending = append(pending, st.K)
			}
			if ctx == "open" {
				open[st.K] = true
			}
		case x < 7:
			if len(pending) > 0 && !dead {
				j := r.Intn(len(pending))
				c.Steps = append(c.Steps, Step{Op: "reply", K: pending[j], Good: r.Intn(4) > 0})
				if r.Intn(3) > 0 { // (ignored unless K is a side dial that was sent)
					c.Steps = append(c.Steps, Step{Op: "deliver", K: pending[j]})
				}
				pending = append(pending[:j], pending[j+1:]...)
			} else if k > 0 {
				c.Steps = append(c.Steps, Step{Op: "reply", K: 1 + r.Intn(k), Good: true})
			}
		case x == 7:
			if !dead {
				c.Steps = append(c.Steps, Step{Op: "sever"})
				dead = true
			}
		case x == 8:
			if !dead && r.Bool() {
				c.Steps = append(c.Steps, Step{Op: "break"}, newc("hello", "never"))
				dead = true
			} else if !dead && !shut {
				st := newc("shutdown", "open")
				c.Steps = append(c.Steps, st)
				open[st.K] = true
				shut = true
				if r.Bool() {
					c.Steps = append(c.Steps, Step{Op: "reply", K: st.K, Good: true})
					dead = true
				}
			}
		default:
			for kk := range open {
				if r.Bool() {
					c.Steps = append(c.Steps, Step{Op: "cancel", K: kk})
					delete(open, kk)
					break
				}
			}
		}
	}
	return c
}

var e2eFaults = []string{"sever-endpoint", "sever-server", "close-endpoint", "kick", "proto-error"}

var e2eFirst = []string{"sever-endpoint", "sever-server", "close-endpoint", "kick", "kick-blackholed",
	"proto-error", "side-loss-endpoint", "side-kick-middial", "hint-blackhole-kick", "hint-blackhole-shutdown"}

// blackholed: the scenarios in which the first endpoint reaches the server
// through a relay that goes dark (no data, no FIN, no RST).
func blackholed(fault string) bool {
	return fault == "kick-blackholed" || strings.HasPrefix(fault, "hint-blackhole-")
}

var e2eSide = []string{"side-loss-endpoint", "side-loss-server", "side-kick-middial"}

func genE2E(seed uint64, i, j int) Case {
	r := hx.NewRng(seed*7919 + uint64(j)*104723 + 11)
	c := Case{I: i, Stream: "e2e", Hold: true}
	c.Fault = e2eFirst[j%len(e2eFirst)]
	c.Conns = []int{1, 2, 0, 3, 2, 1, 2, 4, 2, 1}[j%len(e2eFirst)]
	if j >= len(e2eFirst) {
		c.Conns = r.Intn(9)
		c.Fault = e2eFaults[r.Intn(len(e2eFaults))]
		c.Hold = r.Intn(4) > 0
		if j%5 == 3 {
			c.Fault = e2eSide[r.Intn(len(e2eSide))]
			c.Conns = r.Intn(5)
		}
		if j%37 == 20 { // (costs the 3 s shutdown time-out of the kick even on a sound tree)
			c.Fault = []string{"kick-blackholed", "hint-blackhole-kick", "hint-blackhole-shutdown"}[(j/37)%3]
			c.Conns = 1 + r.Intn(3)
		}
	}
	return c
}

// ---- transport-level scenarios --------------------------------------------------

var bigPayload = make([]byte, 256*1024)

type tcaller struct {
	step     Step
	cancel   context.CancelFunc
	done     chan struct{}
	res      string
	front    atomic.Bool
	seen     bool
	id       uint64
	returned bool
	sess     uint64 // side dial: the session key read off the request
	key      uint64
}

var readerFrames = []string{"shanhu.io/g/sniproxy.(*transport).serveRead",
	"shanhu.io/g/sniproxy.(*transport).handleMessage"}

// waitCount polls until at most base goroutines match, or the deadline.
func waitCount(prefixes, skip []string, base int, d time.Duration) []string {
	deadline := time.Now().Add(d)
	for {
		g := rpcx.Goroutines(prefixes, skip)
		if len(g) <= base || time.Now().After(deadline) {
			return g
		}
		time.Sleep(10 * time.Millisecond)
	}
}

func runTL(c *Case, tap *rpcx.LogTap) {
	tap.Reset()
	// goroutines stranded by earlier scenarios of this process do not count
	readerBase := len(rpcx.Goroutines(readerFrames, nil))
	pair, err := rpcx.NewWSPair()
	if err != nil {
		c.Crash = "setup: " + err.Error()
		return
	}
	defer pair.Close()
	opt := &sniproxy.Options{}
	for _, st := range c.Steps {
		if st.Kind == "sidedial" { // side modes: Dial asks for a side connection
			opt.Siding = true
			opt.DialWithAddr = c.I%2 == 0
		}
	}
	cl := sniproxy.VerifNewClient(pair.A, opt)
	reqs := make(chan []byte, 256)
	var stalled atomic.Bool
	go func() {
		defer close(reqs)
		for {
			for stalled.Load() { // a peer that has stopped reading
				time.Sleep(time.Millisecond)
			}
			mt, data, err := pair.B.ReadMessage()
			if err != nil {
				return
			}
			if mt == websocket.BinaryMessage {
				reqs <- data
			}
		}
	}()
	exited := func() bool {
		select {
		case <-cl.ServeDone():
			return true
		default:
			return false
		}
	}
	callers := map[int]*tcaller{}
	var order []int
	syncN := 0
	severed := false

	identify := func(data []byte) (uint64, int) {
		if len(data) < 9 {
			return 0, -1
		}
		id := binary.LittleEndian.Uint64(data)
		body := data[9:]
		switch data[8] {
		case 1:
			if len(body) > 9 {
				if n, err := strconv.Atoi(string(body[9:])); err == nil {
					return id, n
				}
			}
		case 4, 6:
			if len(body) >= 8 {
				return id, int(binary.LittleEndian.Uint64(body))
			}
		case 0:
			for k, tc := range callers {
				if tc.step.Kind == "shutdown" && !tc.seen {
					return id, k
				}
			}
		case 8, 9: // dialSide(2)Request: session, key, token(, tcpAddr)
			if len(body) >= 16 {
				for k, tc := range callers {
					if tc.step.Kind == "sidedial" && !tc.seen {
						tc.sess = binary.LittleEndian.Uint64(body)
						tc.key = binary.LittleEndian.Uint64(body[8:])
						return id, k
					}
				}
			}
		}
		return id, -1
	}

	start := func(st Step) *tcaller {
		ctx, cancel := context.Background(), context.CancelFunc(func() {})
		if st.Ctx == "open" {
			ctx, cancel = context.WithCancel(context.Background())
		}
		tc := &tcaller{step: st, cancel: cancel, done: make(chan struct{})}
		callers[st.K] = tc
		order = append(order, st.K)
		go func(st Step) {
			defer close(tc.done)
			var err error
			switch st.Kind {
			case "hello":
				_, err = cl.Call(ctx, 1, "helloRequest",
					rpcx.ToShim([]rpcx.Field{{K: "bytes", B: rpcx.SegsOf([]byte("c" + strconv.Itoa(st.K)))}}),
					"helloResponse", 0)
			case "read":
				buf := make([]byte, 16)
				_, err = cl.Tunnel(uint64(st.K)).Read(buf)
			case "write":
				_, err = cl.Tunnel(uint64(st.K)).Write(bigPayload)
			case "closeall":
				// netutil.JoinConn's closeAll: the remote (tunnel) first,
				// then the front connection
				err = cl.Tunnel(uint64(st.K)).Close()
				tc.front.Store(true)
			case "shutdown":
				_, err = cl.Call(ctx, 0, "", nil, "", 0)
			case "sidedial":
				// endpointClient.Dial in a side mode: the call, then the wait
				// for the side connection in the mailbox
				var conn net.Conn
				conn, err = cl.Dial(ctx, "10.1.2.3:4567")
				if conn != nil {
					conn.Close()
				}
			}
			tc.res = sniproxy.VerifCallErrKind(err)
		}(st)
		return tc
	}

	ok := true
	var executed []Step // the steps that actually took place, in order
	defer func() { c.Steps = executed }()
	for _, st := range c.Steps {
		if !ok {
			break
		}
		if st.Op == "reply" {
			if tc := callers[st.K]; tc == nil || !tc.seen || severed {
				continue // nothing to answer, or no connection to send it on
			}
		}
		if st.Op == "deliver" {
			if tc := callers[st.K]; tc == nil || !tc.seen || tc.step.Kind != "sidedial" {
				continue
			}
		}
		executed = append(executed, st)
		switch st.Op {
		case "stall":
			stalled.Store(true)
		case "burst":
			// many callers at once, nobody waits for them one by one
			var started []*tcaller
			for j := 0; j < st.N; j++ {
				started = append(started, start(Step{Op: "new", K: st.K + j, Kind: st.Kind, Ctx: "never"}))
			}
			deadline := time.Now().Add(2 * time.Second)
			for time.Now().Before(deadline) {
				ndone := 0
				for _, tc := range started {
					select {
					case <-tc.done:
						ndone++
					default:
					}
				}
				if ndone == len(started) || (stalled.Load() && cl.QueuedCalls() >= 128) {
					break
				}
				time.Sleep(time.Millisecond)
			}
			if stalled.Load() {
				time.Sleep(20 * time.Millisecond) // let the rest reach asyncCall
			}
		case "new":
			q0 := cl.QueuedCalls()
			tc := start(st)
			// quiescence: the request reached the peer, or the caller
			// returned, or its call sits in the queue with nobody to take it
			deadline := time.Now().Add(waitBound)
		wait:
			for {
				select {
				case data, ok2 := <-reqs:
					if !ok2 {
						reqs = nil
						continue
					}
					id, k := identify(data)
					if k >= 0 && callers[k] != nil {
						callers[k].seen, callers[k].id = true, id
					}
					if k == st.K {
						break wait
					}
				case <-tc.done:
					break wait
				default:
					if exited() && cl.QueuedCalls() > q0 {
						break wait
					}
					if time.Now().After(deadline) {
						c.Hang = "new: the call neither reached the peer, nor returned, nor was queued"
						ok = false
						break wait
					}
					time.Sleep(100 * time.Microsecond)
				}
			}
		case "reply":
			tc := callers[st.K]
			if tc == nil || !tc.seen {
				continue
			}
			typ, resp := byte(1), "helloResponse"
			var fs []rpcx.Field
			switch tc.step.Kind {
			case "hello":
				fs = []rpcx.Field{{K: "bytes", B: rpcx.SegsOf([]byte("ok"))}}
			case "read":
				typ, resp = 4, "readResponse"
				fs = []rpcx.Field{{K: "bytes", B: rpcx.SegsOf([]byte("x"))}, {K: "err", Nil: true}}
			case "closeall":
				typ, resp = 6, "closeResponse"
				fs = []rpcx.Field{{K: "err", Nil: true}}
			case "shutdown":
				typ, resp = 0, ""
			case "sidedial":
				typ, resp = 8, "dialResponse"
				if opt.DialWithAddr {
					typ = 9
				}
				fs = []rpcx.Field{{K: "u64", U: "7"}, {K: "err", Nil: true}}
			}
			if !st.Good {
				typ, resp, fs = 5, "", nil
			}
			data, err := sniproxy.VerifEncodeReply(tc.id, typ, 0, resp, rpcx.ToShim(fs))
			if err != nil {
				panic(err)
			}
			pair.B.WriteMessage(websocket.BinaryMessage, data)
			syncN++
			marker := fmt.Sprintf("sync-%d-%d", c.I, syncN)
			pair.B.WriteMessage(websocket.TextMessage, []byte(marker))
			if tap.WaitAny("receive text: "+marker, cl.ServeDone(), waitBound) == "timeout" {
				c.Hang = "reply: reader did not get to the marker"
				ok = false
			}
		case "deliver":
			// the side websocket of dial K arrives (Server.serveBackSide)
			if tc := callers[st.K]; tc != nil && tc.seen {
				a, b := net.Pipe()
				go io.Copy(io.Discard, b)
				cl.DeliverSide(tc.sess, tc.key, a)
				select {
				case <-tc.done:
				case <-time.After(50 * time.Millisecond):
				}
			}
		case "sever":
			if !severed {
				severed = true
				rpcx.Underlying(pair.B).Close()
				select {
				case <-cl.ServeDone():
				case <-time.After(waitBound):
					c.Hang = "sever: serve did not exit"
					ok = false
				}
			}
		case "break":
			cl.BreakWrites()
		case "cancel":
			if tc := callers[st.K]; tc != nil {
				tc.cancel()
				select {
				case <-tc.done:
				case <-time.After(waitBound):
					c.Hang = "cancel: caller did not return"
					ok = false
				}
			}
		}
	}
	// the connection goes away at the latest now
	if !severed {
		executed = append(executed, Step{Op: "sever"})
		rpcx.Underlying(pair.B).Close()
	}
	select {
	case <-cl.Served():
	case <-time.After(waitBound):
		if c.Hang == "" {
			c.Hang = "teardown: serve did not return"
		}
	}
	c.ServeDone = exited()
	end := time.Now().Add(waitBound)
	for _, k := range order {
		tc := callers[k]
		select {
		case <-tc.done:
			tc.returned = true
		case <-time.After(time.Until(end)):
		}
	}
	// is a goroutine still inside the reader?
	left := waitCount(readerFrames, nil, readerBase, waitBound)
	c.ReaderAlive = len(left) > readerBase
	for _, k := range order {
		tc := callers[k]
		o := CallerObs{K: k, Kind: tc.step.Kind, Ctx: tc.step.Ctx, Returned: tc.returned, Front: tc.front.Load()}
		if tc.returned {
			o.Res = tc.res
		}
		c.Callers = append(c.Callers, o)
		tc.cancel()
	}
}

// ---- end-to-end scenarios ----------------------------------------------------------

var tlsCfg *httpstest.TLSConfigs

// EPObs is one endpoint-side (or, for "dial", server-side) goroutine.
type EPObs struct {
	Kind     string `json:"kind"` // accept | close | dial
	T        int    `json:"t"`
	Returned bool   `json:"returned"`
	Res      string `json:"res,omitempty"`
	AfterMs  int    `json:"after_ms"` // when it returned, relative to the fault / to Close returning
}

var epScenarios = []string{"accept-drop-sever", "accept-drop-kick", "accept-drop-close", "close-vs-accept",
	"sendaccept-close", "sendaccept-drain", "accept-drop-sever", "close-vs-accept"}

// runEP drives Endpoint.Accept / Close / sendAccept explicitly.
func runEP(c *Case) {
	leakBase := rpcx.Goroutines(e2eFrames, []string{"Verif"})
	var mu sync.Mutex
	var clients []*sniproxy.VerifClient
	srv := sniproxy.NewServer(&sniproxy.ServerConfig{})
	srv.VerifSetEndpointCallback(func(name string, cl *sniproxy.VerifClient) {
		mu.Lock()
		clients = append(clients, cl)
		mu.Unlock()
	})
	var backs sync.WaitGroup
	ts := httptest.NewServer(aries.Func(func(ac *aries.C) error {
		backs.Add(1)
		defer backs.Done()
		ac.User = ac.Path
		return srv.ServeBack(ac)
	}))
	defer ts.Close()
	dialEP := func() (*sniproxy.Endpoint, error) {
		return sniproxy.Dial(context.Background(), &sniproxy.StaticRouter{Host: ts.Listener.Addr().String()},
			&sniproxy.DialOption{Path: "/site", WithoutTLS: true})
	}
	ep, err := dialEP()
	if err != nil {
		c.Crash = "dial endpoint: " + err.Error()
		return
	}
	// (the server maps the name first and calls the endpoint callback a moment
	// later: wait for both)
	for t0 := time.Now(); time.Since(t0) < waitBound; time.Sleep(100 * time.Microsecond) {
		mu.Lock()
		nc := len(clients)
		mu.Unlock()
		if nc > 0 && srv.VerifLookup("/site") != nil {
			break
		}
	}
	mu.Lock()
	var first *sniproxy.VerifClient
	if len(clients) > 0 {
		first = clients[0]
	}
	mu.Unlock()
	if first == nil {
		c.Hang = "endpoint did not register"
		return
	}

	type thr struct {
		obs  EPObs
		done chan struct{}
		at   time.Time
		conn net.Conn
	}
	var threads []*thr
	spawn := func(kind string, f func() (string, net.Conn)) *thr {
		th := &thr{obs: EPObs{Kind: kind, T: len(threads)}, done: make(chan struct{})}
		threads = append(threads, th)
		go func() {
			res, conn := f()
			th.obs.Res, th.conn, th.at = res, conn, time.Now()
			close(th.done)
		}()
		return th
	}
	accept := func() *thr {
		return spawn("accept", func() (string, net.Conn) {
			conn, err := ep.Accept()
			if err != nil {
				return "err", nil
			}
			return "conn", conn
		})
	}
	dial := func() *thr {
		return spawn("dial", func() (string, net.Conn) {
			ctx, cancel := context.WithTimeout(context.Background(), 3*waitBound)
			defer cancel()
			conn, err := first.Dial(ctx, "")
			if err != nil {
				return "err", nil
			}
			return "conn", conn
		})
	}
	closer := func() *thr {
		return spawn("close", func() (string, net.Conn) {
			t0 := time.Now()
			err := ep.Close()
			c.CloseMs = int(time.Since(t0) / time.Millisecond)
			if err != nil {
				return "err:" + err.Error(), nil
			}
			return "ok", nil
		})
	}
	settle := func() { time.Sleep(20 * time.Millisecond) } // let the goroutines reach their selects

	k := c.Conns
	if k < 1 {
		k = 1
	}
	ref := time.Now() // observations are timed from the fault
	var ep2 *sniproxy.Endpoint
	switch c.Fault {
	case "accept-drop-sever", "accept-drop-kick", "accept-drop-close":
		for j := 0; j < k; j++ {
			accept()
		}
		settle()
		ref = time.Now()
		switch c.Fault {
		case "accept-drop-sever":
			first.Sever()
		case "accept-drop-kick":
			ep2, _ = dialEP()
		case "accept-drop-close":
			go first.Close()
		}
	case "close-vs-accept":
		for j := 0; j < k; j++ {
			accept()
		}
		settle()
		ref = time.Now()
		closer()
		closer()
		accept() // an Accept issued while Close is under way
	case "sendaccept-close", "sendaccept-drain":
		// nobody accepts: 10 dials fill p.incoming, two more wait in sendAccept
		var dials []*thr
		for j := 0; j < 12; j++ {
			dials = append(dials, dial())
		}
		deadline := time.Now().Add(2 * time.Second)
		for time.Now().Before(deadline) {
			n := 0
			for _, d := range dials {
				select {
				case <-d.done:
					n++
				default:
				}
			}
			if n >= 10 {
				break
			}
			time.Sleep(time.Millisecond)
		}
		settle()
		if c.Fault == "sendaccept-close" {
			cl := closer()
			select {
			case <-cl.done:
			case <-time.After(waitBound):
			}
			ref = time.Now() // the waiting dials are timed from the return of Close
			// p.closed must release the waiting sendAccept goroutines at once
			left := waitCount([]string{"shanhu.io/g/sniproxy.(*Endpoint).sendAccept"}, nil, 0, 3*time.Second)
			c.SendAcceptLeft = len(left)
		} else {
			ref = time.Now()
			for j := 0; j < 12; j++ {
				accept()
			}
		}
	}
	end := time.Now().Add(waitBound)
	for _, th := range threads {
		select {
		case <-th.done:
			th.obs.Returned = true
			if th.at.After(ref) {
				th.obs.AfterMs = int(th.at.Sub(ref) / time.Millisecond)
			}
		case <-time.After(time.Until(end)):
		}
		c.EP = append(c.EP, th.obs)
	}
	// teardown
	for _, th := range threads {
		if th.conn != nil {
			go th.conn.Close()
		}
	}
	go ep.Close()
	if ep2 != nil {
		go ep2.Close()
	}
	done := make(chan struct{})
	go func() { backs.Wait(); close(done) }()
	select {
	case <-done:
		c.BackReturned = true
	case <-time.After(waitBound):
	}
	left := waitCount(e2eFrames, []string{"Verif"}, len(leakBase), waitBound)
	seen := map[string]int{}
	for _, g := range leakBase {
		seen[g]++
	}
	for _, g := range left {
		if seen[g] > 0 {
			seen[g]--
		} else {
			c.Leak = append(c.Leak, g)
		}
	}
}

// ---- the accept backlog against the loss of the tunnel ---------------------------------

// genEPB: the five ways the tunnel goes away first, each with 15..40 front
// connections; afterwards seeded.
func genEPB(seed uint64, i, j int) Case {
	r := hx.NewRng(seed*6151 + uint64(j)*786433 + 5)
	c := Case{I: i, Stream: "epb", Fault: epbFaults[j%len(epbFaults)], Conns: 15 + r.Intn(26)}
	if j >= len(epbFaults) {
		c.Fault = epbFaults[r.Intn(len(epbFaults))]
		if r.Intn(4) == 0 { // the backlog is not full: nobody is parked
			c.Conns = 1 + r.Intn(10)
		}
	}
	return c
}

var epbFaults = []string{"sever-endpoint", "kick", "shutdown", "sever-server", "close-endpoint"}

const (
	frameSendAccept = "shanhu.io/g/sniproxy.(*Endpoint).sendAccept"
	// the endpoint's serve loop inside its deferred clean-up (cleanup(); callWait.Wait())
	frameServeExit = "shanhu.io/g/sniproxy.(*endpointServer).serve.func1"
	epBacklog      = 10 // cap(Endpoint.incoming)
)

// countFrame counts the goroutines whose innermost sniproxy frame is fn.
func countFrame(fn string) int {
	n := 0
	for _, g := range rpcx.Goroutines([]string{"shanhu.io/g/sniproxy"}, []string{"Verif"}) {
		if g == fn {
			n++
		}
	}
	return n
}

// closedBy reports whether ch is closed, waiting until end at the latest.
func closedBy(ch <-chan struct{}, end time.Time) bool {
	select {
	case <-ch:
		return true
	default:
	}
	d := time.Until(end)
	if d <= 0 {
		return false
	}
	select {
	case <-ch:
		return true
	case <-time.After(d):
		return false
	}
}

// accepted is one connection Accept handed to the application, which at once
// starts to read from it; after that Read has returned it reads once more and
// writes.
type accepted struct {
	conn      net.Conn
	readDone  chan struct{}
	laterDone chan struct{}
}

// runEPB: nobody accepts while c.Conns front connections arrive; the control
// connection goes away; the application then runs an ordinary accept loop.
func runEPB(c *Case) {
	leakBase := rpcx.Goroutines(e2eFrames, []string{"Verif"})
	parkedBase, exitBase := countFrame(frameSendAccept), countFrame(frameServeExit)
	side := c.Mode != ""
	// stalled: a side mode with an application-supplied websocket dialer (no
	// handshake time-out of its own) whose side dials reach a listener that
	// accepts the TCP connection and never answers the upgrade
	stalled := c.Mode == "siding-stalled"
	var hole net.Listener
	var holeMu sync.Mutex
	var holeConns []net.Conn
	var dials atomic.Int32
	if stalled {
		var err error
		hole, err = net.Listen("tcp", "127.0.0.1:0")
		if err != nil {
			c.Crash = "listen: " + err.Error()
			return
		}
		go func() {
			for {
				hc, err := hole.Accept()
				if err != nil {
					return
				}
				holeMu.Lock()
				holeConns = append(holeConns, hc)
				holeMu.Unlock()
			}
		}()
		defer func() {
			hole.Close()
			holeMu.Lock()
			for _, hc := range holeConns {
				hc.Close()
			}
			holeMu.Unlock()
		}()
	}
	var mu sync.Mutex
	var clients []*sniproxy.VerifClient
	srv := sniproxy.NewServer(&sniproxy.ServerConfig{
		Lookup: func(domain string) (*sniproxy.Dest, error) {
			if domain == "site.com" {
				return &sniproxy.Dest{Name: "/site"}, nil
			}
			return nil, fmt.Errorf("bad domain %q", domain)
		},
	})
	srv.VerifSetEndpointCallback(func(name string, cl *sniproxy.VerifClient) {
		mu.Lock()
		clients = append(clients, cl)
		mu.Unlock()
	})
	var backs sync.WaitGroup
	ts := httptest.NewServer(aries.Func(func(ac *aries.C) error {
		backs.Add(1)
		defer backs.Done()
		ac.User = ac.Path
		return srv.ServeBack(ac)
	}))
	defer ts.Close()
	lis, err := net.ListenTCP("tcp", &net.TCPAddr{IP: net.IPv4(127, 0, 0, 1)})
	if err != nil {
		c.Crash = "listen: " + err.Error()
		return
	}
	defer lis.Close()
	fctx, fcancel := context.WithCancel(context.Background())
	defer fcancel()
	frontDone := make(chan struct{})
	go func() {
		srv.ServeFront(fctx, lis)
		close(frontDone)
	}()
	dialEP := func() (*sniproxy.Endpoint, error) {
		opt := &sniproxy.DialOption{Path: "/site", WithoutTLS: true}
		if side {
			opt.TunnelOptions = &sniproxy.Options{Siding: true, DialWithAddr: c.Mode == "sidingaddr"}
		}
		if stalled && dials.Load() == 0 {
			// the application's own dialer: the first connection it makes is the
			// control connection, every later one a side connection (the endpoint
			// that kicks this one later uses the default dialer)
			opt.Dialer = &websocket.Dialer{
				NetDialContext: func(ctx context.Context, network, addr string) (net.Conn, error) {
					if dials.Add(1) > 1 {
						addr = hole.Addr().String()
					}
					return (&net.Dialer{}).DialContext(ctx, network, addr)
				},
			}
		}
		return sniproxy.Dial(context.Background(), &sniproxy.StaticRouter{Host: ts.Listener.Addr().String()}, opt)
	}
	ep, err := dialEP()
	if err != nil {
		c.Crash = "dial endpoint: " + err.Error()
		return
	}
	// (the server maps the name first and calls the endpoint callback a moment
	// later: wait for both)
	for t0 := time.Now(); time.Since(t0) < waitBound; time.Sleep(100 * time.Microsecond) {
		mu.Lock()
		nc := len(clients)
		mu.Unlock()
		if nc > 0 && srv.VerifLookup("/site") != nil {
			break
		}
	}
	mu.Lock()
	var first *sniproxy.VerifClient
	if len(clients) > 0 {
		first = clients[0]
	}
	mu.Unlock()
	if first == nil {
		c.Hang = "endpoint did not register"
		return
	}

	// a burst of front connections; nobody is accepting
	n := c.Conns
	if n < 1 {
		n = 1
	}
	c.FrontsTotal = n
	var fronts []net.Conn
	closedCh := make([]chan struct{}, n)
	for j := 0; j < n; j++ {
		closedCh[j] = make(chan struct{})
		fc, err := net.DialTimeout("tcp", lis.Addr().String(), waitBound)
		if err != nil {
			c.Hang = "front dial: " + err.Error()
			close(closedCh[j])
			continue
		}
		fronts = append(fronts, fc)
		go func(j int, fc net.Conn) {
			cfg := tlsCfg.Client.Clone()
			cfg.ServerName = "site.com"
			// sends the ClientHello and waits for an answer that never comes:
			// returns when the proxy closes the connection
			tls.Client(fc, cfg).Handshake()
			close(closedCh[j])
		}(j, fc)
	}
	defer func() {
		for _, fc := range fronts {
			fc.Close()
		}
	}()
	// the backlog is full and every other dial handler waits in sendAccept
	want := n - epBacklog
	if want < 0 {
		want = 0
	}
	if stalled {
		// every dial handler is inside its side dial, waiting for the answer
		// to the upgrade request
		want = n
		for t0 := time.Now(); time.Since(t0) < waitBound; time.Sleep(time.Millisecond) {
			holeMu.Lock()
			c.Parked = len(holeConns)
			holeMu.Unlock()
			if c.Parked >= want {
				time.Sleep(5 * time.Millisecond)
				break
			}
		}
	}
	for t0 := time.Now(); !stalled && time.Since(t0) < waitBound; time.Sleep(time.Millisecond) {
		if c.Parked = countFrame(frameSendAccept) - parkedBase; c.Parked >= want {
			time.Sleep(2 * time.Millisecond)
			break
		}
	}

	// the control connection goes away
	ref := time.Now()
	mark := func() { c.Timeline = append(c.Timeline, int(time.Since(ref)/time.Millisecond)) }
	var ep2 *sniproxy.Endpoint
	closeDone := make(chan struct{})
	closeOnce := func() {
		t0 := time.Now()
		ep.Close()
		c.CloseMs = int(time.Since(t0) / time.Millisecond)
		close(closeDone)
	}
	switch c.Fault {
	case "sever-endpoint":
		ep.VerifSever()
	case "sever-server":
		first.Sever()
	case "kick":
		ep2, err = dialEP()
		if err != nil {
			c.Hang = "kick dial: " + err.Error()
		}
	case "shutdown":
		go first.Close()
	case "close-endpoint":
		// the application itself closes the endpoint while its accept loop
		// (below) is still running
		go closeOnce()
	}
	// the endpoint has noticed: its serve loop is in the deferred clean-up,
	// waiting for the dial handlers
	// (with nobody parked the clean-up has nothing to wait for and is over
	// at once: there is no window, the accept loop simply runs into the end)
	seen := 0
	for t0 := time.Now(); c.Parked > 0 && time.Since(t0) < waitBound && seen < 2; time.Sleep(time.Millisecond) {
		if countFrame(frameServeExit) > exitBase {
			seen++
		} else {
			seen = 0
		}
	}
	c.Noticed = seen >= 2
	mark()

	// the application's accept loop, until Accept fails
	var accMu sync.Mutex
	var accs []*accepted
	acceptEnd := make(chan struct{})
	go func() {
		defer close(acceptEnd)
		for {
			conn, err := ep.Accept()
			if err != nil {
				return
			}
			a := &accepted{conn: conn, readDone: make(chan struct{}), laterDone: make(chan struct{})}
			accMu.Lock()
			accs = append(accs, a)
			accMu.Unlock()
			go func() {
				buf := make([]byte, 64)
				conn.Read(buf)
				close(a.readDone)
				conn.Read(buf)
				conn.Write([]byte("late"))
				close(a.laterDone)
			}()
		}
	}()
	select {
	case <-acceptEnd:
		c.AcceptEnd = "err"
	case <-time.After(waitBound):
		c.AcceptEnd = "stuck"
	}
	mark()
	if c.Fault != "close-endpoint" {
		go closeOnce()
	}
	select {
	case <-closeDone:
	case <-time.After(waitBound):
		c.CloseStuck = true
	}
	mark()
	// observations
	obsBound := waitBound
	if side && obsBound > 5*time.Second {
		// (on a sound tree everything below takes milliseconds; a side-mode
		// scenario costs two bounds on a tree that orphans side connections)
		obsBound = 5 * time.Second
	}
	end := time.Now().Add(obsBound)
	c.FrontClosed = make([]bool, n)
	if side {
		// established side connections are websockets of their own and may
		// live on; only the front connections whose dial was in flight must
		// go: wait for those
		for time.Now().Before(end) {
			nclosed := 0
			for j := 0; j < n; j++ {
				select {
				case <-closedCh[j]:
					nclosed++
				default:
				}
			}
			if nclosed >= want {
				break
			}
			time.Sleep(time.Millisecond)
		}
		end = time.Now()
	}
	for j := 0; j < n; j++ {
		c.FrontClosed[j] = closedBy(closedCh[j], end)
	}
	mark()
	if cur := srv.VerifLookup("/site"); cur != nil && cur.Same(first) {
		c.RegAtFronts = true
	}
	accMu.Lock()
	mine := append([]*accepted{}, accs...)
	accMu.Unlock()
	c.Accepted = len(mine)
	if side {
		// the established side connections live as long as their front
		// connections: the clients hang up now, so that every connection the
		// application holds has to end -- those whose front connection the
		// proxy has closed already because the server closes them, the others
		// because their front connection is gone
		for _, fc := range fronts {
			fc.Close()
		}
	}
	end = time.Now().Add(obsBound)
	for j, a := range mine {
		if !closedBy(a.readDone, end) {
			c.ReadStuck = append(c.ReadStuck, j)
		} else if !closedBy(a.laterDone, end) {
			c.LaterStuck = append(c.LaterStuck, j)
		}
	}
	mark()
	for end = time.Now().Add(waitBound); time.Now().Before(end); time.Sleep(time.Millisecond) {
		cur := srv.VerifLookup("/site")
		if cur == nil || !cur.Same(first) {
			c.Unregistered = true
			break
		}
	}

	// teardown: release whatever is still blocked, then serving must end
	for _, a := range mine {
		a.conn.Close()
	}
	for _, fc := range fronts {
		fc.Close()
	}
	if ep2 != nil {
		go ep2.Close()
	}
	fcancel()
	end = time.Now().Add(obsBound)
	select {
	case <-frontDone:
		c.FrontReturned = true
	case <-time.After(time.Until(end)):
	}
	done := make(chan struct{})
	go func() { backs.Wait(); close(done) }()
	select {
	case <-done:
		c.BackReturned = true
	case <-time.After(time.Until(end)):
	}
	left := waitCount(e2eFrames, []string{"Verif"}, len(leakBase), time.Until(end))
	seenG := map[string]int{}
	for _, g := range leakBase {
		seenG[g]++
	}
	for _, g := range left {
		if seenG[g] > 0 {
			seenG[g]--
		} else {
			c.Leak = append(c.Leak, g)
		}
	}
}

// relay is a TCP relay that can be frozen: it then drops every byte in both
// directions but keeps both sockets open (a black-holed network path: no
// FIN, no RST, no data).
type relay struct {
	lis    net.Listener
	target string
	frozen atomic.Bool
	frozenDown atomic.Bool // only the direction target -> client (server -> endpoint) is dark
	mu     sync.Mutex
	conns  []net.Conn
}

func newRelay(target string) (*relay, error) {
	lis, err := net.Listen("tcp", "127.0.0.1:0")
	if err != nil {
		return nil, err
	}
	r := &relay{lis: lis, target: target}
	go func() {
		for {
			a, err := lis.Accept()
			if err != nil {
				return
			}
			b, err := net.Dial("tcp", target)
			if err != nil {
				a.Close()
				continue
			}
			r.mu.Lock()
			r.conns = append(r.conns, a, b)
			r.mu.Unlock()
			pipe := func(dst, src net.Conn, down bool) {
				buf := make([]byte, 32*1024)
				dark := func() bool { return r.frozen.Load() || (down && r.frozenDown.Load()) }
				for {
					n, err := src.Read(buf)
					if n > 0 && !dark() {
						dst.Write(buf[:n])
					}
					if err != nil {
						if !dark() {
							dst.Close()
						}
						return
					}
				}
			}
			go pipe(a, b, true)
			go pipe(b, a, false)
		}
	}()
	return r, nil
}

func (r *relay) addr() string { return r.lis.Addr().String() }

func (r *relay) close() {
	r.lis.Close()
	r.mu.Lock()
	for _, c := range r.conns {
		c.Close()
	}
	r.mu.Unlock()
}

var e2eFrames = []string{"shanhu.io/g/sniproxy", "shanhu.io/g/netutil"}

func runE2E(c *Case) {
	side := strings.HasPrefix(c.Fault, "side-")
	leakBase := rpcx.Goroutines(e2eFrames, []string{"Verif"})
	var mu sync.Mutex
	var clients []*sniproxy.VerifClient
	var held atomic.Bool
	release := make(chan struct{})
	atServed := make(chan struct{}, 16)
	srv := sniproxy.NewServer(&sniproxy.ServerConfig{
		Lookup: func(domain string) (*sniproxy.Dest, error) {
			if domain == "site.com" {
				return &sniproxy.Dest{Name: "/site"}, nil
			}
			return nil, fmt.Errorf("bad domain %q", domain)
		},
	})
	srv.VerifSetEndpointCallback(func(name string, cl *sniproxy.VerifClient) {
		mu.Lock()
		clients = append(clients, cl)
		mu.Unlock()
	})
	var sideArmed atomic.Bool
	atSide := make(chan struct{}, 4)
	releaseSide := make(chan struct{})
	sniproxy.VerifHook = func(point, name string, cl *sniproxy.VerifClient) {
		if point == "side" && sideArmed.CompareAndSwap(true, false) {
			// hold the side websocket's handler before it looks the name up
			atSide <- struct{}{}
			<-releaseSide
			return
		}
		if point != "served" {
			return
		}
		mu.Lock()
		first := len(clients) > 0 && clients[0].Same(cl)
		mu.Unlock()
		if first && c.Hold && !blackholed(c.Fault) && c.Fault != "proto-error" && !side &&
			held.CompareAndSwap(false, true) {
			atServed <- struct{}{}
			<-release
		}
	}
	defer func() { sniproxy.VerifHook = nil }()

	var backs sync.WaitGroup
	backDone := make(chan struct{})
	ts := httptest.NewServer(aries.Func(func(ac *aries.C) error {
		backs.Add(1)
		defer backs.Done()
		ac.User = ac.Path
		return srv.ServeBack(ac)
	}))
	defer ts.Close()

	lis, err := net.ListenTCP("tcp", &net.TCPAddr{IP: net.IPv4(127, 0, 0, 1)})
	if err != nil {
		c.Crash = "listen: " + err.Error()
		return
	}
	defer lis.Close()
	fctx, fcancel := context.WithCancel(context.Background())
	frontDone := make(chan struct{})
	go func() {
		srv.ServeFront(fctx, lis)
		close(frontDone)
	}()

	dialVia := func(host string) (*sniproxy.Endpoint, error) {
		opt := &sniproxy.DialOption{Path: "/site", WithoutTLS: true}
		if side { // side mode: every front connection gets its own websocket
			opt.TunnelOptions = &sniproxy.Options{Siding: true, DialWithAddr: c.I%2 == 0}
		}
		return sniproxy.Dial(context.Background(), &sniproxy.StaticRouter{Host: host}, opt)
	}
	dialEP := func() (*sniproxy.Endpoint, error) { return dialVia(ts.Listener.Addr().String()) }
	serveEcho := func(ep *sniproxy.Endpoint) {
		for {
			conn, err := ep.Accept()
			if err != nil {
				return
			}
			go func(conn net.Conn) {
				defer conn.Close()
				tc := tls.Server(conn, tlsCfg.Server)
				io.Copy(tc, tc)
			}(conn)
		}
	}
	var rl *relay
	firstHost := ts.Listener.Addr().String()
	if blackholed(c.Fault) {
		// the first endpoint reaches the server through a relay
		rl, err = newRelay(firstHost)
		if err != nil {
			c.Crash = "relay: " + err.Error()
			fcancel()
			return
		}
		defer rl.close()
		firstHost = rl.addr()
	}
	ep, err := dialVia(firstHost)
	if err != nil {
		c.Crash = "dial endpoint: " + err.Error()
		fcancel()
		return
	}
	ep1Accept := make(chan struct{})
	go func() {
		serveEcho(ep)
		close(ep1Accept)
	}()
	// Dial returns when the websocket handshake is done; the server maps the
	// name a moment later
	// (the server maps the name first and calls the endpoint callback a moment
	// later: wait for both)
	for t0 := time.Now(); time.Since(t0) < waitBound; time.Sleep(100 * time.Microsecond) {
		mu.Lock()
		nc := len(clients)
		mu.Unlock()
		if nc > 0 && srv.VerifLookup("/site") != nil {
			break
		}
	}

	// k tunnelled front connections, each proven live by an echo
	var fronts []*tls.Conn
	for j := 0; j < c.Conns; j++ {
		cfg := tlsCfg.Client.Clone()
		cfg.ServerName = "site.com"
		d := &net.Dialer{Timeout: waitBound}
		fc, err := tls.DialWithDialer(d, "tcp", lis.Addr().String(), cfg)
		if err != nil {
			c.Hang = "front dial: " + err.Error()
			break
		}
		fc.SetDeadline(time.Now().Add(waitBound))
		msg := []byte(fmt.Sprintf("ping-%d", j))
		buf := make([]byte, len(msg))
		if _, err := fc.Write(msg); err == nil {
			_, err = io.ReadFull(fc, buf)
		}
		if err != nil || string(buf) != string(msg) {
			c.Hang = fmt.Sprintf("front echo failed: %v", err)
			fc.Close()
			break
		}
		fc.SetDeadline(time.Time{})
		fronts = append(fronts, fc)
	}
	c.FrontClosed = make([]bool, len(fronts))
	closedCh := make([]chan struct{}, len(fronts))
	for j, fc := range fronts {
		closedCh[j] = make(chan struct{})
		go func(j int, fc *tls.Conn) {
			// blocks until the proxy closes the front connection
			buf := make([]byte, 64)
			for {
				if _, err := fc.Read(buf); err != nil {
					close(closedCh[j])
					return
				}
			}
		}(j, fc)
	}
	mu.Lock()
	var first *sniproxy.VerifClient
	if len(clients) > 0 {
		first = clients[0]
	}
	mu.Unlock()

	// the fault
	var ep2 *sniproxy.Endpoint
	if c.Hang == "" && first != nil {
		switch c.Fault {
		case "side-kick-middial":
			// a front connection starts dialling; its side websocket is held in
			// the server before the name is looked up; the endpoint is kicked
			// meanwhile
			sideArmed.Store(true)
			midDone := make(chan string, 1)
			go func() {
				cfg := tlsCfg.Client.Clone()
				cfg.ServerName = "site.com"
				d := &net.Dialer{Timeout: waitBound}
				fc, err := tls.DialWithDialer(d, "tcp", lis.Addr().String(), cfg)
				if err != nil {
					midDone <- "failed"
					return
				}
				fc.Close()
				midDone <- "connected"
			}()
			select {
			case <-atSide:
			case <-time.After(waitBound):
				c.Hang = "side websocket did not reach the server"
			}
			ep2, err = dialEP()
			if err != nil {
				c.Hang = "kick dial: " + err.Error()
			} else {
				go serveEcho(ep2)
				for t0 := time.Now(); time.Since(t0) < waitBound; time.Sleep(200 * time.Microsecond) {
					if cur := srv.VerifLookup("/site"); cur != nil && !cur.Same(first) {
						break
					}
				}
			}
			close(releaseSide)
			select {
			case c.MidDial = <-midDone:
			case <-time.After(waitBound + 2*time.Second):
				c.MidDial = "stuck"
			}
		case "side-loss-endpoint":
			ep.VerifSever()
		case "side-loss-server":
			first.Sever()
		case "sever-endpoint":
			ep.VerifSever()
		case "sever-server":
			first.Sever()
		case "close-endpoint":
			go ep.Close()
		case "proto-error":
			// the server sends a message of a type the endpoint does not know;
			// the endpoint answers with a non-zero error byte and the server's
			// serve loop ends although the websocket is healthy
			go func() {
				ctx, cancel := context.WithTimeout(context.Background(), waitBound)
				defer cancel()
				first.Call(ctx, 0x7f, "", nil, "", 0)
			}()
		case "hint-blackhole-kick", "hint-blackhole-shutdown":
			// the endpoint starts a graceful close: its shutdown hint reaches the
			// server, but the server's shutdown request never reaches the endpoint
			// (that direction is dark already); then the path goes dark altogether;
			// then the endpoint is kicked by a newer one, resp. the server closes it
			rl.frozenDown.Store(true)
			go ep.Close()
			for t0 := time.Now(); ; time.Sleep(time.Millisecond) {
				ctx, cancel := context.WithTimeout(context.Background(), 50*time.Millisecond)
				_, err := first.Hello(ctx, "probe")
				cancel()
				if sniproxy.VerifCallErrKind(err) == "alreadyshutdown" {
					break // the hint has been handled: the transport refuses new calls
				}
				if time.Since(t0) > waitBound {
					c.Hang = "the shutdown hint did not reach the server"
					break
				}
			}
			rl.frozen.Store(true)
			if c.Fault == "hint-blackhole-shutdown" {
				go first.Close()
			} else {
				ep2, err = dialEP()
				if err != nil {
					c.Hang = "kick dial: " + err.Error()
				} else {
					go serveEcho(ep2)
				}
			}
		case "kick", "kick-blackholed":
			if rl != nil {
				rl.frozen.Store(true) // the old path goes dark: no data, no FIN
			}
			ep2, err = dialEP()
			if err != nil {
				c.Hang = "kick dial: " + err.Error()
			} else {
				go serveEcho(ep2)
			}
		}
		if c.Hold && !blackholed(c.Fault) && c.Fault != "proto-error" && !side {
			select {
			case <-atServed:
				// hold the server's connection thread before its deferred
				// unmap/Close until the tunnelled connections have reacted:
				// their close calls are queued, or they are already closed
				deadline := time.Now().Add(3 * time.Second)
				for time.Now().Before(deadline) {
					nclosed := 0
					for j := range fronts {
						select {
						case <-closedCh[j]:
							nclosed++
						default:
						}
					}
					if nclosed == len(fronts) || first.QueuedCalls() >= len(fronts)-nclosed && first.QueuedCalls() > 0 {
						break
					}
					time.Sleep(200 * time.Microsecond)
				}
				c.Queued = first.QueuedCalls()
				close(release)
			case <-time.After(waitBound):
				c.Hang = "the server's connection thread did not stop serving"
				close(release)
			}
		}
	} else {
		close(release)
	}

	// observations
	end := time.Now().Add(waitBound)
	if side {
		// side connections are websockets of their own: they are not
		// multiplexed over the control connection and may live on
		end = time.Now().Add(100 * time.Millisecond)
	}
	for j := range fronts {
		select {
		case <-closedCh[j]:
			c.FrontClosed[j] = true
		case <-time.After(time.Until(end)):
		}
	}
	for end = time.Now().Add(waitBound); time.Now().Before(end); {
		cur := srv.VerifLookup("/site")
		if cur == nil || (first != nil && !cur.Same(first)) {
			c.Unregistered = true
			break
		}
		time.Sleep(time.Millisecond)
	}
	// endpoint side: Accept returns once the tunnel is gone (a black-holed
	// endpoint cannot know: not observed there)
	if !blackholed(c.Fault) {
		select {
		case <-ep1Accept:
			c.AcceptReturned = true
		case <-time.After(waitBound):
		}
	} else {
		c.AcceptReturned = true
	}
	// everything is shut down; serving must be able to terminate
	for _, fc := range fronts {
		fc.Close()
	}
	if rl != nil {
		ep.VerifSever() // (a black-holed endpoint would wait 5 s for a graceful close)
	}
	go ep.Close()
	if ep2 != nil {
		go ep2.Close()
	}
	fcancel()
	select {
	case <-frontDone:
		c.FrontReturned = true
	case <-time.After(waitBound):
	}
	go func() { backs.Wait(); close(backDone) }()
	select {
	case <-backDone:
		c.BackReturned = true
	case <-time.After(waitBound):
	}
	left := waitCount(e2eFrames, []string{"Verif"}, len(leakBase), waitBound)
	// report what is new relative to the start of this scenario
	seen := map[string]int{}
	for _, g := range leakBase {
		seen[g]++
	}
	for _, g := range left {
		if seen[g] > 0 {
			seen[g]--
		} else {
			c.Leak = append(c.Leak, g)
		}
	}
}

// strandKinds names what a case left waiting until an observation bound.
func strandKinds(c *Case) string {
	var ks []string
	add := func(b bool, k string) {
		if b {
			ks = append(ks, k)
		}
	}
	if c.Hang != "" {
		ks = append(ks, "hang:"+strings.SplitN(c.Hang, ":", 2)[0])
	}
	if c.Stream == "tl" {
		stranded := false
		for _, x := range c.Callers {
			if !x.Returned {
				stranded = true
			}
		}
		add(stranded, "caller")
		add(c.ReaderAlive, "reader")
		return strings.Join(ks, ",")
	}
	if c.Crash != "" {
		return ""
	}
	if c.Stream == "epb" {
		add(c.AcceptEnd == "stuck", "accept")
		add(c.CloseStuck, "close")
		add(len(c.ReadStuck) > 0, "read")
		add(len(c.LaterStuck) > 0, "later")
		add(!c.FrontReturned, "servefront")
		add(!c.BackReturned, "serveback")
		add(len(c.Leak) > 0, "leak")
		return strings.Join(ks, ",")
	}
	if c.Stream == "ep" {
		for _, x := range c.EP {
			add(!x.Returned, x.Kind)
		}
		add(len(c.Leak) > 0, "leak")
		return strings.Join(ks, ",")
	}
	for _, f := range c.FrontClosed {
		if !f && !strings.HasPrefix(c.Fault, "side-") {
			add(true, "front")
			break
		}
	}
	add(c.MidDial == "stuck", "middial")
	add(!c.Unregistered, "registered")
	add(!c.FrontReturned, "servefront")
	add(!c.BackReturned, "serveback")
	add(!c.AcceptReturned, "accept")
	add(len(c.Leak) > 0, "leak")
	return strings.Join(ks, ",")
}

func loadScript(path string) []Case {
	bs, err := os.ReadFile(path)
	if err != nil {
		fmt.Fprintln(os.Stderr, err)
		os.Exit(2)
	}
	var cs []Case
	if err := json.Unmarshal(bs, &cs); err != nil {
		fmt.Fprintln(os.Stderr, err)
		os.Exit(2)
	}
	return cs
}

func main() {
	seed := flag.Uint64("seed", 1, "seed")
	n := flag.Int("n", 120, "transport-level scenarios")
	ne := flag.Int("e2e", 16, "end-to-end scenarios")
	nep := flag.Int("ep", 8, "endpoint-side scenarios")
	nepb := flag.Int("epb", 5, "accept-backlog scenarios")
	bound := flag.Int("bound", 10, "observation bound in seconds")
	script := flag.String("script", "", "JSON file with a list of cases to run instead")
	child := flag.Bool("child", false, "child mode")
	from := flag.Int("from", 0, "first case (child)")
	mem := flag.Uint64("mem", 4<<30, "address-space limit of the child")
	budget := flag.Int("budget", 0, "wall-clock budget of the whole run in seconds (0: none): cases not started by then are skipped")
	deadline := flag.Int64("deadline", 0, "(child) unix time after which no further case is started")
	flag.Parse()
	if *budget > 0 && *deadline == 0 {
		*deadline = time.Now().Unix() + int64(*budget)
	}
	waitBound = time.Duration(*bound) * time.Second
	var scripted []Case
	if *script != "" {
		scripted = loadScript(*script)
		*n, *ne, *nep, *nepb = len(scripted), 0, 0, 0
	}
	total := *n + *ne + *nep + *nepb
	gen := func(i int) Case {
		if scripted != nil {
			x := scripted[i]
			return Case{I: i, Stream: x.Stream, Steps: x.Steps, Fault: x.Fault, Conns: x.Conns, Hold: x.Hold, Mode: x.Mode}
		}
		if i >= *n+*ne+*nep {
			return genEPB(*seed, i, i-*n-*ne-*nep)
		}
		if i < *n {
			return genTL(*seed, i)
		}
		if i >= *n+*ne {
			j := i - *n - *ne
			return Case{I: i, Stream: "ep", Fault: epScenarios[j%len(epScenarios)], Conns: 1 + (j/len(epScenarios)+j)%4}
		}
		return genE2E(*seed, i, i-*n)
	}
	out := hx.NewOut(os.Stdout)
	if *child {
		hx.LimitMemory(*mem)
		tap := rpcx.InstallLogTap()
		var err error
		tlsCfg, err = httpstest.NewTLSConfigs([]string{"site.com"})
		if err != nil {
			fmt.Fprintln(os.Stderr, "tls configs:", err)
			os.Exit(2)
		}
		// every stranded thread costs an observation bound: after three
		// cases of a stream that strand the same kinds of thread, the rest of
		// that stream is not run
		strands := map[string]int{}
		stopped := map[string]bool{}
		for i := *from; i < total; i++ {
			c := gen(i)
			if stopped[c.Stream] || (*deadline > 0 && time.Now().Unix() >= *deadline) {
				c.Skipped = true
				c.SkipBudget = !stopped[c.Stream]
				out.Emit(&c)
				continue
			}
			switch c.Stream {
			case "tl":
				runTL(&c, tap)
			case "ep":
				runEP(&c)
			case "epb":
				runEPB(&c)
			default:
				runE2E(&c)
			}
			if k := strandKinds(&c); k != "" {
				strands[c.Stream+":"+k]++
				if strands[c.Stream+":"+k] >= 3 {
					stopped[c.Stream] = true
				}
			}
			out.Emit(&c)
		}
		return
	}
	args := []string{"-seed", strconv.FormatUint(*seed, 10), "-n", strconv.Itoa(*n), "-e2e", strconv.Itoa(*ne),
		"-bound", strconv.Itoa(*bound), "-ep", strconv.Itoa(*nep), "-epb", strconv.Itoa(*nepb),
		"-deadline", strconv.FormatInt(*deadline, 10)}
	if *script != "" {
		args = append(args, "-script", *script)
	}
	err := hx.RunIsolated(total, args, *mem,
		func(i int, raw []byte) { os.Stdout.Write(append(raw, '\n')) },
		func(i int, why string) {
			c := gen(i)
			c.Crash = "fatal: " + why
			out.Emit(&c)
		})
	if err != nil {
		fmt.Fprintln(os.Stderr, err)
		os.Exit(2)
	}
}
