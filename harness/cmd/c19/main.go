// Command c19 runs shanhu.io/g/dags of /repo on generated directed graphs and
// prints what it observed, one JSON line per case.  Names of a case are
// reported as ranks in the sorted order of the case's name universe, so that
// string order on names is numeric order on ids.
//
// Usage-pattern audit (round 3): exported API of shanhu.io/g/dags, its state,
// and which stream uses it how.
//
//  API / callback / state              | shapes                                      | exercised by
//  ------------------------------------+---------------------------------------------+---------------------------------------------
//  NewGraph(nodes)                     | empty map, isolated nodes, disconnected,    | corpus-*, small-dangling (all graphs <= 3 nodes
//                                      | self loops, duplicate / unsorted entries,   | + one non-node name), all-4-nodes (65 536),
//                                      | dangling targets; nil map NOT exercised     | dag-sparse/dense/layered, cyclic-*, malformed
//  CheckDAG / NewMap / TopoSort        | ok / missing / circle; the three must agree | every case ("agree"); one process runs thousands
//   state: Map (per call), nhit/layer  |                                             | of graphs in a row (per-process state would show)
//   scratch fields in MapNode          |                                             |
//  Graph.Reverse (twice)               | dangling names become nodes; lists sorted   | every case (r2)
//  ONE *Graph across calls, Nodes      | Reverse / RevLayout / Reverse.Reverse, then | ops "gseq" [new]: R T V with a (add edge) d (drop
//   edited by the caller in between    | the caller edits g.Nodes or the graph that  | edge) n (add node) E (scribble on the returned
//   (state: only Nodes, per Graph)     | Reverse returned, then the calls again      | graph) in between; every result against the CURRENT content
//  Graph.Remove(node)                  | node, non-node name, dangling name          | ops (every general-family graph <= 40 nodes) [new]
//  Graph.SubGraph(f)                   | f: accepts none / some / all / names that   | ops [new]; f is a pure set test; calls counted
//                                      | are no nodes                                |
//  Graph.Rename(f)                     | f returns name / ("", err) / (name, err) /  | ops [new]; non-injective: weak oracle only (which
//                                      | two nodes one name; dangling target         | list survives depends on map order)
//  Closure(m, names)                   | one / several / no names, an unknown name   | ops [new]; called on a Map that has been laid out
//                                      | (panic); on a Map already laid out          | twice and reversed twice
//  LayoutMap(m)                        | fresh Map; the SAME Map a second time       | every accepted case; ops "re" [new]
//   state: layer/x/y in MapNode        | (layers already pushed, x/y set); a Map     | ops "seq" [new]: call sequences on ONE Map object
//   (per Map, survives the call)       | that was REVERSED before; the Map returned  | N|Y|V then R/L/S (NRL, NLRL, YRL, VL, VRL, NRLRL, ...),
//                                      | by Layout / RevLayout                       | every layout checked w.r.t. the map's orientation
//                                      |                                             | at that moment, and against layout_from in Coq
//  Map.Reverse (twice), RevLayout      | after LayoutMap; before LayoutMap           | every accepted case (maprev2, revbad); ops "seq"
//  Map.SortedLayers / SortedNodes      | before LayoutMap (after: pushed layers,     | every accepted case (layers, topo)
//                                      | NOT compared)                               |
//  AllInsSorted(node)                  | before LayoutMap                            | ops "ais" [new] (oracle only)
//  LayoutJSON / Output / marshalMap    | DisplayName empty                           | ops "jsonbad" [new]; AssignDisplayName, RevLayoutJSON,
//                                      |                                             | NewRepo: NOT exercised (presentation only)
//  internal numbers vs graph sizes     | one layer with w nodes preferring one row:  | wide-isolated / wide-star / wide-fan-in [new]: w on
//                                      | w isolated, root with w children, w sources | both sides of every integer the package names (the
//                                      | into one sink                               | translator lists them), else 4097 and 5000 (70 000
//                                      |                                             | in thorough); oracle only (model: <= 100 nodes)
//  thresholds in the anchored files    | nhit == len(Ins); layer == Nlayer-1;        | all sides by all-4-nodes + random (push needs >= 6
//                                      | out.layer > layer+1; tak[y-2], tak[y+2];    | nodes: dag-layered, corpus-push-paths)
//                                      | offset loop in findY; (sum+n/2)/n rounding  |
//  concurrency / per-process state     | the package has no package-level variable;  | conc [new]: 8 goroutines, each checking ONLY its own
//                                      | two goroutines, each with its OWN graph     | graphs (rings of ~200 nodes, rings with a chord, a DAG
//                                      |                                             | laid out both ways) at once, also under -race (C19-j)
package main

import (
	"bufio"
	"encoding/json"
	"flag"
	"fmt"
	"os"
	"sort"
	"strconv"
	"strings"
	"sync"
	"time"

	"shanhu.io/g/dags"
	"verifharness/hx"
)

type NodeObs struct {
	Name int   `json:"k"`
	Ins  []int `json:"ins"`
	Outs []int `json:"outs"`
	AI   []int `json:"ai"`
	AO   []int `json:"ao"`
	CI   []int `json:"ci"`
	CO   []int `json:"co"`
	VCI  []int `json:"vci"`
	VCO  []int `json:"vco"`
	X    int   `json:"x"`
	Y    int   `json:"y"`
}

type Entry struct {
	K   int   `json:"k"`
	Adj []int `json:"adj"`
}

type Obs struct {
	V       string    `json:"v"`           // ok | missing | circle | other | crash
	Msg     string    `json:"msg,omitempty"`
	Circle  []int     `json:"c,omitempty"` // the reported cycle (ids; -1: not a name of the case)
	CLen2   int       `json:"c2,omitempty"` // length of the cycle NewMap reported
	Agree   bool      `json:"agree"`       // CheckDAG, NewMap, TopoSort give the same class
	Nedge   int       `json:"nedge"`
	Ncrit   int       `json:"ncrit"`
	Nlayer  int       `json:"nlayer"`
	Layers  [][]int   `json:"layers,omitempty"`
	Topo    []int     `json:"topo,omitempty"`
	Nodes   []NodeObs `json:"nodes,omitempty"`
	W       int       `json:"w"`
	H       int       `json:"h"`
	R2Same  bool      `json:"r2same"`         // Reverse().Reverse() has the keys and lists of the input
	R2      []Entry   `json:"r2,omitempty"`   // given when not the same
	R2Names []string  `json:"r2names,omitempty"` // names Reverse introduced beyond the universe (never expected)
	MapRev2 bool      `json:"maprev2"`        // Map.Reverse twice restores every exported set
	RevBad  string    `json:"revbad,omitempty"` // what is wrong with RevLayout(g), if anything
	Crash   string    `json:"crash,omitempty"`
	Ops     *OpsObs   `json:"ops,omitempty"`
}

// OpsIn are the parameters of the derived-graph entry points run on a case
// (round 3): Graph.Remove / SubGraph / Rename, Closure, a second LayoutMap on
// the same Map, AllInsSorted, LayoutJSON.
type OpsIn struct {
	Rm      int   `json:"rm"`            // id of the node to remove (may be a name that is no node)
	Sub     []int `json:"sub"`           // ids the SubGraph filter accepts (may name non-nodes)
	Ren     []int `json:"ren"`           // Rename: new id per key position (ids of a second universe r000..)
	RenErr  int   `json:"renerr"`        // key position whose callback returns an error, -1 none
	ErrName bool  `json:"errname"`       // ... together with a non-empty name
	Inj     bool  `json:"inj"`           // Ren is injective
	Clo     []int `json:"clo"`           // Closure(m, names of these ids)
	AisOf   int   `json:"aisof"`         // AllInsSorted of this key position
	GSeq    string `json:"gseq,omitempty"` // calls on ONE *Graph whose Nodes the caller edits in between: R Reverse, T Reverse.Reverse, V RevLayout, a add an edge, d drop an edge, n add a node, E edit the graph Reverse returned
	Seq     string `json:"seq,omitempty"` // calls on ONE Map object: N NewMap | Y Layout | V RevLayout (first), then R Map.Reverse, L LayoutMap, S SortedLayers
}

// SeqObs is what one step of a call sequence on one Map object showed.
type SeqObs struct {
	Op     string    `json:"op"`               // Y V L S R
	Flip   bool      `json:"flip"`             // the Map is currently reversed w.r.t. the graph of the case
	Nodes  []NodeObs `json:"nodes,omitempty"`  // L, Y, V: x, y per node
	WH     [2]int    `json:"wh"`
	Layers [][]int   `json:"layers,omitempty"` // S
	Bad    string    `json:"bad,omitempty"`    // panic text
}

type GObs struct {
	G  []Entry `json:"g"`           // the derived graph, keys sorted
	V  string  `json:"v"`           // CheckDAG of it: ok | missing | circle | other
	E  string  `json:"e,omitempty"` // Rename: "" | ferr | missing | other
	Nl bool    `json:"nil,omitempty"`
}

// GStep is one step of a sequence on one *Graph, with the graph's content at that moment.
type GStep struct {
	Op   string  `json:"op"`
	Cur  []Entry `json:"cur"`            // g.Nodes as the caller holds it now
	Got  []Entry `json:"got,omitempty"`  // R, T: the graph that came back
	V    string  `json:"v,omitempty"`    // V: ok | missing | circle | other
	Bad  string  `json:"bad,omitempty"`  // V: what is wrong with the layout w.r.t. the CURRENT content
	Same bool    `json:"same"`           // the call left g.Nodes as it was
}

type OpsObs struct {
	Rm      *GObs     `json:"rm"`
	Sub     *GObs     `json:"sub"`
	Ren     *GObs     `json:"ren"`
	Calls   int       `json:"calls"`             // how often the SubGraph filter was called
	InSame  bool      `json:"insame"`            // the input graph is unchanged after all of it
	CloBad  string    `json:"clobad,omitempty"`  // "panic: ..." from Closure
	Clo     []NodeObs `json:"clo,omitempty"`     // Closure(m, ...) node sets (x, y unused)
	CloN    [3]int    `json:"clon"`              // its Nedge, Ncrit, Nlayer
	Ais     []int     `json:"ais"`               // AllInsSorted
	Re      []NodeObs `json:"re,omitempty"`      // second LayoutMap on the same Map: x, y (sets unused)
	ReWH    [2]int    `json:"rewh"`
	ReSets  bool      `json:"resets"`            // the node sets survived the second layout
	JSONBad string    `json:"jsonbad,omitempty"` // LayoutJSON differs from the view
	Seq     []SeqObs  `json:"seq,omitempty"`     // the call sequence on one Map object
	GSeq    []GStep   `json:"gseq,omitempty"`    // the call sequence on one *Graph
}

type Case struct {
	Ops    *OpsIn   `json:"ops,omitempty"`
	I      int      `json:"i"`
	Stream string   `json:"s"`
	Fam    string   `json:"f"`              // "m": mask family, "g": general family
	N      int      `json:"n,omitempty"`    // mask family: nodes 0..n-1, bit i*n+j = edge i->j
	Mask   uint64   `json:"mask,omitempty"`
	Names  []string `json:"names,omitempty"` // general family: universe in sorted order
	Keys   []int    `json:"keys,omitempty"`
	Adj    [][]int  `json:"adj,omitempty"`
	Obs    *Obs     `json:"obs,omitempty"`
}

var letters = []string{"a", "b", "c", "d", "e", "f"}

func (c *Case) universe() []string {
	if c.Fam == "m" {
		return letters[:c.N]
	}
	return c.Names
}

func (c *Case) graph() map[string][]string {
	g := make(map[string][]string)
	if c.Fam == "m" {
		for i := 0; i < c.N; i++ {
			var l []string
			for j := 0; j < c.N; j++ {
				if c.Mask>>(uint(i*c.N+j))&1 == 1 {
					l = append(l, letters[j])
				}
			}
			g[letters[i]] = l
		}
		return g
	}
	for p, k := range c.Keys {
		var l []string
		for _, t := range c.Adj[p] {
			l = append(l, c.Names[t])
		}
		g[c.Names[k]] = l
	}
	return g
}

// ---------------------------------------------------------------- generation

func fixedWidth(n int) []string {
	out := make([]string, n)
	for i := range out {
		out[i] = fmt.Sprintf("n%03d", i)
	}
	return out
}

// randomNames returns n distinct names in sorted order, in a random style.
func randomNames(r *hx.Rng, n int) []string {
	set := map[string]bool{}
	style := r.Intn(4)
	for len(set) < n {
		var s string
		switch style {
		case 0:
			s = fmt.Sprintf("n%03d", len(set))
		case 1:
			s = strconv.Itoa(r.Intn(10 * (n + 1))) // "10" < "9"
		case 2:
			s = "shanhu.io/g/" + string(rune('a'+r.Intn(26))) + "/" + strconv.Itoa(r.Intn(1000))
		default:
			b := make([]byte, 1+r.Intn(4))
			for i := range b {
				b[i] = "abAB01_-./"[r.Intn(10)]
			}
			s = string(b)
		}
		set[s] = true
	}
	out := make([]string, 0, n)
	for s := range set {
		out = append(out, s)
	}
	sort.Strings(out)
	return out
}

func perm(r *hx.Rng, n int) []int {
	p := make([]int, n)
	for i := range p {
		p[i] = i
	}
	for i := n - 1; i > 0; i-- {
		j := r.Intn(i + 1)
		p[i], p[j] = p[j], p[i]
	}
	return p
}

func general(stream string, names []string, adj [][]int) Case {
	keys := make([]int, len(adj))
	for i := range keys {
		keys[i] = i
	}
	for i := range adj {
		if adj[i] == nil {
			adj[i] = []int{}
		}
	}
	return Case{Stream: stream, Fam: "g", Names: names, Keys: keys, Adj: adj}
}

// blowCircle: a complete DAG on k nodes next to a ring of k+2 nodes.
func blowCircle(k int) Case {
	n := 2*k + 2
	names := make([]string, n)
	for i := 0; i < k; i++ {
		names[i] = fmt.Sprintf("a%03d", i)
	}
	for i := 0; i < k+2; i++ {
		names[k+i] = fmt.Sprintf("z%03d", i)
	}
	adj := make([][]int, n)
	for i := 0; i < k; i++ {
		for j := i + 1; j < k; j++ {
			adj[i] = append(adj[i], j)
		}
	}
	for i := 0; i < k+2; i++ {
		adj[k+i] = []int{k + (i+1)%(k+2)}
	}
	return general("corpus-circle-walks", names, adj)
}

// blowPush: a ladder of width 2 and depth k next to a chain of k+2 nodes.
func blowPush(k int) Case {
	n := 2*k + k + 2
	names := make([]string, n)
	for i := 0; i < 2*k; i++ {
		names[i] = fmt.Sprintf("a%03d", i)
	}
	for i := 0; i < k+2; i++ {
		names[2*k+i] = fmt.Sprintf("z%03d", i)
	}
	adj := make([][]int, n)
	for i := 0; i+1 < k; i++ {
		for w := 0; w < 2; w++ {
			adj[2*i+w] = []int{2 * (i + 1), 2*(i+1) + 1}
		}
	}
	for i := 0; i+1 < k+2; i++ {
		adj[2*k+i] = []int{2*k + i + 1}
	}
	return general("corpus-push-paths", names, adj)
}

func corpus() []Case {
	var cs []Case
	cs = append(cs, blowCircle(26))
	cs = append(cs, blowPush(36))
	// names that are format verbs
	cs = append(cs, general("corpus-percent-names", []string{"%d", "%s"}, [][]int{{1}, {0}}))
	cs = append(cs, general("corpus-percent-names", []string{"100%", "a%vb", "plain"}, [][]int{{1}, {2}, {0}}))
	// graphs of the package's own tests
	cs = append(cs, general("corpus-tests", []string{"1", "2", "3", "4"}, [][]int{{1}, {2}, {0, 3}, {2}}))
	cs = append(cs, general("corpus-tests", []string{"a", "b", "c", "d"}, [][]int{{1, 2, 3}, {3}, {3}, {}}))
	cs = append(cs, general("corpus-tests", []string{"a", "b", "c", "d", "e"}, [][]int{{1, 4}, {2}, {3}, {}, {3}}))
	// duplicates in a list, unsorted lists, self loop, dangling target
	cs = append(cs, general("corpus-shapes", []string{"a", "b", "c"}, [][]int{{2, 1, 1}, {2, 2}, {}}))
	cs = append(cs, general("corpus-shapes", []string{"a", "b"}, [][]int{{0}, {}}))
	c := general("corpus-shapes", []string{"a", "b", "zz"}, [][]int{{1, 2}, {}})
	c.Keys = []int{0, 1}
	cs = append(cs, c)
	cs = append(cs, general("corpus-shapes", []string{}, [][]int{}))
	// round 3: the derived-graph entry points on fixed graphs.  a->b->c->d, a->d, e isolated, b->zz dangling.
	withOps := func(c Case, in OpsIn) Case {
		if in.Sub == nil {
			in.Sub = []int{}
		}
		if in.Ren == nil {
			in.Ren = []int{}
		}
		if in.Clo == nil {
			in.Clo = []int{}
		}
		c.Ops = &in
		return c
	}
	diamond := func() Case {
		return general("corpus-ops", []string{"a", "b", "c", "d", "e"}, [][]int{{1, 3}, {2}, {3}, {}, {}})
	}
	for _, gq := range []string{"RaR", "VaV", "RaT", "REV", "RER", "VdVnV"} {
		cs = append(cs, withOps(diamond(), OpsIn{Rm: 1, Sub: []int{0, 2, 3}, Ren: []int{4, 3, 2, 1, 0}, RenErr: -1, Inj: true, Clo: []int{0, 3}, AisOf: 3, GSeq: gq}))
	}
	for _, sq := range []string{"NRL", "YRL", "VL", "NLRLRL", "VRLS"} {
		cs = append(cs, withOps(diamond(), OpsIn{Rm: 1, Sub: []int{0, 2, 3}, Ren: []int{4, 3, 2, 1, 0}, RenErr: -1, Inj: true, Clo: []int{0, 3}, AisOf: 3, Seq: sq}))
	}
	cs = append(cs, withOps(diamond(), OpsIn{Rm: 1, Sub: []int{0, 2, 3}, Ren: []int{4, 3, 2, 1, 0}, RenErr: -1, Inj: true, Clo: []int{0, 3}, AisOf: 3}))
	cs = append(cs, withOps(diamond(), OpsIn{Rm: 3, Sub: []int{}, Ren: []int{0, 1, 2, 3, 4}, RenErr: 2, ErrName: true, Inj: true, Clo: []int{1}, AisOf: 0}))
	cs = append(cs, withOps(diamond(), OpsIn{Rm: 4, Sub: []int{0, 1, 2, 3, 4}, Ren: []int{7, 7, 2, 3, 4}, RenErr: -1, Inj: false, Clo: []int{0, 2}, AisOf: 2}))
	cs = append(cs, withOps(diamond(), OpsIn{Rm: 0, Sub: []int{4}, Ren: []int{0, 1, 2, 3, 4}, RenErr: 0, ErrName: false, Inj: true, Clo: []int{4, 5}, AisOf: 4}))
	cs = append(cs, withOps(diamond(), OpsIn{Rm: 2, Sub: []int{1, 3}, Ren: []int{9, 8, 7, 6, 5}, RenErr: -1, Inj: true, Clo: []int{}, AisOf: 1}))
	{
		// dangling target zz and a cycle b->c->b: Remove keeps the dangling name, SubGraph drops it,
		// Rename reports it; removing c makes the rest acyclic
		c := general("corpus-ops", []string{"a", "b", "c", "zz"}, [][]int{{1}, {2, 3}, {1}})
		c.Keys = []int{0, 1, 2}
		cs = append(cs, withOps(c, OpsIn{Rm: 2, Sub: []int{0, 1, 3}, Ren: []int{0, 1, 2}, RenErr: -1, Inj: true, AisOf: -1}))
		c2 := general("corpus-ops", []string{"a", "b", "c", "zz"}, [][]int{{1}, {2, 3}, {1}})
		c2.Keys = []int{0, 1, 2}
		cs = append(cs, withOps(c2, OpsIn{Rm: 3, Sub: []int{0, 1, 2, 3}, Ren: []int{2, 1, 0}, RenErr: -1, Inj: true, AisOf: -1}))
	}
	return cs
}

// small: every graph on n <= 3 nodes whose lists are subsets of the n nodes
// plus one name that is not a node.
func small() []Case {
	var cs []Case
	for n := 0; n <= 3; n++ {
		u := n + 1
		names := letters[:u]
		total := uint64(1) << uint(n*u)
		for mask := uint64(0); mask < total; mask++ {
			adj := make([][]int, n)
			for i := 0; i < n; i++ {
				adj[i] = []int{}
				for j := 0; j < u; j++ {
					if mask>>uint(i*u+j)&1 == 1 {
						adj[i] = append(adj[i], j)
					}
				}
			}
			c := general("small-dangling", names, adj)
			cs = append(cs, c)
		}
	}
	return cs
}

func randomDAG(r *hx.Rng, n int, dense bool) [][]int {
	p := perm(r, n)
	adj := make([][]int, n)
	prob := 1 + r.Intn(4) // expected out-degree for sparse
	for a := 0; a < n; a++ {
		for b := a + 1; b < n; b++ {
			hit := false
			if dense {
				hit = r.Intn(100) < 20+prob*10
			} else {
				hit = r.Intn(n) < prob
			}
			if hit {
				adj[p[a]] = append(adj[p[a]], p[b])
			}
		}
	}
	return adj
}

func layeredDAG(r *hx.Rng, layers, width int) [][]int {
	var lay [][]int
	n := 0
	for i := 0; i < layers; i++ {
		w := 1 + r.Intn(width)
		var l []int
		for j := 0; j < w; j++ {
			l = append(l, n)
			n++
		}
		lay = append(lay, l)
	}
	p := perm(r, n)
	adj := make([][]int, n)
	for i := 0; i+1 < layers; i++ {
		for _, a := range lay[i] {
			for _, b := range lay[i+1] {
				if r.Intn(3) == 0 {
					adj[p[a]] = append(adj[p[a]], p[b])
				}
			}
			if i+2 < layers && r.Intn(2) == 0 {
				j := i + 2 + r.Intn(layers-i-2)
				b := lay[j][r.Intn(len(lay[j]))]
				adj[p[a]] = append(adj[p[a]], p[b])
			}
		}
	}
	return adj
}

func mess(r *hx.Rng, adj [][]int) {
	for i := range adj {
		if len(adj[i]) > 0 && r.Intn(4) == 0 {
			adj[i] = append(adj[i], adj[i][r.Intn(len(adj[i]))]) // duplicate entry
		}
		if r.Intn(2) == 0 { // shuffle
			l := adj[i]
			for k := len(l) - 1; k > 0; k-- {
				j := r.Intn(k + 1)
				l[k], l[j] = l[j], l[k]
			}
		} else {
			sort.Ints(adj[i])
		}
	}
}

func random(seed uint64, count int, big bool) []Case {
	r := hx.NewRng(seed)
	var cs []Case
	maxSparse, maxDense, maxRing := 60, 24, 40
	if big {
		maxSparse, maxDense, maxRing = 300, 60, 120
	}
	for len(cs) < count {
		kind := r.Intn(12)
		var adj [][]int
		stream := ""
		switch {
		case kind < 3:
			stream = "dag-sparse"
			adj = randomDAG(r, 2+r.Intn(maxSparse-1), false)
		case kind < 5:
			stream = "dag-dense"
			adj = randomDAG(r, 2+r.Intn(maxDense-1), true)
		case kind < 7:
			stream = "dag-layered"
			adj = layeredDAG(r, 2+r.Intn(8), 1+r.Intn(5))
		case kind < 9:
			stream = "cyclic-back-edges"
			adj = randomDAG(r, 2+r.Intn(maxDense-1), r.Bool())
			n := len(adj)
			for k := 1 + r.Intn(3); k > 0; k-- {
				a, b := r.Intn(n), r.Intn(n)
				adj[a] = append(adj[a], b)
			}
		case kind < 10:
			stream = "cyclic-rings"
			n := 3 + r.Intn(maxRing-2)
			p := perm(r, n)
			adj = make([][]int, n)
			ring := 2 + r.Intn(n-1)
			for i := 0; i < ring; i++ {
				adj[p[i]] = append(adj[p[i]], p[(i+1)%ring])
			}
			for i := ring; i < n; i++ { // a tail hanging off / feeding the ring
				if r.Bool() {
					adj[p[i]] = append(adj[p[i]], p[r.Intn(i)])
				} else {
					adj[p[r.Intn(ring)]] = append(adj[p[r.Intn(ring)]], p[i])
				}
			}
			if r.Intn(3) == 0 { // a second, maybe shorter, ring through a chord
				a, b := r.Intn(ring), r.Intn(ring)
				adj[p[a]] = append(adj[p[a]], p[b])
			}
		default:
			stream = "malformed"
			adj = randomDAG(r, 1+r.Intn(12), r.Bool())
		}
		n := len(adj)
		mess(r, adj)
		names := randomNames(r, n+1)
		drop := r.Intn(n + 1) // the universe member that is not a node
		if stream != "malformed" {
			// nodes are all names but the dropped one; ids shift over it
			names = append(append([]string{}, names[:drop]...), names[drop+1:]...)
			cs = append(cs, general(stream, names, adj))
			continue
		}
		shift := func(i int) int {
			if i >= drop {
				return i + 1
			}
			return i
		}
		keys := make([]int, n)
		for i := range keys {
			keys[i] = shift(i)
		}
		for i := range adj {
			for j := range adj[i] {
				adj[i][j] = shift(adj[i][j])
			}
			if adj[i] == nil {
				adj[i] = []int{}
			}
		}
		switch r.Intn(3) {
		case 0:
			a := r.Intn(n)
			adj[a] = append(adj[a], drop) // dangling target
		case 1:
			a := r.Intn(n)
			adj[a] = append(adj[a], keys[a]) // self loop
		default:
			a := r.Intn(n)
			adj[a] = append(adj[a], drop, keys[r.Intn(n)])
		}
		cs = append(cs, Case{Stream: stream, Fam: "g", Names: names, Keys: keys, Adj: adj})
	}
	return cs
}

// wide: one layer holding w nodes that all prefer the same row - w isolated
// nodes, one root with w children, w sources feeding one sink (the wide layer
// of RevLayout).  Layer widths on both sides of every number the package
// names (the check passes them in; seeded change C19-g: a probe bound of 4096).
func wide(widths []int) []Case {
	var cs []Case
	nm := func(n int) []string {
		out := make([]string, n)
		for i := range out {
			out[i] = fmt.Sprintf("w%06d", i)
		}
		return out
	}
	for _, w := range widths {
		if w < 1 {
			continue
		}
		iso := make([][]int, w)
		cs = append(cs, general("wide-isolated", nm(w), iso))
		star := make([][]int, w+1)
		for i := 1; i <= w; i++ {
			star[0] = append(star[0], i)
		}
		cs = append(cs, general("wide-star", nm(w+1), star))
		fan := make([][]int, w+1)
		for i := 0; i < w; i++ {
			fan[i] = []int{w}
		}
		cs = append(cs, general("wide-fan-in", nm(w+1), fan))
	}
	return cs
}

var wideWidths []int

func genCases(seed uint64, nrand int, n4 bool, big bool) []Case {
	cs := corpus()
	cs = append(cs, wide(wideWidths)...)
	cs = append(cs, small()...)
	if n4 {
		for mask := uint64(0); mask < 1<<16; mask++ {
			cs = append(cs, Case{Stream: "all-4-nodes", Fam: "m", N: 4, Mask: mask})
		}
	}
	cs = append(cs, random(seed, nrand, big)...)
	ro := hx.NewRng(seed*0x9e3779b97f4a7c15 + 0x5851f42d)
	for i := range cs {
		cs[i].I = i
		if cs[i].Ops == nil && cs[i].Fam == "g" && len(cs[i].Keys) <= 40 && !strings.HasPrefix(cs[i].Stream, "corpus-circle") &&
			!strings.HasPrefix(cs[i].Stream, "corpus-push") {
			genOps(ro, &cs[i])
		}
	}
	return cs
}

// ---------------------------------------------------------------- observation

func ids(idx map[string]int, m map[string]*dags.MapNode) []int {
	out := make([]int, 0, len(m))
	for k := range m {
		out = append(out, idx[k])
	}
	sort.Ints(out)
	return out
}

func idList(idx map[string]int, l []string) []int {
	out := make([]int, 0, len(l))
	for _, k := range l {
		out = append(out, idx[k])
	}
	return out
}

const circlePrefix = "graph has circle: "

func classify(err error, idx map[string]int) (string, []int) {
	if err == nil {
		return "ok", nil
	}
	msg := err.Error()
	if strings.HasPrefix(msg, "missing node ") {
		return "missing", nil
	}
	if strings.HasPrefix(msg, circlePrefix) {
		var c []int
		for _, nm := range strings.Split(msg[len(circlePrefix):], "->") {
			id, ok := idx[nm]
			if !ok {
				id = -1
			}
			c = append(c, id)
		}
		return "circle", c
	}
	return "other", nil
}

func snapshot(idx map[string]int, m *dags.Map) map[string][6][]int {
	out := make(map[string][6][]int)
	for k, n := range m.Nodes {
		out[k] = [6][]int{ids(idx, n.Ins), ids(idx, n.Outs), ids(idx, n.AllIns), ids(idx, n.AllOuts),
			ids(idx, n.CritIns), ids(idx, n.CritOuts)}
	}
	return out
}

func sameInts(a, b []int) bool {
	if len(a) != len(b) {
		return false
	}
	for i := range a {
		if a[i] != b[i] {
			return false
		}
	}
	return true
}

func observe(c *Case) *Obs {
	o := &Obs{}
	uni := c.universe()
	idx := make(map[string]int)
	for i, s := range uni {
		idx[s] = i
	}
	nodes := c.graph()
	g := dags.NewGraph(nodes)

	var circ []int
	o.V, circ = classify(dags.CheckDAG(g), idx)
	o.Circle = circ
	if o.V == "other" {
		o.Msg = dags.CheckDAG(g).Error()
	}
	if o.V == "circle" {
		for _, id := range circ {
			if id < 0 {
				o.Msg = dags.CheckDAG(g).Error()
			}
		}
	}

	m, err := dags.NewMap(g)
	v2, circ2 := classify(err, idx)
	o.CLen2 = len(circ2)
	_, err3 := dags.TopoSort(g)
	v3, _ := classify(err3, idx)
	o.Agree = v2 == o.V && v3 == o.V

	// Graph.Reverse twice
	r2 := g.Reverse().Reverse()
	same := len(r2.Nodes) == len(nodes)
	for k, l := range nodes {
		l2, ok := r2.Nodes[k]
		if !ok || len(l2) != len(l) {
			same = false
			break
		}
		for i := range l {
			if l[i] != l2[i] {
				same = false
			}
		}
	}
	o.R2Same = same
	if !same {
		var ks []string
		for k := range r2.Nodes {
			if _, ok := idx[k]; !ok {
				o.R2Names = append(o.R2Names, k)
				continue
			}
			ks = append(ks, k)
		}
		sort.Strings(ks)
		sort.Strings(o.R2Names)
		for _, k := range ks {
			o.R2 = append(o.R2, Entry{K: idx[k], Adj: idList(idx, r2.Nodes[k])})
		}
		if o.R2 == nil {
			o.R2 = []Entry{}
		}
	}

	if c.Ops != nil {
		o.Ops = graphOps(c, nodes, uni, idx)
	}

	if o.V != "ok" || err != nil {
		return o
	}

	o.Nedge, o.Ncrit, o.Nlayer = m.Nedge, m.Ncrit, m.Nlayer
	for _, layer := range m.SortedLayers() {
		l := []int{}
		for _, n := range layer {
			l = append(l, idx[n.Name])
		}
		o.Layers = append(o.Layers, l)
	}
	topo, _ := dags.TopoSort(g)
	o.Topo = idList(idx, topo)

	before := snapshot(idx, m)
	if c.Ops != nil && c.Ops.AisOf >= 0 && c.Ops.AisOf < len(c.Keys) {
		o.Ops.Ais = []int{}
		for _, n := range dags.AllInsSorted(m.Nodes[uni[c.Keys[c.Ops.AisOf]]]) {
			o.Ops.Ais = append(o.Ops.Ais, idx[n.Name])
		}
	}
	view := dags.LayoutMap(m)
	o.W, o.H = view.Width, view.Height
	var ks []string
	for k := range m.Nodes {
		ks = append(ks, k)
	}
	sort.Strings(ks)
	for _, k := range ks {
		n := m.Nodes[k]
		nv := view.Nodes[k]
		no := NodeObs{Name: idx[k], Ins: before[k][0], Outs: before[k][1], AI: before[k][2], AO: before[k][3],
			CI: before[k][4], CO: before[k][5], X: -1, Y: -1}
		_ = n
		if nv != nil {
			no.VCI, no.VCO = idList(idx, nv.CritIns), idList(idx, nv.CritOuts)
			no.X, no.Y = nv.X, nv.Y
		}
		if no.VCI == nil {
			no.VCI = []int{}
		}
		if no.VCO == nil {
			no.VCO = []int{}
		}
		o.Nodes = append(o.Nodes, no)
	}

	o.RevBad = checkRevLayout(g, idx, before, o)
	if c.Ops != nil {
		mapOps(c, g, m, view, uni, idx, before, o.Ops)
	}

	// Map.Reverse twice restores the sets
	m.Reverse()
	m.Reverse()
	after := snapshot(idx, m)
	o.MapRev2 = len(after) == len(before)
	for k, b := range before {
		a := after[k]
		for i := 0; i < 6; i++ {
			if !sameInts(a[i], b[i]) {
				o.MapRev2 = false
			}
		}
	}
	return o
}


// ---------------------------------------------------------------- round 3: derived graphs, Closure, reuse of a Map

func entriesOf(g *dags.Graph, idx map[string]int) []Entry {
	var ks []string
	for k := range g.Nodes {
		ks = append(ks, k)
	}
	sort.Slice(ks, func(i, j int) bool { return idx[ks[i]] < idx[ks[j]] })
	out := []Entry{}
	for _, k := range ks {
		out = append(out, Entry{K: idx[k], Adj: idList(idx, g.Nodes[k])})
	}
	return out
}

func gobs(g *dags.Graph, idx map[string]int) *GObs {
	v, _ := classify(dags.CheckDAG(g), idx)
	return &GObs{G: entriesOf(g, idx), V: v}
}

func copyNodes(nodes map[string][]string) map[string][]string {
	out := make(map[string][]string, len(nodes))
	for k, l := range nodes {
		out[k] = append([]string(nil), l...)
	}
	return out
}

func sameNodes(a, b map[string][]string) bool {
	if len(a) != len(b) {
		return false
	}
	for k, l := range a {
		l2, ok := b[k]
		if !ok || len(l) != len(l2) {
			return false
		}
		for i := range l {
			if l[i] != l2[i] {
				return false
			}
		}
	}
	return true
}

type renameErr struct{}

func (renameErr) Error() string { return "rename callback failed" }

// graphOps runs Remove, SubGraph and Rename on the graph of the case.
func graphOps(c *Case, nodes map[string][]string, uni []string, idx map[string]int) *OpsObs {
	in := c.Ops
	oo := &OpsObs{}
	orig := copyNodes(nodes)
	g := dags.NewGraph(nodes)
	name := func(id int) string {
		if id >= 0 && id < len(uni) {
			return uni[id]
		}
		return "no-such-name"
	}
	oo.Rm = gobs(g.Remove(name(in.Rm)), idx)

	keep := map[string]bool{}
	for _, id := range in.Sub {
		keep[name(id)] = true
	}
	oo.Sub = gobs(g.SubGraph(func(s string) bool { oo.Calls++; return keep[s] }), idx)

	// Rename into the universe r000, r001, ...
	ridx := map[string]int{}
	rname := func(j int) string {
		s := fmt.Sprintf("r%03d", j)
		ridx[s] = j
		return s
	}
	to := map[string]string{}
	errKey := ""
	for p, k := range c.Keys {
		if p < len(in.Ren) {
			to[uni[k]] = rname(in.Ren[p])
		}
		if p == in.RenErr {
			errKey = uni[k]
		}
	}
	func() {
		defer func() {
			if e := recover(); e != nil {
				oo.Ren = &GObs{E: "other", V: "other"}
			}
		}()
		rg, err := g.Rename(func(s string) (string, error) {
			if errKey != "" && s == errKey {
				if in.ErrName {
					return to[s], renameErr{} // a result AND an error
				}
				return "", renameErr{}
			}
			return to[s], nil
		})
		switch {
		case err != nil:
			oo.Ren = &GObs{G: []Entry{}, V: "other", Nl: rg == nil}
			if _, ok := err.(renameErr); ok {
				oo.Ren.E = "ferr"
			} else if strings.Contains(err.Error(), "missing in keys") {
				oo.Ren.E = "missing"
			} else {
				oo.Ren.E = "other"
			}
		case rg == nil:
			oo.Ren = &GObs{G: []Entry{}, V: "other", E: "other", Nl: true}
		default:
			oo.Ren = gobs(rg, ridx)
		}
	}()
	oo.InSame = sameNodes(orig, nodes)
	if in.GSeq != "" {
		oo.GSeq = runGSeq(in.GSeq, copyNodes(orig), uni, idx)
	}
	return oo
}

// runGSeq: ONE *Graph for the whole sequence; the caller edits the map it
// gave to NewGraph between the calls.  Every result is recorded next to the
// content the map has at that moment.
func runGSeq(seq string, nodes map[string][]string, uni []string, idx map[string]int) (out []GStep) {
	defer func() {
		if e := recover(); e != nil {
			out = append(out, GStep{Op: "!", Bad: fmt.Sprintf("panic: %v", e)})
		}
	}()
	g := dags.NewGraph(nodes)
	cur := func() []Entry { return entriesOf(&dags.Graph{Nodes: nodes}, idx) }
	keys := func() []string {
		var ks []string
		for k := range nodes {
			ks = append(ks, k)
		}
		sort.Strings(ks)
		return ks
	}
	var last *dags.Graph
	for n, op := range seq {
		before := copyNodes(nodes)
		st := GStep{Op: string(op)}
		ks := keys()
		switch op {
		case 'R':
			last = g.Reverse()
			st.Got = entriesOf(last, idx)
		case 'T':
			st.Got = entriesOf(g.Reverse().Reverse(), idx)
		case 'V':
			_, v, err := dags.RevLayout(g)
			st.V, _ = classify(err, idx)
			if err == nil {
				seen := map[[2]int]bool{}
				for k, nv := range v.Nodes {
					if nv.X < 0 || nv.X >= v.Width || nv.Y < 0 || nv.Y >= v.Height {
						st.Bad = "bounds of " + k
					}
					if seen[[2]int{nv.X, nv.Y}] {
						st.Bad = "two nodes at the coordinate of " + k
					}
					seen[[2]int{nv.X, nv.Y}] = true
				}
				names := map[string]bool{} // the reverse has the dangling targets as nodes too
				for k, l := range nodes {
					names[k] = true
					for _, t := range l {
						names[t] = true
					}
				}
				if len(v.Nodes) != len(names) {
					st.Bad = "node count"
				}
				for k, l := range nodes {
					for _, t := range l {
						if v.Nodes[k] == nil || v.Nodes[t] == nil || !(v.Nodes[k].X < v.Nodes[t].X) {
							st.Bad = "edge " + k + "->" + t + " of the current graph is not left to right"
						}
					}
				}
			}
		case 'a': // add an edge between two nodes (may close a cycle)
			if len(ks) >= 2 {
				a, b := ks[(n*7+1)%len(ks)], ks[(n*5+2)%len(ks)]
				nodes[a] = append(nodes[a], b)
			}
		case 'd': // drop the last edge of the first node that has one
			for _, k := range ks {
				if l := nodes[k]; len(l) > 0 {
					nodes[k] = l[:len(l)-1]
					break
				}
			}
		case 'n': // a new node pointing at an old one
			for _, nm := range uni {
				if _, ok := nodes[nm]; !ok {
					nodes[nm] = nil
					if len(ks) > 0 {
						nodes[nm] = []string{ks[0]}
					}
					break
				}
			}
		case 'E': // the graph Reverse returned is the caller's: scribble on it
			if last != nil {
				for k := range last.Nodes {
					last.Nodes[k] = append(last.Nodes[k], k)
				}
				last.Nodes["scribble"] = []string{"scribble"}
			}
		}
		if op == 'R' || op == 'T' || op == 'V' {
			st.Same = sameNodes(before, nodes)
		} else {
			st.Same = true
		}
		st.Cur = cur()
		out = append(out, st)
	}
	return out
}

// mapOps: a second LayoutMap on the same Map, LayoutJSON, and Closure on a Map
// that has been laid out twice and reversed twice.
func mapOps(c *Case, g *dags.Graph, m *dags.Map, view *dags.MapView, uni []string, idx map[string]int,
	before map[string][6][]int, oo *OpsObs) {
	in := c.Ops
	view2 := dags.LayoutMap(m)
	oo.ReWH = [2]int{view2.Width, view2.Height}
	var ks []string
	for k := range m.Nodes {
		ks = append(ks, k)
	}
	sort.Strings(ks)
	for _, k := range ks {
		no := NodeObs{Name: idx[k], X: -1, Y: -1}
		if nv := view2.Nodes[k]; nv != nil {
			no.X, no.Y = nv.X, nv.Y
		}
		oo.Re = append(oo.Re, no)
	}
	after := snapshot(idx, m)
	oo.ReSets = len(after) == len(before)
	for k, b := range before {
		for i := 0; i < 6; i++ {
			if !sameInts(after[k][i], b[i]) {
				oo.ReSets = false
			}
		}
	}

	// LayoutJSON of the same graph: the serialised form of the first view
	if bs, err := dags.LayoutJSON(g); err != nil {
		oo.JSONBad = "error: " + err.Error()
	} else {
		var jm dags.M
		if err := json.Unmarshal(bs, &jm); err != nil {
			oo.JSONBad = "not JSON: " + err.Error()
		} else if jm.Height != view.Height || jm.Width != view.Width || len(jm.Nodes) != len(view.Nodes) {
			oo.JSONBad = "height, width or node count"
		} else {
			for k, nv := range view.Nodes {
				jn := jm.Nodes[k]
				if jn == nil || jn.X != nv.X || jn.Y != nv.Y || jn.F != k || jn.N != k ||
					!sameInts(idList(idx, jn.Ins), idList(idx, nv.CritIns)) ||
					!sameInts(idList(idx, jn.Outs), idList(idx, nv.CritOuts)) {
					oo.JSONBad = "node " + k
				}
			}
		}
	}

	if in.Seq != "" {
		oo.Seq = runSeq(in.Seq, g, idx)
	}

	// Closure
	var names []string
	for _, id := range in.Clo {
		if id >= 0 && id < len(uni) {
			names = append(names, uni[id])
		} else {
			names = append(names, "no-such-name")
		}
	}
	func() {
		defer func() {
			if e := recover(); e != nil {
				oo.CloBad = fmt.Sprintf("panic: %v", e)
			}
		}()
		cm := dags.Closure(m, names)
		oo.CloN = [3]int{cm.Nedge, cm.Ncrit, cm.Nlayer}
		snap := snapshot(idx, cm)
		var cks []string
		for k := range cm.Nodes {
			cks = append(cks, k)
		}
		sort.Slice(cks, func(i, j int) bool { return idx[cks[i]] < idx[cks[j]] })
		oo.Clo = []NodeObs{}
		for _, k := range cks {
			sn := snap[k]
			oo.Clo = append(oo.Clo, NodeObs{Name: idx[k], Ins: sn[0], Outs: sn[1], AI: sn[2], AO: sn[3], CI: sn[4], CO: sn[5],
				VCI: []int{}, VCO: []int{}})
		}
	}()
}

// runSeq performs a call sequence on ONE Map object and records every layout
// it produces together with the Map's orientation at that moment.
func runSeq(seq string, g *dags.Graph, idx map[string]int) (out []SeqObs) {
	viewObs := func(op string, flip bool, v *dags.MapView) SeqObs {
		so := SeqObs{Op: op, Flip: flip, WH: [2]int{v.Width, v.Height}}
		var ks []string
		for k := range v.Nodes {
			ks = append(ks, k)
		}
		sort.Slice(ks, func(i, j int) bool { return idx[ks[i]] < idx[ks[j]] })
		for _, k := range ks {
			so.Nodes = append(so.Nodes, NodeObs{Name: idx[k], X: v.Nodes[k].X, Y: v.Nodes[k].Y})
		}
		return so
	}
	defer func() {
		if e := recover(); e != nil {
			out = append(out, SeqObs{Op: "!", Bad: fmt.Sprintf("panic: %v", e)})
		}
	}()
	var m *dags.Map
	flip := false
	for i, op := range seq {
		switch {
		case i == 0 && op == 'N':
			m, _ = dags.NewMap(g)
		case i == 0 && op == 'Y':
			var v *dags.MapView
			m, v, _ = dags.Layout(g)
			out = append(out, viewObs("Y", flip, v))
		case i == 0 && op == 'V':
			var v *dags.MapView
			m, v, _ = dags.RevLayout(g)
			out = append(out, viewObs("V", flip, v))
		case op == 'R':
			m.Reverse()
			flip = !flip
			out = append(out, SeqObs{Op: "R", Flip: flip})
		case op == 'L':
			out = append(out, viewObs("L", flip, dags.LayoutMap(m)))
		case op == 'S':
			so := SeqObs{Op: "S", Flip: flip}
			for _, layer := range m.SortedLayers() {
				l := []int{}
				for _, n := range layer {
					l = append(l, idx[n.Name])
				}
				so.Layers = append(so.Layers, l)
			}
			out = append(out, so)
		}
	}
	return out
}

// genOps draws the parameters of the derived-graph entry points for a case.
func genOps(r *hx.Rng, c *Case) {
	nk := len(c.Keys)
	nu := len(c.Names)
	in := &OpsIn{Rm: -1, RenErr: -1, AisOf: -1, Inj: true, Sub: []int{}, Ren: []int{}, Clo: []int{}}
	if nu > 0 {
		in.Rm = r.Intn(nu) // sometimes a name that is not a node
	}
	if nk > 0 && r.Intn(4) != 0 {
		in.Rm = c.Keys[r.Intn(nk)]
	}
	for id := 0; id < nu; id++ {
		if r.Intn(3) != 0 {
			in.Sub = append(in.Sub, id)
		}
	}
	// injective by default: a random injection into 0..2nk
	pm := perm(r, 2*nk+1)
	for p := 0; p < nk; p++ {
		in.Ren = append(in.Ren, pm[p])
	}
	if nk >= 2 && r.Intn(6) == 0 {
		in.Inj = false
		in.Ren[r.Intn(nk)] = in.Ren[r.Intn(nk)]
		seen := map[int]bool{}
		in.Inj = true
		for _, x := range in.Ren {
			if seen[x] {
				in.Inj = false
			}
			seen[x] = true
		}
	}
	if nk > 0 && r.Intn(4) == 0 {
		in.RenErr = r.Intn(nk)
		in.ErrName = r.Bool()
	}
	if nk > 0 {
		in.AisOf = r.Intn(nk)
		for k := 1 + r.Intn(3); k > 0; k-- {
			in.Clo = append(in.Clo, c.Keys[r.Intn(nk)])
		}
		if r.Intn(12) == 0 {
			in.Clo = append(in.Clo, nu) // not a name at all: Closure panics
		}
		if r.Intn(12) == 0 {
			in.Clo = []int{}
		}
	}
	gseqs := []string{"RaR", "RaV", "VaV", "RaT", "REV", "RER", "VdV", "RnRT", "TaT", "RaRaV", "VnV", "RdT"}
	in.GSeq = gseqs[r.Intn(len(gseqs))]
	seqs := []string{"NRL", "NLRL", "YRL", "VL", "VRL", "NRLRL", "NLL", "YRLS", "NRSL", "VLRL", "NLRLL", "YLRL"}
	in.Seq = seqs[r.Intn(len(seqs))]
	c.Ops = in
}

// ---------------------------------------------------------------- conc: every goroutine its OWN graph

// ConcRes is what one goroutine saw over all rounds on one of its own graphs.
type ConcRes struct {
	Stream string `json:"s"`
	Worker int    `json:"worker"`
	Graph  string `json:"graph"` // ring-<n> | ring-chord-<n> | dag-<n>
	Rounds int    `json:"rounds"`
	Fail   string `json:"fail,omitempty"`   // cycle-not-in-graph | cycle-not-minimal | verdict | panic | layout
	Detail string `json:"detail,omitempty"`
}

// concGraphs: the graphs of worker w, names prefixed with the worker's own
// letter so that a node of another goroutine's graph is recognisable.
func concGraphs(w int) (descs []string, gs []map[string][]string, girth []int) {
	nm := func(i int) string { return fmt.Sprintf("%c%04d", 'a'+w, i) }
	ring := func(n, chordTo int) map[string][]string {
		g := map[string][]string{}
		for i := 0; i < n; i++ {
			g[nm(i)] = []string{nm((i + 1) % n)}
		}
		if chordTo > 0 {
			g[nm(chordTo)] = append(g[nm(chordTo)], nm(0)) // a shorter cycle 0..chordTo
		}
		return g
	}
	n := 180 + 7*w
	descs, gs, girth = append(descs, fmt.Sprintf("ring-%d", n)), append(gs, ring(n, 0)), append(girth, n)
	descs, gs, girth = append(descs, fmt.Sprintf("ring-chord-%d", n/2)), append(gs, ring(n/2, 5+w)), append(girth, 6+w)
	dag := map[string][]string{}
	for i := 0; i < 40; i++ {
		dag[nm(i)] = nil
		if i+1 < 40 {
			dag[nm(i)] = append(dag[nm(i)], nm(i+1))
		}
		if i+3 < 40 && (i+w)%4 == 0 {
			dag[nm(i)] = append(dag[nm(i)], nm(i+3))
		}
	}
	descs, gs, girth = append(descs, "dag-40"), append(gs, dag), append(girth, 0)
	return
}

func concCheck(nodes map[string][]string, girth int) (fail, detail string) {
	defer func() {
		if e := recover(); e != nil {
			fail, detail = "panic", fmt.Sprint(e)
		}
	}()
	g := dags.NewGraph(nodes)
	judge := func(err error, who string) (string, string) {
		if girth == 0 {
			if err != nil {
				return "verdict", who + " rejects an acyclic graph: " + err.Error()
			}
			return "", ""
		}
		if err == nil {
			return "verdict", who + " accepts a cyclic graph"
		}
		msg := err.Error()
		if !strings.HasPrefix(msg, circlePrefix) {
			return "verdict", who + ": " + msg
		}
		cyc := strings.Split(msg[len(circlePrefix):], "->")
		for i, a := range cyc {
			b := cyc[(i+1)%len(cyc)]
			l, ok := nodes[a]
			if !ok {
				return "cycle-not-in-graph", who + " reports a cycle through " + a + ", which is no node of the caller's graph"
			}
			found := false
			for _, t := range l {
				if t == b {
					found = true
				}
			}
			if !found {
				return "cycle-not-in-graph", who + " reports the step " + a + "->" + b + ", which is no edge of the caller's graph"
			}
		}
		if len(cyc) != girth {
			return "cycle-not-minimal", fmt.Sprintf("%s reports a cycle of length %d, the shortest has %d", who, len(cyc), girth)
		}
		return "", ""
	}
	if f, d := judge(dags.CheckDAG(g), "CheckDAG"); f != "" {
		return f, d
	}
	_, err := dags.NewMap(g)
	if f, d := judge(err, "NewMap"); f != "" {
		return f, d
	}
	if girth == 0 {
		for _, rev := range []bool{false, true} {
			var v *dags.MapView
			var err error
			if rev {
				_, v, err = dags.RevLayout(g)
			} else {
				_, v, err = dags.Layout(g)
			}
			if err != nil {
				return "verdict", "Layout: " + err.Error()
			}
			seen := map[[2]int]bool{}
			for k, nv := range v.Nodes {
				if seen[[2]int{nv.X, nv.Y}] || nv.X < 0 || nv.X >= v.Width || nv.Y < 0 || nv.Y >= v.Height {
					return "layout", "node " + k + " shares a coordinate or lies outside"
				}
				seen[[2]int{nv.X, nv.Y}] = true
			}
			for k, l := range nodes {
				for _, t := range l {
					if !(v.Nodes[k].X < v.Nodes[t].X) {
						return "layout", "edge " + k + "->" + t + " is not left to right"
					}
				}
			}
		}
	}
	return "", ""
}

// runConc: workers goroutines, each checking ONLY its own graphs, all at once.
func runConc(workers, rounds int, out *hx.Out) {
	res := make([][]ConcRes, workers)
	var wg sync.WaitGroup
	start := make(chan struct{})
	for w := 0; w < workers; w++ {
		wg.Add(1)
		go func(w int) {
			defer wg.Done()
			descs, gs, girth := concGraphs(w)
			rs := make([]ConcRes, len(gs))
			for i := range rs {
				rs[i] = ConcRes{Stream: "conc", Worker: w, Graph: descs[i], Rounds: rounds}
			}
			<-start
			for r := 0; r < rounds; r++ {
				for i := range gs {
					if rs[i].Fail != "" {
						continue
					}
					rs[i].Fail, rs[i].Detail = concCheck(gs[i], girth[i])
				}
			}
			res[w] = rs
		}(w)
	}
	close(start)
	wg.Wait()
	for _, rs := range res {
		for i := range rs {
			out.Emit(&rs[i])
		}
	}
}

// ---------------------------------------------------------------- exhaustive family with in-harness oracles

// maskOracle checks an observation of a mask-family graph (n <= 6) against
// textbook algorithms on bit sets.  It returns "" or a failure class.
func maskOracle(n int, mask uint64, o *Obs) string {
	var out [6]uint32
	for i := 0; i < n; i++ {
		out[i] = uint32(mask>>(uint(i*n))) & (1<<uint(n) - 1)
	}
	// reachability (paths of length >= 1) by Warshall
	reach := out
	for k := 0; k < n; k++ {
		for i := 0; i < n; i++ {
			if reach[i]>>uint(k)&1 == 1 {
				reach[i] |= reach[k]
			}
		}
	}
	cyclic := false
	for i := 0; i < n; i++ {
		if reach[i]>>uint(i)&1 == 1 {
			cyclic = true
		}
	}
	if cyclic {
		if o.V != "circle" || !o.Agree {
			return "verdict"
		}
		// girth by BFS levels on bit sets
		girth := n + 1
		for s := 0; s < n; s++ {
			seen := uint32(0)
			frontier := uint32(1) << uint(s)
			for d := 1; d <= n; d++ {
				var next uint32
				for u := 0; u < n; u++ {
					if frontier>>uint(u)&1 == 1 {
						next |= out[u]
					}
				}
				if next>>uint(s)&1 == 1 {
					if d < girth {
						girth = d
					}
					break
				}
				next &^= seen
				seen |= next
				frontier = next
				if frontier == 0 {
					break
				}
			}
		}
		c := o.Circle
		if len(c) != girth || o.CLen2 != girth {
			return "cycle-not-minimal"
		}
		for i, u := range c {
			v := c[(i+1)%len(c)]
			if u < 0 || u >= n || v < 0 || v >= n || out[u]>>uint(v)&1 == 0 {
				return "cycle-not-real"
			}
		}
		if !o.R2Same {
			return "reverse"
		}
		return ""
	}
	if o.V != "ok" || !o.Agree {
		return "verdict"
	}
	var in [6]uint32
	for i := 0; i < n; i++ {
		for j := 0; j < n; j++ {
			if out[i]>>uint(j)&1 == 1 {
				in[j] |= 1 << uint(i)
			}
		}
	}
	// longest-path layers by relaxation
	var layer [6]int
	for round := 0; round < n; round++ {
		for v := 0; v < n; v++ {
			for u := 0; u < n; u++ {
				if in[v]>>uint(u)&1 == 1 && layer[u]+1 > layer[v] {
					layer[v] = layer[u] + 1
				}
			}
		}
	}
	nlayer := 0
	for v := 0; v < n; v++ {
		if layer[v]+1 > nlayer {
			nlayer = layer[v] + 1
		}
	}
	if o.Nlayer != nlayer || o.W != nlayer || len(o.Layers) != nlayer || len(o.Nodes) != n {
		return "layers"
	}
	for i, l := range o.Layers {
		for _, v := range l {
			if v < 0 || v >= n || layer[v] != i {
				return "layers"
			}
		}
	}
	bits := func(l []int) uint32 {
		var b uint32
		for _, x := range l {
			b |= 1 << uint(x)
		}
		return b
	}
	ncrit, nedge := 0, 0
	pos := map[[2]int]bool{}
	for _, nd := range o.Nodes {
		u := nd.Name
		var rin uint32
		for w := 0; w < n; w++ {
			if reach[w]>>uint(u)&1 == 1 {
				rin |= 1 << uint(w)
			}
		}
		if bits(nd.AO) != reach[u] || bits(nd.AI) != rin || bits(nd.Outs) != out[u] || bits(nd.Ins) != in[u] {
			return "closure"
		}
		var crit uint32
		for v := 0; v < n; v++ {
			if out[u]>>uint(v)&1 == 0 {
				continue
			}
			nedge++
			bridged := false
			for w := 0; w < n; w++ {
				if w != v && reach[u]>>uint(w)&1 == 1 && reach[w]>>uint(v)&1 == 1 {
					bridged = true
				}
			}
			if !bridged {
				crit |= 1 << uint(v)
				ncrit++
			}
		}
		if bits(nd.CO) != crit || bits(nd.VCO) != crit {
			return "crit"
		}
		if nd.X < 0 || nd.X >= o.W || nd.Y < 0 || nd.Y >= o.H {
			return "layout-bounds"
		}
		if pos[[2]int{nd.X, nd.Y}] {
			return "layout-overlap"
		}
		pos[[2]int{nd.X, nd.Y}] = true
	}
	for _, nd := range o.Nodes { // crit ins are the transpose of crit outs
		var want uint32
		for _, other := range o.Nodes {
			if bits(other.CO)>>uint(nd.Name)&1 == 1 {
				want |= 1 << uint(other.Name)
			}
		}
		if bits(nd.CI) != want || bits(nd.VCI) != want {
			return "crit"
		}
		for _, other := range o.Nodes {
			if out[nd.Name]>>uint(other.Name)&1 == 1 && !(nd.X < other.X) {
				return "layout-order"
			}
		}
	}
	if o.Ncrit != ncrit || o.Nedge != nedge {
		return "counts"
	}
	if !o.R2Same || !o.MapRev2 {
		return "reverse"
	}
	if o.RevBad != "" {
		return "revlayout"
	}
	return ""
}

// exhaust runs every graph on n nodes, checks it with maskOracle, and prints
// the failing cases, every acyclic graph and a seeded 1/sample of the rest.
func exhaust(n int, seed uint64, sample int, workers int, out *hx.Out) {
	total := uint64(1) << uint(n*n)
	type res struct {
		cases []Case
		count uint64
		fail  uint64
	}
	ch := make(chan res, workers)
	chunk := total / uint64(workers)
	for w := 0; w < workers; w++ {
		lo := uint64(w) * chunk
		hi := lo + chunk
		if w == workers-1 {
			hi = total
		}
		go func(lo, hi uint64) {
			var r res
			for mask := lo; mask < hi; mask++ {
				c := Case{Stream: fmt.Sprintf("all-%d-nodes", n), Fam: "m", N: n, Mask: mask}
				o := observe(&c)
				c.Obs = o
				r.count++
				why := maskOracle(n, mask, o)
				// splitmix-style hash of (seed, mask) decides the sample
				z := (mask + seed*0x9e3779b97f4a7c15) * 0xbf58476d1ce4e5b9
				z ^= z >> 31
				keep := why != "" || o.V == "ok" || z%uint64(sample) == 0
				if why != "" {
					r.fail++
					o.Msg = "harness-oracle: " + why
				}
				if keep && (why == "" || r.fail <= 200) {
					r.cases = append(r.cases, c)
				}
			}
			ch <- r
		}(lo, hi)
	}
	var all []Case
	var count, fail uint64
	for w := 0; w < workers; w++ {
		r := <-ch
		all = append(all, r.cases...)
		count += r.count
		fail += r.fail
	}
	sort.Slice(all, func(i, j int) bool { return all[i].Mask < all[j].Mask })
	for i := range all {
		all[i].I = i
		out.Emit(&all[i])
	}
	out.Emit(map[string]interface{}{"summary": true, "n": n, "graphs": count, "oracle_failures": fail, "emitted": len(all)})
}


// checkRevLayout: RevLayout lays the reversed graph out and mirrors the view, so
// the sets are those of g again, every edge of g goes strictly left to right
// again (layers now counted from the sinks), and the coordinates are distinct
// and inside the view.
func checkRevLayout(g *dags.Graph, idx map[string]int, want map[string][6][]int, o *Obs) string {
	m, v, err := dags.RevLayout(g)
	if err != nil {
		return "error: " + err.Error()
	}
	if v.Width != o.W || len(v.Nodes) != len(want) || !v.IsTopDown {
		return "width, node count or IsTopDown"
	}
	got := snapshot(idx, m)
	for k, w := range want {
		for i := 0; i < 6; i++ {
			if !sameInts(got[k][i], w[i]) {
				return "node sets of " + k
			}
		}
	}
	seen := map[[2]int]bool{}
	for k, n := range v.Nodes {
		if n.X < 0 || n.X >= v.Width || n.Y < 0 || n.Y >= v.Height {
			return "bounds of " + k
		}
		if seen[[2]int{n.X, n.Y}] {
			return "two nodes at the coordinate of " + k
		}
		seen[[2]int{n.X, n.Y}] = true
		for _, t := range g.Nodes[k] {
			if !(n.X < v.Nodes[t].X) {
				return "edge " + k + "->" + t + " is not left to right"
			}
		}
	}
	return ""
}

func runCase(c *Case, timeout time.Duration) {
	done := make(chan *Obs, 1)
	go func() {
		defer func() {
			if e := recover(); e != nil {
				done <- &Obs{V: "crash", Crash: fmt.Sprintf("panic: %v", e)}
			}
		}()
		done <- observe(c)
	}()
	select {
	case o := <-done:
		c.Obs = o
	case <-time.After(timeout):
		fmt.Fprintf(os.Stderr, "timeout: no result after %v\n", timeout)
		os.Exit(3)
	}
}

func main() {
	seed := flag.Uint64("seed", 1, "seed")
	n := flag.Int("n", 300, "number of random cases")
	n4 := flag.Bool("n4", true, "include all 65536 graphs on 4 nodes")
	big := flag.Bool("big", false, "larger random graphs")
	child := flag.Bool("child", false, "child mode")
	from := flag.Int("from", 0, "first case (child)")
	mem := flag.Uint64("mem", 2<<30, "address-space limit of the child")
	tmo := flag.Duration("timeout", 20*time.Second, "per-case limit")
	maxCrash := flag.Int("maxcrash", 6, "stop after this many cases without a result")
	casesFile := flag.String("cases", "", "run the cases of this JSON-lines file instead of generating")
	conc := flag.Int("conc", 0, "conc stream: this many goroutines, each checking its own graphs, and exit")
	rounds := flag.Int("rounds", 12, "conc stream: rounds per goroutine")
	wideFlag := flag.String("wide", "", "comma-separated layer widths of the wide stream")
	ex := flag.Int("exhaust", 0, "run every graph on this many nodes against the in-harness oracles")
	sample := flag.Int("sample", 2000, "exhaust: emit 1 of this many cyclic graphs")
	workers := flag.Int("workers", 8, "exhaust: goroutines")
	flag.Parse()

	if *conc > 0 {
		runConc(*conc, *rounds, hx.NewOut(os.Stdout))
		return
	}
	for _, x := range strings.Split(*wideFlag, ",") {
		if v, err := strconv.Atoi(strings.TrimSpace(x)); err == nil {
			wideWidths = append(wideWidths, v)
		}
	}
	if *ex > 0 {
		if *ex > 5 {
			fmt.Fprintln(os.Stderr, "exhaust: at most 5 nodes")
			os.Exit(2)
		}
		exhaust(*ex, *seed, *sample, *workers, hx.NewOut(os.Stdout))
		return
	}

	var cs []Case
	if *casesFile != "" {
		// replay / shrink mode: the cases are given, one JSON object per line
		f, err := os.Open(*casesFile)
		if err != nil {
			fmt.Fprintln(os.Stderr, err)
			os.Exit(2)
		}
		sc := bufio.NewScanner(f)
		sc.Buffer(make([]byte, 1<<20), 1<<28)
		for sc.Scan() {
			var c Case
			if err := json.Unmarshal(sc.Bytes(), &c); err != nil {
				fmt.Fprintln(os.Stderr, "bad case:", err)
				os.Exit(2)
			}
			c.Obs = nil
			c.I = len(cs)
			cs = append(cs, c)
		}
		f.Close()
	} else {
		cs = genCases(*seed, *n, *n4, *big)
	}
	out := hx.NewOut(os.Stdout)
	if *child {
		hx.LimitMemory(*mem)
		for i := *from; i < len(cs); i++ {
			runCase(&cs[i], *tmo)
			out.Emit(&cs[i])
			cs[i].Obs = nil
		}
		return
	}
	crashes := 0
	args := []string{"-seed", strconv.FormatUint(*seed, 10), "-n", strconv.Itoa(*n),
		"-n4=" + strconv.FormatBool(*n4), "-big=" + strconv.FormatBool(*big), "-timeout", tmo.String(), "-wide", *wideFlag,
		"-cases", *casesFile}
	err := hx.RunIsolated(len(cs), args, *mem,
		func(i int, raw []byte) { os.Stdout.Write(append(raw, '\n')) },
		func(i int, why string) {
			c := cs[i]
			c.Obs = &Obs{V: "crash", Crash: "fatal: " + why}
			out.Emit(&c)
			crashes++
			if crashes >= *maxCrash {
				// enough failing inputs; do not spend a timeout on every remaining case
				out.Emit(map[string]interface{}{"aborted": true, "after_case": i, "crashes": crashes, "cases": len(cs)})
				os.Exit(0)
			}
		})
	if err != nil {
		fmt.Fprintln(os.Stderr, err)
		os.Exit(2)
	}
}
