// Command c12 runs Go's path functions and caco3's name resolution and
// file sets (built with -tags verif) on enumerated and generated inputs and
// prints what it observed, one JSON line per case.  All strings are ASCII.
package main

import (
	"encoding/hex"
	"encoding/json"
	"flag"
	"fmt"
	"io"
	"log"
	"os"
	"path"
	"path/filepath"
	"crypto/sha256"
	"net/http"
	"net/http/httptest"
	"sort"
	"strings"

	"shanhu.io/g/caco3"
	"verifharness/hx"
)

type TE struct {
	P string `json:"p"`
	D bool   `json:"d"`
	K string `json:"k,omitempty"` // "" (file or directory by D) | lf | ld | lb: symbolic link to a file, a directory, dangling
	L string `json:"l,omitempty"` // link target
	V bool   `json:"v,omitempty"` // a path seen through a linked directory: part of the view, not created
}

// ManyOut: the .fileset of one rule of a buildmany case.
type ManyOut struct {
	Out  string   `json:"out"`
	Outs []string `json:"outs"`
	Err  string   `json:"err,omitempty"`
}

type Rule struct {
	Name   string   `json:"name"`
	Files  []string `json:"files"`
	Select []string `json:"select"`
	Ignore []string `json:"ignore"`
}

type Case struct {
	I      int      `json:"i"`
	Stream string   `json:"stream"`
	Op     string   `json:"op"` // clean | pjoin | match | rel | abs | src | suffix | fileset | rule
	S      string   `json:"s"`
	Elems  []string `json:"elems,omitempty"`
	Pat    string   `json:"pat,omitempty"`
	Hex    bool     `json:"hex,omitempty"` // pat and s are hex-encoded byte strings
	P      string   `json:"p"`
	F      string   `json:"f"`
	Dir    string   `json:"dir,omitempty"`
	Tree   []TE     `json:"tree,omitempty"`
	TreeID int      `json:"treeid,omitempty"`
	Rule   *Rule    `json:"rule,omitempty"`
	// buildmany: several file sets declared in ONE build file, in this order,
	// built by one Builder in one Build call (one env for all of them); Many
	// holds what each wrote.
	Rules []*Rule   `json:"rules,omitempty"`
	Many  []ManyOut `json:"many,omitempty"`
	Kind   string   `json:"kind,omitempty"`
	Fields []string `json:"fields,omitempty"`

	// observed
	Out   string   `json:"out"`
	Outs  []string `json:"outs,omitempty"`
	Deps  []string `json:"deps,omitempty"`
	Bool  bool     `json:"bool"`
	FBool bool     `json:"fbool"`          // match: filepath.Match
	FErr  string   `json:"ferr,omitempty"` // match: filepath.Match
	Err   string   `json:"err,omitempty"` // "", nofiles, listerr, badpat, builderr, other:<text>
	// build: every path under the case directory that differs after the build
	Changed []string `json:"changed,omitempty"`
	// fileset/build: listed names whose directory physically lies outside the source tree
	Outside []string `json:"outside,omitempty"`
	// buildkey: the package directory the raw repo-map key names lies outside src, and the
	// rule declared in the build file there was loaded and built
	PkgOutside bool `json:"pkgoutside,omitempty"`
	Loaded     bool `json:"loaded,omitempty"`
	Crash string   `json:"crash,omitempty"`
	// download: a download rule built by the real Builder against a local
	// HTTP server.  Kind: "match" | "mismatch" (the checksum is of other bytes) |
	// "truncated" (the server announces more bytes than it sends and closes) |
	// "notfound" | "empty".  TMPDIR points at <base>/tmp, the working directory
	// is <base>/cwd, the workspace is <base>/ws.  Stray: every path under
	// <base> outside ws/out that exists after the build and did not before (with
	// its size); During: the same, seen from the HTTP handler while the body was
	// being sent.
	Stray  []string `json:"stray,omitempty"`
	During []string `json:"during,omitempty"`
	// ArgMod: an argument passed by reference (the rule struct with its
	// Files / Select / Ignore slices, the elements of a variadic call) that the
	// call changed: "<what>: <before> -> <after>".
	ArgMod string `json:"arg_mod,omitempty"`
}

// ---- enumeration helpers ----

func allStrings(alpha string, maxLen int) []string {
	out := []string{""}
	prev := []string{""}
	for l := 1; l <= maxLen; l++ {
		var cur []string
		for _, s := range prev {
			for i := 0; i < len(alpha); i++ {
				cur = append(cur, s+string(alpha[i]))
			}
		}
		out = append(out, cur...)
		prev = cur
	}
	return out
}

// segStrings: every way to join 1..maxSeg segments drawn from segs with "/".
func segStrings(segs []string, maxSeg int) []string {
	var out []string
	prev := []string{}
	for _, s := range segs {
		prev = append(prev, s)
	}
	out = append(out, prev...)
	for l := 2; l <= maxSeg; l++ {
		var cur []string
		for _, s := range prev {
			for _, t := range segs {
				cur = append(cur, s+"/"+t)
			}
		}
		out = append(out, cur...)
		prev = cur
	}
	return out
}

const randAlpha = "ab.d/*?-_ ~x2"

func randString(r *hx.Rng, maxLen int, alpha string) string {
	n := r.Intn(maxLen + 1)
	b := make([]byte, n)
	for i := range b {
		// bias towards '/' and '.'
		switch r.Intn(6) {
		case 0:
			b[i] = '/'
		case 1:
			b[i] = '.'
		default:
			b[i] = alpha[r.Intn(len(alpha))]
		}
	}
	return string(b)
}

func randSegPath(r *hx.Rng, maxSeg int) string {
	segs := []string{"a", "b", "..", ".", "", "dir", "..a", "a..", "...", "d-x", "x y"}
	n := 1 + r.Intn(maxSeg)
	var parts []string
	for i := 0; i < n; i++ {
		parts = append(parts, segs[r.Intn(len(segs))])
	}
	return strings.Join(parts, "/")
}

// ---- file-set pools ----

var filePool = []string{
	"d/x", "d/y.txt", "d2/x", "dx", "d/e/x", "a.txt", "d-/x", "d.x",
	".git/config", "d/.git/h", "d/COPYING", "d/b.caco3", "d/tags", "d/.gitignore",
	"p/d/x", "p/d2/x", "p/dx", "p/a.txt", "p/d/e/x", "p/.git/c", "p/d/b.caco3",
	"dir/a.txt", "dir2/b.txt", "dirfile", "p/dir/a.txt", "p/dir2/b.txt", "p/dirfile",
	"e", ".DS_Store", "p/COPYING",
	"\u00e9.txt", "d/\u4e16.go", "d*", "[x]", "d/[x", "d/\\x", "q.txt",
}

var selPool = []string{
	"*", "d/*", "d*", "d*/x", "**", "d/**", "d2/**", "*/x", "?x", "d/e/x", "dx/**",
	"nonexist/**", "zzz", "", ".", "d/", "*.txt", "*/*", "dir*", "dir/**", "dir*/*",
	"../**", "/d/*", "d/../d2/*", "*/*/*", ".git/**", "d/.git/**", "d/e/**", "a.txt/**",
	"d/COPYING/**", "**/x", "d?/x", "*x",
	"d[0-9]/x", "d[^2]/x", "[ad]*", "d\\*", "d[", "d/[x", "*[", "\\", "d[/]x", "d\\/x", "\u00e9*", "?.txt", "d/[^y]*", "[^a]*", "d/\\x", "[d]/[e]/x", "*/[", "d[0-9]/**",
}

var ignPool = []string{
	"d/", "d", "d2/", "*.txt", "d/*", "d*", "/", "./", "d/e/", "dx", "x", "*/x", "d/e",
	"dir/", "dir2/", "dir", "dir*", "dirfile", "d-/", "d./", "d/e", "../d/", "/d/", "d//",
	"d/./", "?/", "*/", "e/", "a.txt/",
	"d[0-9]/", "[ad].txt", "*.t[x]t", "d[", "[", "d/[^y]*", "\u00e9.txt", "?.txt", "d[^a]x", "d\\x", "\\", "d/\\x", "[a-", "d[0-9]/*",
}

var filesPool = []string{"a.txt", "/q/r", "../z", "d/x", "", "/", "./e", "//p//a.txt", "d/"}

func consistent(files []string) bool {
	isFile := map[string]bool{}
	isDir := map[string]bool{}
	for _, f := range files {
		parts := strings.Split(f, "/")
		for i := 1; i < len(parts); i++ {
			isDir[strings.Join(parts[:i], "/")] = true
		}
		isFile[f] = true
	}
	for f := range isFile {
		if isDir[f] {
			return false
		}
	}
	return true
}

func treeEntries(files []string) []TE {
	m := map[string]bool{}
	for _, f := range files {
		parts := strings.Split(f, "/")
		for i := 1; i < len(parts); i++ {
			m[strings.Join(parts[:i], "/")] = true
		}
	}
	var out []TE
	for d := range m {
		out = append(out, TE{P: d, D: true})
	}
	for _, f := range files {
		out = append(out, TE{P: f, D: false})
	}
	sort.Slice(out, func(i, j int) bool { return out[i].P < out[j].P })
	return out
}

func pickSome(r *hx.Rng, pool []string, min, max int) []string {
	n := min + r.Intn(max-min+1)
	out := []string{}
	for i := 0; i < n; i++ {
		out = append(out, pool[r.Intn(len(pool))])
	}
	return out
}

// ---- case generation ----

func genCases(seed uint64, n int, thorough bool) []Case {
	r := hx.NewRng(seed)
	var cs []Case
	add := func(c Case) {
		c.I = len(cs)
		cs = append(cs, c)
	}

	// corpus: the known failing inputs first.
	dirTree := []string{"dir/a.txt", "dir2/b.txt", "dirfile"}
	add(Case{Stream: "corpus", Op: "fileset", P: "", Tree: treeEntries(dirTree), TreeID: 1,
		Rule: &Rule{Name: "fs", Files: []string{}, Select: []string{"**"}, Ignore: []string{"dir/"}}})
	pTree := []string{"p/dir/a.txt", "p/dir2/b.txt", "p/dirfile", "dir/z"}
	add(Case{Stream: "corpus", Op: "fileset", P: "p", Tree: treeEntries(pTree), TreeID: 2,
		Rule: &Rule{Name: "fs", Files: []string{}, Select: []string{"**"}, Ignore: []string{"dir/"}}})
	add(Case{Stream: "corpus", Op: "fileset", P: "", Tree: treeEntries(dirTree), TreeID: 1,
		Rule: &Rule{Name: "../../fs", Files: []string{"/../../etc/passwd", "../x"}, Select: []string{"*"}, Ignore: []string{"/"}}})
	for _, f := range []string{"../../etc/passwd", "/../x", "a/../../b", "", "/", ".", "..", "a//b/", "./a/./b/.."} {
		add(Case{Stream: "corpus", Op: "rel", P: "pkg/sub", F: f})
		add(Case{Stream: "corpus", Op: "abs", P: "pkg/sub", F: f})
	}

	// the two ways in which Match's greedy chunk loop misses a declarative match
	// (Caco/MatchComplete.v: match_class_incomplete_refuted,
	// match_wide_rune_incomplete_refuted): a class takes the '/', "??" takes a
	// four-byte rune and the next byte; and neighbours that do match
	for _, ps := range [][2]string{{"*[^a]*b", "x/b"}, {"*[^a]*b", "xyb"}, {"*[^a]/*b", "x/b"},
		{"*??*X", "\U00010000X"}, {"*??*X", "abcdX"}, {"*?*X", "\U00010000X"}, {"*??*X", "\U00010000aX"},
		{"*a/*/b?", "xa/yy/bz"}, {"*a/*/b?", "xa/y/y/bz"}, {"*a*a", "aaa/a"}, {"*a/a*a/a", "a/a/a/a"}} {
		add(Case{Stream: "corpus", Op: "match", Hex: true, Pat: hex.EncodeToString([]byte(ps[0])),
			S: hex.EncodeToString([]byte(ps[1]))})
	}

	// path.Clean: every string over {a,b,.,/} up to a length bound.
	cleanLen := 7
	if thorough {
		cleanLen = 9
	}
	kk := 0
	for _, s := range allStrings("ab./", cleanLen) {
		if !thorough && len(s) == cleanLen {
			// the longest strings: one quarter per run, chosen by the seed
			kk++
			if kk%4 != int(seed%4) {
				continue
			}
		}
		add(Case{Stream: "clean", Op: "clean", S: s})
	}
	// path.Join on pairs and triples of short strings.
	short := allStrings("a./", 3)
	for _, a := range short {
		for _, b := range short {
			add(Case{Stream: "pjoin", Op: "pjoin", Elems: []string{a, b}})
		}
	}
	tiny := allStrings("a./", 2)
	for _, a := range tiny {
		for _, b := range tiny {
			for _, c := range tiny {
				add(Case{Stream: "pjoin", Op: "pjoin", Elems: []string{a, b, c}})
			}
		}
	}

	// names: every string of up to 4 segments from {a, ., .., ""} (hence leading,
	// trailing and repeated slashes) against clean and hostile package paths.
	names := append([]string{""}, segStrings([]string{"a", ".", "..", ""}, 4)...)
	pkgs := []string{"", "a", "a/b", "..", "a/../..", "/x", "a//b/"}
	for _, p := range pkgs {
		for _, f := range names {
			add(Case{Stream: "names", Op: "rel", P: p, F: f})
			add(Case{Stream: "names", Op: "abs", P: p, F: f})
		}
	}
	for _, d := range []string{"/w/src", "/w/src/", "w/out", "", ".", "..", "/", "../s"} {
		for _, f := range names {
			if len(f) > 7 {
				continue
			}
			add(Case{Stream: "src", Op: "src", Dir: d, Elems: []string{caco3.VerifMakeRelPath("a", f)}})
			add(Case{Stream: "src", Op: "src", Dir: d, Elems: []string{f}}) // raw, unresolved
		}
		add(Case{Stream: "src", Op: "src", Dir: d, Elems: []string{}})
		add(Case{Stream: "src", Op: "src", Dir: d, Elems: []string{"a/b", "BUILD.caco3"}})
	}
	for _, f := range names {
		if len(f) > 5 {
			continue
		}
		add(Case{Stream: "suffix", Op: "suffix", S: caco3.VerifMakeRelPath("", f)})
	}

	// path.Match on the modelled fragment.
	pats := allStrings("a*?/", 4)
	strs := allStrings("ab/", 3)
	k := 0
	for _, p := range pats {
		for _, s := range strs {
			k++
			if !thorough && k%3 != int(seed%3) {
				continue
			}
			add(Case{Stream: "match", Op: "match", Pat: p, S: s})
		}
	}

	// classes, escapes and malformed patterns.
	cpats := allStrings("ab[]^-\\*?", 4)
	cstrs := []string{"", "a", "b", "ab", "ba", "-", "]", "^", "\\", "*", "a/b", "[", "c"}
	k = 0
	for _, p := range cpats {
		if len(p) == 4 {
			k++
			if !thorough && k%16 != int(seed%16) {
				continue
			}
		}
		for _, s := range cstrs {
			add(Case{Stream: "match-class", Op: "match", Pat: p, S: s})
		}
	}
	for _, p := range []string{"[a-c]x", "[c-a]x", "[^a-c]*", "a[b-b]c", "[\\]]", "[\\-a]", "[a\\-c]", "[a-\\c]", "x[", "x[a", "x[a-", "x[a-]",
		"[]", "[^]", "[^]]", "[]]", "[a]]", "[-a]", "[a-]", "*[", "*\\", "a\\", "\\a", "\\*", "\\?", "\\[", "[*]", "[?]", "[/]", "a[/]b", "a[^x]b", "*[^a]", "[a-z]*[0-9]", "d/[^y]*", "d[0-9]/x"} {
		for _, s := range []string{"", "a", "ax", "bx", "dx", "abc", "]", "-", "\\", "*", "?", "[", "/", "a/b", "axb", "q1", "qq", "d/x", "d/y", "d2/x"} {
			add(Case{Stream: "match-class", Op: "match", Pat: p, S: s})
		}
	}
	// multi-byte runes and invalid UTF-8 (hex-encoded).
	upats := []string{"?", "??", "???", "*?", "?*", "[\u00e0-\u00ff]", "[^\u00e9]", "\u00e9", "\\\u00e9", "[\u00e9]", "?\u00e9", "[\u4e16-\u754c]", "[a-\u00ff]",
		"[\xff]", "[\xc3]", "\xc3", "\xc3?", "[\xc3\xa9-\xc3\xbf]", "*\xa9", "[^\xff]", "[a-\xff]", "\xff", "?\xa9"}
	ustrs := []string{"", "a", "\u00e9", "\u00e9a", "a\u00e9", "\u4e16", "\u4e16\u754c", "e\u0301", "/", "\u00e9/\u4e16", "\xff", "\xc3", "\xc3\xa9\xa9", "\xa9", "\xc3(", "\xf0\x9f\x98\x80", "\xed\xa0\x80", "\xef\xbf\xbd"}
	for _, p := range upats {
		for _, s := range ustrs {
			add(Case{Stream: "match-utf8", Op: "match", Hex: true, Pat: hex.EncodeToString([]byte(p)), S: hex.EncodeToString([]byte(s))})
		}
	}

	// rules: hostile strings in every name-bearing field of every rule kind.
	hostile := []string{"../../x", "/abs/y", "a/../../z", "", ".", "..", "//a//", "ok/name", "./n"}
	for _, kind := range []string{"bundle", "download", "docker_run", "sub_builds"} {
		for _, p := range []string{"", "pk/g"} {
			for _, h1 := range hostile {
				for _, h2 := range hostile {
					add(Case{Stream: "rules", Op: "rule", Kind: kind, P: p, Fields: []string{h1, h2}})
				}
			}
		}
	}

	// random longer names.
	nr := n
	for i := 0; i < nr; i++ {
		var p, f string
		if r.Bool() {
			p = randSegPath(r, 3)
		} else {
			p = []string{"", "a", "a/b", "pkg/sub/dir"}[r.Intn(4)]
		}
		if r.Bool() {
			f = randSegPath(r, 8)
		} else {
			f = randString(r, 14, randAlpha)
		}
		switch r.Intn(5) {
		case 0:
			add(Case{Stream: "random", Op: "rel", P: p, F: f})
		case 1:
			add(Case{Stream: "random", Op: "abs", P: p, F: f})
		case 2:
			add(Case{Stream: "random", Op: "clean", S: f})
		case 3:
			add(Case{Stream: "random", Op: "pjoin", Elems: []string{p, f, randSegPath(r, 3)}})
		case 4:
			add(Case{Stream: "random", Op: "match", Pat: randString(r, 6, "ab*?/a"), S: randString(r, 7, "ab/a")})
		}
	}

	// file sets.
	ntree := 40
	perTree := n / 40
	if perTree < 10 {
		perTree = 10
	}
	if thorough {
		ntree = 200
	}
	tid := 10
	for t := 0; t < ntree; t++ {
		var files []string
		for tries := 0; tries < 20; tries++ {
			k := 1 + r.Intn(5)
			set := map[string]bool{}
			for len(set) < k {
				set[filePool[r.Intn(len(filePool))]] = true
			}
			files = files[:0]
			for f := range set {
				files = append(files, f)
			}
			sort.Strings(files)
			if consistent(files) {
				break
			}
			files = nil
		}
		if files == nil {
			files = []string{"d/x"}
		}
		tid++
		tree := treeEntries(files)
		for j := 0; j < perTree; j++ {
			p := []string{"", "p", "d"}[r.Intn(3)]
			rule := &Rule{
				Name:   []string{"fs", "../fs", "/x/fs", "sub/fs"}[r.Intn(4)],
				Files:  pickSome(r, filesPool, 0, 2),
				Select: pickSome(r, selPool, 1, 2),
				Ignore: pickSome(r, ignPool, 0, 2),
			}
			add(Case{Stream: "fileset", Op: "fileset", P: p, Tree: tree, TreeID: tid, Rule: rule})
		}
	}
	// exhaustive small scope: every consistent tree of up to 3 files from a
	// pool whose names share prefixes x every select x every ignore.
	corePool := []string{"d/x", "d2/x", "dx", "d/e/x", "d/y.txt", "a.txt"}
	coreSel := []string{"*", "d/*", "d*", "d*/x", "**", "d/**", "*/x", "d/e/**", "d?/**"}
	coreIgn := []string{"", "d/", "d", "d2/", "*.txt", "d*", "d/e/", "dx", "*/x", "/", "dx/"}
	maxSub := 3
	if thorough {
		maxSub = 5
	}
	etid := 200000
	for mask := 1; mask < 1<<len(corePool); mask++ {
		var files []string
		for b := 0; b < len(corePool); b++ {
			if mask&(1<<b) != 0 {
				files = append(files, corePool[b])
			}
		}
		if len(files) > maxSub || !consistent(files) {
			continue
		}
		etid++
		tree := treeEntries(files)
		for _, sel := range coreSel {
			for _, ign := range coreIgn {
				ig := []string{}
				if ign != "" {
					ig = []string{ign}
				}
				add(Case{Stream: "fileset-ex", Op: "fileset", P: "", Tree: tree, TreeID: etid,
					Rule: &Rule{Name: "fs", Files: []string{}, Select: []string{sel}, Ignore: ig}})
			}
		}
	}

	// exhaustive scope for SEVERAL directory ignores at once: directories whose
	// names sort between a directory and the files beneath it ('-' and '.' are
	// below '/'), a sibling that sorts after ('0'), nested ignored directories,
	// the root; every set of one to three of these ignores (pairs also in the
	// other order) x selections x trees.  Whether a name is ignored must be
	// the disjunction over the entries, each taken alone.
	ignFiles := []string{"a/b", "a/x", "a/z", "a-b/x", "a.b/x", "a0/x", "a/m/n/x", "a/m/x", "ax"}
	ignDirs := []string{"a/", "a-b/", "a.b/", "a0/", "a/m/", "a/m/n/", "./"}
	var ignSets [][]string
	for i := range ignDirs {
		ignSets = append(ignSets, []string{ignDirs[i]})
		for j := i + 1; j < len(ignDirs); j++ {
			ignSets = append(ignSets, []string{ignDirs[i], ignDirs[j]}, []string{ignDirs[j], ignDirs[i]})
			for k := j + 1; k < len(ignDirs); k++ {
				ignSets = append(ignSets, []string{ignDirs[i], ignDirs[j], ignDirs[k]})
			}
		}
	}
	var ignTrees [][]string
	ignTrees = append(ignTrees, ignFiles)
	for i := range ignFiles {
		ignTrees = append(ignTrees, []string{ignFiles[i]})
		if thorough {
			for j := i + 1; j < len(ignFiles); j++ {
				ignTrees = append(ignTrees, []string{ignFiles[i], ignFiles[j]})
				for k := j + 1; k < len(ignFiles); k++ {
					ignTrees = append(ignTrees, []string{ignFiles[i], ignFiles[j], ignFiles[k]})
				}
			}
		}
	}
	itid := 250000
	for ti, files := range ignTrees {
		itid++
		for _, pk := range []string{"", "pkg"} {
			if pk != "" && ti != 0 {
				continue // the package variant for the full tree only
			}
			var fl []string
			for _, f := range files {
				if pk != "" {
					f = pk + "/" + f
				}
				fl = append(fl, f)
			}
			if pk != "" {
				itid++
			}
			tree := treeEntries(fl)
			for _, sel := range []string{"**", "a/**", "*/*"} {
				for _, ig := range ignSets {
					add(Case{Stream: "fileset-ign", Op: "fileset", P: pk, Tree: tree, TreeID: itid,
						Rule: &Rule{Name: "fs", Files: []string{}, Select: []string{sel}, Ignore: ig}})
				}
			}
		}
	}

	// special names where the walk does not expect them: ".git" - which the
	// recursive listing prunes as a DIRECTORY - as a regular file (the "gitdir:"
	// pointer of worktrees and submodules), as a symbolic link to a file, a
	// dangling link, a link to a directory, and as a real directory, at the
	// root and in a sub-directory, with siblings sorting before and after it;
	// and the file names the walk leaves out (COPYING, tags, .DS_Store,
	// .gitignore, *.caco3) as DIRECTORIES with files in them.  A non-directory
	// never prunes anything; a directory named like a skipped file is walked.
	spBase := []string{"-x", ".a", "a", "z/y", "d/-x", "d/a", "d/z/q", "COPYING/x", "tags/x", "b.caco3/x",
		".DS_Store/x", ".gitignore/x", "d/tags/t", "d/COPYING/c"}
	gitAs := func(at string, how int) []TE {
		g := ".git"
		up := ""
		if at != "" {
			g = at + "/.git"
			up = "../"
		}
		switch how {
		case 1:
			return []TE{{P: g}}
		case 2:
			return []TE{{P: g, K: "lf", L: up + "a"}}
		case 3:
			return []TE{{P: g, K: "lb", L: "nowhere"}}
		case 4:
			return []TE{{P: g, K: "ld", L: up + "z"}, {P: g + "/y", V: true}}
		case 5:
			return []TE{{P: g, D: true}, {P: g + "/config"}}
		}
		return nil
	}
	stid := 260000
	for h0 := 0; h0 < 6; h0++ {
		for h1 := 0; h1 < 6; h1++ {
			stid++
			t := treeEntries(spBase)
			t = append(t, gitAs("", h0)...)
			t = append(t, gitAs("d", h1)...)
			sort.Slice(t, func(i, j int) bool { return t[i].P < t[j].P })
			for _, sel := range []string{"**", "d/**", "z/**", ".git/**", "d/.git/**", "COPYING/**"} {
				for _, ig := range [][]string{{}, {"z/"}} {
					add(Case{Stream: "fileset-special", Op: "fileset", P: "", Tree: t, TreeID: stid,
						Rule: &Rule{Name: "fs", Files: []string{}, Select: []string{sel}, Ignore: ig}})
				}
			}
		}
	}
	// ... and a package that holds nothing but a ".git" file and names sorting after it
	for h := 1; h < 5; h++ {
		stid++
		t := treeEntries([]string{"m/a", "m/b/c", "other/o"})
		t = append(t, gitAs("m", h)...)
		sort.Slice(t, func(i, j int) bool { return t[i].P < t[j].P })
		for _, sel := range []string{"**", "b/**"} {
			add(Case{Stream: "fileset-special", Op: "fileset", P: "m", Tree: t, TreeID: stid,
				Rule: &Rule{Name: "fs", Files: []string{}, Select: []string{sel}, Ignore: []string{}}})
		}
	}

	// escaped literals in FILE ignore entries: the backslash is a meta character of
	// path.Match, so "a\\.txt" ignores a.txt, "a\\ b" ignores "a b", "\\[x\\]" ignores
	// "[x]"; a trailing backslash is ErrBadPattern (logged, ignores nothing) - none
	// of them contains '*', '?' or '['-unescaped, and none is the literal name.
	escTree := treeEntries([]string{"a.txt", "a b", "[x]", "axtxt", "b", "d/a.txt", "d/a b", "a\\.txt"})
	escIgn := []string{"a\\.txt", "a\\ b", "\\[x\\]", "a.txt\\", "d/a\\.txt", "\\a\\.\\t\\x\\t", "\\b", "d/\\a\\ b",
		"a\\\\.txt", "a\\*", "\\a.txt", "b\\", "d\\/a.txt"}
	etid2 := 270000
	for _, pk := range []string{"", "pkg"} {
		etid2++
		tr := escTree
		if pk != "" {
			var fl []string
			for _, e := range escTree {
				if !e.D {
					fl = append(fl, pk+"/"+e.P)
				}
			}
			tr = treeEntries(fl)
		}
		for _, sel := range []string{"**", "*", "d/*"} {
			for i, ig := range escIgn {
				add(Case{Stream: "fileset-esc", Op: "fileset", P: pk, Tree: tr, TreeID: etid2,
					Rule: &Rule{Name: "fs", Files: []string{}, Select: []string{sel}, Ignore: []string{ig}}})
				add(Case{Stream: "fileset-esc", Op: "fileset", P: pk, Tree: tr, TreeID: etid2,
					Rule: &Rule{Name: "fs", Files: []string{}, Select: []string{sel}, Ignore: []string{escIgn[(i+3)%len(escIgn)], ig, "b"}}})
			}
		}
	}

	// symbolic links in the source tree: to a file inside, to a file outside the
	// workspace, to a directory outside, dangling, to a directory inside.
	linkBase := []string{"d/x", "d/y.txt", "d2/x", "a.txt", "p/q.txt"}
	mkLinks := func(which int) []TE {
		t := treeEntries(linkBase)
		if which == 0 || which == 2 {
			t = append(t, TE{P: "lf", K: "lf", L: "d/x"}, TE{P: "lo", K: "lf", L: "../outside/secret.txt"},
				TE{P: "lb", K: "lb", L: "nowhere"}, TE{P: "p/lo2", K: "lf", L: "../../outside/secret.txt"})
		}
		if which == 0 || which == 1 {
			t = append(t, TE{P: "ld", K: "ld", L: "../outside"}, TE{P: "ld/secret.txt", V: true},
				TE{P: "ld/sub", D: true, V: true}, TE{P: "ld/sub/deep.txt", V: true},
				TE{P: "d/ldi", K: "ld", L: "../d2"}, TE{P: "d/ldi/x", V: true})
		}
		sort.Slice(t, func(i, j int) bool { return t[i].P < t[j].P })
		return t
	}
	ltid := 300000
	for which := 0; which < 3; which++ {
		ltid++
		tree := mkLinks(which)
		for _, sel := range []string{"**", "*", "l*", "ld/*", "ld/**", "l?/*", "ld/sub/**", "ld/sub/*", "d/**", "d/*/x",
			"d/ldi/*", "d/ldi/**", "lo", "lb", "lb/**", "lf/**", "*/*", "*/*/*", "lo/**", "l[a-z]/s*"} {
			for _, ign := range []string{"", "ld/", "l*", "lb"} {
				for fi, files := range [][]string{{}, {"ld/secret.txt", "lo", "lb"}} {
					if fi == 1 && ign != "" {
						continue
					}
					ig := []string{}
					if ign != "" {
						ig = []string{ign}
					}
					add(Case{Stream: "links", Op: "fileset", P: "", Tree: tree, TreeID: ltid,
						Rule: &Rule{Name: "fs", Files: files, Select: []string{sel}, Ignore: ig}})
				}
			}
		}
	}

	// end-to-end builds of a workspace whose build file carries the rule.
	nb := n / 8
	if nb < 60 {
		nb = 60
	}
	btid := 100000
	for i := 0; i < nb; i++ {
		files := []string{"pkg/BUILD.caco3", "pkg/a.txt", "pkg/dir/a.txt", "pkg/dir2/b.txt", "pkg/dirfile", "pkg/sub/x"}
		if r.Bool() {
			files = append(files, "other/y")
		}
		btid++
		rule := &Rule{
			Name:   []string{"fs", "../fs", "/x/fs", "sub/fs", "../../../esc", "/../../esc", "a/../../../esc2"}[r.Intn(7)],
			Files:  pickSome(r, []string{"a.txt", "dir/a.txt", "../other/y", "/pkg/dirfile", "../../outside/secret.txt", "/../outside/secret.txt", "sub/x"}, 0, 2),
			Select: pickSome(r, []string{"**", "dir/**", "dir*/**", "sub/**", "../../outside/**", "/../outside/**", "a.txt", "dir*/*.txt", "../other/**"}, 0, 2),
			Ignore: pickSome(r, []string{"dir/", "dir2/", "sub/", "*.txt", "../", "/"}, 0, 2),
		}
		add(Case{Stream: "build", Op: "build", P: "pkg", Tree: treeEntries(files), TreeID: btid, Rule: rule})
	}
	// builds over a package holding symbolic links (to a directory outside the workspace, to a
	// file outside, dangling).
	for _, sel := range []string{"**", "ld/*", "l*", "ld/sub/**", "lo", "*"} {
		btid++
		t := treeEntries([]string{"pkg/BUILD.caco3", "pkg/a.txt", "pkg/dir/a.txt"})
		t = append(t, TE{P: "pkg/ld", K: "ld", L: "../../outside"}, TE{P: "pkg/ld/secret.txt", V: true},
			TE{P: "pkg/ld/sub", D: true, V: true}, TE{P: "pkg/ld/sub/deep.txt", V: true},
			TE{P: "pkg/lo", K: "lf", L: "../../outside/secret.txt"}, TE{P: "pkg/lb", K: "lb", L: "nowhere"})
		sort.Slice(t, func(i, j int) bool { return t[i].P < t[j].P })
		add(Case{Stream: "build-links", Op: "build", P: "pkg", Tree: t, TreeID: btid,
			Rule: &Rule{Name: "fs", Files: []string{}, Select: []string{sel}, Ignore: []string{}}})
	}
	// download rules built for real against a local HTTP server: a build writes under
	// <root>/out only - not into $TMPDIR, not into the working directory - whether the
	// checksum matches, does not match, the transfer breaks, or there is nothing to get.
	for _, kind := range []string{"match", "mismatch", "truncated", "notfound", "empty"} {
		for _, out := range []string{"file.bin", "sub/deep/file.bin", "../esc.bin", "/abs.bin"} {
			btid++
			add(Case{Stream: "download", Op: "download", Kind: kind, P: "pkg", F: out, TreeID: btid,
				Rule: &Rule{Name: "dl", Files: []string{}, Select: []string{}, Ignore: []string{}}})
		}
	}
	// several file sets in ONE build file, built by one Builder in one call: what one
	// rule lists must not depend on what another rule listed before it (a listing
	// kept on the Builder's env and shared between rules).  all = "**", docs =
	// "docs/**" (a sub-directory with files of the package sorting before it), dist =
	// "**" with an ignore, sub = "docs/sub/**", zz = "zz/**": every order of three of them.
	manyTree := []string{"pkg/BUILD.caco3", "pkg/aa/x", "pkg/a.txt", "pkg/docs/d1.txt", "pkg/docs/sub/d2.txt",
		"pkg/docs/zz.md", "pkg/m.txt", "pkg/zz/z.txt"}
	manyRules := []*Rule{
		{Name: "all", Files: []string{}, Select: []string{"**"}, Ignore: []string{}},
		{Name: "docs", Files: []string{}, Select: []string{"docs/**"}, Ignore: []string{}},
		{Name: "dist", Files: []string{}, Select: []string{"**"}, Ignore: []string{"docs/sub/"}},
		{Name: "sub", Files: []string{}, Select: []string{"docs/sub/**"}, Ignore: []string{}},
		{Name: "zz", Files: []string{}, Select: []string{"zz/**", "docs/**"}, Ignore: []string{"*.md"}},
	}
	for i := range manyRules {
		for j := range manyRules {
			for k := range manyRules {
				if i == j || j == k || i == k {
					continue
				}
				btid++
				add(Case{Stream: "build-many", Op: "buildmany", P: "pkg", Tree: treeEntries(manyTree), TreeID: btid,
					Rules: []*Rule{manyRules[i], manyRules[j], manyRules[k]}})
			}
		}
	}
	// end-to-end builds with unclean / climbing repo-map keys (the loader's package paths).
	for _, key := range []string{"pkg", "./pkg", "pkg/", "pkg/../pkg", "/pkg", "pkg//sub", "../vendor/lib", "a/../..", "../../outside",
		"..", "pkg/../../vendor", "../src/pkg"} {
		for _, rule := range []*Rule{
			{Name: "fs", Files: []string{"a.txt"}, Select: []string{}, Ignore: []string{}},
			{Name: "fs", Files: []string{}, Select: []string{"**"}, Ignore: []string{}},
			{Name: "fs", Files: []string{}, Select: []string{"*.txt"}, Ignore: []string{}},
			{Name: "../fs", Files: []string{"dir/a.txt"}, Select: []string{"dir/**"}, Ignore: []string{"dir2/"}},
		} {
			btid++
			add(Case{Stream: "build-keys", Op: "buildkey", P: key, TreeID: btid, Rule: rule})
		}
	}
	return cs
}

// ---- running ----

func projErr(err error) string {
	if err == nil {
		return ""
	}
	s := err.Error()
	switch {
	case strings.Contains(s, "select no files"):
		return "nofiles"
	case strings.Contains(s, "list all files"):
		return "listerr"
	case strings.Contains(s, "syntax error in pattern"):
		return "badpat"
	}
	return "other:" + s
}

func buildTree(root string, tree []TE) error {
	if err := os.MkdirAll(filepath.Join(root, "src"), 0o755); err != nil {
		return err
	}
	os.MkdirAll(filepath.Join(root, "outside", "sub"), 0o755)
	os.WriteFile(filepath.Join(root, "outside", "secret.txt"), []byte("secret"), 0o644)
	os.WriteFile(filepath.Join(root, "outside", "sub", "deep.txt"), []byte("deep"), 0o644)
	for _, e := range tree {
		p := filepath.Join(root, "src", filepath.FromSlash(e.P))
		if e.V {
			continue
		}
		if e.K != "" {
			if err := os.MkdirAll(filepath.Dir(p), 0o755); err != nil {
				return err
			}
			if err := os.Symlink(e.L, p); err != nil {
				return err
			}
			continue
		}
		if e.D {
			if err := os.MkdirAll(p, 0o755); err != nil {
				return err
			}
			continue
		}
		if err := os.MkdirAll(filepath.Dir(p), 0o755); err != nil {
			return err
		}
		if err := os.WriteFile(p, []byte(e.P), 0o644); err != nil {
			return err
		}
	}
	return nil
}

func runCase(c *Case, scratch string, built map[int]string) {
	defer func() {
		if e := recover(); e != nil {
			c.Crash = fmt.Sprint(e)
		}
	}()
	switch c.Op {
	case "clean":
		c.Out = path.Clean(c.S)
	case "pjoin":
		c.Out = path.Join(c.Elems...)
	case "match":
		pat, str := c.Pat, c.S
		if c.Hex {
			pb, _ := hex.DecodeString(c.Pat)
			sb, _ := hex.DecodeString(c.S)
			pat, str = string(pb), string(sb)
		}
		ok, err := path.Match(pat, str)
		c.Bool = ok
		c.Err = projErr(err)
		fok, ferr := filepath.Match(pat, str)
		c.FBool = fok
		c.FErr = projErr(ferr)
	case "rel":
		c.Out = caco3.VerifMakeRelPath(c.P, c.F)
	case "abs":
		c.Out = caco3.VerifMakePath(c.P, c.F)
	case "src":
		elemsBefore := fmt.Sprintf("%q", c.Elems)
		defer func() {
			if after := fmt.Sprintf("%q", c.Elems); after != elemsBefore {
				c.ArgMod = "env.src(ps ...string): " + elemsBefore + " -> " + after
			}
		}()
		c.Out = caco3.VerifSrc(c.Dir, c.Elems...)
		if o := caco3.VerifOut(c.Dir, c.Elems...); o != c.Out {
			c.Err = "other:src and out differ: " + o
		}
	case "suffix":
		c.Outs = caco3.VerifOutSuffixes(c.S)
	case "fileset":
		root, ok := built[c.TreeID]
		if !ok {
			root = filepath.Join(scratch, fmt.Sprintf("t%d", c.TreeID))
			os.RemoveAll(root)
			if err := buildTree(root, c.Tree); err != nil {
				c.Err = "other:setup: " + err.Error()
				return
			}
			built[c.TreeID] = root
		}
		r := &caco3.FileSet{Name: c.Rule.Name, Files: c.Rule.Files, Select: c.Rule.Select, Ignore: c.Rule.Ignore}
		before := fmt.Sprintf("%q %q %q %q", r.Name, r.Files, r.Select, r.Ignore)
		name, files, out, err := caco3.VerifFileSet(filepath.Join(root, "src"), c.P, r)
		if after := fmt.Sprintf("%q %q %q %q", r.Name, r.Files, r.Select, r.Ignore); after != before {
			c.ArgMod = "newFileSet(*FileSet): " + before + " -> " + after
		}
		c.Err = projErr(err)
		c.Out = name
		c.Outs = files
		if c.Outs == nil {
			c.Outs = []string{}
		}
		if err == nil && out != name+".fileset" {
			c.Err = "other:out name " + out
		}
		c.Outside = physicallyOutside(filepath.Join(root, "src"), files)
	case "build":
		runBuild(c, scratch)
	case "buildkey":
		runBuildKey(c, scratch)
	case "buildmany":
		runBuildMany(c, scratch)
	case "download":
		runDownload(c, scratch)
	case "rule":
		var rule interface{}
		a, b := c.Fields[0], c.Fields[1]
		switch c.Kind {
		case "bundle":
			rule = &caco3.Bundle{Name: a, Deps: []string{b, a}}
		case "download":
			rule = &caco3.Download{Name: a, URL: "https://example.com/x", Checksum: "sha256:00", Output: b}
		case "docker_run":
			rule = &caco3.DockerRun{Name: a, Image: b, Deps: []string{a},
				Input: map[string]string{b: "/in"}, ArchiveInput: map[string]string{a: "/ar"},
				Output: map[string]string{b: "/out"}}
		case "sub_builds":
			rule = &caco3.SubBuilds{Dirs: []string{a, b}}
		}
		name, deps, outs, err := caco3.VerifRuleNames(c.Kind, c.P, rule)
		c.Out = name
		c.Deps = deps
		c.Outs = outs
		if err != nil {
			c.Err = "other:" + err.Error()
		}
	}
}

// physicallyOutside lists the names whose containing directory, with
// symbolic links resolved, is not inside the source tree.
func physicallyOutside(src string, names []string) []string {
	realSrc, err := filepath.EvalSymlinks(src)
	if err != nil {
		return nil
	}
	var out []string
	for _, n := range names {
		if n == "" || n == "." {
			continue
		}
		dir, err := filepath.EvalSymlinks(filepath.Dir(filepath.Join(src, filepath.FromSlash(n))))
		if err != nil {
			continue
		}
		if dir != realSrc && !strings.HasPrefix(dir, realSrc+"/") {
			out = append(out, n)
		}
	}
	return out
}

type snapEnt struct {
	Mode os.FileMode
	Data string
}

func snapDir(root string) map[string]snapEnt {
	m := map[string]snapEnt{}
	filepath.Walk(root, func(p string, info os.FileInfo, err error) error {
		if err != nil {
			return nil
		}
		e := snapEnt{Mode: info.Mode()}
		if info.Mode().IsRegular() {
			b, _ := os.ReadFile(p)
			e.Data = string(b)
		}
		rel, _ := filepath.Rel(root, p)
		m[rel] = e
		return nil
	})
	return m
}

func jsonxStrs(ss []string) string {
	b, _ := json.Marshal(ss)
	return string(b)
}

// runBuild builds one file_set rule through the real Builder in a fresh
// workspace <scratch>/bN/ws and reports every path under <scratch>/bN that
// changed; only ws/out may.
func runBuild(c *Case, scratch string) {
	base := filepath.Join(scratch, fmt.Sprintf("b%d", c.TreeID))
	os.RemoveAll(base)
	defer os.RemoveAll(base)
	ws := filepath.Join(base, "ws")
	if err := buildTree(ws, c.Tree); err != nil {
		c.Err = "other:setup: " + err.Error()
		return
	}
	os.MkdirAll(filepath.Join(base, "outside"), 0o755)
	os.WriteFile(filepath.Join(base, "outside", "secret.txt"), []byte("secret"), 0o644)
	os.WriteFile(filepath.Join(ws, "WORKSPACE.caco3"), []byte("repo_map {\n  Src: {\"pkg\": \"\"},\n}\n"), 0o644)
	nm, _ := json.Marshal(c.Rule.Name)
	bf := fmt.Sprintf("file_set {\n  Name: %s,\n  Files: %s,\n  Select: %s,\n  Ignore: %s,\n}\n",
		nm, jsonxStrs(c.Rule.Files), jsonxStrs(c.Rule.Select), jsonxStrs(c.Rule.Ignore))
	os.WriteFile(filepath.Join(ws, "src", "pkg", "BUILD.caco3"), []byte(bf), 0o644)

	before := snapDir(base)
	log.SetOutput(io.Discard)
	b, err := caco3.NewBuilder(ws, &caco3.Config{Root: ws})
	if err != nil {
		c.Err = "other:builder: " + err.Error()
		return
	}
	if _, errs := b.ReadWorkspace(); errs != nil {
		c.Err = "other:workspace: " + errs[0].Err.Error()
		return
	}
	name := caco3.VerifMakeRelPath(c.P, c.Rule.Name)
	c.Out = name
	errs := b.Build([]string{name})
	if errs != nil {
		cls := projErr(errs[0].Err)
		if strings.HasPrefix(cls, "other:") {
			cls = "other"
		}
		c.Err = "builderr:" + cls
	}
	after := snapDir(base)
	for p, a := range after {
		if bb, ok := before[p]; !ok || bb != a {
			c.Changed = append(c.Changed, p)
		}
	}
	for p := range before {
		if _, ok := after[p]; !ok {
			c.Changed = append(c.Changed, p)
		}
	}
	sort.Strings(c.Changed)
	if errs == nil {
		var list []struct{ Name string }
		bs, err := os.ReadFile(filepath.Join(ws, "out", filepath.FromSlash(name)+".fileset"))
		if err != nil {
			c.Err = "other:no output: " + err.Error()
			return
		}
		if err := json.Unmarshal(bs, &list); err != nil {
			c.Err = "other:output: " + err.Error()
			return
		}
		c.Outs = []string{}
		for _, e := range list {
			c.Outs = append(c.Outs, e.Name)
		}
		c.Outside = physicallyOutside(filepath.Join(ws, "src"), c.Outs)
	}
}

// strays lists "<path> (<size> bytes)" for everything under base, outside
// ws/out, that is not in before.
func strays(base string, before map[string]snapEnt) []string {
	var out []string
	for p, e := range snapDir(base) {
		if p == "ws/out" || strings.HasPrefix(p, "ws/out/") {
			continue
		}
		if _, ok := before[p]; ok {
			continue
		}
		out = append(out, fmt.Sprintf("%s (%d bytes)", p, len(e.Data)))
	}
	sort.Strings(out)
	return out
}

// runDownload builds one download rule with the real Builder.
func runDownload(c *Case, scratch string) {
	base := filepath.Join(scratch, fmt.Sprintf("dl%d", c.TreeID))
	os.RemoveAll(base)
	defer os.RemoveAll(base)
	ws := filepath.Join(base, "ws")
	for _, d := range []string{filepath.Join(ws, "src", "pkg"), filepath.Join(base, "tmp"), filepath.Join(base, "cwd")} {
		if err := os.MkdirAll(d, 0o755); err != nil {
			c.Err = "other:setup: " + err.Error()
			return
		}
	}
	content := []byte(strings.Repeat("downloaded bytes\n", 4096)) // 68 KiB: more than one write
	sum := sha256.Sum256(content)
	if c.Kind == "mismatch" {
		sum = sha256.Sum256([]byte("other bytes"))
	}
	if c.Kind == "empty" {
		content = nil
		sum = sha256.Sum256(nil)
	}
	var before map[string]snapEnt
	var during []string
	srv := httptest.NewServer(http.HandlerFunc(func(w http.ResponseWriter, r *http.Request) {
		if c.Kind == "notfound" {
			http.NotFound(w, r)
			return
		}
		half := len(content) / 2
		if c.Kind == "truncated" {
			w.Header().Set("Content-Length", fmt.Sprint(len(content)))
		}
		w.Write(content[:half])
		if f, ok := w.(http.Flusher); ok {
			f.Flush()
		}
		during = strays(base, before) // what the build has created so far
		if c.Kind == "truncated" {
			if hj, ok := w.(http.Hijacker); ok {
				if conn, _, err := hj.Hijack(); err == nil {
					conn.Close()
				}
			}
			return
		}
		w.Write(content[half:])
	}))
	defer srv.Close()
	os.WriteFile(filepath.Join(ws, "WORKSPACE.caco3"), []byte("repo_map {\n  Src: {\"pkg\": \"\"},\n}\n"), 0o644)
	nm, _ := json.Marshal(c.Rule.Name)
	outName, _ := json.Marshal(c.F)
	bf := fmt.Sprintf("download {\n  Name: %s,\n  URL: %q,\n  Checksum: \"sha256:%s\",\n  Output: %s,\n}\n",
		nm, srv.URL+"/file.bin", hex.EncodeToString(sum[:]), outName)
	os.WriteFile(filepath.Join(ws, "src", "pkg", "BUILD.caco3"), []byte(bf), 0o644)

	oldTmp, hadTmp := os.LookupEnv("TMPDIR")
	os.Setenv("TMPDIR", filepath.Join(base, "tmp"))
	oldWd, _ := os.Getwd()
	os.Chdir(filepath.Join(base, "cwd"))
	defer func() {
		if hadTmp {
			os.Setenv("TMPDIR", oldTmp)
		} else {
			os.Unsetenv("TMPDIR")
		}
		os.Chdir(oldWd)
	}()
	before = snapDir(base)
	log.SetOutput(io.Discard)
	b, err := caco3.NewBuilder(ws, &caco3.Config{Root: ws})
	if err != nil {
		c.Err = "other:builder: " + err.Error()
		return
	}
	if _, errs := b.ReadWorkspace(); errs != nil {
		c.Err = "other:workspace: " + errs[0].Err.Error()
		return
	}
	name := caco3.VerifMakeRelPath("pkg", c.Rule.Name)
	c.Out = name
	if errs := b.Build([]string{name}); errs != nil {
		c.Err = "builderr"
	}
	c.Stray = strays(base, before)
	c.During = during
	c.Outs = []string{}
	for p := range snapDir(filepath.Join(ws, "out")) {
		if p != "." && !strings.HasPrefix(p, "CACHE") {
			c.Outs = append(c.Outs, p)
		}
	}
	sort.Strings(c.Outs)
}

// runBuildMany declares all of c.Rules in pkg/BUILD.caco3 (in the given
// order) and builds them all with one Builder in one Build call.
func runBuildMany(c *Case, scratch string) {
	base := filepath.Join(scratch, fmt.Sprintf("b%d", c.TreeID))
	os.RemoveAll(base)
	defer os.RemoveAll(base)
	ws := filepath.Join(base, "ws")
	if err := buildTree(ws, c.Tree); err != nil {
		c.Err = "other:setup: " + err.Error()
		return
	}
	os.WriteFile(filepath.Join(ws, "WORKSPACE.caco3"), []byte("repo_map {\n  Src: {\"pkg\": \"\"},\n}\n"), 0o644)
	var bf strings.Builder
	var names []string
	for _, r := range c.Rules {
		nm, _ := json.Marshal(r.Name)
		fmt.Fprintf(&bf, "file_set {\n  Name: %s,\n  Files: %s,\n  Select: %s,\n  Ignore: %s,\n}\n",
			nm, jsonxStrs(r.Files), jsonxStrs(r.Select), jsonxStrs(r.Ignore))
		names = append(names, caco3.VerifMakeRelPath(c.P, r.Name))
	}
	os.WriteFile(filepath.Join(ws, "src", "pkg", "BUILD.caco3"), []byte(bf.String()), 0o644)
	log.SetOutput(io.Discard)
	b, err := caco3.NewBuilder(ws, &caco3.Config{Root: ws})
	if err != nil {
		c.Err = "other:builder: " + err.Error()
		return
	}
	if _, errs := b.ReadWorkspace(); errs != nil {
		c.Err = "other:workspace: " + errs[0].Err.Error()
		return
	}
	if errs := b.Build(names); errs != nil {
		cls := projErr(errs[0].Err)
		if strings.HasPrefix(cls, "other:") {
			cls = "other"
		}
		c.Err = "builderr:" + cls
	}
	for _, name := range names {
		m := ManyOut{Out: name, Outs: []string{}}
		var list []struct{ Name string }
		bs, err := os.ReadFile(filepath.Join(ws, "out", filepath.FromSlash(name)+".fileset"))
		if err != nil {
			m.Err = "other:no output"
		} else if err := json.Unmarshal(bs, &list); err != nil {
			m.Err = "other:output: " + err.Error()
		}
		for _, e := range list {
			m.Outs = append(m.Outs, e.Name)
		}
		c.Many = append(c.Many, m)
	}
}

// runBuildKey builds a rule of a package whose repo-map key is c.P, verbatim.
// The package's build file and sources are put where the key, joined
// lexically onto src, leads (possibly outside src or outside the workspace).
func runBuildKey(c *Case, scratch string) {
	base := filepath.Join(scratch, fmt.Sprintf("b%d", c.TreeID))
	os.RemoveAll(base)
	defer os.RemoveAll(base)
	ws := filepath.Join(base, "deep", "ws")
	src := filepath.Join(ws, "src")
	pdir := filepath.Join(src, filepath.FromSlash(c.P))
	c.PkgOutside = pdir != src && !strings.HasPrefix(pdir, src+"/")
	for _, d := range []string{src, pdir, filepath.Join(pdir, "dir"), filepath.Join(pdir, "dir2"), filepath.Join(base, "outside")} {
		os.MkdirAll(d, 0o755)
	}
	for _, f := range []string{"a.txt", "dir/a.txt", "dir2/b.txt", "dirfile"} {
		os.WriteFile(filepath.Join(pdir, f), []byte(f), 0o644)
	}
	key, _ := json.Marshal(c.P)
	os.WriteFile(filepath.Join(ws, "WORKSPACE.caco3"), []byte(fmt.Sprintf("repo_map {\n  Src: {%s: \"\"},\n}\n", key)), 0o644)
	nm, _ := json.Marshal(c.Rule.Name)
	bf := fmt.Sprintf("file_set {\n  Name: %s,\n  Files: %s,\n  Select: %s,\n  Ignore: %s,\n}\n",
		nm, jsonxStrs(c.Rule.Files), jsonxStrs(c.Rule.Select), jsonxStrs(c.Rule.Ignore))
	os.WriteFile(filepath.Join(pdir, "BUILD.caco3"), []byte(bf), 0o644)

	before := snapDir(base)
	log.SetOutput(io.Discard)
	b, err := caco3.NewBuilder(ws, &caco3.Config{Root: ws})
	if err != nil {
		c.Err = "other:builder: " + err.Error()
		return
	}
	if _, errs := b.ReadWorkspace(); errs != nil {
		c.Err = "other:workspace"
		return
	}
	name := caco3.VerifMakeRelPath(c.P, c.Rule.Name)
	c.Out = name
	errs := b.Build([]string{name})
	if errs != nil {
		cls := projErr(errs[0].Err)
		if strings.HasPrefix(cls, "other:") {
			cls = "other"
		}
		c.Err = "builderr:" + cls
	}
	after := snapDir(base)
	for p, a := range after {
		if bb, ok := before[p]; !ok || bb != a {
			c.Changed = append(c.Changed, p)
		}
	}
	sort.Strings(c.Changed)
	if errs == nil {
		c.Loaded = true
		var list []struct{ Name string }
		if bs, err := os.ReadFile(filepath.Join(ws, "out", filepath.FromSlash(name)+".fileset")); err == nil {
			json.Unmarshal(bs, &list)
		}
		c.Outs = []string{}
		for _, e := range list {
			c.Outs = append(c.Outs, e.Name)
		}
	}
}

func main() {
	seed := flag.Uint64("seed", 1, "seed")
	n := flag.Int("n", 1000, "number of random cases")
	thorough := flag.Bool("thorough", false, "larger exhaustive scopes")
	scratch := flag.String("scratch", "", "scratch directory for source trees")
	flag.Parse()
	if *scratch == "" {
		fmt.Fprintln(os.Stderr, "need -scratch")
		os.Exit(2)
	}
	if err := os.MkdirAll(*scratch, 0o755); err != nil {
		fmt.Fprintln(os.Stderr, err)
		os.Exit(2)
	}
	cs := genCases(*seed, *n, *thorough)
	out := hx.NewOut(os.Stdout)
	built := map[int]string{}
	for i := range cs {
		runCase(&cs[i], *scratch, built)
		out.Emit(&cs[i])
	}
	for _, root := range built {
		os.RemoveAll(root)
	}
}
